import Isotp.PyAgree.EvalLemmas
import Isotp.Sock
/-!
  The three option writers of `isotp/tpsock/opts.py` (`GeneralOpts.write`, `FlowControlOpts.write`, `LinkLayerOpts.write`),
  the three guarded wrappers of `isotp/tpsock/__init__.py` (`socket.set_opts`, `set_fc_opts`, `set_ll_opts`) and `socket.bind`:
  the interpreted source (`Src.GeneralOpts_write`, ...) = the model (`Sock.writeOpts`, `writeFc`, `writeLl`, `setOpts`, ..., `bind`),
  for ALL argument values (every `PyVal`, wrong-typed ones included) and every kernel option state.

  Everything but the main theorems lives in the namespace `Isotp.PyAgree.SockOpts` (the helper names would otherwise clash with the
  sibling modules); the main theorems are restated in `Isotp.PyAgree` in the last section (9), followed by `#print axioms`.

  ## How the object world is presented to the interpreter

  * arguments: `optflag ↦ .sc (.py a.optflag)`, ...; the socket `s ↦ .meth "s"` (an opaque object);
  * class / module constants through `constEnv` (`flags.EXTEND_ADDR`, `CAN_ISOTP_OPTS`, ...).  `SOL_CAN_ISOTP` is computed at
    import time in the source (`SOL_CAN_BASE + socket_module.CAN_ISOTP`); it is bound to `pint Sock.solCanIsotp`;
  * `o = cls.read(s)`: `Meths.fn "cls.read" [.meth "s"]` returns the opaque object `.meth "o"`, and the attributes `o.optflag`,
    `o.frame_txtime`, ... are ALREADY bound in the initial environment to the values the kernel currently holds, as `read`
    delivers them: `parseOpts (layoutOpts s.k.opts)` (`getsockopt` + `struct.unpack`).  Nothing reads or writes `o.*` before
    that statement, so this is the same as binding them at the call;
  * `assert_is_socket(s)`: a `Meths.proc` that does nothing (given the socket);
  * `struct.pack(fmt, ...)`: `Meths.fn "struct.pack"` = `structPack`: for the three formats used (`"=LLBBBB"`, `"=L"`, `"=BBB"`)
    and integer arguments (`bool` counts) in range for their field, the `bytes` the model lays out (`layoutOpts`, `le32`,
    `layoutFc` / `layoutLl`); anything else FAILS with `unsupported "struct.error"` (so the theorems also say that `struct.pack`
    never fails in an accepted call).  The uapi layout itself is tied to the real `struct.pack` by the table leaf `Agree.SockConsts`;
  * `s.setsockopt(level, opt, data)`: a `Meths.proc`.  Two versions:
    - `recMeths` RECORDS the call in the environment: the counter `#calls` (initially `0`) and the keys `call.<n>.level`,
      `call.<n>.opt`, `call.<n>.data` for the `n`-th call; `recorded env` decodes that back into a `List Sock.Call`, newest first
      (the order of `Sock.calls`);
    - `failMeths` makes ANY `s.setsockopt` fail with the distinctive `PErr.unsupported "setsockopt"`.  A run under `failMeths` that
      ends in `ValueError` has therefore raised before the first `s.setsockopt` statement was executed.
    The rejection theorems are in fact proved for an ARBITRARY semantics `sso` of `s.setsockopt` (`sockMeths sso`).
  * the wrappers and `bind`: see the heads of sections 6 and 7.

  ## Method

  One lemma per statement (`guarded_exec`, `flagBody_exec`, `gen_stage1` .. `gen_stage7`, `gen_tail_exec`, ...), chained with
  `execBlock_cons_stage` / `execBlock_cons_ok`.  The state of a run is described by an invariant (`GenSt`, `FcSt`, `LlSt`: the
  never-assigned names still hold their initial values, the attributes of `o` hold given integers within the C field ranges, the
  number of recorded calls) instead of an explicit environment term, so the 2^7 None / not-None combinations never have to be
  enumerated; `EqOff ks env env'` (`env'` differs from `env` at most on the keys `ks`) carries lookups across assignments, the
  side conditions `k ∉ ks` being decided on string literals.  The model is restated as the same sequence of stages
  (`writeOpts_eq`, `writeFc_eq`, `writeLl_eq`, `bind_eq`).

  ## Theorems (section 9)

  `or_two_pow_eq_orFlag`; `GeneralOpts_write_reject_any / _reject / _accept / _fail_iff`;
  `FlowControlOpts_write_reject_any / _reject / _accept / _accept_fail`; `LinkLayerOpts_write_...` (the same four);
  `socket_set_opts_exec / _agrees`, `socket_set_fc_opts_exec / _agrees`, `socket_set_ll_opts_exec / _agrees`;
  `socket_bind_reject_any`, `socket_bind_accept`, `socket_bind_nonstr`.

  Values of the object attributes after the run are stated as integers (`IntAt env "o.optflag" n`: bound to a value `v` with
  `asInt v = some n`), not as `pint n`: `isinstance(True, int)` holds in Python (and in the model's `argOk`), so
  `write(s, optflag=True)` stores `True` itself in `o.optflag` (and packs it as `1`).
-/
namespace Isotp.PyAgree.SockOpts
open Isotp Isotp.Py
open Isotp.Sock hiding bind close

/-! ## 1. generic lemmas -/

/-! ### values -/

theorem so_bne_pnone (v : PyVal) : ((PV.sc (.py v)) != pnone) = !v.isNone := by
  cases v <;> simp [PyVal.isNone]
theorem so_pvEq_pnone (v : PyVal) : pvEq (.sc (.py v)) pnone = v.isNone := by
  cases v <;> rfl
theorem so_isinstance_int (v : PyVal) :
    evalBuiltin "isinstance_int" [.sc (.py v)] = some (.ok (pbool v.isInt)) := rfl
theorem so_cmp_lt (v : PyVal) (h : v.isInt = true) (k : Int) :
    evalCmp .lt (.sc (.py v)) (pint k) = .ok (pbool (decide (v.intVal < k))) := by
  cases v <;> simp_all [PyVal.isInt, evalCmp, isNumber, numLt, PyVal.intVal] <;> congr
theorem so_cmp_gt (v : PyVal) (h : v.isInt = true) (k : Int) :
    evalCmp .gt (.sc (.py v)) (pint k) = .ok (pbool (decide (k < v.intVal))) := by
  cases v <;> simp_all [PyVal.isInt, evalCmp, isNumber, numLt, PyVal.intVal] <;> congr

theorem asInt_pint (i : Int) : asInt (pint i) = some i := rfl
theorem asInt_py (v : PyVal) (h : v.isInt = true) : asInt (.sc (.py v)) = some v.intVal := by
  simp [asInt, Sc.isInt, Sc.intVal, h]

/-- `x | y` on two values that are non-negative integers (`bool` counts) -/
theorem evalBinop_bor_asInt (x y : PV) (m n : Nat) (hx : asInt x = some (m : Int)) (hy : asInt y = some (n : Int)) :
    evalBinop .bor x y = .ok (pint ((m ||| n : Nat) : Int)) := by
  have hm : ¬ (m : Int) < 0 := by omega
  have hn : ¬ (n : Int) < 0 := by omega
  simp [evalBinop, hx, hy, hm, hn]

/-- a name that is none of the builtins is dispatched to `Meths` -/
theorem evalBuiltin_none_of (fn : String) (vs : List PV)
    (h : fn ≠ "len" ∧ fn ≠ "int" ∧ fn ≠ "bool" ∧ fn ≠ "min" ∧ fn ≠ "max" ∧ fn ≠ "bytes" ∧ fn ≠ "isinstance_int" ∧
      fn ≠ "isinstance_bool" ∧ fn ≠ "isinstance_float" ∧ fn ≠ "isinstance_int_float") : evalBuiltin fn vs = none := by
  unfold evalBuiltin
  split <;> simp_all

/-! ### the model's `orFlag` is Python's `|` for a single-bit flag -/

theorem so_testBit_add_two_pow_gt (a k j : Nat) (h : a / 2^k % 2 = 0) (hj : k < j) :
    (a + 2^k).testBit j = a.testBit j := by
  obtain ⟨d, rfl⟩ : ∃ d, j = k + 1 + d := ⟨j - k - 1, by omega⟩
  simp only [Nat.testBit_eq_decide_div_mod_eq]
  have e : ∀ x, x / 2^(k+1+d) = x / 2^k / 2 / 2^d := by
    intro x; rw [Nat.div_div_eq_div_mul, Nat.div_div_eq_div_mul, Nat.pow_add, Nat.pow_succ, Nat.mul_assoc]
  rw [e, e, Nat.add_div_right _ (Nat.two_pow_pos k)]
  have : (a / 2^k + 1) / 2 = a / 2^k / 2 := by omega
  rw [this]

/-- `a | 2^k = orFlag a 2^k`, for every `a` -/
theorem or_two_pow_eq_orFlag (a k : Nat) : a ||| 2^k = orFlag a (2^k) := by
  unfold orFlag
  apply Nat.eq_of_testBit_eq
  intro j
  rw [Nat.testBit_or, Nat.testBit_two_pow]
  split
  · rename_i h
    by_cases hjk : k = j
    · subst hjk; simp [Nat.testBit_eq_decide_div_mod_eq, h]
    · simp [hjk]
  · rename_i h
    have h0 : a / 2^k % 2 = 0 := by omega
    rcases Nat.lt_trichotomy j k with hlt | heq | hgt
    · rw [Nat.add_comm, Nat.testBit_two_pow_add_gt hlt]
      have : k ≠ j := by omega
      simp [this]
    · subst heq
      rw [Nat.add_comm, Nat.testBit_two_pow_add_eq]
      simp [Nat.testBit_eq_decide_div_mod_eq, h0]
    · rw [so_testBit_add_two_pow_gt a k j h0 hgt]
      have : k ≠ j := by omega
      simp [this]

/-- the five flags `GeneralOpts.write` (and `bind`) set -/
theorem or_EXTEND_ADDR (a : Nat) : a ||| 2 = orFlag a fEXTEND_ADDR := or_two_pow_eq_orFlag a 1
theorem or_TX_PADDING (a : Nat) : a ||| 4 = orFlag a fTX_PADDING := or_two_pow_eq_orFlag a 2
theorem or_RX_PADDING (a : Nat) : a ||| 8 = orFlag a fRX_PADDING := or_two_pow_eq_orFlag a 3
theorem or_FORCE_TXSTMIN (a : Nat) : a ||| 128 = orFlag a fFORCE_TXSTMIN := or_two_pow_eq_orFlag a 7
theorem or_RX_EXT_ADDR (a : Nat) : a ||| 512 = orFlag a fRX_EXT_ADDR := or_two_pow_eq_orFlag a 9

theorem or_le_u32 (a f : Nat) (ha : a ≤ 0xFFFFFFFF) (hf : f ≤ 0xFFFFFFFF) : a ||| f ≤ 0xFFFFFFFF := by
  have := @Nat.or_lt_two_pow a f 32 (by omega) (by omega)
  omega

/-! ### environments: agreement outside a set of keys -/

/-- `env'` differs from `env` at most on the keys `ks` -/
def EqOff (ks : List String) (env env' : Env) : Prop := ∀ k, k ∉ ks → env' k = env k

theorem EqOff.refl (ks : List String) (env : Env) : EqOff ks env env := fun _ _ => rfl

theorem EqOff.set {ks : List String} {env env' : Env} (h : EqOff ks env env') (k : String) (v : PV) (hk : k ∈ ks) :
    EqOff ks env (env'.set k v) := by
  intro k' hk'
  have : k' ≠ k := fun e => hk' (e ▸ hk)
  simp [Env.set, this, h k' hk']

theorem EqOff.trans {ks : List String} {e1 e2 e3 : Env} (h1 : EqOff ks e1 e2) (h2 : EqOff ks e2 e3) : EqOff ks e1 e3 :=
  fun k hk => (h2 k hk).trans (h1 k hk)

theorem EqOff.mono {ks ks' : List String} {e1 e2 : Env} (h : EqOff ks e1 e2) (hs : ∀ k ∈ ks, k ∈ ks') : EqOff ks' e1 e2 :=
  fun k hk => h k (fun hm => hk (hs k hm))

theorem Env.set_self (env : Env) (k : String) (v : PV) : env.set k v k = some v := by simp [Env.set]
theorem Env.set_ne (env : Env) (k k' : String) (v : PV) (h : k' ≠ k) : env.set k v k' = env k' := by simp [Env.set, h]

/-- the attribute `k` holds the integer `n` (as an `int` or a `bool`) -/
def IntAt (env : Env) (k : String) (n : Nat) : Prop := ∃ v, env k = some v ∧ asInt v = some (n : Int)

theorem IntAt.of_eqOff {ks : List String} {env env' : Env} {k : String} {n : Nat} (h : IntAt env k n)
    (hoff : EqOff ks env env') (hk : k ∉ ks) : IntAt env' k n := by
  obtain ⟨v, hv, hi⟩ := h
  exact ⟨v, (hoff k hk).trans hv, hi⟩

theorem IntAt.of_lookup {env : Env} {k : String} {n : Nat} (v : PV) (h : env k = some v) (hi : asInt v = some (n : Int)) :
    IntAt env k n := ⟨v, h, hi⟩

/-! ### statements -/

theorem execBlock_cons_stage (M : Meths) (env env' : Env) (s : PStmt) (rest : PBlock) (c : Bool) (e : PErr)
    (h : execStmt M env s = if c then .error e else .ok (.next env')) :
    execBlock M env (.cons s rest) = if c then .error e else execBlock M env' rest := by
  cases c <;> simp [execBlock, h]

theorem execBlock_cons_ok (M : Meths) (env env' : Env) (s : PStmt) (rest : PBlock)
    (h : execStmt M env s = .ok (.next env')) :
    execBlock M env (.cons s rest) = execBlock M env' rest := by
  simp [execBlock, h]

theorem exec_assign_var (M : Meths) (env : Env) (tgt nm : String) (x : PV) (h : env nm = some x) :
    execStmt M env (.assign tgt (.var nm)) = .ok (.next (env.set tgt x)) := by
  simp [execStmt, eval, h]

/-- `o.optflag |= flags.X` -/
theorem exec_orflag (M : Meths) (env : Env) (fl : String) (x : PV) (n f : Nat) (hx : env "o.optflag" = some x)
    (hxi : asInt x = some (n : Int)) (hf : env fl = some (pint (f : Nat))) :
    execStmt M env (.assign "o.optflag" (.binop .bor (.var "o.optflag") (.var fl))) =
      .ok (.next (env.set "o.optflag" (pint ((n ||| f : Nat) : Int)))) := by
  simp [execStmt, eval, hx, hf, evalBinop_bor_asInt x (pint (f : Nat)) n f hxi rfl]

def raiseVE : PBlock := .cons (.raise "ValueError") .nil

/-- `if not isinstance(nm, int) or nm < 0 or nm > hi: raise ValueError(..)` -/
def rangeCheck (nm : String) (hi : Int) : PStmt :=
  .ite (.or_ (.not_ (.call "isinstance_int" (.cons (.var nm) .nil)))
        (.or_ (.cmp .lt (.var nm) (.int 0)) (.cmp .gt (.var nm) (.int hi)))) raiseVE .nil

theorem rangeCheck_exec (M : Meths) (env : Env) (nm : String) (v : PyVal) (hi : Int) (h : env nm = some (.sc (.py v))) :
    execStmt M env (rangeCheck nm hi) = if argOk v hi then .ok (.next env) else .error (.exc .ValueError) := by
  cases hi' : v.isInt
  · simp [rangeCheck, raiseVE, execStmt, execBlock, eval, evalArgs, h, so_isinstance_int, hi', argOk]
  · by_cases h1 : v.intVal < 0
    · have h1' : ¬ 0 ≤ v.intVal := by omega
      simp [rangeCheck, raiseVE, execStmt, execBlock, eval, evalArgs, h, so_isinstance_int, hi', argOk, so_cmp_lt, h1, h1']
    · have h1' : 0 ≤ v.intVal := by omega
      by_cases h2 : hi < v.intVal
      · have h2' : ¬ v.intVal ≤ hi := by omega
        simp [rangeCheck, raiseVE, execStmt, execBlock, eval, evalArgs, h, so_isinstance_int, hi', argOk, so_cmp_lt, so_cmp_gt,
          h1, h1', h2, h2']
      · have h2' : v.intVal ≤ hi := by omega
        simp [rangeCheck, raiseVE, execStmt, execBlock, eval, evalArgs, h, so_isinstance_int, hi', argOk, so_cmp_lt, so_cmp_gt,
          h1, h1', h2, h2']

/-- `if <nm is given>: <range check of nm>; <body>` (the guard is `nm is not None` in `GeneralOpts`, `nm != None` in the other two) -/
def guarded (g : PExpr) (nm : String) (hi : Int) (body : PBlock) : PStmt :=
  .ite g (.cons (rangeCheck nm hi) body) .nil

/-- the model's rejection test for one argument -/
def rej (v : PyVal) (hi : Int) : Bool := !v.isNone && !argOk v hi

theorem guarded_exec (M : Meths) (env : Env) (g : PExpr) (nm : String) (v : PyVal) (hi : Int) (body : PBlock)
    (h : env nm = some (.sc (.py v))) (hg : eval M env g = .ok (pbool (!v.isNone))) :
    execStmt M env (guarded g nm hi body) =
      if rej v hi then .error (.exc .ValueError) else if v.isNone then .ok (.next env) else execBlock M env body := by
  cases hn : v.isNone
  · cases ha : argOk v hi <;>
      simp [guarded, execStmt, execBlock, hg, hn, rej, ha, rangeCheck_exec M env nm v hi h]
  · simp [guarded, execStmt, execBlock, hg, hn, rej]

theorem eval_isNotNone_var (M : Meths) (env : Env) (nm : String) (v : PyVal) (h : env nm = some (.sc (.py v))) :
    eval M env (.isNotNone (.var nm)) = .ok (pbool (!v.isNone)) := by
  simp [eval, h, so_bne_pnone]

theorem eval_ne_none_var (M : Meths) (env : Env) (nm : String) (v : PyVal) (h : env nm = some (.sc (.py v))) :
    eval M env (.cmp .ne (.var nm) .none) = .ok (pbool (!v.isNone)) := by
  simp [eval, h, so_pvEq_pnone]

/-- an accepted, given argument is a non-negative integer within its bound -/
theorem rej_false_given (v : PyVal) (hi : Int) (hr : rej v hi = false) (hn : v.isNone = false) :
    v.isInt = true ∧ 0 ≤ v.intVal ∧ v.intVal ≤ hi := by
  simp [rej, hn, argOk] at hr
  exact ⟨hr.1.1, hr.1.2, hr.2⟩

theorem asInt_given (v : PyVal) (hi : Int) (hr : rej v hi = false) (hn : v.isNone = false) :
    asInt (.sc (.py v)) = some ((v.intVal.toNat : Nat) : Int) := by
  obtain ⟨h1, h2, _⟩ := rej_false_given v hi hr hn
  rw [asInt_py v h1, Int.toNat_of_nonneg h2]

theorem toNat_le_given (v : PyVal) (hi : Nat) (hr : rej v (hi : Int) = false) (hn : v.isNone = false) :
    v.intVal.toNat ≤ hi := by
  obtain ⟨_, h2, h3⟩ := rej_false_given v hi hr hn
  omega

/-! ## 2. the object world: `struct.pack`, `cls.read`, `assert_is_socket`, `s.setsockopt` -/

/-- an argument of `struct.pack` for an unsigned field with maximum `hi`: an integer (`bool` counts) in range -/
def packArg (v : PV) (hi : Int) : Option Nat :=
  match asInt v with
  | some i => if 0 ≤ i ∧ i ≤ hi then some i.toNat else none
  | none => none

/-- `struct.pack` on the three formats the option structs use (native byte order without alignment, little-endian host):
    the model's layouts; `struct.error` (here: `unsupported "struct.error"`) for a non-integer or out-of-range argument. -/
def structPack : List PV → Except PErr PV
  | [.str fmt, a, b, c, d, e, f] =>
    if fmt = "=LLBBBB" then
      match packArg a 0xFFFFFFFF, packArg b 0xFFFFFFFF, packArg c 0xFF, packArg d 0xFF, packArg e 0xFF, packArg f 0xFF with
      | some a, some b, some c, some d, some e, some f =>
        .ok (.bytes (layoutOpts { flags := a, frameTxtime := b, extAddress := c, txpad := d, rxpad := e, rxExtAddress := f }))
      | _, _, _, _, _, _ => .error (.unsupported "struct.error")
    else .error (.unsupported "struct.pack: format")
  | [.str fmt, a] =>
    if fmt = "=L" then
      match packArg a 0xFFFFFFFF with
      | some a => .ok (.bytes (le32 a))
      | none => .error (.unsupported "struct.error")
    else .error (.unsupported "struct.pack: format")
  | [.str fmt, a, b, c] =>
    if fmt = "=BBB" then
      match packArg a 0xFF, packArg b 0xFF, packArg c 0xFF with
      | some a, some b, some c => .ok (.bytes [u8 a, u8 b, u8 c])
      | _, _, _ => .error (.unsupported "struct.error")
    else .error (.unsupported "struct.pack: format")
  | _ => .error (.unsupported "struct.pack: format")

theorem packArg_of (v : PV) (n : Nat) (hi : Int) (h : asInt v = some (n : Int)) (hb : (n : Int) ≤ hi) : packArg v hi = some n := by
  simp [packArg, h, hb]

theorem structPack_L (a : PV) (n : Nat) (h : asInt a = some (n : Int)) (hb : n ≤ 0xFFFFFFFF) :
    structPack [.str "=L", a] = .ok (.bytes (le32 n)) := by
  have := packArg_of a n 0xFFFFFFFF h (by omega)
  simp [structPack, this]

theorem structPack_BBB (a b c : PV) (x y z : Nat) (ha : asInt a = some (x : Int)) (hb : asInt b = some (y : Int))
    (hc : asInt c = some (z : Int)) (bx : x ≤ 0xFF) (bY : y ≤ 0xFF) (bz : z ≤ 0xFF) :
    structPack [.str "=BBB", a, b, c] = .ok (.bytes [u8 x, u8 y, u8 z]) := by
  have h1 := packArg_of a x 0xFF ha (by omega)
  have h2 := packArg_of b y 0xFF hb (by omega)
  have h3 := packArg_of c z 0xFF hc (by omega)
  simp [structPack, h1, h2, h3]

theorem structPack_LLBBBB (a b c d e f : PV) (o : KOpts)
    (ha : asInt a = some (o.flags : Int)) (hb : asInt b = some (o.frameTxtime : Int))
    (hc : asInt c = some (o.extAddress : Int)) (hd : asInt d = some (o.txpad : Int)) (he : asInt e = some (o.rxpad : Int))
    (hf : asInt f = some (o.rxExtAddress : Int))
    (b1 : o.flags ≤ 0xFFFFFFFF) (b2 : o.frameTxtime ≤ 0xFFFFFFFF) (b3 : o.extAddress ≤ 0xFF) (b4 : o.txpad ≤ 0xFF)
    (b5 : o.rxpad ≤ 0xFF) (b6 : o.rxExtAddress ≤ 0xFF) :
    structPack [.str "=LLBBBB", a, b, c, d, e, f] = .ok (.bytes (layoutOpts o)) := by
  have h1 := packArg_of a _ 0xFFFFFFFF ha (by omega)
  have h2 := packArg_of b _ 0xFFFFFFFF hb (by omega)
  have h3 := packArg_of c _ 0xFF hc (by omega)
  have h4 := packArg_of d _ 0xFF hd (by omega)
  have h5 := packArg_of e _ 0xFF he (by omega)
  have h6 := packArg_of f _ 0xFF hf (by omega)
  simp [structPack, h1, h2, h3, h4, h5, h6]

/-- the methods / functions the writers call; `sso` is the semantics of `s.setsockopt(level, opt, data)` -/
def sockMeths (sso : List PV → Env → Except PErr Env) : Meths where
  fn := fun n args _ =>
    if n = "cls.read" then (match args with | [.meth "s"] => .ok (.meth "o") | _ => .error (.unsupported "cls.read: argument"))
    else if n = "struct.pack" then structPack args
    else .error (.unsupported ("call " ++ n))
  proc := fun n args env =>
    if n = "assert_is_socket" then (match args with | [.meth "s"] => .ok env | _ => .error (.exc .ValueError))
    else if n = "s.setsockopt" then sso args env
    else .error (.unsupported ("call " ++ n))

theorem sockMeths_pack (sso) (args : List PV) (env : Env) : (sockMeths sso).fn "struct.pack" args env = structPack args := by
  simp [sockMeths]
theorem sockMeths_read (sso) (env : Env) : (sockMeths sso).fn "cls.read" [.meth "s"] env = .ok (.meth "o") := by
  simp [sockMeths]
theorem sockMeths_assert (sso) (env : Env) : (sockMeths sso).proc "assert_is_socket" [.meth "s"] env = .ok env := by
  simp [sockMeths]
theorem sockMeths_sso (sso) (args : List PV) (env : Env) : (sockMeths sso).proc "s.setsockopt" args env = sso args env := by
  simp [sockMeths]

/-! ### recording `setsockopt` -/

def callKey (i : Nat) (field : String) : String := "call." ++ toString i ++ "." ++ field

/-- the environment after the `c`-th call (counting from 0) `s.setsockopt(lvl, opt, d)` has been recorded -/
def logCall (env : Env) (c : Nat) (lvl opt : Int) (d : Bytes) : Env :=
  (((env.set (callKey c "level") (pint lvl)).set (callKey c "opt") (pint opt)).set (callKey c "data") (.bytes d)).set
    "#calls" (pint ((c + 1 : Nat) : Int))

/-- recording `s.setsockopt` -/
def recordSso : List PV → Env → Except PErr Env
  | [.sc (.py (.int lvl)), .sc (.py (.int opt)), .bytes d], env =>
    match env "#calls" with
    | some (.sc (.py (.int n))) => .ok (logCall env n.toNat lvl opt d)
    | _ => .error (.unsupported "setsockopt: no call counter")
  | _, _ => .error (.unsupported "setsockopt: argument types")

/-- every `s.setsockopt` fails, distinctively -/
def failSso : List PV → Env → Except PErr Env := fun _ _ => .error (.unsupported "setsockopt")

def recMeths : Meths := sockMeths recordSso
def failMeths : Meths := sockMeths failSso

/-- the `i`-th recorded call -/
def recordedCall (env : Env) (i : Nat) : Option Call :=
  match env (callKey i "level"), env (callKey i "opt"), env (callKey i "data") with
  | some (.sc (.py (.int l))), some (.sc (.py (.int o))), some (.bytes d) => some (.setopt l.toNat o.toNat d)
  | _, _, _ => none

/-- all the recorded calls, newest first (the order of `Sock.calls`) -/
def recorded (env : Env) : Option (List Call) :=
  match env "#calls" with
  | some (.sc (.py (.int n))) => ((List.range n.toNat).reverse).mapM (recordedCall env)
  | _ => none

theorem callKey_0_level : callKey 0 "level" = "call.0.level" := by decide
theorem callKey_0_opt : callKey 0 "opt" = "call.0.opt" := by decide
theorem callKey_0_data : callKey 0 "data" = "call.0.data" := by decide
theorem callKey_1_level : callKey 1 "level" = "call.1.level" := by decide
theorem callKey_1_opt : callKey 1 "opt" = "call.1.opt" := by decide
theorem callKey_1_data : callKey 1 "data" = "call.1.data" := by decide

theorem recordSso_at (env : Env) (c : Nat) (lvl opt : Nat) (d : Bytes) (h : env "#calls" = some (pint (c : Nat))) :
    recordSso [pint (lvl : Nat), pint (opt : Nat), .bytes d] env = .ok (logCall env c lvl opt d) := by
  simp [recordSso, h]

def keys0 : List String := ["call.0.level", "call.0.opt", "call.0.data", "#calls"]
def keys1 : List String := ["call.1.level", "call.1.opt", "call.1.data", "#calls"]

theorem logCall_0 (env : Env) (lvl opt : Int) (d : Bytes) :
    logCall env 0 lvl opt d "#calls" = some (pint 1) ∧
    logCall env 0 lvl opt d "call.0.level" = some (pint lvl) ∧
    logCall env 0 lvl opt d "call.0.opt" = some (pint opt) ∧
    logCall env 0 lvl opt d "call.0.data" = some (.bytes d) ∧
    EqOff keys0 env (logCall env 0 lvl opt d) := by
  simp only [logCall, callKey_0_level, callKey_0_opt, callKey_0_data]
  refine ⟨by simp [Env.set], by simp [Env.set], by simp [Env.set], by simp [Env.set], ?_⟩
  exact ((((EqOff.refl keys0 env).set _ _ (by decide)).set _ _ (by decide)).set _ _ (by decide)).set _ _ (by decide)

theorem logCall_1 (env : Env) (lvl opt : Int) (d : Bytes) :
    logCall env 1 lvl opt d "#calls" = some (pint 2) ∧
    logCall env 1 lvl opt d "call.1.level" = some (pint lvl) ∧
    logCall env 1 lvl opt d "call.1.opt" = some (pint opt) ∧
    logCall env 1 lvl opt d "call.1.data" = some (.bytes d) ∧
    EqOff keys1 env (logCall env 1 lvl opt d) := by
  simp only [logCall, callKey_1_level, callKey_1_opt, callKey_1_data]
  refine ⟨by simp [Env.set], by simp [Env.set], by simp [Env.set], by simp [Env.set], ?_⟩
  exact ((((EqOff.refl keys1 env).set _ _ (by decide)).set _ _ (by decide)).set _ _ (by decide)).set _ _ (by decide)

theorem recorded_one (env : Env) (l o : Nat) (d : Bytes) (hc : env "#calls" = some (pint 1))
    (h1 : env "call.0.level" = some (pint (l : Nat))) (h2 : env "call.0.opt" = some (pint (o : Nat)))
    (h3 : env "call.0.data" = some (.bytes d)) : recorded env = some [.setopt l o d] := by
  simp [recorded, hc, List.range_succ, recordedCall, callKey_0_level, callKey_0_opt, callKey_0_data, h1, h2, h3]

theorem recorded_two (env : Env) (l o l' o' : Nat) (d d' : Bytes) (hc : env "#calls" = some (pint 2))
    (h1 : env "call.0.level" = some (pint (l : Nat))) (h2 : env "call.0.opt" = some (pint (o : Nat)))
    (h3 : env "call.0.data" = some (.bytes d))
    (h4 : env "call.1.level" = some (pint (l' : Nat))) (h5 : env "call.1.opt" = some (pint (o' : Nat)))
    (h6 : env "call.1.data" = some (.bytes d')) : recorded env = some [.setopt l' o' d', .setopt l o d] := by
  simp [recorded, hc, List.range_succ, recordedCall, callKey_0_level, callKey_0_opt, callKey_0_data,
    callKey_1_level, callKey_1_opt, callKey_1_data, h1, h2, h3, h4, h5, h6]


theorem eb_struct_pack (vs : List PV) : evalBuiltin "struct.pack" vs = none := evalBuiltin_none_of _ _ (by decide)
theorem eb_cls_read (vs : List PV) : evalBuiltin "cls.read" vs = none := evalBuiltin_none_of _ _ (by decide)
theorem eb_assert_is_socket (vs : List PV) : evalBuiltin "assert_is_socket" vs = none := evalBuiltin_none_of _ _ (by decide)
theorem eb_setsockopt (vs : List PV) : evalBuiltin "s.setsockopt" vs = none := evalBuiltin_none_of _ _ (by decide)

/-- `assert_is_socket(s)` -/
def stmtAssertSocket : PStmt := .expr (.call "assert_is_socket" (.cons (.var "s") .nil))
/-- `o = cls.read(s)` -/
def stmtRead : PStmt := .assign "o" (.call "cls.read" (.cons (.var "s") .nil))

theorem stmtAssertSocket_exec (sso) (env : Env) (hs : env "s" = some (.meth "s")) :
    execStmt (sockMeths sso) env stmtAssertSocket = .ok (.next env) := by
  simp [stmtAssertSocket, execStmt, evalArgs, eval, hs, eb_assert_is_socket, sockMeths_assert]

theorem stmtRead_exec (sso) (env : Env) (hs : env "s" = some (.meth "s")) :
    execStmt (sockMeths sso) env stmtRead = .ok (.next (env.set "o" (.meth "o"))) := by
  simp [stmtRead, execStmt, evalArgs, eval, hs, eb_cls_read, sockMeths_read]

/-- `s.setsockopt(SOL_CAN_ISOTP, <optName>, opt)` -/
def stmtSso (optName : String) : PStmt :=
  .expr (.call "s.setsockopt" (.cons (.var "SOL_CAN_ISOTP") (.cons (.var optName) (.cons (.var "opt") .nil))))

theorem stmtSso_exec (sso) (env : Env) (optName : String) (l o d : PV) (h1 : env "SOL_CAN_ISOTP" = some l)
    (h2 : env optName = some o) (h3 : env "opt" = some d) :
    execStmt (sockMeths sso) env (stmtSso optName) = (sso [l, o, d] env >>= fun e => .ok (.next e)) := by
  simp [stmtSso, execStmt, evalArgs, eval, h1, h2, h3, eb_setsockopt, sockMeths_sso]

/-! ## 3. `GeneralOpts.write` -/

/-- the world `GeneralOpts.write(s, optflag, frame_txtime, ext_address, txpad, rxpad, rx_ext_address, tx_stmin)` runs in
    (see the head of the file) -/
def genEnv (s : Sock) (a : OptsArgs) : Env := fun k =>
  match k with
  | "s" => some (.meth "s")
  | "optflag" => some (.sc (.py a.optflag))
  | "frame_txtime" => some (.sc (.py a.frameTxtime))
  | "ext_address" => some (.sc (.py a.extAddress))
  | "txpad" => some (.sc (.py a.txpad))
  | "rxpad" => some (.sc (.py a.rxpad))
  | "rx_ext_address" => some (.sc (.py a.rxExtAddress))
  | "tx_stmin" => some (.sc (.py a.txStmin))
  | "o.optflag" => some (pint ((parseOpts (layoutOpts s.k.opts)).flags : Nat))
  | "o.frame_txtime" => some (pint ((parseOpts (layoutOpts s.k.opts)).frameTxtime : Nat))
  | "o.ext_address" => some (pint ((parseOpts (layoutOpts s.k.opts)).extAddress : Nat))
  | "o.txpad" => some (pint ((parseOpts (layoutOpts s.k.opts)).txpad : Nat))
  | "o.rxpad" => some (pint ((parseOpts (layoutOpts s.k.opts)).rxpad : Nat))
  | "o.rx_ext_address" => some (pint ((parseOpts (layoutOpts s.k.opts)).rxExtAddress : Nat))
  | "SOL_CAN_ISOTP" => some (pint (solCanIsotp : Nat))
  | "#calls" => some (pint ((0 : Nat) : Int))
  | _ => constEnv k

section genLookups
variable (s : Sock) (a : OptsArgs)
theorem genEnv_s : genEnv s a "s" = some (.meth "s") := rfl
theorem genEnv_optflag : genEnv s a "optflag" = some (.sc (.py a.optflag)) := rfl
theorem genEnv_frame_txtime : genEnv s a "frame_txtime" = some (.sc (.py a.frameTxtime)) := rfl
theorem genEnv_ext_address : genEnv s a "ext_address" = some (.sc (.py a.extAddress)) := rfl
theorem genEnv_txpad : genEnv s a "txpad" = some (.sc (.py a.txpad)) := rfl
theorem genEnv_rxpad : genEnv s a "rxpad" = some (.sc (.py a.rxpad)) := rfl
theorem genEnv_rx_ext_address : genEnv s a "rx_ext_address" = some (.sc (.py a.rxExtAddress)) := rfl
theorem genEnv_tx_stmin : genEnv s a "tx_stmin" = some (.sc (.py a.txStmin)) := rfl
theorem genEnv_o_optflag : genEnv s a "o.optflag" = some (pint ((parseOpts (layoutOpts s.k.opts)).flags : Nat)) := rfl
theorem genEnv_o_frame_txtime :
    genEnv s a "o.frame_txtime" = some (pint ((parseOpts (layoutOpts s.k.opts)).frameTxtime : Nat)) := rfl
theorem genEnv_o_ext_address :
    genEnv s a "o.ext_address" = some (pint ((parseOpts (layoutOpts s.k.opts)).extAddress : Nat)) := rfl
theorem genEnv_o_txpad : genEnv s a "o.txpad" = some (pint ((parseOpts (layoutOpts s.k.opts)).txpad : Nat)) := rfl
theorem genEnv_o_rxpad : genEnv s a "o.rxpad" = some (pint ((parseOpts (layoutOpts s.k.opts)).rxpad : Nat)) := rfl
theorem genEnv_o_rx_ext_address :
    genEnv s a "o.rx_ext_address" = some (pint ((parseOpts (layoutOpts s.k.opts)).rxExtAddress : Nat)) := rfl
theorem genEnv_SOL : genEnv s a "SOL_CAN_ISOTP" = some (pint (solCanIsotp : Nat)) := rfl
theorem genEnv_calls : genEnv s a "#calls" = some (pint ((0 : Nat) : Int)) := rfl
theorem genEnv_o : genEnv s a "o" = none := rfl
/- the constants, as dumped from the source (`Src.consts`) -/
theorem genEnv_OPTS : genEnv s a "CAN_ISOTP_OPTS" = some (pint (optOPTS : Nat)) := rfl
theorem genEnv_TX_STMIN : genEnv s a "CAN_ISOTP_TX_STMIN" = some (pint (optTX_STMIN : Nat)) := rfl
theorem genEnv_EXTEND_ADDR : genEnv s a "flags.EXTEND_ADDR" = some (pint ((2 : Nat) : Int)) := rfl
theorem genEnv_TX_PADDING : genEnv s a "flags.TX_PADDING" = some (pint ((4 : Nat) : Int)) := rfl
theorem genEnv_RX_PADDING : genEnv s a "flags.RX_PADDING" = some (pint ((8 : Nat) : Int)) := rfl
theorem genEnv_FORCE_TXSTMIN : genEnv s a "flags.FORCE_TXSTMIN" = some (pint ((128 : Nat) : Int)) := rfl
theorem genEnv_RX_EXT_ADDR : genEnv s a "flags.RX_EXT_ADDR" = some (pint ((512 : Nat) : Int)) := rfl
end genLookups


/-- names never assigned by `GeneralOpts.write` -/
def genKeys : List String :=
  ["s", "optflag", "frame_txtime", "ext_address", "txpad", "rxpad", "rx_ext_address", "tx_stmin", "SOL_CAN_ISOTP",
   "CAN_ISOTP_OPTS", "CAN_ISOTP_TX_STMIN", "flags.EXTEND_ADDR", "flags.TX_PADDING", "flags.RX_PADDING", "flags.FORCE_TXSTMIN",
   "flags.RX_EXT_ADDR"]

/-- every field of the option struct fits its C type -/
def optsWf (o : KOpts) : Prop :=
  o.flags ≤ 0xFFFFFFFF ∧ o.frameTxtime ≤ 0xFFFFFFFF ∧ o.extAddress ≤ 0xFF ∧ o.txpad ≤ 0xFF ∧ o.rxpad ≤ 0xFF ∧ o.rxExtAddress ≤ 0xFF

/-- `env` is a state of the run of `GeneralOpts.write(s, **a)` in which the object `o` holds the integers `o` and
    `c` calls of `setsockopt` have been recorded -/
structure GenSt (s : Sock) (a : OptsArgs) (o : KOpts) (c : Nat) (env : Env) : Prop where
  stat : ∀ k ∈ genKeys, env k = genEnv s a k
  calls : env "#calls" = some (pint (c : Nat))
  obj : env "o" = some (.meth "o")
  f1 : IntAt env "o.optflag" o.flags
  f2 : IntAt env "o.frame_txtime" o.frameTxtime
  f3 : IntAt env "o.ext_address" o.extAddress
  f4 : IntAt env "o.txpad" o.txpad
  f5 : IntAt env "o.rxpad" o.rxpad
  f6 : IntAt env "o.rx_ext_address" o.rxExtAddress
  wf : optsWf o

theorem GenSt.mk' {s : Sock} {a : OptsArgs} {o : KOpts} {c : Nat} {env env' : Env} (h : GenSt s a o c env)
    {ks : List String} (hoff : EqOff ks env env') (hd : ∀ k ∈ genKeys ++ ["o"], k ∉ ks) (o' : KOpts) (c' : Nat)
    (calls : env' "#calls" = some (pint (c' : Nat)))
    (f1 : IntAt env' "o.optflag" o'.flags) (f2 : IntAt env' "o.frame_txtime" o'.frameTxtime)
    (f3 : IntAt env' "o.ext_address" o'.extAddress) (f4 : IntAt env' "o.txpad" o'.txpad)
    (f5 : IntAt env' "o.rxpad" o'.rxpad) (f6 : IntAt env' "o.rx_ext_address" o'.rxExtAddress) (wf : optsWf o') :
    GenSt s a o' c' env' where
  stat := fun k hk => (hoff k (hd k (List.mem_append_left _ hk))).trans (h.stat k hk)
  calls := calls
  obj := (hoff "o" (hd "o" (by simp))).trans h.obj
  f1 := f1
  f2 := f2
  f3 := f3
  f4 := f4
  f5 := f5
  f6 := f6
  wf := wf

def upd1 (a : OptsArgs) (o : KOpts) : KOpts := if a.optflag.isNone then o else { o with flags := a.optflag.intVal.toNat }
def upd2 (a : OptsArgs) (o : KOpts) : KOpts :=
  if a.frameTxtime.isNone then o else { o with frameTxtime := a.frameTxtime.intVal.toNat }
def upd3 (a : OptsArgs) (o : KOpts) : KOpts :=
  if a.extAddress.isNone then o else { o with extAddress := a.extAddress.intVal.toNat, flags := orFlag o.flags fEXTEND_ADDR }
def upd4 (a : OptsArgs) (o : KOpts) : KOpts :=
  if a.txpad.isNone then o else { o with txpad := a.txpad.intVal.toNat, flags := orFlag o.flags fTX_PADDING }
def upd5 (a : OptsArgs) (o : KOpts) : KOpts :=
  if a.rxpad.isNone then o else { o with rxpad := a.rxpad.intVal.toNat, flags := orFlag o.flags fRX_PADDING }
def upd6 (a : OptsArgs) (o : KOpts) : KOpts :=
  if a.rxExtAddress.isNone then o else { o with rxExtAddress := a.rxExtAddress.intVal.toNat, flags := orFlag o.flags fRX_EXT_ADDR }
def upd7 (a : OptsArgs) (o : KOpts) : KOpts :=
  if a.txStmin.isNone then o else { o with flags := orFlag o.flags fFORCE_TXSTMIN }
def sock7 (s : Sock) (a : OptsArgs) : Sock :=
  if a.txStmin.isNone then s else s.sso optTX_STMIN (le32 a.txStmin.intVal.toNat)

def genStmt1 : PStmt :=
  guarded (.isNotNone (.var "optflag")) "optflag" 4294967295 (.cons (.assign "o.optflag" (.var "optflag")) .nil)
def genStmt2 : PStmt :=
  guarded (.isNotNone (.var "frame_txtime")) "frame_txtime" 4294967295 (.cons (.assign "o.frame_txtime" (.var "frame_txtime")) .nil)
/-- `o.<tgt> = <nm>; o.optflag |= <fl>` -/
def flagBody (tgt nm fl : String) : PBlock :=
  .cons (.assign tgt (.var nm)) (.cons (.assign "o.optflag" (.binop .bor (.var "o.optflag") (.var fl))) .nil)
def genStmt3 : PStmt :=
  guarded (.isNotNone (.var "ext_address")) "ext_address" 255 (flagBody "o.ext_address" "ext_address" "flags.EXTEND_ADDR")
def genStmt4 : PStmt :=
  guarded (.isNotNone (.var "txpad")) "txpad" 255 (flagBody "o.txpad" "txpad" "flags.TX_PADDING")
def genStmt5 : PStmt :=
  guarded (.isNotNone (.var "rxpad")) "rxpad" 255 (flagBody "o.rxpad" "rxpad" "flags.RX_PADDING")
def genStmt6 : PStmt :=
  guarded (.isNotNone (.var "rx_ext_address")) "rx_ext_address" 255 (flagBody "o.rx_ext_address" "rx_ext_address" "flags.RX_EXT_ADDR")
def genStmt7 : PStmt :=
  guarded (.isNotNone (.var "tx_stmin")) "tx_stmin" 4294967295
    (.cons (.assign "o.optflag" (.binop .bor (.var "o.optflag") (.var "flags.FORCE_TXSTMIN")))
    (.cons (.expr (.call "s.setsockopt" (.cons (.var "SOL_CAN_ISOTP") (.cons (.var "CAN_ISOTP_TX_STMIN")
      (.cons (.call "struct.pack" (.cons (.strLit "=L") (.cons (.var "tx_stmin") .nil))) .nil))))) .nil))
def genTail : PBlock :=
  .cons (.assign "opt" (.call "struct.pack" (.cons (.strLit "=LLBBBB") (.cons (.var "o.optflag") (.cons (.var "o.frame_txtime")
    (.cons (.var "o.ext_address") (.cons (.var "o.txpad") (.cons (.var "o.rxpad") (.cons (.var "o.rx_ext_address") .nil)))))))))
  (.cons (stmtSso "CAN_ISOTP_OPTS") (.cons (.ret (.var "o")) .nil))

/-- the dumped source, statement by statement -/
theorem gen_body_eq : Src.GeneralOpts_write =
    .cons stmtAssertSocket (.cons stmtRead (.cons (.assert_ (.isNotNone (.var "o.optflag")))
    (.cons genStmt1 (.cons genStmt2 (.cons genStmt3 (.cons genStmt4 (.cons genStmt5 (.cons genStmt6 (.cons genStmt7 genTail))))))))) := rfl

theorem flagBody_exec (M : Meths) (env : Env) (tgt nm fl : String) (v : PyVal) (x : PV) (n f : Nat)
    (hv : env nm = some (.sc (.py v))) (hx : env "o.optflag" = some x) (hxi : asInt x = some (n : Int))
    (hf : env fl = some (pint (f : Nat))) (ht1 : "o.optflag" ≠ tgt) (ht2 : fl ≠ tgt) :
    execBlock M env (flagBody tgt nm fl) =
      .ok (.next ((env.set tgt (.sc (.py v))).set "o.optflag" (pint ((n ||| f : Nat) : Int)))) := by
  have hx' : (env.set tgt (.sc (.py v))) "o.optflag" = some x := (Env.set_ne _ _ _ _ ht1).trans hx
  have hf' : (env.set tgt (.sc (.py v))) fl = some (pint (f : Nat)) := (Env.set_ne _ _ _ _ ht2).trans hf
  simp [flagBody, execBlock, exec_assign_var M env _ _ _ hv, exec_orflag M _ fl x n f hx' hxi hf']


theorem gen_stage1 (M : Meths) {s : Sock} {a : OptsArgs} {o : KOpts} {c : Nat} {env : Env} (h : GenSt s a o c env) :
    ∃ env', execStmt M env genStmt1 =
        (if rej a.optflag 0xFFFFFFFF then .error (.exc .ValueError) else .ok (.next env')) ∧
      (rej a.optflag 0xFFFFFFFF = false → GenSt s a (upd1 a o) c env') := by
  have hv : env "optflag" = some (.sc (.py a.optflag)) := (h.stat _ (by decide)).trans (genEnv_optflag s a)
  rw [genStmt1, guarded_exec M env _ _ _ _ _ hv (eval_isNotNone_var M env _ _ hv)]
  cases hr : rej a.optflag 0xFFFFFFFF
  · cases hn : a.optflag.isNone
    · refine ⟨env.set "o.optflag" (.sc (.py a.optflag)), ?_, fun _ => ?_⟩
      · simp [execBlock, exec_assign_var M env _ _ _ hv]
      · have hoff : EqOff ["o.optflag"] env (env.set "o.optflag" (.sc (.py a.optflag))) :=
          (EqOff.refl _ _).set _ _ (by decide)
        have e : upd1 a o = { o with flags := a.optflag.intVal.toNat } := by simp [upd1, hn]
        obtain ⟨w1, w2, w3, w4, w5, w6⟩ := h.wf
        rw [e]
        exact h.mk' hoff (by decide) _ c ((hoff _ (by decide)).trans h.calls)
          ⟨_, Env.set_self _ _ _, asInt_given _ _ hr hn⟩ (h.f2.of_eqOff hoff (by decide))
          (h.f3.of_eqOff hoff (by decide)) (h.f4.of_eqOff hoff (by decide)) (h.f5.of_eqOff hoff (by decide))
          (h.f6.of_eqOff hoff (by decide)) ⟨toNat_le_given _ 0xFFFFFFFF hr hn, w2, w3, w4, w5, w6⟩
    · exact ⟨env, by simp, fun _ => by simpa [upd1, hn] using h⟩
  · exact ⟨env, by simp, by simp⟩

theorem gen_stage2 (M : Meths) {s : Sock} {a : OptsArgs} {o : KOpts} {c : Nat} {env : Env} (h : GenSt s a o c env) :
    ∃ env', execStmt M env genStmt2 =
        (if rej a.frameTxtime 0xFFFFFFFF then .error (.exc .ValueError) else .ok (.next env')) ∧
      (rej a.frameTxtime 0xFFFFFFFF = false → GenSt s a (upd2 a o) c env') := by
  have hv : env "frame_txtime" = some (.sc (.py a.frameTxtime)) := (h.stat _ (by decide)).trans (genEnv_frame_txtime s a)
  rw [genStmt2, guarded_exec M env _ _ _ _ _ hv (eval_isNotNone_var M env _ _ hv)]
  cases hr : rej a.frameTxtime 0xFFFFFFFF
  · cases hn : a.frameTxtime.isNone
    · refine ⟨env.set "o.frame_txtime" (.sc (.py a.frameTxtime)), ?_, fun _ => ?_⟩
      · simp [execBlock, exec_assign_var M env _ _ _ hv]
      · have hoff : EqOff ["o.frame_txtime"] env (env.set "o.frame_txtime" (.sc (.py a.frameTxtime))) :=
          (EqOff.refl _ _).set _ _ (by decide)
        have e : upd2 a o = { o with frameTxtime := a.frameTxtime.intVal.toNat } := by simp [upd2, hn]
        obtain ⟨w1, w2, w3, w4, w5, w6⟩ := h.wf
        rw [e]
        exact h.mk' hoff (by decide) _ c ((hoff _ (by decide)).trans h.calls)
          (h.f1.of_eqOff hoff (by decide)) ⟨_, Env.set_self _ _ _, asInt_given _ _ hr hn⟩
          (h.f3.of_eqOff hoff (by decide)) (h.f4.of_eqOff hoff (by decide)) (h.f5.of_eqOff hoff (by decide))
          (h.f6.of_eqOff hoff (by decide)) ⟨w1, toNat_le_given _ 0xFFFFFFFF hr hn, w3, w4, w5, w6⟩
    · exact ⟨env, by simp, fun _ => by simpa [upd2, hn] using h⟩
  · exact ⟨env, by simp, by simp⟩

theorem gen_stage3 (M : Meths) {s : Sock} {a : OptsArgs} {o : KOpts} {c : Nat} {env : Env} (h : GenSt s a o c env) :
    ∃ env', execStmt M env genStmt3 =
        (if rej a.extAddress 0xFF then .error (.exc .ValueError) else .ok (.next env')) ∧
      (rej a.extAddress 0xFF = false → GenSt s a (upd3 a o) c env') := by
  have hv : env "ext_address" = some (.sc (.py a.extAddress)) := (h.stat _ (by decide)).trans (genEnv_ext_address s a)
  have hf : env "flags.EXTEND_ADDR" = some (pint ((2 : Nat) : Int)) := (h.stat _ (by decide)).trans (genEnv_EXTEND_ADDR s a)
  rw [genStmt3, guarded_exec M env _ _ _ _ _ hv (eval_isNotNone_var M env _ _ hv)]
  cases hr : rej a.extAddress 0xFF
  · cases hn : a.extAddress.isNone
    · obtain ⟨x, hx, hxi⟩ := h.f1
      refine ⟨(env.set "o.ext_address" (.sc (.py a.extAddress))).set "o.optflag" (pint ((o.flags ||| 2 : Nat) : Int)),
        ?_, fun _ => ?_⟩
      · simp only [Bool.false_eq_true, if_false]
        rw [flagBody_exec M env _ _ _ _ x o.flags 2 hv hx hxi hf (by decide) (by decide)]
      · have hoff : EqOff ["o.ext_address", "o.optflag"] env
            ((env.set "o.ext_address" (.sc (.py a.extAddress))).set "o.optflag" (pint ((o.flags ||| 2 : Nat) : Int))) :=
          ((EqOff.refl _ _).set _ _ (by decide)).set _ _ (by decide)
        have e : upd3 a o = { o with extAddress := a.extAddress.intVal.toNat, flags := o.flags ||| 2 } := by
          simp [upd3, hn, or_EXTEND_ADDR]
        obtain ⟨w1, w2, w3, w4, w5, w6⟩ := h.wf
        rw [e]
        exact h.mk' hoff (by decide) _ c ((hoff _ (by decide)).trans h.calls)
          ⟨_, Env.set_self _ _ _, asInt_pint _⟩ (h.f2.of_eqOff hoff (by decide))
          ⟨_, (Env.set_ne _ _ _ _ (by decide)).trans (Env.set_self _ _ _), asInt_given _ _ hr hn⟩
          (h.f4.of_eqOff hoff (by decide)) (h.f5.of_eqOff hoff (by decide))
          (h.f6.of_eqOff hoff (by decide)) ⟨or_le_u32 _ _ w1 (by omega), w2, toNat_le_given _ 0xFF hr hn, w4, w5, w6⟩
    · exact ⟨env, by simp, fun _ => by simpa [upd3, hn] using h⟩
  · exact ⟨env, by simp, by simp⟩

theorem gen_stage4 (M : Meths) {s : Sock} {a : OptsArgs} {o : KOpts} {c : Nat} {env : Env} (h : GenSt s a o c env) :
    ∃ env', execStmt M env genStmt4 =
        (if rej a.txpad 0xFF then .error (.exc .ValueError) else .ok (.next env')) ∧
      (rej a.txpad 0xFF = false → GenSt s a (upd4 a o) c env') := by
  have hv : env "txpad" = some (.sc (.py a.txpad)) := (h.stat _ (by decide)).trans (genEnv_txpad s a)
  have hf : env "flags.TX_PADDING" = some (pint ((4 : Nat) : Int)) := (h.stat _ (by decide)).trans (genEnv_TX_PADDING s a)
  rw [genStmt4, guarded_exec M env _ _ _ _ _ hv (eval_isNotNone_var M env _ _ hv)]
  cases hr : rej a.txpad 0xFF
  · cases hn : a.txpad.isNone
    · obtain ⟨x, hx, hxi⟩ := h.f1
      refine ⟨(env.set "o.txpad" (.sc (.py a.txpad))).set "o.optflag" (pint ((o.flags ||| 4 : Nat) : Int)),
        ?_, fun _ => ?_⟩
      · simp only [Bool.false_eq_true, if_false]
        rw [flagBody_exec M env _ _ _ _ x o.flags 4 hv hx hxi hf (by decide) (by decide)]
      · have hoff : EqOff ["o.txpad", "o.optflag"] env
            ((env.set "o.txpad" (.sc (.py a.txpad))).set "o.optflag" (pint ((o.flags ||| 4 : Nat) : Int))) :=
          ((EqOff.refl _ _).set _ _ (by decide)).set _ _ (by decide)
        have e : upd4 a o = { o with txpad := a.txpad.intVal.toNat, flags := o.flags ||| 4 } := by
          simp [upd4, hn, or_TX_PADDING]
        obtain ⟨w1, w2, w3, w4, w5, w6⟩ := h.wf
        rw [e]
        exact h.mk' hoff (by decide) _ c ((hoff _ (by decide)).trans h.calls)
          ⟨_, Env.set_self _ _ _, asInt_pint _⟩
          (h.f2.of_eqOff hoff (by decide))
          (h.f3.of_eqOff hoff (by decide))
          ⟨_, (Env.set_ne _ _ _ _ (by decide)).trans (Env.set_self _ _ _), asInt_given _ _ hr hn⟩
          (h.f5.of_eqOff hoff (by decide))
          (h.f6.of_eqOff hoff (by decide))
          ⟨or_le_u32 _ _ w1 (by omega), w2, w3, toNat_le_given _ 0xFF hr hn, w5, w6⟩
    · exact ⟨env, by simp, fun _ => by simpa [upd4, hn] using h⟩
  · exact ⟨env, by simp, by simp⟩

theorem gen_stage5 (M : Meths) {s : Sock} {a : OptsArgs} {o : KOpts} {c : Nat} {env : Env} (h : GenSt s a o c env) :
    ∃ env', execStmt M env genStmt5 =
        (if rej a.rxpad 0xFF then .error (.exc .ValueError) else .ok (.next env')) ∧
      (rej a.rxpad 0xFF = false → GenSt s a (upd5 a o) c env') := by
  have hv : env "rxpad" = some (.sc (.py a.rxpad)) := (h.stat _ (by decide)).trans (genEnv_rxpad s a)
  have hf : env "flags.RX_PADDING" = some (pint ((8 : Nat) : Int)) := (h.stat _ (by decide)).trans (genEnv_RX_PADDING s a)
  rw [genStmt5, guarded_exec M env _ _ _ _ _ hv (eval_isNotNone_var M env _ _ hv)]
  cases hr : rej a.rxpad 0xFF
  · cases hn : a.rxpad.isNone
    · obtain ⟨x, hx, hxi⟩ := h.f1
      refine ⟨(env.set "o.rxpad" (.sc (.py a.rxpad))).set "o.optflag" (pint ((o.flags ||| 8 : Nat) : Int)),
        ?_, fun _ => ?_⟩
      · simp only [Bool.false_eq_true, if_false]
        rw [flagBody_exec M env _ _ _ _ x o.flags 8 hv hx hxi hf (by decide) (by decide)]
      · have hoff : EqOff ["o.rxpad", "o.optflag"] env
            ((env.set "o.rxpad" (.sc (.py a.rxpad))).set "o.optflag" (pint ((o.flags ||| 8 : Nat) : Int))) :=
          ((EqOff.refl _ _).set _ _ (by decide)).set _ _ (by decide)
        have e : upd5 a o = { o with rxpad := a.rxpad.intVal.toNat, flags := o.flags ||| 8 } := by
          simp [upd5, hn, or_RX_PADDING]
        obtain ⟨w1, w2, w3, w4, w5, w6⟩ := h.wf
        rw [e]
        exact h.mk' hoff (by decide) _ c ((hoff _ (by decide)).trans h.calls)
          ⟨_, Env.set_self _ _ _, asInt_pint _⟩
          (h.f2.of_eqOff hoff (by decide))
          (h.f3.of_eqOff hoff (by decide))
          (h.f4.of_eqOff hoff (by decide))
          ⟨_, (Env.set_ne _ _ _ _ (by decide)).trans (Env.set_self _ _ _), asInt_given _ _ hr hn⟩
          (h.f6.of_eqOff hoff (by decide))
          ⟨or_le_u32 _ _ w1 (by omega), w2, w3, w4, toNat_le_given _ 0xFF hr hn, w6⟩
    · exact ⟨env, by simp, fun _ => by simpa [upd5, hn] using h⟩
  · exact ⟨env, by simp, by simp⟩

theorem gen_stage6 (M : Meths) {s : Sock} {a : OptsArgs} {o : KOpts} {c : Nat} {env : Env} (h : GenSt s a o c env) :
    ∃ env', execStmt M env genStmt6 =
        (if rej a.rxExtAddress 0xFF then .error (.exc .ValueError) else .ok (.next env')) ∧
      (rej a.rxExtAddress 0xFF = false → GenSt s a (upd6 a o) c env') := by
  have hv : env "rx_ext_address" = some (.sc (.py a.rxExtAddress)) := (h.stat _ (by decide)).trans (genEnv_rx_ext_address s a)
  have hf : env "flags.RX_EXT_ADDR" = some (pint ((512 : Nat) : Int)) := (h.stat _ (by decide)).trans (genEnv_RX_EXT_ADDR s a)
  rw [genStmt6, guarded_exec M env _ _ _ _ _ hv (eval_isNotNone_var M env _ _ hv)]
  cases hr : rej a.rxExtAddress 0xFF
  · cases hn : a.rxExtAddress.isNone
    · obtain ⟨x, hx, hxi⟩ := h.f1
      refine ⟨(env.set "o.rx_ext_address" (.sc (.py a.rxExtAddress))).set "o.optflag" (pint ((o.flags ||| 512 : Nat) : Int)),
        ?_, fun _ => ?_⟩
      · simp only [Bool.false_eq_true, if_false]
        rw [flagBody_exec M env _ _ _ _ x o.flags 512 hv hx hxi hf (by decide) (by decide)]
      · have hoff : EqOff ["o.rx_ext_address", "o.optflag"] env
            ((env.set "o.rx_ext_address" (.sc (.py a.rxExtAddress))).set "o.optflag" (pint ((o.flags ||| 512 : Nat) : Int))) :=
          ((EqOff.refl _ _).set _ _ (by decide)).set _ _ (by decide)
        have e : upd6 a o = { o with rxExtAddress := a.rxExtAddress.intVal.toNat, flags := o.flags ||| 512 } := by
          simp [upd6, hn, or_RX_EXT_ADDR]
        obtain ⟨w1, w2, w3, w4, w5, w6⟩ := h.wf
        rw [e]
        exact h.mk' hoff (by decide) _ c ((hoff _ (by decide)).trans h.calls)
          ⟨_, Env.set_self _ _ _, asInt_pint _⟩
          (h.f2.of_eqOff hoff (by decide))
          (h.f3.of_eqOff hoff (by decide))
          (h.f4.of_eqOff hoff (by decide))
          (h.f5.of_eqOff hoff (by decide))
          ⟨_, (Env.set_ne _ _ _ _ (by decide)).trans (Env.set_self _ _ _), asInt_given _ _ hr hn⟩
          ⟨or_le_u32 _ _ w1 (by omega), w2, w3, w4, w5, toNat_le_given _ 0xFF hr hn⟩
    · exact ⟨env, by simp, fun _ => by simpa [upd6, hn] using h⟩
  · exact ⟨env, by simp, by simp⟩


/-- the argument checks of the six struct fields, in source order -/
def rejFields (a : OptsArgs) : Bool :=
  rej a.optflag 0xFFFFFFFF || rej a.frameTxtime 0xFFFFFFFF || rej a.extAddress 0xFF || rej a.txpad 0xFF || rej a.rxpad 0xFF ||
    rej a.rxExtAddress 0xFF

def updFields (a : OptsArgs) (o : KOpts) : KOpts := upd6 a (upd5 a (upd4 a (upd3 a (upd2 a (upd1 a o)))))

/-- the model, as the same sequence of stages -/
theorem writeOpts_eq0 (s : Sock) (a : OptsArgs) : writeOpts s a =
    if rej a.optflag 0xFFFFFFFF then .error .ValueError else
    if rej a.frameTxtime 0xFFFFFFFF then .error .ValueError else
    if rej a.extAddress 0xFF then .error .ValueError else
    if rej a.txpad 0xFF then .error .ValueError else
    if rej a.rxpad 0xFF then .error .ValueError else
    if rej a.rxExtAddress 0xFF then .error .ValueError else
    if rej a.txStmin 0xFFFFFFFF then .error .ValueError else
    .ok ((sock7 s a).sso optOPTS (layoutOpts (upd7 a (updFields a (parseOpts (layoutOpts s.k.opts))))),
      upd7 a (updFields a (parseOpts (layoutOpts s.k.opts)))) := by
  cases h : a.txStmin.isNone <;>
    simp only [writeOpts, rej, updFields, upd1, upd2, upd3, upd4, upd5, upd6, upd7, sock7, h] <;> rfl

theorem writeOpts_eq (s : Sock) (a : OptsArgs) : writeOpts s a =
    if rejFields a || rej a.txStmin 0xFFFFFFFF then .error .ValueError else
    .ok ((sock7 s a).sso optOPTS (layoutOpts (upd7 a (updFields a (parseOpts (layoutOpts s.k.opts))))),
      upd7 a (updFields a (parseOpts (layoutOpts s.k.opts)))) := by
  rw [writeOpts_eq0, rejFields]
  generalize Except.ok ((sock7 s a).sso optOPTS (layoutOpts (upd7 a (updFields a (parseOpts (layoutOpts s.k.opts))))),
      upd7 a (updFields a (parseOpts (layoutOpts s.k.opts)))) = r
  cases rej a.optflag 0xFFFFFFFF <;> cases rej a.frameTxtime 0xFFFFFFFF <;> cases rej a.extAddress 0xFF <;>
  cases rej a.txpad 0xFF <;> cases rej a.rxpad 0xFF <;> cases rej a.rxExtAddress 0xFF <;>
  cases rej a.txStmin 0xFFFFFFFF <;> rfl

theorem gen_fields (M : Meths) (rest : PBlock) {s : Sock} {a : OptsArgs} {o : KOpts} {c : Nat} {env : Env}
    (h : GenSt s a o c env) :
    ∃ env', execBlock M env (.cons genStmt1 (.cons genStmt2 (.cons genStmt3 (.cons genStmt4 (.cons genStmt5 (.cons genStmt6 rest)))))) =
        (if rejFields a then .error (.exc .ValueError) else execBlock M env' rest) ∧
      (rejFields a = false → GenSt s a (updFields a o) c env') := by
  obtain ⟨e1, x1, g1⟩ := gen_stage1 M h
  rw [execBlock_cons_stage _ _ _ _ _ _ _ x1]
  cases r1 : rej a.optflag 0xFFFFFFFF
  case true => exact ⟨env, by simp [rejFields, r1], by simp [rejFields, r1]⟩
  obtain ⟨e2, x2, g2⟩ := gen_stage2 M (g1 r1)
  simp only [Bool.false_eq_true, if_false]
  rw [execBlock_cons_stage _ _ _ _ _ _ _ x2]
  cases r2 : rej a.frameTxtime 0xFFFFFFFF
  case true => exact ⟨env, by simp [rejFields, r2], by simp [rejFields, r2]⟩
  obtain ⟨e3, x3, g3⟩ := gen_stage3 M (g2 r2)
  simp only [Bool.false_eq_true, if_false]
  rw [execBlock_cons_stage _ _ _ _ _ _ _ x3]
  cases r3 : rej a.extAddress 0xFF
  case true => exact ⟨env, by simp [rejFields, r3], by simp [rejFields, r3]⟩
  obtain ⟨e4, x4, g4⟩ := gen_stage4 M (g3 r3)
  simp only [Bool.false_eq_true, if_false]
  rw [execBlock_cons_stage _ _ _ _ _ _ _ x4]
  cases r4 : rej a.txpad 0xFF
  case true => exact ⟨env, by simp [rejFields, r4], by simp [rejFields, r4]⟩
  obtain ⟨e5, x5, g5⟩ := gen_stage5 M (g4 r4)
  simp only [Bool.false_eq_true, if_false]
  rw [execBlock_cons_stage _ _ _ _ _ _ _ x5]
  cases r5 : rej a.rxpad 0xFF
  case true => exact ⟨env, by simp [rejFields, r5], by simp [rejFields, r5]⟩
  obtain ⟨e6, x6, g6⟩ := gen_stage6 M (g5 r5)
  simp only [Bool.false_eq_true, if_false]
  rw [execBlock_cons_stage _ _ _ _ _ _ _ x6]
  cases r6 : rej a.rxExtAddress 0xFF
  case true => exact ⟨env, by simp [rejFields, r6], by simp [rejFields, r6]⟩
  exact ⟨e6, by simp [rejFields, r1, r2, r3, r4, r5, r6], fun _ => g6 r6⟩


theorem byteAt_le (d : Bytes) (i : Nat) : byteAt d i ≤ 255 := by
  have := (d.getD i 0).toNat_lt
  unfold byteAt; omega

theorem rd32_le (d : Bytes) (i : Nat) : rd32 d i ≤ 0xFFFFFFFF := by
  have h0 := byteAt_le d i; have h1 := byteAt_le d (i + 1); have h2 := byteAt_le d (i + 2); have h3 := byteAt_le d (i + 3)
  unfold rd32
  generalize byteAt d i = x0 at *; generalize byteAt d (i + 1) = x1 at *
  generalize byteAt d (i + 2) = x2 at *; generalize byteAt d (i + 3) = x3 at *
  omega

/-- what `read` delivers always fits the struct -/
theorem parseOpts_wf (d : Bytes) : optsWf (parseOpts d) :=
  ⟨rd32_le d 0, rd32_le d 4, byteAt_le d 8, byteAt_le d 9, byteAt_le d 10, byteAt_le d 11⟩

/-- the state after `assert_is_socket(s); o = cls.read(s)` -/
theorem gen_init (s : Sock) (a : OptsArgs) :
    GenSt s a (parseOpts (layoutOpts s.k.opts)) 0 ((genEnv s a).set "o" (.meth "o")) where
  stat := fun k hk => Env.set_ne _ _ _ _ (by rintro rfl; revert hk; decide)
  calls := (Env.set_ne _ _ _ _ (by decide)).trans (genEnv_calls s a)
  obj := Env.set_self _ _ _
  f1 := ⟨_, (Env.set_ne _ _ _ _ (by decide)).trans (genEnv_o_optflag s a), asInt_pint _⟩
  f2 := ⟨_, (Env.set_ne _ _ _ _ (by decide)).trans (genEnv_o_frame_txtime s a), asInt_pint _⟩
  f3 := ⟨_, (Env.set_ne _ _ _ _ (by decide)).trans (genEnv_o_ext_address s a), asInt_pint _⟩
  f4 := ⟨_, (Env.set_ne _ _ _ _ (by decide)).trans (genEnv_o_txpad s a), asInt_pint _⟩
  f5 := ⟨_, (Env.set_ne _ _ _ _ (by decide)).trans (genEnv_o_rxpad s a), asInt_pint _⟩
  f6 := ⟨_, (Env.set_ne _ _ _ _ (by decide)).trans (genEnv_o_rx_ext_address s a), asInt_pint _⟩
  wf := parseOpts_wf _

/-- the first three statements -/
theorem gen_prologue (sso) (s : Sock) (a : OptsArgs) (rest : PBlock) :
    execBlock (sockMeths sso) (genEnv s a)
      (.cons stmtAssertSocket (.cons stmtRead (.cons (.assert_ (.isNotNone (.var "o.optflag"))) rest))) =
    execBlock (sockMeths sso) ((genEnv s a).set "o" (.meth "o")) rest := by
  rw [execBlock_cons_ok _ _ _ _ _ (stmtAssertSocket_exec sso _ (genEnv_s s a)),
    execBlock_cons_ok _ _ _ _ _ (stmtRead_exec sso _ (genEnv_s s a))]
  have h : ((genEnv s a).set "o" (.meth "o")) "o.optflag" = some (pint ((parseOpts (layoutOpts s.k.opts)).flags : Nat)) :=
    (Env.set_ne _ _ _ _ (by decide)).trans (genEnv_o_optflag s a)
  apply execBlock_cons_ok
  simp [execStmt, eval, h, pnone, pint]

/-- `if tx_stmin is not None: ...` -/
theorem gen_stage7 (sso) {s : Sock} {a : OptsArgs} {o : KOpts} {c : Nat} {env : Env} (h : GenSt s a o c env) :
    execStmt (sockMeths sso) env genStmt7 =
      (if rej a.txStmin 0xFFFFFFFF then .error (.exc .ValueError) else
       if a.txStmin.isNone then .ok (.next env) else
         (sso [pint (solCanIsotp : Nat), pint (optTX_STMIN : Nat), .bytes (le32 a.txStmin.intVal.toNat)]
            (env.set "o.optflag" (pint ((o.flags ||| 128 : Nat) : Int))) >>= fun e => .ok (.next e))) ∧
    (rej a.txStmin 0xFFFFFFFF = false → a.txStmin.isNone = false →
      GenSt s a (upd7 a o) c (env.set "o.optflag" (pint ((o.flags ||| 128 : Nat) : Int)))) := by
  have hv : env "tx_stmin" = some (.sc (.py a.txStmin)) := (h.stat _ (by decide)).trans (genEnv_tx_stmin s a)
  have hf : env "flags.FORCE_TXSTMIN" = some (pint ((128 : Nat) : Int)) := (h.stat _ (by decide)).trans (genEnv_FORCE_TXSTMIN s a)
  have hl : env "SOL_CAN_ISOTP" = some (pint (solCanIsotp : Nat)) := (h.stat _ (by decide)).trans (genEnv_SOL s a)
  have ho : env "CAN_ISOTP_TX_STMIN" = some (pint (optTX_STMIN : Nat)) := (h.stat _ (by decide)).trans (genEnv_TX_STMIN s a)
  obtain ⟨x, hx, hxi⟩ := h.f1
  rw [genStmt7, guarded_exec _ env _ _ _ _ _ hv (eval_isNotNone_var _ env _ _ hv)]
  have hoff : EqOff ["o.optflag"] env (env.set "o.optflag" (pint ((o.flags ||| 128 : Nat) : Int))) :=
    (EqOff.refl _ _).set _ _ (by decide)
  constructor
  · cases hr : rej a.txStmin 0xFFFFFFFF
    · cases hn : a.txStmin.isNone
      · have hv' := (hoff "tx_stmin" (by decide)).trans hv
        have hl' := (hoff "SOL_CAN_ISOTP" (by decide)).trans hl
        have ho' := (hoff "CAN_ISOTP_TX_STMIN" (by decide)).trans ho
        have hp := structPack_L (.sc (.py a.txStmin)) a.txStmin.intVal.toNat (asInt_given _ _ hr hn)
          (toNat_le_given _ 0xFFFFFFFF hr hn)
        have s2 : execStmt (sockMeths sso) (env.set "o.optflag" (pint ((o.flags ||| 128 : Nat) : Int)))
            (.expr (.call "s.setsockopt" (.cons (.var "SOL_CAN_ISOTP") (.cons (.var "CAN_ISOTP_TX_STMIN")
              (.cons (.call "struct.pack" (.cons (.strLit "=L") (.cons (.var "tx_stmin") .nil))) .nil))))) =
            (sso [pint (solCanIsotp : Nat), pint (optTX_STMIN : Nat), .bytes (le32 a.txStmin.intVal.toNat)]
              (env.set "o.optflag" (pint ((o.flags ||| 128 : Nat) : Int))) >>= fun e => .ok (.next e)) := by
          simp [execStmt, evalArgs, eval, hv', hl', ho', eb_setsockopt, eb_struct_pack, sockMeths_pack, sockMeths_sso, hp]
        simp only [Bool.false_eq_true, if_false]
        rw [execBlock_cons_ok _ _ _ _ _ (exec_orflag _ env _ x o.flags 128 hx hxi hf), execBlock, s2]
        cases sso [pint (solCanIsotp : Nat), pint (optTX_STMIN : Nat), .bytes (le32 a.txStmin.intVal.toNat)]
          (env.set "o.optflag" (pint ((o.flags ||| 128 : Nat) : Int))) <;> rfl
      · simp
    · simp
  · intro hr hn
    have e : upd7 a o = { o with flags := o.flags ||| 128 } := by simp [upd7, hn, or_FORCE_TXSTMIN]
    obtain ⟨w1, w2, w3, w4, w5, w6⟩ := h.wf
    rw [e]
    exact h.mk' hoff (by decide) _ c ((hoff _ (by decide)).trans h.calls)
      ⟨_, Env.set_self _ _ _, asInt_pint _⟩ (h.f2.of_eqOff hoff (by decide)) (h.f3.of_eqOff hoff (by decide))
      (h.f4.of_eqOff hoff (by decide)) (h.f5.of_eqOff hoff (by decide)) (h.f6.of_eqOff hoff (by decide))
      ⟨or_le_u32 _ _ w1 (by omega), w2, w3, w4, w5, w6⟩

/-- `opt = struct.pack("=LLBBBB", o.optflag, ...); s.setsockopt(SOL_CAN_ISOTP, CAN_ISOTP_OPTS, opt); return o` -/
theorem gen_tail_exec (sso) {s : Sock} {a : OptsArgs} {o : KOpts} {c : Nat} {env : Env} (h : GenSt s a o c env) :
    execBlock (sockMeths sso) env genTail =
      (sso [pint (solCanIsotp : Nat), pint (optOPTS : Nat), .bytes (layoutOpts o)] (env.set "opt" (.bytes (layoutOpts o))) >>=
        fun e => execBlock (sockMeths sso) e (.cons (.ret (.var "o")) .nil)) := by
  obtain ⟨x1, l1, i1⟩ := h.f1
  obtain ⟨x2, l2, i2⟩ := h.f2
  obtain ⟨x3, l3, i3⟩ := h.f3
  obtain ⟨x4, l4, i4⟩ := h.f4
  obtain ⟨x5, l5, i5⟩ := h.f5
  obtain ⟨x6, l6, i6⟩ := h.f6
  obtain ⟨w1, w2, w3, w4, w5, w6⟩ := h.wf
  have hp := structPack_LLBBBB x1 x2 x3 x4 x5 x6 o i1 i2 i3 i4 i5 i6 w1 w2 w3 w4 w5 w6
  have hl : env "SOL_CAN_ISOTP" = some (pint (solCanIsotp : Nat)) := (h.stat _ (by decide)).trans (genEnv_SOL s a)
  have ho : env "CAN_ISOTP_OPTS" = some (pint (optOPTS : Nat)) := (h.stat _ (by decide)).trans (genEnv_OPTS s a)
  have s1 : execStmt (sockMeths sso) env (.assign "opt" (.call "struct.pack" (.cons (.strLit "=LLBBBB") (.cons (.var "o.optflag")
      (.cons (.var "o.frame_txtime") (.cons (.var "o.ext_address") (.cons (.var "o.txpad") (.cons (.var "o.rxpad")
      (.cons (.var "o.rx_ext_address") .nil))))))))) = .ok (.next (env.set "opt" (.bytes (layoutOpts o)))) := by
    simp [execStmt, evalArgs, eval, l1, l2, l3, l4, l5, l6, eb_struct_pack, sockMeths_pack, hp]
  rw [genTail, execBlock_cons_ok _ _ _ _ _ s1]
  have s2 := stmtSso_exec sso (env.set "opt" (.bytes (layoutOpts o))) "CAN_ISOTP_OPTS" _ _ _
    ((Env.set_ne _ _ _ _ (by decide)).trans hl) ((Env.set_ne _ _ _ _ (by decide)).trans ho) (Env.set_self _ _ _)
  rw [execBlock, s2]
  cases sso [pint (solCanIsotp : Nat), pint (optOPTS : Nat), .bytes (layoutOpts o)] (env.set "opt" (.bytes (layoutOpts o))) <;> rfl


/-- recording the final `setsockopt` when no call has been recorded yet -/
theorem gen_tail_rec0 {s : Sock} {a : OptsArgs} {o : KOpts} {env : Env} (h : GenSt s a o 0 env) :
    ∃ env', execBlock recMeths env genTail = .ok (.returned (.meth "o") env') ∧ EqOff ("opt" :: keys0) env env' ∧
      env' "#calls" = some (pint 1) ∧ env' "call.0.level" = some (pint (solCanIsotp : Nat)) ∧
      env' "call.0.opt" = some (pint (optOPTS : Nat)) ∧ env' "call.0.data" = some (.bytes (layoutOpts o)) := by
  have hc : (env.set "opt" (.bytes (layoutOpts o))) "#calls" = some (pint ((0 : Nat) : Int)) :=
    (Env.set_ne _ _ _ _ (by decide)).trans h.calls
  obtain ⟨c0, c1, c2, c3, hoff⟩ := logCall_0 (env.set "opt" (.bytes (layoutOpts o))) (solCanIsotp : Nat) (optOPTS : Nat) (layoutOpts o)
  have hoff' : EqOff ("opt" :: keys0) env (logCall (env.set "opt" (.bytes (layoutOpts o))) 0 (solCanIsotp : Nat) (optOPTS : Nat) (layoutOpts o)) :=
    (((EqOff.refl _ env).set "opt" (.bytes (layoutOpts o)) (by decide)).trans (hoff.mono (by decide)))
  refine ⟨_, ?_, hoff', c0, c1, c2, c3⟩
  have ho := (hoff' "o" (by decide)).trans h.obj
  rw [recMeths, gen_tail_exec recordSso h, recordSso_at _ 0 _ _ _ hc]
  simp [execBlock, execStmt, eval, ho]

/-- recording the final `setsockopt` after one recorded call -/
theorem gen_tail_rec1 {s : Sock} {a : OptsArgs} {o : KOpts} {env : Env} (h : GenSt s a o 1 env) :
    ∃ env', execBlock recMeths env genTail = .ok (.returned (.meth "o") env') ∧ EqOff ("opt" :: keys1) env env' ∧
      env' "#calls" = some (pint 2) ∧ env' "call.1.level" = some (pint (solCanIsotp : Nat)) ∧
      env' "call.1.opt" = some (pint (optOPTS : Nat)) ∧ env' "call.1.data" = some (.bytes (layoutOpts o)) := by
  have hc : (env.set "opt" (.bytes (layoutOpts o))) "#calls" = some (pint ((1 : Nat) : Int)) :=
    (Env.set_ne _ _ _ _ (by decide)).trans h.calls
  obtain ⟨c0, c1, c2, c3, hoff⟩ := logCall_1 (env.set "opt" (.bytes (layoutOpts o))) (solCanIsotp : Nat) (optOPTS : Nat) (layoutOpts o)
  have hoff' : EqOff ("opt" :: keys1) env (logCall (env.set "opt" (.bytes (layoutOpts o))) 1 (solCanIsotp : Nat) (optOPTS : Nat) (layoutOpts o)) :=
    (((EqOff.refl _ env).set "opt" (.bytes (layoutOpts o)) (by decide)).trans (hoff.mono (by decide)))
  refine ⟨_, ?_, hoff', c0, c1, c2, c3⟩
  have ho := (hoff' "o" (by decide)).trans h.obj
  rw [recMeths, gen_tail_exec recordSso h, recordSso_at _ 1 _ _ _ hc]
  simp [execBlock, execStmt, eval, ho]

/-- the object `o` of the run holds the integers `o'` -/
def GenObj (env : Env) (o' : KOpts) : Prop :=
  IntAt env "o.optflag" o'.flags ∧ IntAt env "o.frame_txtime" o'.frameTxtime ∧ IntAt env "o.ext_address" o'.extAddress ∧
  IntAt env "o.txpad" o'.txpad ∧ IntAt env "o.rxpad" o'.rxpad ∧ IntAt env "o.rx_ext_address" o'.rxExtAddress

theorem GenSt.obj_of_eqOff {s : Sock} {a : OptsArgs} {o : KOpts} {c : Nat} {env env' : Env} (h : GenSt s a o c env)
    {ks : List String} (hoff : EqOff ks env env')
    (hd : ∀ k ∈ ["o.optflag", "o.frame_txtime", "o.ext_address", "o.txpad", "o.rxpad", "o.rx_ext_address"], k ∉ ks) :
    GenObj env' o :=
  ⟨h.f1.of_eqOff hoff (hd _ (by decide)), h.f2.of_eqOff hoff (hd _ (by decide)), h.f3.of_eqOff hoff (hd _ (by decide)),
   h.f4.of_eqOff hoff (hd _ (by decide)), h.f5.of_eqOff hoff (hd _ (by decide)), h.f6.of_eqOff hoff (hd _ (by decide))⟩

/-- the whole body up to (not including) the `tx_stmin` statement, for any semantics of `s.setsockopt` (none is executed) -/
theorem gen_run (sso) (s : Sock) (a : OptsArgs) :
    ∃ env6, execBlock (sockMeths sso) (genEnv s a) Src.GeneralOpts_write =
        (if rejFields a then .error (.exc .ValueError) else execBlock (sockMeths sso) env6 (.cons genStmt7 genTail)) ∧
      (rejFields a = false → GenSt s a (updFields a (parseOpts (layoutOpts s.k.opts))) 0 env6) := by
  rw [gen_body_eq, gen_prologue]
  exact gen_fields _ _ (gen_init s a)

/-- **`GeneralOpts.write` rejects what the model rejects, with `ValueError`, whatever `s.setsockopt` would do**
    (so: before any `s.setsockopt` statement is executed; see `GeneralOpts_write_reject_fail`). -/
theorem GeneralOpts_write_reject_any (sso) (s : Sock) (a : OptsArgs) (e : PyExc) (h : writeOpts s a = .error e) :
    e = .ValueError ∧ runFn (sockMeths sso) (genEnv s a) Src.GeneralOpts_write = .error (.exc .ValueError) := by
  rw [writeOpts_eq] at h
  obtain ⟨env6, hx, hg⟩ := gen_run sso s a
  cases hr : rejFields a || rej a.txStmin 0xFFFFFFFF
  · simp [hr] at h
  · simp only [hr, if_true] at h
    refine ⟨by injection h with h; exact h.symm, ?_⟩
    cases hf : rejFields a
    · have h7 : rej a.txStmin 0xFFFFFFFF = true := by simpa [hf] using hr
      have := (gen_stage7 sso (hg hf)).1
      simp only [h7, if_true] at this
      simp [runFn, hx, hf, execBlock, this]
    · simp [runFn, hx, hf]


/-- the calls the model adds for an accepted `write`, newest first -/
def genNewCalls (a : OptsArgs) (o' : KOpts) : List Call :=
  if a.txStmin.isNone then [.setopt solCanIsotp optOPTS (layoutOpts o')]
  else [.setopt solCanIsotp optOPTS (layoutOpts o'), .setopt solCanIsotp optTX_STMIN (le32 a.txStmin.intVal.toNat)]

/-- **`GeneralOpts.write` accepts what the model accepts**: it returns the object `o`, whose attributes then hold the fields of
    the model's result `o'`, and the recorded `setsockopt` calls are exactly the calls the model adds, in the same order with the
    same bytes: one `CAN_ISOTP_OPTS` call with `layoutOpts o'`, preceded by the `CAN_ISOTP_TX_STMIN` call with `le32 tx_stmin`
    iff `tx_stmin` is given.  (`struct.pack` never fails.) -/
theorem GeneralOpts_write_accept (s : Sock) (a : OptsArgs) (s' : Sock) (o' : KOpts) (h : writeOpts s a = .ok (s', o')) :
    ∃ env', runFn recMeths (genEnv s a) Src.GeneralOpts_write = .ok (.meth "o", env') ∧ GenObj env' o' ∧
      recorded env' = some (genNewCalls a o') ∧ s'.calls = genNewCalls a o' ++ s.calls := by
  rw [writeOpts_eq] at h
  obtain ⟨env6, hx, hg⟩ := gen_run recordSso s a
  cases hr : rejFields a || rej a.txStmin 0xFFFFFFFF
  case true => simp [hr] at h
  simp only [hr, Bool.false_eq_true, if_false, Except.ok.injEq, Prod.mk.injEq] at h
  obtain ⟨hs', ho'⟩ := h
  have hf : rejFields a = false := by cases hh : rejFields a <;> simp_all
  have h7 : rej a.txStmin 0xFFFFFFFF = false := by cases hh : rej a.txStmin 0xFFFFFFFF <;> simp_all
  have g6 := hg hf
  obtain ⟨x7, g7⟩ := gen_stage7 recordSso g6
  simp only [h7, Bool.false_eq_true, if_false] at x7
  have g7 := g7 h7
  cases hn : a.txStmin.isNone
  · -- `tx_stmin` given: two calls
    simp only [hn, Bool.false_eq_true, if_false] at x7
    have g7 := g7 hn
    obtain ⟨c0, c1, c2, c3, hoff0⟩ := logCall_0 (env6.set "o.optflag" (pint ((((updFields a (parseOpts (layoutOpts s.k.opts))).flags ||| 128 : Nat)) : Int)))
      (solCanIsotp : Nat) (optTX_STMIN : Nat) (le32 a.txStmin.intVal.toNat)
    rw [recordSso_at _ 0 _ _ _ g7.calls] at x7
    have g8 : GenSt s a (upd7 a (updFields a (parseOpts (layoutOpts s.k.opts)))) 1 _ :=
      g7.mk' hoff0 (by decide) _ 1 c0 (g7.f1.of_eqOff hoff0 (by decide)) (g7.f2.of_eqOff hoff0 (by decide))
        (g7.f3.of_eqOff hoff0 (by decide)) (g7.f4.of_eqOff hoff0 (by decide)) (g7.f5.of_eqOff hoff0 (by decide))
        (g7.f6.of_eqOff hoff0 (by decide)) g7.wf
    obtain ⟨env', xt, hoff1, d0, d1, d2, d3⟩ := gen_tail_rec1 g8
    refine ⟨env', ?_, ?_, ?_, ?_⟩
    · rw [recMeths] at xt ⊢
      rw [runFn, hx, hf]
      simp only [Bool.false_eq_true, if_false]
      rw [execBlock, x7]
      simp only [ok_bind]
      rw [xt]
    · rw [← ho']; exact g8.obj_of_eqOff hoff1 (by decide)
    · rw [← ho', genNewCalls, hn]
      exact recorded_two env' _ _ _ _ _ _ d0 ((hoff1 _ (by decide)).trans c1) ((hoff1 _ (by decide)).trans c2)
        ((hoff1 _ (by decide)).trans c3) d1 d2 d3
    · rw [← hs', ← ho', genNewCalls, hn]
      simp [sock7, hn, Sock.sso]
  · -- `tx_stmin` not given: one call
    simp only [hn, if_true] at x7
    have e7 : upd7 a (updFields a (parseOpts (layoutOpts s.k.opts))) = updFields a (parseOpts (layoutOpts s.k.opts)) := by
      simp [upd7, hn]
    rw [e7] at ho'
    obtain ⟨env', xt, hoff1, d0, d1, d2, d3⟩ := gen_tail_rec0 g6
    refine ⟨env', ?_, ?_, ?_, ?_⟩
    · rw [recMeths] at xt ⊢
      rw [runFn, hx, hf]
      simp only [Bool.false_eq_true, if_false]
      rw [execBlock, x7]
      simp only [ok_bind]
      rw [xt]
    · rw [← ho']; exact g6.obj_of_eqOff hoff1 (by decide)
    · rw [← ho', genNewCalls, hn]
      exact recorded_one env' _ _ _ d0 d1 d2 d3
    · rw [← hs', ← ho', genNewCalls, hn, e7]
      simp [sock7, hn, Sock.sso]

/-- non-vacuity of the `failMeths` argument: an ACCEPTED call does reach `s.setsockopt` -/
theorem GeneralOpts_write_accept_fail (s : Sock) (a : OptsArgs) (r : Sock × KOpts) (h : writeOpts s a = .ok r) :
    runFn failMeths (genEnv s a) Src.GeneralOpts_write = .error (.unsupported "setsockopt") := by
  rw [writeOpts_eq] at h
  obtain ⟨env6, hx, hg⟩ := gen_run failSso s a
  cases hr : rejFields a || rej a.txStmin 0xFFFFFFFF
  case true => simp [hr] at h
  have hf : rejFields a = false := by cases hh : rejFields a <;> simp_all
  have h7 : rej a.txStmin 0xFFFFFFFF = false := by cases hh : rej a.txStmin 0xFFFFFFFF <;> simp_all
  have g6 := hg hf
  obtain ⟨x7, g7⟩ := gen_stage7 failSso g6
  simp only [h7, Bool.false_eq_true, if_false] at x7
  rw [failMeths, runFn, hx, hf]
  simp only [Bool.false_eq_true, if_false]
  rw [execBlock, x7]
  cases hn : a.txStmin.isNone
  · simp [failSso]
  · simp [gen_tail_exec failSso g6, failSso]


/-! ## 4. `FlowControlOpts.write` -/

/-- the world `FlowControlOpts.write(s, bs, stmin, wftmax)` runs in (see the head of the file) -/
def fcEnv (s : Sock) (x y z : PyVal) : Env := fun k =>
  match k with
  | "s" => some (.meth "s")
  | "bs" => some (.sc (.py x))
  | "stmin" => some (.sc (.py y))
  | "wftmax" => some (.sc (.py z))
  | "o.bs" => some (pint ((parseFc (layoutFc s.k.fc)).bs : Nat))
  | "o.stmin" => some (pint ((parseFc (layoutFc s.k.fc)).stmin : Nat))
  | "o.wftmax" => some (pint ((parseFc (layoutFc s.k.fc)).wftmax : Nat))
  | "SOL_CAN_ISOTP" => some (pint (solCanIsotp : Nat))
  | "#calls" => some (pint ((0 : Nat) : Int))
  | _ => constEnv k

section fcLookups
variable (s : Sock) (x y z : PyVal)
theorem fcEnv_s : fcEnv s x y z "s" = some (.meth "s") := rfl
theorem fcEnv_a1 : fcEnv s x y z "bs" = some (.sc (.py x)) := rfl
theorem fcEnv_a2 : fcEnv s x y z "stmin" = some (.sc (.py y)) := rfl
theorem fcEnv_a3 : fcEnv s x y z "wftmax" = some (.sc (.py z)) := rfl
theorem fcEnv_o1 : fcEnv s x y z "o.bs" = some (pint ((parseFc (layoutFc s.k.fc)).bs : Nat)) := rfl
theorem fcEnv_o2 : fcEnv s x y z "o.stmin" = some (pint ((parseFc (layoutFc s.k.fc)).stmin : Nat)) := rfl
theorem fcEnv_o3 : fcEnv s x y z "o.wftmax" = some (pint ((parseFc (layoutFc s.k.fc)).wftmax : Nat)) := rfl
theorem fcEnv_SOL : fcEnv s x y z "SOL_CAN_ISOTP" = some (pint (solCanIsotp : Nat)) := rfl
theorem fcEnv_calls : fcEnv s x y z "#calls" = some (pint ((0 : Nat) : Int)) := rfl
/- the option number, as dumped from the source (`Src.consts`) -/
theorem fcEnv_OPT : fcEnv s x y z "CAN_ISOTP_RECV_FC" = some (pint (optRECV_FC : Nat)) := rfl
end fcLookups

/-- names never assigned by `FlowControlOpts.write` -/
def fcKeys : List String := ["s", "bs", "stmin", "wftmax", "SOL_CAN_ISOTP", "CAN_ISOTP_RECV_FC"]

/-- `env` is a state of the run of `FlowControlOpts.write(s, x, y, z)` in which the object `o` holds the integers `o`
    and no call of `setsockopt` has been recorded -/
structure FcSt (s : Sock) (x y z : PyVal) (o : KFc) (env : Env) : Prop where
  stat : ∀ k ∈ fcKeys, env k = fcEnv s x y z k
  calls : env "#calls" = some (pint ((0 : Nat) : Int))
  obj : env "o" = some (.meth "o")
  f1 : IntAt env "o.bs" o.bs
  f2 : IntAt env "o.stmin" o.stmin
  f3 : IntAt env "o.wftmax" o.wftmax
  wf : o.bs ≤ 0xFF ∧ o.stmin ≤ 0xFF ∧ o.wftmax ≤ 0xFF

theorem FcSt.mk' {s : Sock} {x y z : PyVal} {o : KFc} {env env' : Env} (h : FcSt s x y z o env)
    {ks : List String} (hoff : EqOff ks env env') (hd : ∀ k ∈ fcKeys ++ ["o", "#calls"], k ∉ ks) (o' : KFc)
    (f1 : IntAt env' "o.bs" o'.bs) (f2 : IntAt env' "o.stmin" o'.stmin) (f3 : IntAt env' "o.wftmax" o'.wftmax)
    (wf : o'.bs ≤ 0xFF ∧ o'.stmin ≤ 0xFF ∧ o'.wftmax ≤ 0xFF) : FcSt s x y z o' env' where
  stat := fun k hk => (hoff k (hd k (List.mem_append_left _ hk))).trans (h.stat k hk)
  calls := (hoff _ (hd _ (by simp))).trans h.calls
  obj := (hoff "o" (hd "o" (by simp))).trans h.obj
  f1 := f1
  f2 := f2
  f3 := f3
  wf := wf

def fcUpd1 (x : PyVal) (o : KFc) : KFc := if x.isNone then o else { o with bs := x.intVal.toNat }
def fcUpd2 (y : PyVal) (o : KFc) : KFc := if y.isNone then o else { o with stmin := y.intVal.toNat }
def fcUpd3 (z : PyVal) (o : KFc) : KFc := if z.isNone then o else { o with wftmax := z.intVal.toNat }

/-- the model, as a sequence of stages -/
theorem writeFc_eq (s : Sock) (x y z : PyVal) : writeFc s x y z =
    if rej x 0xFF || rej y 0xFF || rej z 0xFF then .error .ValueError else
    .ok (s.sso optRECV_FC (layoutFc (fcUpd3 z (fcUpd2 y (fcUpd1 x (parseFc (layoutFc s.k.fc)))))),
      fcUpd3 z (fcUpd2 y (fcUpd1 x (parseFc (layoutFc s.k.fc))))) := by
  cases h1 : rej x 0xFF <;> cases h2 : rej y 0xFF <;> cases h3 : rej z 0xFF <;> simp only [rej] at h1 h2 h3 <;>
    simp only [writeFc, fcUpd1, fcUpd2, fcUpd3, h1, h2, h3] <;> rfl

def fcStmt1 : PStmt := guarded (.cmp .ne (.var "bs") .none) "bs" 255 (.cons (.assign "o.bs" (.var "bs")) .nil)
def fcStmt2 : PStmt := guarded (.cmp .ne (.var "stmin") .none) "stmin" 255 (.cons (.assign "o.stmin" (.var "stmin")) .nil)
def fcStmt3 : PStmt := guarded (.cmp .ne (.var "wftmax") .none) "wftmax" 255 (.cons (.assign "o.wftmax" (.var "wftmax")) .nil)
def fcTail : PBlock :=
  .cons (.assign "opt" (.call "struct.pack" (.cons (.strLit "=BBB") (.cons (.var "o.bs") (.cons (.var "o.stmin")
    (.cons (.var "o.wftmax") .nil))))))
  (.cons (stmtSso "CAN_ISOTP_RECV_FC") (.cons (.ret (.var "o")) .nil))

/-- the dumped source, statement by statement -/
theorem fc_body_eq : Src.FlowControlOpts_write =
    .cons stmtAssertSocket (.cons stmtRead (.cons fcStmt1 (.cons fcStmt2 (.cons fcStmt3 fcTail)))) := rfl

theorem fc_stage1 (M : Meths) {s : Sock} {x y z : PyVal} {o : KFc} {env : Env} (h : FcSt s x y z o env) :
    ∃ env', execStmt M env fcStmt1 = (if rej x 0xFF then .error (.exc .ValueError) else .ok (.next env')) ∧
      (rej x 0xFF = false → FcSt s x y z (fcUpd1 x o) env') := by
  have hv : env "bs" = some (.sc (.py x)) := (h.stat _ (by decide)).trans (fcEnv_a1 s x y z)
  rw [fcStmt1, guarded_exec M env _ _ _ _ _ hv (eval_ne_none_var M env _ _ hv)]
  cases hr : rej x 0xFF
  · cases hn : x.isNone
    · refine ⟨env.set "o.bs" (.sc (.py x)), ?_, fun _ => ?_⟩
      · simp [execBlock, exec_assign_var M env _ _ _ hv]
      · have hoff : EqOff ["o.bs"] env (env.set "o.bs" (.sc (.py x))) := (EqOff.refl _ _).set _ _ (by decide)
        have e : fcUpd1 x o = { o with bs := x.intVal.toNat } := by simp [fcUpd1, hn]
        obtain ⟨w1, w2, w3⟩ := h.wf
        rw [e]
        exact h.mk' hoff (by decide) _ ⟨_, Env.set_self _ _ _, asInt_given _ _ hr hn⟩ (h.f2.of_eqOff hoff (by decide))
          (h.f3.of_eqOff hoff (by decide)) ⟨toNat_le_given _ 0xFF hr hn, w2, w3⟩
    · exact ⟨env, by simp, fun _ => by simpa [fcUpd1, hn] using h⟩
  · exact ⟨env, by simp, by simp⟩

theorem fc_stage2 (M : Meths) {s : Sock} {x y z : PyVal} {o : KFc} {env : Env} (h : FcSt s x y z o env) :
    ∃ env', execStmt M env fcStmt2 = (if rej y 0xFF then .error (.exc .ValueError) else .ok (.next env')) ∧
      (rej y 0xFF = false → FcSt s x y z (fcUpd2 y o) env') := by
  have hv : env "stmin" = some (.sc (.py y)) := (h.stat _ (by decide)).trans (fcEnv_a2 s x y z)
  rw [fcStmt2, guarded_exec M env _ _ _ _ _ hv (eval_ne_none_var M env _ _ hv)]
  cases hr : rej y 0xFF
  · cases hn : y.isNone
    · refine ⟨env.set "o.stmin" (.sc (.py y)), ?_, fun _ => ?_⟩
      · simp [execBlock, exec_assign_var M env _ _ _ hv]
      · have hoff : EqOff ["o.stmin"] env (env.set "o.stmin" (.sc (.py y))) := (EqOff.refl _ _).set _ _ (by decide)
        have e : fcUpd2 y o = { o with stmin := y.intVal.toNat } := by simp [fcUpd2, hn]
        obtain ⟨w1, w2, w3⟩ := h.wf
        rw [e]
        exact h.mk' hoff (by decide) _ (h.f1.of_eqOff hoff (by decide)) ⟨_, Env.set_self _ _ _, asInt_given _ _ hr hn⟩
          (h.f3.of_eqOff hoff (by decide)) ⟨w1, toNat_le_given _ 0xFF hr hn, w3⟩
    · exact ⟨env, by simp, fun _ => by simpa [fcUpd2, hn] using h⟩
  · exact ⟨env, by simp, by simp⟩

theorem fc_stage3 (M : Meths) {s : Sock} {x y z : PyVal} {o : KFc} {env : Env} (h : FcSt s x y z o env) :
    ∃ env', execStmt M env fcStmt3 = (if rej z 0xFF then .error (.exc .ValueError) else .ok (.next env')) ∧
      (rej z 0xFF = false → FcSt s x y z (fcUpd3 z o) env') := by
  have hv : env "wftmax" = some (.sc (.py z)) := (h.stat _ (by decide)).trans (fcEnv_a3 s x y z)
  rw [fcStmt3, guarded_exec M env _ _ _ _ _ hv (eval_ne_none_var M env _ _ hv)]
  cases hr : rej z 0xFF
  · cases hn : z.isNone
    · refine ⟨env.set "o.wftmax" (.sc (.py z)), ?_, fun _ => ?_⟩
      · simp [execBlock, exec_assign_var M env _ _ _ hv]
      · have hoff : EqOff ["o.wftmax"] env (env.set "o.wftmax" (.sc (.py z))) := (EqOff.refl _ _).set _ _ (by decide)
        have e : fcUpd3 z o = { o with wftmax := z.intVal.toNat } := by simp [fcUpd3, hn]
        obtain ⟨w1, w2, w3⟩ := h.wf
        rw [e]
        exact h.mk' hoff (by decide) _ (h.f1.of_eqOff hoff (by decide)) (h.f2.of_eqOff hoff (by decide))
          ⟨_, Env.set_self _ _ _, asInt_given _ _ hr hn⟩ ⟨w1, w2, toNat_le_given _ 0xFF hr hn⟩
    · exact ⟨env, by simp, fun _ => by simpa [fcUpd3, hn] using h⟩
  · exact ⟨env, by simp, by simp⟩

/-- the state after `assert_is_socket(s); o = cls.read(s)` -/
theorem fc_init (s : Sock) (x y z : PyVal) :
    FcSt s x y z (parseFc (layoutFc s.k.fc)) ((fcEnv s x y z).set "o" (.meth "o")) where
  stat := fun k hk => Env.set_ne _ _ _ _ (by rintro rfl; revert hk; decide)
  calls := (Env.set_ne _ _ _ _ (by decide)).trans (fcEnv_calls s x y z)
  obj := Env.set_self _ _ _
  f1 := ⟨_, (Env.set_ne _ _ _ _ (by decide)).trans (fcEnv_o1 s x y z), asInt_pint _⟩
  f2 := ⟨_, (Env.set_ne _ _ _ _ (by decide)).trans (fcEnv_o2 s x y z), asInt_pint _⟩
  f3 := ⟨_, (Env.set_ne _ _ _ _ (by decide)).trans (fcEnv_o3 s x y z), asInt_pint _⟩
  wf := ⟨byteAt_le _ _, byteAt_le _ _, byteAt_le _ _⟩

/-- the body up to (not including) `opt = struct.pack(..)`, for any semantics of `s.setsockopt` (none is executed) -/
theorem fc_run (sso) (s : Sock) (x y z : PyVal) :
    ∃ env3, execBlock (sockMeths sso) (fcEnv s x y z) Src.FlowControlOpts_write =
        (if rej x 0xFF || rej y 0xFF || rej z 0xFF then .error (.exc .ValueError) else execBlock (sockMeths sso) env3 fcTail) ∧
      ((rej x 0xFF || rej y 0xFF || rej z 0xFF) = false →
        FcSt s x y z (fcUpd3 z (fcUpd2 y (fcUpd1 x (parseFc (layoutFc s.k.fc))))) env3) := by
  rw [fc_body_eq, execBlock_cons_ok _ _ _ _ _ (stmtAssertSocket_exec sso _ (fcEnv_s s x y z)),
    execBlock_cons_ok _ _ _ _ _ (stmtRead_exec sso _ (fcEnv_s s x y z))]
  obtain ⟨e1, x1, g1⟩ := fc_stage1 (sockMeths sso) (fc_init s x y z)
  rw [execBlock_cons_stage _ _ _ _ _ _ _ x1]
  cases r1 : rej x 0xFF
  case true => exact ⟨fcEnv s x y z, by simp, by simp⟩
  obtain ⟨e2, x2, g2⟩ := fc_stage2 (sockMeths sso) (g1 r1)
  simp only [Bool.false_eq_true, if_false]
  rw [execBlock_cons_stage _ _ _ _ _ _ _ x2]
  cases r2 : rej y 0xFF
  case true => exact ⟨fcEnv s x y z, by simp, by simp⟩
  obtain ⟨e3, x3, g3⟩ := fc_stage3 (sockMeths sso) (g2 r2)
  simp only [Bool.false_eq_true, if_false]
  rw [execBlock_cons_stage _ _ _ _ _ _ _ x3]
  cases r3 : rej z 0xFF
  case true => exact ⟨fcEnv s x y z, by simp, by simp⟩
  exact ⟨e3, by simp, fun _ => g3 r3⟩

/-- `opt = struct.pack("=BBB", ..); s.setsockopt(SOL_CAN_ISOTP, CAN_ISOTP_RECV_FC, opt); return o` -/
theorem fc_tail_exec (sso) {s : Sock} {x y z : PyVal} {o : KFc} {env : Env} (h : FcSt s x y z o env) :
    execBlock (sockMeths sso) env fcTail =
      (sso [pint (solCanIsotp : Nat), pint (optRECV_FC : Nat), .bytes (layoutFc o)] (env.set "opt" (.bytes (layoutFc o))) >>=
        fun e => execBlock (sockMeths sso) e (.cons (.ret (.var "o")) .nil)) := by
  obtain ⟨x1, l1, i1⟩ := h.f1
  obtain ⟨x2, l2, i2⟩ := h.f2
  obtain ⟨x3, l3, i3⟩ := h.f3
  obtain ⟨w1, w2, w3⟩ := h.wf
  have hp : structPack [.str "=BBB", x1, x2, x3] = .ok (.bytes (layoutFc o)) := structPack_BBB x1 x2 x3 _ _ _ i1 i2 i3 w1 w2 w3
  have hl : env "SOL_CAN_ISOTP" = some (pint (solCanIsotp : Nat)) := (h.stat _ (by decide)).trans (fcEnv_SOL s x y z)
  have ho : env "CAN_ISOTP_RECV_FC" = some (pint (optRECV_FC : Nat)) := (h.stat _ (by decide)).trans (fcEnv_OPT s x y z)
  have s1 : execStmt (sockMeths sso) env (.assign "opt" (.call "struct.pack" (.cons (.strLit "=BBB") (.cons (.var "o.bs")
      (.cons (.var "o.stmin") (.cons (.var "o.wftmax") .nil)))))) = .ok (.next (env.set "opt" (.bytes (layoutFc o)))) := by
    simp [execStmt, evalArgs, eval, l1, l2, l3, eb_struct_pack, sockMeths_pack, hp]
  rw [fcTail, execBlock_cons_ok _ _ _ _ _ s1]
  have s2 := stmtSso_exec sso (env.set "opt" (.bytes (layoutFc o))) "CAN_ISOTP_RECV_FC" _ _ _
    ((Env.set_ne _ _ _ _ (by decide)).trans hl) ((Env.set_ne _ _ _ _ (by decide)).trans ho) (Env.set_self _ _ _)
  rw [execBlock, s2]
  cases sso [pint (solCanIsotp : Nat), pint (optRECV_FC : Nat), .bytes (layoutFc o)] (env.set "opt" (.bytes (layoutFc o))) <;> rfl

/-- the object `o` of the run holds the integers `o'` -/
def FcObj (env : Env) (o' : KFc) : Prop :=
  IntAt env "o.bs" o'.bs ∧ IntAt env "o.stmin" o'.stmin ∧ IntAt env "o.wftmax" o'.wftmax

/-- **`FlowControlOpts.write` rejects what the model rejects, with `ValueError`, whatever `s.setsockopt` would do**
    (so: before the `s.setsockopt` statement is executed). -/
theorem FlowControlOpts_write_reject_any (sso) (s : Sock) (x y z : PyVal) (e : PyExc) (h : writeFc s x y z = .error e) :
    e = .ValueError ∧ runFn (sockMeths sso) (fcEnv s x y z) Src.FlowControlOpts_write = .error (.exc .ValueError) := by
  rw [writeFc_eq] at h
  obtain ⟨env3, hx, _⟩ := fc_run sso s x y z
  cases hr : rej x 0xFF || rej y 0xFF || rej z 0xFF
  · simp [hr] at h
  · simp only [hr, if_true] at h
    exact ⟨by injection h with h; exact h.symm, by simp [runFn, hx, hr]⟩

/-- **`FlowControlOpts.write` accepts what the model accepts**: it returns the object `o`, whose attributes then hold the
    fields of the model's result `o'`, and exactly one `setsockopt` call has been recorded, the one the model adds:
    `(SOL_CAN_ISOTP, CAN_ISOTP_RECV_FC, layoutFc o')`.  (`struct.pack` never fails.) -/
theorem FlowControlOpts_write_accept (s : Sock) (x y z : PyVal) (s' : Sock) (o' : KFc) (h : writeFc s x y z = .ok (s', o')) :
    ∃ env', runFn recMeths (fcEnv s x y z) Src.FlowControlOpts_write = .ok (.meth "o", env') ∧ FcObj env' o' ∧
      recorded env' = some [.setopt solCanIsotp optRECV_FC (layoutFc o')] ∧
      s'.calls = .setopt solCanIsotp optRECV_FC (layoutFc o') :: s.calls := by
  rw [writeFc_eq] at h
  obtain ⟨env3, hx, hg⟩ := fc_run recordSso s x y z
  cases hr : rej x 0xFF || rej y 0xFF || rej z 0xFF
  case true => simp [hr] at h
  simp only [hr, Bool.false_eq_true, if_false, Except.ok.injEq, Prod.mk.injEq] at h
  obtain ⟨hs', ho'⟩ := h
  have g := hg hr
  rw [ho'] at g hs'
  have hc : (env3.set "opt" (.bytes (layoutFc o'))) "#calls" = some (pint ((0 : Nat) : Int)) :=
    (Env.set_ne _ _ _ _ (by decide)).trans g.calls
  obtain ⟨c0, c1, c2, c3, hoff⟩ := logCall_0 (env3.set "opt" (.bytes (layoutFc o'))) (solCanIsotp : Nat) (optRECV_FC : Nat) (layoutFc o')
  have hoff' : EqOff ("opt" :: keys0) env3
      (logCall (env3.set "opt" (.bytes (layoutFc o'))) 0 (solCanIsotp : Nat) (optRECV_FC : Nat) (layoutFc o')) :=
    (((EqOff.refl _ env3).set "opt" (.bytes (layoutFc o')) (by decide)).trans (hoff.mono (by decide)))
  have hobj := (hoff' "o" (by decide)).trans g.obj
  refine ⟨_, ?_, ⟨g.f1.of_eqOff hoff' (by decide), g.f2.of_eqOff hoff' (by decide), g.f3.of_eqOff hoff' (by decide)⟩,
    recorded_one _ _ _ _ c0 c1 c2 c3, by rw [← hs']; rfl⟩
  rw [recMeths, runFn, hx, hr]
  simp only [Bool.false_eq_true, if_false]
  rw [fc_tail_exec recordSso g, recordSso_at _ 0 _ _ _ hc]
  simp [execBlock, execStmt, eval, hobj]

/-- non-vacuity of the `failMeths` argument: an ACCEPTED call does reach `s.setsockopt` -/
theorem FlowControlOpts_write_accept_fail (s : Sock) (x y z : PyVal) (r : Sock × KFc) (h : writeFc s x y z = .ok r) :
    runFn failMeths (fcEnv s x y z) Src.FlowControlOpts_write = .error (.unsupported "setsockopt") := by
  rw [writeFc_eq] at h
  obtain ⟨env3, hx, hg⟩ := fc_run failSso s x y z
  cases hr : rej x 0xFF || rej y 0xFF || rej z 0xFF
  case true => simp [hr] at h
  rw [failMeths, runFn, hx, hr]
  simp [fc_tail_exec failSso (hg hr), failSso]

/-! ## 5. `LinkLayerOpts.write` -/

/-- the world `LinkLayerOpts.write(s, mtu, tx_dl, tx_flags)` runs in (see the head of the file) -/
def llEnv (s : Sock) (x y z : PyVal) : Env := fun k =>
  match k with
  | "s" => some (.meth "s")
  | "mtu" => some (.sc (.py x))
  | "tx_dl" => some (.sc (.py y))
  | "tx_flags" => some (.sc (.py z))
  | "o.mtu" => some (pint ((parseLl (layoutLl s.k.ll)).mtu : Nat))
  | "o.tx_dl" => some (pint ((parseLl (layoutLl s.k.ll)).txDl : Nat))
  | "o.tx_flags" => some (pint ((parseLl (layoutLl s.k.ll)).txFlags : Nat))
  | "SOL_CAN_ISOTP" => some (pint (solCanIsotp : Nat))
  | "#calls" => some (pint ((0 : Nat) : Int))
  | _ => constEnv k

section llLookups
variable (s : Sock) (x y z : PyVal)
theorem llEnv_s : llEnv s x y z "s" = some (.meth "s") := rfl
theorem llEnv_a1 : llEnv s x y z "mtu" = some (.sc (.py x)) := rfl
theorem llEnv_a2 : llEnv s x y z "tx_dl" = some (.sc (.py y)) := rfl
theorem llEnv_a3 : llEnv s x y z "tx_flags" = some (.sc (.py z)) := rfl
theorem llEnv_o1 : llEnv s x y z "o.mtu" = some (pint ((parseLl (layoutLl s.k.ll)).mtu : Nat)) := rfl
theorem llEnv_o2 : llEnv s x y z "o.tx_dl" = some (pint ((parseLl (layoutLl s.k.ll)).txDl : Nat)) := rfl
theorem llEnv_o3 : llEnv s x y z "o.tx_flags" = some (pint ((parseLl (layoutLl s.k.ll)).txFlags : Nat)) := rfl
theorem llEnv_SOL : llEnv s x y z "SOL_CAN_ISOTP" = some (pint (solCanIsotp : Nat)) := rfl
theorem llEnv_calls : llEnv s x y z "#calls" = some (pint ((0 : Nat) : Int)) := rfl
/- the option number, as dumped from the source (`Src.consts`) -/
theorem llEnv_OPT : llEnv s x y z "CAN_ISOTP_LL_OPTS" = some (pint (optLL_OPTS : Nat)) := rfl
end llLookups

/-- names never assigned by `LinkLayerOpts.write` -/
def llKeys : List String := ["s", "mtu", "tx_dl", "tx_flags", "SOL_CAN_ISOTP", "CAN_ISOTP_LL_OPTS"]

/-- `env` is a state of the run of `LinkLayerOpts.write(s, x, y, z)` in which the object `o` holds the integers `o`
    and no call of `setsockopt` has been recorded -/
structure LlSt (s : Sock) (x y z : PyVal) (o : KLl) (env : Env) : Prop where
  stat : ∀ k ∈ llKeys, env k = llEnv s x y z k
  calls : env "#calls" = some (pint ((0 : Nat) : Int))
  obj : env "o" = some (.meth "o")
  f1 : IntAt env "o.mtu" o.mtu
  f2 : IntAt env "o.tx_dl" o.txDl
  f3 : IntAt env "o.tx_flags" o.txFlags
  wf : o.mtu ≤ 0xFF ∧ o.txDl ≤ 0xFF ∧ o.txFlags ≤ 0xFF

theorem LlSt.mk' {s : Sock} {x y z : PyVal} {o : KLl} {env env' : Env} (h : LlSt s x y z o env)
    {ks : List String} (hoff : EqOff ks env env') (hd : ∀ k ∈ llKeys ++ ["o", "#calls"], k ∉ ks) (o' : KLl)
    (f1 : IntAt env' "o.mtu" o'.mtu) (f2 : IntAt env' "o.tx_dl" o'.txDl) (f3 : IntAt env' "o.tx_flags" o'.txFlags)
    (wf : o'.mtu ≤ 0xFF ∧ o'.txDl ≤ 0xFF ∧ o'.txFlags ≤ 0xFF) : LlSt s x y z o' env' where
  stat := fun k hk => (hoff k (hd k (List.mem_append_left _ hk))).trans (h.stat k hk)
  calls := (hoff _ (hd _ (by simp))).trans h.calls
  obj := (hoff "o" (hd "o" (by simp))).trans h.obj
  f1 := f1
  f2 := f2
  f3 := f3
  wf := wf

def llUpd1 (x : PyVal) (o : KLl) : KLl := if x.isNone then o else { o with mtu := x.intVal.toNat }
def llUpd2 (y : PyVal) (o : KLl) : KLl := if y.isNone then o else { o with txDl := y.intVal.toNat }
def llUpd3 (z : PyVal) (o : KLl) : KLl := if z.isNone then o else { o with txFlags := z.intVal.toNat }

/-- the model, as a sequence of stages -/
theorem writeLl_eq (s : Sock) (x y z : PyVal) : writeLl s x y z =
    if rej x 0xFF || rej y 0xFF || rej z 0xFF then .error .ValueError else
    .ok (s.sso optLL_OPTS (layoutLl (llUpd3 z (llUpd2 y (llUpd1 x (parseLl (layoutLl s.k.ll)))))),
      llUpd3 z (llUpd2 y (llUpd1 x (parseLl (layoutLl s.k.ll))))) := by
  cases h1 : rej x 0xFF <;> cases h2 : rej y 0xFF <;> cases h3 : rej z 0xFF <;> simp only [rej] at h1 h2 h3 <;>
    simp only [writeLl, llUpd1, llUpd2, llUpd3, h1, h2, h3] <;> rfl

def llStmt1 : PStmt := guarded (.cmp .ne (.var "mtu") .none) "mtu" 255 (.cons (.assign "o.mtu" (.var "mtu")) .nil)
def llStmt2 : PStmt := guarded (.cmp .ne (.var "tx_dl") .none) "tx_dl" 255 (.cons (.assign "o.tx_dl" (.var "tx_dl")) .nil)
def llStmt3 : PStmt := guarded (.cmp .ne (.var "tx_flags") .none) "tx_flags" 255 (.cons (.assign "o.tx_flags" (.var "tx_flags")) .nil)
def llTail : PBlock :=
  .cons (.assign "opt" (.call "struct.pack" (.cons (.strLit "=BBB") (.cons (.var "o.mtu") (.cons (.var "o.tx_dl")
    (.cons (.var "o.tx_flags") .nil))))))
  (.cons (stmtSso "CAN_ISOTP_LL_OPTS") (.cons (.ret (.var "o")) .nil))

/-- the dumped source, statement by statement -/
theorem ll_body_eq : Src.LinkLayerOpts_write =
    .cons stmtAssertSocket (.cons stmtRead (.cons llStmt1 (.cons llStmt2 (.cons llStmt3 llTail)))) := rfl

theorem ll_stage1 (M : Meths) {s : Sock} {x y z : PyVal} {o : KLl} {env : Env} (h : LlSt s x y z o env) :
    ∃ env', execStmt M env llStmt1 = (if rej x 0xFF then .error (.exc .ValueError) else .ok (.next env')) ∧
      (rej x 0xFF = false → LlSt s x y z (llUpd1 x o) env') := by
  have hv : env "mtu" = some (.sc (.py x)) := (h.stat _ (by decide)).trans (llEnv_a1 s x y z)
  rw [llStmt1, guarded_exec M env _ _ _ _ _ hv (eval_ne_none_var M env _ _ hv)]
  cases hr : rej x 0xFF
  · cases hn : x.isNone
    · refine ⟨env.set "o.mtu" (.sc (.py x)), ?_, fun _ => ?_⟩
      · simp [execBlock, exec_assign_var M env _ _ _ hv]
      · have hoff : EqOff ["o.mtu"] env (env.set "o.mtu" (.sc (.py x))) := (EqOff.refl _ _).set _ _ (by decide)
        have e : llUpd1 x o = { o with mtu := x.intVal.toNat } := by simp [llUpd1, hn]
        obtain ⟨w1, w2, w3⟩ := h.wf
        rw [e]
        exact h.mk' hoff (by decide) _ ⟨_, Env.set_self _ _ _, asInt_given _ _ hr hn⟩ (h.f2.of_eqOff hoff (by decide))
          (h.f3.of_eqOff hoff (by decide)) ⟨toNat_le_given _ 0xFF hr hn, w2, w3⟩
    · exact ⟨env, by simp, fun _ => by simpa [llUpd1, hn] using h⟩
  · exact ⟨env, by simp, by simp⟩

theorem ll_stage2 (M : Meths) {s : Sock} {x y z : PyVal} {o : KLl} {env : Env} (h : LlSt s x y z o env) :
    ∃ env', execStmt M env llStmt2 = (if rej y 0xFF then .error (.exc .ValueError) else .ok (.next env')) ∧
      (rej y 0xFF = false → LlSt s x y z (llUpd2 y o) env') := by
  have hv : env "tx_dl" = some (.sc (.py y)) := (h.stat _ (by decide)).trans (llEnv_a2 s x y z)
  rw [llStmt2, guarded_exec M env _ _ _ _ _ hv (eval_ne_none_var M env _ _ hv)]
  cases hr : rej y 0xFF
  · cases hn : y.isNone
    · refine ⟨env.set "o.tx_dl" (.sc (.py y)), ?_, fun _ => ?_⟩
      · simp [execBlock, exec_assign_var M env _ _ _ hv]
      · have hoff : EqOff ["o.tx_dl"] env (env.set "o.tx_dl" (.sc (.py y))) := (EqOff.refl _ _).set _ _ (by decide)
        have e : llUpd2 y o = { o with txDl := y.intVal.toNat } := by simp [llUpd2, hn]
        obtain ⟨w1, w2, w3⟩ := h.wf
        rw [e]
        exact h.mk' hoff (by decide) _ (h.f1.of_eqOff hoff (by decide)) ⟨_, Env.set_self _ _ _, asInt_given _ _ hr hn⟩
          (h.f3.of_eqOff hoff (by decide)) ⟨w1, toNat_le_given _ 0xFF hr hn, w3⟩
    · exact ⟨env, by simp, fun _ => by simpa [llUpd2, hn] using h⟩
  · exact ⟨env, by simp, by simp⟩

theorem ll_stage3 (M : Meths) {s : Sock} {x y z : PyVal} {o : KLl} {env : Env} (h : LlSt s x y z o env) :
    ∃ env', execStmt M env llStmt3 = (if rej z 0xFF then .error (.exc .ValueError) else .ok (.next env')) ∧
      (rej z 0xFF = false → LlSt s x y z (llUpd3 z o) env') := by
  have hv : env "tx_flags" = some (.sc (.py z)) := (h.stat _ (by decide)).trans (llEnv_a3 s x y z)
  rw [llStmt3, guarded_exec M env _ _ _ _ _ hv (eval_ne_none_var M env _ _ hv)]
  cases hr : rej z 0xFF
  · cases hn : z.isNone
    · refine ⟨env.set "o.tx_flags" (.sc (.py z)), ?_, fun _ => ?_⟩
      · simp [execBlock, exec_assign_var M env _ _ _ hv]
      · have hoff : EqOff ["o.tx_flags"] env (env.set "o.tx_flags" (.sc (.py z))) := (EqOff.refl _ _).set _ _ (by decide)
        have e : llUpd3 z o = { o with txFlags := z.intVal.toNat } := by simp [llUpd3, hn]
        obtain ⟨w1, w2, w3⟩ := h.wf
        rw [e]
        exact h.mk' hoff (by decide) _ (h.f1.of_eqOff hoff (by decide)) (h.f2.of_eqOff hoff (by decide))
          ⟨_, Env.set_self _ _ _, asInt_given _ _ hr hn⟩ ⟨w1, w2, toNat_le_given _ 0xFF hr hn⟩
    · exact ⟨env, by simp, fun _ => by simpa [llUpd3, hn] using h⟩
  · exact ⟨env, by simp, by simp⟩

/-- the state after `assert_is_socket(s); o = cls.read(s)` -/
theorem ll_init (s : Sock) (x y z : PyVal) :
    LlSt s x y z (parseLl (layoutLl s.k.ll)) ((llEnv s x y z).set "o" (.meth "o")) where
  stat := fun k hk => Env.set_ne _ _ _ _ (by rintro rfl; revert hk; decide)
  calls := (Env.set_ne _ _ _ _ (by decide)).trans (llEnv_calls s x y z)
  obj := Env.set_self _ _ _
  f1 := ⟨_, (Env.set_ne _ _ _ _ (by decide)).trans (llEnv_o1 s x y z), asInt_pint _⟩
  f2 := ⟨_, (Env.set_ne _ _ _ _ (by decide)).trans (llEnv_o2 s x y z), asInt_pint _⟩
  f3 := ⟨_, (Env.set_ne _ _ _ _ (by decide)).trans (llEnv_o3 s x y z), asInt_pint _⟩
  wf := ⟨byteAt_le _ _, byteAt_le _ _, byteAt_le _ _⟩

/-- the body up to (not including) `opt = struct.pack(..)`, for any semantics of `s.setsockopt` (none is executed) -/
theorem ll_run (sso) (s : Sock) (x y z : PyVal) :
    ∃ env3, execBlock (sockMeths sso) (llEnv s x y z) Src.LinkLayerOpts_write =
        (if rej x 0xFF || rej y 0xFF || rej z 0xFF then .error (.exc .ValueError) else execBlock (sockMeths sso) env3 llTail) ∧
      ((rej x 0xFF || rej y 0xFF || rej z 0xFF) = false →
        LlSt s x y z (llUpd3 z (llUpd2 y (llUpd1 x (parseLl (layoutLl s.k.ll))))) env3) := by
  rw [ll_body_eq, execBlock_cons_ok _ _ _ _ _ (stmtAssertSocket_exec sso _ (llEnv_s s x y z)),
    execBlock_cons_ok _ _ _ _ _ (stmtRead_exec sso _ (llEnv_s s x y z))]
  obtain ⟨e1, x1, g1⟩ := ll_stage1 (sockMeths sso) (ll_init s x y z)
  rw [execBlock_cons_stage _ _ _ _ _ _ _ x1]
  cases r1 : rej x 0xFF
  case true => exact ⟨llEnv s x y z, by simp, by simp⟩
  obtain ⟨e2, x2, g2⟩ := ll_stage2 (sockMeths sso) (g1 r1)
  simp only [Bool.false_eq_true, if_false]
  rw [execBlock_cons_stage _ _ _ _ _ _ _ x2]
  cases r2 : rej y 0xFF
  case true => exact ⟨llEnv s x y z, by simp, by simp⟩
  obtain ⟨e3, x3, g3⟩ := ll_stage3 (sockMeths sso) (g2 r2)
  simp only [Bool.false_eq_true, if_false]
  rw [execBlock_cons_stage _ _ _ _ _ _ _ x3]
  cases r3 : rej z 0xFF
  case true => exact ⟨llEnv s x y z, by simp, by simp⟩
  exact ⟨e3, by simp, fun _ => g3 r3⟩

/-- `opt = struct.pack("=BBB", ..); s.setsockopt(SOL_CAN_ISOTP, CAN_ISOTP_LL_OPTS, opt); return o` -/
theorem ll_tail_exec (sso) {s : Sock} {x y z : PyVal} {o : KLl} {env : Env} (h : LlSt s x y z o env) :
    execBlock (sockMeths sso) env llTail =
      (sso [pint (solCanIsotp : Nat), pint (optLL_OPTS : Nat), .bytes (layoutLl o)] (env.set "opt" (.bytes (layoutLl o))) >>=
        fun e => execBlock (sockMeths sso) e (.cons (.ret (.var "o")) .nil)) := by
  obtain ⟨x1, l1, i1⟩ := h.f1
  obtain ⟨x2, l2, i2⟩ := h.f2
  obtain ⟨x3, l3, i3⟩ := h.f3
  obtain ⟨w1, w2, w3⟩ := h.wf
  have hp : structPack [.str "=BBB", x1, x2, x3] = .ok (.bytes (layoutLl o)) := structPack_BBB x1 x2 x3 _ _ _ i1 i2 i3 w1 w2 w3
  have hl : env "SOL_CAN_ISOTP" = some (pint (solCanIsotp : Nat)) := (h.stat _ (by decide)).trans (llEnv_SOL s x y z)
  have ho : env "CAN_ISOTP_LL_OPTS" = some (pint (optLL_OPTS : Nat)) := (h.stat _ (by decide)).trans (llEnv_OPT s x y z)
  have s1 : execStmt (sockMeths sso) env (.assign "opt" (.call "struct.pack" (.cons (.strLit "=BBB") (.cons (.var "o.mtu")
      (.cons (.var "o.tx_dl") (.cons (.var "o.tx_flags") .nil)))))) = .ok (.next (env.set "opt" (.bytes (layoutLl o)))) := by
    simp [execStmt, evalArgs, eval, l1, l2, l3, eb_struct_pack, sockMeths_pack, hp]
  rw [llTail, execBlock_cons_ok _ _ _ _ _ s1]
  have s2 := stmtSso_exec sso (env.set "opt" (.bytes (layoutLl o))) "CAN_ISOTP_LL_OPTS" _ _ _
    ((Env.set_ne _ _ _ _ (by decide)).trans hl) ((Env.set_ne _ _ _ _ (by decide)).trans ho) (Env.set_self _ _ _)
  rw [execBlock, s2]
  cases sso [pint (solCanIsotp : Nat), pint (optLL_OPTS : Nat), .bytes (layoutLl o)] (env.set "opt" (.bytes (layoutLl o))) <;> rfl

/-- the object `o` of the run holds the integers `o'` -/
def LlObj (env : Env) (o' : KLl) : Prop :=
  IntAt env "o.mtu" o'.mtu ∧ IntAt env "o.tx_dl" o'.txDl ∧ IntAt env "o.tx_flags" o'.txFlags

/-- **`LinkLayerOpts.write` rejects what the model rejects, with `ValueError`, whatever `s.setsockopt` would do**
    (so: before the `s.setsockopt` statement is executed). -/
theorem LinkLayerOpts_write_reject_any (sso) (s : Sock) (x y z : PyVal) (e : PyExc) (h : writeLl s x y z = .error e) :
    e = .ValueError ∧ runFn (sockMeths sso) (llEnv s x y z) Src.LinkLayerOpts_write = .error (.exc .ValueError) := by
  rw [writeLl_eq] at h
  obtain ⟨env3, hx, _⟩ := ll_run sso s x y z
  cases hr : rej x 0xFF || rej y 0xFF || rej z 0xFF
  · simp [hr] at h
  · simp only [hr, if_true] at h
    exact ⟨by injection h with h; exact h.symm, by simp [runFn, hx, hr]⟩

/-- **`LinkLayerOpts.write` accepts what the model accepts**: it returns the object `o`, whose attributes then hold the
    fields of the model's result `o'`, and exactly one `setsockopt` call has been recorded, the one the model adds:
    `(SOL_CAN_ISOTP, CAN_ISOTP_LL_OPTS, layoutLl o')`.  (`struct.pack` never fails.) -/
theorem LinkLayerOpts_write_accept (s : Sock) (x y z : PyVal) (s' : Sock) (o' : KLl) (h : writeLl s x y z = .ok (s', o')) :
    ∃ env', runFn recMeths (llEnv s x y z) Src.LinkLayerOpts_write = .ok (.meth "o", env') ∧ LlObj env' o' ∧
      recorded env' = some [.setopt solCanIsotp optLL_OPTS (layoutLl o')] ∧
      s'.calls = .setopt solCanIsotp optLL_OPTS (layoutLl o') :: s.calls := by
  rw [writeLl_eq] at h
  obtain ⟨env3, hx, hg⟩ := ll_run recordSso s x y z
  cases hr : rej x 0xFF || rej y 0xFF || rej z 0xFF
  case true => simp [hr] at h
  simp only [hr, Bool.false_eq_true, if_false, Except.ok.injEq, Prod.mk.injEq] at h
  obtain ⟨hs', ho'⟩ := h
  have g := hg hr
  rw [ho'] at g hs'
  have hc : (env3.set "opt" (.bytes (layoutLl o'))) "#calls" = some (pint ((0 : Nat) : Int)) :=
    (Env.set_ne _ _ _ _ (by decide)).trans g.calls
  obtain ⟨c0, c1, c2, c3, hoff⟩ := logCall_0 (env3.set "opt" (.bytes (layoutLl o'))) (solCanIsotp : Nat) (optLL_OPTS : Nat) (layoutLl o')
  have hoff' : EqOff ("opt" :: keys0) env3
      (logCall (env3.set "opt" (.bytes (layoutLl o'))) 0 (solCanIsotp : Nat) (optLL_OPTS : Nat) (layoutLl o')) :=
    (((EqOff.refl _ env3).set "opt" (.bytes (layoutLl o')) (by decide)).trans (hoff.mono (by decide)))
  have hobj := (hoff' "o" (by decide)).trans g.obj
  refine ⟨_, ?_, ⟨g.f1.of_eqOff hoff' (by decide), g.f2.of_eqOff hoff' (by decide), g.f3.of_eqOff hoff' (by decide)⟩,
    recorded_one _ _ _ _ c0 c1 c2 c3, by rw [← hs']; rfl⟩
  rw [recMeths, runFn, hx, hr]
  simp only [Bool.false_eq_true, if_false]
  rw [ll_tail_exec recordSso g, recordSso_at _ 0 _ _ _ hc]
  simp [execBlock, execStmt, eval, hobj]

/-- non-vacuity of the `failMeths` argument: an ACCEPTED call does reach `s.setsockopt` -/
theorem LinkLayerOpts_write_accept_fail (s : Sock) (x y z : PyVal) (r : Sock × KLl) (h : writeLl s x y z = .ok r) :
    runFn failMeths (llEnv s x y z) Src.LinkLayerOpts_write = .error (.unsupported "setsockopt") := by
  rw [writeLl_eq] at h
  obtain ⟨env3, hx, hg⟩ := ll_run failSso s x y z
  cases hr : rej x 0xFF || rej y 0xFF || rej z 0xFF
  case true => simp [hr] at h
  rw [failMeths, runFn, hx, hr]
  simp [ll_tail_exec failSso (hg hr), failSso]

/-! ## 6. `socket.set_opts`, `socket.set_fc_opts`, `socket.set_ll_opts` (isotp/tpsock/__init__.py)

  `self.bound ↦ pbool s.bound`, `self._socket ↦ .meth "s"`, the arguments as before.  The dumper writes the keyword call
  `opts.GeneralOpts.write(self._socket, optflag=optflag, ...)` as a call of the name
  `opts.GeneralOpts.write#optflag#frame_txtime#...` (the keywords, in call order) on the positional and keyword values in that order;
  it is presented as a `Meths.fn` that hands the values, keyword by keyword, to `callee` (what the writer does with them;
  section 3 ties that to `writeOpts`).  Result: `RuntimeError` iff bound, else exactly one call of the writer with exactly the
  wrapper's arguments, whose result is returned: this is `setOpts`. -/

def setOptsEnv (s : Sock) (a : OptsArgs) : Env := fun k =>
  match k with
  | "self.bound" => some (pbool s.bound)
  | "self._socket" => some (.meth "s")
  | "optflag" => some (.sc (.py a.optflag))
  | "frame_txtime" => some (.sc (.py a.frameTxtime))
  | "ext_address" => some (.sc (.py a.extAddress))
  | "txpad" => some (.sc (.py a.txpad))
  | "rxpad" => some (.sc (.py a.rxpad))
  | "rx_ext_address" => some (.sc (.py a.rxExtAddress))
  | "tx_stmin" => some (.sc (.py a.txStmin))
  | _ => constEnv k

theorem setOptsEnv_lookups (s : Sock) (a : OptsArgs) :
    setOptsEnv s a "self.bound" = some (pbool s.bound) ∧
    setOptsEnv s a "self._socket" = some (.meth "s") ∧
    setOptsEnv s a "optflag" = some (.sc (.py a.optflag)) ∧
    setOptsEnv s a "frame_txtime" = some (.sc (.py a.frameTxtime)) ∧
    setOptsEnv s a "ext_address" = some (.sc (.py a.extAddress)) ∧
    setOptsEnv s a "txpad" = some (.sc (.py a.txpad)) ∧
    setOptsEnv s a "rxpad" = some (.sc (.py a.rxpad)) ∧
    setOptsEnv s a "rx_ext_address" = some (.sc (.py a.rxExtAddress)) ∧
    setOptsEnv s a "tx_stmin" = some (.sc (.py a.txStmin)) := ⟨rfl, rfl, rfl, rfl, rfl, rfl, rfl, rfl, rfl⟩

def genWriteName : String := "opts.GeneralOpts.write#optflag#frame_txtime#ext_address#txpad#rxpad#rx_ext_address#tx_stmin"

def setOptsMeths (callee : OptsArgs → Except PErr PV) : Meths where
  fn := fun n args _ =>
    if n = genWriteName then
      match args with
      | [.meth "s", .sc (.py x1), .sc (.py x2), .sc (.py x3), .sc (.py x4), .sc (.py x5), .sc (.py x6), .sc (.py x7)] =>
        callee { optflag := x1, frameTxtime := x2, extAddress := x3, txpad := x4, rxpad := x5, rxExtAddress := x6, txStmin := x7 }
      | _ => .error (.unsupported "GeneralOpts.write: arguments")
    else .error (.unsupported ("call " ++ n))
  proc := fun n _ _ => .error (.unsupported ("call " ++ n))

/-- how a result of the model's writer looks to the caller: the object, or the exception -/
def writeResult {α : Type} (r : Except PyExc (Sock × α)) : Except PErr PV :=
  match r with
  | .ok _ => .ok (.meth "o")
  | .error e => .error (.exc e)

theorem eb_genWrite (vs : List PV) : evalBuiltin genWriteName vs = none := evalBuiltin_none_of _ _ (by decide)

theorem socket_set_opts_body : Src.socket_set_opts =
    .cons (.ite (.var "self.bound") (.cons (.raise "RuntimeError") .nil) .nil)
    (.cons (.ret (.call genWriteName (.cons (.var "self._socket") (.cons (.var "optflag") (.cons (.var "frame_txtime")
      (.cons (.var "ext_address") (.cons (.var "txpad") (.cons (.var "rxpad") (.cons (.var "rx_ext_address")
      (.cons (.var "tx_stmin") .nil)))))))))) .nil) := rfl

/-- `socket.set_opts`: `RuntimeError` iff bound; otherwise the writer is called once, with the wrapper's arguments keyword by
    keyword, and its result (value or exception) is the wrapper's; the wrapper object is not modified. -/
theorem socket_set_opts_exec (callee : OptsArgs → Except PErr PV) (s : Sock) (a : OptsArgs) :
    runFn (setOptsMeths callee) (setOptsEnv s a) Src.socket_set_opts =
      if s.bound then .error (.exc .RuntimeError) else (callee a).map (fun v => (v, setOptsEnv s a)) := by
  obtain ⟨l0, l1, l2, l3, l4, l5, l6, l7, l8⟩ := setOptsEnv_lookups s a
  have hfn : ∀ env, (setOptsMeths callee).fn genWriteName [.meth "s", .sc (.py a.optflag), .sc (.py a.frameTxtime),
      .sc (.py a.extAddress), .sc (.py a.txpad), .sc (.py a.rxpad), .sc (.py a.rxExtAddress), .sc (.py a.txStmin)] env = callee a := by
    intro env; simp [setOptsMeths]
  rw [socket_set_opts_body]
  cases hb : s.bound
  · simp only [runFn, execBlock, execStmt, eval, evalArgs, l0, l1, l2, l3, l4, l5, l6, l7, l8, hb, ok_bind, truthy_pbool,
      Bool.false_eq_true, if_false, eb_genWrite, hfn]
    cases callee a <;> rfl
  · simp [runFn, execBlock, execStmt, eval, l0, hb]

/-- **`socket.set_opts` = `setOpts`** (the writer being the model's `writeOpts`, section 3) -/
theorem socket_set_opts_agrees (s : Sock) (a : OptsArgs) :
    (runFn (setOptsMeths (fun a' => writeResult (writeOpts s a'))) (setOptsEnv s a) Src.socket_set_opts).map (·.1) =
      writeResult (setOpts s a) := by
  rw [socket_set_opts_exec, setOpts]
  cases s.bound
  · simp only [Bool.false_eq_true, if_false]
    cases writeOpts s a <;> rfl
  · rfl

def setFcOptsEnv (s : Sock) (x y z : PyVal) : Env := fun k =>
  match k with
  | "self.bound" => some (pbool s.bound)
  | "self._socket" => some (.meth "s")
  | "bs" => some (.sc (.py x))
  | "stmin" => some (.sc (.py y))
  | "wftmax" => some (.sc (.py z))
  | _ => constEnv k

theorem setFcOptsEnv_lookups (s : Sock) (x y z : PyVal) :
    setFcOptsEnv s x y z "self.bound" = some (pbool s.bound) ∧
    setFcOptsEnv s x y z "self._socket" = some (.meth "s") ∧
    setFcOptsEnv s x y z "bs" = some (.sc (.py x)) ∧
    setFcOptsEnv s x y z "stmin" = some (.sc (.py y)) ∧
    setFcOptsEnv s x y z "wftmax" = some (.sc (.py z)) := ⟨rfl, rfl, rfl, rfl, rfl⟩

def fcWriteName : String := "opts.FlowControlOpts.write#bs#stmin#wftmax"

def setFcOptsMeths (callee : PyVal → PyVal → PyVal → Except PErr PV) : Meths where
  fn := fun n args _ =>
    if n = fcWriteName then
      match args with
      | [.meth "s", .sc (.py x), .sc (.py y), .sc (.py z)] => callee x y z
      | _ => .error (.unsupported "FlowControlOpts.write: arguments")
    else .error (.unsupported ("call " ++ n))
  proc := fun n _ _ => .error (.unsupported ("call " ++ n))

theorem eb_fcWrite (vs : List PV) : evalBuiltin fcWriteName vs = none := evalBuiltin_none_of _ _ (by decide)

theorem socket_set_fc_opts_body : Src.socket_set_fc_opts =
    .cons (.ite (.var "self.bound") (.cons (.raise "RuntimeError") .nil) .nil)
    (.cons (.ret (.call fcWriteName (.cons (.var "self._socket") (.cons (.var "bs") (.cons (.var "stmin")
      (.cons (.var "wftmax") .nil)))))) .nil) := rfl

/-- `socket.set_fc_opts`: `RuntimeError` iff bound; otherwise the writer is called once, with the wrapper's arguments keyword by
    keyword, and its result (value or exception) is the wrapper's; the wrapper object is not modified. -/
theorem socket_set_fc_opts_exec (callee : PyVal → PyVal → PyVal → Except PErr PV) (s : Sock) (x y z : PyVal) :
    runFn (setFcOptsMeths callee) (setFcOptsEnv s x y z) Src.socket_set_fc_opts =
      if s.bound then .error (.exc .RuntimeError) else (callee x y z).map (fun v => (v, setFcOptsEnv s x y z)) := by
  obtain ⟨l0, l1, l2, l3, l4⟩ := setFcOptsEnv_lookups s x y z
  have hfn : ∀ env, (setFcOptsMeths callee).fn fcWriteName [.meth "s", .sc (.py x), .sc (.py y), .sc (.py z)] env = callee x y z := by
    intro env; simp [setFcOptsMeths]
  rw [socket_set_fc_opts_body]
  cases hb : s.bound
  · simp only [runFn, execBlock, execStmt, eval, evalArgs, l0, l1, l2, l3, l4, hb, ok_bind, truthy_pbool,
      Bool.false_eq_true, if_false, eb_fcWrite, hfn]
    cases callee x y z <;> rfl
  · simp [runFn, execBlock, execStmt, eval, l0, hb]

/-- **`socket.set_fc_opts` = `setFcOpts`** (the writer being the model's `writeFc`) -/
theorem socket_set_fc_opts_agrees (s : Sock) (x y z : PyVal) :
    (runFn (setFcOptsMeths (fun x' y' z' => writeResult (writeFc s x' y' z'))) (setFcOptsEnv s x y z) Src.socket_set_fc_opts).map (·.1) =
      writeResult (setFcOpts s x y z) := by
  rw [socket_set_fc_opts_exec, setFcOpts]
  cases s.bound
  · simp only [Bool.false_eq_true, if_false]
    cases writeFc s x y z <;> rfl
  · rfl

def setLlOptsEnv (s : Sock) (x y z : PyVal) : Env := fun k =>
  match k with
  | "self.bound" => some (pbool s.bound)
  | "self._socket" => some (.meth "s")
  | "mtu" => some (.sc (.py x))
  | "tx_dl" => some (.sc (.py y))
  | "tx_flags" => some (.sc (.py z))
  | _ => constEnv k

theorem setLlOptsEnv_lookups (s : Sock) (x y z : PyVal) :
    setLlOptsEnv s x y z "self.bound" = some (pbool s.bound) ∧
    setLlOptsEnv s x y z "self._socket" = some (.meth "s") ∧
    setLlOptsEnv s x y z "mtu" = some (.sc (.py x)) ∧
    setLlOptsEnv s x y z "tx_dl" = some (.sc (.py y)) ∧
    setLlOptsEnv s x y z "tx_flags" = some (.sc (.py z)) := ⟨rfl, rfl, rfl, rfl, rfl⟩

def llWriteName : String := "opts.LinkLayerOpts.write#mtu#tx_dl#tx_flags"

def setLlOptsMeths (callee : PyVal → PyVal → PyVal → Except PErr PV) : Meths where
  fn := fun n args _ =>
    if n = llWriteName then
      match args with
      | [.meth "s", .sc (.py x), .sc (.py y), .sc (.py z)] => callee x y z
      | _ => .error (.unsupported "LinkLayerOpts.write: arguments")
    else .error (.unsupported ("call " ++ n))
  proc := fun n _ _ => .error (.unsupported ("call " ++ n))

theorem eb_llWrite (vs : List PV) : evalBuiltin llWriteName vs = none := evalBuiltin_none_of _ _ (by decide)

theorem socket_set_ll_opts_body : Src.socket_set_ll_opts =
    .cons (.ite (.var "self.bound") (.cons (.raise "RuntimeError") .nil) .nil)
    (.cons (.ret (.call llWriteName (.cons (.var "self._socket") (.cons (.var "mtu") (.cons (.var "tx_dl")
      (.cons (.var "tx_flags") .nil)))))) .nil) := rfl

/-- `socket.set_ll_opts`: `RuntimeError` iff bound; otherwise the writer is called once, with the wrapper's arguments keyword by
    keyword, and its result (value or exception) is the wrapper's; the wrapper object is not modified. -/
theorem socket_set_ll_opts_exec (callee : PyVal → PyVal → PyVal → Except PErr PV) (s : Sock) (x y z : PyVal) :
    runFn (setLlOptsMeths callee) (setLlOptsEnv s x y z) Src.socket_set_ll_opts =
      if s.bound then .error (.exc .RuntimeError) else (callee x y z).map (fun v => (v, setLlOptsEnv s x y z)) := by
  obtain ⟨l0, l1, l2, l3, l4⟩ := setLlOptsEnv_lookups s x y z
  have hfn : ∀ env, (setLlOptsMeths callee).fn llWriteName [.meth "s", .sc (.py x), .sc (.py y), .sc (.py z)] env = callee x y z := by
    intro env; simp [setLlOptsMeths]
  rw [socket_set_ll_opts_body]
  cases hb : s.bound
  · simp only [runFn, execBlock, execStmt, eval, evalArgs, l0, l1, l2, l3, l4, hb, ok_bind, truthy_pbool,
      Bool.false_eq_true, if_false, eb_llWrite, hfn]
    cases callee x y z <;> rfl
  · simp [runFn, execBlock, execStmt, eval, l0, hb]

/-- **`socket.set_ll_opts` = `setLlOpts`** (the writer being the model's `writeLl`) -/
theorem socket_set_ll_opts_agrees (s : Sock) (x y z : PyVal) :
    (runFn (setLlOptsMeths (fun x' y' z' => writeResult (writeLl s x' y' z'))) (setLlOptsEnv s x y z) Src.socket_set_ll_opts).map (·.1) =
      writeResult (setLlOpts s x y z) := by
  rw [socket_set_ll_opts_exec, setLlOpts]
  cases s.bound
  · simp only [Bool.false_eq_true, if_false]
    cases writeLl s x y z <;> rfl
  · rfl


/-! ## 7. `socket.bind` (isotp/tpsock/__init__.py) vs `Sock.bind` -/

/-! ### bit facts: the identifier masks -/

theorem and_effMask (x : Nat) : x &&& effMask = x % 536870912 := Nat.and_two_pow_sub_one_eq_mod x 29
theorem and_sffMask (x : Nat) : x &&& sffMask = x % 2048 := Nat.and_two_pow_sub_one_eq_mod x 11
theorem or_effFlag (y : Nat) (h : y < 536870912) : y ||| effFlag = y + effFlag := by
  have e := or_two_pow_eq_orFlag y 31
  have h0 : y / 2^31 % 2 = 0 := by
    have : y / 2^31 = 0 := Nat.div_eq_of_lt (by omega)
    omega
  simp only [orFlag, h0] at e
  simpa [effFlag] using e

theorem evalBinop_band_nat (m n : Nat) : evalBinop .band (pint (m : Nat)) (pint (n : Nat)) = .ok (pint ((m &&& n : Nat) : Int)) := by
  rw [evalBinop_band _ _ (Int.natCast_nonneg _) (Int.natCast_nonneg _)]; simp
theorem evalBinop_bor_nat (m n : Nat) : evalBinop .bor (pint (m : Nat)) (pint (n : Nat)) = .ok (pint ((m ||| n : Nat) : Int)) :=
  evalBinop_bor_asInt _ _ m n rfl rfl

/-- the CAN identifier handed to the kernel: masked, with the EFF flag for a 29-bit identifier -/
def canId (is29 : Bool) (i : Nat) : Nat := if is29 then i % 536870912 + effFlag else i % 2048


/-! ### the object world of `bind`

  * `interface ↦ ifc` (any scalar; a `str` is `.sc (.py (.str t))`), `address ↦ .meth "address"` (an opaque object);
    `isinstance(interface, str)`, `isinstance(address, (isotp.Address, isotp.AsymmetricAddress))` and
    `isinstance(address, isotp.AsymmetricAddress)` are `Meths.fn`s (`asym` says which class the address object is);
  * the methods of the address object answer what the model's `Addr` says (each tied to its own source in `AddressFns.lean`);
    those reached through `self.address` answer only AFTER `self.address = address` has been executed;
  * `self.get_opts()` returns the opaque object `o` whose `o.optflag` is pre-bound to what `GeneralOpts.read` delivers (as in section 3);
  * `socket_module.CAN_EFF_MASK / CAN_EFF_FLAG / CAN_SFF_MASK` and `self.flags.EXTEND_ADDR / RX_EXT_ADDR` are bound to the model's
    constants (tied to the source by `Agree.SockConsts`);
  * `self.set_opts(optflag=.., ext_address=.., rx_ext_address=..)` (a statement: `Meths.proc`): its outcome is the model's
    `setOpts s` on exactly these keyword values (section 6 ties `set_opts` to `setOpts`); a successful call is recorded
    (`#set_opts`, `set_opts.*`);
  * `self._socket.bind((interface, rxid, txid))`: `bnd`; `recordBind` records the tuple, the number of calls (`#binds`) and how many
    `set_opts` calls preceded it (`bind.#set_opts`); `failBind` fails distinctively. -/

def bindEnv (s : Sock) (ifc : PV) : Env := fun k =>
  match k with
  | "interface" => some ifc
  | "address" => some (.meth "address")
  | "o.optflag" => some (pint ((parseOpts (layoutOpts s.k.opts)).flags : Nat))
  | "isotp.TargetAddressType.Physical" => some (tatPV .physical)
  | "socket_module.CAN_EFF_MASK" => some (pint (effMask : Nat))
  | "socket_module.CAN_EFF_FLAG" => some (pint (effFlag : Nat))
  | "socket_module.CAN_SFF_MASK" => some (pint (sffMask : Nat))
  | "self.flags.EXTEND_ADDR" => some (pint (fEXTEND_ADDR : Nat))
  | "self.flags.RX_EXT_ADDR" => some (pint (fRX_EXT_ADDR : Nat))
  | "self.bound" => some (pbool s.bound)
  | "#set_opts" => some (pint ((0 : Nat) : Int))
  | "#binds" => some (pint ((0 : Nat) : Int))
  | _ => constEnv k

theorem bindEnv_lookups (s : Sock) (ifc : PV) :
    bindEnv s ifc "interface" = some ifc ∧
    bindEnv s ifc "address" = some (.meth "address") ∧
    bindEnv s ifc "o.optflag" = some (pint ((parseOpts (layoutOpts s.k.opts)).flags : Nat)) ∧
    bindEnv s ifc "isotp.TargetAddressType.Physical" = some (tatPV .physical) ∧
    bindEnv s ifc "socket_module.CAN_EFF_MASK" = some (pint (effMask : Nat)) ∧
    bindEnv s ifc "socket_module.CAN_EFF_FLAG" = some (pint (effFlag : Nat)) ∧
    bindEnv s ifc "socket_module.CAN_SFF_MASK" = some (pint (sffMask : Nat)) ∧
    bindEnv s ifc "self.flags.EXTEND_ADDR" = some (pint (fEXTEND_ADDR : Nat)) ∧
    bindEnv s ifc "self.flags.RX_EXT_ADDR" = some (pint (fRX_EXT_ADDR : Nat)) ∧
    bindEnv s ifc "#set_opts" = some (pint ((0 : Nat) : Int)) ∧
    bindEnv s ifc "#binds" = some (pint ((0 : Nat) : Int)) := ⟨rfl, rfl, rfl, rfl, rfl, rfl, rfl, rfl, rfl, rfl, rfl⟩

def nullary (args : List PV) (v : PV) : Except PErr PV :=
  match args with
  | [] => .ok v
  | _ => .error (.unsupported "arity")

def bindFn (a : Addr) (asym : Bool) (n : String) (args : List PV) (env : Env) : Except PErr PV :=
  if n = "isinstance_str" then
    (match args with
     | [.sc (.py (.str _))] => .ok (pbool true)
     | [_] => .ok (pbool false)
     | _ => .error (.unsupported "arity"))
  else if n = "isinstance_Address_AsymmetricAddress" then
    (match args with
     | [v] => .ok (pbool (v == .meth "address"))
     | _ => .error (.unsupported "arity"))
  else if n = "isinstance_AsymmetricAddress" then
    (match args with
     | [v] => if v = .meth "address" then .ok (pbool asym) else .error (.unsupported "isinstance: not the address object")
     | _ => .error (.unsupported "arity"))
  else if n = "address.requires_rx_extension_byte" then nullary args (pbool a.rx.mode.hasPrefix)
  else if n = "address.requires_tx_extension_byte" then nullary args (pbool a.tx.mode.hasPrefix)
  else if n = "self.get_opts" then nullary args (.meth "o")
  else if env "self.address" = some (.meth "address") then
    if n = "self.address.get_rx_arbitration_id" then
      (match args with
       | [t] => if t = tatPV .physical then .ok (pint ((a.rx.rxId .physical : Nat) : Int)) else .error (.unsupported "address type")
       | _ => .error (.unsupported "arity"))
    else if n = "self.address.get_tx_arbitration_id" then
      (match args with
       | [t] => if t = tatPV .physical then .ok (pint ((a.tx.txId .physical : Nat) : Int)) else .error (.unsupported "address type")
       | _ => .error (.unsupported "arity"))
    else if n = "self.address.is_rx_29bits" then nullary args (pbool a.rx.mode.is29)
    else if n = "self.address.is_tx_29bits" then nullary args (pbool a.tx.mode.is29)
    else if n = "self.address.requires_tx_extension_byte" then nullary args (pbool a.tx.mode.hasPrefix)
    else if n = "self.address.requires_rx_extension_byte" then nullary args (pbool a.rx.mode.hasPrefix)
    else if n = "self.address.get_tx_extension_byte" then nullary args (optPV a.tx.txExtByte)
    else if n = "self.address.get_rx_extension_byte" then nullary args (optPV a.rx.rxExtByte)
    else .error (.unsupported ("call " ++ n))
  else .error (.unsupported ("call " ++ n))

def setOpts3Name : String := "self.set_opts#optflag#ext_address#rx_ext_address"

def bindProc (s : Sock) (bnd : List PV → Env → Except PErr Env) (n : String) (args : List PV) (env : Env) : Except PErr Env :=
  if n = setOpts3Name then
    match args with
    | [.sc (.py f), .sc (.py x), .sc (.py y)] =>
      match setOpts s { optflag := f, extAddress := x, rxExtAddress := y } with
      | .error e => .error (.exc e)
      | .ok _ =>
        match env "#set_opts" with
        | some (.sc (.py (.int c))) =>
          .ok ((((env.set "set_opts.optflag" (.sc (.py f))).set "set_opts.ext_address" (.sc (.py x))).set
            "set_opts.rx_ext_address" (.sc (.py y))).set "#set_opts" (pint (c + 1)))
        | _ => .error (.unsupported "set_opts: no call counter")
    | _ => .error (.unsupported "set_opts: arguments")
  else if n = "self._socket.bind" then bnd args env
  else .error (.unsupported ("call " ++ n))

def recordBind : List PV → Env → Except PErr Env
  | [.list [ifc, .py (.int r), .py (.int t)]], env =>
    match env "#binds", env "#set_opts" with
    | some (.sc (.py (.int c))), some k =>
      .ok (((((env.set "bind.interface" (.sc ifc)).set "bind.rxid" (pint r)).set "bind.txid" (pint t)).set "bind.#set_opts" k).set
        "#binds" (pint (c + 1)))
    | _, _ => .error (.unsupported "_socket.bind: no call counter")
  | _, _ => .error (.unsupported "_socket.bind: arguments")

def failBind : List PV → Env → Except PErr Env := fun _ _ => .error (.unsupported "_socket.bind")

def bindMeths (s : Sock) (a : Addr) (asym : Bool) (bnd : List PV → Env → Except PErr Env) : Meths where
  fn := bindFn a asym
  proc := bindProc s bnd

/-! ### the model, restated -/

def pyBindFlags (s : Sock) (a : Addr) : Nat :=
  let fl := (parseOpts (layoutOpts s.k.opts)).flags
  let fl := if a.tx.mode.hasPrefix then orFlag fl fEXTEND_ADDR else fl
  if a.rx.mode.hasPrefix then orFlag fl fRX_EXT_ADDR else fl

def pyBindArgs (s : Sock) (a : Addr) : OptsArgs :=
  { optflag := .int (pyBindFlags s a), extAddress := optPy a.tx.txExtByte, rxExtAddress := optPy a.rx.rxExtByte }

def bindRxid (a : Addr) : Nat := canId a.rx.mode.is29 (a.rx.rxId .physical)
def bindTxid (a : Addr) : Nat := canId a.tx.mode.is29 (a.tx.txId .physical)

/-- the socket after `self._socket.bind(..); self.bound = True` -/
def afterBind (s : Sock) (a : Addr) : Sock :=
  { s with bound := true, k := { s.k with bound := some (bindRxid a, bindTxid a) }, calls := .bind (bindRxid a) (bindTxid a) :: s.calls }

theorem bind_eq (s : Sock) (a : Addr) (asym : Bool) : Sock.bind s a asym =
    if asym && (a.rx.mode.hasPrefix != a.tx.mode.hasPrefix) then .error .ValueError else
    if a.tx.mode.hasPrefix || a.rx.mode.hasPrefix then
      match setOpts s (pyBindArgs s a) with
      | .error e => .error e
      | .ok r => .ok (afterBind r.1 a)
    else .ok (afterBind s a) := by
  unfold Sock.bind
  cases asym && (a.rx.mode.hasPrefix != a.tx.mode.hasPrefix)
  · cases htx : a.tx.mode.hasPrefix <;> cases hrx : a.rx.mode.hasPrefix <;>
      simp only [pyBindArgs, pyBindFlags, htx, hrx, afterBind, bindRxid, bindTxid, canId] <;>
      first | rfl | (cases setOpts s _ <;> rfl)
  · rfl


/-! ### the statements of `bind` -/

def bindS0 : PStmt := .ite (.not_ (.call "isinstance_str" (.cons (.var "interface") .nil))) raiseVE .nil
def bindS1 : PStmt := .ite (.not_ (.call "isinstance_Address_AsymmetricAddress" (.cons (.var "address") .nil))) raiseVE .nil
def bindS2 : PStmt :=
  .ite (.call "isinstance_AsymmetricAddress" (.cons (.var "address") .nil))
    (.cons (.ite (.cmp .ne (.call "address.requires_rx_extension_byte" .nil) (.call "address.requires_tx_extension_byte" .nil))
      raiseVE .nil) .nil) .nil
def bindS3 : PStmt := .assign "self.interface" (.var "interface")
def bindS4 : PStmt := .assign "self.address" (.var "address")
def bindS5 : PStmt :=
  .assign "rxid" (.call "self.address.get_rx_arbitration_id" (.cons (.var "isotp.TargetAddressType.Physical") .nil))
def bindS6 : PStmt :=
  .assign "txid" (.call "self.address.get_tx_arbitration_id" (.cons (.var "isotp.TargetAddressType.Physical") .nil))
def maskStmt (is29 nm : String) : PStmt :=
  .ite (.call is29 .nil)
    (.cons (.assign nm (.binop .bor (.binop .band (.var nm) (.var "socket_module.CAN_EFF_MASK")) (.var "socket_module.CAN_EFF_FLAG"))) .nil)
    (.cons (.assign nm (.binop .band (.var nm) (.var "socket_module.CAN_SFF_MASK"))) .nil)
def bindS9body : PBlock :=
  .cons (.assign "o" (.call "self.get_opts" .nil))
  (.cons (.assert_ (.isNotNone (.var "o.optflag")))
  (.cons (.ite (.call "self.address.requires_tx_extension_byte" .nil)
    (.cons (.assign "o.optflag" (.binop .bor (.var "o.optflag") (.var "self.flags.EXTEND_ADDR"))) .nil) .nil)
  (.cons (.ite (.call "self.address.requires_rx_extension_byte" .nil)
    (.cons (.assign "o.optflag" (.binop .bor (.var "o.optflag") (.var "self.flags.RX_EXT_ADDR"))) .nil) .nil)
  (.cons (.expr (.call setOpts3Name (.cons (.var "o.optflag") (.cons (.call "self.address.get_tx_extension_byte" .nil)
    (.cons (.call "self.address.get_rx_extension_byte" .nil) .nil))))) .nil))))
def bindS9 : PStmt :=
  .ite (.or_ (.call "self.address.requires_tx_extension_byte" .nil) (.call "self.address.requires_rx_extension_byte" .nil))
    bindS9body .nil
def bindS10 : PStmt :=
  .expr (.call "self._socket.bind" (.cons (.lst (.cons (.var "interface") (.cons (.var "rxid") (.cons (.var "txid") .nil)))) .nil))
def bindS11 : PStmt := .assign "self.bound" .tt

theorem bind_body_eq : Src.socket_bind =
    .cons bindS0 (.cons bindS1 (.cons bindS2 (.cons bindS3 (.cons bindS4 (.cons bindS5 (.cons bindS6
    (.cons (maskStmt "self.address.is_rx_29bits" "rxid") (.cons (maskStmt "self.address.is_tx_29bits" "txid")
    (.cons bindS9 (.cons bindS10 (.cons bindS11 .nil))))))))))) := rfl

/-- a call of a name that is not a builtin, on evaluated arguments -/
theorem eval_call_meth (M : Meths) (env : Env) (fn : String) (args : PArgs) (vs : List PV)
    (ha : evalArgs M env args = .ok vs) (hb : evalBuiltin fn vs = none) :
    eval M env (.call fn args) = M.fn fn vs env := by
  simp [eval, ha, hb]

theorem evalArgs_nil (M : Meths) (env : Env) : evalArgs M env .nil = .ok [] := by simp [evalArgs]
theorem evalArgs_var1 (M : Meths) (env : Env) (nm : String) (v : PV) (h : env nm = some v) :
    evalArgs M env (.cons (.var nm) .nil) = .ok [v] := by simp [evalArgs, eval, h]

section bindStmts
variable (s : Sock) (a : Addr) (asym : Bool) (bnd : List PV → Env → Except PErr Env)

theorem eb_bind_names (vs : List PV) :
    evalBuiltin "isinstance_str" vs = none ∧ evalBuiltin "isinstance_Address_AsymmetricAddress" vs = none ∧
    evalBuiltin "isinstance_AsymmetricAddress" vs = none ∧ evalBuiltin "address.requires_rx_extension_byte" vs = none ∧
    evalBuiltin "address.requires_tx_extension_byte" vs = none ∧ evalBuiltin "self.get_opts" vs = none ∧
    evalBuiltin "self.address.get_rx_arbitration_id" vs = none ∧ evalBuiltin "self.address.get_tx_arbitration_id" vs = none ∧
    evalBuiltin "self.address.is_rx_29bits" vs = none ∧ evalBuiltin "self.address.is_tx_29bits" vs = none ∧
    evalBuiltin "self.address.requires_tx_extension_byte" vs = none ∧
    evalBuiltin "self.address.requires_rx_extension_byte" vs = none ∧
    evalBuiltin "self.address.get_tx_extension_byte" vs = none ∧ evalBuiltin "self.address.get_rx_extension_byte" vs = none ∧
    evalBuiltin setOpts3Name vs = none ∧ evalBuiltin "self._socket.bind" vs = none :=
  ⟨evalBuiltin_none_of _ _ (by decide), evalBuiltin_none_of _ _ (by decide), evalBuiltin_none_of _ _ (by decide),
   evalBuiltin_none_of _ _ (by decide), evalBuiltin_none_of _ _ (by decide), evalBuiltin_none_of _ _ (by decide),
   evalBuiltin_none_of _ _ (by decide), evalBuiltin_none_of _ _ (by decide), evalBuiltin_none_of _ _ (by decide),
   evalBuiltin_none_of _ _ (by decide), evalBuiltin_none_of _ _ (by decide), evalBuiltin_none_of _ _ (by decide),
   evalBuiltin_none_of _ _ (by decide), evalBuiltin_none_of _ _ (by decide), evalBuiltin_none_of _ _ (by decide),
   evalBuiltin_none_of _ _ (by decide)⟩

/-- `if not isinstance(interface, str): raise ValueError` -/
theorem bindS0_exec (env : Env) (t : Nat) (h : env "interface" = some (.sc (.py (.str t)))) :
    execStmt (bindMeths s a asym bnd) env bindS0 = .ok (.next env) := by
  simp [bindS0, execStmt, execBlock, eval, evalArgs, h, eb_bind_names, bindMeths, bindFn]

/-- ... and it does raise for anything that is not a `str` (a fact about the source only; the model has no such argument) -/
theorem bindS0_exec_nonstr (env : Env) (v : PV) (h : env "interface" = some v) (hv : ∀ t, v ≠ .sc (.py (.str t))) :
    execStmt (bindMeths s a asym bnd) env bindS0 = .error (.exc .ValueError) := by
  have f : bindFn a asym "isinstance_str" [v] env = .ok (pbool false) := by
    simp only [bindFn, if_true]  -- the match is decided with `hv`
  simp [bindS0, raiseVE, execStmt, execBlock, eval, evalArgs, h, eb_bind_names, bindMeths, f]

theorem bindS1_exec (env : Env) (h : env "address" = some (.meth "address")) :
    execStmt (bindMeths s a asym bnd) env bindS1 = .ok (.next env) := by
  simp [bindS1, execStmt, execBlock, eval, evalArgs, h, eb_bind_names, bindMeths, bindFn]

theorem bindS2_exec (env : Env) (h : env "address" = some (.meth "address")) :
    execStmt (bindMeths s a asym bnd) env bindS2 =
      if asym && (a.rx.mode.hasPrefix != a.tx.mode.hasPrefix) then .error (.exc .ValueError) else .ok (.next env) := by
  cases asym <;> cases hr : a.rx.mode.hasPrefix <;> cases ht : a.tx.mode.hasPrefix <;>
    simp [bindS2, raiseVE, execStmt, execBlock, eval, evalArgs, h, eb_bind_names, bindMeths, bindFn, nullary, hr, ht]

theorem bindS5_exec (env : Env) (h1 : env "self.address" = some (.meth "address"))
    (h2 : env "isotp.TargetAddressType.Physical" = some (tatPV .physical)) :
    execStmt (bindMeths s a asym bnd) env bindS5 = .ok (.next (env.set "rxid" (pint ((a.rx.rxId .physical : Nat) : Int)))) := by
  simp [bindS5, execStmt, eval, evalArgs, h1, h2, eb_bind_names, bindMeths, bindFn]

theorem bindS6_exec (env : Env) (h1 : env "self.address" = some (.meth "address"))
    (h2 : env "isotp.TargetAddressType.Physical" = some (tatPV .physical)) :
    execStmt (bindMeths s a asym bnd) env bindS6 = .ok (.next (env.set "txid" (pint ((a.tx.txId .physical : Nat) : Int)))) := by
  simp [bindS6, execStmt, eval, evalArgs, h1, h2, eb_bind_names, bindMeths, bindFn]

/-- `if <is 29 bits>: id = (id & CAN_EFF_MASK) | CAN_EFF_FLAG else: id = id & CAN_SFF_MASK` -/
theorem maskStmt_exec (M : Meths) (env : Env) (is29 nm : String) (b : Bool) (i : Nat)
    (hc : eval M env (.call is29 .nil) = .ok (pbool b)) (hi : env nm = some (pint (i : Nat)))
    (h1 : env "socket_module.CAN_EFF_MASK" = some (pint (effMask : Nat)))
    (h2 : env "socket_module.CAN_EFF_FLAG" = some (pint (effFlag : Nat)))
    (h3 : env "socket_module.CAN_SFF_MASK" = some (pint (sffMask : Nat))) :
    execStmt M env (maskStmt is29 nm) = .ok (.next (env.set nm (pint ((canId b i : Nat) : Int)))) := by
  have e29 : eval M env (.binop .bor (.binop .band (.var nm) (.var "socket_module.CAN_EFF_MASK")) (.var "socket_module.CAN_EFF_FLAG")) =
      .ok (pint ((i % 536870912 + effFlag : Nat) : Int)) := by
    have hlt : i % 536870912 < 536870912 := Nat.mod_lt _ (by decide)
    simp only [eval, hi, h1, h2, ok_bind, evalBinop_band_nat, evalBinop_bor_nat, and_effMask, or_effFlag _ hlt]
  have e11 : eval M env (.binop .band (.var nm) (.var "socket_module.CAN_SFF_MASK")) = .ok (pint ((i % 2048 : Nat) : Int)) := by
    simp only [eval, hi, h3, ok_bind, evalBinop_band_nat, and_sffMask]
  cases b <;> simp [maskStmt, execStmt, execBlock, hc, e29, e11, canId]

theorem eval_is_rx_29bits (env : Env) (h : env "self.address" = some (.meth "address")) :
    eval (bindMeths s a asym bnd) env (.call "self.address.is_rx_29bits" .nil) = .ok (pbool a.rx.mode.is29) := by
  simp [eval, evalArgs, h, eb_bind_names, bindMeths, bindFn, nullary]
theorem eval_is_tx_29bits (env : Env) (h : env "self.address" = some (.meth "address")) :
    eval (bindMeths s a asym bnd) env (.call "self.address.is_tx_29bits" .nil) = .ok (pbool a.tx.mode.is29) := by
  simp [eval, evalArgs, h, eb_bind_names, bindMeths, bindFn, nullary]
theorem eval_requires_tx (env : Env) (h : env "self.address" = some (.meth "address")) :
    eval (bindMeths s a asym bnd) env (.call "self.address.requires_tx_extension_byte" .nil) = .ok (pbool a.tx.mode.hasPrefix) := by
  simp [eval, evalArgs, h, eb_bind_names, bindMeths, bindFn, nullary]
theorem eval_requires_rx (env : Env) (h : env "self.address" = some (.meth "address")) :
    eval (bindMeths s a asym bnd) env (.call "self.address.requires_rx_extension_byte" .nil) = .ok (pbool a.rx.mode.hasPrefix) := by
  simp [eval, evalArgs, h, eb_bind_names, bindMeths, bindFn, nullary]
theorem eval_get_tx_ext (env : Env) (h : env "self.address" = some (.meth "address")) :
    eval (bindMeths s a asym bnd) env (.call "self.address.get_tx_extension_byte" .nil) = .ok (optPV a.tx.txExtByte) := by
  simp [eval, evalArgs, h, eb_bind_names, bindMeths, bindFn, nullary]
theorem eval_get_rx_ext (env : Env) (h : env "self.address" = some (.meth "address")) :
    eval (bindMeths s a asym bnd) env (.call "self.address.get_rx_extension_byte" .nil) = .ok (optPV a.rx.rxExtByte) := by
  simp [eval, evalArgs, h, eb_bind_names, bindMeths, bindFn, nullary]
theorem eval_get_opts (env : Env) :
    eval (bindMeths s a asym bnd) env (.call "self.get_opts" .nil) = .ok (.meth "o") := by
  simp [eval, evalArgs, eb_bind_names, bindMeths, bindFn, nullary]

theorem optPV_eq_optPy (o : Option Nat) : optPV o = .sc (.py (optPy o)) := by cases o <;> rfl

/-- `if <c>: o.optflag |= <fl>` -/
theorem condOrflag_exec (M : Meths) (env : Env) (c : PExpr) (fl : String) (b : Bool) (x : PV) (n f : Nat)
    (hc : eval M env c = .ok (pbool b)) (hx : env "o.optflag" = some x) (hxi : asInt x = some (n : Int))
    (hf : env fl = some (pint (f : Nat))) :
    execStmt M env (.ite c (.cons (.assign "o.optflag" (.binop .bor (.var "o.optflag") (.var fl))) .nil) .nil) =
      .ok (.next (if b then env.set "o.optflag" (pint ((n ||| f : Nat) : Int)) else env)) := by
  have ho := exec_orflag M env fl x n f hx hxi hf
  cases b
  · simp [execStmt, execBlock, hc]
  · rw [execStmt]
    simp [hc, execBlock, ho]

/-- the environment after a successful `self.set_opts(optflag=fl, ext_address=x, rx_ext_address=y)` -/
def recordSetOpts (env : Env) (fl : Nat) (x y : Option Nat) : Env :=
  (((env.set "set_opts.optflag" (pint (fl : Nat))).set "set_opts.ext_address" (optPV x)).set "set_opts.rx_ext_address" (optPV y)).set
    "#set_opts" (pint ((1 : Nat) : Int))

theorem setOpts3_proc (env : Env) (fl : Nat) (x y : Option Nat) (h : env "#set_opts" = some (pint ((0 : Nat) : Int))) :
    bindProc s bnd setOpts3Name [pint (fl : Nat), optPV x, optPV y] env =
      match setOpts s { optflag := .int fl, extAddress := optPy x, rxExtAddress := optPy y } with
      | .error e => .error (.exc e)
      | .ok _ => .ok (recordSetOpts env fl x y) := by
  simp only [bindProc, if_true, optPV_eq_optPy, recordSetOpts, h]
  cases setOpts s { optflag := .int fl, extAddress := optPy x, rxExtAddress := optPy y } <;> rfl

/-- `self.set_opts(optflag=o.optflag, ext_address=self.address.get_tx_extension_byte(), rx_ext_address=...get_rx_extension_byte())` -/
theorem setOpts3_stmt_exec (env : Env) (fl : Nat) (h1 : env "self.address" = some (.meth "address"))
    (h2 : env "o.optflag" = some (pint (fl : Nat))) (h : env "#set_opts" = some (pint ((0 : Nat) : Int))) :
    execStmt (bindMeths s a asym bnd) env (.expr (.call setOpts3Name (.cons (.var "o.optflag")
      (.cons (.call "self.address.get_tx_extension_byte" .nil) (.cons (.call "self.address.get_rx_extension_byte" .nil) .nil))))) =
      match setOpts s { optflag := .int fl, extAddress := optPy a.tx.txExtByte, rxExtAddress := optPy a.rx.rxExtByte } with
      | .error e => .error (.exc e)
      | .ok _ => .ok (.next (recordSetOpts env fl a.tx.txExtByte a.rx.rxExtByte)) := by
  have ha : evalArgs (bindMeths s a asym bnd) env (.cons (.var "o.optflag")
      (.cons (.call "self.address.get_tx_extension_byte" .nil) (.cons (.call "self.address.get_rx_extension_byte" .nil) .nil))) =
      .ok [pint (fl : Nat), optPV a.tx.txExtByte, optPV a.rx.rxExtByte] := by
    simp only [evalArgs, eval_get_tx_ext s a asym bnd env h1, eval_get_rx_ext s a asym bnd env h1, ok_bind]
    simp [eval, h2]
  have hp := setOpts3_proc s bnd env fl a.tx.txExtByte a.rx.rxExtByte h
  simp only [execStmt, ha, ok_bind, (eb_bind_names _).2.2.2.2.2.2.2.2.2.2.2.2.2.2.1]
  show ((bindProc s bnd setOpts3Name _ env) >>= _) = _
  rw [hp]
  cases setOpts s { optflag := .int fl, extAddress := optPy a.tx.txExtByte, rxExtAddress := optPy a.rx.rxExtByte } <;> rfl

theorem eval_or_bool (M : Meths) (env : Env) (c1 c2 : PExpr) (b1 b2 : Bool) (h1 : eval M env c1 = .ok (pbool b1))
    (h2 : eval M env c2 = .ok (pbool b2)) : eval M env (.or_ c1 c2) = .ok (pbool (b1 || b2)) := by
  rw [eval]
  cases b1 <;> simp [h1, h2]

theorem exec_ite_bool (M : Meths) (env : Env) (c : PExpr) (t e : PBlock) (b : Bool) (h : eval M env c = .ok (pbool b)) :
    execStmt M env (.ite c t e) = if b then execBlock M env t else execBlock M env e := by
  rw [execStmt]
  cases b <;> simp [h]

/-- `if <c>: o.optflag |= <fl>`, on an `int` attribute -/
theorem condOrflag_exec' (M : Meths) (env : Env) (c : PExpr) (fl : String) (b : Bool) (n f : Nat)
    (hc : eval M env c = .ok (pbool b)) (hx : env "o.optflag" = some (pint (n : Nat))) (hf : env fl = some (pint (f : Nat))) :
    ∃ env', execStmt M env (.ite c (.cons (.assign "o.optflag" (.binop .bor (.var "o.optflag") (.var fl))) .nil) .nil) =
        .ok (.next env') ∧ EqOff ["o.optflag"] env env' ∧
      env' "o.optflag" = some (pint ((if b then n ||| f else n : Nat) : Int)) := by
  have x := condOrflag_exec M env c fl b _ n f hc hx rfl hf
  cases b
  · exact ⟨env, by simpa using x, EqOff.refl _ _, by simpa using hx⟩
  · exact ⟨_, by simpa using x, (EqOff.refl _ _).set _ _ (by decide), by simp [Env.set]⟩

/-- the flags `bind` asks for, from the current ones -/
def flagsWith (f0 : Nat) (a : Addr) : Nat :=
  let fl := if a.tx.mode.hasPrefix then orFlag f0 fEXTEND_ADDR else f0
  if a.rx.mode.hasPrefix then orFlag fl fRX_EXT_ADDR else fl

theorem pyBindFlags_eq (a : Addr) : pyBindFlags s a = flagsWith (parseOpts (layoutOpts s.k.opts)).flags a := rfl

theorem flagsWith_eq (f0 : Nat) (a : Addr) :
    (if a.rx.mode.hasPrefix then (if a.tx.mode.hasPrefix then f0 ||| fEXTEND_ADDR else f0) ||| fRX_EXT_ADDR
      else (if a.tx.mode.hasPrefix then f0 ||| fEXTEND_ADDR else f0)) = flagsWith f0 a := by
  have e1 : ∀ x, x ||| fEXTEND_ADDR = orFlag x fEXTEND_ADDR := or_EXTEND_ADDR
  have e2 : ∀ x, x ||| fRX_EXT_ADDR = orFlag x fRX_EXT_ADDR := or_RX_EXT_ADDR
  simp only [flagsWith, e1, e2]

/-- the body of `if requires_tx or requires_rx:` -/
theorem bindS9body_exec (env : Env) (f0 : Nat) (h1 : env "self.address" = some (.meth "address"))
    (h2 : env "o.optflag" = some (pint (f0 : Nat)))
    (h3 : env "self.flags.EXTEND_ADDR" = some (pint (fEXTEND_ADDR : Nat)))
    (h4 : env "self.flags.RX_EXT_ADDR" = some (pint (fRX_EXT_ADDR : Nat)))
    (h5 : env "#set_opts" = some (pint ((0 : Nat) : Int))) :
    ∃ envO, EqOff ["o", "o.optflag"] env envO ∧
      execBlock (bindMeths s a asym bnd) env bindS9body =
        match setOpts s { optflag := .int (flagsWith f0 a), extAddress := optPy a.tx.txExtByte, rxExtAddress := optPy a.rx.rxExtByte } with
        | .error e => .error (.exc e)
        | .ok _ => .ok (.next (recordSetOpts envO (flagsWith f0 a) a.tx.txExtByte a.rx.rxExtByte)) := by
  -- o = self.get_opts()
  have o1 : EqOff ["o"] env (env.set "o" (.meth "o")) := (EqOff.refl _ _).set _ _ (by decide)
  have x1 : execStmt (bindMeths s a asym bnd) env (.assign "o" (.call "self.get_opts" .nil)) =
      .ok (.next (env.set "o" (.meth "o"))) := by
    rw [execStmt, eval_get_opts]; rfl
  generalize env.set "o" (.meth "o") = env1 at o1 x1
  -- assert o.optflag is not None
  have l1 : env1 "o.optflag" = some (pint (f0 : Nat)) := (o1 _ (by decide)).trans h2
  have x2 : execStmt (bindMeths s a asym bnd) env1 (.assert_ (.isNotNone (.var "o.optflag"))) = .ok (.next env1) := by
    simp [execStmt, eval, l1, pnone, pint]
  have a1 : env1 "self.address" = some (.meth "address") := (o1 _ (by decide)).trans h1
  -- if requires_tx: o.optflag |= EXTEND_ADDR
  obtain ⟨env2, x3, o2, l2⟩ := condOrflag_exec' (bindMeths s a asym bnd) env1 _ "self.flags.EXTEND_ADDR" _ f0 fEXTEND_ADDR
    (eval_requires_tx s a asym bnd env1 a1) l1 ((o1 _ (by decide)).trans h3)
  have a2 : env2 "self.address" = some (.meth "address") := (o2 _ (by decide)).trans a1
  -- if requires_rx: o.optflag |= RX_EXT_ADDR
  obtain ⟨env3, x4, o3, l3⟩ := condOrflag_exec' (bindMeths s a asym bnd) env2 _ "self.flags.RX_EXT_ADDR" _ _ fRX_EXT_ADDR
    (eval_requires_rx s a asym bnd env2 a2) l2 ((o2 _ (by decide)).trans ((o1 _ (by decide)).trans h4))
  rw [flagsWith_eq] at l3
  have a3 : env3 "self.address" = some (.meth "address") := (o3 _ (by decide)).trans a2
  have c3 : env3 "#set_opts" = some (pint ((0 : Nat) : Int)) :=
    (o3 _ (by decide)).trans ((o2 _ (by decide)).trans ((o1 _ (by decide)).trans h5))
  have x5 := setOpts3_stmt_exec s a asym bnd env3 (flagsWith f0 a) a3 l3 c3
  refine ⟨env3, (o1.mono (by decide)).trans ((o2.mono (by decide)).trans (o3.mono (by decide))), ?_⟩
  rw [bindS9body, execBlock_cons_ok _ _ _ _ _ x1, execBlock_cons_ok _ _ _ _ _ x2, execBlock_cons_ok _ _ _ _ _ x3,
    execBlock_cons_ok _ _ _ _ _ x4, execBlock, x5]
  cases setOpts s { optflag := .int (flagsWith f0 a), extAddress := optPy a.tx.txExtByte, rxExtAddress := optPy a.rx.rxExtByte } <;> rfl

/-- `if requires_tx or requires_rx: ...` -/
theorem bindS9_exec (env : Env) (f0 : Nat) (h1 : env "self.address" = some (.meth "address"))
    (h2 : env "o.optflag" = some (pint (f0 : Nat)))
    (h3 : env "self.flags.EXTEND_ADDR" = some (pint (fEXTEND_ADDR : Nat)))
    (h4 : env "self.flags.RX_EXT_ADDR" = some (pint (fRX_EXT_ADDR : Nat)))
    (h5 : env "#set_opts" = some (pint ((0 : Nat) : Int))) :
    ∃ envO, EqOff ["o", "o.optflag"] env envO ∧
      execStmt (bindMeths s a asym bnd) env bindS9 =
        if a.tx.mode.hasPrefix || a.rx.mode.hasPrefix then
          match setOpts s { optflag := .int (flagsWith f0 a), extAddress := optPy a.tx.txExtByte, rxExtAddress := optPy a.rx.rxExtByte } with
          | .error e => .error (.exc e)
          | .ok _ => .ok (.next (recordSetOpts envO (flagsWith f0 a) a.tx.txExtByte a.rx.rxExtByte))
        else .ok (.next env) := by
  obtain ⟨envO, hoff, hx⟩ := bindS9body_exec s a asym bnd env f0 h1 h2 h3 h4 h5
  refine ⟨envO, hoff, ?_⟩
  rw [bindS9, exec_ite_bool _ env _ _ _ _ (eval_or_bool _ env _ _ _ _ (eval_requires_tx s a asym bnd env h1)
    (eval_requires_rx s a asym bnd env h1)), hx]
  cases a.tx.mode.hasPrefix || a.rx.mode.hasPrefix <;> simp [execBlock]

/-- `self._socket.bind((interface, rxid, txid))` -/
theorem bindS10_exec (env : Env) (c : Sc) (r t : Nat) (h1 : env "interface" = some (.sc c))
    (h2 : env "rxid" = some (pint (r : Nat))) (h3 : env "txid" = some (pint (t : Nat))) :
    execStmt (bindMeths s a asym bnd) env bindS10 =
      (bnd [.list [c, .py (.int r), .py (.int t)]] env >>= fun e => .ok (.next e)) := by
  have hl : eval (bindMeths s a asym bnd) env (.lst (.cons (.var "interface") (.cons (.var "rxid") (.cons (.var "txid") .nil)))) =
      .ok (.list [c, .py (.int r), .py (.int t)]) := by
    simp only [eval, evalArgs, h1, h2, h3, ok_bind]
    rfl
  simp only [bindS10, execStmt, evalArgs, hl, ok_bind, (eb_bind_names _).2.2.2.2.2.2.2.2.2.2.2.2.2.2.2]
  simp [bindMeths, bindProc, setOpts3Name]

/-- the last two statements, for any `_socket.bind` -/
theorem bind_tail_exec (env : Env) (c : Sc) (r t : Nat) (h1 : env "interface" = some (.sc c))
    (h2 : env "rxid" = some (pint (r : Nat))) (h3 : env "txid" = some (pint (t : Nat))) :
    execBlock (bindMeths s a asym bnd) env (.cons bindS10 (.cons bindS11 .nil)) =
      (bnd [.list [c, .py (.int r), .py (.int t)]] env >>= fun e => .ok (.next (e.set "self.bound" (pbool true)))) := by
  rw [execBlock, bindS10_exec s a asym bnd env c r t h1 h2 h3]
  cases bnd [.list [c, .py (.int r), .py (.int t)]] env with
  | error e => rfl
  | ok e => simp [execBlock, bindS11, execStmt, eval]

/-- the environment after `self._socket.bind((c, r, t))` has been recorded, `k` being the number of `set_opts` calls so far -/
def recordBindEnv (env : Env) (c : Sc) (r t : Nat) (k : PV) : Env :=
  ((((env.set "bind.interface" (.sc c)).set "bind.rxid" (pint (r : Nat))).set "bind.txid" (pint (t : Nat))).set "bind.#set_opts" k).set
    "#binds" (pint ((1 : Nat) : Int))

theorem recordBind_at (env : Env) (c : Sc) (r t : Nat) (k : PV) (h1 : env "#binds" = some (pint ((0 : Nat) : Int)))
    (h2 : env "#set_opts" = some k) :
    recordBind [.list [c, .py (.int r), .py (.int t)]] env = .ok (recordBindEnv env c r t k) := by
  simp [recordBind, h1, h2, recordBindEnv]

/-- names `bind` assigns before the `set_opts` block -/
def bindKeys8 : List String := ["self.interface", "self.address", "rxid", "txid"]

/-- the run up to the last two statements, for any `_socket.bind` (none is executed) -/
theorem bind_run (t : Nat) :
    ∃ env8 envO, EqOff bindKeys8 (bindEnv s (.sc (.py (.str t)))) env8 ∧
      env8 "self.interface" = some (.sc (.py (.str t))) ∧ env8 "self.address" = some (.meth "address") ∧
      env8 "rxid" = some (pint (bindRxid a : Nat)) ∧ env8 "txid" = some (pint (bindTxid a : Nat)) ∧
      EqOff ["o", "o.optflag"] env8 envO ∧
      execBlock (bindMeths s a asym bnd) (bindEnv s (.sc (.py (.str t)))) Src.socket_bind =
        if asym && (a.rx.mode.hasPrefix != a.tx.mode.hasPrefix) then .error (.exc .ValueError) else
        if a.tx.mode.hasPrefix || a.rx.mode.hasPrefix then
          match setOpts s (pyBindArgs s a) with
          | .error e => .error (.exc e)
          | .ok _ => execBlock (bindMeths s a asym bnd) (recordSetOpts envO (pyBindFlags s a) a.tx.txExtByte a.rx.rxExtByte)
              (.cons bindS10 (.cons bindS11 .nil))
        else execBlock (bindMeths s a asym bnd) env8 (.cons bindS10 (.cons bindS11 .nil)) := by
  obtain ⟨k0, k1, k2, k3, k4, k5, k6, k7, k8, k9, k10⟩ := bindEnv_lookups s (.sc (.py (.str t)))
  generalize bindEnv s (.sc (.py (.str t))) = env0 at *
  -- the assignments
  have o3 : EqOff bindKeys8 env0 (env0.set "self.interface" (.sc (.py (.str t)))) := (EqOff.refl _ _).set _ _ (by decide)
  have x3 : execStmt (bindMeths s a asym bnd) env0 bindS3 = _ :=
    exec_assign_var (bindMeths s a asym bnd) env0 "self.interface" "interface" _ k0
  have i3 := Env.set_self env0 "self.interface" (.sc (.py (.str t)))
  generalize env0.set "self.interface" (.sc (.py (.str t))) = env3 at *
  have o4 : EqOff bindKeys8 env0 (env3.set "self.address" (.meth "address")) := o3.set _ _ (by decide)
  have x4 : execStmt (bindMeths s a asym bnd) env3 bindS4 = _ :=
    exec_assign_var (bindMeths s a asym bnd) env3 "self.address" "address" _ ((o3 _ (by decide)).trans k1)
  have i4 : (env3.set "self.address" (.meth "address")) "self.interface" = _ := (Env.set_ne _ _ _ _ (by decide)).trans i3
  have a4 := Env.set_self env3 "self.address" (.meth "address")
  generalize env3.set "self.address" (.meth "address") = env4 at *
  have x5 := bindS5_exec s a asym bnd env4 a4 ((o4 _ (by decide)).trans k3)
  have o5 : EqOff bindKeys8 env0 (env4.set "rxid" (pint ((a.rx.rxId .physical : Nat) : Int))) := o4.set _ _ (by decide)
  have i5 : (env4.set "rxid" (pint ((a.rx.rxId .physical : Nat) : Int))) "self.interface" = _ := (Env.set_ne _ _ _ _ (by decide)).trans i4
  have a5 : (env4.set "rxid" (pint ((a.rx.rxId .physical : Nat) : Int))) "self.address" = _ := (Env.set_ne _ _ _ _ (by decide)).trans a4
  have r5 := Env.set_self env4 "rxid" (pint ((a.rx.rxId .physical : Nat) : Int))
  generalize env4.set "rxid" (pint ((a.rx.rxId .physical : Nat) : Int)) = env5 at *
  have x6 := bindS6_exec s a asym bnd env5 a5 ((o5 _ (by decide)).trans k3)
  have o6 : EqOff bindKeys8 env0 (env5.set "txid" (pint ((a.tx.txId .physical : Nat) : Int))) := o5.set _ _ (by decide)
  have i6 : (env5.set "txid" (pint ((a.tx.txId .physical : Nat) : Int))) "self.interface" = _ := (Env.set_ne _ _ _ _ (by decide)).trans i5
  have a6 : (env5.set "txid" (pint ((a.tx.txId .physical : Nat) : Int))) "self.address" = _ := (Env.set_ne _ _ _ _ (by decide)).trans a5
  have r6 : (env5.set "txid" (pint ((a.tx.txId .physical : Nat) : Int))) "rxid" = _ := (Env.set_ne _ _ _ _ (by decide)).trans r5
  have t6 := Env.set_self env5 "txid" (pint ((a.tx.txId .physical : Nat) : Int))
  generalize env5.set "txid" (pint ((a.tx.txId .physical : Nat) : Int)) = env6 at *
  -- the masks
  have x7 := maskStmt_exec (bindMeths s a asym bnd) env6 "self.address.is_rx_29bits" "rxid" _ _
    (eval_is_rx_29bits s a asym bnd env6 a6) r6 ((o6 _ (by decide)).trans k4) ((o6 _ (by decide)).trans k5) ((o6 _ (by decide)).trans k6)
  have o7 : EqOff bindKeys8 env0 (env6.set "rxid" (pint ((canId a.rx.mode.is29 (a.rx.rxId .physical) : Nat) : Int))) := o6.set _ _ (by decide)
  have i7 : (env6.set "rxid" (pint ((canId a.rx.mode.is29 (a.rx.rxId .physical) : Nat) : Int))) "self.interface" = _ :=
    (Env.set_ne _ _ _ _ (by decide)).trans i6
  have a7 : (env6.set "rxid" (pint ((canId a.rx.mode.is29 (a.rx.rxId .physical) : Nat) : Int))) "self.address" = _ :=
    (Env.set_ne _ _ _ _ (by decide)).trans a6
  have t7 : (env6.set "rxid" (pint ((canId a.rx.mode.is29 (a.rx.rxId .physical) : Nat) : Int))) "txid" = _ :=
    (Env.set_ne _ _ _ _ (by decide)).trans t6
  have r7 := Env.set_self env6 "rxid" (pint ((canId a.rx.mode.is29 (a.rx.rxId .physical) : Nat) : Int))
  generalize env6.set "rxid" (pint ((canId a.rx.mode.is29 (a.rx.rxId .physical) : Nat) : Int)) = env7 at *
  have x8 := maskStmt_exec (bindMeths s a asym bnd) env7 "self.address.is_tx_29bits" "txid" _ _
    (eval_is_tx_29bits s a asym bnd env7 a7) t7 ((o7 _ (by decide)).trans k4) ((o7 _ (by decide)).trans k5) ((o7 _ (by decide)).trans k6)
  have o8 : EqOff bindKeys8 env0 (env7.set "txid" (pint ((canId a.tx.mode.is29 (a.tx.txId .physical) : Nat) : Int))) := o7.set _ _ (by decide)
  have i8 : (env7.set "txid" (pint ((canId a.tx.mode.is29 (a.tx.txId .physical) : Nat) : Int))) "self.interface" = _ :=
    (Env.set_ne _ _ _ _ (by decide)).trans i7
  have a8 : (env7.set "txid" (pint ((canId a.tx.mode.is29 (a.tx.txId .physical) : Nat) : Int))) "self.address" = _ :=
    (Env.set_ne _ _ _ _ (by decide)).trans a7
  have r8 : (env7.set "txid" (pint ((canId a.tx.mode.is29 (a.tx.txId .physical) : Nat) : Int))) "rxid" = _ :=
    (Env.set_ne _ _ _ _ (by decide)).trans r7
  have t8 := Env.set_self env7 "txid" (pint ((canId a.tx.mode.is29 (a.tx.txId .physical) : Nat) : Int))
  generalize env7.set "txid" (pint ((canId a.tx.mode.is29 (a.tx.txId .physical) : Nat) : Int)) = env8 at *
  -- the `set_opts` block
  obtain ⟨envO, oO, x9⟩ := bindS9_exec s a asym bnd env8 _ a8 ((o8 _ (by decide)).trans k2) ((o8 _ (by decide)).trans k7)
    ((o8 _ (by decide)).trans k8) ((o8 _ (by decide)).trans k9)
  rw [← pyBindFlags_eq] at x9
  refine ⟨env8, envO, o8, i8, a8, r8, t8, oO, ?_⟩
  rw [bind_body_eq, execBlock_cons_ok _ _ _ _ _ (bindS0_exec s a asym bnd env0 t k0),
    execBlock_cons_ok _ _ _ _ _ (bindS1_exec s a asym bnd env0 k1),
    execBlock_cons_stage _ _ env0 _ _ _ _ (bindS2_exec s a asym bnd env0 k1)]
  cases asym && (a.rx.mode.hasPrefix != a.tx.mode.hasPrefix)
  case true => rfl
  simp only [Bool.false_eq_true, if_false]
  rw [execBlock_cons_ok _ _ _ _ _ x3, execBlock_cons_ok _ _ _ _ _ x4, execBlock_cons_ok _ _ _ _ _ x5,
    execBlock_cons_ok _ _ _ _ _ x6, execBlock_cons_ok _ _ _ _ _ x7, execBlock_cons_ok _ _ _ _ _ x8, execBlock, x9]
  cases a.tx.mode.hasPrefix || a.rx.mode.hasPrefix
  · rfl
  · simp only [if_true, pyBindArgs]
    cases setOpts s { optflag := .int (pyBindFlags s a), extAddress := optPy a.tx.txExtByte, rxExtAddress := optPy a.rx.rxExtByte } <;> rfl

def recBindKeys : List String := ["bind.interface", "bind.rxid", "bind.txid", "bind.#set_opts", "#binds"]
def recSetOptsKeys : List String := ["set_opts.optflag", "set_opts.ext_address", "set_opts.rx_ext_address", "#set_opts"]

theorem recordBindEnv_lookups (env : Env) (c : Sc) (r t : Nat) (k : PV) :
    recordBindEnv env c r t k "#binds" = some (pint ((1 : Nat) : Int)) ∧
    recordBindEnv env c r t k "bind.interface" = some (.sc c) ∧
    recordBindEnv env c r t k "bind.rxid" = some (pint (r : Nat)) ∧
    recordBindEnv env c r t k "bind.txid" = some (pint (t : Nat)) ∧
    recordBindEnv env c r t k "bind.#set_opts" = some k ∧
    EqOff recBindKeys env (recordBindEnv env c r t k) := by
  refine ⟨by simp [recordBindEnv, Env.set], by simp [recordBindEnv, Env.set], by simp [recordBindEnv, Env.set],
    by simp [recordBindEnv, Env.set], by simp [recordBindEnv, Env.set], ?_⟩
  exact (((((EqOff.refl _ env).set _ _ (by decide)).set _ _ (by decide)).set _ _ (by decide)).set _ _ (by decide)).set _ _ (by decide)

theorem recordSetOpts_lookups (env : Env) (fl : Nat) (x y : Option Nat) :
    recordSetOpts env fl x y "#set_opts" = some (pint ((1 : Nat) : Int)) ∧
    recordSetOpts env fl x y "set_opts.optflag" = some (pint (fl : Nat)) ∧
    recordSetOpts env fl x y "set_opts.ext_address" = some (optPV x) ∧
    recordSetOpts env fl x y "set_opts.rx_ext_address" = some (optPV y) ∧
    EqOff recSetOptsKeys env (recordSetOpts env fl x y) := by
  refine ⟨by simp [recordSetOpts, Env.set], by simp [recordSetOpts, Env.set], by simp [recordSetOpts, Env.set],
    by simp [recordSetOpts, Env.set], ?_⟩
  exact ((((EqOff.refl _ env).set _ _ (by decide)).set _ _ (by decide)).set _ _ (by decide)).set _ _ (by decide)

/-- **`socket.bind` fails exactly as the model does, whatever `self._socket.bind` would do** (so: before it is called):
    `ValueError` for an asymmetric address whose halves disagree on the extension byte, and whatever `set_opts` raises. -/
theorem socket_bind_reject_any (t : Nat) (e : PyExc) (h : Sock.bind s a asym = .error e) :
    runFn (bindMeths s a asym bnd) (bindEnv s (.sc (.py (.str t)))) Src.socket_bind = .error (.exc e) := by
  obtain ⟨env8, envO, _, _, _, _, _, _, hx⟩ := bind_run s a asym bnd t
  rw [bind_eq] at h
  rw [runFn, hx]
  cases hm : asym && (a.rx.mode.hasPrefix != a.tx.mode.hasPrefix)
  · simp only [hm, Bool.false_eq_true, if_false] at h ⊢
    cases hp : a.tx.mode.hasPrefix || a.rx.mode.hasPrefix
    · simp [hp] at h
    · simp only [hp, if_true] at h ⊢
      cases hs : setOpts s (pyBindArgs s a) with
      | error e' => rw [hs] at h; injection h with h; subst h; rfl
      | ok r => rw [hs] at h; simp at h
  · simp only [hm, if_true] at h ⊢
    injection h with h; subst h; rfl

end bindStmts

/-- **`socket.bind` succeeds exactly as the model does**: it returns `None`; `self.bound`, `self.interface`, `self.address`
    are set; `self._socket.bind` has been called exactly once, with `(interface, rxid, txid)` = the model's masked / flagged
    identifiers; and `self.set_opts` has been called (once, BEFORE the bind, with the model's `optflag`, `ext_address`,
    `rx_ext_address`) iff one of the halves carries an extension byte.  The model's result is `afterBind` of the socket
    `set_opts` leaves. -/
theorem socket_bind_accept (s : Sock) (a : Addr) (asym : Bool) (t : Nat) (s' : Sock) (h : Sock.bind s a asym = .ok s') :
    ∃ env', runFn (bindMeths s a asym recordBind) (bindEnv s (.sc (.py (.str t)))) Src.socket_bind = .ok (pnone, env') ∧
      env' "self.bound" = some (pbool true) ∧ env' "self.interface" = some (.sc (.py (.str t))) ∧
      env' "self.address" = some (.meth "address") ∧
      env' "#binds" = some (pint ((1 : Nat) : Int)) ∧ env' "bind.interface" = some (.sc (.py (.str t))) ∧
      env' "bind.rxid" = some (pint (bindRxid a : Nat)) ∧ env' "bind.txid" = some (pint (bindTxid a : Nat)) ∧
      (if a.tx.mode.hasPrefix || a.rx.mode.hasPrefix then
        env' "#set_opts" = some (pint ((1 : Nat) : Int)) ∧ env' "bind.#set_opts" = some (pint ((1 : Nat) : Int)) ∧
        env' "set_opts.optflag" = some (pint (pyBindFlags s a : Nat)) ∧
        env' "set_opts.ext_address" = some (optPV a.tx.txExtByte) ∧
        env' "set_opts.rx_ext_address" = some (optPV a.rx.rxExtByte) ∧
        ∃ r, setOpts s (pyBindArgs s a) = .ok r ∧ s' = afterBind r.1 a
      else
        env' "#set_opts" = some (pint ((0 : Nat) : Int)) ∧ env' "bind.#set_opts" = some (pint ((0 : Nat) : Int)) ∧
        s' = afterBind s a) := by
  obtain ⟨env8, envO, o8, i8, a8, r8, t8, oO, hx⟩ := bind_run s a asym recordBind t
  obtain ⟨k0, k1, k2, k3, k4, k5, k6, k7, k8, k9, k10⟩ := bindEnv_lookups s (.sc (.py (.str t)))
  rw [bind_eq] at h
  rw [runFn, hx]
  cases hm : asym && (a.rx.mode.hasPrefix != a.tx.mode.hasPrefix)
  case true => simp [hm] at h
  simp only [hm, Bool.false_eq_true, if_false] at h ⊢
  cases hp : a.tx.mode.hasPrefix || a.rx.mode.hasPrefix
  · -- no extension byte: no `set_opts`
    simp only [hp, Bool.false_eq_true, if_false, Except.ok.injEq] at h ⊢
    have c8 : env8 "#binds" = some (pint ((0 : Nat) : Int)) := (o8 _ (by decide)).trans k10
    have n8 : env8 "#set_opts" = some (pint ((0 : Nat) : Int)) := (o8 _ (by decide)).trans k9
    have f8 : env8 "interface" = some (.sc (.py (.str t))) := (o8 _ (by decide)).trans k0
    obtain ⟨b0, b1, b2, b3, b4, bo⟩ := recordBindEnv_lookups env8 (.py (.str t)) (bindRxid a) (bindTxid a) (pint ((0 : Nat) : Int))
    refine ⟨(recordBindEnv env8 (.py (.str t)) (bindRxid a) (bindTxid a) (pint ((0 : Nat) : Int))).set "self.bound" (pbool true),
      ?_, Env.set_self _ _ _, ?_, ?_, ?_, ?_, ?_, ?_, ?_, ?_, h.symm⟩
    · rw [bind_tail_exec s a asym recordBind env8 _ _ _ f8 r8 t8, recordBind_at env8 _ _ _ _ c8 n8]; rfl
    · exact (Env.set_ne _ _ _ _ (by decide)).trans ((bo _ (by decide)).trans i8)
    · exact (Env.set_ne _ _ _ _ (by decide)).trans ((bo _ (by decide)).trans a8)
    · exact (Env.set_ne _ _ _ _ (by decide)).trans b0
    · exact (Env.set_ne _ _ _ _ (by decide)).trans b1
    · exact (Env.set_ne _ _ _ _ (by decide)).trans b2
    · exact (Env.set_ne _ _ _ _ (by decide)).trans b3
    · exact (Env.set_ne _ _ _ _ (by decide)).trans ((bo _ (by decide)).trans n8)
    · exact (Env.set_ne _ _ _ _ (by decide)).trans b4
  · -- `set_opts`, then bind
    simp only [hp, if_true] at h ⊢
    cases hs : setOpts s (pyBindArgs s a) with
    | error e' => rw [hs] at h; simp at h
    | ok r =>
      rw [hs] at h
      simp only [Except.ok.injEq] at h ⊢
      obtain ⟨q0, q1, q2, q3, qo⟩ := recordSetOpts_lookups envO (pyBindFlags s a) a.tx.txExtByte a.rx.rxExtByte
      generalize recordSetOpts envO (pyBindFlags s a) a.tx.txExtByte a.rx.rxExtByte = env9 at *
      have through : ∀ k, k ∉ recSetOptsKeys → k ∉ ["o", "o.optflag"] → env9 k = env8 k :=
        fun k h1 h2 => (qo k h1).trans (oO k h2)
      have c9 : env9 "#binds" = some (pint ((0 : Nat) : Int)) :=
        (through _ (by decide) (by decide)).trans ((o8 _ (by decide)).trans k10)
      have f9 : env9 "interface" = some (.sc (.py (.str t))) :=
        (through _ (by decide) (by decide)).trans ((o8 _ (by decide)).trans k0)
      have r9 := (through "rxid" (by decide) (by decide)).trans r8
      have t9 := (through "txid" (by decide) (by decide)).trans t8
      obtain ⟨b0, b1, b2, b3, b4, bo⟩ := recordBindEnv_lookups env9 (.py (.str t)) (bindRxid a) (bindTxid a) (pint ((1 : Nat) : Int))
      refine ⟨(recordBindEnv env9 (.py (.str t)) (bindRxid a) (bindTxid a) (pint ((1 : Nat) : Int))).set "self.bound" (pbool true),
        ?_, Env.set_self _ _ _, ?_, ?_, ?_, ?_, ?_, ?_, ?_, ?_, ?_, ?_, ?_, r, rfl, h.symm⟩
      · rw [bind_tail_exec s a asym recordBind env9 _ _ _ f9 r9 t9, recordBind_at env9 _ _ _ _ c9 q0]; rfl
      · exact (Env.set_ne _ _ _ _ (by decide)).trans ((bo _ (by decide)).trans ((through _ (by decide) (by decide)).trans i8))
      · exact (Env.set_ne _ _ _ _ (by decide)).trans ((bo _ (by decide)).trans ((through _ (by decide) (by decide)).trans a8))
      · exact (Env.set_ne _ _ _ _ (by decide)).trans b0
      · exact (Env.set_ne _ _ _ _ (by decide)).trans b1
      · exact (Env.set_ne _ _ _ _ (by decide)).trans b2
      · exact (Env.set_ne _ _ _ _ (by decide)).trans b3
      · exact (Env.set_ne _ _ _ _ (by decide)).trans ((bo _ (by decide)).trans q0)
      · exact (Env.set_ne _ _ _ _ (by decide)).trans b4
      · exact (Env.set_ne _ _ _ _ (by decide)).trans ((bo _ (by decide)).trans q1)
      · exact (Env.set_ne _ _ _ _ (by decide)).trans ((bo _ (by decide)).trans q2)
      · exact (Env.set_ne _ _ _ _ (by decide)).trans ((bo _ (by decide)).trans q3)

/-- `bind` with an `interface` that is not a `str`: `ValueError` (a fact about the source only) -/
theorem socket_bind_nonstr (s : Sock) (a : Addr) (asym : Bool) (bnd) (v : PV) (hv : ∀ t, v ≠ .sc (.py (.str t))) :
    runFn (bindMeths s a asym bnd) (bindEnv s v) Src.socket_bind = .error (.exc .ValueError) := by
  have h0 := bindS0_exec_nonstr s a asym bnd (bindEnv s v) v (bindEnv_lookups s v).1 hv
  simp [runFn, bind_body_eq, execBlock, h0]


/-! ## 8. summary: the rejected runs under the two method records

  A run under `failMeths` cannot execute a `s.setsockopt` statement without ending in `unsupported "setsockopt"`.  So:
  the model rejects ⟹ `ValueError` under BOTH records, i.e. raised before any `s.setsockopt` statement;
  the model accepts ⟹ the run under `failMeths` does reach `s.setsockopt` (the `_accept_fail` theorems), and the run under
  `recMeths` records exactly the model's calls (the `_accept` theorems). -/

theorem GeneralOpts_write_reject (s : Sock) (a : OptsArgs) (e : PyExc) (h : writeOpts s a = .error e) :
    e = .ValueError ∧ runFn recMeths (genEnv s a) Src.GeneralOpts_write = .error (.exc .ValueError) ∧
      runFn failMeths (genEnv s a) Src.GeneralOpts_write = .error (.exc .ValueError) :=
  ⟨(GeneralOpts_write_reject_any recordSso s a e h).1, (GeneralOpts_write_reject_any recordSso s a e h).2,
    (GeneralOpts_write_reject_any failSso s a e h).2⟩

theorem FlowControlOpts_write_reject (s : Sock) (x y z : PyVal) (e : PyExc) (h : writeFc s x y z = .error e) :
    e = .ValueError ∧ runFn recMeths (fcEnv s x y z) Src.FlowControlOpts_write = .error (.exc .ValueError) ∧
      runFn failMeths (fcEnv s x y z) Src.FlowControlOpts_write = .error (.exc .ValueError) :=
  ⟨(FlowControlOpts_write_reject_any recordSso s x y z e h).1, (FlowControlOpts_write_reject_any recordSso s x y z e h).2,
    (FlowControlOpts_write_reject_any failSso s x y z e h).2⟩

theorem LinkLayerOpts_write_reject (s : Sock) (x y z : PyVal) (e : PyExc) (h : writeLl s x y z = .error e) :
    e = .ValueError ∧ runFn recMeths (llEnv s x y z) Src.LinkLayerOpts_write = .error (.exc .ValueError) ∧
      runFn failMeths (llEnv s x y z) Src.LinkLayerOpts_write = .error (.exc .ValueError) :=
  ⟨(LinkLayerOpts_write_reject_any recordSso s x y z e h).1, (LinkLayerOpts_write_reject_any recordSso s x y z e h).2,
    (LinkLayerOpts_write_reject_any failSso s x y z e h).2⟩

/-- under `failMeths` the outcome tells the two cases apart -/
theorem GeneralOpts_write_fail_iff (s : Sock) (a : OptsArgs) :
    runFn failMeths (genEnv s a) Src.GeneralOpts_write =
      match writeOpts s a with
      | .error _ => .error (.exc .ValueError)
      | .ok _ => .error (.unsupported "setsockopt") := by
  cases h : writeOpts s a with
  | error e => exact (GeneralOpts_write_reject s a e h).2.2
  | ok r => exact GeneralOpts_write_accept_fail s a r h

/-! ### non-vacuity of the hypotheses -/

/-- rejected: a wrong-typed value, an out-of-range value, a late (`tx_stmin`) rejection after valid fields -/
example : writeOpts {} { optflag := .str 0 } = .error .ValueError := rfl
example : writeOpts {} { txpad := .int 256 } = .error .ValueError := rfl
example : writeOpts {} { txpad := .int 1, txStmin := .int (-1) } = .error .ValueError := rfl
/-- accepted, without and with `tx_stmin`, and with a `bool` (why the attributes are compared as integers) -/
example : ∃ s' o', writeOpts {} { txpad := .int 1 } = .ok (s', o') ∧ s'.calls.length = 1 := ⟨_, _, rfl, rfl⟩
example : ∃ s' o', writeOpts {} { txpad := .int 1, txStmin := .int 5 } = .ok (s', o') ∧ s'.calls.length = 2 := ⟨_, _, rfl, rfl⟩
example : ∃ s' o', writeOpts {} { optflag := .bool true } = .ok (s', o') ∧ o'.flags = 1 := ⟨_, _, rfl, rfl⟩
example : writeFc {} (.int 8) (.float 1 2) .none = .error .ValueError := rfl
example : ∃ s' o', writeFc {} (.int 8) .none (.int 0) = .ok (s', o') := ⟨_, _, rfl⟩
example : writeLl {} (.int 72) (.int 300) .none = .error .ValueError := rfl
example : ∃ s' o', writeLl {} (.int 72) (.int 64) .none = .ok (s', o') := ⟨_, _, rfl⟩


/-- `bind`: plain identifiers (no `set_opts`), an extension byte (one `set_opts`), the two failures -/
def exHalfN11 : Half :=
  { mode := .n11, txid := some 0x123, rxid := some 0x456, ta := none, sa := none, ae := none, physId := 0, funcId := 0,
    rxOnly := false, txOnly := false }
def exHalfE29 : Half :=
  { mode := .e29, txid := some 0x123456, rxid := some 0x654321, ta := some 0x55, sa := some 0xAA, ae := none, physId := 0,
    funcId := 0, rxOnly := false, txOnly := false }
example : ∃ s', Sock.bind {} { tx := exHalfN11, rx := exHalfN11 } false = .ok s' ∧ s'.calls = [.bind 0x456 0x123] := ⟨_, rfl, rfl⟩
example : ∃ s', Sock.bind {} { tx := exHalfE29, rx := exHalfE29 } false = .ok s' ∧ s'.calls.length = 2 ∧
    s'.k.bound = some (0x80654321, 0x80123456) := ⟨_, rfl, rfl, rfl⟩
example : Sock.bind {} { tx := { exHalfN11 with txOnly := true }, rx := { exHalfE29 with rxOnly := true } } true = .error .ValueError := rfl
example : Sock.bind { bound := true } { tx := exHalfE29, rx := exHalfE29 } false = .error .RuntimeError := rfl

end Isotp.PyAgree.SockOpts

/-! ## 9. The main theorems

  Restated in `Isotp.PyAgree` (everything above lives in `Isotp.PyAgree.SockOpts` so that the helper names cannot clash with
  those of the sibling modules). -/
namespace Isotp.PyAgree
open Isotp Isotp.Py
open Isotp.Sock hiding bind close
open SockOpts

/-- the model's `orFlag` is Python's `|` for a single-bit flag (`f = 2, 4, 8, 128, 512` are `k = 1, 2, 3, 7, 9`) -/
theorem or_two_pow_eq_orFlag (a k : Nat) : a ||| 2^k = orFlag a (2^k) := SockOpts.or_two_pow_eq_orFlag a k

/-! ### `GeneralOpts.write` vs `writeOpts` -/

/-- rejected by the model ⟹ `ValueError`, whatever `s.setsockopt` does (`sso` arbitrary): raised before any `s.setsockopt` statement -/
theorem GeneralOpts_write_reject_any (sso : List PV → Env → Except PErr Env) (s : Sock) (a : OptsArgs) (e : PyExc)
    (h : writeOpts s a = .error e) :
    e = .ValueError ∧ runFn (sockMeths sso) (genEnv s a) Src.GeneralOpts_write = .error (.exc .ValueError) :=
  SockOpts.GeneralOpts_write_reject_any sso s a e h

/-- ... in particular when `s.setsockopt` records (`recMeths`) and when it fails distinctively (`failMeths`) -/
theorem GeneralOpts_write_reject (s : Sock) (a : OptsArgs) (e : PyExc) (h : writeOpts s a = .error e) :
    e = .ValueError ∧ runFn recMeths (genEnv s a) Src.GeneralOpts_write = .error (.exc .ValueError) ∧
      runFn failMeths (genEnv s a) Src.GeneralOpts_write = .error (.exc .ValueError) :=
  SockOpts.GeneralOpts_write_reject s a e h

/-- accepted by the model ⟹ returns `o`, whose attributes hold the fields of the model's `o'` (as integers), and the recorded
    `setsockopt` calls are exactly the calls the model adds (`genNewCalls`), in order, with the same bytes -/
theorem GeneralOpts_write_accept (s : Sock) (a : OptsArgs) (s' : Sock) (o' : KOpts) (h : writeOpts s a = .ok (s', o')) :
    ∃ env', runFn recMeths (genEnv s a) Src.GeneralOpts_write = .ok (.meth "o", env') ∧ GenObj env' o' ∧
      recorded env' = some (genNewCalls a o') ∧ s'.calls = genNewCalls a o' ++ s.calls :=
  SockOpts.GeneralOpts_write_accept s a s' o' h

/-- under `failMeths` the outcome tells the two cases apart (an accepted call does reach `s.setsockopt`) -/
theorem GeneralOpts_write_fail_iff (s : Sock) (a : OptsArgs) :
    runFn failMeths (genEnv s a) Src.GeneralOpts_write =
      match writeOpts s a with
      | .error _ => .error (.exc .ValueError)
      | .ok _ => .error (.unsupported "setsockopt") :=
  SockOpts.GeneralOpts_write_fail_iff s a

/-! ### `FlowControlOpts.write` vs `writeFc` -/

theorem FlowControlOpts_write_reject_any (sso : List PV → Env → Except PErr Env) (s : Sock) (x y z : PyVal) (e : PyExc)
    (h : writeFc s x y z = .error e) :
    e = .ValueError ∧ runFn (sockMeths sso) (fcEnv s x y z) Src.FlowControlOpts_write = .error (.exc .ValueError) :=
  SockOpts.FlowControlOpts_write_reject_any sso s x y z e h

theorem FlowControlOpts_write_reject (s : Sock) (x y z : PyVal) (e : PyExc) (h : writeFc s x y z = .error e) :
    e = .ValueError ∧ runFn recMeths (fcEnv s x y z) Src.FlowControlOpts_write = .error (.exc .ValueError) ∧
      runFn failMeths (fcEnv s x y z) Src.FlowControlOpts_write = .error (.exc .ValueError) :=
  SockOpts.FlowControlOpts_write_reject s x y z e h

theorem FlowControlOpts_write_accept (s : Sock) (x y z : PyVal) (s' : Sock) (o' : KFc) (h : writeFc s x y z = .ok (s', o')) :
    ∃ env', runFn recMeths (fcEnv s x y z) Src.FlowControlOpts_write = .ok (.meth "o", env') ∧ FcObj env' o' ∧
      recorded env' = some [.setopt solCanIsotp optRECV_FC (layoutFc o')] ∧
      s'.calls = .setopt solCanIsotp optRECV_FC (layoutFc o') :: s.calls :=
  SockOpts.FlowControlOpts_write_accept s x y z s' o' h

theorem FlowControlOpts_write_accept_fail (s : Sock) (x y z : PyVal) (r : Sock × KFc) (h : writeFc s x y z = .ok r) :
    runFn failMeths (fcEnv s x y z) Src.FlowControlOpts_write = .error (.unsupported "setsockopt") :=
  SockOpts.FlowControlOpts_write_accept_fail s x y z r h

/-! ### `LinkLayerOpts.write` vs `writeLl` -/

theorem LinkLayerOpts_write_reject_any (sso : List PV → Env → Except PErr Env) (s : Sock) (x y z : PyVal) (e : PyExc)
    (h : writeLl s x y z = .error e) :
    e = .ValueError ∧ runFn (sockMeths sso) (llEnv s x y z) Src.LinkLayerOpts_write = .error (.exc .ValueError) :=
  SockOpts.LinkLayerOpts_write_reject_any sso s x y z e h

theorem LinkLayerOpts_write_reject (s : Sock) (x y z : PyVal) (e : PyExc) (h : writeLl s x y z = .error e) :
    e = .ValueError ∧ runFn recMeths (llEnv s x y z) Src.LinkLayerOpts_write = .error (.exc .ValueError) ∧
      runFn failMeths (llEnv s x y z) Src.LinkLayerOpts_write = .error (.exc .ValueError) :=
  SockOpts.LinkLayerOpts_write_reject s x y z e h

theorem LinkLayerOpts_write_accept (s : Sock) (x y z : PyVal) (s' : Sock) (o' : KLl) (h : writeLl s x y z = .ok (s', o')) :
    ∃ env', runFn recMeths (llEnv s x y z) Src.LinkLayerOpts_write = .ok (.meth "o", env') ∧ LlObj env' o' ∧
      recorded env' = some [.setopt solCanIsotp optLL_OPTS (layoutLl o')] ∧
      s'.calls = .setopt solCanIsotp optLL_OPTS (layoutLl o') :: s.calls :=
  SockOpts.LinkLayerOpts_write_accept s x y z s' o' h

theorem LinkLayerOpts_write_accept_fail (s : Sock) (x y z : PyVal) (r : Sock × KLl) (h : writeLl s x y z = .ok r) :
    runFn failMeths (llEnv s x y z) Src.LinkLayerOpts_write = .error (.unsupported "setsockopt") :=
  SockOpts.LinkLayerOpts_write_accept_fail s x y z r h

/-! ### `socket.set_opts` / `set_fc_opts` / `set_ll_opts` vs `setOpts` / `setFcOpts` / `setLlOpts` -/

theorem socket_set_opts_exec (callee : OptsArgs → Except PErr PV) (s : Sock) (a : OptsArgs) :
    runFn (setOptsMeths callee) (setOptsEnv s a) Src.socket_set_opts =
      if s.bound then .error (.exc .RuntimeError) else (callee a).map (fun v => (v, setOptsEnv s a)) :=
  SockOpts.socket_set_opts_exec callee s a

theorem socket_set_opts_agrees (s : Sock) (a : OptsArgs) :
    (runFn (setOptsMeths (fun a' => writeResult (writeOpts s a'))) (setOptsEnv s a) Src.socket_set_opts).map (·.1) =
      writeResult (setOpts s a) :=
  SockOpts.socket_set_opts_agrees s a

theorem socket_set_fc_opts_exec (callee : PyVal → PyVal → PyVal → Except PErr PV) (s : Sock) (x y z : PyVal) :
    runFn (setFcOptsMeths callee) (setFcOptsEnv s x y z) Src.socket_set_fc_opts =
      if s.bound then .error (.exc .RuntimeError) else (callee x y z).map (fun v => (v, setFcOptsEnv s x y z)) :=
  SockOpts.socket_set_fc_opts_exec callee s x y z

theorem socket_set_fc_opts_agrees (s : Sock) (x y z : PyVal) :
    (runFn (setFcOptsMeths (fun x' y' z' => writeResult (writeFc s x' y' z'))) (setFcOptsEnv s x y z)
      Src.socket_set_fc_opts).map (·.1) = writeResult (setFcOpts s x y z) :=
  SockOpts.socket_set_fc_opts_agrees s x y z

theorem socket_set_ll_opts_exec (callee : PyVal → PyVal → PyVal → Except PErr PV) (s : Sock) (x y z : PyVal) :
    runFn (setLlOptsMeths callee) (setLlOptsEnv s x y z) Src.socket_set_ll_opts =
      if s.bound then .error (.exc .RuntimeError) else (callee x y z).map (fun v => (v, setLlOptsEnv s x y z)) :=
  SockOpts.socket_set_ll_opts_exec callee s x y z

theorem socket_set_ll_opts_agrees (s : Sock) (x y z : PyVal) :
    (runFn (setLlOptsMeths (fun x' y' z' => writeResult (writeLl s x' y' z'))) (setLlOptsEnv s x y z)
      Src.socket_set_ll_opts).map (·.1) = writeResult (setLlOpts s x y z) :=
  SockOpts.socket_set_ll_opts_agrees s x y z

/-! ### `socket.bind` vs `Sock.bind` (for a `str` interface and an address object, as the model presupposes) -/

theorem socket_bind_reject_any (s : Sock) (a : Addr) (asym : Bool) (bnd : List PV → Env → Except PErr Env) (t : Nat) (e : PyExc)
    (h : Sock.bind s a asym = .error e) :
    runFn (bindMeths s a asym bnd) (bindEnv s (.sc (.py (.str t)))) Src.socket_bind = .error (.exc e) :=
  SockOpts.socket_bind_reject_any s a asym bnd t e h

theorem socket_bind_accept (s : Sock) (a : Addr) (asym : Bool) (t : Nat) (s' : Sock) (h : Sock.bind s a asym = .ok s') :
    ∃ env', runFn (bindMeths s a asym recordBind) (bindEnv s (.sc (.py (.str t)))) Src.socket_bind = .ok (pnone, env') ∧
      env' "self.bound" = some (pbool true) ∧ env' "self.interface" = some (.sc (.py (.str t))) ∧
      env' "self.address" = some (.meth "address") ∧
      env' "#binds" = some (pint ((1 : Nat) : Int)) ∧ env' "bind.interface" = some (.sc (.py (.str t))) ∧
      env' "bind.rxid" = some (pint (bindRxid a : Nat)) ∧ env' "bind.txid" = some (pint (bindTxid a : Nat)) ∧
      (if a.tx.mode.hasPrefix || a.rx.mode.hasPrefix then
        env' "#set_opts" = some (pint ((1 : Nat) : Int)) ∧ env' "bind.#set_opts" = some (pint ((1 : Nat) : Int)) ∧
        env' "set_opts.optflag" = some (pint (pyBindFlags s a : Nat)) ∧
        env' "set_opts.ext_address" = some (optPV a.tx.txExtByte) ∧
        env' "set_opts.rx_ext_address" = some (optPV a.rx.rxExtByte) ∧
        ∃ r, setOpts s (pyBindArgs s a) = .ok r ∧ s' = afterBind r.1 a
      else
        env' "#set_opts" = some (pint ((0 : Nat) : Int)) ∧ env' "bind.#set_opts" = some (pint ((0 : Nat) : Int)) ∧
        s' = afterBind s a) :=
  SockOpts.socket_bind_accept s a asym t s' h

theorem socket_bind_nonstr (s : Sock) (a : Addr) (asym : Bool) (bnd : List PV → Env → Except PErr Env) (v : PV)
    (hv : ∀ t, v ≠ .sc (.py (.str t))) :
    runFn (bindMeths s a asym bnd) (bindEnv s v) Src.socket_bind = .error (.exc .ValueError) :=
  SockOpts.socket_bind_nonstr s a asym bnd v hv

end Isotp.PyAgree

#print axioms Isotp.PyAgree.or_two_pow_eq_orFlag
#print axioms Isotp.PyAgree.GeneralOpts_write_reject_any
#print axioms Isotp.PyAgree.GeneralOpts_write_reject
#print axioms Isotp.PyAgree.GeneralOpts_write_accept
#print axioms Isotp.PyAgree.GeneralOpts_write_fail_iff
#print axioms Isotp.PyAgree.FlowControlOpts_write_reject_any
#print axioms Isotp.PyAgree.FlowControlOpts_write_reject
#print axioms Isotp.PyAgree.FlowControlOpts_write_accept
#print axioms Isotp.PyAgree.FlowControlOpts_write_accept_fail
#print axioms Isotp.PyAgree.LinkLayerOpts_write_reject_any
#print axioms Isotp.PyAgree.LinkLayerOpts_write_reject
#print axioms Isotp.PyAgree.LinkLayerOpts_write_accept
#print axioms Isotp.PyAgree.LinkLayerOpts_write_accept_fail
#print axioms Isotp.PyAgree.socket_set_opts_exec
#print axioms Isotp.PyAgree.socket_set_opts_agrees
#print axioms Isotp.PyAgree.socket_set_fc_opts_exec
#print axioms Isotp.PyAgree.socket_set_fc_opts_agrees
#print axioms Isotp.PyAgree.socket_set_ll_opts_exec
#print axioms Isotp.PyAgree.socket_set_ll_opts_agrees
#print axioms Isotp.PyAgree.socket_bind_reject_any
#print axioms Isotp.PyAgree.socket_bind_accept
#print axioms Isotp.PyAgree.socket_bind_nonstr
