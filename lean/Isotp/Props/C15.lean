import Isotp.Process
/-
  C15 — property theorems (see DESIGN.md §6). Helper lemmas live in Isotp/Proofs.
-/
namespace Isotp.C15
open Isotp State

end Isotp.C15
