import Isotp.PyAgree.LayerSend
import Isotp.PyAgree.LayerTxHelpers
import Isotp.PyAgree.Threaded
import Isotp.PyAgree.LayerRx
import Isotp.PyAgree.LayerTx
/-!
  Source agreement for the CONSTRUCTORS (namespace `Isotp.PyAgree.Init`): the interpreted sources

  * 1. `Src.TransportLayerLogic_init__state_init` (the 23 statements of `TransportLayerLogic.__init__` from `self.txfn = txfn` to
       `self.actual_rxdl = None`)                                  = the receive / transmit fields of `State.init c a` (Layer.lean)
  * 2. `Src.TransportLayerLogic_SendRequest_init`                  = the model's `Req` construction (`Send.newReq`, `State.send`)
  * 3. `Src.TransportLayer_init`                                   = `TL.init` (Threaded.lean)
  * 4. `Src.Timer_init` + `Src.Timer_set_timeout`, `Src.RateLimiter_init` (with `can_be_enabled`, `enable`, `reset` from their sources)
                                                                   = the model's `Timer` `{ timeout := n }` / `Limiter` `{ enabled := can }`

  MAIN THEOREMS
  * `state_init_agrees (arg) (conv) (tx eh) (env) (hA : InitArgs tx eh env)`: the region ends in `initEnv tx eh env` when `set_address`
    accepts the address, raises `ValueError` otherwise (`setAddrSpec arg`); `initEnv_lookups` (every created attribute = the field of
    `State.init c a`), `initEnv_frame` (nothing else is written: `remote_blocksize` keeps the `None` it got before the region,
    `pending_flowcontrol_status` is NOT created - the model's `pendingFcStatus := none`).
  * `init_presents_State_init`: the region followed by `load_params` (`load_params_agrees`, LayerSend.lean) yields an object whose flat
    view `present conv` satisfies `Tx.Rep _ (State.init c a)`, `Rx.Rep (State.init c a) _`, `Rx.Consts`, an empty `#tx_queue` and
    `RxBufOk`: the hypotheses of `process_rx_agrees` / `process_tx_agrees`; LayerInitWhole.lean regroups them into LayerWhole's `RW`
    (hypothesis of `process_whole_total`).
  * `send_request_init_agrees` (+ `_tuple`, `_bytes`, `_other`), `send_request_init_bytes_is_newReq`, `send_request_init_tuple_is_newReq`.
  * `transport_layer_init_agrees`, `transport_layer_init_calls_once`, `transport_layer_init_shows` (`Thr.ShowsW _ (TL.init c a)`).
  * `timer_set_timeout_agrees`, `timer_init_agrees`, `timer_init_model`, `timer_init_zero`; `ratelimiter_init_agrees`,
    `ratelimiter_fresh_then_enable`, `ratelimiter_fresh_then_disable`.
  `FiniteByteGenerator.__init__` is `fbg_init_agrees` (LayerSend.lean, section E): used here, not duplicated.

  FINDINGS: no field of `State.init` disagrees with the constructor.  Remarks:
  (a) `RateLimiter.__init__` ENABLES the limiter whenever it can be enabled, whatever `rate_limit_enable` says; `load_params` corrects
      the flag right away (`enable()` / `disable()`), so `State.init`'s `rl := { enabled := c.rlEnable }` is right for the constructed
      layer, but a bare `RateLimiter(b, w)` is `{ enabled := true }`, not `{}` (section 4b).
  (b) the source-only attributes `last_rx_state`, `last_tx_state` (logging), `txfn`, `error_handler`, `address` have no model field.
  (c) float arithmetic: `int(timeout * 1e9)` (`Timer.set_timeout`) is outside the interpreter's integer arithmetic; it enters as the
      explicit parameter `conv` (section 4a) and the two hypotheses `hfc`, `hcf` of `init_presents_State_init` (DESIGN 3.1).
      `RateLimiter.reset` multiplies with the interpreter's INTEGER `*`: section 4b is for integer-valued factors (as LayerTxHelpers.lean).
-/
set_option linter.unusedSimpArgs false
set_option linter.unusedVariables false

namespace Isotp.PyAgree.Init
open Isotp Isotp.Py Isotp.PyAgree.Send

/-! ## 0. infrastructure -/

theorem set_same (env : Env) (k : String) (v : PV) (h : env k = some v) : env.set k v = env := Thr.set_same env k v h

theorem set_eq (env : Env) (k : String) (v : PV) : (env.set k v) k = some v := by simp [Env.set]
theorem set_ne (env : Env) (k k' : String) (v : PV) (h : k' ≠ k) : (env.set k v) k' = env k' := by simp [Env.set, h]

/-- the statement `callee(args)` when the callee is not a builtin -/
theorem exec_proc (M : Meths) (env env' : Env) (fn : String) (args : PArgs) (vs : List PV) (hb : fn ∉ builtinNames)
    (ha : evalArgs M env args = .ok vs) (hp : M.proc fn vs env = .ok env') :
    execStmt M env (.expr (.call fn args)) = .ok (.next env') := by
  simp [execStmt, ha, evalBuiltin_none fn _ hb, hp]

theorem exec_proc_err (M : Meths) (env : Env) (fn : String) (args : PArgs) (vs : List PV) (e : PErr) (hb : fn ∉ builtinNames)
    (ha : evalArgs M env args = .ok vs) (hp : M.proc fn vs env = .error e) :
    execStmt M env (.expr (.call fn args)) = .error e := by
  simp [execStmt, ha, evalBuiltin_none fn _ hb, hp]

theorem eval_call (M : Meths) (env : Env) (fn : String) (args : PArgs) (vs : List PV) (hb : fn ∉ builtinNames)
    (ha : evalArgs M env args = .ok vs) : eval M env (.call fn args) = M.fn fn vs env := by
  simp [eval, ha, evalBuiltin_none fn _ hb]

theorem exec_assign (M : Meths) (env : Env) (k : String) (e : PExpr) (v : PV) (h : eval M env e = .ok v) :
    execStmt M env (.assign k e) = .ok (.next (env.set k v)) := by
  simp [execStmt, h]

theorem exec_assign_err (M : Meths) (env : Env) (k : String) (e : PExpr) (x : PErr) (h : eval M env e = .error x) :
    execStmt M env (.assign k e) = .error x := by
  simp [execStmt, h]

theorem eval_var (M : Meths) (env : Env) (k : String) (v : PV) (h : env k = some v) : eval M env (.var k) = .ok v := by
  simp [eval, h]

theorem eval_cmp (M : Meths) (env : Env) (op : CmpOp) (a b : PExpr) (x y : PV) (ha : eval M env a = .ok x)
    (hb : eval M env b = .ok y) : eval M env (.cmp op a b) = evalCmp op x y := by
  simp [eval, ha, hb]

theorem args1 (M : Meths) (env : Env) (a : PExpr) (v : PV) (h : eval M env a = .ok v) :
    evalArgs M env (.cons a .nil) = .ok [v] := by simp [evalArgs, h]
theorem args2 (M : Meths) (env : Env) (a b : PExpr) (v w : PV) (h1 : eval M env a = .ok v) (h2 : eval M env b = .ok w) :
    evalArgs M env (.cons a (.cons b .nil)) = .ok [v, w] := by simp [evalArgs, h1, h2]

/-! ## 4a. `Timer.__init__`, `Timer.set_timeout` (isotp/tools.py)

  `set_timeout` stores `int(timeout * 1e9)`: a FLOAT product, dumped as the call `__mul__(timeout, __float__("1000000000.0"))`, followed
  by the builtin `int`, which in the interpreter accepts integers only.  ASSUMPTION on the two float primitives (`setTimeoutM`):
  * `__float__("1000000000.0")` is the number `10^9` (`f1e9`, the exact rational);
  * `__mul__(x, 1e9)` returns the float `x * 1e9` SHOWN AS THE INTEGER `int()` TRUNCATES IT TO (a float with a fractional part has no
    representation the builtin `int` accepts): for an `int` `x = k` this is `k * 10^9` (exact in doubles while `|k| * 10^9 < 2^53`, i.e. for
    every timeout below 104 days: not checked here), for a float `x = n/d` seconds it is `conv n d`, where `conv : Int → Nat → Int` is a
    PARAMETER standing for the double-precision computation `int((n/d) * 1e9)` (outside the subset; by construction of the harness
    `conv ms 1000` is the model's `cfg.tFc` / `cfg.tCf` for the two receive timers, DESIGN 3.1).  Anything else is a `TypeError`.
  This is consistent with MiscTimer.lean, where a `Timer` object shows `self.timeout` as the integer number of nanoseconds
  (`timerEnv`), and where `set_timeout` is an opaque `Meths.proc` (`timer_start_some_agrees`): here that `proc` is given by its source. -/

/-- the float `1e9` -/
def f1e9 : PV := .sc (.py (.float 1000000000 1))

/-- `int(timeout * 1e9)` for a number of seconds: exact for an `int`, the parameter `conv` for a float -/
def nsOf (conv : Int → Nat → Int) : PV → Option Int
  | .sc (.py (.int k)) => some (k * 1000000000)
  | .sc (.py (.float n d)) => some (conv n d)
  | _ => none

/-- the two float primitives of `set_timeout` -/
def setTimeoutM (conv : Int → Nat → Int) : Meths where
  fn := fun name args _ =>
    match name, args with
    | "__float__", [.str "1000000000.0"] => .ok f1e9
    | "__mul__", [v, .sc (.py (.float 1000000000 1))] =>
      (match nsOf conv v with
       | some i => .ok (pint i)
       | none => .error (.exc .TypeError))
    | n, _ => .error (.unsupported ("call " ++ n))
  proc := fun n _ _ => .error (.unsupported ("call " ++ n))

theorem setTimeoutM_float (conv : Int → Nat → Int) (env : Env) :
    (setTimeoutM conv).fn "__float__" [.str "1000000000.0"] env = .ok f1e9 := rfl
theorem setTimeoutM_mul (conv : Int → Nat → Int) (v : PV) (env : Env) :
    (setTimeoutM conv).fn "__mul__" [v, f1e9] env =
      match nsOf conv v with
      | some i => .ok (pint i)
      | none => .error (.exc .TypeError) := rfl

theorem builtin_int_pint (i : Int) : evalBuiltin "int" [pint i] = some (.ok (pint i)) := by
  simp [evalBuiltin, asInt, Sc.isInt, Sc.intVal, PyVal.isInt, PyVal.intVal]

theorem eval_int (M : Meths) (env : Env) (e : PExpr) (i : Int) (h : eval M env e = .ok (pint i)) :
    eval M env (.call "int" (.cons e .nil)) = .ok (pint i) := by
  simp [eval, evalArgs, h, builtin_int_pint]
theorem eval_int_err (M : Meths) (env : Env) (e : PExpr) (x : PErr) (h : eval M env e = .error x) :
    eval M env (.call "int" (.cons e .nil)) = .error x := by
  simp [eval, evalArgs, h]

/-- the product `timeout * 1e9` -/
theorem eval_mul_1e9 (conv : Int → Nat → Int) (env : Env) (tv : PV) (h : env "timeout" = some tv) :
    eval (setTimeoutM conv) env
      (.call "__mul__" (.cons (.var "timeout") (.cons (.call "__float__" (.cons (.strLit "1000000000.0") .nil)) .nil))) =
      match nsOf conv tv with
      | some i => .ok (pint i)
      | none => .error (.exc .TypeError) := by
  have hf : eval (setTimeoutM conv) env (.call "__float__" (.cons (.strLit "1000000000.0") .nil)) = .ok f1e9 := by
    rw [eval_call _ _ "__float__" _ [.str "1000000000.0"] (by decide) (by simp [evalArgs, eval])]; rfl
  rw [eval_call _ _ "__mul__" _ [tv, f1e9] (by decide) (args2 _ _ _ _ _ _ (eval_var _ _ _ _ h) hf), setTimeoutM_mul]

/-- **`Timer.set_timeout(timeout)`**, for every value of `timeout`: `self.timeout = int(timeout * 1e9)` nanoseconds for a number,
    `TypeError` otherwise; nothing else is written -/
theorem timer_set_timeout_agrees (conv : Int → Nat → Int) (env : Env) (tv : PV) (h : env "timeout" = some tv) :
    runFn (setTimeoutM conv) env Src.Timer_set_timeout =
      match nsOf conv tv with
      | some i => .ok (pnone, env.set "self.timeout" (pint i))
      | none => .error (.exc .TypeError) := by
  have hm := eval_mul_1e9 conv env tv h
  cases hn : nsOf conv tv with
  | none =>
    rw [hn] at hm
    have : eval (setTimeoutM conv) env (.call "int" (.cons (.call "__mul__" (.cons (.var "timeout")
        (.cons (.call "__float__" (.cons (.strLit "1000000000.0") .nil)) .nil))) .nil)) = .error (.exc .TypeError) :=
      eval_int_err _ _ _ _ hm
    apply runFn_err
    show execBlock _ env (drop Src.Timer_set_timeout 0) = _
    exact step_err rfl (exec_assign_err _ _ _ _ _ this)
  | some i =>
    rw [hn] at hm
    have : eval (setTimeoutM conv) env (.call "int" (.cons (.call "__mul__" (.cons (.var "timeout")
        (.cons (.call "__float__" (.cons (.strLit "1000000000.0") .nil)) .nil))) .nil)) = .ok (pint i) :=
      eval_int _ _ _ _ hm
    apply runFn_next
    show execBlock _ env (drop Src.Timer_set_timeout 0) = _
    rw [step_next rfl (exec_assign _ _ _ _ _ this)]
    rfl

/-- the callees of `Timer.__init__`: `self.set_timeout(timeout)` RUNS `Src.Timer_set_timeout` (the callee's parameter has the same
    name as the caller's) -/
def timerInitM (conv : Int → Nat → Int) : Meths where
  fn := (setTimeoutM conv).fn
  proc := fun name args env =>
    match name, args with
    | "self.set_timeout", [v] => envM (setTimeoutM conv) (env.set "timeout" v) Src.Timer_set_timeout
    | n, _ => .error (.unsupported ("call " ++ n))

theorem timerInitM_set_timeout (conv : Int → Nat → Int) (v : PV) (env : Env) :
    (timerInitM conv).proc "self.set_timeout" [v] env = envM (setTimeoutM conv) (env.set "timeout" v) Src.Timer_set_timeout := rfl

/-- what `Timer.__init__` leaves -/
def timerInitEnv (i : Int) (env : Env) : Env := (env.set "self.timeout" (pint i)).set "self.start_time" pnone

/-- **`Timer.__init__(timeout)`**, for every value of `timeout` (with `set_timeout` interpreted from its source) -/
theorem timer_init_agrees (conv : Int → Nat → Int) (env : Env) (tv : PV) (h : env "timeout" = some tv) :
    runFn (timerInitM conv) env Src.Timer_init =
      match nsOf conv tv with
      | some i => .ok (pnone, timerInitEnv i env)
      | none => .error (.exc .TypeError) := by
  have hp : (timerInitM conv).proc "self.set_timeout" [tv] env =
      match nsOf conv tv with
      | some i => .ok (env.set "self.timeout" (pint i))
      | none => .error (.exc .TypeError) := by
    rw [timerInitM_set_timeout, set_same env _ _ h, envM, timer_set_timeout_agrees conv env tv h]
    cases nsOf conv tv <;> rfl
  cases hn : nsOf conv tv with
  | none =>
    rw [hn] at hp
    apply runFn_err
    show execBlock _ env (drop Src.Timer_init 0) = _
    exact step_err rfl (exec_proc_err _ _ "self.set_timeout" _ [tv] _ (by decide) (args1 _ _ _ _ (eval_var _ _ _ _ h)) hp)
  | some i =>
    rw [hn] at hp
    apply runFn_next
    show execBlock _ env (drop Src.Timer_init 0) = _
    rw [step_next rfl (exec_proc _ _ _ "self.set_timeout" _ [tv] (by decide) (args1 _ _ _ _ (eval_var _ _ _ _ h)) hp)]
    rw [step_next (b := Src.Timer_init) (n := 1) rfl (exec_assign _ _ "self.start_time" .none pnone (by simp [eval]))]
    rfl

/-- **the freshly constructed timer is the model's `{ timeout := n }`** (stopped): on the two attributes of a `Timer` the final
    environment is MiscTimer's `timerEnv { timeout := n }`, and nothing else is written -/
theorem timer_init_model (conv : Int → Nat → Int) (env : Env) (tv : PV) (n : Nat) (h : env "timeout" = some tv)
    (hn : nsOf conv tv = some (n : Int)) :
    ∃ env', runFn (timerInitM conv) env Src.Timer_init = .ok (pnone, env') ∧
      env' "self.start_time" = timerEnv { timeout := n } "self.start_time" ∧
      env' "self.timeout" = timerEnv { timeout := n } "self.timeout" ∧
      env' "self.start_time" = some (optPV ({ timeout := n } : Timer).start) ∧
      env' "self.timeout" = some (pint ({ timeout := n } : Timer).timeout) ∧
      ∀ k, k ≠ "self.start_time" → k ≠ "self.timeout" → env' k = env k := by
  refine ⟨timerInitEnv n env, by rw [timer_init_agrees conv env tv h, hn], ?_, ?_, ?_, ?_, ?_⟩
  · simp [timerInitEnv, set_get]; rfl
  · simp [timerInitEnv, set_get]; rfl
  · simp [timerInitEnv, set_get]; rfl
  · simp [timerInitEnv, set_get]
  · intro k h1 h2; simp [timerInitEnv, set_get, h1, h2]

/-- `Timer(timeout=0)`: the model's `{}` -/
theorem timer_init_zero (conv : Int → Nat → Int) (env : Env) (h : env "timeout" = some (pint 0)) :
    runFn (timerInitM conv) env Src.Timer_init = .ok (pnone, timerInitEnv 0 env) ∧
    timerInitEnv 0 env "self.start_time" = some (optPV ({} : Timer).start) ∧
    timerInitEnv 0 env "self.timeout" = some (pint ({} : Timer).timeout) := by
  refine ⟨by rw [timer_init_agrees conv env _ h]; rfl, by simp [timerInitEnv, set_get] <;> rfl, by simp [timerInitEnv, set_get] <;> rfl⟩

/-- a whole number of seconds -/
theorem nsOf_int (conv : Int → Nat → Int) (k : Nat) : nsOf conv (pint k) = some ((k * 1000000000 : Nat) : Int) := by
  simp [nsOf, pint]
/-- a float number of seconds: the conversion parameter -/
theorem nsOf_float (conv : Int → Nat → Int) (n : Int) (d : Nat) : nsOf conv (.sc (.py (.float n d))) = some (conv n d) := rfl

/-- the `Timer` object as a VALUE `[start_time, timeout_ns]`, for the callers that store it in an attribute (the flat environment of the
    interpreter cannot bind `x.attr` on `x = obj`): `Timer(v)` RUNS `Src.Timer_init` in a fresh frame and packs the two attributes -/
def packTimer (e : Env) : Except PErr PV :=
  match e "self.start_time", e "self.timeout" with
  | some (.sc a), some (.sc b) => .ok (.list [a, b])
  | _, _ => .error (.unsupported "Timer object")

def timerNew (conv : Int → Nat → Int) (v : PV) : Except PErr PV :=
  match runFn (timerInitM conv) (envOf [("timeout", v)]) Src.Timer_init with
  | .ok (_, e) => packTimer e
  | .error x => .error x

theorem timerNew_eq (conv : Int → Nat → Int) (v : PV) :
    timerNew conv v =
      match nsOf conv v with
      | some i => .ok (.list [.py .none, .py (.int i)])
      | none => .error (.exc .TypeError) := by
  unfold timerNew
  rw [timer_init_agrees conv _ v rfl]
  cases nsOf conv v with
  | none => rfl
  | some i => simp [packTimer, timerInitEnv, set_get]

example : nsOf (fun n d => n * 1000000000 / d) (pint 0) = some 0 := rfl
example : timerNew (fun n d => n * 1000000000 / d) (.sc (.py (.float 1000 1000))) = .ok (.list [.py .none, .py (.int 1000000000)]) := by
  rw [timerNew_eq]; rfl


/-! ## 4b. `RateLimiter.__init__` (isotp/protocol.py)

  ```
  self.enabled = False; self.mean_bitrate = mean_bitrate; self.window_size_sec = window_size_sec; self.error_reason = ''
  self.reset()
  if self.can_be_enabled(): self.enable()
  ```
  All three callees are INTERPRETED FROM THEIR SOURCES (`Src.RateLimiter_reset`, `Src.RateLimiter_can_be_enabled`, `Src.RateLimiter_enable`,
  whose own callees `reset` / `can_be_enabled` are again their sources); the only primitive is `float(x)`, numerically `x` (as in
  LayerTxHelpers.lean).  As there (`ratelimiter_reset_float_outside_subset`), `reset` multiplies the two factors with the interpreter's
  INTEGER `*`, so the statement is for integer-valued factors `b`, `w`, shown as `int`s.

  NOTE (not a disagreement with `State.init`): the constructor ENABLES the limiter whenever it can be enabled (`b > 0` and `w > 0`),
  whatever `rate_limit_enable` says: the fresh object is the model's `{}` only when it cannot be enabled, and `{ enabled := true }`
  otherwise (no bursts, `bit_total = 0` in both cases).  `load_params` calls `enable()` / `disable()` right after the construction, which
  is what makes the flag `cfg.rlEnable` as in `State.init` (`ratelimiter_fresh_then_disable` / `_enable`).
  `can_be_enabled()` is called in expression position: its assignments to `self.error_reason` (a message for the `ValueError` of
  `enable`) are not propagated by the interpreter's `Meths.fn`; no other method reads that attribute. -/

/-- `float(x)` of a number: numerically `x`, in expression and in statement position (`try: float(x)`) -/
def floatM : Meths where
  fn := fun name args _ =>
    match name, args with
    | "float", [.sc (.py v)] => if isNumber v then .ok (.sc (.py v)) else .error (.exc .TypeError)
    | n, _ => .error (.unsupported ("call " ++ n))
  proc := fun name args env =>
    match name, args with
    | "float", [.sc (.py v)] => if isNumber v then .ok env else .error (.exc .TypeError)
    | n, _ => .error (.unsupported ("call " ++ n))

/-- **`RateLimiter.can_be_enabled()`** on integer-valued factors: both positive -/
theorem can_be_enabled_run (env : Env) (b w : Int) (h1 : env "self.mean_bitrate" = some (pint b))
    (h2 : env "self.window_size_sec" = some (pint w)) :
    retM floatM env Src.RateLimiter_can_be_enabled = .ok (pbool (decide (0 < b) && decide (0 < w))) := by
  have hp : ∀ (i : Int) e, floatM.proc "float" [pint i] e = .ok e := fun _ _ => rfl
  have hf : ∀ (i : Int) e, floatM.fn "float" [pint i] e = .ok (pint i) := fun _ _ => rfl
  by_cases hb : b ≤ 0 <;> by_cases hw : w ≤ 0 <;>
  simp [retM, runFn, Src.RateLimiter_can_be_enabled, execBlock, execStmt, eval, evalArgs, h1, h2,
    evalBuiltin_none "float" _ (by decide), hp, hf, evalCmp_le_pint, hb, hw, set_get] <;> omega

/-- the callees of `enable`: `can_be_enabled` and `reset` from their sources -/
def rlM : Meths where
  fn := fun name args env =>
    match name, args with
    | "float", [.sc (.py v)] => if isNumber v then .ok (.sc (.py v)) else .error (.exc .TypeError)
    | "self.can_be_enabled", [] => retM floatM env Src.RateLimiter_can_be_enabled
    | n, _ => .error (.unsupported ("call " ++ n))
  proc := fun name args env =>
    match name, args with
    | "self.reset", [] => envM noMeths env Src.RateLimiter_reset
    | n, _ => .error (.unsupported ("call " ++ n))

/-- the callees of `__init__`: the same, and `enable` from its source -/
def rlInitM : Meths where
  fn := rlM.fn
  proc := fun name args env =>
    match name, args with
    | "self.reset", [] => envM noMeths env Src.RateLimiter_reset
    | "self.enable", [] => envM rlM env Src.RateLimiter_enable
    | n, _ => .error (.unsupported ("call " ++ n))

theorem rlM_can (env : Env) : rlM.fn "self.can_be_enabled" [] env = retM floatM env Src.RateLimiter_can_be_enabled := rfl
theorem rlM_float (i : Int) (env : Env) : rlM.fn "float" [pint i] env = .ok (pint i) := rfl
theorem rlM_reset (env : Env) : rlM.proc "self.reset" [] env = envM noMeths env Src.RateLimiter_reset := rfl
theorem rlInitM_reset (env : Env) : rlInitM.proc "self.reset" [] env = envM noMeths env Src.RateLimiter_reset := rfl
theorem rlInitM_enable (env : Env) : rlInitM.proc "self.enable" [] env = envM rlM env Src.RateLimiter_enable := rfl
theorem rlInitM_can (env : Env) : rlInitM.fn "self.can_be_enabled" [] env = retM floatM env Src.RateLimiter_can_be_enabled := rfl

/-- `reset()` on integer factors -/
theorem reset_run (env : Env) (b w : Nat) (h1 : env "self.mean_bitrate" = some (pint b))
    (h2 : env "self.window_size_sec" = some (pint w)) :
    envM noMeths env Src.RateLimiter_reset = .ok (limResetEnv env (pint ((b * w : Nat) : Int))) := by
  rw [envM, ratelimiter_reset_run noMeths env _ _ h1 h2, evalBinop_mul, Int.natCast_mul]; rfl

/-- what `enable()` leaves when it succeeds -/
def enableEnv (b w : Nat) (env : Env) : Env :=
  limResetEnv (((env.set "self.mean_bitrate" (pint b)).set "self.window_size_sec" (pint w)).set "self.enabled" (pbool true))
    (pint ((b * w : Nat) : Int))

/-- **`enable()`** with `can_be_enabled` and `reset` interpreted from their sources (integer factors) -/
theorem enable_run (env : Env) (b w : Nat) (h1 : env "self.mean_bitrate" = some (pint b))
    (h2 : env "self.window_size_sec" = some (pint w)) :
    envM rlM env Src.RateLimiter_enable =
      if 0 < b ∧ 0 < w then .ok (enableEnv b w env) else .error (.exc .ValueError) := by
  have hc : rlM.fn "self.can_be_enabled" [] env = .ok (pbool (decide (0 < b ∧ 0 < w))) := by
    rw [rlM_can, can_be_enabled_run env b w h1 h2]
    congr 2
    by_cases hb : 0 < b <;> by_cases hw : 0 < w <;> simp [hb, hw] <;> omega
  by_cases hcan : 0 < b ∧ 0 < w
  · have hp : rlM.proc "self.reset" []
        (((env.set "self.mean_bitrate" (pint b)).set "self.window_size_sec" (pint w)).set "self.enabled" (pbool true)) =
        .ok (enableEnv b w env) := by
      rw [rlM_reset, reset_run _ b w (by simp [set_get]) (by simp [set_get])]; rfl
    simp [envM, runFn, Src.RateLimiter_enable, execBlock, execStmt, eval, evalArgs, set_get, h1, h2, hc, rlM_float, hcan,
      evalBuiltin_none "self.can_be_enabled" _ (by decide), evalBuiltin_none "float" _ (by decide),
      evalBuiltin_none "self.reset" _ (by decide), hp]
  · simp [envM, runFn, Src.RateLimiter_enable, execBlock, execStmt, eval, evalArgs, hc, hcan,
      evalBuiltin_none "self.can_be_enabled" _ (by decide)]

/-- what `RateLimiter.__init__` leaves -/
def rlInitEnv (b w : Nat) (env : Env) : Env :=
  let e4 := (((env.set "self.enabled" (pbool false)).set "self.mean_bitrate" (pint b)).set "self.window_size_sec" (pint w)).set
    "self.error_reason" (.str "")
  let e5 := limResetEnv e4 (pint ((b * w : Nat) : Int))
  if 0 < b ∧ 0 < w then enableEnv b w e5 else e5

/-- the keys `RateLimiter.__init__` writes -/
def rlInitKeys : List String :=
  ["self.enabled", "self.mean_bitrate", "self.window_size_sec", "self.error_reason", "self.burst_bitcount", "self.burst_time",
   "self.bit_total", "self.window_bit_max"]

/-- **`RateLimiter.__init__(mean_bitrate, window_size_sec)`** (integer-valued factors), callees interpreted from their sources: it never
    raises; the new object shows the model's limiter `{ enabled := can }` - no bursts, `bit_total = 0`, `window_bit_max = b * w` -,
    enabled exactly when it can be (both factors positive) -/
theorem ratelimiter_init_agrees (env : Env) (b w : Nat) (h1 : env "mean_bitrate" = some (pint b))
    (h2 : env "window_size_sec" = some (pint w)) :
    runFn rlInitM env Src.RateLimiter_init = .ok (pnone, rlInitEnv b w env) ∧
    Has (rlInitEnv b w env) (limAttrs { enabled := decide (0 < b ∧ 0 < w) } (b * w)) ∧
    rlInitEnv b w env "self.mean_bitrate" = some (pint b) ∧ rlInitEnv b w env "self.window_size_sec" = some (pint w) ∧
    ∀ k, k ∉ rlInitKeys → rlInitEnv b w env k = env k := by
  refine ⟨?_, ?_, ?_, ?_, ?_⟩
  · let e1 := env.set "self.enabled" (pbool false)
    let e2 := e1.set "self.mean_bitrate" (pint b)
    let e3 := e2.set "self.window_size_sec" (pint w)
    let e4 := e3.set "self.error_reason" (.str "")
    let e5 := limResetEnv e4 (pint ((b * w : Nat) : Int))
    have m5 : e5 "self.mean_bitrate" = some (pint b) := by simp [e5, e4, e3, e2, limResetEnv, set_get]
    have w5 : e5 "self.window_size_sec" = some (pint w) := by simp [e5, e4, e3, e2, limResetEnv, set_get]
    have s0 : execStmt rlInitM env (nth Src.RateLimiter_init 0) = .ok (.next e1) := exec_assign _ _ _ _ _ (by simp [eval])
    have s1 : execStmt rlInitM e1 (nth Src.RateLimiter_init 1) = .ok (.next e2) :=
      exec_assign _ _ _ _ _ (eval_var _ _ _ _ (by simp [e1, set_get, h1]))
    have s2 : execStmt rlInitM e2 (nth Src.RateLimiter_init 2) = .ok (.next e3) :=
      exec_assign _ _ _ _ _ (eval_var _ _ _ _ (by simp [e2, e1, set_get, h2]))
    have s3 : execStmt rlInitM e3 (nth Src.RateLimiter_init 3) = .ok (.next e4) := exec_assign _ _ _ _ _ (by simp [eval])
    have s4 : execStmt rlInitM e4 (nth Src.RateLimiter_init 4) = .ok (.next e5) :=
      exec_proc _ _ _ "self.reset" _ [] (by decide) rfl
        (by rw [rlInitM_reset, reset_run e4 b w (by simp [e4, e3, e2, set_get]) (by simp [e4, e3, set_get])])
    have hc : eval rlInitM e5 (.call "self.can_be_enabled" .nil) = .ok (pbool (decide (0 < b ∧ 0 < w))) := by
      rw [eval_call _ _ "self.can_be_enabled" _ [] (by decide) rfl, rlInitM_can, can_be_enabled_run e5 b w m5 w5]
      congr 2
      by_cases hb : 0 < b <;> by_cases hw : 0 < w <;> simp [hb, hw] <;> omega
    have s5 : execStmt rlInitM e5 (nth Src.RateLimiter_init 5) = .ok (.next (rlInitEnv b w env)) := by
      have he := enable_run e5 b w m5 w5
      show execStmt rlInitM e5 (.ite (.call "self.can_be_enabled" .nil) (.cons (.expr (.call "self.enable" .nil)) .nil) .nil) = _
      rw [Thr.exec_ite _ _ _ _ _ _ hc]
      by_cases hcan : 0 < b ∧ 0 < w
      · rw [if_pos hcan] at he
        have hs : execStmt rlInitM e5 (.expr (.call "self.enable" .nil)) = .ok (.next (enableEnv b w e5)) :=
          exec_proc _ _ _ "self.enable" _ [] (by decide) rfl (by rw [rlInitM_enable, he])
        have : rlInitEnv b w env = enableEnv b w e5 := by simp only [rlInitEnv, if_pos hcan]; rfl
        rw [if_pos (decide_eq_true hcan), this]
        simp only [execBlock, hs, ok_bind]
      · have : rlInitEnv b w env = e5 := by simp only [rlInitEnv, if_neg hcan]; rfl
        rw [if_neg (by simpa using hcan), this]
        rfl
    apply runFn_next
    show execBlock _ env (drop Src.RateLimiter_init 0) = _
    rw [step_next rfl s0, step_next rfl s1, step_next rfl s2, step_next rfl s3, step_next rfl s4, step_next rfl s5]
    rfl
  · by_cases hcan : 0 < b ∧ 0 < w <;>
    simp [Has, limAttrs, rlInitEnv, enableEnv, limResetEnv, set_get, hcan]
  · by_cases hcan : 0 < b ∧ 0 < w <;> simp [rlInitEnv, enableEnv, limResetEnv, set_get, hcan]
  · by_cases hcan : 0 < b ∧ 0 < w <;> simp [rlInitEnv, enableEnv, limResetEnv, set_get, hcan]
  · intro k hk
    simp only [rlInitKeys, List.mem_cons, List.not_mem_nil, or_false, not_or] at hk
    by_cases hcan : 0 < b ∧ 0 < w <;> simp [rlInitEnv, enableEnv, limResetEnv, set_get, hcan, hk]

/-- the fresh limiter in the model's terms: `{}` when it cannot be enabled -/
theorem ratelimiter_init_default (env : Env) (b w : Nat) (hcan : ¬ (0 < b ∧ 0 < w)) :
    Has (rlInitEnv b w env) (limAttrs ({} : Limiter) (b * w)) := by
  simp [Has, limAttrs, rlInitEnv, limResetEnv, set_get, hcan]

/-- ... and then `disable()` / `enable()` (what `load_params` does next, from the sources): the model's `{ enabled := flag }`,
    as in `State.init` (`rl := { enabled := c.rlEnable }`) -/
theorem ratelimiter_fresh_then_disable (M : Meths) (env : Env) (b w : Nat) :
    ∃ env', runFn M (rlInitEnv b w env) Src.RateLimiter_disable = .ok (pnone, env') ∧
      Has env' (limAttrs ({ enabled := false } : Limiter) (b * w)) := by
  refine ⟨(rlInitEnv b w env).set "self.enabled" (pbool false), by simp [runFn, Src.RateLimiter_disable, execBlock, execStmt, eval], ?_⟩
  by_cases hcan : 0 < b ∧ 0 < w <;> simp [Has, limAttrs, rlInitEnv, enableEnv, limResetEnv, set_get, hcan]

theorem ratelimiter_fresh_then_enable (env : Env) (b w : Nat) (hcan : 0 < b ∧ 0 < w) :
    ∃ env', envM rlM (rlInitEnv b w env) Src.RateLimiter_enable = .ok env' ∧
      Has env' (limAttrs ({ enabled := true } : Limiter) (b * w)) := by
  refine ⟨enableEnv b w (rlInitEnv b w env), ?_, ?_⟩
  · rw [enable_run _ b w (by simp [rlInitEnv, enableEnv, limResetEnv, set_get, hcan])
      (by simp [rlInitEnv, enableEnv, limResetEnv, set_get, hcan]), if_pos hcan]
  · simp [Has, limAttrs, enableEnv, limResetEnv, set_get]

example : (rlInitEnv 1000000 1 (envOf [("mean_bitrate", pint 1000000), ("window_size_sec", pint 1)])) "self.enabled" =
    some (pbool true) := by simp [rlInitEnv, enableEnv, limResetEnv, set_get]


/-! ## 2. `TransportLayerLogic.SendRequest.__init__` (isotp/protocol.py)

  ```
  if isinstance(data, tuple):
      if len(data) != 2: raise ValueError
      gen, size = data
      self.generator = FiniteByteGenerator(gen, size)
  elif isinstance(data, Iterable):
      data = cast(Union[bytes, bytearray], data)          # dumped as `data = data`: `typing.cast` is the identity at run time
      self.generator = FiniteByteGenerator((x for x in data), len(data))
  else: raise ValueError
  self.consumed_size = 0; self.target_address_type = target_address_type; self.complete_event = threading.Event(); self.success = False
  ```
  PRESENTATION of the payload `data`:
  * a tuple is a `PV.list xs` of scalars (`len` is then the interpreter's builtin); a generator OBJECT is an opaque scalar
    `.py (.other tag)`; the parameter `yields : Nat → Option Bytes` says which tags are generator objects and what each will yield
    (the model's `Req.src`: "what the generator will still yield");
  * `bytes` / `bytearray` is `PV.bytes b`;
  * any other value is neither a tuple nor an `Iterable` (a `str` or a `list` IS iterable in Python and would be accepted by the
    constructor, to fail later in `consume`: such payloads are outside this presentation, as they are outside the model's `SendArgs`).
  ASSUMPTIONS (`sriM`): `isinstance(data, tuple)` / `isinstance(data, Iterable)` read the shape of the value; `gen, size = data` binds the two
  names to the two elements of a pair (`ValueError` otherwise - unreachable after the length test); the generator expression
  `(x for x in data)` is a NEW generator object `it` that will yield the bytes of `data` (the parameter `it`, with `yields it = some b`
  checked by the primitive); `threading.Event()` is an opaque object.  `FiniteByteGenerator(gen, size)` RUNS
  `Src.FiniteByteGenerator_init` (`fbg_init_agrees`, LayerSend.lean - not duplicated here) in a fresh frame and packs the four attributes
  `[_gen, _size, _consumed, _depleted]` into the value stored in `self.generator`. -/

/-- `isinstance(v, types.GeneratorType)` -/
def isGenV (yields : Nat → Option Bytes) : PV → Bool
  | .sc (.py (.other t)) => (yields t).isSome
  | _ => false

def isTupleV : PV → Bool
  | .list _ => true
  | _ => false

def isIterV : PV → Bool
  | .list _ => true
  | .bytes _ => true
  | _ => false

/-- the `FiniteByteGenerator` object as a value -/
def packFbg (e : Env) : Except PErr PV :=
  match e "self._gen", e "self._size", e "self._consumed", e "self._depleted" with
  | some (.sc a), some (.sc b), some (.sc c), some (.sc d) => .ok (.list [a, b, c, d])
  | _, _, _, _ => .error (.unsupported "FiniteByteGenerator object")

/-- `FiniteByteGenerator(g, sz)`: its `__init__` run from the source in a fresh frame -/
def fbgNew (yields : Nat → Option Bytes) (g sz : PV) : Except PErr PV :=
  match runFn (fbgInitMeths (isGenV yields g)) (envOf [("gen", g), ("size", sz)]) Src.FiniteByteGenerator_init with
  | .ok (_, e) => packFbg e
  | .error x => .error x

/-- the fresh generator object: declared size, nothing consumed, not depleted -/
def fbgObj (g sz : Sc) : PV := .list [g, sz, .py (.int 0), .py (.bool false)]

theorem fbgNew_eq (yields : Nat → Option Bytes) (ga sa : Sc) :
    fbgNew yields (.sc ga) (.sc sa) =
      if isGenV yields (.sc ga) && sizeOk (.sc sa) then .ok (fbgObj ga sa) else .error (.exc .ValueError) := by
  unfold fbgNew
  rw [fbg_init_agrees _ (.sc ga) (.sc sa) _ rfl rfl]
  by_cases hc : (isGenV yields (.sc ga) && sizeOk (.sc sa)) = true
  · rw [if_pos hc, if_pos hc]; simp [packFbg, set_get, fbgObj]
  · rw [if_neg hc, if_neg hc]

def sriM (yields : Nat → Option Bytes) (it : Nat) : Meths where
  fn := fun name args _ =>
    match name, args with
    | "isinstance_tuple", [v] => .ok (pbool (isTupleV v))
    | "isinstance_Iterable", [v] => .ok (pbool (isIterV v))
    | "__iter__", [.bytes b] =>
      if yields it = some b then .ok (.sc (.py (.other it))) else .error (.unsupported "generator object")
    | "FiniteByteGenerator", [g, sz] => fbgNew yields g sz
    | "threading.Event", [] => .ok (.meth "Event")
    | n, _ => .error (.unsupported ("call " ++ n))
  proc := fun name args env =>
    match name, args with
    | "gen,size:=__unpack__", [.list [a, b]] => .ok ((env.set "gen" (.sc a)).set "size" (.sc b))
    | "gen,size:=__unpack__", [_] => .error (.exc .ValueError)
    | n, _ => .error (.unsupported ("call " ++ n))

section sri
variable (yields : Nat → Option Bytes) (it : Nat)

theorem sriM_tuple (v : PV) (env : Env) : (sriM yields it).fn "isinstance_tuple" [v] env = .ok (pbool (isTupleV v)) := rfl
theorem sriM_iterable (v : PV) (env : Env) : (sriM yields it).fn "isinstance_Iterable" [v] env = .ok (pbool (isIterV v)) := rfl
theorem sriM_iter (b : Bytes) (env : Env) (h : yields it = some b) :
    (sriM yields it).fn "__iter__" [.bytes b] env = .ok (.sc (.py (.other it))) := by
  show (if yields it = some b then Except.ok (PV.sc (.py (.other it))) else _) = _
  rw [if_pos h]
theorem sriM_fbg (g sz : PV) (env : Env) : (sriM yields it).fn "FiniteByteGenerator" [g, sz] env = fbgNew yields g sz := rfl
theorem sriM_event (env : Env) : (sriM yields it).fn "threading.Event" [] env = .ok (.meth "Event") := rfl
theorem sriM_unpack (a b : Sc) (env : Env) :
    (sriM yields it).proc "gen,size:=__unpack__" [.list [a, b]] env = .ok ((env.set "gen" (.sc a)).set "size" (.sc b)) := rfl

def iteC : PStmt → PExpr
  | .ite c _ _ => c
  | _ => .none
def iteT : PStmt → PBlock
  | .ite _ t _ => t
  | _ => .nil
def iteE : PStmt → PBlock
  | .ite _ _ e => e
  | _ => .nil

abbrev SB : PBlock := Src.TransportLayerLogic_SendRequest_init
/-- the tuple branch -/
abbrev TB : PBlock := iteT (nth SB 0)
/-- the `elif` -/
abbrev ES : PStmt := nth (iteE (nth SB 0)) 0
/-- the bytes branch -/
abbrev IB : PBlock := iteT ES

theorem s0_shape : nth SB 0 = .ite (.call "isinstance_tuple" (.cons (.var "data") .nil)) TB (.cons ES .nil) := rfl
theorem es_shape : ES = .ite (.call "isinstance_Iterable" (.cons (.var "data") .nil)) IB (.cons (.raise "ValueError") .nil) := rfl

theorem builtin_len_list (xs : List Sc) : evalBuiltin "len" [.list xs] = some (.ok (pint xs.length)) := by simp [evalBuiltin]

/-- the four attribute assignments after the `if` -/
def sriTail (tv : PV) (env : Env) : Env :=
  (((env.set "self.consumed_size" (pint 0)).set "self.target_address_type" tv).set "self.complete_event" (.meth "Event")).set
    "self.success" (pbool false)

theorem sri_tail_run (env : Env) (tv : PV) (h : env "target_address_type" = some tv) :
    execBlock (sriM yields it) env (drop SB 1) = .ok (.next (sriTail tv env)) := by
  rw [step_next (b := SB) (n := 1) rfl (exec_assign _ _ "self.consumed_size" (.int 0) (pint 0) (by simp [eval]))]
  rw [step_next (b := SB) (n := 2) rfl (exec_assign _ _ "self.target_address_type" _ tv
    (eval_var _ _ _ _ (by simp [set_get, h])))]
  rw [step_next (b := SB) (n := 3) rfl (exec_assign _ _ "self.complete_event" _ (.meth "Event")
    (by rw [eval_call _ _ "threading.Event" _ [] (by decide) rfl]; rfl))]
  rw [step_next (b := SB) (n := 4) rfl (exec_assign _ _ "self.success" .ff (pbool false) (by simp [eval]))]
  rfl

theorem eval_is_tuple (env : Env) (dv : PV) (h : env "data" = some dv) :
    eval (sriM yields it) env (.call "isinstance_tuple" (.cons (.var "data") .nil)) = .ok (pbool (isTupleV dv)) := by
  rw [eval_call _ _ "isinstance_tuple" _ [dv] (by decide) (args1 _ _ _ _ (eval_var _ _ _ _ h))]; rfl

theorem eval_is_iterable (env : Env) (dv : PV) (h : env "data" = some dv) :
    eval (sriM yields it) env (.call "isinstance_Iterable" (.cons (.var "data") .nil)) = .ok (pbool (isIterV dv)) := by
  rw [eval_call _ _ "isinstance_Iterable" _ [dv] (by decide) (args1 _ _ _ _ (eval_var _ _ _ _ h))]; rfl

/-- the first statement of the tuple branch: `if len(data) != 2: raise ValueError` -/
theorem len_check (env : Env) (xs : List Sc) (h : env "data" = some (.list xs)) :
    execStmt (sriM yields it) env (nth TB 0) = if xs.length = 2 then .ok (.next env) else .error (.exc .ValueError) := by
  have hl : eval (sriM yields it) env (.call "len" (.cons (.var "data") .nil)) = .ok (pint xs.length) := by
    simp [eval, evalArgs, h, builtin_len_list]
  have hc : eval (sriM yields it) env (.cmp .ne (.call "len" (.cons (.var "data") .nil)) (.int 2)) =
      .ok (pbool (!decide (xs.length = 2))) := by
    rw [eval_cmp _ _ _ _ _ _ (pint 2) hl (by simp [eval]), evalCmp_ne, pvEq_pint]
    congr 2
    rw [Bool.eq_iff_iff]; simp; omega
  show execStmt _ env (.ite (.cmp .ne (.call "len" (.cons (.var "data") .nil)) (.int 2)) (.cons (.raise "ValueError") .nil) .nil) = _
  rw [Thr.exec_ite _ _ _ _ _ _ hc]
  by_cases h2 : xs.length = 2
  · simp [h2, execBlock]
  · simp [h2, execBlock, execStmt]

/-- the environment after the `if` for a pair `(g, sz)` -/
def tupleEnv (g sz : Sc) (env : Env) : Env := ((env.set "gen" (.sc g)).set "size" (.sc sz)).set "self.generator" (fbgObj g sz)

/-- the tuple branch on a pair -/
theorem tuple_branch (env : Env) (g sz : Sc) (h : env "data" = some (.list [g, sz])) :
    execBlock (sriM yields it) env TB =
      if isGenV yields (.sc g) && sizeOk (.sc sz) then .ok (.next (tupleEnv g sz env)) else .error (.exc .ValueError) := by
  have s0 := len_check yields it env [g, sz] h
  simp only [List.length_cons, List.length_nil, if_true] at s0
  have s1 : execStmt (sriM yields it) env (nth TB 1) = .ok (.next ((env.set "gen" (.sc g)).set "size" (.sc sz))) :=
    exec_proc _ _ _ "gen,size:=__unpack__" _ [.list [g, sz]] (by decide) (args1 _ _ _ _ (eval_var _ _ _ _ h)) (sriM_unpack yields it g sz env)
  have hg : eval (sriM yields it) ((env.set "gen" (.sc g)).set "size" (.sc sz))
      (.call "FiniteByteGenerator" (.cons (.var "gen") (.cons (.var "size") .nil))) = fbgNew yields (.sc g) (.sc sz) := by
    rw [eval_call _ _ "FiniteByteGenerator" _ [.sc g, .sc sz] (by decide)
      (args2 _ _ _ _ _ _ (eval_var _ _ _ _ (by simp [set_get])) (eval_var _ _ _ _ (by simp [set_get])))]
    rfl
  show execBlock _ env (drop TB 0) = _
  rw [step_next rfl s0, step_next rfl s1]
  rw [fbgNew_eq] at hg
  by_cases hc : (isGenV yields (.sc g) && sizeOk (.sc sz)) = true
  · rw [if_pos hc] at hg ⊢
    rw [step_next (b := TB) (n := 2) rfl (exec_assign _ _ "self.generator" _ _ hg)]
    rfl
  · rw [if_neg hc] at hg ⊢
    exact step_err (b := TB) (n := 2) rfl (exec_assign_err _ _ "self.generator" _ _ hg)

/-- what `SendRequest.__init__` leaves for a pair `(g, sz)` -/
def sriTupleEnv (g sz : Sc) (tv : PV) (env : Env) : Env := sriTail tv (tupleEnv g sz env)

/-- the outcome for a tuple -/
def tupleSpec (yields : Nat → Option Bytes) (xs : List Sc) (tv : PV) (env : Env) : Except PErr (PV × Env) :=
  match xs with
  | [g, sz] =>
    if isGenV yields (.sc g) && sizeOk (.sc sz) then .ok (pnone, sriTupleEnv g sz tv env) else .error (.exc .ValueError)
  | _ => .error (.exc .ValueError)

/-- **`SendRequest.__init__((gen, size), tat)`** and every other tuple: `ValueError` unless the tuple has exactly two items, the first a
    generator and the second a non-negative `int`; then the request holds `FiniteByteGenerator(gen, size)` (nothing consumed, not
    depleted), `consumed_size = 0`, the target address type, a fresh event and `success = False` -/
theorem send_request_init_tuple (env : Env) (xs : List Sc) (tv : PV) (h1 : env "data" = some (.list xs))
    (h2 : env "target_address_type" = some tv) :
    runFn (sriM yields it) env Src.TransportLayerLogic_SendRequest_init = tupleSpec yields xs tv env := by
  have hc := eval_is_tuple yields it env _ h1
  have e0 : execStmt (sriM yields it) env (nth SB 0) = execBlock (sriM yields it) env TB := by
    rw [s0_shape, Thr.exec_ite _ _ _ _ _ _ hc]; rfl
  have bad : xs.length ≠ 2 → runFn (sriM yields it) env SB = .error (.exc .ValueError) := by
    intro hl
    have s0 := len_check yields it env xs h1
    rw [if_neg hl] at s0
    apply runFn_err
    show execBlock _ env (drop SB 0) = _
    refine step_err rfl (e0.trans ?_)
    show execBlock _ env (drop TB 0) = _
    exact step_err rfl s0
  match xs, h1, bad with
  | [], _, bad => exact bad (by simp)
  | [_], _, bad => exact bad (by simp)
  | _ :: _ :: _ :: _, _, bad => exact bad (by simp)
  | [g, sz], h1, _ =>
    have hb := tuple_branch yields it env g sz h1
    show runFn _ env SB = if isGenV yields (.sc g) && sizeOk (.sc sz) then _ else _
    by_cases hk : (isGenV yields (.sc g) && sizeOk (.sc sz)) = true
    · rw [if_pos hk] at hb ⊢
      apply runFn_next
      show execBlock _ env (drop SB 0) = _
      rw [step_next rfl (e0.trans hb)]
      exact sri_tail_run yields it _ tv (by simp [tupleEnv, set_get, h2])
    · rw [if_neg hk] at hb ⊢
      apply runFn_err
      show execBlock _ env (drop SB 0) = _
      exact step_err rfl (e0.trans hb)

/-- what `SendRequest.__init__` leaves for `bytes` -/
def sriBytesEnv (it : Nat) (b : Bytes) (tv : PV) (env : Env) : Env :=
  sriTail tv (env.set "self.generator" (fbgObj (.py (.other it)) (.py (.int b.length))))

/-- **`SendRequest.__init__(bytes, tat)`**: never raises; the request holds `FiniteByteGenerator((x for x in data), len(data))` -/
theorem send_request_init_bytes (env : Env) (b : Bytes) (tv : PV) (hy : yields it = some b) (h1 : env "data" = some (.bytes b))
    (h2 : env "target_address_type" = some tv) :
    runFn (sriM yields it) env Src.TransportLayerLogic_SendRequest_init = .ok (pnone, sriBytesEnv it b tv env) := by
  have hc := eval_is_tuple yields it env _ h1
  have hi := eval_is_iterable yields it env _ h1
  have hit : eval (sriM yields it) env (.call "__iter__" (.cons (.var "data") .nil)) = .ok (.sc (.py (.other it))) := by
    rw [eval_call _ _ "__iter__" _ [.bytes b] (by decide) (args1 _ _ _ _ (eval_var _ _ _ _ h1)), sriM_iter yields it b env hy]
  have hlen : eval (sriM yields it) env (.call "len" (.cons (.var "data") .nil)) = .ok (pint b.length) := by
    simp [eval, evalArgs, h1, builtin_len_bytes]
  have hok : (isGenV yields (.sc (.py (.other it))) && sizeOk (pint b.length)) = true := by
    simp [isGenV, hy, sizeOk, Sc.isInt, Sc.intVal, PyVal.isInt, PyVal.intVal]
  have hg : eval (sriM yields it) env (.call "FiniteByteGenerator"
      (.cons (.call "__iter__" (.cons (.var "data") .nil)) (.cons (.call "len" (.cons (.var "data") .nil)) .nil))) =
      .ok (fbgObj (.py (.other it)) (.py (.int b.length))) := by
    rw [eval_call _ _ "FiniteByteGenerator" _ [.sc (.py (.other it)), pint b.length] (by decide) (args2 _ _ _ _ _ _ hit hlen),
      sriM_fbg, fbgNew_eq, if_pos hok]
  have ib : execBlock (sriM yields it) env IB =
      .ok (.next (env.set "self.generator" (fbgObj (.py (.other it)) (.py (.int b.length))))) := by
    show execBlock _ env (drop IB 0) = _
    have a0 : execStmt (sriM yields it) env (nth IB 0) = .ok (.next env) := by
      have := exec_assign (sriM yields it) env "data" (.var "data") _ (eval_var _ _ _ _ h1)
      rwa [set_same env _ _ h1] at this
    rw [step_next rfl a0, step_next (b := IB) (n := 1) rfl (exec_assign _ _ "self.generator" _ _ hg)]
    rfl
  have e0 : execStmt (sriM yields it) env (nth SB 0) =
      .ok (.next (env.set "self.generator" (fbgObj (.py (.other it)) (.py (.int b.length))))) := by
    rw [s0_shape, Thr.exec_ite _ _ _ _ _ _ hc]
    show execBlock _ env (.cons ES .nil) = _
    simp only [execBlock]
    rw [es_shape, Thr.exec_ite _ _ _ _ _ _ hi]
    show (execBlock _ env IB >>= _) = _
    rw [ib]; rfl
  apply runFn_next
  show execBlock _ env (drop SB 0) = _
  rw [step_next rfl e0]
  exact sri_tail_run yields it _ tv (by simp [set_get, h2])

/-- **anything that is neither a tuple nor an `Iterable`: `ValueError`** -/
theorem send_request_init_other (env : Env) (dv : PV) (h1 : env "data" = some dv) (ht : isTupleV dv = false)
    (hi : isIterV dv = false) :
    runFn (sriM yields it) env Src.TransportLayerLogic_SendRequest_init = .error (.exc .ValueError) := by
  have hc := eval_is_tuple yields it env _ h1
  have hi' := eval_is_iterable yields it env _ h1
  rw [ht] at hc; rw [hi] at hi'
  apply runFn_err
  show execBlock _ env (drop SB 0) = _
  refine step_err rfl ?_
  rw [s0_shape, Thr.exec_ite _ _ _ _ _ _ hc]
  show execBlock _ env (.cons ES .nil) = _
  simp only [execBlock]
  rw [es_shape, Thr.exec_ite _ _ _ _ _ _ hi']
  simp [execBlock, execStmt]

end sri


/-- the three shapes of `data` at once -/
def sriSpec (yields : Nat → Option Bytes) (it : Nat) (dv tv : PV) (env : Env) : Except PErr (PV × Env) :=
  match dv with
  | .list xs => tupleSpec yields xs tv env
  | .bytes b => .ok (pnone, sriBytesEnv it b tv env)
  | _ => .error (.exc .ValueError)

/-- **`SendRequest.__init__(data, target_address_type)`** for every payload of the presentation: a tuple (any length, any items),
    `bytes` (the generator expression's object `it` yields them: `hy`), or a value that is neither a tuple nor iterable -/
theorem send_request_init_agrees (yields : Nat → Option Bytes) (it : Nat) (env : Env) (dv tv : PV) (h1 : env "data" = some dv)
    (h2 : env "target_address_type" = some tv) (hy : ∀ b, dv = .bytes b → yields it = some b) :
    runFn (sriM yields it) env Src.TransportLayerLogic_SendRequest_init = sriSpec yields it dv tv env := by
  cases dv with
  | list xs => exact send_request_init_tuple yields it env xs tv h1 h2
  | bytes b => exact send_request_init_bytes yields it env b tv (hy b rfl) h1 h2
  | sc x => exact send_request_init_other yields it env _ h1 rfl rfl
  | str x => exact send_request_init_other yields it env _ h1 rfl rfl
  | meth x => exact send_request_init_other yields it env _ h1 rfl rfl

/-- the attributes of the constructed request, explicitly -/
theorem sriTail_lookups (tv : PV) (env : Env) :
    sriTail tv env "self.consumed_size" = some (pint 0) ∧ sriTail tv env "self.target_address_type" = some tv ∧
    sriTail tv env "self.complete_event" = some (.meth "Event") ∧ sriTail tv env "self.success" = some (pbool false) ∧
    sriTail tv env "self.generator" = env "self.generator" := by
  simp [sriTail, set_get]

/-! ### the model's `Req`

  `State.send` (Process.lean) enqueues `{ id, size, src, tat, instr }` with `consumed := 0`, `depletedFlag := false` (`Send.newReq`,
  LayerSend.lean).  `id` (the identity the harness gives the request) and `instr` (is the generator instrumented by the harness) are
  not attributes of the Python object: they are parameters of the decoding. -/

/-- the model request the constructed object shows -/
def reqOf (yields : Nat → Option Bytes) (id : Nat) (instr : Bool) (tat : Tat) (env : Env) : Option Req :=
  match env "self.generator", env "self.target_address_type" with
  | some (.list [.py (.other t), .py (.int sz), .py (.int c), .py (.bool d)]), some tv =>
    if tv = tatPV tat then
      (yields t).map fun src => { id := id, size := sz.toNat, src := src, consumed := c.toNat, depletedFlag := d, tat := tat, instr := instr }
    else none
  | _, _ => none

/-- **`bytes` payload: the constructed request is the model's `newReq`** (`a.size = len(data)`, `a.src = data`) -/
theorem send_request_init_bytes_is_newReq (yields : Nat → Option Bytes) (it : Nat) (s : State) (a : State.SendArgs) (env : Env)
    (hy : yields it = some a.src) (hsz : a.size = a.src.length) :
    reqOf yields a.id a.instr (tatOf s a) (sriBytesEnv it a.src (tatPV (tatOf s a)) env) = some (newReq s a) := by
  simp [reqOf, sriBytesEnv, sriTail, fbgObj, set_get, hy, newReq, hsz]

/-- **`(generator, size)` payload: the constructed request is the model's `newReq`** (the generator object `t` yields `a.src`) -/
theorem send_request_init_tuple_is_newReq (yields : Nat → Option Bytes) (t : Nat) (s : State) (a : State.SendArgs) (env : Env)
    (hy : yields t = some a.src) :
    reqOf yields a.id a.instr (tatOf s a) (sriTupleEnv (.py (.other t)) (.py (.int a.size)) (tatPV (tatOf s a)) env) =
      some (newReq s a) := by
  simp [reqOf, sriTupleEnv, tupleEnv, sriTail, fbgObj, set_get, hy, newReq]

/-- ... and it is accepted exactly when the model's first check passes (`a.size < 0 → ValueError`) -/
theorem send_request_init_tuple_accepts (yields : Nat → Option Bytes) (t : Nat) (a : State.SendArgs) (hy : yields t = some a.src) :
    (isGenV yields (.sc (.py (.other t))) && sizeOk (.sc (.py (.int a.size)))) = decide (0 ≤ a.size) := by
  by_cases h : 0 ≤ a.size <;> simp [isGenV, hy, sizeOk, Sc.isInt, Sc.intVal, PyVal.isInt, PyVal.intVal, h]

/-! ## 3. `TransportLayer.__init__` (isotp/protocol.py) = `TL.init`

  ```
  self.rx_relay_queue = queue.Queue(); self.started = False; self.main_thread = None; self.relay_thread = None
  self.default_read_timeout = read_timeout; self.events = self.Events(); self.user_rxfn = rxfn
  def post_send_callback(...): ...
  TransportLayerLogic.__init__(self, rxfn, txfn, address, error_handler, params, post_send_callback)
  self.user_rxfn = self.rxfn
  ```
  ASSUMPTIONS (`tlInitM`): `queue.Queue()` is the empty queue `[]`; `self.Events()` is an object holding seven fresh (cleared)
  `threading.Event`s (`eventsObj`); the nested `def` is the function object `post_send_callback`; the BASE CONSTRUCTOR is a `proc` that
  * refuses (interpreter error) any argument list other than the expected one `exp` - so a successful run PROVES the arguments,
  * counts its calls under the history key `#base_init.calls`,
  * and otherwise does `base : Env → Env` to the object (sections 1 / D of this file and of LayerSend.lean say what that is), of which
    the wrapper's constructor only reads `self.rxfn` afterwards (the `rxfn` as normalised by the logic layer). -/

/-- a fresh `TransportLayer.Events()`: seven cleared flags -/
def eventsObj : PV := .list (List.replicate 7 (.py (.bool false)))

/-- how often the base constructor has run on this object -/
def callsOf (env : Env) : Int :=
  match env "#base_init.calls" with
  | some (.sc (.py (.int n))) => n
  | _ => 0

def tlInitM (exp : List PV) (base : Env → Env) : Meths where
  fn := fun name args _ =>
    match name, args with
    | "queue.Queue", [] => .ok (.list [])
    | "self.Events", [] => .ok eventsObj
    | "__function__", [.str s] => .ok (.meth s)
    | n, _ => .error (.unsupported ("call " ++ n))
  proc := fun name args env =>
    match name with
    | "TransportLayerLogic.__init__" =>
      if args = exp then .ok ((base env).set "#base_init.calls" (pint (callsOf env + 1)))
      else .error (.unsupported "base constructor called with other arguments")
    | n => .error (.unsupported ("call " ++ n))

theorem tlInitM_base (exp : List PV) (base : Env → Env) (args : List PV) (env : Env) :
    (tlInitM exp base).proc "TransportLayerLogic.__init__" args env =
      if args = exp then .ok ((base env).set "#base_init.calls" (pint (callsOf env + 1)))
      else .error (.unsupported "base constructor called with other arguments") := rfl

/-- the arguments of `TransportLayer.__init__` (and `self`) -/
structure TlArgs (sv rx tx ad eh pr rt : PV) (env : Env) : Prop where
  self : env "self" = some sv
  rxfn : env "rxfn" = some rx
  txfn : env "txfn" = some tx
  address : env "address" = some ad
  eh : env "error_handler" = some eh
  params : env "params" = some pr
  rt : env "read_timeout" = some rt

/-- the object before the base constructor is called -/
def tlPre (rx rt : PV) (env : Env) : Env :=
  (((((((env.set "self.rx_relay_queue" (.list [])).set "self.started" (pbool false)).set "self.main_thread" pnone).set
    "self.relay_thread" pnone).set "self.default_read_timeout" rt).set "self.events" eventsObj).set "self.user_rxfn" rx).set
    "post_send_callback" (.meth "post_send_callback")

/-- what `TransportLayer.__init__` leaves (`rx'` = `self.rxfn` as the base constructor left it) -/
def tlInitEnv (base : Env → Env) (rx rx' rt : PV) (env : Env) : Env :=
  ((base (tlPre rx rt env)).set "#base_init.calls" (pint (callsOf env + 1))).set "self.user_rxfn" rx'

/-- the argument list the base constructor must be called with -/
def baseArgs (sv rx tx ad eh pr : PV) : List PV := [sv, rx, tx, ad, eh, pr, .meth "post_send_callback"]

theorem callsOf_tlPre (rx rt : PV) (env : Env) : callsOf (tlPre rx rt env) = callsOf env := by
  simp [callsOf, tlPre, set_get]

abbrev TLB : PBlock := Src.TransportLayer_init

/-- the eight statements before the base constructor -/
theorem tl_prefix_run (exp : List PV) (base : Env → Env) (sv rx tx ad eh pr rt : PV) (env : Env)
    (hA : TlArgs sv rx tx ad eh pr rt env) :
    execBlock (tlInitM exp base) env TLB = execBlock (tlInitM exp base) (tlPre rx rt env) (drop TLB 8) := by
  show execBlock _ env (drop TLB 0) = _
  rw [step_next (b := TLB) (n := 0) rfl (exec_assign _ _ "self.rx_relay_queue" _ (.list [])
    (by rw [eval_call _ _ "queue.Queue" _ [] (by decide) rfl]; rfl))]
  rw [step_next (b := TLB) (n := 1) rfl (exec_assign _ _ "self.started" .ff (pbool false) (by simp [eval]))]
  rw [step_next (b := TLB) (n := 2) rfl (exec_assign _ _ "self.main_thread" .none pnone (by simp [eval]))]
  rw [step_next (b := TLB) (n := 3) rfl (exec_assign _ _ "self.relay_thread" .none pnone (by simp [eval]))]
  rw [step_next (b := TLB) (n := 4) rfl (exec_assign _ _ "self.default_read_timeout" _ rt
    (eval_var _ _ _ _ (by simp [set_get, hA.rt])))]
  rw [step_next (b := TLB) (n := 5) rfl (exec_assign _ _ "self.events" _ eventsObj
    (by rw [eval_call _ _ "self.Events" _ [] (by decide) rfl]; rfl))]
  rw [step_next (b := TLB) (n := 6) rfl (exec_assign _ _ "self.user_rxfn" _ rx
    (eval_var _ _ _ _ (by simp [set_get, hA.rxfn])))]
  rw [step_next (b := TLB) (n := 7) rfl (exec_assign _ _ "post_send_callback" _ (.meth "post_send_callback")
    (by rw [eval_call _ _ "__function__" _ [.str "post_send_callback"] (by decide) (by simp [evalArgs, eval])]; rfl))]
  rfl

/-- the arguments the source passes to the base constructor -/
theorem tl_base_args (M : Meths) (sv rx tx ad eh pr rt : PV) (env : Env) (hA : TlArgs sv rx tx ad eh pr rt env) :
    evalArgs M (tlPre rx rt env) (.cons (.var "self") (.cons (.var "rxfn") (.cons (.var "txfn") (.cons (.var "address")
      (.cons (.var "error_handler") (.cons (.var "params") (.cons (.var "post_send_callback") .nil))))))) =
      .ok (baseArgs sv rx tx ad eh pr) := by
  simp [evalArgs, eval, tlPre, set_get, hA.self, hA.rxfn, hA.txfn, hA.address, hA.eh, hA.params, baseArgs]

/-- **`TransportLayer.__init__`**, for EVERY expected argument list `exp`: the run succeeds exactly when the base constructor is handed
    `(self, rxfn, txfn, address, error_handler, params, post_send_callback)` - the same arguments, in this order, plus the wake-up
    callback; it is then called once (`transport_layer_init_calls_once`) on an object that already has `started = False`, no threads, an
    empty relay queue and fresh events (`tlPre`), and finally `user_rxfn` is the `rxfn` the logic layer kept -/
theorem transport_layer_init_agrees (exp : List PV) (base : Env → Env) (sv rx rx' tx ad eh pr rt : PV) (env : Env)
    (hA : TlArgs sv rx tx ad eh pr rt env) (hrx : ∀ e, base e "self.rxfn" = some rx') :
    runFn (tlInitM exp base) env Src.TransportLayer_init =
      if baseArgs sv rx tx ad eh pr = exp then .ok (pnone, tlInitEnv base rx rx' rt env)
      else .error (.unsupported "base constructor called with other arguments") := by
  have hargs := tl_base_args (tlInitM exp base) sv rx tx ad eh pr rt env hA
  have hp := tlInitM_base exp base (baseArgs sv rx tx ad eh pr) (tlPre rx rt env)
  by_cases he : baseArgs sv rx tx ad eh pr = exp
  · rw [if_pos he] at hp ⊢
    rw [callsOf_tlPre] at hp
    apply runFn_next
    rw [tl_prefix_run exp base sv rx tx ad eh pr rt env hA]
    rw [step_next (b := TLB) (n := 8) rfl (exec_proc _ _ _ "TransportLayerLogic.__init__" _ _ (by decide) hargs hp)]
    rw [step_next (b := TLB) (n := 9) rfl (exec_assign _ _ "self.user_rxfn" _ rx'
      (eval_var _ _ _ _ (by simp [set_get, hrx])))]
    rfl
  · rw [if_neg he] at hp ⊢
    apply runFn_err
    rw [tl_prefix_run exp base sv rx tx ad eh pr rt env hA]
    exact step_err (b := TLB) (n := 8) rfl (exec_proc_err _ _ "TransportLayerLogic.__init__" _ _ _ (by decide) hargs hp)

/-- the base constructor has run exactly once more than before (once on a new object) -/
theorem transport_layer_init_calls_once (base : Env → Env) (rx rx' rt : PV) (env : Env) :
    tlInitEnv base rx rx' rt env "#base_init.calls" = some (pint (callsOf env + 1)) ∧
    callsOf (tlInitEnv base rx rx' rt env) = callsOf env + 1 := by
  simp [tlInitEnv, callsOf, set_get]


/-! ### the constructed wrapper is the model's `TL.init`

  Threaded.lean shows a wrapper state `t : TL` by `Thr.ShowsW env t`, in which the relay queue and the seven events appear under
  history keys (`#relay_queue`, `#ev.*`).  The constructor stores OBJECTS (`self.rx_relay_queue = queue.Queue()`,
  `self.events = self.Events()`) and the flat interpreter cannot bind `x.attr` on `x = obj`: `wrapView` reads those keys off the two
  objects (a function of the environment, as the adapters of LayerWhole.lean).  The remaining hypotheses are about things the
  constructor does not create: the bound methods of the class, no thread of this object alive, nothing on the bus yet. -/

/-- the content of a queue object -/
def qv : Option PV → PV
  | some v => v
  | none => pnone

/-- the `i`-th flag of an `Events` object -/
def evFlag (o : Option PV) (i : Nat) : PV :=
  match o with
  | some (.list xs) => (match xs[i]? with | some x => .sc x | none => pnone)
  | _ => pnone

def wrapView (env : Env) : Env :=
  (((((((env.set "#relay_queue" (qv (env "self.rx_relay_queue"))).set "#ev.main_thread_ready" (evFlag (env "self.events") 0)).set
    "#ev.relay_thread_ready" (evFlag (env "self.events") 1)).set "#ev.stop_requested" (evFlag (env "self.events") 2)).set
    "#ev.reset_tx" (evFlag (env "self.events") 3)).set "#ev.reset_rx" (evFlag (env "self.events") 4)).set
    "#ev.reset_tx_complete" (evFlag (env "self.events") 5)).set "#ev.reset_rx_complete" (evFlag (env "self.events") 6)

/-- what exists before the constructor runs -/
structure TlWorld (env : Env) : Prop where
  mainA : env "#alive.main" = some (pbool false)
  relayA : env "#alive.relay" = some (pbool false)
  bus : env "#bus" = some (.list [])
  cRelayFn : env "self._read_relay_queue" = some (Thr.rxfnPV true)
  cMainT : env "self._main_thread_fn" = some (.meth "self._main_thread_fn")
  cRelayT : env "self._relay_thread_fn" = some (.meth "self._relay_thread_fn")

/-- the keys of the wrapper the base constructor must leave alone (it is the constructor of the LOGIC layer; `self.rxfn` is the one
    attribute of `Thr.wrapperKeys` it does write) -/
def tlFrameKeys : List String :=
  ["self.started", "self.main_thread", "self.relay_thread", "#alive.main", "#alive.relay", "#bus", "self._read_relay_queue",
   "self._main_thread_fn", "self._relay_thread_fn", "self.default_read_timeout", "self.rx_relay_queue", "self.events"]

/-- **the constructed wrapper shows `TL.init c a`** (wrapper part: `Thr.ShowsW`): not started, no threads, empty relay queue, all
    seven events clear, the user's `rxfn` installed (`rxfnIsRelay = false`), nothing on the bus.  `rxfn` is the user's function object
    (the name `self.user_rxfn` stands for it in Threaded.lean) and the base constructor kept it (a blocking `rxfn(timeout)`: the legacy
    parameterless form is wrapped by a lambda and is outside this presentation); `read_timeout` is a number. -/
theorem transport_layer_init_shows (c : Cfg) (a : Addr) (base : Env → Env) (d : Int) (env : Env) (hW : TlWorld env)
    (hbase : ∀ e k, k ∈ tlFrameKeys → base e k = e k) (hrx : ∀ e, base e "self.rxfn" = some (Thr.rxfnPV false)) :
    Thr.ShowsW (wrapView (tlInitEnv base (Thr.rxfnPV false) (Thr.rxfnPV false) (pint d) env)) (TL.init c a) := by
  have hb : ∀ k, k ∈ tlFrameKeys → tlInitEnv base (Thr.rxfnPV false) (Thr.rxfnPV false) (pint d) env k =
      tlPre (Thr.rxfnPV false) (pint d) env k := by
    intro k hk
    have h1 : k ≠ "self.user_rxfn" := by rintro rfl; simp [tlFrameKeys] at hk
    have h2 : k ≠ "#base_init.calls" := by rintro rfl; simp [tlFrameKeys] at hk
    simp only [tlInitEnv, set_get, h1, h2, if_false]
    exact hbase _ k hk
  have hq := hb "self.rx_relay_queue" (by decide)
  have he := hb "self.events" (by decide)
  have hr : tlInitEnv base (Thr.rxfnPV false) (Thr.rxfnPV false) (pint d) env "self.rxfn" = some (Thr.rxfnPV false) := by
    simp [tlInitEnv, set_get, hrx]
  constructor
  case cTimeout => exact ⟨d, by simp [wrapView, set_get, hb "self.default_read_timeout" (by decide), tlPre]⟩
  case rxfn => simp [wrapView, set_get, hr, TL.init]
  case cUserFn => simp [wrapView, set_get, tlInitEnv]
  case q => simp [wrapView, set_get, hq, tlPre, qv, TL.init, Thr.encQ]
  case e1 => simp [wrapView, set_get, he, tlPre, evFlag, eventsObj, TL.init]
  case e2 => simp [wrapView, set_get, he, tlPre, evFlag, eventsObj, TL.init]
  case e3 => simp [wrapView, set_get, he, tlPre, evFlag, eventsObj, TL.init]
  case e4 => simp [wrapView, set_get, he, tlPre, evFlag, eventsObj, TL.init]
  case e5 => simp [wrapView, set_get, he, tlPre, evFlag, eventsObj, TL.init]
  case e6 => simp [wrapView, set_get, he, tlPre, evFlag, eventsObj, TL.init]
  case e7 => simp [wrapView, set_get, he, tlPre, evFlag, eventsObj, TL.init]
  case started => simp [wrapView, set_get, hb "self.started" (by decide), tlPre, TL.init]
  case mainH => simp [wrapView, set_get, hb "self.main_thread" (by decide), tlPre, TL.init, Thr.handlePV]
  case relayH => simp [wrapView, set_get, hb "self.relay_thread" (by decide), tlPre, TL.init, Thr.handlePV]
  case mainA => simp [wrapView, set_get, hb "#alive.main" (by decide), tlPre, TL.init, Thr.isRunning, hW.mainA]
  case relayA => simp [wrapView, set_get, hb "#alive.relay" (by decide), tlPre, TL.init, Thr.isRunning, hW.relayA]
  case bus => simp [wrapView, set_get, hb "#bus" (by decide), tlPre, TL.init, Thr.encQ, hW.bus]
  case cRelayFn => simp [wrapView, set_get, hb "self._read_relay_queue" (by decide), tlPre, hW.cRelayFn]
  case cMainT => simp [wrapView, set_get, hb "self._main_thread_fn" (by decide), tlPre, hW.cMainT]
  case cRelayT => simp [wrapView, set_get, hb "self._relay_thread_fn" (by decide), tlPre, hW.cRelayT]

/-- with any relation `R` showing the logic layer (the base constructor's result, sections 1 / D): `Thr.Shows R _ (TL.init c a)` -/
theorem transport_layer_init_shows_all (R : Env → State → Prop) (c : Cfg) (a : Addr) (base : Env → Env) (d : Int) (env : Env)
    (hW : TlWorld env) (hbase : ∀ e k, k ∈ tlFrameKeys → base e k = e k) (hrx : ∀ e, base e "self.rxfn" = some (Thr.rxfnPV false))
    (hR : R (wrapView (tlInitEnv base (Thr.rxfnPV false) (Thr.rxfnPV false) (pint d) env)) (State.init c a)) :
    Thr.Shows R (wrapView (tlInitEnv base (Thr.rxfnPV false) (Thr.rxfnPV false) (pint d) env)) (TL.init c a) :=
  ⟨transport_layer_init_shows c a base d env hW hbase hrx, hR⟩


/-! ## 1. the state-initialisation region of `TransportLayerLogic.__init__` = the receive / transmit fields of `State.init`

  `Src.TransportLayerLogic_init__state_init`: the 23 statements from `self.txfn = txfn` to `self.actual_rxdl = None`.
  CALLEES (`initM arg conv`), all but the queue constructor interpreted FROM THEIR SOURCES:
  * `self.set_address(address)` RUNS `Src.TransportLayerLogic_set_address` (LayerSend.lean: `set_address_agrees`, with its collaborators
    `setAddrMeths arg`, `arg : AddrArg` = what kind of address object was given) in its own frame; only the attribute it writes,
    `self.address`, is copied back (its locals `txid`, `rxid` do not leak);
  * `self._empty_rx_buffer()` RUNS `Src.TransportLayerLogic_p_empty_rx_buffer` (LayerRx.lean: `Rx.empty_rx_buffer_src`);
  * `Timer(timeout=0)` RUNS `Src.Timer_init` (section 4a) and yields the object as the value `[start_time, timeout_ns]`;
  * `queue.Queue()` is the empty queue `[]` (ASSUMPTION: an unbounded FIFO, as in LayerSend.lean / LayerTxWhole.lean).
  The region READS its three arguments `txfn`, `address`, `error_handler`, the module constant `isotp.TargetAddressType.Physical`
  (through `set_address`) and the two class constants `self.RxState.IDLE`, `self.TxState.IDLE` (`InitArgs`); the environment is otherwise
  ARBITRARY (an unbound argument or constant would be an `AttributeError`, as `NameError` / `AttributeError` in Python). -/

/-- `Timer(timeout=0)` as a value: stopped, timeout 0 ns -/
def stminObj : PV := .list [.py .none, .py (.int 0)]

def initM (arg : AddrArg) (conv : Int → Nat → Int) : Meths where
  fn := fun name args _ =>
    match name, args with
    | "queue.Queue", [] => .ok (.list [])
    | "Timer#timeout", [v] => timerNew conv v
    | n, _ => .error (.unsupported ("call " ++ n))
  proc := fun name args env =>
    match name, args with
    | "self.set_address", [v] =>
      (match runFn (setAddrMeths arg) (env.set "address" v) Src.TransportLayerLogic_set_address with
       | .ok (_, e) =>
         (match e "self.address" with
          | some x => .ok (env.set "self.address" x)
          | none => .error (.exc .AttributeError))
       | .error x => .error x)
    | "self._empty_rx_buffer", [] => envM (rxMethsOf 0 0 0 []) env Src.TransportLayerLogic_p_empty_rx_buffer
    | n, _ => .error (.unsupported ("call " ++ n))

/-- what the region reads -/
structure InitArgs (tx eh : PV) (env : Env) : Prop where
  txfn : env "txfn" = some tx
  address : env "address" = some (.meth "address")
  eh : env "error_handler" = some eh
  phys : env "isotp.TargetAddressType.Physical" = some (tatPV .physical)
  rxIdle : env "self.RxState.IDLE" = some (rxStPV .idle)
  txIdle : env "self.TxState.IDLE" = some (Tx.txStPV .idle)

theorem initM_queue (arg : AddrArg) (conv : Int → Nat → Int) (env : Env) :
    (initM arg conv).fn "queue.Queue" [] env = .ok (.list []) := rfl

theorem initM_timer0 (arg : AddrArg) (conv : Int → Nat → Int) (env : Env) :
    (initM arg conv).fn "Timer#timeout" [pint 0] env = .ok stminObj := by
  show timerNew conv (pint 0) = _
  rw [timerNew_eq]; rfl

theorem initM_empty (arg : AddrArg) (conv : Int → Nat → Int) (env : Env) :
    (initM arg conv).proc "self._empty_rx_buffer" [] env = .ok (emptyBufEnv env) := by
  show envM (rxMethsOf 0 0 0 []) env Src.TransportLayerLogic_p_empty_rx_buffer = _
  rw [envM, Rx.empty_rx_buffer_src]; rfl

/-- `self.set_address(address)`: `ValueError` exactly when `set_address` raises (`setAddrSpec`); otherwise only `self.address` changes -/
theorem initM_set_address (arg : AddrArg) (conv : Int → Nat → Int) (env : Env)
    (hp : env "isotp.TargetAddressType.Physical" = some (tatPV .physical)) :
    (initM arg conv).proc "self.set_address" [.meth "address"] env =
      match setAddrSpec arg with
      | .ok _ => .ok (env.set "self.address" (.meth "address"))
      | .error _ => .error (.exc .ValueError) := by
  show (match runFn (setAddrMeths arg) (env.set "address" (.meth "address")) Src.TransportLayerLogic_set_address with
       | .ok (_, e) =>
         (match e "self.address" with
          | some x => (Except.ok (env.set "self.address" x) : Except PErr Env)
          | none => .error (.exc .AttributeError))
       | .error x => .error x) = _
  rw [set_address_agrees arg _ ⟨by simp [set_get], by simp [set_get, hp]⟩]
  cases setAddrSpec arg with
  | error e => rfl
  | ok ad => simp [setAddrEnv, set_get]

/-- the object after the region (`tx`, `eh` = the arguments `txfn`, `error_handler`) -/
def initEnv (tx eh : PV) (env : Env) : Env :=
  ((((((((((((((((((((((env.set "self.txfn" tx).set "self.address" (.meth "address")).set "self.tx_queue" (.list [])).set "self.rx_queue" (.list [])).set "self.tx_standby_msg" pnone).set "self.active_send_request" pnone).set "self.rx_state" (rxStPV .idle)).set "self.tx_state" (Tx.txStPV .idle)).set "self.last_rx_state" (rxStPV .idle)).set "self.last_tx_state" (Tx.txStPV .idle)).set "self.rx_block_counter" (pint 0)).set "self.last_seqnum" (pint 0)).set "self.rx_frame_length" (pint 0)).set "self.tx_frame_length" (pint 0)).set "self.last_flow_control_frame" pnone).set "self.tx_block_counter" (pint 0)).set "self.tx_seqnum" (pint 0)).set "self.wft_counter" (pint 0)).set "self.pending_flow_control_tx" (pbool false)).set "self.rx_buffer" (.bytes [])).set "self.timer_tx_stmin" stminObj).set "self.error_handler" eh).set "self.actual_rxdl" pnone

abbrev IBk : PBlock := Src.TransportLayerLogic_init__state_init

/-- **the region, for EVERY address argument and from ANY environment that binds what it reads**: `ValueError` exactly when
    `set_address` rejects the address (not an address object / a partial symmetric address: `setAddrSpec`, i.e. the model's `mkSym`);
    otherwise it ends normally in `initEnv` -/
theorem state_init_agrees (arg : AddrArg) (conv : Int → Nat → Int) (tx eh : PV) (env : Env) (hA : InitArgs tx eh env) :
    runFn (initM arg conv) env Src.TransportLayerLogic_init__state_init =
      match setAddrSpec arg with
      | .ok _ => .ok (pnone, initEnv tx eh env)
      | .error _ => .error (.exc .ValueError) := by
  have s0 : execStmt (initM arg conv) env (nth IBk 0) = .ok (.next (env.set "self.txfn" tx)) :=
    exec_assign _ _ "self.txfn" _ tx (eval_var _ _ _ _ hA.txfn)
  have hsa := initM_set_address arg conv (env.set "self.txfn" tx) (by simp [set_get, hA.phys])
  have ha : evalArgs (initM arg conv) (env.set "self.txfn" tx) (.cons (.var "address") .nil) = .ok [.meth "address"] :=
    args1 _ _ _ _ (eval_var _ _ _ _ (by simp [set_get, hA.address]))
  cases hs : setAddrSpec arg with
  | error e =>
    rw [hs] at hsa
    apply runFn_err
    show execBlock _ env (drop IBk 0) = _
    rw [step_next rfl s0]
    exact step_err (b := IBk) (n := 1) rfl (exec_proc_err _ _ "self.set_address" _ _ _ (by decide) ha hsa)
  | ok ad =>
    rw [hs] at hsa
    apply runFn_next
    show execBlock _ env (drop IBk 0) = _
    rw [step_next rfl s0]
    rw [step_next (b := IBk) (n := 1) rfl (exec_proc _ _ _ "self.set_address" _ _ (by decide) ha hsa)]
    rw [step_next (b := IBk) (n := 2) rfl (exec_assign _ _ "self.tx_queue" _ (.list []) (by rw [eval_call _ _ "queue.Queue" _ [] (by decide) rfl]; rfl))]
    rw [step_next (b := IBk) (n := 3) rfl (exec_assign _ _ "self.rx_queue" _ (.list []) (by rw [eval_call _ _ "queue.Queue" _ [] (by decide) rfl]; rfl))]
    rw [step_next (b := IBk) (n := 4) rfl (exec_assign _ _ "self.tx_standby_msg" _ pnone (by simp [eval]))]
    rw [step_next (b := IBk) (n := 5) rfl (exec_assign _ _ "self.active_send_request" _ pnone (by simp [eval]))]
    rw [step_next (b := IBk) (n := 6) rfl (exec_assign _ _ "self.rx_state" _ (rxStPV .idle) (eval_var _ _ _ _ (by simp [set_get, hA.rxIdle])))]
    rw [step_next (b := IBk) (n := 7) rfl (exec_assign _ _ "self.tx_state" _ (Tx.txStPV .idle) (eval_var _ _ _ _ (by simp [set_get, hA.txIdle])))]
    rw [step_next (b := IBk) (n := 8) rfl (exec_assign _ _ "self.last_rx_state" _ (rxStPV .idle) (eval_var _ _ _ _ (by simp [set_get])))]
    rw [step_next (b := IBk) (n := 9) rfl (exec_assign _ _ "self.last_tx_state" _ (Tx.txStPV .idle) (eval_var _ _ _ _ (by simp [set_get])))]
    rw [step_next (b := IBk) (n := 10) rfl (exec_assign _ _ "self.rx_block_counter" _ (pint 0) (by simp [eval]))]
    rw [step_next (b := IBk) (n := 11) rfl (exec_assign _ _ "self.last_seqnum" _ (pint 0) (by simp [eval]))]
    rw [step_next (b := IBk) (n := 12) rfl (exec_assign _ _ "self.rx_frame_length" _ (pint 0) (by simp [eval]))]
    rw [step_next (b := IBk) (n := 13) rfl (exec_assign _ _ "self.tx_frame_length" _ (pint 0) (by simp [eval]))]
    rw [step_next (b := IBk) (n := 14) rfl (exec_assign _ _ "self.last_flow_control_frame" _ pnone (by simp [eval]))]
    rw [step_next (b := IBk) (n := 15) rfl (exec_assign _ _ "self.tx_block_counter" _ (pint 0) (by simp [eval]))]
    rw [step_next (b := IBk) (n := 16) rfl (exec_assign _ _ "self.tx_seqnum" _ (pint 0) (by simp [eval]))]
    rw [step_next (b := IBk) (n := 17) rfl (exec_assign _ _ "self.wft_counter" _ (pint 0) (by simp [eval]))]
    rw [step_next (b := IBk) (n := 18) rfl (exec_assign _ _ "self.pending_flow_control_tx" _ (pbool false) (by simp [eval]))]
    rw [step_next (b := IBk) (n := 19) rfl (exec_proc _ _ _ "self._empty_rx_buffer" _ [] (by decide) rfl (initM_empty arg conv _))]
    rw [step_next (b := IBk) (n := 20) rfl (exec_assign _ _ "self.timer_tx_stmin" _ stminObj
      (by rw [eval_call _ _ "Timer#timeout" _ [pint 0] (by decide) (by simp [evalArgs, eval])]; exact initM_timer0 arg conv _))]
    rw [step_next (b := IBk) (n := 21) rfl (exec_assign _ _ "self.error_handler" _ eh
      (eval_var _ _ _ _ (by simp [emptyBufEnv, set_get, hA.eh])))]
    rw [step_next (b := IBk) (n := 22) rfl (exec_assign _ _ "self.actual_rxdl" .none pnone (by simp [eval]))]
    rfl


/-- the keys the region writes -/
def initKeys : List String :=
  ["self.txfn", "self.address", "self.tx_queue", "self.rx_queue", "self.tx_standby_msg", "self.active_send_request", "self.rx_state",
   "self.tx_state", "self.last_rx_state", "self.last_tx_state", "self.rx_block_counter", "self.last_seqnum", "self.rx_frame_length",
   "self.tx_frame_length", "self.last_flow_control_frame", "self.tx_block_counter", "self.tx_seqnum", "self.wft_counter",
   "self.pending_flow_control_tx", "self.rx_buffer", "self.timer_tx_stmin", "self.error_handler", "self.actual_rxdl"]

/-- frame: nothing else is written - in particular `self.remote_blocksize` (set to `None` BEFORE the region) keeps its value, and
    `self.pending_flowcontrol_status` is NOT created (the model's `pendingFcStatus := none`: absent until the first request) -/
theorem initEnv_frame (tx eh : PV) (env : Env) (k : String) (hk : k ∉ initKeys) : initEnv tx eh env k = env k := by
  simp only [initKeys, List.mem_cons, List.not_mem_nil, or_false, not_or] at hk
  simp [initEnv, set_get, hk]

theorem initEnv_remote_blocksize (tx eh : PV) (env : Env) :
    initEnv tx eh env "self.remote_blocksize" = env "self.remote_blocksize" := initEnv_frame tx eh env _ (by decide)

theorem initEnv_no_pending_status (tx eh : PV) (env : Env) (h : env "self.pending_flowcontrol_status" = none) :
    initEnv tx eh env "self.pending_flowcontrol_status" = none := by
  rw [initEnv_frame tx eh env _ (by decide), h]

/-- **the explicit lookups**: every receive / transmit attribute the region creates has the value of the corresponding field of
    `State.init c a` (for every `c`, `a`: none of these fields depends on them) -/
theorem initEnv_lookups (c : Cfg) (a : Addr) (tx eh : PV) (env : Env) :
    initEnv tx eh env "self.rx_state" = some (rxStPV (State.init c a).rxState) ∧
    initEnv tx eh env "self.tx_state" = some (Tx.txStPV (State.init c a).txState) ∧
    initEnv tx eh env "self.tx_queue" = some (.list []) ∧ (State.init c a).txQueue = [] ∧
    initEnv tx eh env "self.rx_queue" = some (.list []) ∧ (State.init c a).rxQueue = [] ∧
    initEnv tx eh env "self.tx_standby_msg" = some (Tx.optMsgPV (State.init c a).standby) ∧
    initEnv tx eh env "self.active_send_request" = some (Tx.objPV "req" (State.init c a).active.isSome) ∧
    initEnv tx eh env "self.rx_block_counter" = some (pint (State.init c a).rxBlockCnt) ∧
    initEnv tx eh env "self.last_seqnum" = some (pint (State.init c a).lastSeq) ∧
    initEnv tx eh env "self.rx_frame_length" = some (pint (State.init c a).rxFrameLen) ∧
    initEnv tx eh env "self.tx_frame_length" = some (pint (State.init c a).txFrameLen) ∧
    initEnv tx eh env "self.last_flow_control_frame" = some (Tx.optFcPV (State.init c a).lastFc) ∧
    initEnv tx eh env "self.tx_block_counter" = some (pint (State.init c a).txBlockCnt) ∧
    initEnv tx eh env "self.tx_seqnum" = some (pint (State.init c a).txSeq) ∧
    initEnv tx eh env "self.wft_counter" = some (pint (State.init c a).wftCnt) ∧
    initEnv tx eh env "self.pending_flow_control_tx" = some (pbool (State.init c a).pendingFc) ∧
    initEnv tx eh env "self.rx_buffer" = some (.bytes (State.init c a).rxBuf) ∧
    initEnv tx eh env "self.actual_rxdl" = some (optPV (State.init c a).actualRxdl) ∧
    initEnv tx eh env "self.timer_tx_stmin" =
      some (.list [.py .none, .py (.int (State.init c a).timerStmin.timeout)]) ∧ (State.init c a).timerStmin.start = none ∧
    initEnv tx eh env "self.last_rx_state" = some (rxStPV .idle) ∧ initEnv tx eh env "self.last_tx_state" = some (Tx.txStPV .idle) ∧
    initEnv tx eh env "self.txfn" = some tx ∧ initEnv tx eh env "self.error_handler" = some eh ∧
    initEnv tx eh env "self.address" = some (.meth "address") := by
  simp [initEnv, set_get, State.init, Tx.optMsgPV, Tx.objPV, Tx.optFcPV, optPV, stminObj]

/-! ### the presentation the step theorems expect

  `process_rx_agrees` (LayerRx.lean) reads the object through `Rx.Rep` / `Rx.Consts`, `process_tx_agrees` (LayerTx.lean /
  LayerTxWhole.lean) through `Tx.Rep` and the history key `#tx_queue`; LayerWhole.lean's `RW` is the regrouping of exactly these fields
  (`TxOwn` + `RxOwn` + `Shared`; LayerInitWhole.lean derives `RW` from them - LayerSend.lean and LayerTxWhole.lean cannot be imported
  together, both define `Isotp.PyAgree.reqScs`).  Those presentations are FLAT: a timer appears as `X.start_time` / `X.timeout`, the
  two queues under `#tx_queue` / `#rx_queue`, the limiter as the value `#rl`; the constructor stores OBJECTS.  `present conv` is the
  adapter (a function of the environment only):
  * a queue object is its content;
  * a timer object `[start_time, t]`: `start_time` is the first component; `timeout` is `t` when the object was built by
    `Src.Timer_init` (integer nanoseconds, section 4a), and `conv n d` when it is LayerSend's `timerObj n d` (built by `load_params`
    from `n/d` SECONDS - there the constructor was not interpreted): the same float conversion parameter as in section 4a;
  * the limiter: the value of a limiter WITHOUT BURSTS whose flag is `self.rate_limiter.enabled` - what a limiter that was just
    constructed and then enabled / disabled is (`ratelimiter_init_agrees`, `ratelimiter_fresh_then_enable`, `_disable`; `load_params`
    does exactly that, LayerSend.lean section D). -/

def tStart : Option PV → PV
  | some (.list [a, _]) => .sc a
  | _ => .str "not a timer"

def tTimeout (conv : Int → Nat → Int) : Option PV → PV
  | some (.list [_, .py (.int i)]) => pint i
  | some (.list [_, .py (.float n d)]) => pint (conv n d)
  | _ => .str "not a timer"

def rlView : Option PV → PV
  | some (.sc (.py (.bool b))) => Tx.rlPV { enabled := b }
  | _ => .str "not a flag"

def present (conv : Int → Nat → Int) (env : Env) : Env :=
  ((((((((env.set "#tx_queue" (qv (env "self.tx_queue"))).set "#rx_queue" (qv (env "self.rx_queue"))).set
    "self.timer_tx_stmin.start_time" (tStart (env "self.timer_tx_stmin"))).set
    "self.timer_tx_stmin.timeout" (tTimeout conv (env "self.timer_tx_stmin"))).set
    "self.timer_rx_fc.start_time" (tStart (env "self.timer_rx_fc"))).set
    "self.timer_rx_fc.timeout" (tTimeout conv (env "self.timer_rx_fc"))).set
    "self.timer_rx_cf.start_time" (tStart (env "self.timer_rx_cf"))).set
    "self.timer_rx_cf.timeout" (tTimeout conv (env "self.timer_rx_cf"))).set
    "#rl" (rlView (env "self.rate_limiter.enabled"))

/-- the adapter is consistent: LayerSend's `timerObj n d` (the ARGUMENT `n/d` seconds of a `Timer(...)` call whose constructor was not
    interpreted) is viewed exactly as the object `Src.Timer_init` builds from that argument (section 4a) -/
theorem timerObj_view (conv : Int → Nat → Int) (n : Int) (d : Nat) :
    ∃ obj, timerNew conv (.sc (.py (.float n d))) = .ok obj ∧ tStart (some obj) = tStart (some (timerObj n d)) ∧
      tTimeout conv (some obj) = tTimeout conv (some (timerObj n d)) :=
  ⟨.list [.py .none, .py (.int (conv n d))], by rw [timerNew_eq]; rfl, rfl, rfl⟩

def presentKeys : List String :=
  ["#tx_queue", "#rx_queue", "self.timer_tx_stmin.start_time", "self.timer_tx_stmin.timeout", "self.timer_rx_fc.start_time",
   "self.timer_rx_fc.timeout", "self.timer_rx_cf.start_time", "self.timer_rx_cf.timeout", "#rl"]

theorem present_frame (conv : Int → Nat → Int) (env : Env) (k : String) (hk : k ∉ presentKeys) : present conv env k = env k := by
  simp only [presentKeys, List.mem_cons, List.not_mem_nil, or_false, not_or] at hk
  simp [present, set_get, hk]

/-- What exists when the region starts, for a configuration `c` (everything here is created BEFORE the region or is not an attribute):
    the class constants; `remote_blocksize = None`; no `pending_flowcontrol_status` yet; the validated `params` object showing `c`
    (`msFc` = `rx_flowcontrol_timeout` in ms, `br`, `win` = the two limiter parameters); empty histories (nothing has happened). -/
structure PreInit (c : Cfg) (msFc : Int) (br win : PV) (env : Env) : Prop where
  rxc : Rx.Consts env
  txc : Tx.ConstRep env
  remoteBs : env "self.remote_blocksize" = some pnone
  pfs : env "self.pending_flowcontrol_status" = none
  listen : env "self.params.listen_mode" = some (pbool c.listen)
  wftmax : env "self.params.wftmax" = some (pint c.wftmax)
  ovr : env "self.params.override_receiver_stmin" = some (Tx.nsPV c.overrideStminNs)
  txDl : env "self.params.tx_data_length" = some (pint c.txDl)
  txMinLen : env "self.params.tx_data_min_length" = some (optPV c.txMinLen)
  blocksize : env "self.params.blocksize" = some (pint c.blocksize)
  maxFrameSize : env "self.params.max_frame_size" = some (pint c.maxFrameSize)
  cf : env "self.params.rx_consecutive_frame_timeout" = some (pint (c.tCf / 1000000 : Nat))
  fc : env "self.params.rx_flowcontrol_timeout" = some (pint msFc)
  br : env "self.params.rate_limit_max_bitrate" = some br
  win : env "self.params.rate_limit_window_size" = some win
  en : env "self.params.rate_limit_enable" = some (pbool c.rlEnable)
  log : env "#log" = some (.list [])
  errors : env "#errors" = some (.list [])
  delivered : env "#delivered" = some (.list [])

/-- `PreInit` survives the region (it only writes `initKeys`) -/
theorem PreInit.loadEnv_of {c : Cfg} {msFc : Int} {br win : PV} {env : Env} (h : PreInit c msFc br win env) (tx eh : PV) :
    LoadEnv msFc (c.tCf / 1000000 : Nat) br win c.rlEnable (initEnv tx eh env) :=
  ⟨by rw [initEnv_frame _ _ _ _ (by decide)]; exact h.fc, by rw [initEnv_frame _ _ _ _ (by decide)]; exact h.cf,
   by rw [initEnv_frame _ _ _ _ (by decide)]; exact h.br, by rw [initEnv_frame _ _ _ _ (by decide)]; exact h.win,
   by rw [initEnv_frame _ _ _ _ (by decide)]; exact h.en⟩

/-- the object after the region and `load_params` -/
def ctorEnv (c : Cfg) (msFc : Int) (tx eh : PV) (env : Env) : Env :=
  loadEnv msFc (c.tCf / 1000000 : Nat) c.rlEnable (initEnv tx eh env)

section shows
variable (c : Cfg) (a : Addr) (conv : Int → Nat → Int) (msFc : Int) (br win tx eh : PV) (env : Env)

/-- the value of a key neither `load_params` nor the adapter touches -/
theorem ctor_other (k : String) (h1 : k ∉ presentKeys)
    (h2 : k ∉ ["self.timer_rx_fc", "self.timer_rx_cf", "self.rate_limiter", "self.rate_limiter.enabled"]) :
    present conv (ctorEnv c msFc tx eh env) k = initEnv tx eh env k := by
  rw [present_frame conv _ k h1]
  simp only [List.mem_cons, List.not_mem_nil, or_false, not_or] at h2
  simp [ctorEnv, loadEnv, set_get, h2]

/-- frame of the whole construction + view: every other key (`#ops`, `logging.DEBUG`, the parameters of a later `process` call, ...)
    is what it was before the constructor ran - the remaining hypotheses of LayerInitWhole's `init_RW` are about the starting
    environment -/
theorem ctor_other' (k : String) (h1 : k ∉ presentKeys)
    (h2 : k ∉ ["self.timer_rx_fc", "self.timer_rx_cf", "self.rate_limiter", "self.rate_limiter.enabled"]) (h3 : k ∉ initKeys) :
    present conv (ctorEnv c msFc tx eh env) k = env k := by
  rw [ctor_other c conv msFc tx eh env k h1 h2, initEnv_frame tx eh env k h3]

/-- **transmit side: `Tx.Rep`** -/
theorem ctor_txRep (hP : PreInit c msFc br win env) (hfc : conv msFc 1000 = (c.tFc : Int))
    (hcf : conv (c.tCf / 1000000 : Nat) 1000 = (c.tCf : Int)) :
    Tx.Rep (present conv (ctorEnv c msFc tx eh env)) (State.init c a) := by
  have L := initEnv_lookups c a tx eh env
  obtain ⟨l1, l2, l3, -, l4, -, l5, l6, l7, l8, l9, l10, l11, l12, l13, l14, l15, l16, l17, l18, -, -⟩ := L
  constructor
  case txState => rw [ctor_other c conv msFc tx eh env _ (by decide) (by decide)]; exact l2
  case txFrameLen => rw [ctor_other c conv msFc tx eh env _ (by decide) (by decide)]; exact l10
  case txSeq => rw [ctor_other c conv msFc tx eh env _ (by decide) (by decide)]; exact l13
  case txBlockCnt => rw [ctor_other c conv msFc tx eh env _ (by decide) (by decide)]; exact l12
  case remoteBs => rw [ctor_other' c conv msFc tx eh env _ (by decide) (by decide) (by decide)]; exact hP.remoteBs
  case wftCnt => rw [ctor_other c conv msFc tx eh env _ (by decide) (by decide)]; exact l14
  case pendingFc => rw [ctor_other c conv msFc tx eh env _ (by decide) (by decide)]; exact l15
  case listen => rw [ctor_other' c conv msFc tx eh env _ (by decide) (by decide) (by decide)]; exact hP.listen
  case wftmax => rw [ctor_other' c conv msFc tx eh env _ (by decide) (by decide) (by decide)]; exact hP.wftmax
  case ovr => rw [ctor_other' c conv msFc tx eh env _ (by decide) (by decide) (by decide)]; exact hP.ovr
  case txDl => rw [ctor_other' c conv msFc tx eh env _ (by decide) (by decide) (by decide)]; exact hP.txDl
  case txMinLen => rw [ctor_other' c conv msFc tx eh env _ (by decide) (by decide) (by decide)]; exact hP.txMinLen
  case standby => rw [ctor_other c conv msFc tx eh env _ (by decide) (by decide)]; exact l5
  case active => rw [ctor_other c conv msFc tx eh env _ (by decide) (by decide)]; exact l6
  case lastFc => rw [ctor_other c conv msFc tx eh env _ (by decide) (by decide)]; exact l11
  case fcStart => simp [present, ctorEnv, loadEnv, set_get, tStart, timerObj, State.init, optPV]
  case fcTo => simp [present, ctorEnv, loadEnv, set_get, tTimeout, timerObj, State.init, hfc]
  case stStart => simp [present, ctorEnv, loadEnv, set_get, tStart, l18, State.init, optPV]
  case stTo => simp [present, ctorEnv, loadEnv, set_get, tTimeout, l18, State.init]
  case cfStart => simp [present, ctorEnv, loadEnv, set_get, tStart, timerObj, State.init, optPV]
  case cfTo =>
    simp [present, ctorEnv, loadEnv, set_get, tTimeout, timerObj, State.init]
    simpa using hcf
  case log => rw [ctor_other' c conv msFc tx eh env _ (by decide) (by decide) (by decide)]; exact hP.log
  case rl => simp [present, ctorEnv, loadEnv, set_get, rlView, State.init]
  case pfs => rw [ctor_other' c conv msFc tx eh env _ (by decide) (by decide) (by decide)]; exact hP.pfs
  case req => intro r hr; simp [State.init] at hr
  case consts =>
    obtain ⟨c1, c2, c3, c4, c5, c6, c7, c8⟩ := hP.txc
    exact ⟨by rw [ctor_other' c conv msFc tx eh env _ (by decide) (by decide) (by decide)]; exact c1,
      by rw [ctor_other' c conv msFc tx eh env _ (by decide) (by decide) (by decide)]; exact c2,
      by rw [ctor_other' c conv msFc tx eh env _ (by decide) (by decide) (by decide)]; exact c3,
      by rw [ctor_other' c conv msFc tx eh env _ (by decide) (by decide) (by decide)]; exact c4,
      by rw [ctor_other' c conv msFc tx eh env _ (by decide) (by decide) (by decide)]; exact c5,
      by rw [ctor_other' c conv msFc tx eh env _ (by decide) (by decide) (by decide)]; exact c6,
      by rw [ctor_other' c conv msFc tx eh env _ (by decide) (by decide) (by decide)]; exact c7,
      by rw [ctor_other' c conv msFc tx eh env _ (by decide) (by decide) (by decide)]; exact c8⟩


/-- **receive side: `Rx.Rep`** (the mailbox is empty: `None` is `None` in both presentations of the mailbox) -/
theorem ctor_rxRep (hP : PreInit c msFc br win env) (hcf : conv (c.tCf / 1000000 : Nat) 1000 = (c.tCf : Int)) :
    Rx.Rep (State.init c a) (present conv (ctorEnv c msFc tx eh env)) := by
  have L := initEnv_lookups c a tx eh env
  obtain ⟨l1, l2, l3, -, l4, -, l5, l6, l7, l8, l9, l10, l11, l12, l13, l14, l15, l16, l17, l18, -, -⟩ := L
  constructor
  case rxState => rw [ctor_other c conv msFc tx eh env _ (by decide) (by decide)]; exact l1
  case rxFrameLen => rw [ctor_other c conv msFc tx eh env _ (by decide) (by decide)]; exact l9
  case lastSeq => rw [ctor_other c conv msFc tx eh env _ (by decide) (by decide)]; exact l8
  case rxBlockCnt => rw [ctor_other c conv msFc tx eh env _ (by decide) (by decide)]; exact l7
  case actualRxdl => rw [ctor_other c conv msFc tx eh env _ (by decide) (by decide)]; exact l17
  case rxBuf => rw [ctor_other c conv msFc tx eh env _ (by decide) (by decide)]; exact l16
  case pendingFc => rw [ctor_other c conv msFc tx eh env _ (by decide) (by decide)]; exact l15
  case pfs => rw [ctor_other' c conv msFc tx eh env _ (by decide) (by decide) (by decide)]; exact hP.pfs
  case tStart => simp [present, ctorEnv, loadEnv, set_get, tStart, timerObj, State.init, optPV]
  case tTimeout =>
    simp [present, ctorEnv, loadEnv, set_get, tTimeout, timerObj, State.init]
    simpa using hcf
  case blocksize => rw [ctor_other' c conv msFc tx eh env _ (by decide) (by decide) (by decide)]; exact hP.blocksize
  case maxFrameSize => rw [ctor_other' c conv msFc tx eh env _ (by decide) (by decide) (by decide)]; exact hP.maxFrameSize
  case cfTimeout => rw [ctor_other' c conv msFc tx eh env _ (by decide) (by decide) (by decide)]; exact hP.cf
  case errors => rw [ctor_other' c conv msFc tx eh env _ (by decide) (by decide) (by decide)]; exact hP.errors
  case delivered => rw [ctor_other' c conv msFc tx eh env _ (by decide) (by decide) (by decide)]; exact hP.delivered
  case rxQueue => simp [present, ctorEnv, loadEnv, set_get, l4, qv, State.init, encodePayloads]
  case mb => rw [ctor_other c conv msFc tx eh env _ (by decide) (by decide)]; exact l11
  case fcS => intro f hf; simp [State.init] at hf
  case fcB => intro f hf; simp [State.init] at hf
  case fcM => intro f hf; simp [State.init] at hf

/-- the class constants are still there -/
theorem ctor_rxConsts (hP : PreInit c msFc br win env) : Rx.Consts (present conv (ctorEnv c msFc tx eh env)) := by
  obtain ⟨c1, c2, c3, c4, c5, c6, c7, c8⟩ := hP.rxc
  exact ⟨by rw [ctor_other' c conv msFc tx eh env _ (by decide) (by decide) (by decide)]; exact c1,
    by rw [ctor_other' c conv msFc tx eh env _ (by decide) (by decide) (by decide)]; exact c2,
    by rw [ctor_other' c conv msFc tx eh env _ (by decide) (by decide) (by decide)]; exact c3,
    by rw [ctor_other' c conv msFc tx eh env _ (by decide) (by decide) (by decide)]; exact c4,
    by rw [ctor_other' c conv msFc tx eh env _ (by decide) (by decide) (by decide)]; exact c5,
    by rw [ctor_other' c conv msFc tx eh env _ (by decide) (by decide) (by decide)]; exact c6,
    by rw [ctor_other' c conv msFc tx eh env _ (by decide) (by decide) (by decide)]; exact c7,
    by rw [ctor_other' c conv msFc tx eh env _ (by decide) (by decide) (by decide)]; exact c8⟩

/-- the transmit queue (the key `process_tx_agrees` / `Rep2` reads): empty -/
theorem ctor_txQueue : present conv (ctorEnv c msFc tx eh env) "#tx_queue" = some (.list []) ∧ (State.init c a).txQueue = [] := by
  have L := initEnv_lookups c a tx eh env
  refine ⟨?_, rfl⟩
  simp [present, ctorEnv, loadEnv, set_get, L.2.2.1, qv]

end shows


/-- **COROLLARY: the constructor presents `State.init c a`.**  For every configuration `c` and address `a` (= what `set_address` accepts
    for the given address object: `setAddrSpec arg = .ok a`), from any environment `env` that binds what the two pieces read
    (`InitArgs`, `PreInit`): running the state-initialisation region (`state_init_agrees`) and then `load_params`
    (`load_params_agrees`, LayerSend.lean, with `validate()` passing - it raised `ValueError` otherwise) ends normally in `ctorEnv`,
    whose flat view `present conv` satisfies the hypotheses of the step theorems for the model state `State.init c a`:
    `Tx.Rep` (LayerTx.lean), `Rx.Rep` and `Rx.Consts` (LayerRx.lean), an empty `#tx_queue`; and `RxBufOk (State.init c a)`
    (the one hypothesis of `process_rx_agrees`).
    `hfc`, `hcf`: the float conversion `int(ms / 1000 * 1e9)` of the two receive timeouts gives the model's `cfg.tFc`, `cfg.tCf`
    (DESIGN 3.1: how the harness computes the `Cfg` it hands to the model; float arithmetic is outside the subset). -/
theorem init_presents_State_init (c : Cfg) (a : Addr) (arg : AddrArg) (conv : Int → Nat → Int) (msFc : Int) (br win tx eh : PV)
    (env : Env) (hA : InitArgs tx eh env) (hP : PreInit c msFc br win env) (ha : setAddrSpec arg = .ok a)
    (hfc : conv msFc 1000 = (c.tFc : Int)) (hcf : conv (c.tCf / 1000000 : Nat) 1000 = (c.tCf : Int)) :
    runFn (initM arg conv) env Src.TransportLayerLogic_init__state_init = .ok (pnone, initEnv tx eh env) ∧
    runFn (loadMeths true br win) (initEnv tx eh env) Src.TransportLayerLogic_load_params =
      .ok (pnone, ctorEnv c msFc tx eh env) ∧
    Tx.Rep (present conv (ctorEnv c msFc tx eh env)) (State.init c a) ∧
    Rx.Rep (State.init c a) (present conv (ctorEnv c msFc tx eh env)) ∧
    Rx.Consts (present conv (ctorEnv c msFc tx eh env)) ∧
    present conv (ctorEnv c msFc tx eh env) "#tx_queue" = some (.list []) ∧ (State.init c a).txQueue = [] ∧
    RxBufOk (State.init c a) ∧
    present conv (ctorEnv c msFc tx eh env) "self.address" = some (.meth "address") := by
  refine ⟨?_, ?_, ctor_txRep c a conv msFc br win tx eh env hP hfc hcf, ctor_rxRep c a conv msFc br win tx eh env hP hcf,
    ctor_rxConsts c conv msFc br win tx eh env hP, (ctor_txQueue c a conv msFc tx eh env).1, rfl, ?_, ?_⟩
  · rw [state_init_agrees arg conv tx eh env hA, ha]
  · rw [load_params_agrees true msFc _ br win c.rlEnable _ (hP.loadEnv_of tx eh)]; rfl
  · intro hw; simp [State.init] at hw
  · rw [ctor_other c conv msFc tx eh env _ (by decide) (by decide)]
    exact (initEnv_lookups c a tx eh env).2.2.2.2.2.2.2.2.2.2.2.2.2.2.2.2.2.2.2.2.2.2.2.2.2

/-- a rejected address: the constructor raises before any state attribute exists (`State.init` takes an accepted `Addr`) -/
theorem state_init_rejects (arg : AddrArg) (conv : Int → Nat → Int) (tx eh : PV) (env : Env) (hA : InitArgs tx eh env)
    (e : PyExc) (ha : setAddrSpec arg = .error e) :
    runFn (initM arg conv) env Src.TransportLayerLogic_init__state_init = .error (.exc .ValueError) := by
  rw [state_init_agrees arg conv tx eh env hA, ha]


/-! ## 5. non-vacuity: the hypotheses are satisfiable, and concrete runs -/

/-- the float conversion, as exact truncation (an instance of the parameter) -/
def convExact (n : Int) (d : Nat) : Int := n * 1000000000 / d

/-- an environment for the default configuration: the arguments, the class constants as dumped (`constEnv`), the validated default
    parameters, `remote_blocksize = None`, empty histories -/
def exEnv : Env := fun k =>
  match k with
  | "txfn" => some (.meth "txfn")
  | "address" => some (.meth "address")
  | "error_handler" => some pnone
  | "isotp.TargetAddressType.Physical" => some (tatPV .physical)
  | "self.remote_blocksize" => some pnone
  | "self.params.listen_mode" => some (pbool false)
  | "self.params.wftmax" => some (pint 0)
  | "self.params.override_receiver_stmin" => some pnone
  | "self.params.tx_data_length" => some (pint 8)
  | "self.params.tx_data_min_length" => some pnone
  | "self.params.blocksize" => some (pint 8)
  | "self.params.max_frame_size" => some (pint 4095)
  | "self.params.rx_consecutive_frame_timeout" => some (pint 1000)
  | "self.params.rx_flowcontrol_timeout" => some (pint 1000)
  | "self.params.rate_limit_max_bitrate" => some (pint 100000000)
  | "self.params.rate_limit_window_size" => some (.sc (.py (.float 1 5)))
  | "self.params.rate_limit_enable" => some (pbool false)
  | "#log" => some (.list [])
  | "#errors" => some (.list [])
  | "#delivered" => some (.list [])
  | _ => constEnv k

theorem exEnv_args : InitArgs (.meth "txfn") pnone exEnv := ⟨rfl, rfl, rfl, rfl, rfl, rfl⟩

theorem exEnv_pre : PreInit {} 1000 (pint 100000000) (.sc (.py (.float 1 5))) exEnv :=
  { rxc := ⟨rfl, rfl, rfl, rfl, rfl, rfl, rfl, rfl⟩, txc := ⟨rfl, rfl, rfl, rfl, rfl, rfl, rfl, rfl⟩, remoteBs := rfl, pfs := rfl,
    listen := rfl, wftmax := rfl, ovr := rfl, txDl := rfl, txMinLen := rfl, blocksize := rfl, maxFrameSize := rfl, cf := rfl, fc := rfl,
    br := rfl, win := rfl, en := rfl, log := rfl, errors := rfl, delivered := rfl }

/-- `state_init_agrees` / `init_presents_State_init` on the default configuration, for EVERY asymmetric address -/
example (a : Addr) :
    runFn (initM (.asym a) convExact) exEnv Src.TransportLayerLogic_init__state_init =
      .ok (pnone, initEnv (.meth "txfn") pnone exEnv) ∧
    Tx.Rep (present convExact (ctorEnv {} 1000 (.meth "txfn") pnone exEnv)) (State.init {} a) ∧
    Rx.Rep (State.init {} a) (present convExact (ctorEnv {} 1000 (.meth "txfn") pnone exEnv)) :=
  have h := init_presents_State_init {} a (.asym a) convExact 1000 _ _ _ _ exEnv exEnv_args exEnv_pre rfl rfl rfl
  ⟨h.1, h.2.2.1, h.2.2.2.1⟩

/-- a partial symmetric address is rejected -/
example (h : Half) (hp : h.txOnly = true) :
    runFn (initM (.sym h) convExact) exEnv Src.TransportLayerLogic_init__state_init = .error (.exc .ValueError) :=
  state_init_rejects (.sym h) convExact _ _ exEnv exEnv_args .ValueError (by simp [setAddrSpec, mkSym, hp])

/-- the generator objects of the examples: object 7 is a generator that will yield `[1, 2, 3]` -/
def exYields (t : Nat) : Option Bytes := if t = 7 then some [1, 2, 3] else none

example : runFn (sriM exYields 7) (envOf [("data", .bytes [1, 2, 3]), ("target_address_type", tatPV .functional)])
      Src.TransportLayerLogic_SendRequest_init =
    .ok (pnone, sriBytesEnv 7 [1, 2, 3] (tatPV .functional)
      (envOf [("data", .bytes [1, 2, 3]), ("target_address_type", tatPV .functional)])) :=
  send_request_init_bytes exYields 7 _ [1, 2, 3] _ rfl rfl rfl

example : runFn (sriM exYields 7) (envOf [("data", .list [.py (.other 7), .py (.int 3)]), ("target_address_type", tatPV .physical)])
      Src.TransportLayerLogic_SendRequest_init =
    .ok (pnone, sriTupleEnv (.py (.other 7)) (.py (.int 3)) (tatPV .physical)
      (envOf [("data", .list [.py (.other 7), .py (.int 3)]), ("target_address_type", tatPV .physical)])) :=
  by rw [send_request_init_tuple exYields 7 _ _ _ rfl rfl]; rfl

/-- a 3-tuple, a pair whose first item is not a generator, a negative size, an `int`: `ValueError` -/
example : runFn (sriM exYields 7) (envOf [("data", .list [.py (.other 7), .py (.int 3), .py (.int 0)]), ("target_address_type", pnone)])
      Src.TransportLayerLogic_SendRequest_init = .error (.exc .ValueError) :=
  by rw [send_request_init_tuple exYields 7 _ _ _ rfl rfl]; rfl
example : runFn (sriM exYields 7) (envOf [("data", .list [.py (.other 8), .py (.int 3)]), ("target_address_type", pnone)])
      Src.TransportLayerLogic_SendRequest_init = .error (.exc .ValueError) :=
  by rw [send_request_init_tuple exYields 7 _ _ _ rfl rfl]; rfl
example : runFn (sriM exYields 7) (envOf [("data", .list [.py (.other 7), .py (.int (-1))]), ("target_address_type", pnone)])
      Src.TransportLayerLogic_SendRequest_init = .error (.exc .ValueError) :=
  by rw [send_request_init_tuple exYields 7 _ _ _ rfl rfl]; rfl
example : runFn (sriM exYields 7) (envOf [("data", pint 5), ("target_address_type", pnone)])
      Src.TransportLayerLogic_SendRequest_init = .error (.exc .ValueError) :=
  send_request_init_other exYields 7 _ _ rfl rfl rfl

/-- the model request of the `bytes` example -/
example (s : State) :
    reqOf exYields 4 false (tatOf s { id := 4, size := 3, src := [1, 2, 3] })
      (sriBytesEnv 7 [1, 2, 3] (tatPV (tatOf s { id := 4, size := 3, src := [1, 2, 3] })) (envOf [])) =
      some { id := 4, size := 3, src := [1, 2, 3], consumed := 0, depletedFlag := false,
             tat := tatOf s { id := 4, size := 3, src := [1, 2, 3] }, instr := false } :=
  send_request_init_bytes_is_newReq exYields 7 s { id := 4, size := 3, src := [1, 2, 3] } (envOf []) rfl rfl

/-- the threaded wrapper: the arguments, a world without threads, a base constructor that keeps the user's `rxfn` -/
def exTlEnv : Env :=
  envOf [("self", .meth "self"), ("rxfn", Thr.rxfnPV false), ("txfn", .meth "txfn"), ("address", .meth "address"),
    ("error_handler", pnone), ("params", pnone), ("read_timeout", pint 0), ("#alive.main", pbool false), ("#alive.relay", pbool false),
    ("#bus", .list []), ("self._read_relay_queue", Thr.rxfnPV true), ("self._main_thread_fn", .meth "self._main_thread_fn"),
    ("self._relay_thread_fn", .meth "self._relay_thread_fn")]

def exBase (e : Env) : Env := e.set "self.rxfn" (Thr.rxfnPV false)

theorem exTl_args : TlArgs (.meth "self") (Thr.rxfnPV false) (.meth "txfn") (.meth "address") pnone pnone (pint 0) exTlEnv :=
  ⟨rfl, rfl, rfl, rfl, rfl, rfl, rfl⟩
theorem exTl_world : TlWorld exTlEnv := ⟨rfl, rfl, rfl, rfl, rfl, rfl⟩
theorem exBase_frame : ∀ e k, k ∈ tlFrameKeys → exBase e k = e k := by
  intro e k hk
  have : k ≠ "self.rxfn" := by rintro rfl; simp [tlFrameKeys] at hk
  simp [exBase, set_get, this]

example : runFn (tlInitM (baseArgs (.meth "self") (Thr.rxfnPV false) (.meth "txfn") (.meth "address") pnone pnone) exBase) exTlEnv
      Src.TransportLayer_init = .ok (pnone, tlInitEnv exBase (Thr.rxfnPV false) (Thr.rxfnPV false) (pint 0) exTlEnv) := by
  rw [transport_layer_init_agrees _ exBase _ _ (Thr.rxfnPV false) _ _ _ _ _ exTlEnv exTl_args (fun e => by simp [exBase, set_get]),
    if_pos rfl]

/-- a base constructor expecting the arguments in another order is NOT what the source calls -/
example : runFn (tlInitM (baseArgs (.meth "self") (.meth "txfn") (Thr.rxfnPV false) (.meth "address") pnone pnone) exBase) exTlEnv
      Src.TransportLayer_init = .error (.unsupported "base constructor called with other arguments") := by
  rw [transport_layer_init_agrees _ exBase _ _ (Thr.rxfnPV false) _ _ _ _ _ exTlEnv exTl_args (fun e => by simp [exBase, set_get]),
    if_neg (by decide)]

example (c : Cfg) (a : Addr) :
    Thr.ShowsW (wrapView (tlInitEnv exBase (Thr.rxfnPV false) (Thr.rxfnPV false) (pint 0) exTlEnv)) (TL.init c a) :=
  transport_layer_init_shows c a exBase 0 exTlEnv exTl_world exBase_frame (fun e => by simp [exBase, set_get])

example : callsOf exTlEnv = 0 ∧ callsOf (tlInitEnv exBase (Thr.rxfnPV false) (Thr.rxfnPV false) (pint 0) exTlEnv) = 1 :=
  ⟨rfl, (transport_layer_init_calls_once exBase _ _ _ exTlEnv).2⟩

/-- the limiter: 1 Mbit/s over 1 s can be enabled, so the constructor enables it; 0 bit/s cannot -/
example : runFn rlInitM (envOf [("mean_bitrate", pint 1000000), ("window_size_sec", pint 1)]) Src.RateLimiter_init =
    .ok (pnone, rlInitEnv 1000000 1 (envOf [("mean_bitrate", pint 1000000), ("window_size_sec", pint 1)])) :=
  (ratelimiter_init_agrees _ 1000000 1 rfl rfl).1
example : Has (rlInitEnv 0 1 (envOf [])) (limAttrs ({} : Limiter) 0) := ratelimiter_init_default (envOf []) 0 1 (by decide)

/-- the timers: `Timer(0)`, `Timer(2)` (seconds), `Timer(1000/1000 s)` -/
example : runFn (timerInitM convExact) (envOf [("timeout", pint 0)]) Src.Timer_init =
    .ok (pnone, timerInitEnv 0 (envOf [("timeout", pint 0)])) := (timer_init_zero convExact _ rfl).1
example : runFn (timerInitM convExact) (envOf [("timeout", pint 2)]) Src.Timer_init =
    .ok (pnone, timerInitEnv 2000000000 (envOf [("timeout", pint 2)])) := by
  rw [timer_init_agrees convExact _ (pint 2) rfl]; rfl
example : runFn (timerInitM convExact) (envOf [("timeout", .sc (.py (.float 1000 1000)))]) Src.Timer_init =
    .ok (pnone, timerInitEnv 1000000000 (envOf [("timeout", .sc (.py (.float 1000 1000)))])) := by
  rw [timer_init_agrees convExact _ _ rfl]; rfl
example : runFn (timerInitM convExact) (envOf [("timeout", pnone)]) Src.Timer_init = .error (.exc .TypeError) := by
  rw [timer_init_agrees convExact _ _ rfl]; rfl

end Isotp.PyAgree.Init

#print axioms Isotp.PyAgree.Init.timer_set_timeout_agrees
#print axioms Isotp.PyAgree.Init.timer_init_agrees
#print axioms Isotp.PyAgree.Init.timer_init_model
#print axioms Isotp.PyAgree.Init.timer_init_zero
#print axioms Isotp.PyAgree.Init.timerNew_eq
#print axioms Isotp.PyAgree.Init.can_be_enabled_run
#print axioms Isotp.PyAgree.Init.enable_run
#print axioms Isotp.PyAgree.Init.ratelimiter_init_agrees
#print axioms Isotp.PyAgree.Init.ratelimiter_init_default
#print axioms Isotp.PyAgree.Init.ratelimiter_fresh_then_disable
#print axioms Isotp.PyAgree.Init.ratelimiter_fresh_then_enable
#print axioms Isotp.PyAgree.Init.fbgNew_eq
#print axioms Isotp.PyAgree.Init.send_request_init_tuple
#print axioms Isotp.PyAgree.Init.send_request_init_bytes
#print axioms Isotp.PyAgree.Init.send_request_init_other
#print axioms Isotp.PyAgree.Init.send_request_init_agrees
#print axioms Isotp.PyAgree.Init.send_request_init_bytes_is_newReq
#print axioms Isotp.PyAgree.Init.send_request_init_tuple_is_newReq
#print axioms Isotp.PyAgree.Init.send_request_init_tuple_accepts
#print axioms Isotp.PyAgree.Init.transport_layer_init_agrees
#print axioms Isotp.PyAgree.Init.transport_layer_init_calls_once
#print axioms Isotp.PyAgree.Init.transport_layer_init_shows
#print axioms Isotp.PyAgree.Init.transport_layer_init_shows_all
#print axioms Isotp.PyAgree.Init.state_init_agrees
#print axioms Isotp.PyAgree.Init.state_init_rejects
#print axioms Isotp.PyAgree.Init.initEnv_frame
#print axioms Isotp.PyAgree.Init.initEnv_no_pending_status
#print axioms Isotp.PyAgree.Init.initEnv_lookups
#print axioms Isotp.PyAgree.Init.timerObj_view
#print axioms Isotp.PyAgree.Init.ctor_other'
#print axioms Isotp.PyAgree.Init.ctor_txRep
#print axioms Isotp.PyAgree.Init.ctor_rxRep
#print axioms Isotp.PyAgree.Init.ctor_rxConsts
#print axioms Isotp.PyAgree.Init.ctor_txQueue
#print axioms Isotp.PyAgree.Init.init_presents_State_init
