import Isotp.Address
/-
  A small deep embedding of the Python subset in which the *pure* functions of /repo are written
  (`Address.validate`, the `_is_for_me_*` predicates, the identifier getters, `PDU.__init__`, ...),
  with an interpreter.

  `harness/py2lean.py` dumps the `ast` of those functions, AS THEY ARE IN /repo NOW, into
  `Isotp/Py/Src.lean` on every check run (nothing is interpreted or simplified by the dumper:
  it only renames `ast` node classes).  The leaf modules `Isotp/PyAgree/*.lean` then prove, for
  ALL inputs, that interpreting the dumped source gives what the hand-written model computes.
  So for these functions the tie model <-> code is a theorem about the current source text, whose
  trusted part is this interpreter (= the stated semantics of the Python subset) and the dumper.

  Core Lean only.
-/
namespace Isotp.Py

/-- scalar Python values: what `PyVal` already has, plus members of `enum.Enum` classes
    (which compare equal only to themselves). -/
inductive Sc where
  | py (v : PyVal)
  | enum (cls member : String)
  deriving DecidableEq, Repr, Inhabited

inductive PV where
  | sc (s : Sc)
  | list (xs : List Sc)          -- list / tuple literal of scalars
  | bytes (b : Bytes)            -- bytes / bytearray
  | str (s : String)             -- string literal (attribute names given to setattr)
  | meth (name : String)         -- bound method / function object (only stored, never compared)
  deriving DecidableEq, Repr, Inhabited

abbrev pnone : PV := .sc (.py .none)
abbrev pbool (b : Bool) : PV := .sc (.py (.bool b))
abbrev pint (i : Int) : PV := .sc (.py (.int i))

inductive BinOp where
  | band | bor | bxor | shl | shr | add | sub | mul | floordiv | mod | truediv
  deriving DecidableEq, Repr, Inhabited

inductive CmpOp where
  | eq | ne | lt | le | gt | ge | isIn | notIn
  deriving DecidableEq, Repr, Inhabited

mutual
inductive PExpr where
  | var (path : String)                       -- a local name or a dotted attribute path rooted in a name (`self._rxid`, `msg.data`)
  | int (i : Int)
  | tt | ff | none
  | strLit (s : String)
  | binop (op : BinOp) (a b : PExpr)
  | cmp (op : CmpOp) (a b : PExpr)
  | isNone (e : PExpr)                        -- `e is None`
  | isNotNone (e : PExpr)                     -- `e is not None`
  | and_ (a b : PExpr)
  | or_ (a b : PExpr)
  | not_ (e : PExpr)
  | ifexp (c t e : PExpr)
  | lst (xs : PArgs)                          -- list or tuple literal
  | index (e i : PExpr)
  | sliceFrom (e lo : PExpr)                  -- e[lo:]
  | sliceTo (e hi : PExpr)                    -- e[:hi]
  | slice (e lo hi : PExpr)                   -- e[lo:hi]
  | call (fn : String) (args : PArgs)         -- builtin, or a method of `self` (dotted name)
inductive PArgs where
  | nil
  | cons (e : PExpr) (rest : PArgs)
end

mutual
inductive PStmt where
  | assign (target : String) (e : PExpr)
  | ret (e : PExpr)
  | retNone
  | raise (cls : String)                      -- the arguments of the exception are dropped
  | assert_ (e : PExpr)
  | ite (c : PExpr) (t e : PBlock)
  | expr (e : PExpr)                          -- expression statement (a call made for its effect)
  | pass
  | unsupported (what : String)               -- a construct outside the subset: interpreting it fails
  | tryExcept (body handler : PBlock)         -- `try: <one statement> except Exception [as e]: handler` (see `execStmt`)
  | while_ (c : PExpr) (body : PBlock)        -- `while c: body` (no `else`): meaning given by the fuelled semantics `Isotp.Py.exec2S` only
  | tryCatch (body : PBlock) (cls : String) (handler : PBlock)
                                              -- `try: body except <cls> [as e]: handler`, any body: meaning given by `exec2S` only
  | break_                                    -- `break` (inside a `while_`): meaning given by `exec2S` only
  | tryFinally (body fin : PBlock)            -- `try: body finally: fin`: meaning given by `exec2S` only
inductive PBlock where
  | nil
  | cons (s : PStmt) (rest : PBlock)
end

/-- interpreter errors: a Python exception, or a construct / value combination outside the modelled subset
    (never silently defaulted). -/
inductive PErr where
  | exc (e : PyExc)
  | zeroDivision
  | unsupported (what : String)
  deriving DecidableEq, Repr, Inhabited

abbrev Env := String → Option PV

def Env.set (env : Env) (k : String) (v : PV) : Env := fun k' => if k' = k then some v else env k'

/-- semantics of the calls to other methods of the same object (given by the theorem that uses the interpreter;
    each is itself tied to its own source by another agreement theorem). -/
structure Meths where
  /-- a call inside an expression: value only -/
  fn : String → List PV → Env → Except PErr PV
  /-- a call used as a statement: may update the object -/
  proc : String → List PV → Env → Except PErr Env

namespace Sc
def isInt : Sc → Bool
  | .py v => v.isInt
  | _ => false
def intVal : Sc → Int
  | .py v => v.intVal
  | _ => 0
/-- Python `==` -/
def eq : Sc → Sc → Bool
  | .py a, .py b => a.pyEq b
  | .enum c m, .enum c' m' => c == c' && m == m'
  | _, _ => false
end Sc

/-- Python `==` on the values of the subset (lists are only ever compared element-wise by `in`). -/
def pvEq : PV → PV → Bool
  | .sc a, .sc b => a.eq b
  | .bytes a, .bytes b => a == b
  | .str a, .str b => a == b
  | _, _ => false

/-- truthiness; `str` / `other` / method values are outside the subset. -/
def truthy : PV → Except PErr Bool
  | .sc (.py .none) => .ok false
  | .sc (.py (.bool b)) => .ok b
  | .sc (.py (.int i)) => .ok (i != 0)
  | .sc (.py (.float n _)) => .ok (n != 0)
  | .sc (.py .nan) => .ok true
  | .sc (.py .posInf) => .ok true
  | .sc (.py .negInf) => .ok true
  | .sc (.enum _ _) => .ok true
  | .list xs => .ok (!xs.isEmpty)
  | .bytes b => .ok (!b.isEmpty)
  | _ => .error (.unsupported "truthiness")

/-- a value used as an integer (`bool` counts, as in Python) -/
def asInt : PV → Option Int
  | .sc s => if s.isInt then some s.intVal else none
  | _ => none

def evalBinop (op : BinOp) (a b : PV) : Except PErr PV :=
  match a, b, op with
  | .bytes x, .bytes y, .add => .ok (.bytes (x ++ y))       -- concatenation of bytes / bytearray values
  | .list xs, .sc (.py (.int k)), .mul =>                    -- `[a, b] * k`: repetition of a list literal (empty for k <= 0)
      .ok (.list ((List.replicate k.toNat xs).flatten))
  | _, _, _ =>
  match asInt a, asInt b with
  | some x, some y =>
    match op with
    | .add => .ok (pint (x + y))
    | .sub => .ok (pint (x - y))
    | .mul => .ok (pint (x * y))
    | .truediv => if y = 0 then .error .zeroDivision else .ok (.sc (.py (.float (if y < 0 then -x else x) y.natAbs)))
    | _ =>
      -- bit operations, floor division and modulo: modelled on non-negative integers only
      if x < 0 || y < 0 then .error (.unsupported "bit operation / floor division on a negative integer") else
      let m := x.toNat
      let n := y.toNat
      match op with
      | .band => .ok (pint (m &&& n : Nat))
      | .bor => .ok (pint (m ||| n : Nat))
      | .bxor => .ok (pint (m ^^^ n : Nat))
      | .shl => .ok (pint (m <<< n : Nat))
      | .shr => .ok (pint (m >>> n : Nat))
      | .floordiv => if n = 0 then .error .zeroDivision else .ok (pint (m / n : Nat))
      | .mod => if n = 0 then .error .zeroDivision else .ok (pint (m % n : Nat))
      | _ => .error (.unsupported "binop")
  | _, _ => .error (.unsupported "binary operation on a non-integer")

/-- order comparison of two numbers (int / bool / finite float / infinities); anything else is a `TypeError` in Python. -/
def numLt : PyVal → PyVal → Except PErr Bool
  | .nan, _ => .ok false
  | _, .nan => .ok false
  | .posInf, _ => .ok false
  | _, .posInf => .ok true
  | _, .negInf => .ok false
  | .negInf, _ => .ok true
  | .float n d, .float n' d' => .ok (n * d' < n' * d)
  | .float n d, b => if b.isInt then .ok (n < b.intVal * d) else .error (.exc .TypeError)
  | a, .float n d => if a.isInt then .ok (a.intVal * d < n) else .error (.exc .TypeError)
  | a, b => if a.isInt && b.isInt then .ok (a.intVal < b.intVal) else .error (.exc .TypeError)

def isNumber : PyVal → Bool
  | .bool _ | .int _ | .float _ _ | .nan | .posInf | .negInf => true
  | _ => false

def evalCmp (op : CmpOp) (a b : PV) : Except PErr PV :=
  match op with
  | .eq => .ok (pbool (pvEq a b))
  | .ne => .ok (pbool (!pvEq a b))
  | .isIn =>
    match b with
    | .list xs => .ok (pbool (xs.any fun x => pvEq a (.sc x)))
    | _ => .error (.unsupported "in: right operand is not a list literal")
  | .notIn =>
    match b with
    | .list xs => .ok (pbool (!(xs.any fun x => pvEq a (.sc x))))
    | _ => .error (.unsupported "not in: right operand is not a list literal")
  | _ =>
    match a, b with
    | .sc (.py x), .sc (.py y) =>
      if !(isNumber x && isNumber y) then .error (.exc .TypeError) else
      match op with
      | .lt => (numLt x y).map pbool
      | .gt => (numLt y x).map pbool
      | .le => do let l ← numLt x y; .ok (pbool (l || (PyVal.pyEq x y)))
      | .ge => do let l ← numLt y x; .ok (pbool (l || (PyVal.pyEq x y)))
      | _ => .error (.unsupported "cmp")
    | _, _ => .error (.exc .TypeError)

def bytesOfScs : List Sc → Except PErr Bytes
  | [] => .ok []
  | s :: rest =>
    if s.isInt && 0 ≤ s.intVal && s.intVal ≤ 255 then do
      let r ← bytesOfScs rest
      .ok (UInt8.ofNat s.intVal.toNat :: r)
    else .error (.exc .ValueError)

/-- the builtins of the subset -/
def evalBuiltin (fn : String) (args : List PV) : Option (Except PErr PV) :=
  match fn, args with
  | "len", [.bytes b] => some (.ok (pint b.length))
  | "len", [.list xs] => some (.ok (pint xs.length))
  | "int", [v] => some (match asInt v with | some i => .ok (pint i) | none => .error (.unsupported "int() of a non-integer"))
  | "bool", [v] => some ((truthy v).map pbool)
  | "min", [a, b] => some (match asInt a, asInt b with
      | some x, some y => .ok (if y < x then b else a) | _, _ => .error (.unsupported "min of non-integers"))
  | "max", [a, b] => some (match asInt a, asInt b with
      | some x, some y => .ok (if y > x then b else a) | _, _ => .error (.unsupported "max of non-integers"))
  | "bytes", [] => some (.ok (.bytes []))
  | "bytes", [.list xs] => some ((bytesOfScs xs).map .bytes)
  | "bytes", [.bytes b] => some (.ok (.bytes b))
  | "isinstance_int", [v] => some (.ok (pbool (match v with | .sc s => s.isInt | _ => false)))
  | "isinstance_bool", [v] => some (.ok (pbool (match v with | .sc (.py (.bool _)) => true | _ => false)))
  | "isinstance_float", [v] => some (.ok (pbool (match v with
      | .sc (.py (.float _ _)) | .sc (.py .nan) | .sc (.py .posInf) | .sc (.py .negInf) => true | _ => false)))
  | "isinstance_int_float", [v] => some (.ok (pbool (match v with
      | .sc (.py x) => isNumber x | _ => false)))
  | _, _ => none

def natIdx (v : PV) : Except PErr Nat :=
  match asInt v with
  | some i => if i < 0 then .error (.unsupported "negative index") else .ok i.toNat
  | none => .error (.exc .TypeError)

mutual
def eval (M : Meths) (env : Env) : PExpr → Except PErr PV
  | .var p => match env p with
      | some v => .ok v
      | none => .error (.exc .AttributeError)
  | .int i => .ok (pint i)
  | .tt => .ok (pbool true)
  | .ff => .ok (pbool false)
  | .none => .ok pnone
  | .strLit s => .ok (.str s)
  | .binop op a b => do
      let x ← eval M env a
      let y ← eval M env b
      evalBinop op x y
  | .cmp op a b => do
      let x ← eval M env a
      let y ← eval M env b
      evalCmp op x y
  | .isNone e => do
      let x ← eval M env e
      .ok (pbool (x == pnone))
  | .isNotNone e => do
      let x ← eval M env e
      .ok (pbool (x != pnone))
  | .and_ a b => do
      let x ← eval M env a
      if (← truthy x) then eval M env b else .ok x
  | .or_ a b => do
      let x ← eval M env a
      if (← truthy x) then .ok x else eval M env b
  | .not_ e => do
      let x ← eval M env e
      .ok (pbool (!(← truthy x)))
  | .ifexp c t e => do
      let x ← eval M env c
      if (← truthy x) then eval M env t else eval M env e
  | .lst xs => do
      let vs ← evalArgs M env xs
      let scs ← vs.mapM (fun v => match v with | .sc s => Except.ok s | _ => Except.error (PErr.unsupported "non-scalar list element"))
      .ok (.list scs)
  | .index e i => do
      let x ← eval M env e
      let k ← natIdx (← eval M env i)
      match x with
      | .bytes b => if h : k < b.length then .ok (pint (b[k]).toNat) else .error (.exc .IndexError)
      | .list xs => if h : k < xs.length then .ok (.sc xs[k]) else .error (.exc .IndexError)
      | _ => .error (.exc .TypeError)
  | .sliceFrom e lo => do
      let x ← eval M env e
      let a ← natIdx (← eval M env lo)
      match x with
      | .bytes b => .ok (.bytes (b.drop a))
      | _ => .error (.unsupported "slice of a non-bytes value")
  | .sliceTo e hi => do
      let x ← eval M env e
      let b' ← natIdx (← eval M env hi)
      match x with
      | .bytes b => .ok (.bytes (b.take b'))
      | _ => .error (.unsupported "slice of a non-bytes value")
  | .slice e lo hi => do
      let x ← eval M env e
      let a ← natIdx (← eval M env lo)
      let b' ← natIdx (← eval M env hi)
      match x with
      | .bytes b => .ok (.bytes ((b.take b').drop a))
      | _ => .error (.unsupported "slice of a non-bytes value")
  | .call fn args => do
      let vs ← evalArgs M env args
      match evalBuiltin fn vs with
      | some r => r
      | none => M.fn fn vs env
def evalArgs (M : Meths) (env : Env) : PArgs → Except PErr (List PV)
  | .nil => .ok []
  | .cons e rest => do
      let v ← eval M env e
      let vs ← evalArgs M env rest
      .ok (v :: vs)
end

/-- result of running a block: fell through, or returned a value -/
inductive Flow where
  | next (env : Env)
  | returned (v : PV) (env : Env)

mutual
def execStmt (M : Meths) (env : Env) : PStmt → Except PErr Flow
  | .assign t e => do
      let v ← eval M env e
      .ok (.next (env.set t v))
  | .ret e => do
      let v ← eval M env e
      .ok (.returned v env)
  | .retNone => .ok (.returned pnone env)
  | .raise cls =>
      match cls with
      | "ValueError" => .error (.exc .ValueError)
      | "RuntimeError" => .error (.exc .RuntimeError)
      | "NotImplementedError" => .error (.exc .NotImplementedError)
      | "TypeError" => .error (.exc .TypeError)
      | "IndexError" => .error (.exc .IndexError)
      | _ => .error (.unsupported ("raise " ++ cls))
  | .assert_ e => do
      let v ← eval M env e
      if (← truthy v) then .ok (.next env) else .error (.exc .AssertionError)
  | .ite c t e => do
      let v ← eval M env c
      if (← truthy v) then execBlock M env t else execBlock M env e
  | .expr e =>
      match e with
      | .call fn args => do
          let vs ← evalArgs M env args
          match evalBuiltin fn vs with
          | some r => do let _ ← r; .ok (.next env)
          | none => do let env' ← M.proc fn vs env; .ok (.next env')
      | _ => do let _ ← eval M env e; .ok (.next env)
  | .pass => .ok (.next env)
  | .unsupported w => .error (.unsupported w)
  | .tryExcept body handler =>
      -- `except Exception`: any Python exception raised by the body is caught; errors of the interpreter itself (unsupported construct,
      -- division by zero bookkeeping) are not.  The handler runs in the environment the `try` was entered with: the dumper only emits this
      -- statement when the body is ONE assignment / expression statement, which has no effect on the environment when it raises.
      match execBlock M env body with
      | .ok f => .ok f
      | .error (.exc _) => execBlock M env handler
      | .error e => .error e
  | .while_ _ _ => .error (.unsupported "while")
  | .tryCatch _ _ _ => .error (.unsupported "try")
  | .break_ => .error (.unsupported "break")
  | .tryFinally _ _ => .error (.unsupported "try/finally")
def execBlock (M : Meths) (env : Env) : PBlock → Except PErr Flow
  | .nil => .ok (.next env)
  | .cons s rest => do
      match (← execStmt M env s) with
      | .next env' => execBlock M env' rest
      | .returned v env' => .ok (.returned v env')
end

/-- a function body run as a call: the returned value (`None` when it falls off the end) and the final environment -/
def runFn (M : Meths) (env : Env) (body : PBlock) : Except PErr (PV × Env) :=
  match execBlock M env body with
  | .ok (.next env') => .ok (pnone, env')
  | .ok (.returned v env') => .ok (v, env')
  | .error e => .error e

/-- no other method is called -/
def noMeths : Meths :=
  { fn := fun n _ _ => .error (.unsupported ("call " ++ n)), proc := fun n _ _ => .error (.unsupported ("call " ++ n)) }

/-- build an environment from a list of bindings -/
def envOf (bs : List (String × PV)) : Env := fun k => (bs.find? (fun b => b.1 == k)).map (·.2)

end Isotp.Py
