import Isotp.Process
/-
  Helper lemmas for C15 (rate limiter).

  Part A: pure `Limiter` bookkeeping (`expire`, `addToLast`, `update`, `inform`, `reset`).
  Part B: the abstract limiter run (steps `update` / `emit`) and the window bound.
  Part C: how `processTx` / `txLoop` / `processLoop` use the limiter.
-/
namespace Isotp.C15
open Isotp State

/-! ## Part A — limiter bookkeeping -/

/-- sum of the bit counts of a slot list -/
def bitsSum (sl : List (Nat × Nat)) : Nat := (sl.map (·.2)).sum

/-- any two slots (in list order) start more than one accounting slot (5 ms) apart -/
def Gapped (sl : List (Nat × Nat)) : Prop := sl.Pairwise (fun a b => a.1 + slotNs < b.1)

/-- the bookkeeping invariant of the rate limiter -/
structure LimInv (l : Limiter) : Prop where
  total : l.bitTotal = bitsSum l.slots
  gapped : Gapped l.slots

@[simp] theorem bitsSum_nil : bitsSum [] = 0 := rfl
@[simp] theorem bitsSum_cons (e : Nat × Nat) (sl) : bitsSum (e :: sl) = e.2 + bitsSum sl := by
  simp [bitsSum]

/-! ### `expire` -/

theorem expire_suffix (w now : Nat) (sl : List (Nat × Nat)) (bt : Nat) :
    (Limiter.expire w now sl bt).1 <:+ sl := by
  fun_induction Limiter.expire w now sl bt with
  | case1 bt => exact List.suffix_refl _
  | case2 t b rest bt h ih => exact List.IsSuffix.trans ih (List.suffix_cons _ _)
  | case3 t b rest bt h => exact List.suffix_refl _

theorem expire_total (w now : Nat) (sl : List (Nat × Nat)) (bt : Nat) (h : bt = bitsSum sl) :
    (Limiter.expire w now sl bt).2 = bitsSum (Limiter.expire w now sl bt).1 := by
  fun_induction Limiter.expire w now sl bt with
  | case1 bt => exact h
  | case2 t b rest bt hx ih => apply ih; simp at h; omega
  | case3 t b rest bt hx => exact h

theorem expire_le (w now : Nat) (sl : List (Nat × Nat)) (bt : Nat) :
    (Limiter.expire w now sl bt).2 ≤ bt := by
  fun_induction Limiter.expire w now sl bt with
  | case1 bt => exact Nat.le_refl _
  | case2 t b rest bt hx ih => omega
  | case3 t b rest bt hx => exact Nat.le_refl _

/-- everything expired: the slot list is emptied -/
theorem expire_all (w now : Nat) (sl : List (Nat × Nat)) (bt : Nat)
    (h : ∀ e ∈ sl, now - e.1 > w) : (Limiter.expire w now sl bt).1 = [] := by
  fun_induction Limiter.expire w now sl bt with
  | case1 bt => rfl
  | case2 t b rest bt hx ih => exact ih (fun e he => h e (List.mem_cons_of_mem _ he))
  | case3 t b rest bt hx => exact absurd (h (t, b) List.mem_cons_self) hx

/-- the oldest slot is still inside the window: nothing changes -/
theorem expire_head_live (w now : Nat) (e : Nat × Nat) (sl : List (Nat × Nat)) (bt : Nat)
    (h : now - e.1 ≤ w) : Limiter.expire w now (e :: sl) bt = (e :: sl, bt) := by
  obtain ⟨t, b⟩ := e
  simp only [Limiter.expire]
  simp at h
  have : ¬ (now - t > w) := by omega
  simp [this]

/-- what survives `expire` is not expired at its head; what is dropped was expired -/
theorem expire_dropped (w now : Nat) (sl : List (Nat × Nat)) (bt : Nat) :
    ∃ dropped, sl = dropped ++ (Limiter.expire w now sl bt).1 ∧ ∀ e ∈ dropped, now - e.1 > w := by
  fun_induction Limiter.expire w now sl bt with
  | case1 bt => exact ⟨[], rfl, by simp⟩
  | case2 t b rest bt hx ih =>
    obtain ⟨d, hd, hall⟩ := ih
    refine ⟨(t, b) :: d, by simp [← hd], ?_⟩
    intro e he
    rcases List.mem_cons.mp he with rfl | he
    · exact hx
    · exact hall e he
  | case3 t b rest bt hx => exact ⟨[], rfl, by simp⟩

/-! ### `addToLast` -/

theorem bitsSum_addToLast (now bits : Nat) (sl : List (Nat × Nat)) :
    bitsSum (Limiter.addToLast now bits sl) = bitsSum sl + bits := by
  fun_induction Limiter.addToLast now bits sl with
  | case1 => simp
  | case2 t b h => simp
  | case3 t b h => simp
  | case4 x rest h1 ih => simp [ih]; omega

theorem addToLast_ne_nil (now bits : Nat) (sl : List (Nat × Nat)) :
    Limiter.addToLast now bits sl ≠ [] := by
  fun_induction Limiter.addToLast now bits sl <;> simp

/-- every slot start after `addToLast` is an old slot start, or it is `now` and lies more than
    5 ms after every old slot start bounded by `k` … (stated for a lower bound `k`). -/
theorem addToLast_starts (now bits : Nat) (sl : List (Nat × Nat)) (k : Nat)
    (hk : ∀ e ∈ sl, k < e.1) (hg : Gapped sl) (hne : sl ≠ []) :
    ∀ e ∈ Limiter.addToLast now bits sl, k < e.1 := by
  fun_induction Limiter.addToLast now bits sl with
  | case1 => exact absurd rfl hne
  | case2 t b h =>
    intro e he
    have := hk (t, b) (by simp)
    simp at he this
    rcases he with rfl | rfl <;> simp <;> omega
  | case3 t b h =>
    intro e he
    have := hk (t, b) (by simp)
    simp at he this
    subst he; simpa using this
  | case4 x rest h1 ih =>
    intro e he
    rcases List.mem_cons.mp he with rfl | he
    · exact hk _ List.mem_cons_self
    · have hrest : rest ≠ [] := by
        intro h; exact h1 x.1 x.2 rfl h
      exact ih (fun e he => hk e (List.mem_cons_of_mem _ he)) (List.Pairwise.of_cons hg) hrest e he

theorem gapped_addToLast (now bits : Nat) (sl : List (Nat × Nat)) (hg : Gapped sl) :
    Gapped (Limiter.addToLast now bits sl) := by
  fun_induction Limiter.addToLast now bits sl with
  | case1 => simp [Gapped]
  | case2 t b h => simp [Gapped]; omega
  | case3 t b h => simp [Gapped]
  | case4 x rest h1 ih =>
    have hrest : rest ≠ [] := by
      intro h; exact h1 x.1 x.2 rfl h
    have hg' : Gapped rest := List.Pairwise.of_cons hg
    refine List.Pairwise.cons ?_ (ih hg')
    exact addToLast_starts now bits rest (x.1 + slotNs)
      (fun e he => List.rel_of_pairwise_cons hg he) hg' hrest

/-! ### `recent`: the bits held in slots that can contain an emission made at time `≥ a` -/

def recent (a : Nat) (sl : List (Nat × Nat)) : Nat :=
  bitsSum (sl.filter (fun e => a ≤ e.1 + slotNs))

@[simp] theorem recent_nil (a : Nat) : recent a [] = 0 := rfl

theorem recent_cons (a : Nat) (e : Nat × Nat) (sl : List (Nat × Nat)) :
    recent a (e :: sl) = (if a ≤ e.1 + slotNs then e.2 else 0) + recent a sl := by
  unfold recent
  by_cases h : a ≤ e.1 + slotNs <;> simp [h]

theorem recent_le (a : Nat) (sl : List (Nat × Nat)) : recent a sl ≤ bitsSum sl := by
  induction sl with
  | nil => simp
  | cons e sl ih => rw [recent_cons, bitsSum_cons]; split <;> omega

theorem recent_addToLast_ge (a now bits : Nat) (sl : List (Nat × Nat)) :
    recent a sl ≤ recent a (Limiter.addToLast now bits sl) := by
  fun_induction Limiter.addToLast now bits sl with
  | case1 => simp
  | case2 t b h => simp only [recent_cons, recent_nil]; omega
  | case3 t b h => simp only [recent_cons, recent_nil]; split <;> omega
  | case4 x rest h1 ih => simp only [recent_cons]; omega

/-- an emission at time `now ≥ a` lands in a slot counted by `recent a` -/
theorem recent_addToLast_eq (a now bits : Nat) (sl : List (Nat × Nat)) (h : a ≤ now) :
    recent a (Limiter.addToLast now bits sl) = recent a sl + bits := by
  fun_induction Limiter.addToLast now bits sl with
  | case1 => simp only [recent_cons, recent_nil]; split <;> omega
  | case2 t b hx =>
    simp only [recent_cons, recent_nil]
    have : a ≤ now + slotNs := by omega
    simp only [this, if_true]; omega
  | case3 t b hx =>
    simp only [recent_cons, recent_nil]
    have : a ≤ t + slotNs := by omega
    simp only [this, if_true]; omega
  | case4 x rest h1 ih => simp only [recent_cons, ih]; omega

/-- an `update` made no later than `a + w - slotNs` drops no slot counted by `recent a` -/
theorem recent_expire (a w now : Nat) (sl : List (Nat × Nat)) (bt : Nat)
    (h : now + slotNs ≤ a + w) : recent a (Limiter.expire w now sl bt).1 = recent a sl := by
  fun_induction Limiter.expire w now sl bt with
  | case1 bt => rfl
  | case2 t b rest bt hx ih =>
    rw [ih, recent_cons]
    have : ¬ (a ≤ t + slotNs) := by simp at hx ⊢; omega
    simp [this]
  | case3 t b rest bt hx => rfl

/-! ### invariant preservation -/

theorem limInv_init (en : Bool) : LimInv { enabled := en } :=
  ⟨rfl, List.Pairwise.nil⟩

theorem limInv_reset (l : Limiter) : LimInv l.reset :=
  ⟨rfl, List.Pairwise.nil⟩

theorem limInv_update (l : Limiter) (w now : Nat) (h : LimInv l) : LimInv (l.update w now) := by
  unfold Limiter.update
  split
  · exact limInv_reset l
  · exact ⟨expire_total w now l.slots l.bitTotal h.total,
      List.Pairwise.sublist (expire_suffix w now l.slots l.bitTotal).sublist h.gapped⟩

theorem limInv_inform (l : Limiter) (now len : Nat) (h : LimInv l) : LimInv (l.inform now len) := by
  unfold Limiter.inform
  split
  · exact ⟨by simp [bitsSum_addToLast, h.total], gapped_addToLast _ _ _ h.gapped⟩
  · exact h

theorem LimInv.sorted {l : Limiter} (h : LimInv l) : l.slots.Pairwise (fun a b => a.1 ≤ b.1) :=
  List.Pairwise.imp (fun hab => by omega) h.gapped

/-- consecutive slot starts differ by more than the 5 ms accounting slot -/
theorem LimInv.consecutive {l : Limiter} (h : LimInv l) (i : Nat) (hi : i + 1 < l.slots.length) :
    l.slots[i].1 + slotNs < l.slots[i + 1].1 :=
  List.pairwise_iff_getElem.mp h.gapped i (i + 1) (by omega) hi (by omega)

/-! ### `update`, `allowedBytes`, `inform` facts -/

@[simp] theorem update_enabled (l : Limiter) (w now : Nat) : (l.update w now).enabled = l.enabled := by
  unfold Limiter.update Limiter.reset; split <;> rfl
@[simp] theorem inform_enabled (l : Limiter) (now n : Nat) : (l.inform now n).enabled = l.enabled := by
  unfold Limiter.inform; split <;> rfl
@[simp] theorem reset_enabled (l : Limiter) : l.reset.enabled = l.enabled := rfl

/-- `update` never increases the accounted total -/
theorem update_bitTotal_le (l : Limiter) (w now : Nat) : (l.update w now).bitTotal ≤ l.bitTotal := by
  unfold Limiter.update Limiter.reset
  split
  · simp
  · exact expire_le w now l.slots l.bitTotal

/-- `update` only removes slots (what remains is a suffix of the old slot list) -/
theorem update_slots_suffix (l : Limiter) (w now : Nat) : (l.update w now).slots <:+ l.slots := by
  unfold Limiter.update Limiter.reset
  split
  · exact List.nil_suffix
  · exact expire_suffix w now l.slots l.bitTotal

theorem update_disabled (l : Limiter) (w now : Nat) (h : l.enabled = false) :
    l.update w now = l.reset := by simp [Limiter.update, h]

theorem inform_disabled (l : Limiter) (now n : Nat) (h : l.enabled = false) :
    l.inform now n = l := by simp [Limiter.inform, h]

theorem allowedBytes_disabled (l : Limiter) (m : Nat) (h : l.enabled = false) :
    l.allowedBytes m = 0xFFFFFFFF := by simp [Limiter.allowedBytes, h, noLimit]

theorem allowedBytes_enabled (l : Limiter) (m : Nat) (h : l.enabled = true) :
    l.allowedBytes m = (m - l.bitTotal) / 8 := by simp [Limiter.allowedBytes, h]

theorem inform_bitTotal (l : Limiter) (now n : Nat) (h : l.enabled = true) :
    (l.inform now n).bitTotal = l.bitTotal + 8 * n := by
  simp [Limiter.inform, h]; omega

/-- the admission test, arithmetically: the unpadded frame still fits under the window maximum -/
theorem admitted_fits (l : Limiter) (m len : Nat) (h : l.enabled = true) (h1 : 1 ≤ len)
    (ha : len ≤ l.allowedBytes m) : l.bitTotal + 8 * len ≤ m := by
  rw [allowedBytes_enabled l m h] at ha; omega

/-- everything is older than the window: `update` empties the limiter -/
theorem update_all_expired (l : Limiter) (w now : Nat) (hen : l.enabled = true) (hinv : LimInv l)
    (h : ∀ e ∈ l.slots, now - e.1 > w) :
    (l.update w now).slots = [] ∧ (l.update w now).bitTotal = 0 := by
  have hs : (l.update w now).slots = [] := by
    simp [Limiter.update, hen, expire_all w now l.slots l.bitTotal h]
  refine ⟨hs, ?_⟩
  have := (limInv_update l w now hinv).total
  rw [this, hs]; rfl

/-! ## Part B — abstract limiter runs and the window bound -/

/-- One use of the limiter by the transport layer.
    * `update now` : `RateLimiter.update()` at time `now` (start of a `process()` tx phase);
    * `emit now len padded` : `_process_tx` hands a data frame to the CAN layer at time `now`:
      the admission test compared `len` with `allowed_bytes()`, and `inform_byte_sent(padded)`
      was called (`padded` = length of the padded CAN payload).
    (`TransportLayerLogic.reset()` empties the limiter: a run starts from the empty limiter and
    extends to the next `reset()`.) -/
inductive Step where
  | update (now : Nat)
  | emit (now len padded : Nat)
  deriving DecidableEq, Repr

def Step.time : Step → Nat
  | .update now => now
  | .emit now _ _ => now

/-- effect of one step on the limiter (window `w`) -/
def Step.exec (w : Nat) (l : Limiter) : Step → Limiter
  | .update now => l.update w now
  | .emit now _ padded => l.inform now padded

/-- the guard under which the real code performs the step (`m` = `window_bit_max`,
    `p` = largest CAN payload): an `emit` passed the admission test of `_process_tx`. -/
def Step.ok (m p : Nat) (l : Limiter) : Step → Prop
  | .update _ => True
  | .emit _ len padded => 1 ≤ len ∧ len ≤ l.allowedBytes m ∧ padded ≤ p

instance (m p : Nat) (l : Limiter) (st : Step) : Decidable (st.ok m p l) := by
  cases st <;> simp only [Step.ok] <;> infer_instance

/-- limiter after a list of steps -/
def execAll (w : Nat) (l : Limiter) : List Step → Limiter
  | [] => l
  | st :: rest => execAll w (st.exec w l) rest

/-- a run: times never go backwards (starting from `t0`) and every step's guard holds in the
    limiter state in which it is taken. No `update` is required between two `emit`s. -/
def Valid (w m p : Nat) (l : Limiter) (t0 : Nat) : List Step → Prop
  | [] => True
  | st :: rest => t0 ≤ st.time ∧ st.ok m p l ∧ Valid w m p (st.exec w l) st.time rest

instance validDec (w m p : Nat) : (l : Limiter) → (t0 : Nat) → (steps : List Step) →
    Decidable (Valid w m p l t0 steps)
  | _, _, [] => isTrue trivial
  | l, t0, st :: rest =>
    have := validDec w m p (st.exec w l) st.time rest
    by unfold Valid; infer_instance

/-- the emission history of a run: (time, bits accounted = 8 × padded length), oldest first -/
def emissions : List Step → List (Nat × Nat)
  | [] => []
  | .emit now _ padded :: rest => (now, 8 * padded) :: emissions rest
  | _ :: rest => emissions rest

/-- data-field bits handed to the CAN layer at times in `[a, b]` -/
def bitsIn (a b : Nat) (es : List (Nat × Nat)) : Nat :=
  bitsSum (es.filter (fun e => a ≤ e.1 ∧ e.1 ≤ b))

theorem bitsIn_cons (a b : Nat) (e : Nat × Nat) (es : List (Nat × Nat)) :
    bitsIn a b (e :: es) = (if a ≤ e.1 ∧ e.1 ≤ b then e.2 else 0) + bitsIn a b es := by
  unfold bitsIn
  by_cases h : a ≤ e.1 ∧ e.1 ≤ b <;> simp [h]

@[simp] theorem bitsIn_nil (a b : Nat) : bitsIn a b [] = 0 := rfl

theorem execAll_append (w : Nat) (l : Limiter) (xs ys : List Step) :
    execAll w l (xs ++ ys) = execAll w (execAll w l xs) ys := by
  induction xs generalizing l with
  | nil => rfl
  | cons x xs ih => exact ih _

theorem emissions_append (xs ys : List Step) : emissions (xs ++ ys) = emissions xs ++ emissions ys := by
  induction xs with
  | nil => rfl
  | cons x xs ih => cases x <;> simp [emissions, ih]

/-- last time of a run -/
def lastTime (t0 : Nat) : List Step → Nat
  | [] => t0
  | st :: rest => lastTime st.time rest

theorem lastTime_append (t0 : Nat) (xs ys : List Step) :
    lastTime t0 (xs ++ ys) = lastTime (lastTime t0 xs) ys := by
  induction xs generalizing t0 with
  | nil => rfl
  | cons x xs ih => exact ih _

theorem valid_append (w m p : Nat) (l : Limiter) (t0 : Nat) (xs ys : List Step) :
    Valid w m p l t0 (xs ++ ys) ↔
      Valid w m p l t0 xs ∧ Valid w m p (execAll w l xs) (lastTime t0 xs) ys := by
  induction xs generalizing l t0 with
  | nil => simp [Valid, execAll, lastTime]
  | cons x xs ih => simp [Valid, execAll, lastTime, ih, and_assoc]

theorem valid_mono_t0 (w m p : Nat) (l : Limiter) (t0 t1 : Nat) (steps : List Step)
    (h : Valid w m p l t0 steps) (ht : t1 ≤ t0) : Valid w m p l t1 steps := by
  cases steps with
  | nil => trivial
  | cons st rest => exact ⟨Nat.le_trans ht h.1, h.2⟩

theorem le_lastTime (w m p : Nat) (l : Limiter) (t0 : Nat) (steps : List Step)
    (h : Valid w m p l t0 steps) : t0 ≤ lastTime t0 steps := by
  induction steps generalizing l t0 with
  | nil => exact Nat.le_refl _
  | cons st rest ih => exact Nat.le_trans h.1 (ih _ _ h.2.2)

theorem execAll_enabled (w : Nat) (l : Limiter) (steps : List Step) :
    (execAll w l steps).enabled = l.enabled := by
  induction steps generalizing l with
  | nil => rfl
  | cons st rest ih => rw [execAll, ih]; cases st <;> simp [Step.exec]

theorem limInv_execAll (w : Nat) (l : Limiter) (steps : List Step) (h : LimInv l) :
    LimInv (execAll w l steps) := by
  induction steps generalizing l with
  | nil => exact h
  | cons st rest ih =>
    apply ih
    cases st
    · exact limInv_update _ _ _ h
    · exact limInv_inform _ _ _ h

/-- after time `b` has passed nothing more is emitted inside `[a, b]` -/
theorem bitsIn_late (w m p a b : Nat) (l : Limiter) (t0 : Nat) (steps : List Step)
    (h : Valid w m p l t0 steps) (ht : b < t0) : bitsIn a b (emissions steps) = 0 := by
  induction steps generalizing l t0 with
  | nil => rfl
  | cons st rest ih =>
    have h1 : t0 ≤ st.time := h.1
    have := ih _ _ h.2.2 (by omega)
    cases st with
    | update now => exact this
    | emit now len padded =>
      simp only [Step.time] at h1
      have hn : ¬ (a ≤ now ∧ now ≤ b) := by omega
      simpa [emissions, bitsIn_cons, hn] using this

/-- The invariant behind the window bound, for a fixed window start `a`: `g` (the bits emitted
    so far at times `≥ a`) are all still accounted, and the total stays below the admission
    ceiling plus one frame. -/
structure WInv (m p a : Nat) (l : Limiter) (g : Nat) : Prop where
  total : l.bitTotal = bitsSum l.slots
  ghost : g ≤ recent a l.slots
  ceil : l.bitTotal ≤ m + 8 * (p - 1)

theorem wInv_le {m p a : Nat} {l : Limiter} {g : Nat} (h : WInv m p a l g) : g ≤ m + 8 * (p - 1) :=
  Nat.le_trans h.ghost (Nat.le_trans (recent_le a l.slots) (h.total ▸ h.ceil))

theorem wInv_update {w m p a now : Nat} {l : Limiter} {g : Nat} (hen : l.enabled = true)
    (h : WInv m p a l g) (hn : now + slotNs ≤ a + w) : WInv m p a (l.update w now) g := by
  have e : l.update w now = ⟨l.enabled, (Limiter.expire w now l.slots l.bitTotal).fst,
      (Limiter.expire w now l.slots l.bitTotal).snd⟩ := by
    simp [Limiter.update, hen]
  rw [e]
  refine ⟨expire_total w now l.slots l.bitTotal h.total, ?_, ?_⟩
  · simpa [recent_expire a w now l.slots l.bitTotal hn] using h.ghost
  · exact Nat.le_trans (expire_le w now l.slots l.bitTotal) h.ceil

theorem wInv_emit {m p a now len padded : Nat} {l : Limiter} {g : Nat} (hen : l.enabled = true)
    (h : WInv m p a l g) (h1 : 1 ≤ len) (h2 : len ≤ l.allowedBytes m) (h3 : padded ≤ p) :
    WInv m p a (l.inform now padded) (if a ≤ now then g + 8 * padded else g) := by
  have hfit := admitted_fits l m len hen h1 h2
  have e : l.inform now padded = ⟨l.enabled, Limiter.addToLast now (padded * 8) l.slots,
      l.bitTotal + padded * 8⟩ := by
    simp [Limiter.inform, hen]
  rw [e]
  refine ⟨by simp [bitsSum_addToLast, h.total], ?_, ?_⟩
  · simp only
    split
    · rename_i ha
      rw [recent_addToLast_eq a now (padded * 8) l.slots ha]
      have := h.ghost; omega
    · exact Nat.le_trans h.ghost (recent_addToLast_ge a now (padded * 8) l.slots)
  · simp only; omega

theorem wInv_empty {m p a : Nat} (en : Bool) : WInv m p a { enabled := en } 0 :=
  ⟨rfl, Nat.zero_le _, Nat.zero_le _⟩

/-- the window bound, generalised over the starting limiter -/
theorem window_core (w m p a b : Nat) (hab : b + slotNs ≤ a + w) (l : Limiter) (t0 : Nat)
    (steps : List Step) (g : Nat) (hen : l.enabled = true) (hv : Valid w m p l t0 steps)
    (hinv : WInv m p a l g) : g + bitsIn a b (emissions steps) ≤ m + 8 * (p - 1) := by
  induction steps generalizing l t0 g with
  | nil => simpa [emissions] using wInv_le hinv
  | cons st rest ih =>
    obtain ⟨ht, hok, hrest⟩ := hv
    by_cases hb : st.time ≤ b
    · cases st with
      | update now =>
        simp only [Step.time] at hb
        exact ih (l.update w now) now g (by simp [hen]) hrest
          (wInv_update hen hinv (by omega))
      | emit now len padded =>
        simp only [Step.time] at hb
        obtain ⟨h1, h2, h3⟩ := hok
        have hi := wInv_emit (a := a) (now := now) hen hinv h1 h2 h3
        have := ih (l.inform now padded) now _ (by simp [hen]) hrest hi
        by_cases ha : a ≤ now
        · simp only [ha, if_true] at this
          have hc : (a ≤ now ∧ now ≤ b) := ⟨ha, hb⟩
          simp only [emissions, bitsIn_cons, hc, and_self, if_true]
          omega
        · simp only [ha, if_false] at this
          have hc : ¬ (a ≤ now ∧ now ≤ b) := fun h => ha h.1
          simpa [emissions, bitsIn_cons, hc] using this
    · have hz2 : bitsIn a b (emissions (st :: rest)) = 0 := by
        have hlate := bitsIn_late w m p a b (st.exec w l) st.time rest hrest (by omega)
        cases st with
        | update now => exact hlate
        | emit now len padded =>
          simp only [Step.time] at hb
          have hc : ¬ (a ≤ now ∧ now ≤ b) := fun h => hb h.2
          simpa [emissions, bitsIn_cons, hc] using hlate
      rw [hz2]; exact wInv_le hinv

/-! ## Part C — the limiter inside `processTx` -/

theorem nearestFd_le {n f : Nat} (h : nearestFd n = some f) : n ≤ f ∧ f ≤ 64 := by
  unfold nearestFd at h
  grind

theorem dlcOf_le {c : Cfg} {n dl : Nat} (h : dlcOf c n = some dl) : n ≤ 64 := by
  unfold dlcOf at h
  split at h
  · contradiction
  · rename_i f hf
    have := nearestFd_le hf; omega

theorem pad_len {c : Cfg} {d pd : Bytes} (h : pad c d = some pd) : d.length ≤ pd.length := by
  unfold pad at h
  split at h
  · contradiction
  · injection h with h; subst h; simp

theorem makeTxMsg_len {c : Cfg} {a : Addr} {i : Nat} {d : Bytes} {msg : CanMsg}
    (h : makeTxMsg c a i d = some msg) : d.length ≤ msg.data.length ∧ msg.data.length ≤ 64 := by
  unfold makeTxMsg at h
  split at h
  · contradiction
  · rename_i pd hpd
    split at h
    · contradiction
    · rename_i dl hdl
      injection h with h; subst h
      exact ⟨pad_len hpd, dlcOf_le hdl⟩

/-- the parts of the state the limiter logic depends on are untouched -/
structure Same (s s' : State) : Prop where
  rl : s'.rl = s.rl
  now : s'.now = s.now
  cfg : s'.cfg = s.cfg
  addr : s'.addr = s.addr

/-- an emitted data frame passed the admission test: a length `len ≥ 1` not larger than the
    (padded) CAN payload was compared with `allowed`; the payload is at most 64 bytes. -/
def Adm (allowed : Nat) (msg : CanMsg) : Prop :=
  ∃ len, 1 ≤ len ∧ len ≤ allowed ∧ 1 ≤ msg.data.length ∧ msg.data.length ≤ 64

theorem adm_iff (a : Nat) (msg : CanMsg) :
    Adm a msg ↔ 1 ≤ a ∧ 1 ≤ msg.data.length ∧ msg.data.length ≤ 64 := by
  constructor
  · rintro ⟨len, h1, h2, h3, h4⟩; exact ⟨by omega, h3, h4⟩
  · rintro ⟨h1, h2, h3⟩; exact ⟨1, by omega, h1, h2, h3⟩

/-- a parked frame is a well-formed CAN payload -/
def StandbyOk (s : State) : Prop :=
  ∀ msg, s.standby = some msg → 1 ≤ msg.data.length ∧ msg.data.length ≤ 64

/-- what `startTx` builds, independently of the limiter -/
inductive Built where
  | fail (s : State)
  | sf (s : State) (len : Nat) (msg : CanMsg)
  | ff (s : State) (len : Nat) (msg : CanMsg)

def buildTx (s : State) (r : Req) : Built :=
  let pl := s.txPrefixLen
  let bigMin := match s.cfg.txMinLen with | some m => m > 8 | none => false
  let sizeOnFirst := (r.remaining + pl ≤ 7) && !bigMin
  let off := if sizeOnFirst then 1 else 2
  let total := r.size
  if total + off + pl ≤ s.cfg.txDl then
    let (s, _, res) := s.consumeActive r total true
    match res with
    | none => .fail ((s.error .BadGenerator).stopSending false)
    | some payload =>
      let hdr : Bytes := if sizeOnFirst then [u8 payload.length] else [0, u8 payload.length]
      let msgData := s.addr.tx.txPrefix ++ hdr ++ payload
      match makeTxMsg s.cfg s.addr (s.addr.tx.txId r.tat) msgData with
      | none => .fail (s.raise .ValueError)
      | some msg => .sf s msgData.length msg
  else
    let s := { s with txFrameLen := total }
    let short := total ≤ 0xFFF
    let dataLen := if short then s.cfg.txDl - 2 - pl else s.cfg.txDl - 6 - pl
    let (s, _, res) := s.consumeActive r dataLen true
    match res with
    | none => .fail ((s.error .BadGenerator).stopSending false)
    | some payload =>
      let hdr : Bytes :=
        if short then [u8 (0x10 + total / 256 % 16), u8 (total % 256)]
        else [0x10, 0x00, u8 (total / 16777216 % 256), u8 (total / 65536 % 256), u8 (total / 256 % 256), u8 (total % 256)]
      let msgData := s.addr.tx.txPrefix ++ hdr ++ payload
      let s := { s with txSeq := 1 }
      match makeTxMsg s.cfg s.addr (s.addr.tx.txId .physical) msgData with
      | none => .fail (s.raise .ValueError)
      | some msg => .ff s msgData.length msg

/-- `startTx` = build the frame, then let the limiter decide between sending and parking -/
def dispatch (a : Nat) : Built → State × Option CanMsg
  | .fail s => (s, none)
  | .sf s len msg =>
    if len > a then ({ s with standby := some msg, txState := .sfStandby }, none)
    else (s.stopSending true, some msg)
  | .ff s len msg =>
    if len ≤ a then (({ s with txState := .waitFc }).startRxFcTimer, some msg)
    else ({ s with standby := some msg, txState := .ffStandby }, none)

theorem startTx_eq (s : State) (r : Req) (a : Nat) : s.startTx r a = dispatch a (buildTx s r) := by
  unfold startTx buildTx
  grind [dispatch]

theorem consumeActive_frame (s : State) (r : Req) (n : Nat) (e : Bool) :
    (s.consumeActive r n e).1.rl = s.rl ∧ (s.consumeActive r n e).1.now = s.now ∧
    (s.consumeActive r n e).1.cfg = s.cfg ∧ (s.consumeActive r n e).1.addr = s.addr ∧
    (s.consumeActive r n e).1.standby = s.standby ∧ (s.consumeActive r n e).1.txState = s.txState ∧
    (s.consumeActive r n e).1.exc = s.exc := by
  unfold consumeActive
  grind [emit]

theorem buildTx_spec (s : State) (r : Req) :
    match buildTx s r with
    | .fail s' => Same s s' ∧ (s'.standby = none ∨ s'.standby = s.standby) ∧
        (s'.txState = .idle ∨ s'.txState = s.txState)
    | .sf s1 len msg => Same s s1 ∧ s1.standby = s.standby ∧ s1.txState = s.txState ∧
        1 ≤ len ∧ len ≤ msg.data.length ∧ msg.data.length ≤ 64
    | .ff s1 len msg => Same s s1 ∧ s1.standby = s.standby ∧ s1.txState = s.txState ∧
        1 ≤ len ∧ len ≤ msg.data.length ∧ msg.data.length ≤ 64 := by
  have hc := consumeActive_frame
  unfold buildTx
  grind [stopSending, State.error, emit, raise, makeTxMsg_len, Same]

theorem consume_len (r : Req) (n : Nat) (e : Bool) (d : Bytes) (h : (r.consume n e).2 = some d) :
    d.length ≤ n := by
  unfold Req.consume at h
  grind [List.length_take]

theorem consumeActive_len (s : State) (r : Req) (n : Nat) (e : Bool) (d : Bytes)
    (h : (s.consumeActive r n e).2.2 = some d) : d.length ≤ n := by
  unfold consumeActive at h
  exact consume_len r n e d h

/-- the limiter withholds a due Consecutive Frame -/
def cfHeld (s : State) (allowed : Nat) : Prop :=
  ∃ rbs r, s.remoteBs = some rbs ∧ s.active = some r ∧ s.timerStmin.timedOut s.now = true ∧
    allowed < min (s.cfg.txDl - 1 - s.txPrefixLen) r.remaining

theorem transmitCf_held (s : State) (a : Nat) (h : cfHeld s a) : s.transmitCf a = (s, none, false) := by
  obtain ⟨rbs, r, h1, h2, h3, h4⟩ := h
  unfold transmitCf
  simp only [h1, h2, h3, if_true]
  have : ¬ (min (s.cfg.txDl - 1 - s.txPrefixLen) r.remaining ≤ a) := by omega
  simp only [this, if_false]

theorem transmitCf_indep (s : State) (a a' : Nat) (h : ¬ cfHeld s a) (h' : ¬ cfHeld s a') :
    s.transmitCf a = s.transmitCf a' := by
  unfold cfHeld at h h'
  unfold transmitCf
  grind

/-- inner part of `transmitCf`: build the Consecutive Frame -/
def cfFrame (s : State) (payload : Bytes) : State × Option CanMsg × Bool :=
  if payload.length > 0 then
    let msgData := s.addr.tx.txPrefix ++ [u8 (0x20 + s.txSeq)] ++ payload
    match makeTxMsg s.cfg s.addr (s.addr.tx.txId .physical) msgData with
    | none => (s.raise .ValueError, none, true)
    | some msg =>
      ({ s with txSeq := (s.txSeq + 1) % 16, timerStmin := s.timerStmin.startAt s.now,
                txBlockCnt := s.txBlockCnt + 1 }, some msg, false)
  else (s, none, false)

/-- tail of `transmitCf`: end of message / end of block -/
def cfFinish (rbs : Nat) (r' : Req) (x : State × Option CanMsg × Bool) : State × Option CanMsg × Bool :=
  if x.2.2 then (x.1, none, false) else
  if r'.depleted then
    if r'.remaining > 0 then ((x.1.error .BadGenerator).stopSending false, x.2.1, false)
    else (x.1.stopSending true, x.2.1, false)
  else if rbs ≠ 0 && x.1.txBlockCnt ≥ rbs then
    (({ x.1 with txState := .waitFc }).startRxFcTimer, x.2.1, true)
  else (x.1, x.2.1, false)

theorem transmitCf_eq (s : State) (a : Nat) : s.transmitCf a =
    match s.remoteBs, s.active with
    | none, _ => (s.raise .AssertionError, none, false)
    | _, none => (s.raise .AssertionError, none, false)
    | some rbs, some r =>
      if s.timerStmin.timedOut s.now then
        if min (s.cfg.txDl - 1 - s.txPrefixLen) r.remaining ≤ a then
          match (s.consumeActive r (min (s.cfg.txDl - 1 - s.txPrefixLen) r.remaining) false).2.2 with
          | none => ((s.consumeActive r (min (s.cfg.txDl - 1 - s.txPrefixLen) r.remaining) false).1.raise
                      .AssertionError, none, false)
          | some payload =>
            cfFinish rbs (s.consumeActive r (min (s.cfg.txDl - 1 - s.txPrefixLen) r.remaining) false).2.1
              (cfFrame (s.consumeActive r (min (s.cfg.txDl - 1 - s.txPrefixLen) r.remaining) false).1 payload)
        else (s, none, false)
      else (s, none, false) := by
  unfold transmitCf
  rcases h1 : s.remoteBs with _ | rbs <;> rcases h2 : s.active with _ | r <;> simp only []
  rcases ht : s.timerStmin.timedOut s.now with _ | _ <;> simp only [Bool.false_eq_true, if_false, if_true]
  · by_cases hp : min (s.cfg.txDl - 1 - s.txPrefixLen) r.remaining ≤ a <;> simp only [hp, if_true, if_false]
    rcases hca : s.consumeActive r (min (s.cfg.txDl - 1 - s.txPrefixLen) r.remaining) false with ⟨s1, r', res⟩
    cases res with
    | none => rfl
    | some payload =>
      simp only []
      unfold cfFinish cfFrame
      by_cases hl : payload.length > 0 <;> simp only [hl, if_true, if_false]
      · rcases hm : makeTxMsg s1.cfg s1.addr (s1.addr.tx.txId Tat.physical)
                    (s1.addr.tx.txPrefix ++ [u8 (32 + s1.txSeq)] ++ payload) with _ | msg <;> simp

theorem cfFrame_spec (s : State) (p : Bytes) :
    Same s (cfFrame s p).1 ∧ (cfFrame s p).1.standby = s.standby ∧
    (cfFrame s p).1.txState = s.txState ∧
    (∀ msg, (cfFrame s p).2.1 = some msg → 1 ≤ p.length ∧ 1 ≤ msg.data.length ∧ msg.data.length ≤ 64) := by
  unfold cfFrame
  refine ⟨?_, ?_, ?_, ?_⟩
  · constructor <;> grind [raise]
  · grind [raise]
  · grind [raise]
  · intro msg h
    split at h
    · simp only [] at h
      split at h
      · simp at h
      · rename_i m hm
        simp at h; subst h
        have := makeTxMsg_len hm
        simp at this
        omega
    · simp at h

theorem cfFinish_spec (rbs : Nat) (r' : Req) (x : State × Option CanMsg × Bool) :
    Same x.1 (cfFinish rbs r' x).1 ∧
    ((cfFinish rbs r' x).1.standby = none ∨ (cfFinish rbs r' x).1.standby = x.1.standby) ∧
    ((cfFinish rbs r' x).1.txState = .idle ∨ (cfFinish rbs r' x).1.txState = .waitFc ∨
      (cfFinish rbs r' x).1.txState = x.1.txState) ∧
    ((cfFinish rbs r' x).2.1 = none ∨ (cfFinish rbs r' x).2.1 = x.2.1) := by
  unfold cfFinish
  refine ⟨?_, ?_, ?_, ?_⟩
  · constructor <;> grind [stopSending, State.error, emit, startRxFcTimer]
  · grind [stopSending, State.error, emit, startRxFcTimer]
  · grind [stopSending, State.error, emit, startRxFcTimer]
  · grind [stopSending, State.error, emit, startRxFcTimer]


theorem same_refl (s : State) : Same s s := ⟨rfl, rfl, rfl, rfl⟩
theorem same_trans {a b c : State} (h1 : Same a b) (h2 : Same b c) : Same a c :=
  ⟨h2.rl.trans h1.rl, h2.now.trans h1.now, h2.cfg.trans h1.cfg, h2.addr.trans h1.addr⟩
theorem same_raise (s : State) (e : PyExc) : Same s (s.raise e) := ⟨rfl, rfl, rfl, rfl⟩

theorem same_consumeActive (s : State) (r : Req) (n : Nat) (e : Bool) : Same s (s.consumeActive r n e).1 := by
  have := consumeActive_frame s r n e
  exact ⟨this.1, this.2.1, this.2.2.1, this.2.2.2.1⟩

theorem transmitCf_spec (s : State) (a : Nat) :
    Same s (s.transmitCf a).1 ∧
    ((s.transmitCf a).1.standby = none ∨ (s.transmitCf a).1.standby = s.standby) ∧
    ((s.transmitCf a).1.txState = .idle ∨ (s.transmitCf a).1.txState = .waitFc ∨
      (s.transmitCf a).1.txState = s.txState) ∧
    (∀ msg, (s.transmitCf a).2.1 = some msg → Adm a msg) := by
  rw [transmitCf_eq]
  simp only [adm_iff]
  split
  · exact ⟨same_raise _ _, Or.inr rfl, Or.inr (Or.inr rfl), by simp⟩
  · exact ⟨same_raise _ _, Or.inr rfl, Or.inr (Or.inr rfl), by simp⟩
  · rename_i rbs r _ _
    split
    · split
      · rename_i hp
        have hc := consumeActive_frame s r (min (s.cfg.txDl - 1 - s.txPrefixLen) r.remaining) false
        have hs := same_consumeActive s r (min (s.cfg.txDl - 1 - s.txPrefixLen) r.remaining) false
        have hl := consumeActive_len s r (min (s.cfg.txDl - 1 - s.txPrefixLen) r.remaining) false
        split
        · exact ⟨same_trans hs (same_raise _ _), Or.inr hc.2.2.2.2.1, Or.inr (Or.inr hc.2.2.2.2.2.1), by simp⟩
        · rename_i payload hpay
          have h1 := cfFrame_spec (s.consumeActive r (min (s.cfg.txDl - 1 - s.txPrefixLen) r.remaining) false).1 payload
          have h2 := cfFinish_spec rbs (s.consumeActive r (min (s.cfg.txDl - 1 - s.txPrefixLen) r.remaining) false).2.1
            (cfFrame (s.consumeActive r (min (s.cfg.txDl - 1 - s.txPrefixLen) r.remaining) false).1 payload)
          have hl' := hl payload hpay
          refine ⟨same_trans hs (same_trans h1.1 h2.1), ?_, ?_, ?_⟩
          · grind
          · grind
          · intro msg hm
            rcases h2.2.2.2 with h | h
            · rw [h] at hm; simp at hm
            · rw [h] at hm
              have := h1.2.2.2 msg hm
              omega
      · exact ⟨same_refl _, Or.inr rfl, Or.inr (Or.inr rfl), by simp⟩
    · exact ⟨same_refl _, Or.inr rfl, Or.inr (Or.inr rfl), by simp⟩
end Isotp.C15
