import Isotp
import Isotp.Sock
import Isotp.Threaded
import Isotp.Spec.Segment
import Isotp.Net
import Isotp.Proofs.Segment
/-
  Line-protocol driver: reads one operation per line on stdin, executes it on the model,
  prints exactly one output line per input line. See harness/proto.md.
-/
open Isotp

def hexDigit (n : Nat) : Char := if n < 10 then Char.ofNat (48 + n) else Char.ofNat (87 + n)

def hexOf (d : Bytes) : String :=
  if d.isEmpty then "-" else
  String.ofList (d.foldr (fun b acc => hexDigit (b.toNat / 16) :: hexDigit (b.toNat % 16) :: acc) [])

def hexVal (c : Char) : Option Nat :=
  if '0' ≤ c && c ≤ '9' then some (c.toNat - 48)
  else if 'a' ≤ c && c ≤ 'f' then some (c.toNat - 87)
  else if 'A' ≤ c && c ≤ 'F' then some (c.toNat - 55)
  else none

def parseHexList : List Char → Option Bytes
  | [] => some []
  | a :: b :: rest => do
    let x ← hexVal a
    let y ← hexVal b
    let r ← parseHexList rest
    pure (u8 (x * 16 + y) :: r)
  | _ => none

def parseHex (s : String) : Option Bytes := if s = "-" then some [] else parseHexList s.toList

def b01 (b : Bool) : String := if b then "1" else "0"

def parseBool (s : String) : Bool := s = "1"

def parsePyVal (s : String) : PyVal :=
  if s = "N" then .none
  else if s = "b0" then .bool false
  else if s = "b1" then .bool true
  else if s = "fnan" then .nan
  else if s = "finf" then .posInf
  else if s = "f-inf" then .negInf
  else match s.toList with
    | 'i' :: r => match (String.ofList r).toInt? with | some i => .int i | none => .other 0
    | 's' :: r => .str ((String.ofList r).toNat?.getD 0)
    | 'o' :: r => .other ((String.ofList r).toNat?.getD 0)
    | 'f' :: r =>
      match (String.ofList r).splitOn "/" with
      | [n, d] => match n.toInt?, d.toNat? with
        | some n, some d => .float n d
        | _, _ => .other 0
      | _ => .other 0
    | _ => .other 0

def parseOptNat (s : String) : Option Nat := if s = "N" then none else s.toNat?

abbrev KV := List (String × String)

def parseKV (toks : List String) : KV :=
  toks.filterMap fun t => match t.splitOn "=" with
    | [k, v] => some (k, v)
    | _ => none

def KV.get (kv : KV) (k : String) (d : String) : String :=
  match kv.find? (·.1 = k) with | some p => p.2 | none => d

def parseAddrArgs (kv : KV) (pre : String) : AddrArgs :=
  let g := fun k d => kv.get (pre ++ k) d
  { mode := (g "mode" "x").toNat?.bind Mode.ofNat?,
    txid := parsePyVal (g "txid" "N"), rxid := parsePyVal (g "rxid" "N"),
    ta := parsePyVal (g "ta" "N"), sa := parsePyVal (g "sa" "N"), ae := parsePyVal (g "ae" "N"),
    physId := parseOptNat (g "phys" "N"), funcId := parseOptNat (g "func" "N"),
    rxOnly := parseBool (g "rxonly" "0"), txOnly := parseBool (g "txonly" "0") }

def parseCfg (kv : KV) : Cfg :=
  let n := fun k (d : Nat) => (kv.get k (toString d)).toNat?.getD d
  let b := fun k => parseBool (kv.get k "0")
  { stmin := n "stmin" 0, blocksize := n "bs" 8, overrideStminNs := parseOptNat (kv.get "ovr" "N"),
    tFc := n "tfc" 1000000000, tCf := n "tcf" 1000000000, txPadding := parseOptNat (kv.get "pad" "N"),
    wftmax := n "wft" 0, txDl := n "txdl" 8, txMinLen := parseOptNat (kv.get "minlen" "N"),
    maxFrameSize := n "mfs" 4095, canFd := b "fd", brs := b "brs",
    defaultTat := if kv.get "dtat" "0" = "1" then .functional else .physical,
    rlEnable := b "rle", rlWindowNs := n "rlw" 200000000, rlBitMax := n "rlb" 20000000,
    listen := b "listen", blocking := b "blocking" }

def mkAddr (kv : KV) : Except PyExc Addr :=
  if parseBool (kv.get "asym" "0") then do
    let t ← mkAddress (parseAddrArgs kv "t.")
    let r ← mkAddress (parseAddrArgs kv "r.")
    mkAsym t r
  else do
    let h ← mkAddress (parseAddrArgs kv "")
    mkSym h

def showMsg (m : CanMsg) : String :=
  s!"{m.id}:{b01 m.ext}:{m.dlc}:{b01 m.fd}:{b01 m.brs}:{hexOf m.data}"

def showEv : Ev → String
  | .tx t m => s!"tx@{t}:{showMsg m}"
  | .err t e => s!"err@{t}:{e.name}"
  | .done id ok => s!"done:{id}:{b01 ok}"
  | .deliver p => s!"deliver:{hexOf p}"
  | .pull id n => s!"pull:{id}:{n}"
  | .rx t m => s!"rx@{t}:{m.id}:{b01 m.ext}:{hexOf m.data}"
  | .rxNone t => s!"rxn@{t}"

/-- oldest-first event list with adjacent pulls of one request merged -/
def mergePulls : List Ev → List Ev
  | .pull i a :: .pull j b :: rest =>
    if i = j then mergePulls (.pull i (a + b) :: rest) else .pull i a :: mergePulls (.pull j b :: rest)
  | e :: rest => e :: mergePulls rest
  | [] => []
termination_by l => l.length

def showEvents (evs : List Ev) : String :=
  ";".intercalate ((mergePulls evs).map showEv)

def rxStN : RxSt → Nat | .idle => 0 | .waitCf => 1
def txStN : TxSt → Nat | .idle => 0 | .waitFc => 1 | .transmitCf => 2 | .sfStandby => 3 | .ffStandby => 4

def showStatus (s : State) : String :=
  s!"rx={rxStN s.rxState} tx={txStN s.txState} av={b01 s.available} tr={b01 s.transmitting} th={b01 s.isTxThrottled} q={s.txQueue.length}"

structure Drv extends Net where
  addrs  : Array (Option Half) := #[]
  sock    : Sock.Sock := {}
  tl      : Option TL := none
  lim     : Limiter := {}      -- a bare `RateLimiter` object (class-level runs: `lim ...`)
  limW    : Nat := 0
  limM    : Nat := 0

/-- run an operation on layer i (`Net.onLayer`) and format the output line -/
def onLayer (d : Drv) (i : Nat) (f : State → State × String) : Drv × String :=
  match d.toNet.onLayer i f with
  | none => (d, "bad-layer")
  | some (n, s, evs, res) =>
    let line := match s.exc with
      | some e => s!"{showEvents evs}|exc {e.name}|{showStatus s}"
      | none => s!"{showEvents evs}|{res}|{showStatus s}"
    ({ d with toNet := n }, line)

def showCall : Sock.Call → String
  | .setopt lvl opt d => s!"so:{lvl}:{opt}:{hexOf d}"
  | .bind r t => s!"bind:{r}:{t}"
  | .close => "close"

def sockLine (s0 s : Sock.Sock) (res : String) : String :=
  let newCalls := (s.calls.take (s.calls.length - s0.calls.length)).reverse
  s!"{";".intercalate (newCalls.map showCall)}|{res}|bound={b01 s.bound} closed={b01 s.closed}"

def sockStep (s : Sock.Sock) (toks : List String) : Sock.Sock × String :=
  match toks with
  | "new" :: rest =>
    let kv := parseKV rest
    let n := fun k (d : Nat) => (kv.get k (toString d)).toNat?.getD d
    let s1 : Sock.Sock := { k := {
      opts := { flags := n "flags" 0, frameTxtime := n "ftt" 0, extAddress := n "ext" 0, txpad := n "txpad" 0xCC,
                rxpad := n "rxpad" 0xCC, rxExtAddress := n "rxext" 0 },
      fc := { bs := n "bs" 0, stmin := n "stmin" 0, wftmax := n "wft" 0 },
      ll := { mtu := n "mtu" 16, txDl := n "txdl" 8, txFlags := n "txflags" 0 },
      txStmin := n "txstmin" 0 } }
    (s1, "ok")
  | "set_opts" :: rest =>
    let kv := parseKV rest
    let g := fun k => parsePyVal (kv.get k "N")
    match Sock.setOpts s { optflag := g "optflag", frameTxtime := g "frame_txtime", extAddress := g "ext_address",
                           txpad := g "txpad", rxpad := g "rxpad", rxExtAddress := g "rx_ext_address", txStmin := g "tx_stmin" } with
    | .error e => (s, sockLine s s s!"exc {e.name}")
    | .ok (s1, o) => (s1, sockLine s s1 s!"ok {o.flags} {o.frameTxtime} {o.extAddress} {o.txpad} {o.rxpad} {o.rxExtAddress}")
  | "set_fc_opts" :: rest =>
    let kv := parseKV rest
    let g := fun k => parsePyVal (kv.get k "N")
    match Sock.setFcOpts s (g "bs") (g "stmin") (g "wftmax") with
    | .error e => (s, sockLine s s s!"exc {e.name}")
    | .ok (s1, o) => (s1, sockLine s s1 s!"ok {o.bs} {o.stmin} {o.wftmax}")
  | "set_ll_opts" :: rest =>
    let kv := parseKV rest
    let g := fun k => parsePyVal (kv.get k "N")
    match Sock.setLlOpts s (g "mtu") (g "tx_dl") (g "tx_flags") with
    | .error e => (s, sockLine s s s!"exc {e.name}")
    | .ok (s1, o) => (s1, sockLine s s1 s!"ok {o.mtu} {o.txDl} {o.txFlags}")
  | ["get_opts"] =>
    let o := Sock.parseOpts (Sock.layoutOpts s.k.opts)
    (s, sockLine s s s!"ok {o.flags} {o.frameTxtime} {o.extAddress} {o.txpad} {o.rxpad} {o.rxExtAddress}")
  | ["get_fc_opts"] =>
    let o := Sock.parseFc (Sock.layoutFc s.k.fc)
    (s, sockLine s s s!"ok {o.bs} {o.stmin} {o.wftmax}")
  | ["get_ll_opts"] =>
    let o := Sock.parseLl (Sock.layoutLl s.k.ll)
    (s, sockLine s s s!"ok {o.mtu} {o.txDl} {o.txFlags}")
  | "bind" :: rest =>
    let kv := parseKV rest
    match mkAddr kv with
    | .error e => (s, sockLine s s s!"addr-exc {e.name}")
    | .ok a =>
      match Sock.bind s a (parseBool (kv.get "asym" "0")) with
      | .error e => (s, sockLine s s s!"exc {e.name}")
      | .ok s1 => (s1, sockLine s s1 "ok")
  | "bindfail" :: rest =>
    -- the kernel refuses the bind (OSError: unknown interface, EBADF ...): everything `bind()` did before the kernel call stands
    -- (the extended-address options were already written), but the wrapper is NOT bound
    let kv := parseKV rest
    match mkAddr kv with
    | .error e => (s, sockLine s s s!"addr-exc {e.name}")
    | .ok a =>
      match Sock.bind s a (parseBool (kv.get "asym" "0")) with
      | .error e => (s, sockLine s s s!"exc {e.name}")
      | .ok s1 =>
        let s2 : Sock.Sock := { s1 with bound := s.bound, k := { s1.k with bound := s.k.bound } }
        (s2, sockLine s s2 "exc OSError")
  | ["send"] => (s, sockLine s s (match Sock.ioGuard s with | some e => s!"exc {e.name}" | none => "ok"))
  | ["recv"] => (s, sockLine s s (match Sock.ioGuard s with | some e => s!"exc {e.name}" | none => "ok"))
  | ["close"] => let s1 := Sock.close s; (s1, sockLine s s1 "ok")
  | _ => (s, "bad-op")

def parseTat (s : String) : Option Tat :=
  if s = "0" then some .physical else if s = "1" then some .functional else none

def removeAt {α} (l : List α) (k : Nat) : List α := l.take k ++ l.drop (k + 1)
def dupAt {α} (l : List α) (k : Nat) : List α :=
  match l[k]? with
  | some x => l.take (k + 1) ++ [x] ++ l.drop (k + 1)
  | none => l

def showLim (l : Limiter) (m : Nat) : String :=
  s!"a={l.allowedBytes m} tot={l.bitTotal} n={l.slots.length}"

def step (d : Drv) (line : String) : Drv × String :=
  let toks := (line.trimAscii.toString.splitOn " ").filter (· ≠ "")
  match toks with
  | "layer" :: i :: rest =>
    let kv := parseKV rest
    match i.toNat? with
    | none => (d, "bad-op")
    | some i =>
      match mkAddr kv with
      | .error e => (d, s!"exc {e.name}")
      | .ok a =>
        ({ d with toNet := d.toNet.setLayer i (State.init (parseCfg kv) a) }, "ok")
  | "setaddr" :: i :: rest =>
    -- `set_address(address)`: the layer keeps all its state and uses the new address from now on
    let kv := parseKV rest
    (match i.toNat? with
    | none => (d, "bad-op")
    | some i =>
      match mkAddr kv with
      | .error e => (d, s!"exc {e.name}")
      | .ok a => onLayer d i fun s => ({ s with addr := a }, "ok"))
  | ["send", i, id, size, hex, tat, instr] =>
    match i.toNat?, id.toNat?, size.toInt?, parseHex hex with
    | some i, some id, some size, some src =>
      onLayer d i fun s =>
        let (s, e) := s.send { id := id, size := size, src := src, tat := parseTat tat, instr := parseBool instr }
        (s, match e with | some e => s!"exc {e.name}" | none => "ok")
    | _, _, _, _ => (d, "bad-op")
  | ["genclose", i, id] =>
    -- the environment closes the user generator of request `id`: whatever it had still to yield is gone (`src := []`)
    match i.toNat?, id.toNat? with
    | some i, some id =>
      onLayer d i fun s =>
        let cut := fun (r : Req) => if r.id = id then { r with src := [] } else r
        ({ s with active := s.active.map cut, txQueue := s.txQueue.map cut }, "ok")
    | _, _ => (d, "bad-op")
  | ["frame", i, dt, id, ext, hex] =>
    match i.toNat?, dt.toNat?, id.toNat?, parseHex hex with
    | some i, some dt, some id, some data =>
      onLayer d i fun s => (s.pushFrame dt { id := id, ext := parseBool ext, data := data }, "ok")
    | _, _, _, _ => (d, "bad-op")
  | ["process", i, doRx, doTx] =>
    match i.toNat? with
    | some i =>
      onLayer d i fun s =>
        let (s, st, oof) := s.process (parseBool doRx) (parseBool doTx)
        (s, if oof then "FUEL" else s!"stats {st.received} {st.processed} {st.sent} {st.frames}")
    | none => (d, "bad-op")
  | ["mnow", t] =>
    match t.toNat? with
    | some t => ({ d with now := t }, "ok")
    | none => (d, "bad-op")
  | ["mcheck", i] =>
    match i.toNat? with
    | some i => onLayer d i fun s => (s.checkTimeoutsRx, "ok")
    | none => (d, "bad-op")
  | ["mprx", i, id, ext, hex] =>
    match i.toNat?, id.toNat?, parseHex hex with
    | some i, some id, some data =>
      onLayer d i fun s =>
        let (s, imm, fr) := s.processRx { id := id, ext := parseBool ext, data := data }
        (s, s!"imm={b01 imm} fr={b01 fr}")
    | _, _, _ => (d, "bad-op")
  | ["mupd", i] =>
    match i.toNat? with
    | some i => onLayer d i fun s => ({ s with rl := s.rl.update s.cfg.rlWindowNs s.now }, "ok")
    | none => (d, "bad-op")
  | ["mptx", i] =>
    match i.toNat? with
    | some i =>
      onLayer d i fun s =>
        let (s, out, imm) := s.processTx
        (s, s!"msg={match out with | some m => showMsg m | none => "None"} imm={b01 imm}")
    | none => (d, "bad-op")
  | ["tick", dt] =>
    match dt.toNat? with
    | some dt => ({ d with toNet := d.toNet.tick dt }, "ok")
    | none => (d, "bad-op")
  | ["recv", i] =>
    match i.toNat? with
    | some i => onLayer d i fun s =>
        let (s, r) := s.recv
        (s, match r with | some p => s!"data {hexOf p}" | none => "None")
    | none => (d, "bad-op")
  | ["stop_sending", i] =>
    match i.toNat? with
    | some i => onLayer d i fun s => (s.stopSending false, "ok")
    | none => (d, "bad-op")
  | ["stop_receiving", i] =>
    match i.toNat? with
    | some i => onLayer d i fun s => (s.stopReceiving, "ok")
    | none => (d, "bad-op")
  | ["reset", i] =>
    match i.toNat? with
    | some i => onLayer d i fun s => (s.reset, "ok")
    | none => (d, "bad-op")
  | ["deliver", i, j, n] =>
    match i.toNat?, j.toNat?, n.toNat? with
    | some i, some j, some n =>
      match d.toNet.deliver i [j] n with
      | some (net, k) => ({ d with toNet := net }, s!"moved {k}")
      | none => (d, "bad-layer")
    | _, _, _ => (d, "bad-op")
  | ["deliver", i, j, n, k] =>
    match i.toNat?, j.toNat?, n.toNat?, k.toNat? with
    | some i, some j, some n, some k =>
      match d.toNet.deliver i [j, k] n with
      | some (net, c) => ({ d with toNet := net }, s!"moved {c}")
      | none => (d, "bad-layer")
    | _, _, _, _ => (d, "bad-op")
  | ["fault", i, kind, n] =>
    match i.toNat?, n.toNat? with
    | some i, some n => ({ d with faults := d.faults.set! i (some (kind = "dup", n)) }, "ok")
    | _, _ => (d, "bad-op")
  | ["drop", i, k] =>
    match i.toNat?, k.toNat? with
    | some i, some k => ({ d with outbox := d.outbox.set! i (removeAt (d.outbox[i]?.getD []) k) }, "ok")
    | _, _ => (d, "bad-op")
  | ["dup", i, k] =>
    match i.toNat?, k.toNat? with
    | some i, some k => ({ d with outbox := d.outbox.set! i (dupAt (d.outbox[i]?.getD []) k) }, "ok")
    | _, _ => (d, "bad-op")
  | ["clearout", i] =>
    match i.toNat? with
    | some i => ({ d with outbox := d.outbox.set! i [] }, "ok")
    | none => (d, "bad-op")
  | "addr" :: k :: rest =>
    match k.toNat? with
    | none => (d, "bad-op")
    | some k =>
      let r := mkAddress (parseAddrArgs (parseKV rest) "")
      let (slot, out) := match r with
        | .error e => (none, s!"exc {e.name}")
        | .ok h =>
          let showO := fun (o : Option Nat) => match o with | some n => toString n | none => "N"
          let txp := if h.rxOnly then "na" else s!"{h.txId .physical} {h.txId .functional} {hexOf h.txPrefix} {showO h.txExtByte}"
          let rxp := if h.txOnly then "na" else s!"{h.rxId .physical} {h.rxId .functional} {h.rxPrefixSize} {showO h.rxExtByte}"
          (some h, s!"ok is29={b01 h.mode.is29} tx={txp} rx={rxp}")
      let addrs := if k < d.addrs.size then d.addrs.set! k slot else d.addrs.push slot
      ({ d with addrs := addrs }, out)
  | ["ifm", k, id, ext, hex] =>
    match k.toNat?, id.toNat?, parseHex hex with
    | some k, some id, some data =>
      match d.addrs[k]?.join with
      | some h => (d, b01 (h.isForMe { id := id, ext := parseBool ext, data := data }))
      | none => (d, "bad-addr")
    | _, _, _ => (d, "bad-op")
  | "tl" :: "new" :: rest =>
    let kv := parseKV rest
    (match mkAddr kv with
    | .error e => (d, s!"exc {e.name}")
    | .ok a => ({ d with tl := some (TL.init (parseCfg kv) a) }, "ok|started=0 clean=1"))
  | ["lim", "new", en, w, m] =>
    (match w.toNat?, m.toNat? with
    | some w, some m => ({ d with lim := { enabled := parseBool en }, limW := w, limM := m }, showLim { enabled := parseBool en } m)
    | _, _ => (d, "bad-op"))
  | ["lim", "update", t] =>
    (match t.toNat? with
    | some t => let l := d.lim.update d.limW t; ({ d with lim := l }, showLim l d.limM)
    | none => (d, "bad-op"))
  | ["lim", "emit", t, n] =>
    -- what `_process_tx` does with a frame of `n` bytes at time `t`: hand it over (and account it) iff it fits the credit
    (match t.toNat?, n.toNat? with
    | some t, some n =>
      if n ≤ d.lim.allowedBytes d.limM then
        let l := d.lim.inform t n; ({ d with lim := l }, "emit=1 " ++ showLim l d.limM)
      else (d, "emit=0 " ++ showLim d.lim d.limM)
    | _, _ => (d, "bad-op"))
  | ["lim", "reset"] => let l := d.lim.reset; ({ d with lim := l }, showLim l d.limM)
  | ["tl", "bus", id, ext, hex] =>
    -- a frame the user's rxfn will return (what a stopped layer's own `process()` reads, what the reading thread of a started one reads)
    (match d.tl, id.toNat?, parseHex hex with
    | some t, some id, some data =>
      ({ d with tl := some { t with bus := t.bus ++ [{ id := id, ext := parseBool ext, data := data }] } },
       s!"ok|started={b01 t.started} clean=?")
    | _, _, _ => (d, "bad-op"))
  | ["tl", op] =>
    (match d.tl with
    | none => (d, "bad-tl")
    | some t =>
      let fin := fun (t' : TL) (e : Option PyExc) (showClean : Bool) =>
        let res := match e with | some x => s!"exc {x.name}" | none => "ok"
        -- "idle": `TL.clean` and no Flow Control owed or held (`C14.stop_fresh` proves both for every `stop()`)
        let idle := t'.clean && !t'.core.pendingFc && t'.core.lastFc.isNone
        ({ d with tl := some t' }, s!"{res}|started={b01 t'.started} clean={if showClean then b01 idle else "?"}")
      match op with
      | "start" => let (t', e) := t.start; fin t' e false
      | "stop" => let (t', e) := t.stop; fin t' e true
      | "send_sf" => let (t', e) := t.send { id := 0, size := 3, src := [1, 2, 3] }; fin t' e false
      | "send_mf" => let (t', e) := t.send { id := 0, size := 20, src := List.replicate 20 7 }; fin t' e false
      | "recv" => let (t', _) := t.recv; fin t' none false
      | "stop_sending" => let (t', e) := t.stopSending; fin t' e false
      | "stop_receiving" => let (t', e) := t.stopReceiving; fin t' e false
      | "process" => let (t', e) := t.process true true; fin t' e false
      | "process_rx" => let (t', e) := t.process true false; fin t' e false
      | "process_tx" => let (t', e) := t.process false true; fin t' e false
      | "reset" => let (t', e) := t.reset; fin t' e false
      | "sleep" => fin t none false
      | _ => (d, "bad-op"))
  | "sock" :: rest =>
    let (s1, out) := sockStep d.sock rest
    ({ d with sock := s1 }, out)
  | "params" :: rest =>
    let kv := parseKV rest
    let g := fun k d => parsePyVal (kv.get k d)
    let pa : ParamArgs := {
      stmin := g "stmin" "i0", blocksize := g "blocksize" "i8", overrideStmin := g "override_receiver_stmin" "N",
      tFc := g "rx_flowcontrol_timeout" "i1000", tCf := g "rx_consecutive_frame_timeout" "i1000",
      txPadding := g "tx_padding" "N", wftmax := g "wftmax" "i0", txDl := g "tx_data_length" "i8",
      txMinLen := g "tx_data_min_length" "N", maxFrameSize := g "max_frame_size" "i4095",
      canFd := g "can_fd" "b0", brs := g "bitrate_switch" "b0", defaultTat := g "default_target_address_type" "i0",
      rlBitrate := g "rate_limit_max_bitrate" "i100000000", rlWindow := g "rate_limit_window_size" "f3602879701896397/18014398509481984",
      rlEnable := g "rate_limit_enable" "b0", listen := g "listen_mode" "b0", blocking := g "blocking_send" "b0",
      prod := g "prod" "i20000000", ovrScaledFinite := parseBool (kv.get "ovrfin" "1") }
    (d, if validateParams pa then "ok" else "exc ValueError")
  | ["decode", start, hex] =>
    match start.toNat?, parseHex hex with
    | some st, some data =>
      (d, match decode data st with
        | none => "invalid"
        | some r => match r.pdu with
          | .sf l p e => s!"sf {l} {hexOf p} {b01 e} {r.canDl} {r.rxDl}"
          | .ff l p e => s!"ff {l} {hexOf p} {b01 e} {r.canDl} {r.rxDl}"
          | .cf sn p => s!"cf {sn} {hexOf p} {r.canDl} {r.rxDl}"
          | .fc fs bs stm => s!"fc {fs} {bs} {stm} {stminNs stm} {r.canDl} {r.rxDl}")
    | _, _ => (d, "bad-op")
  | ["specseg", txdl, minlen, pad, pre, hex] =>
    -- the Lean reference segmentation the C02/C01 theorems are stated against
    match txdl.toNat?, parseHex pre, parseHex hex with
    | some dl, some pr, some data =>
      let c : Spec.TxCfg := { txDl := dl, minLen := parseOptNat minlen, padding := parseOptNat pad, pre := pr }
      (d, " ".intercalate ((Spec.segment c data).map hexOf))
    | _, _, _ => (d, "bad-op")
  | "specreasm" :: prelen :: frames =>
    -- the Lean reference decoder (`Spec.reassemble`, proved to invert `Spec.segment` and to decode every
    -- `Spec.WellFormed` stream): the foreign streams the C03 scenarios feed must decode to their payload
    match prelen.toNat?, frames.mapM parseHex with
    | some pl, some fs =>
      (d, match Spec.reassemble pl fs with | some p => hexOf p | none => "none")
    | _, _ => (d, "bad-op")
  | [] => (d, "")
  | _ => (d, "bad-op")

partial def loop (h : IO.FS.Stream) (out : IO.FS.Stream) (d : Drv) : IO Unit := do
  let line ← h.getLine
  if line.isEmpty then return ()
  if line.trimAscii.toString = "newcase" then
    out.putStrLn "newcase"
    loop h out {}
  else
    let (d', o) := step d line
    out.putStrLn o
    loop h out d'

def main : IO Unit := do
  let stdin ← IO.getStdin
  let stdout ← IO.getStdout
  loop stdin stdout {}
