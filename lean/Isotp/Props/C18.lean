import Isotp.Process
/-
  C18 — property theorems (see DESIGN.md §6). Helper lemmas live in Isotp/Proofs.
-/
namespace Isotp.C18
open Isotp State

end Isotp.C18
