import Isotp.Proofs.RxAbortFault
import Isotp.Proofs.Timers
/-
  Helper lemmas for C11 (abort-robust form), part 3:
  * an executable schedule (`Op`, `runA`) whose runs are `FeedsA` derivations — used for the non-vacuity examples;
  * the receiver half of "both layers return to idle within the configured timeouts".
-/
namespace Isotp.RxAbort
open Isotp

/-! ## A. executable schedules -/

/-- the environment operations of `EnvStep` that are functions of the state -/
inductive Op where
  | check                 -- `_check_timeouts_rx` now
  | stop                  -- `stop_receiving()`
  | advance (dt : Nat)    -- the clock advances by `dt` ns
  | tx                    -- one `_process_tx` pass
  | fc (m : CanMsg)       -- `_process_rx` on `m` if it decodes as a Flow Control frame (ignored otherwise)
  deriving Repr

def isFc (s : State) (m : CanMsg) : Bool :=
  match decode m.data s.addr.rx.rxPrefixSize with
  | some ⟨.fc _ _ _, _, _⟩ => true
  | _ => false

def Op.apply (s : State) : Op → State × Gap
  | .check => (s.checkTimeoutsRx, if s.timerCf.timedOut s.now then .timedOut else .quiet)
  | .stop => (s.stopReceiving, .stopped)
  | .advance dt => (s.advance dt, .quiet)
  | .tx => (s.processTx.1, .quiet)
  | .fc m => if isFc s m then ((s.processRx m).1, .quiet) else (s, .quiet)

theorem envStep_apply (s : State) (o : Op) : EnvStep s (o.apply s).2 (o.apply s).1 := by
  cases o with
  | check => exact EnvStep.check s
  | stop => exact EnvStep.stop s
  | advance dt => exact EnvStep.advance s dt
  | tx => exact EnvStep.tx s
  | fc m =>
    unfold Op.apply
    by_cases h : isFc s m = true
    · simp only [h, if_true]
      unfold isFc at h
      split at h
      · next st bs stm cdl rdl hd => exact EnvStep.fc s m st bs stm cdl rdl hd
      · cases h
    · simp only [h]
      exact EnvStep.same (Rx.RxSame.refl s)

def runOps (s : State) : List Op → State × Gap
  | [] => (s, .quiet)
  | o :: os => ((runOps (o.apply s).1 os).1, (o.apply s).2.join (runOps (o.apply s).1 os).2)

theorem env_runOps : ∀ (os : List Op) (s : State), Env s (runOps s os).2 (runOps s os).1
  | [], s => Env.nil s
  | o :: os, s => Env.cons (envStep_apply s o) (env_runOps os _)

/-- a schedule: before each frame a list of operations, and a last list after the last frame. Result: final state,
    the flagged frames, the flag of the last gap. -/
def runA (s : State) : List (List Op × CanMsg) → List Op → State × List (Gap × Bytes) × Gap
  | [], fin => ((runOps s fin).1, [], (runOps s fin).2)
  | (os, m) :: rest, fin =>
    let r := runA ((runOps s os).1.processRx m).1 rest fin
    (r.1, ((runOps s os).2, m.data) :: r.2.1, r.2.2)

theorem feedsA_runA : ∀ (sched : List (List Op × CanMsg)) (fin : List Op) (s : State),
    FeedsA s (runA s sched fin).2.1 (runA s sched fin).2.2 (runA s sched fin).1
  | [], fin, s => FeedsA.done (env_runOps fin s)
  | (os, _) :: rest, fin, s => FeedsA.frame (env_runOps os s) rfl (feedsA_runA rest fin _)

theorem runA_data : ∀ (sched : List (List Op × CanMsg)) (fin : List Op) (s : State),
    (runA s sched fin).2.1.map (·.2) = sched.map (·.2.data)
  | [], _, _ => rfl
  | (os, m) :: rest, fin, s => by
    show m.data :: (runA _ rest fin).2.1.map (·.2) = m.data :: rest.map (·.2.data)
    rw [runA_data rest fin]

/-! ### the rx queue along a schedule -/

/-- the rx queue grows by exactly what the log records as delivered -/
def QSync (s s' : State) : Prop := ∃ l, s'.rxQueue = s.rxQueue ++ l ∧ Rx.delivered s' = Rx.delivered s ++ l

theorem QSync.refl (s : State) : QSync s s := ⟨[], by simp, by simp⟩

theorem QSync.trans {a b c : State} (h1 : QSync a b) (h2 : QSync b c) : QSync a c := by
  obtain ⟨l1, q1, d1⟩ := h1
  obtain ⟨l2, q2, d2⟩ := h2
  exact ⟨l1 ++ l2, by rw [q2, q1, List.append_assoc], by rw [d2, d1, List.append_assoc]⟩

theorem processTx_rxQueue (s : State) : s.processTx.1.rxQueue = s.rxQueue := by
  have hv := State.rxView_processTx_of_txPend s
  simp only [State.rxView, State.RxView.mk.injEq] at hv
  rw [hv.2.2.2.2.2.2.2.2.2.2.2.2]
  unfold State.txPend
  grind [State.raise, State.startRxCfTimer]

theorem qsync_apply (s : State) (o : Op) : QSync s (o.apply s).1 := by
  have hd := (envStep_facts (envStep_apply s o)).adv.del
  cases o with
  | check =>
    refine ⟨[], ?_, hd⟩
    show s.checkTimeoutsRx.rxQueue = _
    unfold State.checkTimeoutsRx
    split <;> simp [State.stopReceiving, State.error, State.emit]
  | stop => exact ⟨[], by simp [Op.apply, State.stopReceiving], hd⟩
  | advance dt => exact ⟨[], by simp [Op.apply, State.advance], hd⟩
  | tx => exact ⟨[], by simp [Op.apply, processTx_rxQueue], hd⟩
  | fc m =>
    unfold Op.apply
    by_cases h : isFc s m = true
    · simp only [h, if_true]; exact Rx.processRx_queue_sync s m
    · simp only [h]; exact QSync.refl s

theorem qsync_runOps : ∀ (os : List Op) (s : State), QSync s (runOps s os).1
  | [], s => QSync.refl s
  | o :: os, s => (qsync_apply s o).trans (qsync_runOps os _)

theorem qsync_runA : ∀ (sched : List (List Op × CanMsg)) (fin : List Op) (s : State), QSync s (runA s sched fin).1
  | [], fin, s => qsync_runOps fin s
  | (os, m) :: rest, fin, s =>
    ((qsync_runOps os s).trans (Rx.processRx_queue_sync _ m)).trans (qsync_runA rest fin _)

/-- what `recv()` will return after a schedule: exactly the payloads the log records as delivered -/
theorem runA_queue (sched : List (List Op × CanMsg)) (fin : List Op) (s : State) (L : List Bytes)
    (h : Rx.delivered (runA s sched fin).1 = Rx.delivered s ++ L) : (runA s sched fin).1.rxQueue = s.rxQueue ++ L := by
  obtain ⟨l, hq, hl⟩ := qsync_runA sched fin s
  rw [h] at hl
  rw [hq, List.append_cancel_left hl]

/-! ### reading `errs` -/

/-- more reception errors than before: some `Ev.err` of a reception class is in the log -/
theorem errs_lt_logged (s s' : State) (h : errs s < errs s') :
    ∃ t e, Ev.err t e ∈ s'.log ∧ Rx.isRxErr e = true := by
  have hpos : 0 < errs s' := by omega
  rw [errs_eq_log, List.countP_pos_iff] at hpos
  obtain ⟨ev, hmem, hp⟩ := hpos
  cases ev with
  | err t e => exact ⟨t, e, hmem, by simpa using hp⟩
  | _ => simp at hp

/-! ## B. the receiver returns to idle -/

/-- One `checkTimeoutsRx` later than `tCf` after the last (re)start of N_Cr: the receiver is idle with an empty
    buffer, the timer is stopped, exactly `ConsecutiveFrameTimeout` is logged, nothing is delivered. -/
theorem timeout_closes (s : State) (t0 : Nat) (hto : s.timerCf.timeout = s.cfg.tCf)
    (h0 : s.timerCf.start = some t0) (hlate : s.now > t0 + s.cfg.tCf) :
    s.checkTimeoutsRx.rxState = .idle ∧ s.checkTimeoutsRx.rxBuf = [] ∧ s.checkTimeoutsRx.timerCf.start = none ∧
    s.checkTimeoutsRx.log = .err s.now .ConsecutiveFrameTimeout :: s.log ∧
    Rx.delivered s.checkTimeoutsRx = Rx.delivered s := by
  have hd : State.RxDeadlineMissed s := ⟨t0, h0, Or.inl (by omega)⟩
  have hfire := State.checkTimeoutsRx_fire s hto hd
  refine ⟨by rw [hfire], by rw [hfire], by rw [hfire], by rw [hfire], ?_⟩
  have := (envStep_facts (EnvStep.check s)).adv.del
  simpa using this

/-- what a transmit pass does to the reception side of a layer that is receiving: N_Cr runs afterwards — it was
    running already, or it is started now by the hand-out of the pending ContinueToSend -/
theorem processTx_guards (s : State) (h : State.RxInv s) (hw : s.rxState = .waitCf) :
    s.processTx.1.now = s.now ∧ s.processTx.1.cfg = s.cfg ∧ s.processTx.1.rxState = .waitCf ∧
    s.processTx.1.timerCf.timeout = s.cfg.tCf ∧
    ∃ t0, s.processTx.1.timerCf.start = some t0 ∧ (s.timerCf.start = some t0 ∨ t0 = s.now) := by
  have hv := State.rxView_processTx_of_txPend s
  simp only [State.rxView, State.RxView.mk.injEq] at hv
  obtain ⟨hc, _, hn, hs, _, _, _, _, _, ht, _, _, _⟩ := hv
  obtain ⟨⟨_, h2⟩, _, h4⟩ := h
  rw [hc, hn, hs, ht]
  unfold State.txPend
  cases hst : s.timerCf.start with
  | some t0 =>
    refine ⟨?_, ?_, ?_, ?_, ?_⟩
    all_goals grind [State.raise, State.startRxCfTimer]
  | none =>
    obtain ⟨hp, hps⟩ := h4 hw hst
    refine ⟨?_, ?_, ?_, ?_, s.now, ?_, Or.inr rfl⟩
    all_goals grind [State.raise, State.startRxCfTimer]

/-- Receiver half of "both layers return to idle within the configured timeouts". A layer in the middle of a
    reception (any state satisfying the timer invariant `State.RxInv`, which holds in every reachable state:
    `C07.reachable_timer_inv`): after the next transmit pass N_Cr is running since some `t0 ≤ now`-instant (the old
    start, or now), and the first timeout check later than `t0 + tCf` leaves the receiver idle with an empty buffer,
    the timer stopped, `ConsecutiveFrameTimeout` logged and nothing delivered. -/
theorem returns_to_idle (s : State) (h : State.RxInv s) (hw : s.rxState = .waitCf) :
    ∃ t0, s.processTx.1.timerCf.start = some t0 ∧ (s.timerCf.start = some t0 ∨ t0 = s.now) ∧
      ∀ dt, s.now + dt > t0 + s.cfg.tCf →
        ((s.processTx.1.advance dt).checkTimeoutsRx).rxState = .idle ∧
        ((s.processTx.1.advance dt).checkTimeoutsRx).rxBuf = [] ∧
        ((s.processTx.1.advance dt).checkTimeoutsRx).timerCf.start = none ∧
        ((s.processTx.1.advance dt).checkTimeoutsRx).log =
          .err (s.now + dt) .ConsecutiveFrameTimeout :: s.processTx.1.log ∧
        Rx.delivered ((s.processTx.1.advance dt).checkTimeoutsRx) = Rx.delivered s := by
  obtain ⟨hn, hc, _, hto, t0, h0, hor⟩ := processTx_guards s h hw
  refine ⟨t0, h0, hor, fun dt hdt => ?_⟩
  have hcl := timeout_closes (s.processTx.1.advance dt) t0 (by simpa [State.advance, hc] using hto)
    (by simpa [State.advance] using h0) (by simp only [State.advance, hn, hc]; exact hdt)
  obtain ⟨c1, c2, c3, c4, c5⟩ := hcl
  refine ⟨c1, c2, c3, ?_, ?_⟩
  · rw [c4]; simp [State.advance, hn]
  · rw [c5]
    have e1 := (envStep_facts (EnvStep.advance s.processTx.1 dt)).adv.del
    have e2 := (envStep_facts (EnvStep.tx s)).adv.del
    simp only [List.append_nil] at e1 e2
    rw [e1, e2]

/-- … and while idle the timeout check does nothing, however late (no spurious error) -/
theorem idle_check_quiet (s : State) (h : State.RxInv s) (hi : s.rxState = .idle) : s.checkTimeoutsRx = s :=
  State.checkTimeoutsRx_id s h.1.2 (State.not_rxDeadlineMissed_of_idle s h.1 hi)

/-- every frame that ends a session does it completely: after `processRx` the receiver is idle with an empty
    buffer, or still/again receiving — there is no third state (`RxSt` has two values), and `Rx.RxInv` (idle ⇒
    empty buffer) is preserved by every step: `C06.invariant`. -/
theorem idle_has_empty_buffer (s : State) (h : Rx.RxInv s) (m : CanMsg) (hi : (s.processRx m).1.rxState = .idle) :
    (s.processRx m).1.rxBuf = [] := (Rx.rxInv_processRx s m h).1 hi |>.1

end Isotp.RxAbort
