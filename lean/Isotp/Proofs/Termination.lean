import Isotp.Proofs.Safe
/-
  Termination of the outer `while run_process:` loop of `TransportLayerLogic.process()`.

  The model runs that loop (`processLoop`) with the fuel `processFuel s = 2 * (inbox + queue) + 8` and
  reports an out-of-fuel flag.  Here: one iteration of the loop as a function (`procIter`, tied to the
  model by `rfl`), a measure `procMeasure` that strictly decreases across every iteration that asks
  for another one, and from that the fact that the flag is never set (for any accepted
  configuration; nothing else is needed).

  The argument.  Let `I` = frames still in the inbox, `Q` = requests still in the tx queue and
  `c ∈ {0,1,2}` = (a Flow Control is pending to be *sent*) + (the transmit FSM is "hot": a received
  Flow Control sits in the mailbox, or the FSM is in TRANSMIT_CF).  `procMeasure = 2 I + 2 Q + c`.
  * an iteration whose rx pass reads at least one frame: `I` drops, and after a tx pass no Flow
    Control is pending, so `c ≤ 1` afterwards;
  * an iteration that starts with the tx pass (`start_with_tx`): the first `_process_tx` sends the
    pending Flow Control (`c` drops), or handles an Overflow Flow Control (`c` drops), or pops at least
    one request (`Q` drops);
  * an iteration that reads nothing and does not start with tx goes on only if `_process_tx` returned
    `immediate_rx_required`: it sent the pending Flow Control (`c` drops) or a block ended, which
    needs a hot FSM and leaves it in WAIT_FC with an empty mailbox (`c` drops);
  * `_process_tx` never raises `c` and never adds to the queue or the inbox.
  Hence at most `2 I + 2 Q + 3` iterations (`processLoop_fuel_sharp`); the model gives `2 (I + Q) + 8`.
  The only hypothesis anywhere is `cfg.valid`, and only because the inner tx loop needs it
  (`txLoop_txFuel`, Safe.lean).

  Also here: what `process` leaves in the inbox (`RxStop`, `processLoop_last`, `process_inbox`), and a
  bound on the number of frames one call sends (`sendBudget`, `process_sent`), for which `txMeasure` of
  Safe.lean is shown to be non-increasing also on the paths of `_process_tx` that output nothing.
-/
namespace Isotp
open State

/-! ## What the transmit-side primitives keep -/

/-- kept by everything in `_process_tx` after the Flow Control mailbox has been read -/
structure TxMono (s s' : State) : Prop where
  pend : s'.pendingFc = s.pendingFc
  lastFc : s'.lastFc = s.lastFc
  queue : s'.txQueue.length ≤ s.txQueue.length
  cf : s'.txState = .transmitCf → s.txState = .transmitCf

theorem TxMono.refl (s : State) : TxMono s s := ⟨rfl, rfl, Nat.le_refl _, id⟩

theorem TxMono.trans {s₁ s₂ s₃ : State} (h₁ : TxMono s₁ s₂) (h₂ : TxMono s₂ s₃) : TxMono s₁ s₃ :=
  ⟨h₂.pend.trans h₁.pend, h₂.lastFc.trans h₁.lastFc, Nat.le_trans h₂.queue h₁.queue,
    fun h => h₁.cf (h₂.cf h)⟩

theorem TxMono.of_eq {s s' : State} (h1 : s'.pendingFc = s.pendingFc) (h2 : s'.lastFc = s.lastFc)
    (h3 : s'.txQueue = s.txQueue) (h4 : s'.txState = .transmitCf → s.txState = .transmitCf) : TxMono s s' :=
  ⟨h1, h2, by rw [h3]; exact Nat.le_refl _, h4⟩

theorem TxMono.stopSending (s : State) (b : Bool) : TxMono s (s.stopSending b) :=
  .of_eq (by simp) (by simp) (by simp) (by simp)

theorem TxMono.error (s : State) (e : Err) : TxMono s (s.error e) := .of_eq rfl rfl rfl id
theorem TxMono.emit (s : State) (e : Ev) : TxMono s (s.emit e) := .of_eq rfl rfl rfl id
theorem TxMono.raise (s : State) (e : PyExc) : TxMono s (s.raise e) := .of_eq rfl rfl rfl id

theorem TxMono.consumeActive (s : State) (r : Req) (n : Nat) (e : Bool) : TxMono s (s.consumeActive r n e).1 :=
  .of_eq (by simp) (by simp) (by simp) (by simp)

theorem TxMono.sfFinish (s : State) (tat : Tat) (allowed : Nat) (d : Bytes) :
    TxMono s (s.sfFinish tat allowed d).1 := by
  unfold State.sfFinish
  split
  · exact .raise _ _
  · split
    · exact .of_eq rfl rfl rfl (by simp)
    · exact .stopSending _ _

theorem TxMono.ffFinish (s : State) (allowed : Nat) (d : Bytes) : TxMono s (s.ffFinish allowed d).1 := by
  unfold State.ffFinish
  split
  · exact .raise _ _
  · split
    · exact .of_eq rfl rfl rfl (by simp [startRxFcTimer])
    · exact .of_eq rfl rfl rfl (by simp)

theorem TxMono.startTx (s : State) (r : Req) (allowed : Nat) : TxMono s (s.startTx r allowed).1 := by
  rw [startTx_eq]
  by_cases hcond : r.size + (if s.sizeOnFirst r then 1 else 2) + s.txPrefixLen ≤ s.cfg.txDl
  · rw [if_pos hcond]
    cases (r.consume r.size true).2 with
    | none => exact ((TxMono.consumeActive _ _ _ _).trans (.error _ _)).trans (.stopSending _ _)
    | some p => exact (TxMono.consumeActive _ _ _ _).trans (.sfFinish _ _ _ _)
  · rw [if_neg hcond]
    have h0 : TxMono s { s with txFrameLen := r.size } := .of_eq rfl rfl rfl id
    cases (r.consume (s.ffDataLen r) true).2 with
    | none => exact ((h0.trans (.consumeActive _ _ _ _)).trans (.error _ _)).trans (.stopSending _ _)
    | some p =>
      have h1 : TxMono (({ s with txFrameLen := r.size } : State).consumeActive r (s.ffDataLen r) true).1
          ({ (({ s with txFrameLen := r.size } : State).consumeActive r (s.ffDataLen r) true).1 with
            txSeq := 1 } : State) := .of_eq rfl rfl rfl id
      exact ((h0.trans (.consumeActive _ _ _ _)).trans h1).trans (.ffFinish _ _ _)

/-- reading the queue in IDLE: nothing on the receive side moves, TRANSMIT_CF is not reached, and
    (unless the queue was empty) at least one request leaves the queue -/
theorem readTxQueue_facts (q : List Req) : ∀ (s : State) (allowed : Nat),
    (s.readTxQueue allowed q).1.pendingFc = s.pendingFc ∧ (s.readTxQueue allowed q).1.lastFc = s.lastFc ∧
    (s.readTxQueue allowed q).1.txQueue.length ≤ q.length - 1 ∧
    ((s.readTxQueue allowed q).1.txState = .transmitCf → s.txState = .transmitCf) := by
  induction q with
  | nil => intro s allowed; exact ⟨rfl, rfl, Nat.le_refl _, id⟩
  | cons r rest ih =>
    intro s allowed
    unfold State.readTxQueue
    dsimp only
    split
    · obtain ⟨a, b, c, d⟩ := ih ({ ({ s with txQueue := rest, active := some r } : State).emit (.done r.id true) with
          active := none } : State) allowed
      exact ⟨a, b, Nat.le_trans c (by simp only [List.length_cons]; omega), d⟩
    · have := TxMono.startTx ({ s with txQueue := rest, active := some r } : State) r allowed
      exact ⟨this.pend, this.lastFc, by simpa using this.queue, this.cf⟩

theorem TxMono.cfEmit (s : State) (p : Bytes) : TxMono s (s.cfEmit p).1 := by
  unfold State.cfEmit
  split
  · split
    · exact .raise _ _
    · exact .of_eq rfl rfl rfl id
  · exact .refl _

/-- end of a Consecutive Frame: `immediate_rx_required` only with the move to WAIT_FC -/
theorem cfAfter_facts (s : State) (r' : Req) (rbs : Nat) (out : Option CanMsg) :
    TxMono s (s.cfAfter r' rbs out).1 ∧
    ((s.cfAfter r' rbs out).2.2 = true → (s.cfAfter r' rbs out).1.txState = .waitFc) := by
  unfold State.cfAfter
  split
  · split
    · exact ⟨(TxMono.error _ _).trans (.stopSending _ _), by simp⟩
    · exact ⟨.stopSending _ _, by simp⟩
  · split
    · exact ⟨.of_eq rfl rfl rfl (by simp [startRxFcTimer]), fun _ => rfl⟩
    · exact ⟨.refl _, by simp⟩

theorem transmitCf_facts (s : State) (allowed : Nat) :
    TxMono s (s.transmitCf allowed).1 ∧
    ((s.transmitCf allowed).2.2 = true → (s.transmitCf allowed).1.txState = .waitFc) := by
  rw [transmitCf_eq]
  split
  · exact ⟨.raise _ _, by simp⟩
  · exact ⟨.raise _ _, by simp⟩
  · next rbs r _ _ =>
    split
    · split
      · split
        · exact ⟨(TxMono.consumeActive _ _ _ _).trans (.raise _ _), by simp⟩
        · next p _ =>
          split
          · exact ⟨(TxMono.consumeActive _ _ _ _).trans (.cfEmit _ _), by simp⟩
          · have := cfAfter_facts ((s.consumeActive r (s.cfPayloadLen r) false).1.cfEmit p).1
              (r.consume (s.cfPayloadLen r) false).1 rbs
              ((s.consumeActive r (s.cfPayloadLen r) false).1.cfEmit p).2.1
            exact ⟨((TxMono.consumeActive _ _ _ _).trans (.cfEmit _ _)).trans this.1, this.2⟩
      · exact ⟨.refl _, by simp⟩
    · exact ⟨.refl _, by simp⟩

/-- the state machine proper: `immediate_rx_required` only at the end of a block (TRANSMIT_CF → WAIT_FC);
    in IDLE at least one request leaves a non-empty queue -/
theorem fsmDispatch_facts (s : State) (allowed : Nat) :
    TxMono s (s.fsmDispatch allowed).1 ∧
    ((s.fsmDispatch allowed).2.2 = true →
      s.txState = .transmitCf ∧ (s.fsmDispatch allowed).1.txState = .waitFc) ∧
    (s.txState = .idle → (s.fsmDispatch allowed).1.txQueue.length ≤ s.txQueue.length - 1) := by
  unfold State.fsmDispatch
  split
  · next hst =>
    obtain ⟨a, b, c, d⟩ := readTxQueue_facts s.txQueue s allowed
    exact ⟨⟨a, b, Nat.le_trans c (Nat.sub_le _ _), d⟩, by simp, fun _ => c⟩
  · next hst =>
    refine ⟨?_, ?_, by simp [hst]⟩
    · split
      · split
        · dsimp only
          split
          all_goals first
            | exact .of_eq rfl rfl rfl (by simp)
            | exact (TxMono.of_eq rfl rfl rfl id : TxMono s { s with standby := none }).trans (.stopSending _ _)
        · exact .refl _
      · exact .refl _
    · split
      · split
        · dsimp only
          split <;> simp
        · simp
      · simp
  · next hst =>
    refine ⟨?_, ?_, by simp [hst]⟩
    · split
      · split
        · dsimp only
          split
          all_goals first
            | exact .of_eq rfl rfl rfl (by simp)
            | exact (TxMono.of_eq rfl rfl rfl id : TxMono s { s with standby := none }).trans (.stopSending _ _)
        · exact .refl _
      · exact .refl _
    · split
      · split
        · dsimp only
          split <;> simp
        · simp
      · simp
  · next hst => exact ⟨.refl _, by simp, by simp [hst]⟩
  · next hst =>
    obtain ⟨a, b⟩ := transmitCf_facts s allowed
    exact ⟨a, fun h => ⟨hst, b h⟩, by simp [hst]⟩

/-- stage 3 of `_process_tx` -/
theorem fsmStage_facts (s : State) (allowed : Nat) :
    TxMono s (s.fsmStage allowed).1 ∧
    ((s.fsmStage allowed).2.2 = true →
      s.txState = .transmitCf ∧ (s.fsmStage allowed).1.txState = .waitFc) ∧
    (s.txState = .idle → (s.fsmStage allowed).1.txQueue.length ≤ s.txQueue.length - 1) := by
  unfold State.fsmStage
  have h1 : TxMono s (if s.timerFc.timedOut s.now then (s.error .FlowControlTimeout).stopSending false else s) ∧
      (s.txState = .idle →
        (if s.timerFc.timedOut s.now then (s.error .FlowControlTimeout).stopSending false else s).txState = .idle) ∧
      (if s.timerFc.timedOut s.now then (s.error .FlowControlTimeout).stopSending false else s).txQueue = s.txQueue := by
    split
    · exact ⟨(TxMono.error _ _).trans (.stopSending _ _), by simp, by simp [State.error, State.emit]⟩
    · exact ⟨.refl _, id, rfl⟩
  generalize (if s.timerFc.timedOut s.now then (s.error .FlowControlTimeout).stopSending false else s) = s1 at h1
  obtain ⟨m1, i1, q1⟩ := h1
  dsimp only
  split
  · next hc =>
    refine ⟨m1.trans (.raise _ _), by simp, ?_⟩
    intro hi
    simp only [Bool.and_eq_true, decide_eq_true_eq] at hc
    exact absurd (i1 hi) hc.1
  · have h2 : ∀ b : Bool, TxMono s1 (if b = true then s1.stopSending true else s1) ∧
        (s1.txState = .idle → (if b = true then s1.stopSending true else s1).txState = .idle) ∧
        (if b = true then s1.stopSending true else s1).txQueue = s1.txQueue := by
      intro b
      cases b
      · exact ⟨.refl _, id, rfl⟩
      · exact ⟨.stopSending _ _, by simp, by simp⟩
    generalize (decide (s1.txState ≠ .idle) && (match s1.active with | some r => r.depleted | none => false)
          && s1.standby.isNone) = cnd
    have h2 := h2 cnd
    generalize (if cnd = true then s1.stopSending true else s1) = s2 at h2
    obtain ⟨m2, i2, q2⟩ := h2
    obtain ⟨m3, imm3, q3⟩ := fsmDispatch_facts s2 allowed
    have m := (m1.trans m2).trans m3
    have hq : s.txState = .idle → (s2.fsmDispatch allowed).1.txQueue.length ≤ s.txQueue.length - 1 := by
      intro hi
      have := q3 (i2 (i1 hi))
      rw [q2, q1] at this
      exact this
    have himm : (s2.fsmDispatch allowed).2.2 = true →
        s.txState = .transmitCf ∧ (s2.fsmDispatch allowed).1.txState = .waitFc :=
      fun h => ⟨m1.cf (m2.cf (imm3 h).1), (imm3 h).2⟩
    split
    · exact ⟨m, by simp, hq⟩
    · split
      · exact ⟨m.trans (.of_eq rfl rfl rfl id), himm, hq⟩
      · exact ⟨m, himm, hq⟩

/-! ## The measure -/

/-- the transmit FSM is "hot": without reading another frame it may still complete a block — a received
    Flow Control sits in the mailbox, or the FSM is in TRANSMIT_CF -/
def State.txHot (s : State) : Bool := s.lastFc.isSome || decide (s.txState = .transmitCf)

/-- 0, 1 or 2: a Flow Control waits to be sent, plus a hot transmit FSM -/
def procCost (s : State) : Nat := (if s.pendingFc then 1 else 0) + (if s.txHot then 1 else 0)

/-- **Termination measure of the `while run_process` loop**: two per frame `rxfn` will still return, two
    per queued request, plus `procCost`. -/
def procMeasure (s : State) : Nat := 2 * s.inbox.length + 2 * s.txQueue.length + procCost s

theorem procCost_le_two (s : State) : procCost s ≤ 2 := by
  unfold procCost; split <;> split <;> omega

theorem procMeasure_lt_processFuel (s : State) : procMeasure s < s.processFuel := by
  have := procCost_le_two s
  unfold procMeasure State.processFuel; omega

/-! ## `_process_tx` against the measure -/

theorem handleFc_facts (s : State) (fc : FcFrame) :
    (s.handleFc fc).pendingFc = s.pendingFc ∧ (s.handleFc fc).lastFc = s.lastFc ∧
    (s.handleFc fc).txQueue = s.txQueue ∧ (s.txState = .idle → (s.handleFc fc).txState = .idle) := by
  unfold State.handleFc
  refine ⟨?_, ?_, ?_, ?_⟩ <;> grind [State.error, State.emit, startRxFcTimer]

theorem pendStage_facts (s : State) :
    s.pendStage.1.pendingFc = false ∧ s.pendStage.1.lastFc = s.lastFc ∧ s.pendStage.1.txState = s.txState ∧
    s.pendStage.1.txQueue = s.txQueue ∧ s.pendStage.1.inbox = s.inbox ∧
    (s.pendStage.2.isSome = true → s.pendingFc = true) := by
  unfold State.pendStage
  refine ⟨?_, ?_, ?_, ?_, ?_, ?_⟩ <;> grind [State.raise, startRxCfTimer]

theorem fcStage_facts (s : State) :
    s.fcStage.1.pendingFc = s.pendingFc ∧ s.fcStage.1.lastFc = none ∧ s.fcStage.1.txQueue = s.txQueue ∧
    (s.fcStage.1.txState = .transmitCf → s.txHot = true) ∧
    (s.txState = .idle → s.fcStage.1.txState = .idle) ∧
    (s.fcStage.2 = true → s.txHot = true ∧ s.fcStage.1.txState = .idle) := by
  unfold State.fcStage
  dsimp only
  split
  · next f hf =>
    have hot : s.txHot = true := by simp [State.txHot, hf]
    split
    · exact ⟨by simp [State.error, State.emit], by simp [State.error, State.emit], by simp [State.error, State.emit],
        fun _ => hot, fun _ => by simp [State.error, State.emit], fun _ => ⟨hot, by simp [State.error, State.emit]⟩⟩
    · obtain ⟨a, b, c, d⟩ := handleFc_facts ({ s with lastFc := none } : State) f
      exact ⟨a, b, c, fun _ => hot, d, by simp⟩
  · next hf =>
    refine ⟨rfl, rfl, rfl, ?_, id, by simp⟩
    intro h
    simp only [State.txHot, Bool.or_eq_true, decide_eq_true_eq]
    exact .inr h

/-- **One `_process_tx` against the measure.** No Flow Control is pending afterwards; the queue does not
    grow; the cost does not grow; it drops when `immediate_rx_required` is returned; and from IDLE with a
    non-empty queue either a request leaves the queue or the cost drops. -/
theorem processTx_facts (s : State) :
    s.processTx.1.pendingFc = false ∧
    s.processTx.1.txQueue.length ≤ s.txQueue.length ∧
    procCost s.processTx.1 ≤ procCost s ∧
    (s.processTx.2.2 = true → procCost s.processTx.1 < procCost s) ∧
    (s.txState = .idle → s.txQueue ≠ [] →
      s.processTx.1.txQueue.length < s.txQueue.length ∨ procCost s.processTx.1 < procCost s) := by
  rw [processTx_eq]
  obtain ⟨p1, l1, t1, q1, -, r1⟩ := pendStage_facts s
  -- the pending Flow Control is dealt with: everything else is untouched and the cost drops by one
  have hsent : s.pendStage.2.isSome = true → procCost s.pendStage.1 < procCost s ∧
      s.pendStage.1.txQueue.length ≤ s.txQueue.length := by
    intro h
    have := r1 h
    simp [procCost, State.txHot, p1, l1, t1, q1, this]
  split
  · next heq =>
    rw [heq] at p1 hsent
    have := hsent rfl
    exact ⟨p1, this.2, Nat.le_of_lt this.1, by simp, fun _ _ => .inr this.1⟩
  · next heq =>
    rw [heq] at p1 hsent
    have := hsent rfl
    exact ⟨p1, this.2, Nat.le_of_lt this.1, fun _ => this.1, fun _ _ => .inr this.1⟩
  · next s1 heq =>
    rw [heq] at p1 l1 t1 q1
    dsimp only at p1 l1 t1 q1
    obtain ⟨p2, l2, q2, c2, i2, b2⟩ := fcStage_facts s1
    have hot1 : s1.txHot = s.txHot := by simp [State.txHot, l1, t1]
    have cost1 : procCost s1 ≤ procCost s := by
      simp only [procCost, p1, hot1, Bool.false_eq_true, if_false]; split <;> omega
    split
    · next s2 heq2 =>
      rw [heq2] at p2 l2 q2 b2
      dsimp only at p2 l2 q2 b2
      obtain ⟨hh, hi⟩ := b2 rfl
      have hlt : procCost s2 < procCost s := by
        refine Nat.lt_of_lt_of_le ?_ cost1
        simp only [State.txHot, Bool.or_eq_true, decide_eq_true_eq] at hh
        simp [procCost, State.txHot, p2, p1, l2, hi, hh]
      exact ⟨p2.trans p1, by rw [q2, q1]; exact Nat.le_refl _, Nat.le_of_lt hlt, by simp, fun _ _ => .inr hlt⟩
    · next s2 heq2 =>
      rw [heq2] at p2 l2 q2 c2 i2
      dsimp only at p2 l2 q2 c2 i2
      obtain ⟨m, himm, hq⟩ := fsmStage_facts s2 (s.rl.allowedBytes s.cfg.rlBitMax)
      generalize s2.fsmStage (s.rl.allowedBytes s.cfg.rlBitMax) = R at m himm hq
      have p3 : R.1.pendingFc = false := by rw [m.pend, p2, p1]
      have l3 : R.1.lastFc = none := by rw [m.lastFc, l2]
      have hcost : procCost R.1 ≤ procCost s := by
        refine Nat.le_trans ?_ cost1
        simp only [procCost, p3, p1, State.txHot, l3]
        by_cases h : R.1.txState = .transmitCf
        · have := c2 (m.cf h)
          simp [State.txHot] at this
          simp [h, this]
        · simp [h]
      refine ⟨p3, ?_, hcost, ?_, ?_⟩
      · rw [← q1, ← q2]; exact m.queue
      · intro h
        obtain ⟨a, b⟩ := himm h
        refine Nat.lt_of_lt_of_le ?_ cost1
        have := c2 a
        simp [State.txHot] at this
        simp [procCost, State.txHot, p3, p1, l3, b, this]
      · intro hi hne
        left
        have := hq (i2 (by rw [t1]; exact hi))
        rw [q2, q1] at this
        have : 0 < s.txQueue.length := List.length_pos_iff.2 hne
        omega

/-- **When `_process_tx` returns `immediate_rx_required`**: it sent the pending Flow Control (nothing else
    moved), or a block just ended — the FSM was hot, is now in WAIT_FC and the mailbox is empty. -/
theorem processTx_imm (s : State) (h : s.processTx.2.2 = true) :
    (s.pendingFc = true ∧ s.processTx.2.1.isSome = true ∧ s.processTx.1.txState = s.txState ∧
      s.processTx.1.lastFc = s.lastFc ∧ s.processTx.1.txQueue = s.txQueue) ∨
    (s.txHot = true ∧ s.processTx.1.txState = .waitFc ∧ s.processTx.1.lastFc = none) := by
  rw [processTx_eq] at h ⊢
  obtain ⟨-, l1, t1, q1, -, r1⟩ := pendStage_facts s
  split at h
  · simp at h
  · next heq =>
    rw [heq] at l1 t1 q1 r1
    exact .inl ⟨r1 rfl, rfl, t1, l1, q1⟩
  · next s1 heq =>
    rw [heq] at l1 t1
    dsimp only at l1 t1 h ⊢
    obtain ⟨-, l2, -, c2, -, -⟩ := fcStage_facts s1
    have hot1 : s1.txHot = s.txHot := by simp [State.txHot, l1, t1]
    split at h
    · simp at h
    · next s2 heq2 =>
      rw [heq2] at l2 c2
      dsimp only at l2 c2 h ⊢
      obtain ⟨m, himm, -⟩ := fsmStage_facts s2 (s.rl.allowedBytes s.cfg.rlBitMax)
      obtain ⟨a, b⟩ := himm h
      exact .inr ⟨hot1 ▸ c2 a, b, m.lastFc.trans l2⟩

/-! ## The inner loops against the measure -/

theorem procCost_congr {s s' : State} (h1 : s'.pendingFc = s.pendingFc) (h2 : s'.lastFc = s.lastFc)
    (h3 : s'.txState = s.txState) : procCost s' = procCost s := by
  simp [procCost, State.txHot, h1, h2, h3]

/-- **The tx pass against the measure.** It leaves the inbox alone, does not add to the queue, does not
    raise the cost; the cost drops when it asks for another iteration (`run_process`); no Flow Control is
    pending afterwards; and started from IDLE with a non-empty queue, a request leaves the queue or the
    cost drops. -/
theorem txLoop_facts (f : Nat) : ∀ (s : State) (n : Nat),
    (txLoop f s n).1.inbox = s.inbox ∧ (txLoop f s n).1.txQueue.length ≤ s.txQueue.length ∧
    procCost (txLoop f s n).1 ≤ procCost s ∧
    ((txLoop f s n).2.2.1 = true → procCost (txLoop f s n).1 < procCost s) ∧
    (0 < f ∨ s.pendingFc = false → (txLoop f s n).1.pendingFc = false) ∧
    (0 < f → s.txState = .idle → s.txQueue ≠ [] →
      (txLoop f s n).1.txQueue.length < s.txQueue.length ∨ procCost (txLoop f s n).1 < procCost s) := by
  induction f with
  | zero =>
    intro s n
    refine ⟨rfl, Nat.le_refl _, Nat.le_refl _, by simp [State.txLoop], ?_, by simp⟩
    intro h
    cases h with
    | inl h => omega
    | inr h => exact h
  | succ f ih =>
    intro s n
    obtain ⟨p, q, c, ci, cq⟩ := processTx_facts s
    have hin := (TxFrame.processTx s).inbox
    unfold State.txLoop
    dsimp only
    split
    · exact ⟨hin, q, c, by simp, fun _ => p, fun _ => cq⟩
    · cases ho : s.processTx.2.1 with
      | none =>
        simp only
        split
        · next himm => exact ⟨hin, q, c, fun _ => ci himm, fun _ => p, fun _ => cq⟩
        · simp only [Option.isSome_none, Bool.false_eq_true, if_false]
          exact ⟨hin, q, c, by simp, fun _ => p, fun _ => cq⟩
      | some m =>
        simp only
        have e : procCost (s.processTx.1.emit (.tx s.processTx.1.now m)) = procCost s.processTx.1 :=
          procCost_congr rfl rfl rfl
        split
        · next himm =>
          exact ⟨hin, q, by rw [e]; exact c, fun _ => by rw [e]; exact ci himm, fun _ => p,
            fun _ hi hne => by rw [e]; exact cq hi hne⟩
        · simp only [Option.isSome_some, if_true]
          obtain ⟨a1, a2, a3, a4, a5, -⟩ := ih (s.processTx.1.emit (.tx s.processTx.1.now m)) (n + 1)
          rw [e] at a3 a4
          refine ⟨a1.trans hin, Nat.le_trans a2 q, Nat.le_trans a3 c, fun h => Nat.lt_of_lt_of_le (a4 h) c,
            fun _ => a5 (.inr p), ?_⟩
          intro _ hi hne
          cases cq hi hne with
          | inl h => exact .inl (Nat.lt_of_le_of_lt a2 h)
          | inr h => exact .inr (Nat.lt_of_le_of_lt a3 h)

/-- the state right after `rxfn` returned `(dt, m)` and `_check_timeouts_rx` ran -/
def State.afterRecv (s : State) (dt : Nat) (m : CanMsg) (rest : List (Nat × CanMsg)) : State :=
  ((({ s with inbox := rest, now := s.now + dt } : State).emit (.rx (s.now + dt) m))).checkTimeoutsRx

theorem afterRecv_facts (s : State) (dt : Nat) (m : CanMsg) (rest : List (Nat × CanMsg)) :
    (s.afterRecv dt m rest).inbox = rest ∧ (s.afterRecv dt m rest).txQueue = s.txQueue ∧
    (s.afterRecv dt m rest).addr = s.addr := by
  have h := RxFrame.checkTimeoutsRx (({ s with inbox := rest, now := s.now + dt } : State).emit (.rx (s.now + dt) m))
  exact ⟨h.inbox, h.txQueue, h.addr⟩

/-- `rxLoop` unfolded once on a non-empty inbox, in terms of `afterRecv` -/
theorem rxLoop_cons (doTx : Bool) (s : State) (st : Stats) (dt : Nat) (m : CanMsg) (rest : List (Nat × CanMsg)) :
    rxLoop doTx s st ((dt, m) :: rest) =
      if (s.afterRecv dt m rest).addr.rx.isForMe m then
        if ((s.afterRecv dt m rest).processRx m).2.1 then
          (((s.afterRecv dt m rest).processRx m).1,
            (if ((s.afterRecv dt m rest).processRx m).2.2 then
              { st with received := st.received + 1, processed := st.processed + 1, frames := st.frames + 1 }
             else { st with received := st.received + 1, processed := st.processed + 1 }), false)
        else if doTx && ((s.afterRecv dt m rest).processRx m).1.txTimeDriven then
          (((s.afterRecv dt m rest).processRx m).1,
            (if ((s.afterRecv dt m rest).processRx m).2.2 then
              { st with received := st.received + 1, processed := st.processed + 1, frames := st.frames + 1 }
             else { st with received := st.received + 1, processed := st.processed + 1 }), true)
        else rxLoop doTx ((s.afterRecv dt m rest).processRx m).1
            (if ((s.afterRecv dt m rest).processRx m).2.2 then
              { st with received := st.received + 1, processed := st.processed + 1, frames := st.frames + 1 }
             else { st with received := st.received + 1, processed := st.processed + 1 }) rest
      else if doTx && (s.afterRecv dt m rest).txTimeDriven then
        (s.afterRecv dt m rest, { st with received := st.received + 1 }, true)
      else rxLoop doTx (s.afterRecv dt m rest) { st with received := st.received + 1 } rest := by
  rw [State.rxLoop]
  rfl

theorem rxLoop_nil (doTx : Bool) (s : State) (st : Stats) :
    rxLoop doTx s st [] = ((({ s with inbox := [] } : State).emit (.rxNone s.now)).checkTimeoutsRx, st, false) := by
  rw [State.rxLoop]

/-- why the rx pass stopped -/
inductive RxStop (a : Addr) (l : List (Nat × CanMsg)) (R : State × Stats × Bool) : Prop where
  /-- `rxfn` returned `None` -/
  | drained (h : R.1.inbox = []) (hrun : R.2.2 = false)
  /-- the transmit FSM has time-driven work; the loop comes back for the rest (`run_process = True`) -/
  | txDue (h : R.2.2 = true)
  /-- `_process_rx` asked for an immediate tx pass on frame `m` (a Flow Control frame, or a Flow Control
      has to be sent); the frames after `m` stay unread -/
  | immTx (sm : State) (dt : Nat) (m : CanMsg) (pre : List (Nat × CanMsg))
      (hl : l = pre ++ (dt, m) :: R.1.inbox) (haddr : sm.addr = a) (hme : sm.addr.rx.isForMe m = true)
      (himm : (sm.processRx m).2.1 = true) (hst : R.1 = (sm.processRx m).1) (hrun : R.2.2 = false)

theorem RxStop.cons {a : Addr} {l : List (Nat × CanMsg)} {R : State × Stats × Bool} (x : Nat × CanMsg)
    (h : RxStop a l R) : RxStop a (x :: l) R := by
  cases h with
  | drained h hrun => exact .drained h hrun
  | txDue h => exact .txDue h
  | immTx sm dt m pre hl haddr hme himm hst hrun =>
    exact .immTx sm dt m (x :: pre) (by rw [hl]; rfl) haddr hme himm hst hrun

/-- **The rx pass**: it does not touch the tx queue; what it leaves in the inbox is a suffix of what was
    there, a proper one unless there was nothing; it asks for another iteration only with `do_tx`, with
    a transmit FSM that has time-driven work, and after reading at least one frame. -/
theorem rxLoop_facts (doTx : Bool) (l : List (Nat × CanMsg)) : ∀ (s : State) (st : Stats),
    (rxLoop doTx s st l).1.txQueue = s.txQueue ∧
    (∃ pre, l = pre ++ (rxLoop doTx s st l).1.inbox ∧ (l ≠ [] → pre ≠ [])) ∧
    ((rxLoop doTx s st l).2.2 = true →
      doTx = true ∧ (rxLoop doTx s st l).1.txTimeDriven = true ∧ l ≠ []) ∧
    RxStop s.addr l (rxLoop doTx s st l) := by
  induction l with
  | nil =>
    intro s st
    rw [rxLoop_nil]
    have h := RxFrame.checkTimeoutsRx (({ s with inbox := [] } : State).emit (.rxNone s.now))
    exact ⟨h.txQueue, ⟨[], by rw [h.inbox]; rfl, by simp⟩, by simp, .drained h.inbox rfl⟩
  | cons x rest ih =>
    intro s st
    obtain ⟨dt, m⟩ := x
    rw [rxLoop_cons]
    obtain ⟨i1, q1, a1⟩ := afterRecv_facts s dt m rest
    generalize s.afterRecv dt m rest = s1 at i1 q1 a1
    have f2 := RxFrame.processRx s1 m
    split
    · next hme =>
      split
      · next himm =>
        refine ⟨f2.txQueue.trans q1, ⟨[(dt, m)], by simp [f2.inbox, i1], by simp⟩, by simp, ?_⟩
        exact .immTx s1 dt m [] (by simp [f2.inbox, i1]) a1 hme himm rfl rfl
      · split
        · next htd =>
          simp only [Bool.and_eq_true] at htd
          exact ⟨f2.txQueue.trans q1, ⟨[(dt, m)], by simp [f2.inbox, i1], by simp⟩,
            fun _ => ⟨htd.1, htd.2, by simp⟩, .txDue rfl⟩
        · obtain ⟨b1, ⟨pre, b2, -⟩, b3, b4⟩ := ih (s1.processRx m).1
            (if (s1.processRx m).2.2 then
              { st with received := st.received + 1, processed := st.processed + 1, frames := st.frames + 1 }
             else { st with received := st.received + 1, processed := st.processed + 1 })
          rw [f2.addr, a1] at b4
          refine ⟨b1.trans (f2.txQueue.trans q1), ⟨(dt, m) :: pre, by rw [List.cons_append, ← b2], by simp⟩,
            fun h => ⟨(b3 h).1, (b3 h).2.1, by simp⟩, b4.cons _⟩
    · split
      · next htd =>
        simp only [Bool.and_eq_true] at htd
        exact ⟨q1, ⟨[(dt, m)], by simp [i1], by simp⟩, fun _ => ⟨htd.1, htd.2, by simp⟩, .txDue rfl⟩
      · obtain ⟨b1, ⟨pre, b2, -⟩, b3, b4⟩ := ih s1 { st with received := st.received + 1 }
        rw [a1] at b4
        refine ⟨b1.trans q1, ⟨(dt, m) :: pre, by rw [List.cons_append, ← b2], by simp⟩,
          fun h => ⟨(b3 h).1, (b3 h).2.1, by simp⟩, b4.cons _⟩

theorem checkTimeoutsRx_cost (s : State) : procCost s.checkTimeoutsRx ≤ procCost s := by
  unfold State.checkTimeoutsRx
  split
  · simp only [procCost, State.txHot, State.stopReceiving, State.error, State.emit]
    by_cases h : s.txState = .transmitCf <;> simp [h]
  · exact Nat.le_refl _

/-- the tx pass asks for another iteration exactly when its last `_process_tx` returned
    `immediate_rx_required` -/
theorem txLoop_run (f : Nat) : ∀ (s : State) (n : Nat), (txLoop f s n).2.2.1 = true →
    ∃ sm : State, sm.processTx.2.2 = true ∧ sm.processTx.1.exc = none ∧
      ((sm.processTx.2.1 = none ∧ (txLoop f s n).1 = sm.processTx.1) ∨
       ∃ m, sm.processTx.2.1 = some m ∧ (txLoop f s n).1 = sm.processTx.1.emit (.tx sm.processTx.1.now m)) := by
  induction f with
  | zero => intro s n h; simp [State.txLoop] at h
  | succ f ih =>
    intro s n h
    unfold State.txLoop at h ⊢
    dsimp only at h ⊢
    split at h
    · simp at h
    · next hexc =>
      rw [if_neg hexc]
      have hexc' : s.processTx.1.exc = none := by simpa using hexc
      cases ho : s.processTx.2.1 with
      | none =>
        rw [ho] at h
        simp only at h ⊢
        split at h
        · next himm => rw [if_pos himm]; exact ⟨s, himm, hexc', .inl ⟨ho, rfl⟩⟩
        · simp at h
      | some m =>
        rw [ho] at h
        simp only at h ⊢
        split at h
        · next himm => rw [if_pos himm]; exact ⟨s, himm, hexc', .inr ⟨m, ho, rfl⟩⟩
        · next himm =>
          rw [if_neg himm]
          simp only [Option.isSome_some, if_true] at h ⊢
          exact ih _ _ h

/-! ## One iteration of the `while run_process` loop -/
namespace State

/-- `start_with_tx` -/
def startWithTx (s : State) (doTx : Bool) : Bool :=
  doTx && !s.txQueue.isEmpty && decide (s.rxState = .idle) && decide (s.txState = .idle)

/-- the rx part of an iteration: (state, stats, `run_process` requested by the rx loop) -/
def rxPass (doRx doTx : Bool) (s : State) (st : Stats) : State × Stats × Bool :=
  if doRx && !s.startWithTx doTx then s.rxLoop doTx st s.inbox else (s, st, false)

/-- `self.rate_limiter.update()` -/
def rlPass (s : State) : State := { s with rl := s.rl.update s.cfg.rlWindowNs s.now }

/-- the tx part of an iteration: (state, stats, `run_process` requested by the tx loop, out of fuel) -/
def txPass (doTx : Bool) (s : State) (st : Stats) : State × Stats × Bool × Bool :=
  if doTx then
    ((txLoop s.txFuel s st.sent).1, { st with sent := (txLoop s.txFuel s st.sent).2.1 },
      (txLoop s.txFuel s st.sent).2.2.1, (txLoop s.txFuel s st.sent).2.2.2)
  else (s, st, false, false)

/-- One iteration of `while run_process`: (state, stats, `run_process` at the end of the body, inner tx
    loop out of fuel).  **The loop iterates again iff `start_with_tx`, or the rx loop stopped early for
    time-driven tx work, or `_process_tx` returned `immediate_rx_required`.** -/
def procIter (doRx doTx : Bool) (s : State) (st : Stats) : State × Stats × Bool × Bool :=
  ((txPass doTx (s.rxPass doRx doTx st).1.rlPass (s.rxPass doRx doTx st).2.1).1,
   (txPass doTx (s.rxPass doRx doTx st).1.rlPass (s.rxPass doRx doTx st).2.1).2.1,
   s.startWithTx doTx || (s.rxPass doRx doTx st).2.2 ||
     (txPass doTx (s.rxPass doRx doTx st).1.rlPass (s.rxPass doRx doTx st).2.1).2.2.1,
   (txPass doTx (s.rxPass doRx doTx st).1.rlPass (s.rxPass doRx doTx st).2.1).2.2.2)

/-- the model's `processLoop` is `procIter` iterated -/
theorem processLoop_succ (f : Nat) (doRx doTx : Bool) (s : State) (st : Stats) :
    processLoop (f + 1) doRx doTx s st =
      if (s.procIter doRx doTx st).1.exc.isSome then ((s.procIter doRx doTx st).1, (s.procIter doRx doTx st).2.1, false)
      else if (s.procIter doRx doTx st).2.2.2 then ((s.procIter doRx doTx st).1, (s.procIter doRx doTx st).2.1, true)
      else if (s.procIter doRx doTx st).2.2.1 then
        processLoop f doRx doTx (s.procIter doRx doTx st).1 (s.procIter doRx doTx st).2.1
      else ((s.procIter doRx doTx st).1, (s.procIter doRx doTx st).2.1, false) := by
  rw [processLoop]
  cases doRx <;> cases doTx <;> rfl

end State

theorem txFuel_pos (s : State) : 0 < s.txFuel := by unfold State.txFuel; omega

theorem rlPass_facts (s : State) :
    s.rlPass.inbox = s.inbox ∧ s.rlPass.txQueue = s.txQueue ∧ procCost s.rlPass = procCost s ∧
    s.rlPass.txState = s.txState ∧ s.rlPass.cfg = s.cfg :=
  ⟨rfl, rfl, procCost_congr rfl rfl rfl, rfl, rfl⟩

/-- what the tx part does to the measure's ingredients (from `txLoop_facts`) -/
theorem txPass_facts (s : State) (st : Stats) :
    (txPass true s st).1.inbox = s.inbox ∧ (txPass true s st).1.txQueue.length ≤ s.txQueue.length ∧
    procCost (txPass true s st).1 ≤ procCost s ∧
    ((txPass true s st).2.2.1 = true → procCost (txPass true s st).1 < procCost s) ∧
    (txPass true s st).1.pendingFc = false ∧
    (s.txState = .idle → s.txQueue ≠ [] →
      (txPass true s st).1.txQueue.length < s.txQueue.length ∨ procCost (txPass true s st).1 < procCost s) := by
  obtain ⟨a, b, c, d, e, f⟩ := txLoop_facts s.txFuel s st.sent
  exact ⟨a, b, c, d, e (.inl (txFuel_pos s)), f (txFuel_pos s)⟩

theorem procCost_le_one {s : State} (h : s.pendingFc = false) : procCost s ≤ 1 := by
  simp only [procCost, h, Bool.false_eq_true, if_false]; split <;> omega

/-- **The measure strictly decreases across every iteration that asks for another one.** -/
theorem procIter_measure (doRx doTx : Bool) (s : State) (st : Stats)
    (hrun : (s.procIter doRx doTx st).2.2.1 = true) :
    procMeasure (s.procIter doRx doTx st).1 < procMeasure s := by
  cases doTx with
  | false =>
    -- without `do_tx` nothing asks for another iteration
    exfalso
    simp only [State.procIter, State.txPass, State.startWithTx, Bool.false_and, Bool.false_eq_true, if_false,
      Bool.or_false, Bool.false_or] at hrun
    unfold State.rxPass at hrun
    split at hrun
    · exact absurd ((rxLoop_facts false s.inbox s st).2.2.1 hrun).1 (by simp)
    · simp at hrun
  | true =>
    unfold State.procIter at hrun ⊢
    dsimp only at hrun ⊢
    by_cases hsw : s.startWithTx true = true
    · -- `start_with_tx`: no rx pass
      have hA : s.rxPass doRx true st = (s, st, false) := by simp [State.rxPass, hsw]
      rw [hA]
      dsimp only
      obtain ⟨r1, r2, r3, r4, -⟩ := rlPass_facts s
      obtain ⟨a, b, c, -, -, f⟩ := txPass_facts s.rlPass st
      simp only [State.startWithTx, Bool.true_and, Bool.and_eq_true, Bool.not_eq_true', decide_eq_true_eq] at hsw
      have hne : s.rlPass.txQueue ≠ [] := by
        rw [r2]; intro h; simp [h] at hsw
      have := f (r4.trans hsw.2) hne
      unfold procMeasure
      rw [a, r1]
      rw [r2] at b this
      rw [r3] at c this
      omega
    · have hsw' : s.startWithTx true = false := by simpa using hsw
      rw [hsw'] at hrun
      simp only [Bool.false_or] at hrun
      cases doRx with
      | false =>
        have hA : s.rxPass false true st = (s, st, false) := by simp [State.rxPass]
        rw [hA] at hrun ⊢
        dsimp only at hrun ⊢
        simp only [Bool.false_or] at hrun
        obtain ⟨r1, r2, r3, -, -⟩ := rlPass_facts s
        obtain ⟨a, b, -, d, -, -⟩ := txPass_facts s.rlPass st
        have := d hrun
        unfold procMeasure
        rw [a, r1]
        rw [r2] at b
        rw [r3] at this
        omega
      | true =>
        have hA : s.rxPass true true st = s.rxLoop true st s.inbox := by simp [State.rxPass, hsw']
        rw [hA] at hrun ⊢
        cases hl : s.inbox with
        | nil =>
          rw [hl] at hrun
          rw [rxLoop_nil] at hrun ⊢
          dsimp only at hrun ⊢
          simp only [Bool.false_or] at hrun
          have hrx := RxFrame.checkTimeoutsRx (({ s with inbox := [] } : State).emit (.rxNone s.now))
          have hc : procCost (({ s with inbox := [] } : State).emit (.rxNone s.now)).checkTimeoutsRx ≤ procCost s :=
            Nat.le_trans (checkTimeoutsRx_cost _) (Nat.le_of_eq (procCost_congr rfl rfl rfl))
          generalize (({ s with inbox := [] } : State).emit (.rxNone s.now)).checkTimeoutsRx = sA at hrun hrx hc ⊢
          obtain ⟨r1, r2, r3, -, -⟩ := rlPass_facts sA
          obtain ⟨a, b, -, d, -, -⟩ := txPass_facts sA.rlPass st
          have := d hrun
          have hq : sA.txQueue = s.txQueue := hrx.txQueue
          have hi : sA.inbox = [] := hrx.inbox
          unfold procMeasure
          rw [a, r1, hi]
          rw [r2, hq] at b
          rw [r3] at this
          simp only [List.length_nil]
          omega
        | cons x rest =>
          obtain ⟨q, ⟨pre, hpre, hne⟩, -, -⟩ := rxLoop_facts true s.inbox s st
          rw [← hl]
          generalize s.rxLoop true st s.inbox = A at q hpre ⊢
          obtain ⟨r1, r2, -, -, -⟩ := rlPass_facts A.1
          obtain ⟨a, b, -, -, e, -⟩ := txPass_facts A.1.rlPass A.2.1
          have hc := procCost_le_one e
          have hlen : A.1.inbox.length < s.inbox.length := by
            have h0 : 0 < pre.length := List.length_pos_iff.2 (hne (by rw [hl]; simp))
            have := congrArg List.length hpre
            rw [List.length_append] at this
            omega
          unfold procMeasure
          rw [a, r1]
          rw [r2, q] at b
          omega

/-! ## The fuel of `process` suffices -/

theorem cfgValid_stepInv : StepInv (fun s => s.cfg.valid = true) := by
  apply StepInv.of_simple
  · intro s m h; rw [(RxFrame.processRx s m).cfg]; exact h
  · intro s h; rw [(RxFrame.checkTimeoutsRx s).cfg]; exact h
  · intro s h; rw [(TxFrame.processTx s).cfg]; exact h
  · intro s e h; exact h
  · intro s i n h; exact h
  · intro s l h; exact h

/-- step invariants go through the parts of an iteration -/
theorem StepInv.procIter {P : State → Prop} (hP : StepInv P) (doRx doTx : Bool) (s : State) (st : Stats)
    (h : P s) : P (s.rxPass doRx doTx st).1 ∧ P (s.rxPass doRx doTx st).1.rlPass ∧ P (s.procIter doRx doTx st).1 := by
  have h0 : P (s.rxPass doRx doTx st).1 := by
    unfold State.rxPass
    split
    · exact hP.rxLoop doTx _ _ _ h
    · exact h
  have h1 : P (s.rxPass doRx doTx st).1.rlPass := hP.rl _ _ h0
  refine ⟨h0, h1, ?_⟩
  unfold State.procIter State.txPass
  dsimp only
  split
  · exact hP.txLoop _ _ _ h1
  · exact h1

theorem procIter_cfg_valid (doRx doTx : Bool) (s : State) (st : Stats) (hv : s.cfg.valid = true) :
    (s.rxPass doRx doTx st).1.rlPass.cfg.valid = true ∧ (s.procIter doRx doTx st).1.cfg.valid = true :=
  (cfgValid_stepInv.procIter doRx doTx s st hv).2

/-- the inner tx loop of an iteration does not run out of fuel (this is `operable_tx_loop_terminates`,
    C16, applied to the state the tx pass starts from) -/
theorem procIter_tx_fuel (doRx doTx : Bool) (s : State) (st : Stats) (hv : s.cfg.valid = true) :
    (s.procIter doRx doTx st).2.2.2 = false := by
  have h1 := (procIter_cfg_valid doRx doTx s st hv).1
  unfold State.procIter State.txPass
  dsimp only
  split
  · exact txLoop_txFuel _ _ h1
  · rfl

/-- **`processLoop` stops by itself with any fuel above the measure.** -/
theorem processLoop_fuel (doRx doTx : Bool) (f : Nat) : ∀ (s : State) (st : Stats), s.cfg.valid = true →
    procMeasure s < f → (processLoop f doRx doTx s st).2.2 = false := by
  induction f with
  | zero => intro s st _ h; omega
  | succ f ih =>
    intro s st hv h
    rw [processLoop_succ]
    split
    · rfl
    · split
      · next hoof => rw [procIter_tx_fuel doRx doTx s st hv] at hoof; simp at hoof
      · split
        · next hrun =>
          have := procIter_measure doRx doTx s st hrun
          exact ih _ _ (procIter_cfg_valid doRx doTx s st hv).2 (by omega)
        · rfl

/-- **The out-of-fuel flag of `process` is never set**: the fuel `2 * (inbox + queue) + 8` is more than the
    measure `2 * (inbox + queue) + cost`, `cost ≤ 2`. -/
theorem process_fuel_sufficient (s : State) (doRx doTx : Bool) (hv : s.cfg.valid = true) :
    (s.process doRx doTx).2.2 = false :=
  processLoop_fuel doRx doTx _ s {} hv (procMeasure_lt_processFuel s)

/-- the sharper bound: `2 * (inbox + queue) + 3` iterations are enough -/
theorem processLoop_fuel_sharp (s : State) (doRx doTx : Bool) (st : Stats) (hv : s.cfg.valid = true) :
    (processLoop (2 * (s.inbox.length + s.txQueue.length) + 3) doRx doTx s st).2.2 = false := by
  apply processLoop_fuel doRx doTx _ s st hv
  have := procCost_le_two s
  unfold procMeasure; omega

/-! ## What is left in the inbox when `process` returns -/

/-- the frame is a Flow Control frame for this layer's receive address -/
def IsFcFrame (a : Addr) (m : CanMsg) : Prop :=
  ∃ d st bs stm, decode m.data a.rx.rxPrefixSize = some d ∧ d.pdu = .fc st bs stm

/-- `_process_rx` asks for an immediate tx pass only for a Flow Control frame or when a Flow Control has
    to be sent. -/
theorem processRx_imm (s : State) (m : CanMsg) (h : (s.processRx m).2.1 = true) :
    (s.processRx m).1.pendingFc = true ∨ IsFcFrame s.addr m := by
  rw [processRx_eq] at h ⊢
  split at h
  · simp at h
  · next d hd =>
    split at h
    · next st bs stm hp => exact .inr ⟨d, st, bs, stm, hd, hp⟩
    · left
      unfold State.rxSf at h ⊢
      grind [State.deliver, State.stopReceiving, State.error, State.emit]
    · left
      unfold State.rxFf State.startReception at h ⊢
      grind [State.stopReceiving, State.error, State.emit, State.requestFc, startRxCfTimer]
    · left
      unfold State.rxCf at h ⊢
      grind [State.deliver, State.stopReceiving, State.error, State.emit, State.requestFc, startRxCfTimer]

/-- with a Flow Control pending (and not in listen mode) `_process_tx` sends it and asks for an immediate
    rx pass — or raises -/
theorem processTx_pending (s : State) (hp : s.pendingFc = true) (hl : s.cfg.listen = false) :
    s.processTx.1.exc.isSome = true ∨ s.processTx.2.2 = true := by
  rw [processTx_eq]
  have : (s.pendStage.2 = some none ∧ s.pendStage.1.exc.isSome = true) ∨ ∃ msg, s.pendStage.2 = some (some msg) := by
    unfold State.pendStage
    grind [State.raise, startRxCfTimer]
  rcases this with ⟨h1, h2⟩ | ⟨msg, h1⟩
  · split
    · next heq => rw [heq] at h2; exact .inl h2
    · next heq => rw [heq] at h1; simp at h1
    · next heq => rw [heq] at h1; simp at h1
  · split
    · next heq => rw [heq] at h1; simp at h1
    · exact .inr rfl
    · next heq => rw [heq] at h1; simp at h1

theorem txLoop_pending (f : Nat) (s : State) (n : Nat) (hf : 0 < f) (hp : s.pendingFc = true)
    (hl : s.cfg.listen = false) :
    (txLoop f s n).1.exc.isSome = true ∨ (txLoop f s n).2.2.1 = true := by
  obtain ⟨f, rfl⟩ : ∃ g, f = g + 1 := ⟨f - 1, by omega⟩
  unfold State.txLoop
  dsimp only
  split
  · next h => exact .inl h
  · next h =>
    have himm : s.processTx.2.2 = true := by
      rcases processTx_pending s hp hl with h' | h'
      · exact absurd h' h
      · exact h'
    rw [if_pos himm]
    exact .inr rfl

/-- configuration and addresses are constants of the layer -/
theorem const_stepInv (c : Cfg) (a : Addr) : StepInv (fun s => s.cfg = c ∧ s.addr = a) := by
  apply StepInv.of_simple
  · intro s m h; rw [(RxFrame.processRx s m).cfg, (RxFrame.processRx s m).addr]; exact h
  · intro s h; rw [(RxFrame.checkTimeoutsRx s).cfg, (RxFrame.checkTimeoutsRx s).addr]; exact h
  · intro s h; rw [(TxFrame.processTx s).cfg, (TxFrame.processTx s).addr]; exact h
  · intro s e h; exact h
  · intro s i n h; exact h
  · intro s l h; exact h

/-- what an iteration leaves in the inbox is a suffix of what was there -/
theorem procIter_inbox (doRx doTx : Bool) (s : State) (st : Stats) :
    ∃ pre, s.inbox = pre ++ (s.procIter doRx doTx st).1.inbox := by
  have h1 : ∃ pre, s.inbox = pre ++ (s.rxPass doRx doTx st).1.inbox := by
    unfold State.rxPass
    split
    · obtain ⟨-, ⟨pre, h, -⟩, -, -⟩ := rxLoop_facts doTx s.inbox s st
      exact ⟨pre, h⟩
    · exact ⟨[], rfl⟩
  have h2 : (s.procIter doRx doTx st).1.inbox = (s.rxPass doRx doTx st).1.inbox := by
    unfold State.procIter State.txPass
    dsimp only
    split
    · exact (txLoop_facts _ _ _).1
    · rfl
  rw [h2]; exact h1

/-- a `processLoop` that did not run out of fuel ended in a last iteration: one that raised, or one
    after which `run_process` was false -/
theorem processLoop_last (doRx doTx : Bool) (f : Nat) : ∀ (s : State) (st : Stats),
    (processLoop f doRx doTx s st).2.2 = false →
    ∃ (sk : State) (stk : Stats) (pre : List (Nat × CanMsg)), s.inbox = pre ++ sk.inbox ∧ sk.cfg = s.cfg ∧ sk.addr = s.addr ∧
      (processLoop f doRx doTx s st).1 = (sk.procIter doRx doTx stk).1 ∧
      ((sk.procIter doRx doTx stk).1.exc.isSome = true ∨ (sk.procIter doRx doTx stk).2.2.1 = false) := by
  induction f with
  | zero => intro s st h; simp [State.processLoop] at h
  | succ f ih =>
    intro s st h
    rw [processLoop_succ] at h ⊢
    split at h
    · next hexc => rw [if_pos hexc]; exact ⟨s, st, [], rfl, rfl, rfl, rfl, .inl hexc⟩
    · next hexc =>
      rw [if_neg hexc]
      split at h
      · simp at h
      · next hoof =>
        rw [if_neg hoof]
        split at h
        · next hrun =>
          rw [if_pos hrun]
          obtain ⟨sk, stk, pre, h1, h2, h3, h4, h5⟩ := ih _ _ h
          obtain ⟨pre0, h0⟩ := procIter_inbox doRx doTx s st
          obtain ⟨c0, a0⟩ := ((const_stepInv s.cfg s.addr).procIter doRx doTx s st ⟨rfl, rfl⟩).2.2
          exact ⟨sk, stk, pre0 ++ pre, by rw [h0, h1, List.append_assoc], h2.trans c0, h3.trans a0, h4, h5⟩
        · next hrun =>
          rw [if_neg hrun]
          exact ⟨s, st, [], rfl, rfl, rfl, rfl, .inr (by simpa using hrun)⟩

/-- the last iteration of a `process(do_rx=True)` that returned normally: the inbox is empty, or the rx
    pass stopped on a frame for which `_process_rx` asked for an immediate tx pass and the tx pass did not
    ask for another iteration; with `do_tx` outside listen mode that frame is a Flow Control frame -/
theorem procIter_last_inbox (doTx : Bool) (s : State) (st : Stats)
    (hexc : (s.procIter true doTx st).1.exc = none) (hrun : (s.procIter true doTx st).2.2.1 = false) :
    (s.procIter true doTx st).1.inbox = [] ∨
    ∃ pre dt m, s.inbox = pre ++ (dt, m) :: (s.procIter true doTx st).1.inbox ∧ s.addr.rx.isForMe m = true ∧
      (∃ sm : State, sm.addr = s.addr ∧ (sm.processRx m).2.1 = true) ∧
      (doTx = true → s.cfg.listen = false → IsFcFrame s.addr m) := by
  unfold State.procIter at hexc hrun ⊢
  dsimp only at hexc hrun ⊢
  simp only [Bool.or_eq_false_iff] at hrun
  obtain ⟨⟨hsw, hrx⟩, htx⟩ := hrun
  have hA : s.rxPass true doTx st = s.rxLoop doTx st s.inbox := by simp [State.rxPass, hsw]
  obtain ⟨cA, aA⟩ := (const_stepInv s.cfg s.addr).rxLoop doTx s.inbox s st ⟨rfl, rfl⟩
  obtain ⟨-, -, -, hstop⟩ := rxLoop_facts doTx s.inbox s st
  rw [hA] at hexc hrx htx ⊢
  generalize s.rxLoop doTx st s.inbox = A at hexc hrx htx hstop cA aA ⊢
  have hin : (txPass doTx A.1.rlPass A.2.1).1.inbox = A.1.inbox := by
    unfold State.txPass
    split
    · exact (txLoop_facts _ _ _).1
    · rfl
  rw [hin]
  cases hstop with
  | drained h _ => exact .inl h
  | txDue h => rw [h] at hrx; simp at hrx
  | immTx sm dt m pre hl haddr hme himm hst _ =>
    right
    refine ⟨pre, dt, m, hl, by rw [← haddr]; exact hme, ⟨sm, haddr, himm⟩, ?_⟩
    intro hd hlisten
    subst hd
    -- no Flow Control can be pending before the tx pass: it would be sent with `immediate_rx_required`
    have hp : A.1.pendingFc = false := by
      cases hp : A.1.pendingFc with
      | false => rfl
      | true =>
        exfalso
        have := txLoop_pending A.1.rlPass.txFuel A.1.rlPass A.2.1.sent (txFuel_pos _) hp
          (by show A.1.cfg.listen = false; rw [cA]; exact hlisten)
        simp only [State.txPass, if_true] at hexc htx
        rcases this with h | h
        · rw [hexc] at h; simp at h
        · rw [htx] at h; simp at h
    rcases processRx_imm sm m himm with h | h
    · rw [← hst, hp] at h; simp at h
    · rw [haddr] at h; exact h

/-- **What `process(do_rx=True)` leaves unread.** When it returns normally, either `rxfn` has returned
    `None` (the inbox is empty), or the frames after some frame `m` are still unread, where `m` is a
    frame for this layer on which `_process_rx` asked for an immediate tx pass (then the rx loop breaks)
    and the tx pass did not ask for another iteration.  With `do_tx` and outside listen mode `m` is a
    Flow Control frame (a pending Flow Control would have been sent, and that asks for another
    iteration). -/
theorem process_inbox (s : State) (doTx : Bool) (hv : s.cfg.valid = true)
    (hexc : (s.process true doTx).1.exc = none) :
    (s.process true doTx).1.inbox = [] ∨
    ∃ pre dt m, s.inbox = pre ++ (dt, m) :: (s.process true doTx).1.inbox ∧ s.addr.rx.isForMe m = true ∧
      (∃ sm : State, sm.addr = s.addr ∧ (sm.processRx m).2.1 = true) ∧
      (doTx = true → s.cfg.listen = false → IsFcFrame s.addr m) := by
  have hf := process_fuel_sufficient s true doTx hv
  unfold State.process at hf hexc ⊢
  obtain ⟨sk, stk, pre0, h1, h2, h3, h4, h5⟩ := processLoop_last true doTx _ s {} hf
  rw [h4] at hexc ⊢
  have hrun : (sk.procIter true doTx stk).2.2.1 = false := by
    rcases h5 with h | h
    · rw [hexc] at h; simp at h
    · exact h
  rcases procIter_last_inbox doTx sk stk hexc hrun with h | ⟨pre, dt, m, a, b, c, d⟩
  · exact .inl h
  · right
    rw [h3] at b c d
    rw [h2] at d
    exact ⟨pre0 ++ pre, dt, m, by rw [h1, a, List.append_assoc], b, c, d⟩

/-! ## How many frames one `process` call can send -/

theorem consume_remaining_le (r : Req) (n : Nat) (e : Bool) : (r.consume n e).1.remaining ≤ r.remaining := by
  have := Safe.consume_mono r n e
  have := Safe.consume_size r n e
  unfold Req.remaining; omega

theorem sbFuel_le_one (s : State) : sbFuel s ≤ 1 := by unfold sbFuel; split <;> omega

theorem txMeasure_le (s : State) : txMeasure s ≤ (s.txQueue.map reqFuel).sum + actFuel s + 1 := by
  have := sbFuel_le_one s
  unfold txMeasure; omega

theorem sfFinish_measure_le (s : State) (tat : Tat) (allowed : Nat) (d : Bytes) :
    txMeasure (s.sfFinish tat allowed d).1 ≤ (s.txQueue.map reqFuel).sum + actFuel s + 1 := by
  unfold State.sfFinish
  split
  · exact Nat.le_trans (Nat.le_of_eq (txMeasure_congr rfl rfl rfl)) (txMeasure_le s)
  · split
    · exact Nat.le_trans (txMeasure_le _) (Nat.le_refl _)
    · rw [txMeasure_stopSending]; omega

theorem ffFinish_measure_le (s : State) (allowed : Nat) (d : Bytes) :
    txMeasure (s.ffFinish allowed d).1 ≤ (s.txQueue.map reqFuel).sum + actFuel s + 1 := by
  unfold State.ffFinish
  split
  · exact Nat.le_trans (Nat.le_of_eq (txMeasure_congr rfl rfl rfl)) (txMeasure_le s)
  · split
    · exact Nat.le_trans (Nat.le_of_eq (txMeasure_congr rfl rfl rfl)) (txMeasure_le s)
    · exact Nat.le_trans (txMeasure_le _) (Nat.le_refl _)

theorem startTx_measure_le (s : State) (r : Req) (allowed : Nat) (hv : s.cfg.valid = true)
    (ha : s.active = some r) (hd : r.depleted = false) :
    txMeasure (s.startTx r allowed).1 ≤ txMeasure s := by
  have hp := Safe.txPrefix_le s.addr.tx
  have hdl := Safe.txDl_ge hv
  have hs : (s.txQueue.map reqFuel).sum + (r.remaining + 2) ≤ txMeasure s := by
    simp [txMeasure, actFuel, ha, reqFuel]
  simp only [Req.depleted, Bool.or_eq_false_iff, decide_eq_false_iff_not] at hd
  rw [startTx_eq]
  by_cases hcond : r.size + (if s.sizeOnFirst r then 1 else 2) + s.txPrefixLen ≤ s.cfg.txDl
  · rw [if_pos hcond]
    cases hres : (r.consume r.size true).2 with
    | none =>
      dsimp only
      rw [txMeasure_stopSending]
      simp only [State.error, State.emit, consumeActive_txQueue]
      omega
    | some p =>
      dsimp only
      have hlen : p.length = r.size := (Safe.consume_some r _ _ p hres).2.2.2 rfl
      have hlt := Safe.consume_remaining_lt r _ _ p hres (by omega)
      refine Nat.le_trans (sfFinish_measure_le _ _ _ _) ?_
      simp only [consumeActive_txQueue, actFuel, consumeActive_active, reqFuel]
      omega
  · rw [if_neg hcond]
    cases hres : (r.consume (s.ffDataLen r) true).2 with
    | none =>
      dsimp only
      rw [txMeasure_stopSending]
      simp only [State.error, State.emit, consumeActive_txQueue]
      omega
    | some p =>
      dsimp only
      have hlen : p.length = s.ffDataLen r := (Safe.consume_some r _ _ p hres).2.2.2 rfl
      have hpos : 0 < p.length := by
        rw [hlen]; unfold State.ffDataLen State.txPrefixLen; split <;> omega
      have hlt := Safe.consume_remaining_lt r _ _ p hres hpos
      refine Nat.le_trans (ffFinish_measure_le _ _ _) ?_
      simp only [consumeActive_txQueue, actFuel, consumeActive_active, reqFuel]
      omega

theorem readTxQueue_measure_le (q : List Req) : ∀ (s : State) (allowed : Nat), s.cfg.valid = true →
    txMeasure (s.readTxQueue allowed q).1 ≤ (q.map reqFuel).sum + actFuel s + sbFuel s := by
  induction q with
  | nil => intro s allowed hv; exact Nat.le_refl _
  | cons r rest ih =>
    intro s allowed hv
    unfold State.readTxQueue
    dsimp only
    split
    · refine Nat.le_trans (ih _ allowed hv) ?_
      show (rest.map reqFuel).sum + 0 + sbFuel s ≤ _
      simp only [List.map_cons, List.sum_cons]
      omega
    · next hd =>
      have := startTx_measure_le ({ s with txQueue := rest, active := some r } : State) r allowed hv rfl
        (by simpa using hd)
      have e : txMeasure ({ s with txQueue := rest, active := some r } : State) =
          (rest.map reqFuel).sum + reqFuel r + sbFuel s := rfl
      rw [e] at this
      simp only [List.map_cons, List.sum_cons]
      omega

theorem transmitCf_measure_le (s : State) (allowed : Nat) :
    txMeasure (s.transmitCf allowed).1 ≤ txMeasure s := by
  rw [transmitCf_eq]
  split
  · exact Nat.le_of_eq (txMeasure_congr rfl rfl rfl)
  · exact Nat.le_of_eq (txMeasure_congr rfl rfl rfl)
  · next rbs r _ ha =>
    have hle := consume_remaining_le r (s.cfPayloadLen r) false
    have h1 : txMeasure (s.consumeActive r (s.cfPayloadLen r) false).1 ≤ txMeasure s := by
      simp only [txMeasure, actFuel, sbFuel, consumeActive_txQueue, consumeActive_active,
        consumeActive_standby, ha, reqFuel]
      omega
    split
    · split
      · split
        · exact Nat.le_trans (Nat.le_of_eq (txMeasure_congr rfl rfl rfl)) h1
        · next p _ =>
          obtain ⟨e1, e2, e3, -⟩ := cfEmit_spec (s.consumeActive r (s.cfPayloadLen r) false).1 p
          have h2 : txMeasure ((s.consumeActive r (s.cfPayloadLen r) false).1.cfEmit p).1 ≤ txMeasure s :=
            Nat.le_trans (Nat.le_of_eq (txMeasure_congr e1 e2 e3)) h1
          split
          · exact h2
          · exact Nat.le_trans (cfAfter_measure_le _ _ _ _).1 h2
      · exact Nat.le_refl _
    · exact Nat.le_refl _

theorem txMeasure_standby_none (s : State) : txMeasure ({ s with standby := none } : State) ≤ txMeasure s := by
  simp only [txMeasure, sbFuel, actFuel]
  split <;> simp

theorem fsmDispatch_measure_le (s : State) (allowed : Nat) (hv : s.cfg.valid = true) :
    txMeasure (s.fsmDispatch allowed).1 ≤ txMeasure s := by
  have h_ff : txMeasure ({ ({ s with standby := none } : State).startRxFcTimer with txState := .waitFc } : State) ≤
      txMeasure s := Nat.le_trans (Nat.le_of_eq (txMeasure_congr rfl rfl rfl)) (txMeasure_standby_none s)
  have h_sf : txMeasure (({ s with standby := none } : State).stopSending true) ≤ txMeasure s :=
    Nat.le_trans (txMeasure_stopSending_le _ _) (txMeasure_standby_none s)
  unfold State.fsmDispatch
  split
  · exact readTxQueue_measure_le s.txQueue s allowed hv
  · split
    · split
      · dsimp only
        split
        all_goals first | exact h_ff | exact h_sf
      · exact Nat.le_refl _
    · exact Nat.le_refl _
  · split
    · split
      · dsimp only
        split
        all_goals first | exact h_ff | exact h_sf
      · exact Nat.le_refl _
    · exact Nat.le_refl _
  · exact Nat.le_refl _
  · exact transmitCf_measure_le s allowed

theorem fsmStage_measure_le (s : State) (allowed : Nat) (hv : s.cfg.valid = true) :
    txMeasure (s.fsmStage allowed).1 ≤ txMeasure s := by
  unfold State.fsmStage
  have h1 : txMeasure (if s.timerFc.timedOut s.now then (s.error .FlowControlTimeout).stopSending false else s)
      ≤ txMeasure s ∧
      (if s.timerFc.timedOut s.now then (s.error .FlowControlTimeout).stopSending false else s).cfg = s.cfg := by
    split
    · exact ⟨Nat.le_trans (txMeasure_stopSending_le _ _) (Nat.le_of_eq (txMeasure_congr rfl rfl rfl)),
        by simp [State.error, State.emit]⟩
    · exact ⟨Nat.le_refl _, rfl⟩
  generalize (if s.timerFc.timedOut s.now then (s.error .FlowControlTimeout).stopSending false else s) = s1 at h1
  obtain ⟨h1, c1⟩ := h1
  dsimp only
  split
  · exact Nat.le_trans (Nat.le_of_eq (txMeasure_congr rfl rfl rfl)) h1
  · have h2 : ∀ b : Bool, txMeasure (if b = true then s1.stopSending true else s1) ≤ txMeasure s1 ∧
        (if b = true then s1.stopSending true else s1).cfg = s1.cfg := by
      intro b; cases b
      · exact ⟨Nat.le_refl _, rfl⟩
      · exact ⟨txMeasure_stopSending_le _ _, by simp⟩
    generalize (decide (s1.txState ≠ .idle) && (match s1.active with | some r => r.depleted | none => false)
          && s1.standby.isNone) = cnd
    have h2 := h2 cnd
    generalize (if cnd = true then s1.stopSending true else s1) = s2 at h2
    obtain ⟨h2, c2⟩ := h2
    have h3 : txMeasure (s2.fsmDispatch allowed).1 ≤ txMeasure s :=
      Nat.le_trans (fsmDispatch_measure_le s2 allowed (by rw [c2, c1]; exact hv)) (Nat.le_trans h2 h1)
    split
    · exact h3
    · split
      · exact Nat.le_trans (Nat.le_of_eq (txMeasure_congr rfl rfl rfl)) h3
      · exact h3

/-- `pendCount` (one if a Flow Control is to be sent) from `Safe.lean` -/
theorem pendCount_le_one (s : State) : pendCount s ≤ 1 := by unfold pendCount; split <;> omega

theorem processTx_measure_le (s : State) (hv : s.cfg.valid = true) : txMeasure s.processTx.1 ≤ txMeasure s := by
  rw [processTx_eq]
  have h1 := txMeasure_pendStage s
  have c1 := (TxFrame.pendStage s).cfg
  split
  · next heq => rw [heq] at h1; exact Nat.le_of_eq h1
  · next heq => rw [heq] at h1; exact Nat.le_of_eq h1
  · next s1 heq =>
    rw [heq] at h1 c1
    dsimp only at h1 c1 ⊢
    have h2 := txMeasure_fcStage_le s1
    have c2 := (TxFrame.fcStage s1).cfg
    split
    · next s2 heq2 => rw [heq2] at h2; dsimp only at h2 ⊢; omega
    · next s2 heq2 =>
      rw [heq2] at h2 c2
      dsimp only at h2 c2 ⊢
      have := fsmStage_measure_le s2 (s.rl.allowedBytes s.cfg.rlBitMax) (by rw [c2, c1]; exact hv)
      omega

theorem processTx_out_measure (s : State) (hv : s.cfg.valid = true) (m : CanMsg)
    (ho : s.processTx.2.1 = some m) : txMeasure s.processTx.1 + 1 ≤ txMeasure s + pendCount s := by
  rw [processTx_eq] at ho ⊢
  have h1 := txMeasure_pendStage s
  have c1 := (TxFrame.pendStage s).cfg
  obtain ⟨-, -, -, -, -, r1⟩ := pendStage_facts s
  split at ho
  · simp at ho
  · next heq =>
    rw [heq] at h1 r1
    have := r1 rfl
    dsimp only at h1 ⊢
    simp only [pendCount, this, if_true]
    omega
  · next s1 heq =>
    rw [heq] at h1 c1
    dsimp only at h1 c1 ho ⊢
    have h2 := txMeasure_fcStage_le s1
    have c2 := (TxFrame.fcStage s1).cfg
    split at ho
    · simp at ho
    · next s2 heq2 =>
      rw [heq2] at h2 c2
      dsimp only at h2 c2 ⊢
      have := fsmStage_measure s2 (s.rl.allowedBytes s.cfg.rlBitMax) (by rw [c2, c1]; exact hv) m ho
      omega

/-- the budget of frames one `process` call can still send: remaining payload bytes plus two per
    request (plus one for a frame parked by the rate limiter) — `txMeasure` —, one for a Flow Control
    waiting to be sent, one per frame still to be read (each can request one Flow Control) -/
def sendBudget (s : State) : Nat := txMeasure s + pendCount s + s.inbox.length

/-- **The tx pass pays for every frame it sends.** -/
theorem txLoop_sent (f : Nat) : ∀ (s : State) (n : Nat), s.cfg.valid = true →
    (txLoop f s n).2.1 + (txMeasure (txLoop f s n).1 + pendCount (txLoop f s n).1) ≤
      n + (txMeasure s + pendCount s) := by
  induction f with
  | zero => intro s n _; exact Nat.le_refl _
  | succ f ih =>
    intro s n hv
    have hp : pendCount s.processTx.1 = 0 := by simp [pendCount, processTx_clears]
    have hle := processTx_measure_le s hv
    unfold State.txLoop
    dsimp only
    split
    · dsimp only; omega
    · cases ho : s.processTx.2.1 with
      | none =>
        simp only
        split
        · dsimp only; omega
        · simp only [Option.isSome_none, Bool.false_eq_true, if_false]; omega
      | some m =>
        simp only
        have hout := processTx_out_measure s hv m ho
        have e1 : txMeasure (s.processTx.1.emit (.tx s.processTx.1.now m)) = txMeasure s.processTx.1 :=
          txMeasure_congr rfl rfl rfl
        have e2 : pendCount (s.processTx.1.emit (.tx s.processTx.1.now m)) = pendCount s.processTx.1 := rfl
        split
        · dsimp only; rw [e1, e2]; omega
        · simp only [Option.isSome_some, if_true]
          have := ih (s.processTx.1.emit (.tx s.processTx.1.now m)) (n + 1)
            (by rw [show (s.processTx.1.emit (.tx s.processTx.1.now m)).cfg = s.cfg from (TxFrame.processTx s).cfg]
                exact hv)
          rw [e1, e2] at this
          omega

theorem txMeasure_of_rxFrame {s s' : State} (h : RxFrame s s') : txMeasure s' = txMeasure s :=
  txMeasure_congr h.txQueue h.active h.standby

theorem pendCount_checkTimeoutsRx (s : State) : pendCount s.checkTimeoutsRx ≤ pendCount s := by
  have := checkTimeoutsRx_pend s
  unfold pendCount
  split
  · next h => simp [this h]
  · omega

/-- **The rx pass against the budget**: it sends nothing, and each frame read pays for the Flow Control it
    may request. -/
theorem rxLoop_budget (doTx : Bool) (l : List (Nat × CanMsg)) : ∀ (s : State) (st : Stats),
    (rxLoop doTx s st l).2.1.sent = st.sent ∧
    sendBudget (rxLoop doTx s st l).1 ≤ txMeasure s + pendCount s + l.length := by
  induction l with
  | nil =>
    intro s st
    rw [rxLoop_nil]
    have h := RxFrame.checkTimeoutsRx (({ s with inbox := [] } : State).emit (.rxNone s.now))
    have h2 := pendCount_checkTimeoutsRx (({ s with inbox := [] } : State).emit (.rxNone s.now))
    have h3 : pendCount (({ s with inbox := [] } : State).emit (.rxNone s.now)) = pendCount s := rfl
    have h4 : txMeasure (({ s with inbox := [] } : State).emit (.rxNone s.now)) = txMeasure s :=
      txMeasure_congr rfl rfl rfl
    refine ⟨rfl, ?_⟩
    unfold sendBudget
    rw [txMeasure_of_rxFrame h, h.inbox, h4]
    have h5 : (({ s with inbox := [] } : State).emit (.rxNone s.now)).inbox.length = 0 := rfl
    simp only [List.length_nil]
    omega
  | cons x rest ih =>
    intro s st
    obtain ⟨dt, m⟩ := x
    rw [rxLoop_cons]
    have h1 : txMeasure (s.afterRecv dt m rest) = txMeasure s ∧ pendCount (s.afterRecv dt m rest) ≤ pendCount s ∧
        (s.afterRecv dt m rest).inbox = rest := by
      have h := RxFrame.checkTimeoutsRx (({ s with inbox := rest, now := s.now + dt } : State).emit (.rx (s.now + dt) m))
      have h2 := pendCount_checkTimeoutsRx (({ s with inbox := rest, now := s.now + dt } : State).emit (.rx (s.now + dt) m))
      exact ⟨(txMeasure_of_rxFrame h).trans (txMeasure_congr rfl rfl rfl), h2, h.inbox⟩
    generalize s.afterRecv dt m rest = s1 at h1
    obtain ⟨m1, p1, i1⟩ := h1
    have f2 := RxFrame.processRx s1 m
    have m2 := txMeasure_of_rxFrame f2
    have p2 := pendCount_le_one (s1.processRx m).1
    have hst : ∀ (b : Bool) (x y : Stats), x.sent = st.sent → y.sent = st.sent →
        (if b = true then x else y).sent = st.sent := by
      intro b x y hx hy; cases b <;> simp [hx, hy]
    have hb2 : sendBudget (s1.processRx m).1 ≤ txMeasure s + pendCount s + (rest.length + 1) := by
      unfold sendBudget; rw [m2, f2.inbox, i1]; omega
    simp only [List.length_cons]
    split
    · split
      · exact ⟨hst _ _ _ rfl rfl, hb2⟩
      · split
        · exact ⟨hst _ _ _ rfl rfl, hb2⟩
        · obtain ⟨a, b⟩ := ih (s1.processRx m).1
            (if (s1.processRx m).2.2 then
              { st with received := st.received + 1, processed := st.processed + 1, frames := st.frames + 1 }
             else { st with received := st.received + 1, processed := st.processed + 1 })
          exact ⟨a.trans (hst _ _ _ rfl rfl), by omega⟩
    · have hb1 : sendBudget s1 ≤ txMeasure s + pendCount s + (rest.length + 1) := by
        unfold sendBudget; rw [i1]; omega
      split
      · exact ⟨rfl, hb1⟩
      · obtain ⟨a, b⟩ := ih s1 { st with received := st.received + 1 }
        exact ⟨a, by omega⟩

theorem procIter_sent (doRx doTx : Bool) (s : State) (st : Stats) (hv : s.cfg.valid = true) :
    (s.procIter doRx doTx st).2.1.sent + sendBudget (s.procIter doRx doTx st).1 ≤ st.sent + sendBudget s := by
  have hvB := (procIter_cfg_valid doRx doTx s st hv).1
  have h1 : (s.rxPass doRx doTx st).2.1.sent = st.sent ∧ sendBudget (s.rxPass doRx doTx st).1 ≤ sendBudget s := by
    unfold State.rxPass
    split
    · exact rxLoop_budget doTx s.inbox s st
    · exact ⟨rfl, Nat.le_refl _⟩
  unfold State.procIter State.txPass
  generalize s.rxPass doRx doTx st = A at h1 hvB ⊢
  obtain ⟨a1, a2⟩ := h1
  have h2 : sendBudget A.1.rlPass = sendBudget A.1 := by
    unfold sendBudget
    rw [show txMeasure A.1.rlPass = txMeasure A.1 from txMeasure_congr rfl rfl rfl]
    rfl
  dsimp only
  split
  · have := txLoop_sent A.1.rlPass.txFuel A.1.rlPass A.2.1.sent hvB
    have hin := (txLoop_facts A.1.rlPass.txFuel A.1.rlPass A.2.1.sent).1
    dsimp only
    unfold sendBudget at h2 a2 ⊢
    rw [hin]
    omega
  · dsimp only; omega

/-- **Frames sent by `processLoop` are paid from the budget.** -/
theorem processLoop_sent (doRx doTx : Bool) (f : Nat) : ∀ (s : State) (st : Stats), s.cfg.valid = true →
    (processLoop f doRx doTx s st).2.1.sent + sendBudget (processLoop f doRx doTx s st).1 ≤
      st.sent + sendBudget s := by
  induction f with
  | zero => intro s st _; exact Nat.le_refl _
  | succ f ih =>
    intro s st hv
    have h := procIter_sent doRx doTx s st hv
    rw [processLoop_succ]
    split
    · exact h
    · split
      · exact h
      · split
        · exact Nat.le_trans (ih _ _ (procIter_cfg_valid doRx doTx s st hv).2) h
        · exact h

/-- **One `process` call sends at most `sendBudget` frames** (and what it sends is taken off the budget of
    the next call). -/
theorem process_sent (s : State) (doRx doTx : Bool) (hv : s.cfg.valid = true) :
    (s.process doRx doTx).2.1.sent + sendBudget (s.process doRx doTx).1 ≤ sendBudget s := by
  have := processLoop_sent doRx doTx s.processFuel s {} hv
  simpa [State.process] using this

end Isotp
