import Isotp.PyAgree.MiscLemmas
/-!
  Source agreement for `Timer` (`isotp/tools.py`); the other helpers are in MiscFd / MiscFc:

  * `TransportLayerLogic._get_nearest_can_fd_size`  = `nearestFd`
  * `TransportLayerLogic._get_dlc`                  = `dlcOf` (`validate_tx=True`) / `dlcOfNoValidate` (`validate_tx=False`)
  * `PDU.craft_flow_control_data`                   = `fcData`
  * `Timer.is_stopped / elapsed_ns / is_timed_out / remaining_ns / stop / start` = the model `Timer`

  Everything is FOR ALL inputs.  The only qualified statements are the ones that read the clock: `Timer.elapsed_ns` and
  `Timer.remaining_ns` agree with the model (which uses truncated `Nat` subtraction `now - s`) only when the clock did not go
  backwards since the timer was started (`Mono t now`: `s ≤ now`); `time.perf_counter_ns` is monotonic, so this is a property of
  the real clock, but it is a hypothesis here, and `remaining_ns_needs_mono` shows it cannot be dropped.
  `Timer.is_timed_out` agrees with the model even without it (`timer_is_timed_out_linked`).
-/
namespace Isotp.PyAgree
open Isotp Isotp.Py

/-! ### 4. `Timer` (isotp/tools.py) -/

/-- attributes of a `Timer` object -/
def timerEnv (t : Timer) : Env := fun k =>
  match k with
  | "self.start_time" => some (optPV t.start)
  | "self.timeout" => some (pint t.timeout)
  | _ => constEnv k

/-- `M` reads the clock as `now` (`time.perf_counter_ns()`) -/
def ClockIs (M : Meths) (now : Nat) : Prop := ∀ env, M.fn "time.perf_counter_ns" [] env = .ok (pint now)

/-- only the clock -/
def clockMeths (now : Nat) : Meths where
  fn name args _ :=
    match name, args with
    | "time.perf_counter_ns", [] => .ok (pint now)
    | _, _ => .error (.unsupported ("call " ++ name))
  proc name _ _ := .error (.unsupported ("call " ++ name))

theorem clockMeths_clockIs (now : Nat) : ClockIs (clockMeths now) now := fun _ => rfl

/-- the clock did not go backwards since the timer was started (`time.perf_counter_ns` is monotonic) -/
def Mono (t : Timer) (now : Nat) : Prop := ∀ s, t.start = some s → s ≤ now

/-- `elapsed_ns()` in the model's arithmetic (`Nat`, truncated subtraction) -/
def elapsedOf (t : Timer) (now : Nat) : Nat :=
  match t.start with
  | some s => now - s
  | none => 0

/-- `elapsed_ns()` as Python computes it (`int` subtraction: negative if the clock went backwards) -/
def elapsedInt (t : Timer) (now : Nat) : Int :=
  match t.start with
  | some s => (now : Int) - s
  | none => 0

theorem elapsedInt_eq (t : Timer) (now : Nat) (h : Mono t now) : elapsedInt t now = elapsedOf t now := by
  unfold elapsedInt elapsedOf
  cases hs : t.start with
  | none => rfl
  | some s => have := h s hs; simp only; omega

/-- `Timer.is_stopped` (the source writes `== None`; on `Optional[int]` it is the same as `is None`) -/
theorem timer_is_stopped_agrees (M : Meths) (t : Timer) :
    retM M (timerEnv t) Src.Timer_is_stopped = .ok (pbool t.start.isNone) := by
  simp [retM, runFn, Src.Timer_is_stopped, execBlock, execStmt, eval, timerEnv, pvEq_optPV_pnone]

/-- `Timer.elapsed_ns`, exactly (no hypothesis on the clock) -/
theorem timer_elapsed_ns_int (M : Meths) (t : Timer) (now : Nat) (hM : ClockIs M now) :
    retM M (timerEnv t) Src.Timer_elapsed_ns = .ok (pint (elapsedInt t now)) := by
  cases hs : t.start <;>
    simp [retM, runFn, Src.Timer_elapsed_ns, execBlock, execStmt, eval, evalArgs, timerEnv, hs, optPV, builtin_clock, hM _,
      elapsedInt]

/-- `Timer.elapsed_ns` = the model's `now - s` when the clock is monotonic -/
theorem timer_elapsed_ns_agrees (M : Meths) (t : Timer) (now : Nat) (hM : ClockIs M now) (hmono : Mono t now) :
    retM M (timerEnv t) Src.Timer_elapsed_ns = .ok (pint (elapsedOf t now)) := by
  rw [timer_elapsed_ns_int M t now hM, elapsedInt_eq t now hmono]

/-- The methods `is_timed_out` / `remaining_ns` call, given by the MODEL values: `is_stopped()` is what
    `timer_is_stopped_agrees` proves about its source, `elapsed_ns()` what `timer_elapsed_ns_agrees` proves about its source
    (under `Mono t now`), `time.perf_counter_ns()` is `now`. -/
def timerMeths (t : Timer) (now : Nat) : Meths where
  fn name args _ :=
    match name, args with
    | "time.perf_counter_ns", [] => .ok (pint now)
    | "self.is_stopped", [] => .ok (pbool t.start.isNone)
    | "self.elapsed_ns", [] => .ok (pint (elapsedOf t now))
    | _, _ => .error (.unsupported ("call " ++ name))
  proc name _ _ := .error (.unsupported ("call " ++ name))

theorem timerMeths_clockIs (t : Timer) (now : Nat) : ClockIs (timerMeths t now) now := fun _ => rfl

/-- the entries of `timerMeths` ARE the interpreted sources of the callees -/
theorem timerMeths_is_stopped (t : Timer) (now : Nat) (env : Env) :
    (timerMeths t now).fn "self.is_stopped" [] env = retM (clockMeths now) (timerEnv t) Src.Timer_is_stopped := by
  rw [timer_is_stopped_agrees]; rfl
theorem timerMeths_elapsed_ns (t : Timer) (now : Nat) (env : Env) (hmono : Mono t now) :
    (timerMeths t now).fn "self.elapsed_ns" [] env = retM (clockMeths now) (timerEnv t) Src.Timer_elapsed_ns := by
  rw [timer_elapsed_ns_agrees _ t now (clockMeths_clockIs now) hmono]; rfl

/-- `Timer.is_timed_out` (Python's `or` returns an operand: here both operands are `bool`s) -/
theorem timer_is_timed_out_agrees (t : Timer) (now : Nat) :
    retM (timerMeths t now) (timerEnv t) Src.Timer_is_timed_out = .ok (pbool (t.timedOut now)) := by
  cases hs : t.start <;>
    simp [retM, runFn, Src.Timer_is_timed_out, execBlock, execStmt, eval, evalArgs, timerEnv, timerMeths, hs,
      builtin_is_stopped, builtin_elapsed_ns, evalCmp_gt_pint, Timer.timedOut, elapsedOf, cast_beq_zero]

/-- `Timer.remaining_ns`: `max(0, timeout - elapsed)` on `int`s is the model's truncated `timeout - elapsed` -/
theorem timer_remaining_ns_agrees (t : Timer) (now : Nat) :
    retM (timerMeths t now) (timerEnv t) Src.Timer_remaining_ns = .ok (pint (t.remaining now)) := by
  cases hs : t.start <;>
    simp [retM, runFn, Src.Timer_remaining_ns, execBlock, execStmt, eval, evalArgs, timerEnv, timerMeths, hs,
      builtin_is_stopped, builtin_elapsed_ns, builtin_max_pint, Timer.remaining, elapsedOf]
  split <;> omega

/-- The same two theorems with the calls `self.is_stopped()` / `self.elapsed_ns()` resolved by INTERPRETING the callee's source
    on the same object (no model value in `Meths`): the composition is then a theorem about the source alone. -/
def timerMethsSrc (now : Nat) : Meths where
  fn name args env :=
    match name, args with
    | "time.perf_counter_ns", [] => .ok (pint now)
    | "self.is_stopped", [] => retM (clockMeths now) env Src.Timer_is_stopped
    | "self.elapsed_ns", [] => retM (clockMeths now) env Src.Timer_elapsed_ns
    | _, _ => .error (.unsupported ("call " ++ name))
  proc name _ _ := .error (.unsupported ("call " ++ name))

theorem timerMethsSrc_is_stopped (t : Timer) (now : Nat) :
    (timerMethsSrc now).fn "self.is_stopped" [] (timerEnv t) = .ok (pbool t.start.isNone) :=
  timer_is_stopped_agrees (clockMeths now) t
theorem timerMethsSrc_elapsed_ns (t : Timer) (now : Nat) :
    (timerMethsSrc now).fn "self.elapsed_ns" [] (timerEnv t) = .ok (pint (elapsedInt t now)) :=
  timer_elapsed_ns_int (clockMeths now) t now (clockMeths_clockIs now)

/-- `is_timed_out` agrees with the model whatever the clock does: a negative `elapsed_ns()` and the model's truncated `0`
    are both `≤ timeout`. -/
theorem timer_is_timed_out_linked (t : Timer) (now : Nat) :
    retM (timerMethsSrc now) (timerEnv t) Src.Timer_is_timed_out = .ok (pbool (t.timedOut now)) := by
  have h1 := timerMethsSrc_is_stopped t now
  have h2 := timerMethsSrc_elapsed_ns t now
  cases hs : t.start with
  | none =>
    simp only [hs, elapsedInt] at h1 h2
    simp [retM, runFn, Src.Timer_is_timed_out, execBlock, execStmt, eval, evalArgs, h1, builtin_is_stopped, Timer.timedOut, hs]
  | some s =>
    simp only [hs, elapsedInt] at h1 h2
    have e : ((t.timeout : Int) < (now : Int) - (s : Int)) ↔ t.timeout < now - s := by omega
    simp [retM, runFn, Src.Timer_is_timed_out, execBlock, execStmt, eval, evalArgs, timerEnv, h1, h2,
      builtin_is_stopped, builtin_elapsed_ns, evalCmp_gt_pint, Timer.timedOut, cast_beq_zero, hs, e]

/-- `remaining_ns` agrees with the model when the clock is monotonic -/
theorem timer_remaining_ns_linked (t : Timer) (now : Nat) (hmono : Mono t now) :
    retM (timerMethsSrc now) (timerEnv t) Src.Timer_remaining_ns = .ok (pint (t.remaining now)) := by
  have h1 := timerMethsSrc_is_stopped t now
  have h2 := timerMethsSrc_elapsed_ns t now
  cases hs : t.start with
  | none =>
    simp only [hs, elapsedInt] at h1 h2
    simp [retM, runFn, Src.Timer_remaining_ns, execBlock, execStmt, eval, evalArgs, h1, builtin_is_stopped, Timer.remaining, hs]
  | some s =>
    have hle : s ≤ now := hmono s hs
    simp only [hs, elapsedInt] at h1 h2
    simp [retM, runFn, Src.Timer_remaining_ns, execBlock, execStmt, eval, evalArgs, timerEnv, h1, h2,
      builtin_is_stopped, builtin_elapsed_ns, builtin_max_pint, Timer.remaining, hs]
    split <;> omega

/-- ... and NOT otherwise: started at 5, read at 3 (clock went backwards), timeout 10: Python's `max(0, 10 - (3 - 5))` is 12,
    the model's `10 - (3 - 5)` (truncated) is 10.  So `Mono` is a real hypothesis of `timer_remaining_ns_linked` /
    `timer_elapsed_ns_agrees` (and of the use of `timerMeths` in `timer_remaining_ns_agrees`). -/
theorem remaining_ns_needs_mono :
    retM (timerMethsSrc 3) (timerEnv { start := some 5, timeout := 10 }) Src.Timer_remaining_ns = .ok (pint 12) ∧
    Timer.remaining { start := some 5, timeout := 10 } 3 = 10 := by
  constructor
  · have h1 := timerMethsSrc_is_stopped { start := some 5, timeout := 10 } 3
    have h2 := timerMethsSrc_elapsed_ns { start := some 5, timeout := 10 } 3
    simp only [elapsedInt] at h1 h2
    simp [retM, runFn, Src.Timer_remaining_ns, execBlock, execStmt, eval, evalArgs, timerEnv, h1, h2,
      builtin_is_stopped, builtin_elapsed_ns, builtin_max_pint]
  · rfl

/-- `Timer.stop`: the object afterwards is the model's `t.stop` -/
theorem timerEnv_stop (t : Timer) : (timerEnv t).set "self.start_time" pnone = timerEnv t.stop := by
  funext k
  by_cases h1 : k = "self.start_time"
  · subst h1; rfl
  · simp only [Env.set, timerEnv, h1, Timer.stop, if_false]
    split <;> simp_all

theorem timer_stop_agrees (M : Meths) (t : Timer) :
    runFn M (timerEnv t) Src.Timer_stop = .ok (pnone, timerEnv t.stop) := by
  rw [← timerEnv_stop]
  simp [runFn, Src.Timer_stop, execBlock, execStmt, eval]

theorem timer_stop_start_time (M : Meths) (t : Timer) :
    (envM M (timerEnv t) Src.Timer_stop).map (· "self.start_time") = .ok (some pnone) := by
  simp [envM, timer_stop_agrees, timerEnv, Timer.stop, optPV]

/-- `Timer.start(timeout)`: the object and the argument -/
def startEnv (t : Timer) (timeout : PV) : Env := fun k =>
  match k with
  | "timeout" => some timeout
  | _ => timerEnv t k

theorem startEnv_startAt (t : Timer) (now : Nat) (v : PV) :
    (startEnv t v).set "self.start_time" (pint now) = startEnv (t.startAt now) v := by
  funext k
  by_cases h1 : k = "self.start_time"
  · subst h1; rfl
  · simp only [Env.set, startEnv, timerEnv, h1, Timer.startAt, if_false]
    split
    · rfl
    · split <;> simp_all

/-- `start()` / `start(None)`: only `start_time` changes, to the clock value: the model's `t.startAt now` -/
theorem timer_start_none_agrees (M : Meths) (t : Timer) (now : Nat) (hM : ClockIs M now) :
    runFn M (startEnv t pnone) Src.Timer_start = .ok (pnone, startEnv (t.startAt now) pnone) := by
  rw [← startEnv_startAt]
  simp [runFn, Src.Timer_start, execBlock, execStmt, eval, evalArgs, startEnv, builtin_clock, hM _]

theorem timer_start_none_start_time (M : Meths) (t : Timer) (now : Nat) (hM : ClockIs M now) :
    (envM M (startEnv t pnone) Src.Timer_start).map (· "self.start_time") = .ok (some (pint now)) := by
  simp [envM, timer_start_none_agrees M t now hM, startEnv, timerEnv, Timer.startAt, optPV]

/-- `start(timeout)` with `timeout is not None`: `self.set_timeout(timeout)` (a `Meths.proc`: it converts a float, which is outside
    this subset) runs first, on the unchanged object, then `start_time` is set to the clock value in the object it returns;
    if it raises, `start` raises the same. -/
theorem timer_start_some_agrees (M : Meths) (t : Timer) (now : Nat) (v : PV) (hv : v ≠ pnone) (hM : ClockIs M now) :
    envM M (startEnv t v) Src.Timer_start =
      (M.proc "self.set_timeout" [v] (startEnv t v)).map (fun env' => env'.set "self.start_time" (pint now)) := by
  cases hp : M.proc "self.set_timeout" [v] (startEnv t v) <;>
    simp [envM, runFn, Src.Timer_start, execBlock, execStmt, eval, evalArgs, startEnv, builtin_clock, builtin_set_timeout, hM _, hv, hp]

/-! ### non-vacuity of the hypotheses -/

example : ClockIs (clockMeths 7) 7 ∧ ClockIs (timerMeths { start := some 5, timeout := 10 } 7) 7 :=
  ⟨clockMeths_clockIs 7, timerMeths_clockIs _ 7⟩
example : Mono { start := some 5, timeout := 10 } 7 := by
  intro s h; cases h; decide
example : Mono { start := none, timeout := 10 } 0 := by
  intro s h; cases h
example : pint 3 ≠ pnone := by decide

end Isotp.PyAgree

#print axioms Isotp.PyAgree.timer_is_stopped_agrees
#print axioms Isotp.PyAgree.timer_elapsed_ns_int
#print axioms Isotp.PyAgree.timer_elapsed_ns_agrees
#print axioms Isotp.PyAgree.timerMeths_is_stopped
#print axioms Isotp.PyAgree.timerMeths_elapsed_ns
#print axioms Isotp.PyAgree.timer_is_timed_out_agrees
#print axioms Isotp.PyAgree.timer_remaining_ns_agrees
#print axioms Isotp.PyAgree.timer_is_timed_out_linked
#print axioms Isotp.PyAgree.timer_remaining_ns_linked
#print axioms Isotp.PyAgree.remaining_ns_needs_mono
#print axioms Isotp.PyAgree.timer_stop_agrees
#print axioms Isotp.PyAgree.timer_stop_start_time
#print axioms Isotp.PyAgree.timer_start_none_agrees
#print axioms Isotp.PyAgree.timer_start_none_start_time
#print axioms Isotp.PyAgree.timer_start_some_agrees
