import Isotp.PyAgree.EvalLemmas
import Isotp.Sock
/-!
  The three option writers of `isotp/tpsock/opts.py` (`GeneralOpts.write`, `FlowControlOpts.write`, `LinkLayerOpts.write`)
  and the three guarded wrappers of `isotp/tpsock/__init__.py` (`socket.set_opts`, `set_fc_opts`, `set_ll_opts`):
  the interpreted source (`Src.GeneralOpts_write`, ...) = the model (`Sock.writeOpts`, `writeFc`, `writeLl`, `setOpts`, ...),
  for ALL argument values (every `PyVal`, wrong-typed ones included) and every kernel option state.

  ## How the object world is presented to the interpreter

  * arguments: `optflag ↦ .sc (.py a.optflag)`, ...; the socket `s ↦ .meth "s"` (an opaque object);
  * class / module constants through `constEnv` (`flags.EXTEND_ADDR`, `CAN_ISOTP_OPTS`, ...).  `SOL_CAN_ISOTP` is computed at
    import time in the source (`SOL_CAN_BASE + socket_module.CAN_ISOTP`); it is bound to `pint Sock.solCanIsotp`;
  * `o = cls.read(s)`: `Meths.fn "cls.read" [.meth "s"]` returns the opaque object `.meth "o"`, and the attributes `o.optflag`,
    `o.frame_txtime`, ... are ALREADY bound in the initial environment to the values the kernel currently holds, as `read`
    delivers them: `parseOpts (layoutOpts s.k.opts)` (`getsockopt` + `struct.unpack`).  Nothing reads or writes `o.*` before
    that statement, so this is the same as binding them at the call;
  * `assert_is_socket(s)`: a `Meths.proc` that does nothing (given the socket);
  * `struct.pack(fmt, ...)`: `Meths.fn "struct.pack"` = `structPack`: for the three formats used (`"=LLBBBB"`, `"=L"`, `"=BBB"`)
    and integer arguments (`bool` counts) in range for their field, the `bytes` the model lays out (`layoutOpts`, `le32`,
    `layoutFc` / `layoutLl`); anything else FAILS with `unsupported "struct.error"` (so the theorems also say that `struct.pack`
    never fails in an accepted call).  The uapi layout itself is tied to the real `struct.pack` by the table leaf `Agree.SockConsts`;
  * `s.setsockopt(level, opt, data)`: a `Meths.proc`.  Two versions:
    - `recMeths` RECORDS the call in the environment: the counter `#calls` (initially `0`) and the keys `call.<n>.level`,
      `call.<n>.opt`, `call.<n>.data` for the `n`-th call; `recorded env` decodes that back into a `List Sock.Call`, newest first
      (the order of `Sock.calls`);
    - `failMeths` makes ANY `s.setsockopt` fail with the distinctive `PErr.unsupported "setsockopt"`.  A run under `failMeths` that
      ends in `ValueError` has therefore raised before the first `s.setsockopt` statement was executed.

  ## Theorems (see the end of the file)

  `GeneralOpts_write_reject / _accept`, `FlowControlOpts_write_reject / _accept`, `LinkLayerOpts_write_reject / _accept`,
  `socket_set_opts_agrees`, `socket_set_fc_opts_agrees`, `socket_set_ll_opts_agrees`.

  Values of the object attributes after the run are stated as integers (`IntAt env "o.optflag" n`: bound to a value `v` with
  `asInt v = some n`), not as `pint n`: `isinstance(True, int)` holds in Python (and in the model's `argOk`), so
  `write(s, optflag=True)` stores `True` itself in `o.optflag` (and packs it as `1`).
-/
namespace Isotp.PyAgree
open Isotp Isotp.Py
open Isotp.Sock hiding bind close

/-! ## 1. generic lemmas -/

/-! ### values -/

theorem so_bne_pnone (v : PyVal) : ((PV.sc (.py v)) != pnone) = !v.isNone := by
  cases v <;> simp [PyVal.isNone]
theorem so_pvEq_pnone (v : PyVal) : pvEq (.sc (.py v)) pnone = v.isNone := by
  cases v <;> rfl
theorem so_isinstance_int (v : PyVal) :
    evalBuiltin "isinstance_int" [.sc (.py v)] = some (.ok (pbool v.isInt)) := rfl
theorem so_cmp_lt (v : PyVal) (h : v.isInt = true) (k : Int) :
    evalCmp .lt (.sc (.py v)) (pint k) = .ok (pbool (decide (v.intVal < k))) := by
  cases v <;> simp_all [PyVal.isInt, evalCmp, isNumber, numLt, PyVal.intVal] <;> congr
theorem so_cmp_gt (v : PyVal) (h : v.isInt = true) (k : Int) :
    evalCmp .gt (.sc (.py v)) (pint k) = .ok (pbool (decide (k < v.intVal))) := by
  cases v <;> simp_all [PyVal.isInt, evalCmp, isNumber, numLt, PyVal.intVal] <;> congr

theorem asInt_pint (i : Int) : asInt (pint i) = some i := rfl
theorem asInt_py (v : PyVal) (h : v.isInt = true) : asInt (.sc (.py v)) = some v.intVal := by
  simp [asInt, Sc.isInt, Sc.intVal, h]

/-- `x | y` on two values that are non-negative integers (`bool` counts) -/
theorem evalBinop_bor_asInt (x y : PV) (m n : Nat) (hx : asInt x = some (m : Int)) (hy : asInt y = some (n : Int)) :
    evalBinop .bor x y = .ok (pint ((m ||| n : Nat) : Int)) := by
  have hm : ¬ (m : Int) < 0 := by omega
  have hn : ¬ (n : Int) < 0 := by omega
  simp [evalBinop, hx, hy, hm, hn]

/-- a name that is none of the builtins is dispatched to `Meths` -/
theorem evalBuiltin_none_of (fn : String) (vs : List PV)
    (h : fn ≠ "len" ∧ fn ≠ "int" ∧ fn ≠ "bool" ∧ fn ≠ "min" ∧ fn ≠ "max" ∧ fn ≠ "bytes" ∧ fn ≠ "isinstance_int" ∧
      fn ≠ "isinstance_bool" ∧ fn ≠ "isinstance_float" ∧ fn ≠ "isinstance_int_float") : evalBuiltin fn vs = none := by
  unfold evalBuiltin
  split <;> simp_all

/-! ### the model's `orFlag` is Python's `|` for a single-bit flag -/

theorem so_testBit_add_two_pow_gt (a k j : Nat) (h : a / 2^k % 2 = 0) (hj : k < j) :
    (a + 2^k).testBit j = a.testBit j := by
  obtain ⟨d, rfl⟩ : ∃ d, j = k + 1 + d := ⟨j - k - 1, by omega⟩
  simp only [Nat.testBit_eq_decide_div_mod_eq]
  have e : ∀ x, x / 2^(k+1+d) = x / 2^k / 2 / 2^d := by
    intro x; rw [Nat.div_div_eq_div_mul, Nat.div_div_eq_div_mul, Nat.pow_add, Nat.pow_succ, Nat.mul_assoc]
  rw [e, e, Nat.add_div_right _ (Nat.two_pow_pos k)]
  have : (a / 2^k + 1) / 2 = a / 2^k / 2 := by omega
  rw [this]

/-- `a | 2^k = orFlag a 2^k`, for every `a` -/
theorem or_two_pow_eq_orFlag (a k : Nat) : a ||| 2^k = orFlag a (2^k) := by
  unfold orFlag
  apply Nat.eq_of_testBit_eq
  intro j
  rw [Nat.testBit_or, Nat.testBit_two_pow]
  split
  · rename_i h
    by_cases hjk : k = j
    · subst hjk; simp [Nat.testBit_eq_decide_div_mod_eq, h]
    · simp [hjk]
  · rename_i h
    have h0 : a / 2^k % 2 = 0 := by omega
    rcases Nat.lt_trichotomy j k with hlt | heq | hgt
    · rw [Nat.add_comm, Nat.testBit_two_pow_add_gt hlt]
      have : k ≠ j := by omega
      simp [this]
    · subst heq
      rw [Nat.add_comm, Nat.testBit_two_pow_add_eq]
      simp [Nat.testBit_eq_decide_div_mod_eq, h0]
    · rw [so_testBit_add_two_pow_gt a k j h0 hgt]
      have : k ≠ j := by omega
      simp [this]

/-- the five flags `GeneralOpts.write` (and `bind`) set -/
theorem or_EXTEND_ADDR (a : Nat) : a ||| 2 = orFlag a fEXTEND_ADDR := or_two_pow_eq_orFlag a 1
theorem or_TX_PADDING (a : Nat) : a ||| 4 = orFlag a fTX_PADDING := or_two_pow_eq_orFlag a 2
theorem or_RX_PADDING (a : Nat) : a ||| 8 = orFlag a fRX_PADDING := or_two_pow_eq_orFlag a 3
theorem or_FORCE_TXSTMIN (a : Nat) : a ||| 128 = orFlag a fFORCE_TXSTMIN := or_two_pow_eq_orFlag a 7
theorem or_RX_EXT_ADDR (a : Nat) : a ||| 512 = orFlag a fRX_EXT_ADDR := or_two_pow_eq_orFlag a 9

theorem or_le_u32 (a f : Nat) (ha : a ≤ 0xFFFFFFFF) (hf : f ≤ 0xFFFFFFFF) : a ||| f ≤ 0xFFFFFFFF := by
  have := @Nat.or_lt_two_pow a f 32 (by omega) (by omega)
  omega

/-! ### environments: agreement outside a set of keys -/

/-- `env'` differs from `env` at most on the keys `ks` -/
def EqOff (ks : List String) (env env' : Env) : Prop := ∀ k, k ∉ ks → env' k = env k

theorem EqOff.refl (ks : List String) (env : Env) : EqOff ks env env := fun _ _ => rfl

theorem EqOff.set {ks : List String} {env env' : Env} (h : EqOff ks env env') (k : String) (v : PV) (hk : k ∈ ks) :
    EqOff ks env (env'.set k v) := by
  intro k' hk'
  have : k' ≠ k := fun e => hk' (e ▸ hk)
  simp [Env.set, this, h k' hk']

theorem EqOff.trans {ks : List String} {e1 e2 e3 : Env} (h1 : EqOff ks e1 e2) (h2 : EqOff ks e2 e3) : EqOff ks e1 e3 :=
  fun k hk => (h2 k hk).trans (h1 k hk)

theorem EqOff.mono {ks ks' : List String} {e1 e2 : Env} (h : EqOff ks e1 e2) (hs : ∀ k ∈ ks, k ∈ ks') : EqOff ks' e1 e2 :=
  fun k hk => h k (fun hm => hk (hs k hm))

theorem Env.set_self (env : Env) (k : String) (v : PV) : env.set k v k = some v := by simp [Env.set]
theorem Env.set_ne (env : Env) (k k' : String) (v : PV) (h : k' ≠ k) : env.set k v k' = env k' := by simp [Env.set, h]

/-- the attribute `k` holds the integer `n` (as an `int` or a `bool`) -/
def IntAt (env : Env) (k : String) (n : Nat) : Prop := ∃ v, env k = some v ∧ asInt v = some (n : Int)

theorem IntAt.of_eqOff {ks : List String} {env env' : Env} {k : String} {n : Nat} (h : IntAt env k n)
    (hoff : EqOff ks env env') (hk : k ∉ ks) : IntAt env' k n := by
  obtain ⟨v, hv, hi⟩ := h
  exact ⟨v, (hoff k hk).trans hv, hi⟩

theorem IntAt.of_lookup {env : Env} {k : String} {n : Nat} (v : PV) (h : env k = some v) (hi : asInt v = some (n : Int)) :
    IntAt env k n := ⟨v, h, hi⟩

/-! ### statements -/

theorem execBlock_cons_stage (M : Meths) (env env' : Env) (s : PStmt) (rest : PBlock) (c : Bool) (e : PErr)
    (h : execStmt M env s = if c then .error e else .ok (.next env')) :
    execBlock M env (.cons s rest) = if c then .error e else execBlock M env' rest := by
  cases c <;> simp [execBlock, h]

theorem execBlock_cons_ok (M : Meths) (env env' : Env) (s : PStmt) (rest : PBlock)
    (h : execStmt M env s = .ok (.next env')) :
    execBlock M env (.cons s rest) = execBlock M env' rest := by
  simp [execBlock, h]

theorem exec_assign_var (M : Meths) (env : Env) (tgt nm : String) (x : PV) (h : env nm = some x) :
    execStmt M env (.assign tgt (.var nm)) = .ok (.next (env.set tgt x)) := by
  simp [execStmt, eval, h]

/-- `o.optflag |= flags.X` -/
theorem exec_orflag (M : Meths) (env : Env) (fl : String) (x : PV) (n f : Nat) (hx : env "o.optflag" = some x)
    (hxi : asInt x = some (n : Int)) (hf : env fl = some (pint (f : Nat))) :
    execStmt M env (.assign "o.optflag" (.binop .bor (.var "o.optflag") (.var fl))) =
      .ok (.next (env.set "o.optflag" (pint ((n ||| f : Nat) : Int)))) := by
  simp [execStmt, eval, hx, hf, evalBinop_bor_asInt x (pint (f : Nat)) n f hxi rfl]

def raiseVE : PBlock := .cons (.raise "ValueError") .nil

/-- `if not isinstance(nm, int) or nm < 0 or nm > hi: raise ValueError(..)` -/
def rangeCheck (nm : String) (hi : Int) : PStmt :=
  .ite (.or_ (.not_ (.call "isinstance_int" (.cons (.var nm) .nil)))
        (.or_ (.cmp .lt (.var nm) (.int 0)) (.cmp .gt (.var nm) (.int hi)))) raiseVE .nil

theorem rangeCheck_exec (M : Meths) (env : Env) (nm : String) (v : PyVal) (hi : Int) (h : env nm = some (.sc (.py v))) :
    execStmt M env (rangeCheck nm hi) = if argOk v hi then .ok (.next env) else .error (.exc .ValueError) := by
  cases hi' : v.isInt
  · simp [rangeCheck, raiseVE, execStmt, execBlock, eval, evalArgs, h, so_isinstance_int, hi', argOk]
  · by_cases h1 : v.intVal < 0
    · have h1' : ¬ 0 ≤ v.intVal := by omega
      simp [rangeCheck, raiseVE, execStmt, execBlock, eval, evalArgs, h, so_isinstance_int, hi', argOk, so_cmp_lt, h1, h1']
    · have h1' : 0 ≤ v.intVal := by omega
      by_cases h2 : hi < v.intVal
      · have h2' : ¬ v.intVal ≤ hi := by omega
        simp [rangeCheck, raiseVE, execStmt, execBlock, eval, evalArgs, h, so_isinstance_int, hi', argOk, so_cmp_lt, so_cmp_gt,
          h1, h1', h2, h2']
      · have h2' : v.intVal ≤ hi := by omega
        simp [rangeCheck, raiseVE, execStmt, execBlock, eval, evalArgs, h, so_isinstance_int, hi', argOk, so_cmp_lt, so_cmp_gt,
          h1, h1', h2, h2']

/-- `if <nm is given>: <range check of nm>; <body>` (the guard is `nm is not None` in `GeneralOpts`, `nm != None` in the other two) -/
def guarded (g : PExpr) (nm : String) (hi : Int) (body : PBlock) : PStmt :=
  .ite g (.cons (rangeCheck nm hi) body) .nil

/-- the model's rejection test for one argument -/
def rej (v : PyVal) (hi : Int) : Bool := !v.isNone && !argOk v hi

theorem guarded_exec (M : Meths) (env : Env) (g : PExpr) (nm : String) (v : PyVal) (hi : Int) (body : PBlock)
    (h : env nm = some (.sc (.py v))) (hg : eval M env g = .ok (pbool (!v.isNone))) :
    execStmt M env (guarded g nm hi body) =
      if rej v hi then .error (.exc .ValueError) else if v.isNone then .ok (.next env) else execBlock M env body := by
  cases hn : v.isNone
  · cases ha : argOk v hi <;>
      simp [guarded, execStmt, execBlock, hg, hn, rej, ha, rangeCheck_exec M env nm v hi h]
  · simp [guarded, execStmt, execBlock, hg, hn, rej]

theorem eval_isNotNone_var (M : Meths) (env : Env) (nm : String) (v : PyVal) (h : env nm = some (.sc (.py v))) :
    eval M env (.isNotNone (.var nm)) = .ok (pbool (!v.isNone)) := by
  simp [eval, h, so_bne_pnone]

theorem eval_ne_none_var (M : Meths) (env : Env) (nm : String) (v : PyVal) (h : env nm = some (.sc (.py v))) :
    eval M env (.cmp .ne (.var nm) .none) = .ok (pbool (!v.isNone)) := by
  simp [eval, h, so_pvEq_pnone]

/-- an accepted, given argument is a non-negative integer within its bound -/
theorem rej_false_given (v : PyVal) (hi : Int) (hr : rej v hi = false) (hn : v.isNone = false) :
    v.isInt = true ∧ 0 ≤ v.intVal ∧ v.intVal ≤ hi := by
  simp [rej, hn, argOk] at hr
  exact ⟨hr.1.1, hr.1.2, hr.2⟩

theorem asInt_given (v : PyVal) (hi : Int) (hr : rej v hi = false) (hn : v.isNone = false) :
    asInt (.sc (.py v)) = some ((v.intVal.toNat : Nat) : Int) := by
  obtain ⟨h1, h2, _⟩ := rej_false_given v hi hr hn
  rw [asInt_py v h1, Int.toNat_of_nonneg h2]

theorem toNat_le_given (v : PyVal) (hi : Nat) (hr : rej v (hi : Int) = false) (hn : v.isNone = false) :
    v.intVal.toNat ≤ hi := by
  obtain ⟨_, h2, h3⟩ := rej_false_given v hi hr hn
  omega

/-! ## 2. the object world: `struct.pack`, `cls.read`, `assert_is_socket`, `s.setsockopt` -/

/-- an argument of `struct.pack` for an unsigned field with maximum `hi`: an integer (`bool` counts) in range -/
def packArg (v : PV) (hi : Int) : Option Nat :=
  match asInt v with
  | some i => if 0 ≤ i ∧ i ≤ hi then some i.toNat else none
  | none => none

/-- `struct.pack` on the three formats the option structs use (native byte order without alignment, little-endian host):
    the model's layouts; `struct.error` (here: `unsupported "struct.error"`) for a non-integer or out-of-range argument. -/
def structPack : List PV → Except PErr PV
  | [.str fmt, a, b, c, d, e, f] =>
    if fmt = "=LLBBBB" then
      match packArg a 0xFFFFFFFF, packArg b 0xFFFFFFFF, packArg c 0xFF, packArg d 0xFF, packArg e 0xFF, packArg f 0xFF with
      | some a, some b, some c, some d, some e, some f =>
        .ok (.bytes (layoutOpts { flags := a, frameTxtime := b, extAddress := c, txpad := d, rxpad := e, rxExtAddress := f }))
      | _, _, _, _, _, _ => .error (.unsupported "struct.error")
    else .error (.unsupported "struct.pack: format")
  | [.str fmt, a] =>
    if fmt = "=L" then
      match packArg a 0xFFFFFFFF with
      | some a => .ok (.bytes (le32 a))
      | none => .error (.unsupported "struct.error")
    else .error (.unsupported "struct.pack: format")
  | [.str fmt, a, b, c] =>
    if fmt = "=BBB" then
      match packArg a 0xFF, packArg b 0xFF, packArg c 0xFF with
      | some a, some b, some c => .ok (.bytes [u8 a, u8 b, u8 c])
      | _, _, _ => .error (.unsupported "struct.error")
    else .error (.unsupported "struct.pack: format")
  | _ => .error (.unsupported "struct.pack: format")

theorem packArg_of (v : PV) (n : Nat) (hi : Int) (h : asInt v = some (n : Int)) (hb : (n : Int) ≤ hi) : packArg v hi = some n := by
  simp [packArg, h, hb]

theorem structPack_L (a : PV) (n : Nat) (h : asInt a = some (n : Int)) (hb : n ≤ 0xFFFFFFFF) :
    structPack [.str "=L", a] = .ok (.bytes (le32 n)) := by
  have := packArg_of a n 0xFFFFFFFF h (by omega)
  simp [structPack, this]

theorem structPack_BBB (a b c : PV) (x y z : Nat) (ha : asInt a = some (x : Int)) (hb : asInt b = some (y : Int))
    (hc : asInt c = some (z : Int)) (bx : x ≤ 0xFF) (bY : y ≤ 0xFF) (bz : z ≤ 0xFF) :
    structPack [.str "=BBB", a, b, c] = .ok (.bytes [u8 x, u8 y, u8 z]) := by
  have h1 := packArg_of a x 0xFF ha (by omega)
  have h2 := packArg_of b y 0xFF hb (by omega)
  have h3 := packArg_of c z 0xFF hc (by omega)
  simp [structPack, h1, h2, h3]

theorem structPack_LLBBBB (a b c d e f : PV) (o : KOpts)
    (ha : asInt a = some (o.flags : Int)) (hb : asInt b = some (o.frameTxtime : Int))
    (hc : asInt c = some (o.extAddress : Int)) (hd : asInt d = some (o.txpad : Int)) (he : asInt e = some (o.rxpad : Int))
    (hf : asInt f = some (o.rxExtAddress : Int))
    (b1 : o.flags ≤ 0xFFFFFFFF) (b2 : o.frameTxtime ≤ 0xFFFFFFFF) (b3 : o.extAddress ≤ 0xFF) (b4 : o.txpad ≤ 0xFF)
    (b5 : o.rxpad ≤ 0xFF) (b6 : o.rxExtAddress ≤ 0xFF) :
    structPack [.str "=LLBBBB", a, b, c, d, e, f] = .ok (.bytes (layoutOpts o)) := by
  have h1 := packArg_of a _ 0xFFFFFFFF ha (by omega)
  have h2 := packArg_of b _ 0xFFFFFFFF hb (by omega)
  have h3 := packArg_of c _ 0xFF hc (by omega)
  have h4 := packArg_of d _ 0xFF hd (by omega)
  have h5 := packArg_of e _ 0xFF he (by omega)
  have h6 := packArg_of f _ 0xFF hf (by omega)
  simp [structPack, h1, h2, h3, h4, h5, h6]

/-- the methods / functions the writers call; `sso` is the semantics of `s.setsockopt(level, opt, data)` -/
def sockMeths (sso : List PV → Env → Except PErr Env) : Meths where
  fn := fun n args _ =>
    if n = "cls.read" then (match args with | [.meth "s"] => .ok (.meth "o") | _ => .error (.unsupported "cls.read: argument"))
    else if n = "struct.pack" then structPack args
    else .error (.unsupported ("call " ++ n))
  proc := fun n args env =>
    if n = "assert_is_socket" then (match args with | [.meth "s"] => .ok env | _ => .error (.exc .ValueError))
    else if n = "s.setsockopt" then sso args env
    else .error (.unsupported ("call " ++ n))

theorem sockMeths_pack (sso) (args : List PV) (env : Env) : (sockMeths sso).fn "struct.pack" args env = structPack args := by
  simp [sockMeths]
theorem sockMeths_read (sso) (env : Env) : (sockMeths sso).fn "cls.read" [.meth "s"] env = .ok (.meth "o") := by
  simp [sockMeths]
theorem sockMeths_assert (sso) (env : Env) : (sockMeths sso).proc "assert_is_socket" [.meth "s"] env = .ok env := by
  simp [sockMeths]
theorem sockMeths_sso (sso) (args : List PV) (env : Env) : (sockMeths sso).proc "s.setsockopt" args env = sso args env := by
  simp [sockMeths]

/-! ### recording `setsockopt` -/

def callKey (i : Nat) (field : String) : String := "call." ++ toString i ++ "." ++ field

/-- the environment after the `c`-th call (counting from 0) `s.setsockopt(lvl, opt, d)` has been recorded -/
def logCall (env : Env) (c : Nat) (lvl opt : Int) (d : Bytes) : Env :=
  (((env.set (callKey c "level") (pint lvl)).set (callKey c "opt") (pint opt)).set (callKey c "data") (.bytes d)).set
    "#calls" (pint ((c + 1 : Nat) : Int))

/-- recording `s.setsockopt` -/
def recordSso : List PV → Env → Except PErr Env
  | [.sc (.py (.int lvl)), .sc (.py (.int opt)), .bytes d], env =>
    match env "#calls" with
    | some (.sc (.py (.int n))) => .ok (logCall env n.toNat lvl opt d)
    | _ => .error (.unsupported "setsockopt: no call counter")
  | _, _ => .error (.unsupported "setsockopt: argument types")

/-- every `s.setsockopt` fails, distinctively -/
def failSso : List PV → Env → Except PErr Env := fun _ _ => .error (.unsupported "setsockopt")

def recMeths : Meths := sockMeths recordSso
def failMeths : Meths := sockMeths failSso

/-- the `i`-th recorded call -/
def recordedCall (env : Env) (i : Nat) : Option Call :=
  match env (callKey i "level"), env (callKey i "opt"), env (callKey i "data") with
  | some (.sc (.py (.int l))), some (.sc (.py (.int o))), some (.bytes d) => some (.setopt l.toNat o.toNat d)
  | _, _, _ => none

/-- all the recorded calls, newest first (the order of `Sock.calls`) -/
def recorded (env : Env) : Option (List Call) :=
  match env "#calls" with
  | some (.sc (.py (.int n))) => ((List.range n.toNat).reverse).mapM (recordedCall env)
  | _ => none

theorem callKey_0_level : callKey 0 "level" = "call.0.level" := by decide
theorem callKey_0_opt : callKey 0 "opt" = "call.0.opt" := by decide
theorem callKey_0_data : callKey 0 "data" = "call.0.data" := by decide
theorem callKey_1_level : callKey 1 "level" = "call.1.level" := by decide
theorem callKey_1_opt : callKey 1 "opt" = "call.1.opt" := by decide
theorem callKey_1_data : callKey 1 "data" = "call.1.data" := by decide

theorem recordSso_at (env : Env) (c : Nat) (lvl opt : Nat) (d : Bytes) (h : env "#calls" = some (pint (c : Nat))) :
    recordSso [pint (lvl : Nat), pint (opt : Nat), .bytes d] env = .ok (logCall env c lvl opt d) := by
  simp [recordSso, h]

def keys0 : List String := ["call.0.level", "call.0.opt", "call.0.data", "#calls"]
def keys1 : List String := ["call.1.level", "call.1.opt", "call.1.data", "#calls"]

theorem logCall_0 (env : Env) (lvl opt : Int) (d : Bytes) :
    logCall env 0 lvl opt d "#calls" = some (pint 1) ∧
    logCall env 0 lvl opt d "call.0.level" = some (pint lvl) ∧
    logCall env 0 lvl opt d "call.0.opt" = some (pint opt) ∧
    logCall env 0 lvl opt d "call.0.data" = some (.bytes d) ∧
    EqOff keys0 env (logCall env 0 lvl opt d) := by
  simp only [logCall, callKey_0_level, callKey_0_opt, callKey_0_data]
  refine ⟨by simp [Env.set], by simp [Env.set], by simp [Env.set], by simp [Env.set], ?_⟩
  exact ((((EqOff.refl keys0 env).set _ _ (by decide)).set _ _ (by decide)).set _ _ (by decide)).set _ _ (by decide)

theorem logCall_1 (env : Env) (lvl opt : Int) (d : Bytes) :
    logCall env 1 lvl opt d "#calls" = some (pint 2) ∧
    logCall env 1 lvl opt d "call.1.level" = some (pint lvl) ∧
    logCall env 1 lvl opt d "call.1.opt" = some (pint opt) ∧
    logCall env 1 lvl opt d "call.1.data" = some (.bytes d) ∧
    EqOff keys1 env (logCall env 1 lvl opt d) := by
  simp only [logCall, callKey_1_level, callKey_1_opt, callKey_1_data]
  refine ⟨by simp [Env.set], by simp [Env.set], by simp [Env.set], by simp [Env.set], ?_⟩
  exact ((((EqOff.refl keys1 env).set _ _ (by decide)).set _ _ (by decide)).set _ _ (by decide)).set _ _ (by decide)

theorem recorded_one (env : Env) (l o : Nat) (d : Bytes) (hc : env "#calls" = some (pint 1))
    (h1 : env "call.0.level" = some (pint (l : Nat))) (h2 : env "call.0.opt" = some (pint (o : Nat)))
    (h3 : env "call.0.data" = some (.bytes d)) : recorded env = some [.setopt l o d] := by
  simp [recorded, hc, List.range_succ, recordedCall, callKey_0_level, callKey_0_opt, callKey_0_data, h1, h2, h3]

theorem recorded_two (env : Env) (l o l' o' : Nat) (d d' : Bytes) (hc : env "#calls" = some (pint 2))
    (h1 : env "call.0.level" = some (pint (l : Nat))) (h2 : env "call.0.opt" = some (pint (o : Nat)))
    (h3 : env "call.0.data" = some (.bytes d))
    (h4 : env "call.1.level" = some (pint (l' : Nat))) (h5 : env "call.1.opt" = some (pint (o' : Nat)))
    (h6 : env "call.1.data" = some (.bytes d')) : recorded env = some [.setopt l' o' d', .setopt l o d] := by
  simp [recorded, hc, List.range_succ, recordedCall, callKey_0_level, callKey_0_opt, callKey_0_data,
    callKey_1_level, callKey_1_opt, callKey_1_data, h1, h2, h3, h4, h5, h6]


theorem eb_struct_pack (vs : List PV) : evalBuiltin "struct.pack" vs = none := evalBuiltin_none_of _ _ (by decide)
theorem eb_cls_read (vs : List PV) : evalBuiltin "cls.read" vs = none := evalBuiltin_none_of _ _ (by decide)
theorem eb_assert_is_socket (vs : List PV) : evalBuiltin "assert_is_socket" vs = none := evalBuiltin_none_of _ _ (by decide)
theorem eb_setsockopt (vs : List PV) : evalBuiltin "s.setsockopt" vs = none := evalBuiltin_none_of _ _ (by decide)

/-- `assert_is_socket(s)` -/
def stmtAssertSocket : PStmt := .expr (.call "assert_is_socket" (.cons (.var "s") .nil))
/-- `o = cls.read(s)` -/
def stmtRead : PStmt := .assign "o" (.call "cls.read" (.cons (.var "s") .nil))

theorem stmtAssertSocket_exec (sso) (env : Env) (hs : env "s" = some (.meth "s")) :
    execStmt (sockMeths sso) env stmtAssertSocket = .ok (.next env) := by
  simp [stmtAssertSocket, execStmt, evalArgs, eval, hs, eb_assert_is_socket, sockMeths_assert]

theorem stmtRead_exec (sso) (env : Env) (hs : env "s" = some (.meth "s")) :
    execStmt (sockMeths sso) env stmtRead = .ok (.next (env.set "o" (.meth "o"))) := by
  simp [stmtRead, execStmt, evalArgs, eval, hs, eb_cls_read, sockMeths_read]

/-- `s.setsockopt(SOL_CAN_ISOTP, <optName>, opt)` -/
def stmtSso (optName : String) : PStmt :=
  .expr (.call "s.setsockopt" (.cons (.var "SOL_CAN_ISOTP") (.cons (.var optName) (.cons (.var "opt") .nil))))

theorem stmtSso_exec (sso) (env : Env) (optName : String) (l o d : PV) (h1 : env "SOL_CAN_ISOTP" = some l)
    (h2 : env optName = some o) (h3 : env "opt" = some d) :
    execStmt (sockMeths sso) env (stmtSso optName) = (sso [l, o, d] env >>= fun e => .ok (.next e)) := by
  simp [stmtSso, execStmt, evalArgs, eval, h1, h2, h3, eb_setsockopt, sockMeths_sso]

/-! ## 3. `GeneralOpts.write` -/

/-- the world `GeneralOpts.write(s, optflag, frame_txtime, ext_address, txpad, rxpad, rx_ext_address, tx_stmin)` runs in
    (see the head of the file) -/
def genEnv (s : Sock) (a : OptsArgs) : Env := fun k =>
  match k with
  | "s" => some (.meth "s")
  | "optflag" => some (.sc (.py a.optflag))
  | "frame_txtime" => some (.sc (.py a.frameTxtime))
  | "ext_address" => some (.sc (.py a.extAddress))
  | "txpad" => some (.sc (.py a.txpad))
  | "rxpad" => some (.sc (.py a.rxpad))
  | "rx_ext_address" => some (.sc (.py a.rxExtAddress))
  | "tx_stmin" => some (.sc (.py a.txStmin))
  | "o.optflag" => some (pint ((parseOpts (layoutOpts s.k.opts)).flags : Nat))
  | "o.frame_txtime" => some (pint ((parseOpts (layoutOpts s.k.opts)).frameTxtime : Nat))
  | "o.ext_address" => some (pint ((parseOpts (layoutOpts s.k.opts)).extAddress : Nat))
  | "o.txpad" => some (pint ((parseOpts (layoutOpts s.k.opts)).txpad : Nat))
  | "o.rxpad" => some (pint ((parseOpts (layoutOpts s.k.opts)).rxpad : Nat))
  | "o.rx_ext_address" => some (pint ((parseOpts (layoutOpts s.k.opts)).rxExtAddress : Nat))
  | "SOL_CAN_ISOTP" => some (pint (solCanIsotp : Nat))
  | "#calls" => some (pint ((0 : Nat) : Int))
  | _ => constEnv k

section genLookups
variable (s : Sock) (a : OptsArgs)
theorem genEnv_s : genEnv s a "s" = some (.meth "s") := rfl
theorem genEnv_optflag : genEnv s a "optflag" = some (.sc (.py a.optflag)) := rfl
theorem genEnv_frame_txtime : genEnv s a "frame_txtime" = some (.sc (.py a.frameTxtime)) := rfl
theorem genEnv_ext_address : genEnv s a "ext_address" = some (.sc (.py a.extAddress)) := rfl
theorem genEnv_txpad : genEnv s a "txpad" = some (.sc (.py a.txpad)) := rfl
theorem genEnv_rxpad : genEnv s a "rxpad" = some (.sc (.py a.rxpad)) := rfl
theorem genEnv_rx_ext_address : genEnv s a "rx_ext_address" = some (.sc (.py a.rxExtAddress)) := rfl
theorem genEnv_tx_stmin : genEnv s a "tx_stmin" = some (.sc (.py a.txStmin)) := rfl
theorem genEnv_o_optflag : genEnv s a "o.optflag" = some (pint ((parseOpts (layoutOpts s.k.opts)).flags : Nat)) := rfl
theorem genEnv_o_frame_txtime :
    genEnv s a "o.frame_txtime" = some (pint ((parseOpts (layoutOpts s.k.opts)).frameTxtime : Nat)) := rfl
theorem genEnv_o_ext_address :
    genEnv s a "o.ext_address" = some (pint ((parseOpts (layoutOpts s.k.opts)).extAddress : Nat)) := rfl
theorem genEnv_o_txpad : genEnv s a "o.txpad" = some (pint ((parseOpts (layoutOpts s.k.opts)).txpad : Nat)) := rfl
theorem genEnv_o_rxpad : genEnv s a "o.rxpad" = some (pint ((parseOpts (layoutOpts s.k.opts)).rxpad : Nat)) := rfl
theorem genEnv_o_rx_ext_address :
    genEnv s a "o.rx_ext_address" = some (pint ((parseOpts (layoutOpts s.k.opts)).rxExtAddress : Nat)) := rfl
theorem genEnv_SOL : genEnv s a "SOL_CAN_ISOTP" = some (pint (solCanIsotp : Nat)) := rfl
theorem genEnv_calls : genEnv s a "#calls" = some (pint ((0 : Nat) : Int)) := rfl
theorem genEnv_o : genEnv s a "o" = none := rfl
/- the constants, as dumped from the source (`Src.consts`) -/
theorem genEnv_OPTS : genEnv s a "CAN_ISOTP_OPTS" = some (pint (optOPTS : Nat)) := rfl
theorem genEnv_TX_STMIN : genEnv s a "CAN_ISOTP_TX_STMIN" = some (pint (optTX_STMIN : Nat)) := rfl
theorem genEnv_EXTEND_ADDR : genEnv s a "flags.EXTEND_ADDR" = some (pint ((2 : Nat) : Int)) := rfl
theorem genEnv_TX_PADDING : genEnv s a "flags.TX_PADDING" = some (pint ((4 : Nat) : Int)) := rfl
theorem genEnv_RX_PADDING : genEnv s a "flags.RX_PADDING" = some (pint ((8 : Nat) : Int)) := rfl
theorem genEnv_FORCE_TXSTMIN : genEnv s a "flags.FORCE_TXSTMIN" = some (pint ((128 : Nat) : Int)) := rfl
theorem genEnv_RX_EXT_ADDR : genEnv s a "flags.RX_EXT_ADDR" = some (pint ((512 : Nat) : Int)) := rfl
end genLookups

end Isotp.PyAgree
