"""C08 - separation time (STmin) requested by the receiver is honoured."""
import gen
import ref
import trace
from props.base import PropBase
from props.C02 import fc_frame


class C08(PropBase):
    id = 'C08'
    address_change = 0.15
    rx_only_gaps = 0.1
    partial_passes = 0.25
    rx_only_passes = 0.4
    lean_modules = ['Isotp.Props.C08']
    agree = []
    theorems = []
    rule = ('one sender, CTS Flow Control with every valid STmin byte (0x00..0x7F, 0xF1..0xF9; all 137 enumerated round-robin), override in '
            '{None, 0, positive}, BS in {0,1,3}, STmin changed by later / duplicate CTS mid-block, process() steps from 0 to 10 x STmin and bursts '
            'at one instant; gap between successive Consecutive Frames compared with the STmin of the most recent CTS read before the later frame; '
            'distinct = (stmin byte, override, BS, schedule shape)')
    assumptions = ['virtual clock: a frame is handed to the CAN layer at the instant process() runs']
    quick_per_shard = 60
    thorough_per_shard = 1500
    counter = 0

    def slow_generator(self, rng):
        """Judge-only (`no_model`: in the model producing a frame takes no time): the payload comes from a generator that needs a noticeable and
        varying time to produce the bytes of some Consecutive Frames.  The separation time counts from the moment a frame is HANDED to the CAN
        layer, so the time spent building a frame must not be taken off the gap to the next one."""
        a, _ = gen.rand_addr_pair(rng, mode=rng.choice([0, 0, 3, 6]), asym_prob=0)
        params = {}
        ovr = rng.choice([None, None, 0.003, 0.05])
        if ovr is not None:
            params['override_receiver_stmin'] = ovr
        ops = [{'op': 'layer', 'i': 0, 'addr': a, 'params': params}]
        pre = gen.prefix_len(a, 'tx')
        c = 7 - pre
        ncf = rng.choice([3, 5, 9])
        n = (6 - pre) + c * ncf - rng.randrange(0, c)
        b = rng.choice([1, 5, 20, 0x7F, 0xF1, 0xF9])
        eff = ref.stmin_ns(b) if ovr is None else int(ovr * 1e9)
        cost = {}
        for k in range(ncf):
            if rng.random() < 0.5:
                # the first byte of Consecutive Frame k+1 takes this long (up to about the separation time itself)
                cost[(6 - pre) + c * k] = rng.choice([eff // 4, eff // 2, eff - 1, eff + 1000, 1000])
        ops.append({'op': 'send', 'i': 0, 'id': 1, 'gen': (n, gen.rand_payload(rng, n)), 'gen_cost': cost})
        ops.append({'op': 'process', 'i': 0})
        fid, ext, data = fc_frame(a, 0, b)
        ops.append({'op': 'frame', 'i': 0, 'id': fid, 'ext': ext, 'data': data})
        for k in range(ncf * 4 + 4):
            ops.append({'op': 'process', 'i': 0})
            ops.append({'op': 'tick', 'dt': rng.choice([0, 1, eff // 3, eff // 2, eff + 1])})
        return {'ops': ops, 'no_model': True}

    def live_override(self, rng):
        """override_receiver_stmin is given / changed / cleared through params.set() on the live layer, between two blocks or two messages
        whose ContinueToSend frames carry the SAME STmin byte: from the next ContinueToSend on, the value then in force counts (judge-only)"""
        a, _ = gen.rand_addr_pair(rng, mode=rng.choice([0, 0, 3]), asym_prob=0)
        ovals = [None, 0, 0.003, 0.02, 0.2]
        ovr = rng.choice(ovals)
        params = {} if ovr is None else {'override_receiver_stmin': ovr}
        ops = [{'op': 'layer', 'i': 0, 'addr': a, 'params': params}]
        pre = gen.prefix_len(a, 'tx')
        c = 7 - pre
        b = rng.choice([0, 0x05, 0x14, 0x7F, 0xF5])
        bs = rng.choice([1, 2, 3])
        rid = 0

        def drive(nblocks, ovr):
            for _ in range(nblocks):
                fid, ext, data = fc_frame(a, bs, b)
                ops.append({'op': 'frame', 'i': 0, 'id': fid, 'ext': ext, 'data': data})
                eff = ref.stmin_ns(b) if ovr is None else int(ovr * 1e9)
                for _ in range(bs + 1):
                    ops.append({'op': 'process', 'i': 0})
                    ops.append({'op': 'tick', 'dt': rng.choice([0, 1000, eff // 2, max(0, eff - 1), eff + 1, eff + 1, 2 * eff + 1])})
                ops.append({'op': 'process', 'i': 0})
        for m in range(rng.choice([1, 2, 2])):
            rid += 1
            nblk = rng.choice([2, 3])
            n = (6 - pre) + c * bs * nblk
            ops.append({'op': 'send', 'i': 0, 'id': rid, 'data': gen.rand_payload(rng, n)})
            ops.append({'op': 'process', 'i': 0})
            k = rng.randrange(0, nblk + 1)
            drive(k, ovr)
            new = rng.choice([v for v in ovals if v != ovr])
            ops.append({'op': 'paramset', 'i': 0, 'key': 'override_receiver_stmin', 'value': new})
            ovr = new
            drive(nblk - k + 1, ovr)
            ops.append({'op': 'tick', 'dt': 300000000})
            ops.append({'op': 'process', 'i': 0})
        return {'ops': ops, 'no_model': True}

    def scenario(self, rng, tier):
        r0 = rng.random()
        if r0 < 0.06:
            return self.slow_generator(rng)
        if r0 < 0.12:
            return self.live_override(rng)
        a, _ = gen.rand_addr_pair(rng, mode=rng.choice([0, 0, 3, 6]), asym_prob=0)
        params = {}
        if rng.random() < 0.3:
            params['wftmax'] = rng.choice([1, 3])
        if rng.random() < 0.3:
            params['tx_data_length'] = rng.choice([8, 12, 64])
        # (values above 127 ms too: an override is not limited to what an STmin byte can express)
        ovr = rng.choice([None, None, None, None, 0, 0.0005, 0.003, 0.05, 0.128, 0.2, 0.5, 2])
        if ovr is not None:
            params['override_receiver_stmin'] = ovr
        ops = [{'op': 'layer', 'i': 0, 'addr': a, 'params': params}]
        txdl = params.get('tx_data_length', 8)
        pre = gen.prefix_len(a, 'tx')
        c = txdl - 1 - pre
        ncf = rng.choice([2, 3, 5, 9, 17])
        big = rng.random() < 0.01
        if big:
            # far more frames than any per-call cap a developer might think of: with a zero separation time they all leave in ONE pass
            ncf = rng.choice([4200, 5714])
            if ovr not in (None, 0):
                ovr = params['override_receiver_stmin'] = 0
        n = (txdl - 2 - pre) + c * ncf - rng.randrange(0, c)
        ops.append({'op': 'send', 'i': 0, 'id': 1, 'data': gen.rand_payload(rng, n)})
        ops.append({'op': 'process', 'i': 0})
        C08.counter += 1
        b = gen.VALID_STMIN[(C08.counter * 7 + rng.randrange(3)) % len(gen.VALID_STMIN)]
        bs = rng.choice([0, 0, 1, 3])
        if big:
            bs = 0
            if ovr is None:
                b = 0
        st = ref.stmin_ns(b)
        eff = st if ovr is None else int(ovr * 1e9)
        cur_b = b
        sent_fc = 0
        for k in range(min(ncf, 20) * 4 + 8):
            r = rng.random()
            if k == 0 or (bs and r < 0.3) or r < 0.08:
                if r < 0.2 and k > 0:
                    cur_b = rng.choice(gen.VALID_STMIN)
                    eff = ref.stmin_ns(cur_b) if ovr is None else int(ovr * 1e9)
                if rng.random() < 0.2 and not big:
                    # a ContinueToSend immediately corrected by a second one (both waiting on the bus when the layer reads): the later one counts
                    fid, ext, data = fc_frame(a, bs, rng.choice(gen.VALID_STMIN))
                    ops.append({'op': 'frame', 'i': 0, 'id': fid, 'ext': ext, 'data': data})
                fid, ext, data = fc_frame(a, bs, cur_b)
                ops.append({'op': 'frame', 'i': 0, 'id': fid, 'ext': ext, 'data': data})
                sent_fc += 1
            elif r > 0.9 and not big:
                # a Flow Control that is NOT a ContinueToSend (Wait: refused with wftmax = 0, honoured otherwise) carries an STmin byte too; it
                # says nothing about the separation time, which stays the one of the most recent ContinueToSend
                fid, ext, data = fc_frame(a, rng.choice([0, bs, 5]), rng.choice([0, 0, 1, 0x7F, 0xF1, rng.choice(gen.VALID_STMIN)]), status=1)
                ops.append({'op': 'frame', 'i': 0, 'id': fid, 'ext': ext, 'data': data})
            q = rng.random()
            if q < 0.25:
                dt = 0
            elif q < 0.5:
                dt = eff + 1
            elif q < 0.65:
                dt = max(0, eff - 1)
            elif q < 0.8:
                dt = eff // 3
            else:
                dt = eff * rng.choice([2, 10]) + 1
            ops.append({'op': 'tick', 'dt': min(dt, 900000000)})
            for _ in range(rng.choice([1, 1, 2, 4])):
                ops.append({'op': 'process', 'i': 0})
        return {'ops': ops}

    def project(self, op_line, out_line):
        return trace.project_events(out_line, keep=('tx',), status_keys=())

    def judge(self, sc, lines_in, impl_out):
        cfg = trace.layer_cfg(sc)
        a = cfg['addr']
        ovr = cfg['params'].get('override_receiver_stmin')
        txh, rxh = ref.half(a, 'tx'), ref.half(a, 'rx')
        prefix = ref.tx_prefix(txh)
        pre_rx = ref.rx_prefix_len(rxh)
        out = []
        last_cf_t = None
        req = None      # required separation (ns) from the most recent CTS read
        parked = None
        need = None     # separation in force: fixed when a ContinueToSend is read (the override then set, else the STmin of that frame)
        for r in trace.records(lines_in, impl_out):
            if r.op == 'paramset' and r.result == 'ok' and r.toks[2:3] == ['override_receiver_stmin']:
                # given through params.set() on the live layer: counts from the next ContinueToSend on
                t = r.toks[3]
                if t == 'N':
                    ovr = None
                elif t.startswith('i'):
                    ovr = int(t[1:])
                else:
                    nu, de = t[1:].split('/')
                    ovr = int(nu) / int(de)
            # A Flow Control read by a pass that also transmits is handed to the transmit state machine at once.  One read by a RECEIVE-ONLY
            # pass (outside the quantifier of the property, mixed in by the harness) waits in the depth-1 mailbox `last_flow_control_frame`
            # until a transmitting pass takes it - and is replaced if another Flow Control is read first (DESIGN 11.3, observation on
            # receive-only passes): "the most recent ContinueToSend" is the most recent one the transmit side was given.
            txen = r.op == 'process' and r.toks[3:4] == ['1']
            fcs = [e for e in r.events if e['k'] == 'rx' and ref.reception_condition(rxh, e['id'], e['ext'], e['data'])
                   and ref.classify(e['data'][pre_rx:])[0] == 'fc']
            if txen and parked is not None and not fcs:
                if parked[1] == 0:
                    req = ref.stmin_ns(parked[3])
                    need = req if ovr is None else int(ovr * 1e9)
                parked = None
            for e in r.events:
                if e['k'] == 'rx' and ref.reception_condition(rxh, e['id'], e['ext'], e['data']):
                    c = ref.classify(e['data'][pre_rx:])
                    if c[0] == 'fc' and not txen:
                        parked = c
                    elif c[0] == 'fc':
                        parked = None
                        if c[1] == 0:
                            req = ref.stmin_ns(c[3])
                            need = req if ovr is None else int(ovr * 1e9)
                elif e['k'] == 'tx':
                    c = ref.classify(e['data'][len(prefix):])
                    if c[0] == 'ff':
                        last_cf_t = None
                    elif c[0] == 'cf':
                        if last_cf_t is not None and need is not None and e['t'] - last_cf_t < need:
                            out.append(('gap', 'Consecutive Frames %d ns apart, STmin in force is %d ns' % (e['t'] - last_cf_t, need)))
                        last_cf_t = e['t']
            if r.op == 'process' and r.toks[3:4] == ['1'] and r.status.get('tx') == '2' and not out:
                if need == 0:
                    # "with a zero separation time frames are not delayed at all": a transmitting pass may not end with Consecutive Frames
                    # of the current block still to be sent (no rate limiter in these scenarios)
                    out.append(('zero_delay', 'separation time in force is 0 but the transmitting pass at op %d ended with Consecutive Frames '
                                'still held back (%d handed over in this pass)' % (r.k, sum(1 for e in r.events if e['k'] == 'tx'))))
        return out[:3]

    def nontrivial_key(self, sc, lines_in, impl_out):
        ncf = sum(o.count('tx@') for o in impl_out)
        if ncf < 3:
            return None
        fcs = tuple(l.split()[5][-2:] for l in lines_in if l.startswith('frame'))
        return (trace.layer_cfg(sc)['params'].get('override_receiver_stmin'), fcs[:6], ncf)

    def tally(self, dist, sc, lines_in, impl_out):
        PropBase.tally(self, dist, sc, lines_in, impl_out)
        for l in lines_in:
            if l.startswith('frame'):
                b = int(l.split()[5][-2:], 16)
                k = 'stmin:' + ('0' if b == 0 else 'ms' if b <= 0x7F else 'us')
                dist[k] = dist.get(k, 0) + 1


PROP = C08()
