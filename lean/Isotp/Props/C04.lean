import Isotp.Process
/-
  C04 — property theorems (see DESIGN.md §6). Helper lemmas live in Isotp/Proofs.
-/
namespace Isotp.C04
open Isotp State

end Isotp.C04
