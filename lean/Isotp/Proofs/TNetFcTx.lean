import Isotp.Proofs.NetFc
/-
  C13, network level, "… and no error is reported … regardless of … unrelated frames on the bus" — part 1:
  the SENDER LAW of Proofs/NetFcTx.lean restated with a count FILTERED BY THE ADDRESS FILTER.

  `SndFc` (NetFcBase) bounds the FC points among the emitted data frames by the number of frames with N_PCI type 3
  READ by the rx loop. A foreign frame (one the address filter `isForMe` rejects) is read by the rx loop — it is an
  `Ev.rx` event — but never reaches `_process_rx`, so it never fills the mailbox `last_flow_control_frame`; yet it may
  carry a first data byte 0x3X and would be counted. `SndFcN` counts only the frames the filter accepts
  (`fcCountA`); everything else is as in `SndFc`.

  * `SndFcN.key`   : a Flow Control in the mailbox is expected (transmit FSM in WAIT_FC), from the law and the
                     filtered FIFO bound;
  * `SndFcN.micro` : the law is kept by every micro-step of `process()` — in particular by the rx iteration on a
                     foreign frame (nothing but the clock and the history changes; the rx loop may or may not go on
                     afterwards: the law is an inequality, no control-flow argument is needed) — and no micro-step
                     reports `UnexpectedFlowControlError`;
  * `SndFcN.rehist`, `SndFcN.grow`: relabelling, one more accepted payload.
  The receiver law `RcvFc` needs no restatement: it counts the data frames FED to `_process_rx` (`fed`, already
  filtered) and `RcvFc.micro` already covers the rx iteration on a rejected frame.
-/
namespace Isotp.NetP
open Isotp Isotp.State

/-! ### counting the Flow Control frames the address filter accepts -/

/-- number of frames of `ms` that pass the address filter of `a` and have N_PCI type 3 -/
def fcCountA (a : Addr) (ms : List CanMsg) : Nat := fcCount a.rx.rxPrefixSize (ms.filter a.rx.isForMe)

theorem fcCountA_nil (a : Addr) : fcCountA a [] = 0 := rfl

theorem fcCountA_append (a : Addr) (x y : List CanMsg) : fcCountA a (x ++ y) = fcCountA a x + fcCountA a y := by
  unfold fcCountA
  rw [List.filter_append, fcCount_append]

theorem fcCountA_singleton (a : Addr) (m : CanMsg) :
    fcCountA a [m] = if (a.rx.isForMe m && isFc a.rx.rxPrefixSize m) = true then 1 else 0 := by
  unfold fcCountA fcCount
  cases h1 : a.rx.isForMe m <;> cases h2 : isFc a.rx.rxPrefixSize m <;> simp [h1, h2]

/-- the filtered count is at most the unfiltered one -/
theorem fcCountA_le (a : Addr) (ms : List CanMsg) : fcCountA a ms ≤ fcCount a.rx.rxPrefixSize ms := by
  unfold fcCountA fcCount
  rw [List.filter_filter]
  induction ms with
  | nil => simp
  | cons m ms ih =>
    simp only [List.filter_cons]
    cases a.rx.isForMe m <;> cases isFc a.rx.rxPrefixSize m <;> simp <;> omega

/-- a list without rejected frames: both counts agree -/
theorem fcCountA_eq_of_all (a : Addr) (ms : List CanMsg) (h : ∀ m ∈ ms, a.rx.isForMe m = true) :
    fcCountA a ms = fcCount a.rx.rxPrefixSize ms := by
  unfold fcCountA
  rw [List.filter_eq_self.mpr h]

/-! ### the sender law with the filtered count -/

/-- **Sender law, foreign frames on the bus**: `SndFc` with the Flow Control frames read replaced by the Flow Control
    frames read AND accepted by the address filter. -/
structure SndFcN (c : Cfg) (a : Addr) (bs : Nat) (s : State) (L : List Ev) (ps : List Bytes) : Prop where
  /-- FC points among the emitted data frames + Flow Control in the mailbox ≤ accepted Flow Control frames read + WAIT_FC -/
  sl : need bs (lensOf c a ps) (dataOut a.tx.txPrefix.length (s.log ++ L).reverse).length +
        (if s.lastFc.isSome then 1 else 0) ≤
      fcCountA a (rxOf (s.log ++ L).reverse) + (if s.txState = .waitFc then 1 else 0)
  tbT : s.txState = .transmitCf → s.remoteBs = some bs ∧
      (0 < bs → s.txBlockCnt < bs ∧
        (posIn (lensOf c a ps) (dataOut a.tx.txPrefix.length (s.log ++ L).reverse).length - 1) % bs = s.txBlockCnt)
  tbW : s.txState = .waitFc → 0 < bs →
      (posIn (lensOf c a ps) (dataOut a.tx.txPrefix.length (s.log ++ L).reverse).length - 1) % bs = 0
  mail : ∀ f, s.lastFc = some f → f.bs = bs

/-- without rejected frames in the history the two laws coincide (one direction: the filtered law is the stronger) -/
theorem SndFcN.toSndFc {c : Cfg} {a : Addr} {bs : Nat} {s : State} {L : List Ev} {ps : List Bytes}
    (h : SndFcN c a bs s L ps) : SndFc c a bs s L ps := by
  obtain ⟨sl, tbT, tbW, mail⟩ := h
  refine ⟨?_, tbT, tbW, mail⟩
  have := fcCountA_le a (rxOf (s.log ++ L).reverse)
  omega

/-- **Key consequence** of the sender law and the filtered FIFO bound: a Flow Control in the mailbox is expected -/
theorem SndFcN.key {c : Cfg} {a : Addr} {bs : Nat} {s : State} {L : List Ev} {ps : List Bytes}
    (h : SndFcN c a bs s L ps)
    (hcross : fcCountA a (seen s L) ≤
      need bs (lensOf c a ps) (dataOut a.tx.txPrefix.length (s.log ++ L).reverse).length) :
    s.lastFc.isSome = true → s.txState = .waitFc := by
  intro hs
  have hsl := h.sl
  have hR : fcCountA a (rxOf (s.log ++ L).reverse) ≤ fcCountA a (seen s L) := by
    unfold seen; rw [fcCountA_append]; omega
  by_cases hw : s.txState = .waitFc
  · exact hw
  · rw [if_pos hs, if_neg hw] at hsl; omega

/-- the law only reads the view, the mailbox and the two histories -/
theorem SndFcN.congr {c : Cfg} {a : Addr} {bs : Nat} {s s' : State} {L : List Ev} {ps : List Bytes}
    (h : SndFcN c a bs s L ps) (h1 : s'.txState = s.txState) (h2 : s'.txBlockCnt = s.txBlockCnt)
    (h3 : s'.remoteBs = s.remoteBs) (h4 : s'.lastFc = s.lastFc)
    (h5 : dataOut a.tx.txPrefix.length (s'.log ++ L).reverse = dataOut a.tx.txPrefix.length (s.log ++ L).reverse)
    (h6 : rxOf (s'.log ++ L).reverse = rxOf (s.log ++ L).reverse) : SndFcN c a bs s' L ps := by
  obtain ⟨a1, a2, a3, a4⟩ := h
  constructor
  · rw [h1, h4, h5, h6]; exact a1
  · rw [h1, h2, h3, h5]; exact a2
  · rw [h1, h5]; exact a3
  · rw [h4]; exact a4

/-- the law reads the whole history and four state fields -/
theorem SndFcN.rehist {c : Cfg} {a : Addr} {bs : Nat} {s s' : State} {L L' : List Ev} {ps : List Bytes}
    (h : SndFcN c a bs s L ps) (h1 : s'.lastFc = s.lastFc) (h2 : s'.txState = s.txState) (h3 : s'.remoteBs = s.remoteBs)
    (h4 : s'.txBlockCnt = s.txBlockCnt) (hl : s'.log ++ L' = s.log ++ L) : SndFcN c a bs s' L' ps := by
  obtain ⟨sl, tbT, tbW, mail⟩ := h
  constructor
  · rw [hl, h1, h2]; exact sl
  · rw [hl, h2, h3, h4]; exact tbT
  · rw [hl, h2]; exact tbW
  · rw [h1]; exact mail

/-- one more payload accepted by `send()`: the stream gets longer behind the emitted frames -/
theorem SndFcN.grow {c : Cfg} {a : Addr} {mx bs : Nat} {s : State} {L : List Ev} {ps : List Bytes}
    (h : SndFcN c a bs s L ps) (hp : Progress c a mx s ps (dataOut a.tx.txPrefix.length (s.log ++ L).reverse)) (p : Bytes) :
    SndFcN c a bs s L (ps ++ [p]) := by
  have hle : (dataOut a.tx.txPrefix.length (s.log ++ L).reverse).length ≤ total (lensOf c a ps) := by
    rw [total_lensOf]; exact hp.prefix.length_le
  have hpos : posIn (lensOf c a (ps ++ [p])) (dataOut a.tx.txPrefix.length (s.log ++ L).reverse).length =
      posIn (lensOf c a ps) (dataOut a.tx.txPrefix.length (s.log ++ L).reverse).length := by
    rw [lensOf_append]
    exact posIn_append_le _ _ _ hle (segA_length_pos c a p)
  obtain ⟨sl, tbT, tbW, mail⟩ := h
  constructor
  · rw [lensOf_append, need_append_le _ _ _ _ hle]; exact sl
  · rw [hpos]; exact tbT
  · rw [hpos]; exact tbW
  · exact mail

/-! ### the micro-steps -/

/-- **Sender law with foreign frames, one micro-step.** `bs`: the peer's block size; every ACCEPTED Flow Control frame
    read or still in the inbox carries it (`hbs`: `FcBs` is conditional on the address filter); the ACCEPTED Flow
    Control frames read or still in the inbox are not more than the FC points among the data frames emitted so far
    (`hcross`); no timeout is reported (`hn`). Then the law holds after the step, and the step reports no
    `UnexpectedFlowControlError`. The inbox may hold any number of frames the address filter rejects. -/
theorem SndFcN.micro {c : Cfg} {a : Addr} {mx bs : Nat} {s s' : State} {L : List Ev} {ps : List Bytes}
    (hm : Micro s s') (hsafe : SafeOk s) (hok : Send2Ok c a mx s L ps)
    (hbs : ∀ m ∈ seen s L, FcBs a bs m)
    (hcross : fcCountA a (seen s L) ≤
      need bs (lensOf c a ps) (dataOut a.tx.txPrefix.length (s.log ++ L).reverse).length)
    (hn : noT (s'.log ++ L) = true)
    (h : SndFcN c a bs s L ps) (hu : NoUfc (s.log ++ L)) :
    SndFcN c a bs s' L ps ∧ NoUfc (s'.log ++ L) := by
  have hkey := h.key hcross
  cases hm with
  | rl => exact ⟨h.congr rfl rfl rfl rfl rfl rfl, hu⟩
  | rxEnd hin =>
    have hct := checkTimeoutsRx_noT _ L hn
    unfold rxEnd
    rw [hct]
    have hext : IntExt s.log (({ s with inbox := [] } : State).emit (.rxNone s.now)).log :=
      IntExt.cons s.log (.rxNone s.now) rfl
    refine ⟨h.congr rfl rfl rfl rfl (hext.dataOut _ L) (hext.rxOf L), ?_⟩
    intro t ht
    simp only [emit, List.cons_append, List.mem_cons, reduceCtorEq, false_or] at ht
    exact hu t ht
  | txExc hx =>
    have := (SafeOk.stepInv.tx s hsafe).2
    rw [this] at hx
    cases hx
  | frame dt m rest hin =>
    have hn2 : noT ((arrive s dt m rest).checkTimeoutsRx.log ++ L) = true := (rxOne_log2 s dt m rest).noT L hn
    have hct := checkTimeoutsRx_noT _ L hn2
    have hsame := (rxOne_txSame s dt m rest).1
    have hcnt := rxOne_txBlockCnt s dt m rest
    have hdata : dataOut a.tx.txPrefix.length ((rxOne s dt m rest).log ++ L).reverse =
        dataOut a.tx.txPrefix.length (s.log ++ L).reverse := by
      unfold dataOut
      rw [(rxOne_log s dt m rest).txOf L]
      simp [Net.txOf, List.filterMap_append]
    have hrx : rxOf ((rxOne s dt m rest).log ++ L).reverse = rxOf (s.log ++ L).reverse ++ [m] := by
      rw [(rxOne_log s dt m rest).rxOf L]
      simp [rxOf, List.filterMap_append]
    -- the mailbox is filled only by an ACCEPTED frame with N_PCI type 3
    have hlf : ∀ f, (rxOne s dt m rest).lastFc = some f →
        s.lastFc = some f ∨ (a.rx.isForMe m = true ∧ isFc a.rx.rxPrefixSize m = true ∧ f.bs = bs) := by
      intro f hf
      unfold rxOne at hf
      rw [hct] at hf
      have ha1 : (arrive s dt m rest).addr = a := hok.addr
      by_cases hfm : a.rx.isForMe m = true
      · rw [ha1, if_pos hfm] at hf
        rcases processRx_lastFc _ m f hf with h1 | ⟨d, hd, hp⟩
        · exact Or.inl h1
        · rw [ha1] at hd
          refine Or.inr ⟨hfm, decode_fc_isFc _ m d _ _ _ hd hp, ?_⟩
          obtain ⟨pdu, cdl, rdl⟩ := d
          simp only [] at hp
          subst hp
          exact hbs m (mem_seen_head s L dt m rest hin) hfm _ _ _ _ _ hd
      · rw [ha1, if_neg hfm] at hf
        exact Or.inl hf
    obtain ⟨a1, a2, a3, a4⟩ := h
    refine ⟨⟨?_, ?_, ?_, ?_⟩, ?_⟩
    · rw [hsame.txState, hdata, hrx, fcCountA_append, fcCountA_singleton]
      have hmono : need bs (lensOf c a ps) (dataOut a.tx.txPrefix.length (s.log ++ L).reverse).length ≤
          need bs (lensOf c a ps) (dataOut a.tx.txPrefix.length (s.log ++ L).reverse).length +
            (if s.lastFc.isSome = true then 1 else 0) := Nat.le_add_right _ _
      cases hq : (rxOne s dt m rest).lastFc with
      | none =>
        simp only [Option.isSome_none, Bool.false_eq_true, if_false, Nat.add_zero]
        omega
      | some f =>
        simp only [Option.isSome_some, if_true]
        rcases hlf f hq with h1 | ⟨h0, h1, -⟩
        · rw [h1] at a1
          simp only [Option.isSome_some, if_true] at a1
          omega
        · rw [h0, h1]
          simp only [Bool.and_self, if_true]
          omega
    · rw [hsame.txState, hsame.remoteBs, hcnt, hdata]; exact a2
    · rw [hsame.txState, hdata]; exact a3
    · intro f hf
      rcases hlf f hf with h1 | ⟨-, -, h1⟩
      · exact a4 f h1
      · exact h1
    · intro t ht
      rcases List.mem_append.mp ht with ht | ht
      · rcases rxOne_errs s dt m rest t _ ht with h1 | h1
        · exact hu t (List.mem_append_left _ h1)
        · cases h1
      · exact hu t (List.mem_append_right _ ht)
  | tx hx =>
    obtain ⟨v1, v2, v3, v4⟩ := afterTxfn_view s
    obtain ⟨hrx, hdata, hnT, herr⟩ := afterTxfn_hist s a.tx.txPrefix.length L
    have hn1 := hnT hn
    have hnf := hnf_of hok hn1
    have hvs : s.cfg.valid = true := hsafe.1.cfg_valid
    have hfcok : Proofs.FcOk s := hsafe.1.pend
    have hu' : NoUfc ((afterTxfn s.processTx).log ++ L) := by
      intro t ht
      rcases List.mem_append.mp ht with ht | ht
      · rcases processTx_ufc s t (herr _ _ ht) with h1 | ⟨h1, h2⟩
        · exact hu t (List.mem_append_left _ h1)
        · have := hkey h1
          rw [h2] at this; cases this
      · exact hu t (List.mem_append_right _ ht)
    refine ⟨?_, hu'⟩
    have hp := progress_tx_core c a mx s ps _ hsafe hok.cfg hok.addr hok.prog hnf
    by_cases hd : Proofs.fcPass s = true
    · -- the pass only sends the Flow Control frame requested by the receive side
      obtain ⟨st, hst, he⟩ := Proofs.processTx_fc s hvs hfcok hd
      have e1 : s.processTx.1 = Proofs.afterFcReq s st := by rw [he]
      have e2 : s.processTx.2.1 = some (Proofs.fcMsg s st) := by rw [he]
      have hfc : isFc a.tx.txPrefix.length (Proofs.fcMsg s st) = true := by rw [← hok.addr]; exact isFc_fcMsg s st
      have hsame := Proofs.afterFcReq_same s st
      rw [e1] at v1 v2 v3 v4
      rw [e2] at hdata
      simp only [outData, hfc, if_true, List.append_nil] at hdata
      exact h.congr (v1.trans hsame.txState) (v2.trans (afterFcReq_txBlockCnt s st)) (v3.trans hsame.remoteBs)
        (v4.trans (Proofs.afterFcReq_queue s st).2.1) hdata hrx
    · have hd' : Proofs.fcPass s = false := by simpa using hd
      have hnotfc := data_out_notFc c a mx s ps _ hsafe hok.cfg hok.addr hok.prog hnf hd'
      obtain ⟨w1, w2, w3, w4, w5⟩ := tx_view s hfcok hd' hok.mail hkey hok.prog.noDepl hx (noFct_of _ L hn1)
      have hv : c.valid = true := hok.cfg ▸ hvs
      have hpos := Progress.pos hv hok.cfg hok.addr hok.prog
      have hpos1 := Progress.pos hv ((TxFrame.processTx s).cfg.trans hok.cfg) ((TxFrame.processTx s).addr.trans hok.addr) hp.1
      have hdlen : (outData a.tx.txPrefix.length s.processTx.2.1).length =
          if s.processTx.2.1.isSome = true then 1 else 0 := by
        cases ho : s.processTx.2.1 with
        | none => rfl
        | some m => simp [outData, hnotfc m ho]
      rw [List.length_append, hdlen] at hpos1
      obtain ⟨a1, a2, a3, a4⟩ := h
      have hnone : s.txState ≠ .waitFc → s.lastFc = none := by
        intro hne
        cases hq : s.lastFc with
        | none => rfl
        | some f => exact absurd (hkey (by rw [hq]; rfl)) hne
      have hlaw : LawAfter bs (lensOf c a ps)
          ((dataOut a.tx.txPrefix.length (s.log ++ L).reverse).length +
            (if s.processTx.2.1.isSome = true then 1 else 0))
          (fcCountA a (rxOf (s.log ++ L).reverse)) s.processTx.1 := by
        rcases hpos.2 with ⟨hK, hcl⟩ | ⟨hK, -, hcl⟩
        · have hw : s.txState ≠ .waitFc := by rcases hcl with g | g | g <;> (rw [g]; decide)
          rw [hnone hw, if_neg hw] at a1
          exact law_start bs _ _ _ _ _ _ rfl hK hpos1 (w2 hcl) a1
        · rcases hcl with hw | ht
          · cases hq : s.lastFc with
            | none =>
              obtain ⟨g1, g2⟩ := w3 hw hq
              rw [hq, if_pos hw] at a1
              rw [g2]
              have ht1 : s.processTx.1.txState ≠ .transmitCf := by rw [g1]; decide
              exact ⟨by rw [if_pos g1]; exact a1, fun g => absurd g ht1, fun _ hb => a3 hw hb⟩
            | some f =>
              have hfb := a4 f hq
              have hcv := w4 hw f hq
              rw [hfb] at hcv
              rw [hq, if_pos hw] at a1
              exact law_cf bs _ _ _ _ 0 _ _ rfl hK hpos1 (fun hb => ⟨hb, a3 hw hb⟩) hcv (by simpa using a1)
          · have hw : s.txState ≠ .waitFc := by rw [ht]; decide
            rw [hnone hw, if_neg hw] at a1
            obtain ⟨r1, r2⟩ := a2 ht
            exact law_cf bs _ _ _ _ s.txBlockCnt _ _ rfl hK hpos1 r2 (w5 ht bs r1) a1
      obtain ⟨l1, l2, l3⟩ := hlaw
      refine ⟨?_, ?_, ?_, ?_⟩
      · rw [v1, v4, w1, hrx, hdata, List.length_append, hdlen]
        simpa using l1
      · rw [v1, v2, v3, hdata, List.length_append, hdlen]; exact l2
      · rw [v1, hdata, List.length_append, hdlen]; exact l3
      · intro f hf
        rw [v4, w1] at hf; cases hf

end Isotp.NetP
