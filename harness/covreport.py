#!/venv/bin/python
"""Development tool (DESIGN 4.2b ii): which lines of /repo/isotp are executed by the scenario families?
   covreport.py [tier] [pids...]  -> prints, per source file, the lines never executed by any listed property's scenarios."""
import os, sys
sys.path.insert(0, os.path.dirname(os.path.abspath(__file__)))
import coverage
tier = sys.argv[1] if len(sys.argv) > 1 else 'quick'
pids = sys.argv[2:] or ['C%02d' % i for i in range(1, 21)]
cov = coverage.Coverage(include=['/repo/isotp/*'], data_file=None)
cov.start()
import run
for pid in pids:
    try:
        r = run.shard_worker((pid, tier, 0, 0, 4, 1.0, True))
        print(pid, 'scenarios', r.get('stats', {}).get('scenarios'), 'fatal' if 'fatal' in r else '', file=sys.stderr)
        if 'fatal' in r:
            print(r['fatal'][-400:], file=sys.stderr)
    except Exception as e:
        print(pid, 'failed', e, file=sys.stderr)
cov.stop()
for f in ('protocol.py', 'address.py', 'tools.py', 'tpsock/__init__.py', 'tpsock/opts.py', 'can_message.py'):
    path = '/repo/isotp/' + f
    try:
        _, stmts, _, missing, _ = cov.analysis2(path)
    except Exception as e:
        print(f, 'no data', e); continue
    print('%s: %d statements, %d never executed: %s' % (f, len(stmts), len(missing), missing))
