"""C16 - configuration is validated up front; accepted configurations never crash."""
import math
import gen
import ref
import trace
from props.base import PropBase

ADDR_VALS = {
    'txid': [None, 0, 1, 0x7FF, 0x800, 0x123456, 0x1FFFFFFF, -1, 'abc', 1.5, True],
    'rxid': [None, 0, 2, 0x7FF, 0x800, 0x654321, -5, 'x', 2.0, False],
    'target_address': [None, 0, 0x55, 0xFF, 0x100, -1, 'a', 3.0],
    'source_address': [None, 0, 0xAA, 0xFF, 256, -2, 'b', 0.0],
    'address_extension': [None, 0, 0x99, 0xFF, 300, -1, 'c', 7.5],
}

PARAM_VALS = {
    'stmin': [0, 1, 127, 255, 256, -1, 'a', 1.0, None, True],
    'blocksize': [0, 8, 255, 256, -1, 'a', 2.5, None],
    'override_receiver_stmin': [None, 0, 0.0, 0.001, 5, -0.1, -1, float('nan'), float('inf'), 'x', True, 1e300, 1e299, 10**400],
    'rx_flowcontrol_timeout': [0, 1, 1000, 10**9, -1, 1.5, 'a', None, 10**400, 10**308, 10**303, 10**302],
    'rx_consecutive_frame_timeout': [0, 1, 1000, 10**9, -1, 2.5, 'a', None, 10**400, 10**308, 10**303, 10**302],
    'tx_padding': [None, 0, 0xAA, 255, 256, -1, 'a', 1.0],
    'wftmax': [0, 1, 255, 1000, -1, 'a', 1.0, None],
    'tx_data_length': [8, 12, 16, 20, 24, 32, 48, 64, 7, 9, 0, 65, 'a', 8.0, None],
    'tx_data_min_length': [None, 1, 7, 8, 12, 64, 0, 9, 65, 'a', 8.0],
    'max_frame_size': [0, 1, 4095, 10**6, -1, 'a', 1.5, None],
    'can_fd': [True, False, 1, 0, None, 'a'],
    'bitrate_switch': [True, False, 1, None],
    'default_target_address_type': [0, 1, 2, -1, 'a', None, 'TAT:0', 'TAT:1'],     # 'TAT:k': the enum member itself (core.unmark)
    'rate_limit_max_bitrate': [1, 64, 320, 321, 300, 281, 319, 2530, 10000, 100000000, 0, -1, 1.5, 'a', None, 10**400],
    'rate_limit_window_size': [0.2, 1, 0.05, 1.0, 0, -1, 0.0, float('nan'), float('inf'), 1e308, 'a', None, True, 10**400],
    'rate_limit_enable': [True, False, 1, None],
    'listen_mode': [True, False, 0, None],
    'blocking_send': [True, False, 1, None],
}


def _scaled_finite(ov):
    try:
        return math.isfinite(float(ov) * 1e9)
    except OverflowError:
        return False


def doc_param_verdict(p):
    """accept / reject / either from implementation.rst + the property statement"""
    def is_int(v):
        return isinstance(v, int) and not isinstance(v, bool)
    verdict = ['accept']

    def rej():
        verdict[0] = 'reject'

    def either():
        if verdict[0] != 'reject':
            verdict[0] = 'either'

    def chk_int(k, lo, hi, default):
        v = p.get(k, default)
        if isinstance(v, bool):
            either()
            return None
        if not is_int(v) or v < lo or (hi is not None and v > hi):
            rej()
            return None
        return v
    chk_int('stmin', 0, 255, 0)
    chk_int('blocksize', 0, 255, 8)
    for tk in ('rx_flowcontrol_timeout', 'rx_consecutive_frame_timeout'):
        v = chk_int(tk, 0, None, 1000)
        if v is not None:
            try:
                if not math.isfinite(float(v) / 1000 * 1e9):
                    either()    # representable in seconds but not in the nanoseconds the timers count: same silence
            except OverflowError:
                either()    # a non-negative integer that no timer can represent: documentation silent; must not crash later
    v = chk_int('wftmax', 0, None, 0)
    chk_int('max_frame_size', 0, None, 4095)
    if p.get('tx_padding') is not None:
        chk_int('tx_padding', 0, 255, 0)
    txdl = p.get('tx_data_length', 8)
    if isinstance(txdl, bool) or not is_int(txdl) or txdl not in ref.TXDLS:
        rej()
        txdl = None
    ml = p.get('tx_data_min_length')
    if ml is not None:
        if isinstance(ml, bool):
            either()
        elif not is_int(ml) or ml not in [1, 2, 3, 4, 5, 6, 7, 8, 12, 16, 20, 24, 32, 48, 64] or (txdl is not None and ml > txdl):
            rej()
    ov = p.get('override_receiver_stmin')
    if ov is not None:
        if isinstance(ov, bool) or not isinstance(ov, (int, float)):
            rej()
        elif isinstance(ov, float) and not math.isfinite(ov):
            rej()
        elif ov < 0:
            rej()
        elif not _scaled_finite(ov):
            either()     # finite but not representable in nanoseconds: documentation silent, must not crash later
    for k, d in (('can_fd', False), ('bitrate_switch', False), ('rate_limit_enable', False), ('listen_mode', False), ('blocking_send', False)):
        if not isinstance(p.get(k, d), bool):
            rej()
    t = p.get('default_target_address_type', 0)
    if isinstance(t, str) and t.startswith('TAT:'):
        t = int(t[4:])
    if isinstance(t, bool):
        either()
    elif not (is_int(t) and t in (0, 1)):
        rej()
    br = p.get('rate_limit_max_bitrate', 100000000)
    w = p.get('rate_limit_window_size', 0.2)
    br_ok = is_int(br) and br > 0
    if isinstance(br, bool):
        either()
        br_ok = False
    elif not br_ok:
        rej()
    w_ok = isinstance(w, (int, float)) and not isinstance(w, bool)
    if isinstance(w, bool):
        either()
    elif not w_ok:
        rej()
    elif isinstance(w, float) and math.isnan(w):
        either()
        w_ok = False
    elif w <= 0:
        rej()
        w_ok = False
    elif isinstance(w, float) and math.isinf(w):
        either()
        w_ok = False
    if br_ok and w_ok and txdl is not None:
        try:
            prod = br * w
            if not math.isfinite(prod):
                either()
            elif prod < txdl * 8:
                rej()
        except OverflowError:
            either()
    return verdict[0]


class C16(PropBase):
    id = 'C16'
    rx_only_gaps = 0.1
    partial_passes = 0.25
    rx_only_passes = 0.4
    lean_modules = ['Isotp.Props.C16']
    theorems = []
    keep_ops = ('layer', 'addr', 'params')
    rule = ('Address keyword combinations: each of txid/rxid/target_address/source_address/address_extension in {absent, 0, boundary, out of range, '
            'negative, str, float, bool} x 7 modes x {full, tx_only, rx_only, both}; AsymmetricAddress with wrong partial kinds; params '
            'dictionaries with each key in {absent, valid, boundary, invalid, wrong type, nan/inf} (1-3 keys perturbed at once, interacting keys '
            'together) compared with a validity predicate written from the documentation; every accepted configuration is then driven by 25 random '
            'operations (sends, generators, arbitrary frames, ticks); distinct = (mode/kind/values | perturbed keys/values)')
    assumptions = ['integer arguments below 2^64 in absolute value', 'payload elements are bytes', 'known parameter keys only']
    quick_per_shard = 200
    thorough_per_shard = 5000

    def scenario(self, rng, tier):
        r = rng.random()
        if r < 0.4:
            return self.addr_scenario(rng)
        if r < 0.75:
            return self.params_scenario(rng)
        return self.operable_scenario(rng)

    def addr_scenario(self, rng):
        ops = []
        metas = []
        for k in range(12):
            mode = rng.choice([0, 1, 2, 3, 4, 5, 6, 6, 2, 7, None])
            a = {'mode': mode}
            for key, vals in ADDR_VALS.items():
                if rng.random() < 0.75:
                    a[key] = rng.choice(vals[:4]) if rng.random() < 0.7 else rng.choice(vals)
            kind = rng.choice(['full', 'full', 'tx', 'rx', 'both'])
            if kind in ('tx', 'both'):
                a['tx_only'] = True
            if kind in ('rx', 'both'):
                a['rx_only'] = True
            if rng.random() < 0.1 and mode in (2, 6):
                r = rng.random()
                if r < 0.75:
                    a['physical_id'] = rng.randrange(1 << 29)
                if r > 0.25:
                    a['functional_id'] = rng.randrange(1 << 29)
            ops.append({'op': 'addr', 'k': k, 'addr': a})
            metas.append(a)
        # asymmetric constructions through the layer op
        h1, h2 = gen.rand_half(rng), gen.rand_half(rng)
        # each half: the right partial kind / a full address / the partial kind of the WRONG direction (all three are valid Address objects,
        # only the first is acceptable as that half of an AsymmetricAddress)
        txk = rng.choice(['ok', 'ok', 'full', 'wrong'])
        rxk = rng.choice(['ok', 'ok', 'full', 'wrong'])

        def full(h):
            d = dict(h['tx'])
            d.update(h['rx'])
            return d
        tx = {'ok': dict(h1['tx'], tx_only=True), 'full': full(h1), 'wrong': dict(h1['rx'], rx_only=True)}[txk]
        rx = {'ok': dict(h2['rx'], rx_only=True), 'full': full(h2), 'wrong': dict(h2['tx'], tx_only=True)}[rxk]
        asym = {'asym': True, 'auto_partial': False, 'tx': tx, 'rx': rx}
        ops.append({'op': 'layer', 'i': 0, 'addr': asym, 'params': {}})
        return {'ops': ops, 'meta': {'family': 'addr', 'asym_ok': txk == 'ok' and rxk == 'ok'}}

    def params_scenario(self, rng):
        ops = []
        for _ in range(12):
            p = {}
            keys = rng.sample(list(PARAM_VALS), rng.choice([1, 1, 2, 3]))
            if rng.random() < 0.3:
                keys = list(set(keys + ['tx_data_length', 'tx_data_min_length']))
            if rng.random() < 0.3:
                keys = list(set(keys + ['rate_limit_max_bitrate', 'rate_limit_window_size', 'tx_data_length']))
            for k in keys:
                vals = PARAM_VALS[k]
                p[k] = rng.choice(vals)
            op = {'op': 'params', 'params': p}
            if rng.random() < 0.4:
                # one key arrives through set(key, value) on an object that is already configured; often a value that COMPARES EQUAL to the one
                # the object holds but has another type (8.0 for 8, 0 for False, 1000.0 for 1000): validation must not depend on "did it change"
                k = rng.choice(keys)
                op['last'] = k
                cur = rng.choice([v for v in PARAM_VALS[k] if isinstance(v, (int, bool)) and not (isinstance(v, int) and abs(v) > 10**12)] or [None])
                if cur is not None and rng.random() < 0.7:
                    op['before'] = {k: cur}
                    p[k] = int(cur) if isinstance(cur, bool) else (float(cur) if rng.random() < 0.7 else bool(cur) if cur in (0, 1) else float(cur))
                    if rng.random() < 0.2:
                        p[k] = cur      # the very same (possibly invalid) value given again
            ops.append(op)
        return {'ops': ops, 'meta': {'family': 'params'}}

    def live_reconfig_scenario(self, rng):
        """a transfer is under way (First Frame out, Flow Control not yet in) when a documented-valid value is given through params.set(),
        or another valid address through set_address(): whatever is accepted must leave a layer that can still be driven (judge-only)"""
        a, _ = gen.rand_addr_pair(rng)
        txdl = rng.choice([8, 8, 12, 16, 24, 32, 48, 64])
        params = {'tx_data_length': txdl, 'blocksize': rng.choice([0, 2, 8]), 'stmin': 0}
        if rng.random() < 0.3:
            params['tx_padding'] = rng.choice([0, 0xAA])
        ops = [{'op': 'layer', 'i': 0, 'addr': a, 'params': params}]
        pre = gen.prefix_len(a, 'tx')
        n = rng.choice([txdl - pre, txdl + 5, 3 * txdl, 5 * txdl + 1, 200])
        ops.append({'op': 'send', 'i': 0, 'id': 1, 'data': gen.rand_payload(rng, n)})
        ops.append({'op': 'process', 'i': 0})
        rx_addr = a
        cur = dict(params)
        for _ in range(rng.choice([1, 1, 2])):
            if rng.random() < 0.35:
                b, _ = gen.rand_addr_pair(rng)
                ops.append({'op': 'set_address', 'i': 0, 'addr': b})
                rx_addr = b
            else:
                k = rng.choice(['tx_data_length', 'tx_data_length', 'tx_data_min_length', 'tx_padding', 'blocksize', 'max_frame_size', 'stmin'])
                v = rng.choice([x for x in PARAM_VALS[k] if not isinstance(x, (str, float)) or x is None])
                try:
                    ok = doc_param_verdict(dict(cur, **{k: v})) == 'accept' and not (isinstance(v, int) and abs(v) > 10**12)
                except Exception:
                    ok = False
                if ok:
                    cur[k] = v
                    ops.append({'op': 'paramset', 'i': 0, 'key': k, 'value': v})
        for _ in range(rng.choice([1, 2, 3])):
            fid, ext, data = gen.rx_match_frame(rx_addr, bytes([0x30, rng.choice([0, 0, 1, 3]), 0]))
            ops.append({'op': 'frame', 'i': 0, 'id': fid, 'ext': ext, 'data': data, 'dt': 0})
            for _ in range(rng.choice([1, 3, 6])):
                ops.append({'op': 'process', 'i': 0})
        return {'ops': ops, 'meta': {'family': 'operable'}, 'no_model': True}

    def operable_scenario(self, rng):
        if rng.random() < 0.15:
            return self.live_reconfig_scenario(rng)
        sc = gen.chaos_single(rng, 25)
        params = sc[0]['params']
        if rng.random() < 0.3:
            params['rate_limit_enable'] = rng.random() < 0.7
            params['rate_limit_window_size'] = rng.choice([0.2, 1, 1e300, 5e307, 0.05])
            txdl = params.get('tx_data_length', 8)
            params['rate_limit_max_bitrate'] = rng.choice([10**6, 10**8, int(txdl * 8 / 0.05) + 1])
        if rng.random() < 0.2:
            params['override_receiver_stmin'] = rng.choice([0, 0.5, 1e290, 1e299, 2e299, 1e300, 1e308])
        if rng.random() < 0.15:
            params['blocking_send'] = True
        if rng.random() < 0.12:
            # timeouts at the edge of what the timers can count (float seconds -> integer nanoseconds)
            params[rng.choice(['rx_flowcontrol_timeout', 'rx_consecutive_frame_timeout'])] = rng.choice([10**308, 10**303, 2 * 10**302, 10**302, 10**400, 10**12])
        if rng.random() < 0.35:
            # boundary values of the documented ranges (the same table the validation family uses): whatever the documentation accepts
            # must construct a layer that can then be driven
            extra = {}
            for k in rng.sample(list(PARAM_VALS), rng.choice([1, 2, 3])):
                extra[k] = rng.choice(PARAM_VALS[k])
            merged = dict(params, **extra)
            try:
                if doc_param_verdict(merged) == 'accept':
                    params.update(extra)
            except Exception:
                pass
        if rng.random() < 0.2:
            # "rejected at construction or set() time; whatever was accepted can be driven": documented-valid values given through
            # params.set() on the LIVE layer, before the operations (judge-only: the model has no such operation)
            cur = dict(params)
            ins = []
            for k in rng.sample(['default_target_address_type', 'stmin', 'blocksize', 'wftmax', 'tx_padding', 'max_frame_size', 'listen_mode',
                                 'tx_data_min_length', 'override_receiver_stmin', 'rx_flowcontrol_timeout', 'rx_consecutive_frame_timeout'], rng.choice([1, 2])):
                v = rng.choice(PARAM_VALS[k])
                try:
                    ok = doc_param_verdict(dict(cur, **{k: v})) == 'accept' and not (isinstance(v, int) and abs(v) > 10**12)
                except Exception:
                    ok = False
                if ok:
                    cur[k] = v
                    ins.append({'op': 'paramset', 'i': 0, 'key': k, 'value': v})
            if ins:
                return {'ops': sc[:1] + ins + sc[1:], 'meta': {'family': 'operable'}, 'no_model': True}
        if rng.random() < 0.5 and len(params) > 1:
            # the constructor receives a dict: the verdict is about the whole set, whatever order the keys come in
            ks = list(params)
            rng.shuffle(ks)
            sc[0]['params'] = {k: params[k] for k in ks}
        return {'ops': sc, 'meta': {'family': 'operable'}}

    def project(self, op_line, out_line):
        if op_line.startswith('addr'):
            return out_line.split(' ')[0] + (' ' + out_line.split(' ')[1] if out_line.startswith('exc') else '')
        if op_line.startswith('params') or op_line.startswith('layer'):
            return out_line
        return trace.project_events(out_line, keep=(), status_keys=(), drop_result=not (op_line.startswith('send') or op_line.startswith('process')))

    def judge(self, sc, lines_in, impl_out):
        out = []
        fam = sc['meta']['family']
        for k, op in enumerate(sc['ops']):
            if k >= len(impl_out):
                break
            o = impl_out[k]
            if op['op'] == 'addr':
                v = ref.doc_address_verdict(op['addr'])
                if o.startswith('exc') and o != 'exc ValueError':
                    out.append(('addr_valueerror', 'Address(%s) raised %s instead of ValueError' % (short(op['addr']), o)))
                elif v == 'accept' and not o.startswith('ok'):
                    out.append(('addr_iff', 'Address(%s) is valid per the documentation but was rejected (%s)' % (short(op['addr']), o)))
                elif v == 'reject' and o.startswith('ok'):
                    out.append(('addr_iff', 'Address(%s) is invalid per the documentation but was accepted' % short(op['addr'])))
            elif op['op'] == 'params':
                v = doc_param_verdict(op['params'])
                if o.startswith('exc') and o != 'exc ValueError':
                    out.append(('params_valueerror', 'params %s raised %s instead of ValueError' % (op['params'], o)))
                elif v == 'accept' and o != 'ok':
                    out.append(('params_iff', 'params %s are valid per the documentation but were rejected (%s)' % (op['params'], o)))
                elif v == 'reject' and o == 'ok':
                    out.append(('params_iff', 'params %s are invalid per the documentation but were accepted' % (op['params'],)))
            elif op['op'] == 'layer' and fam == 'addr':
                if sc['meta']['asym_ok'] and o != 'ok':
                    out.append(('asym', 'valid AsymmetricAddress rejected: %s' % o))
                if not sc['meta']['asym_ok'] and o != 'exc ValueError':
                    out.append(('asym', 'AsymmetricAddress with a non-partial half gave %s instead of ValueError' % o))
        if fam == 'operable':
            if impl_out and impl_out[0].startswith('exc'):
                if impl_out[0] != 'exc ValueError':
                    out.append(('operable', 'construction raised %s instead of ValueError' % impl_out[0]))
                else:
                    try:
                        v = doc_param_verdict(sc['ops'][0]['params'])
                    except Exception:
                        v = 'either'
                    if v == 'accept':
                        out.append(('params_iff', 'the constructor refused params that are valid per the documentation (key order %s)' % list(sc['ops'][0]['params'])))
                return out
            for r in trace.records(lines_in, impl_out):
                if r.op == 'process' and r.result.startswith('exc'):
                    out.append(('operable', 'process() raised %s with an accepted configuration (%s)' % (r.result, lines_in[0][:300])))
                if r.op == 'send' and r.result.startswith('exc') and r.result not in ('exc ValueError', 'exc BlockingSendTimeout', 'exc BlockingSendFailure'):
                    out.append(('operable', 'send() raised %s' % r.result))
                if r.op == 'paramset' and r.result.startswith('exc'):
                    out.append(('operable', 'params.set(%s) of a documented-valid value on the live layer raised %s' % (' '.join(r.toks[2:4]), r.result)))
                if r.op in ('recv', 'stop_sending', 'stop_receiving', 'reset') and r.result.startswith('exc'):
                    out.append(('operable', '%s raised %s' % (r.op, r.result)))
        return out[:4]

    def run_impl(self, sc):
        import core
        if sc['meta']['family'] == 'operable':
            # invalid (rejected) configurations end the scenario at the layer line
            li, lo = [], []
            r = core.ImplRunner()
            r.do_layer(sc['ops'][0])
            if r.lines_out[0].startswith('exc'):
                return r.lines_in, r.lines_out
            for op in sc['ops'][1:]:
                getattr(r, 'do_' + op['op'])(op)
            return r.lines_in, r.lines_out
        return core.run_impl(sc['ops'])

    def nontrivial_key(self, sc, lines_in, impl_out):
        fam = sc['meta']['family']
        if fam == 'operable':
            return ('op', lines_in[0][:200])
        return (fam, tuple(lines_in[:6]))

    def tally(self, dist, sc, lines_in, impl_out):
        fam = sc['meta']['family']
        dist['family:' + fam] = dist.get('family:' + fam, 0) + 1
        for l, o in zip(lines_in, impl_out):
            if l.startswith('addr') or l.startswith('params'):
                k = l.split()[0] + ':' + ('accepted' if o.startswith('ok') else 'rejected')
                dist[k] = dist.get(k, 0) + 1


def short(a):
    return ', '.join('%s=%r' % (k, v) for k, v in a.items())


PROP = C16()
