import Isotp.Proofs.Timers
/-
  Helper definitions and lemmas for C07ign: frames that are read but IGNORED do not move the N_Cr
  deadline (`timerCf`) of the reception in progress.

  Vocabulary (namespace `Isotp.C07Ign`):
  * `Reception`, `reception s` : the fields that make up "the reception in progress" (FSM state, buffer,
    announced length, sequence number, block counter, RX_DL, the N_Cr timer, the pending Flow Control
    request and the queue of completed messages)
  * the kinds of ignored frames, as predicates on (state, frame):
      `WrongSizeCf`     in-sequence Consecutive Frame whose RX_DL differs from the First Frame's and is smaller
                        than the number of bytes still expected (code: `ChangingInvalidRXDLError`)
      `IsFlowControl`   the frame decodes to a Flow Control
      `MissingEscapeSf` Single Frame on a CAN FD frame (CAN_DL > 8) without the escape sequence
      `Foreign`         the frame does not meet the reception condition of the layer's address
    `Ignored`  = the first three (given to `_process_rx`, which drops them),
    `Skipped`  = `Foreign ∨ Ignored`, `QuietSkipped` = `Skipped` minus Flow Control (a Flow Control makes the
    rx loop of `process` return at once for a transmit pass; the others let it go on reading)
  * `readFrame s dt m rest` : the body of the rx loop of `process` for one frame (clock advanced by the blocking
    delay, `.rx` logged, N_Cr checked, address filter, `_process_rx`); `readAll s l` iterates it
  * `total l` : the sum of the delays of `l`
-/
set_option linter.unusedSimpArgs false
set_option linter.unusedVariables false

namespace Isotp.C07Ign
open Isotp Isotp.State

/-! ## the reception in progress -/

structure Reception where
  rxState    : RxSt
  rxBuf      : Bytes
  rxFrameLen : Nat
  lastSeq    : Nat
  rxBlockCnt : Nat
  actualRxdl : Option Nat
  timerCf    : Timer
  pendingFc  : Bool
  pendingFcStatus : Option Nat
  rxQueue    : List Bytes
  deriving DecidableEq, Repr

def reception (s : State) : Reception :=
  { rxState := s.rxState, rxBuf := s.rxBuf, rxFrameLen := s.rxFrameLen, lastSeq := s.lastSeq,
    rxBlockCnt := s.rxBlockCnt, actualRxdl := s.actualRxdl, timerCf := s.timerCf,
    pendingFc := s.pendingFc, pendingFcStatus := s.pendingFcStatus, rxQueue := s.rxQueue }

/-- `s'` is `s` as far as the receive side, the environment and the transmit FSM state are concerned -/
structure SameRx (s s' : State) : Prop where
  rx : reception s' = reception s
  addr : s'.addr = s.addr
  cfg : s'.cfg = s.cfg
  txState : s'.txState = s.txState

theorem SameRx.refl (s : State) : SameRx s s := ⟨rfl, rfl, rfl, rfl⟩

theorem SameRx.trans {a b c : State} (h1 : SameRx a b) (h2 : SameRx b c) : SameRx a c :=
  ⟨h2.rx.trans h1.rx, h2.addr.trans h1.addr, h2.cfg.trans h1.cfg, h2.txState.trans h1.txState⟩

theorem reception_inj {s s' : State} (h : reception s' = reception s) :
    s'.rxState = s.rxState ∧ s'.rxBuf = s.rxBuf ∧ s'.rxFrameLen = s.rxFrameLen ∧ s'.lastSeq = s.lastSeq ∧
    s'.rxBlockCnt = s.rxBlockCnt ∧ s'.actualRxdl = s.actualRxdl ∧ s'.timerCf = s.timerCf ∧
    s'.pendingFc = s.pendingFc ∧ s'.pendingFcStatus = s.pendingFcStatus ∧ s'.rxQueue = s.rxQueue := by
  simpa [reception] using h

/-! ## `decode` -/

theorem decode_dl {data : Bytes} {k : Nat} {d : Decoded} (h : decode data k = some d) :
    d.canDl = data.length ∧ d.rxDl = max 8 data.length := by
  unfold decode at h
  split at h
  · exact absurd h (by simp)
  · split at h
    · exact absurd h (by simp)
    · have := Option.some.inj h
      subst this
      exact ⟨rfl, rfl⟩

/-! ## the kinds of ignored frames -/

/-- a Consecutive Frame with the expected sequence number, on a CAN frame whose RX_DL (`max 8 length`) is not
    the one learned from the First Frame, and too short to be the last frame of the message -/
def WrongSizeCf (s : State) (m : CanMsg) : Prop :=
  s.rxState = .waitCf ∧
  ∃ d sn data, decode m.data s.addr.rx.rxPrefixSize = some d ∧ d.pdu = .cf sn data ∧
    sn = (s.lastSeq + 1) % 16 ∧ some (max 8 m.data.length) ≠ s.actualRxdl ∧
    max 8 m.data.length < s.rxFrameLen - s.rxBuf.length

def IsFlowControl (s : State) (m : CanMsg) : Prop :=
  ∃ d st bs stm, decode m.data s.addr.rx.rxPrefixSize = some d ∧ d.pdu = .fc st bs stm

/-- a Single Frame with the length in the first nibble on a frame of more than 8 bytes -/
def MissingEscapeSf (s : State) (m : CanMsg) : Prop :=
  ∃ d len data, decode m.data s.addr.rx.rxPrefixSize = some d ∧ d.pdu = .sf len data false ∧
    8 < m.data.length

def Foreign (s : State) (m : CanMsg) : Prop := s.addr.rx.isForMe m = false

/-- frames that `_process_rx` drops without touching the reception -/
def Ignored (s : State) (m : CanMsg) : Prop := WrongSizeCf s m ∨ IsFlowControl s m ∨ MissingEscapeSf s m

/-- … and frames that are not even given to `_process_rx` -/
def Skipped (s : State) (m : CanMsg) : Prop := Foreign s m ∨ Ignored s m

/-- skipped frames that do not make the rx loop return for a transmit pass -/
def QuietSkipped (s : State) (m : CanMsg) : Prop := Foreign s m ∨ WrongSizeCf s m ∨ MissingEscapeSf s m

theorem QuietSkipped.skipped {s : State} {m : CanMsg} (h : QuietSkipped s m) : Skipped s m := by
  rcases h with h | h | h
  · exact Or.inl h
  · exact Or.inr (Or.inl h)
  · exact Or.inr (Or.inr (Or.inr h))

/-- the predicates only read the reception fields and the address -/
theorem WrongSizeCf.of_same {s s' : State} {m : CanMsg} (hs : SameRx s s') (h : WrongSizeCf s m) :
    WrongSizeCf s' m := by
  obtain ⟨h1, h2, h3, h4, h5, h6, -⟩ := reception_inj hs.rx
  unfold WrongSizeCf at *
  rw [h1, h2, h3, h4, h6, hs.addr]; exact h

theorem IsFlowControl.of_same {s s' : State} {m : CanMsg} (hs : SameRx s s') (h : IsFlowControl s m) :
    IsFlowControl s' m := by
  unfold IsFlowControl at *; rw [hs.addr]; exact h

theorem MissingEscapeSf.of_same {s s' : State} {m : CanMsg} (hs : SameRx s s') (h : MissingEscapeSf s m) :
    MissingEscapeSf s' m := by
  unfold MissingEscapeSf at *; rw [hs.addr]; exact h

theorem Foreign.of_same {s s' : State} {m : CanMsg} (hs : SameRx s s') (h : Foreign s m) :
    Foreign s' m := by
  unfold Foreign at *; rw [hs.addr]; exact h

theorem Ignored.of_same {s s' : State} {m : CanMsg} (hs : SameRx s s') (h : Ignored s m) :
    Ignored s' m := by
  rcases h with h | h | h
  · exact Or.inl (h.of_same hs)
  · exact Or.inr (Or.inl (h.of_same hs))
  · exact Or.inr (Or.inr (h.of_same hs))

theorem Skipped.of_same {s s' : State} {m : CanMsg} (hs : SameRx s s') (h : Skipped s m) :
    Skipped s' m := by
  rcases h with h | h
  · exact Or.inl (h.of_same hs)
  · exact Or.inr (h.of_same hs)

theorem QuietSkipped.of_same {s s' : State} {m : CanMsg} (hs : SameRx s s') (h : QuietSkipped s m) :
    QuietSkipped s' m := by
  rcases h with h | h | h
  · exact Or.inl (h.of_same hs)
  · exact Or.inr (Or.inl (h.of_same hs))
  · exact Or.inr (Or.inr (h.of_same hs))

/-! ## what `_process_rx` does with each kind -/

theorem processRx_wrongSizeCf {s : State} {m : CanMsg} (h : WrongSizeCf s m) :
    s.processRx m = ({ s with log := .err s.now .ChangingInvalidRXDL :: s.log }, false, false) := by
  obtain ⟨hw, d, sn, data, hd, hp, hsn, h1, h2⟩ := h
  have hdl := (decode_dl hd).2
  rw [← hdl] at h1 h2
  simp [processRx, hd, hp, hw, hsn, h1, h2, State.error, emit]

theorem processRx_flowControl {s : State} {m : CanMsg} {d : Decoded} {st bs stm : Nat}
    (hd : decode m.data s.addr.rx.rxPrefixSize = some d) (hp : d.pdu = .fc st bs stm) :
    s.processRx m = ({ s with lastFc := some ⟨st, bs, stm⟩ }, true, false) := by
  simp [processRx, hd, hp]

theorem processRx_missingEscape {s : State} {m : CanMsg} (h : MissingEscapeSf s m) :
    s.processRx m = ({ s with log := .err s.now .MissingEscapeSequence :: s.log }, false, false) := by
  obtain ⟨d, len, data, hd, hp, h8⟩ := h
  have hdl := (decode_dl hd).1
  simp [processRx, hd, hp, hdl, h8, State.error, emit]

/-- a frame that does not decode is NOT ignored: the reception is closed -/
theorem processRx_undecodable {s : State} {m : CanMsg}
    (hd : decode m.data s.addr.rx.rxPrefixSize = none) :
    s.processRx m = ((s.error .InvalidCanData).stopReceiving, false, false) := by
  simp [processRx, hd]

/-- events a skipped frame leaves in the log -/
def SkipEv (e : Ev) : Prop :=
  match e with
  | .rx _ _ => True
  | .err _ c => c = .ChangingInvalidRXDL ∨ c = .MissingEscapeSequence
  | _ => False

/-- an ignored frame: reception, environment and transmit side as before; the log gets at most one error
    (never a timeout); a transmit pass is requested only by a Flow Control -/
theorem processRx_ignored {s : State} {m : CanMsg} (h : Ignored s m) :
    SameRx s (s.processRx m).1 ∧ (s.processRx m).1.now = s.now ∧
    LogExt SkipEv s (s.processRx m).1 ∧ (s.processRx m).2.2 = false ∧
    ((s.processRx m).2.1 = true ↔ IsFlowControl s m) := by
  rcases h with h | h | h
  · rw [processRx_wrongSizeCf h]
    refine ⟨⟨rfl, rfl, rfl, rfl⟩, rfl, LogExt.ext1 rfl (by simp [SkipEv]), rfl, ?_⟩
    obtain ⟨_, d, sn, data, hd, hp, _⟩ := h
    constructor
    · intro h; cases h
    · rintro ⟨d', st, bs, stm, hd', hp'⟩
      rw [hd] at hd'; cases hd'; rw [hp] at hp'; cases hp'
  · obtain ⟨d, st, bs, stm, hd, hp⟩ := h
    rw [processRx_flowControl hd hp]
    exact ⟨⟨rfl, rfl, rfl, rfl⟩, rfl, LogExt.of_eq rfl, rfl, fun _ => ⟨d, st, bs, stm, hd, hp⟩, fun _ => rfl⟩
  · rw [processRx_missingEscape h]
    refine ⟨⟨rfl, rfl, rfl, rfl⟩, rfl, LogExt.ext1 rfl (by simp [SkipEv]), rfl, ?_⟩
    obtain ⟨d, len, data, hd, hp, _⟩ := h
    constructor
    · intro h; cases h
    · rintro ⟨d', st, bs, stm, hd', hp'⟩
      rw [hd] at hd'; cases hd'; rw [hp] at hp'; cases hp'

/-! ## the N_Cr timer changes only with progress -/

theorem succ_mod16_ne (n : Nat) : (n + 1) % 16 ≠ n := by omega

/-- in WAIT_CF, whatever the frame: the timer is left as it was, or the reception ended (timer stopped), or
    the frame was an accepted in-sequence Consecutive Frame (sequence number advanced), or it was an
    accepted First Frame (new reception, `ReceptionInterruptedWithFirstFrameError`) -/
theorem timerCf_cases (s : State) (m : CanMsg) (hw : s.rxState = .waitCf) :
    (s.processRx m).1.timerCf = s.timerCf ∨
    ((s.processRx m).1.rxState = .idle ∧ (s.processRx m).1.timerCf.start = none) ∨
    (∃ d sn data, CfInSeq s m d sn data ∧ (s.processRx m).1.lastSeq = sn ∧ sn ≠ s.lastSeq) ∨
    (∃ d len data esc, FfAccepted s m d len data esc ∧
      (s.processRx m).1.log = .err s.now .InterruptedWithFirstFrame :: s.log) := by
  cases hd : decode m.data s.addr.rx.rxPrefixSize with
  | none =>
    right; left
    rw [processRx_undecodable hd]
    exact ⟨rfl, rfl⟩
  | some d =>
    cases hp : d.pdu with
    | fc st bs stm => left; rw [processRx_flowControl hd hp]
    | sf len data esc =>
      by_cases hc : (decide (d.canDl > 8) && !esc) = true
      · left; simp [processRx, hd, hp, hw, hc, State.error, emit]
      · right; left
        simp [processRx, hd, hp, hw, hc, State.error, emit, deliver, stopReceiving, Timer.stop]
    | ff len data esc =>
      by_cases hv : validTxDl d.rxDl = true
      · by_cases hl : len ≤ s.cfg.maxFrameSize
        · right; right; right
          refine ⟨d, len, data, esc, ⟨hd, hp, hv, hl⟩, ?_⟩
          have hl' : ¬ (s.cfg.maxFrameSize < len) := by omega
          simp [processRx, startReception, hd, hp, hw, hv, hl', State.error, emit, requestFc,
            startRxCfTimer]
        · right; left
          have hl' : s.cfg.maxFrameSize < len := by omega
          simp [processRx, startReception, hd, hp, hw, hv, hl', State.error, emit, requestFc,
            stopReceiving, Timer.stop]
      · right; left
        simp [processRx, startReception, hd, hp, hw, hv, State.error, emit, stopReceiving, Timer.stop]
    | cf sn data =>
      by_cases hsn : sn = (s.lastSeq + 1) % 16
      · by_cases hx : (some d.rxDl != s.actualRxdl && decide (d.rxDl < s.rxFrameLen - s.rxBuf.length)) = true
        · left
          simp only [Bool.and_eq_true, bne_iff_ne, ne_eq, decide_eq_true_eq] at hx
          have := (decode_dl hd).2
          rw [processRx_wrongSizeCf ⟨hw, d, sn, data, hd, hp, hsn, by rw [← this]; exact hx.1,
            by rw [← this]; exact hx.2⟩]
        · have hcf : CfInSeq s m d sn data := by
            refine ⟨hd, hp, hw, hsn, ?_⟩
            simp only [Bool.and_eq_true, bne_iff_ne, ne_eq, decide_eq_true_eq, not_and, Nat.not_lt] at hx
            by_cases he : some d.rxDl = s.actualRxdl
            · exact Or.inl he
            · exact Or.inr (hx he)
          by_cases hlast : s.rxFrameLen ≤ (s.cfBuf data).length
          · right; left
            have h1 := processRx_cf_last hcf hlast
            refine ⟨h1.2.2.1, ?_⟩
            have hx' : (some d.rxDl != s.actualRxdl && decide (d.rxDl < s.rxFrameLen - s.rxBuf.length)) = false := by
              simpa using hx
            unfold cfBuf at hlast
            simp only [List.length_append, List.length_take] at hlast
            unfold processRx
            simp only [hd, hp, hw, hsn, if_true, hx']
            simp [startRxCfTimer, deliver, emit, stopReceiving, Timer.stop, hlast]
          · right; right; left
            have h1 := processRx_cf_more hcf (by omega)
            exact ⟨d, sn, data, hcf, h1.2.2.1, by rw [hsn]; exact succ_mod16_ne _⟩
      · right; left
        simp [processRx, hd, hp, hw, hsn, State.error, emit, stopReceiving, Timer.stop]

/-! ## time -/

theorem timedOut_mono (t : Timer) {a b : Nat} (hab : a ≤ b) (h : t.timedOut b = false) :
    t.timedOut a = false := by
  unfold Timer.timedOut at *
  cases hs : t.start with
  | none => rfl
  | some t0 =>
    simp only [hs, Bool.or_eq_false_iff, decide_eq_false_iff_not, Nat.not_lt, beq_eq_false_iff_ne] at h ⊢
    exact ⟨by omega, h.2⟩

/-- the N_Cr check only looks at the timer and the clock -/
theorem checkTimeoutsRx_of_live (s : State) (h : s.timerCf.timedOut s.now = false) :
    s.checkTimeoutsRx = s := by
  unfold checkTimeoutsRx; simp [h]

theorem checkTimeoutsRx_of_expired (s : State) (h : s.timerCf.timedOut s.now = true) :
    s.checkTimeoutsRx = (s.error .ConsecutiveFrameTimeout).stopReceiving := by
  unfold checkTimeoutsRx; simp [h]

/-- reading a frame before the deadline: only the clock, the inbox and the log (`.rx`) move -/
theorem rxArrive_live (s : State) (dt : Nat) (m : CanMsg) (rest : List (Nat × CanMsg))
    (h : s.timerCf.timedOut (s.now + dt) = false) :
    s.rxArrive dt m rest =
      { s with inbox := rest, now := s.now + dt, log := .rx (s.now + dt) m :: s.log } := by
  unfold rxArrive
  rw [checkTimeoutsRx_of_live _ (by simpa [emit] using h)]
  rfl

/-! ## the body of the rx loop -/

/-- one iteration of the rx loop of `process`, without the early exits -/
def readFrame (s : State) (dt : Nat) (m : CanMsg) (rest : List (Nat × CanMsg)) : State :=
  let s1 := s.rxArrive dt m rest
  if s1.addr.rx.isForMe m then (s1.processRx m).1 else s1

/-- the frames of `l` read one after the other, each after its blocking delay -/
def readAll (s : State) : List (Nat × CanMsg) → State
  | [] => s
  | (dt, m) :: rest => readAll (readFrame s dt m rest) rest

def total (l : List (Nat × CanMsg)) : Nat := (l.map (·.1)).sum

theorem total_cons (dt : Nat) (m : CanMsg) (rest : List (Nat × CanMsg)) :
    total ((dt, m) :: rest) = dt + total rest := by
  simp [total]

theorem rxArrive_addr (s : State) (dt : Nat) (m : CanMsg) (rest : List (Nat × CanMsg)) :
    (s.rxArrive dt m rest).addr = s.addr := by
  have := congrArg TxView.addr (txView_checkTimeoutsRx
    (({ s with inbox := rest, now := s.now + dt } : State).emit (.rx (s.now + dt) m)))
  simpa [txView, rxArrive, emit] using this

theorem rxLoop_cons_foreign (doTx : Bool) (s : State) (st : Stats) (dt : Nat) (m : CanMsg)
    (rest : List (Nat × CanMsg)) (hme : s.addr.rx.isForMe m = false) :
    rxLoop doTx s st ((dt, m) :: rest) =
      (if doTx && (s.rxArrive dt m rest).txTimeDriven then
         (s.rxArrive dt m rest, { st with received := st.received + 1 }, true)
       else rxLoop doTx (s.rxArrive dt m rest) { st with received := st.received + 1 } rest) := by
  have ha : ∀ x : State, x.checkTimeoutsRx.addr = x.addr := fun x => by
    have := congrArg TxView.addr (txView_checkTimeoutsRx x)
    simpa [txView] using this
  rw [rxLoop]
  simp only [ha, emit, hme, rxArrive]
  rfl

/-- `rxLoop` in terms of `readFrame` -/
theorem rxLoop_cons (doTx : Bool) (s : State) (st : Stats) (dt : Nat) (m : CanMsg)
    (rest : List (Nat × CanMsg)) :
    (rxLoop doTx s st ((dt, m) :: rest)).1 =
      (if s.addr.rx.isForMe m = true ∧ ((s.rxArrive dt m rest).processRx m).2.1 = true
        then readFrame s dt m rest
       else if (doTx && (readFrame s dt m rest).txTimeDriven) = true then readFrame s dt m rest
       else (rxLoop doTx (readFrame s dt m rest)
              (if s.addr.rx.isForMe m = true then
                 (if ((s.rxArrive dt m rest).processRx m).2.2 = true then
                    { st with received := st.received + 1, processed := st.processed + 1,
                              frames := st.frames + 1 }
                  else { st with received := st.received + 1, processed := st.processed + 1 })
               else { st with received := st.received + 1 }) rest).1) := by
  have ha := rxArrive_addr s dt m rest
  cases hme : s.addr.rx.isForMe m
  · have hr : readFrame s dt m rest = s.rxArrive dt m rest := by
      unfold readFrame; simp only [ha, hme]; rfl
    rw [hr, rxLoop_cons_foreign doTx s st dt m rest hme]
    generalize s.rxArrive dt m rest = X
    cases hc : (doTx && X.txTimeDriven) <;> simp [hc]
  · have hr : readFrame s dt m rest = ((s.rxArrive dt m rest).processRx m).1 := by
      unfold readFrame; simp only [ha, hme]; rfl
    rw [hr, rxLoop_cons_forMe doTx s st dt m rest hme]
    generalize (s.rxArrive dt m rest).processRx m = r
    obtain ⟨s2, imm, fr⟩ := r
    cases hc : (doTx && s2.txTimeDriven) <;> cases imm <;> cases fr <;> simp [hc]

/-- one skipped frame read before the deadline -/
theorem readFrame_skipped (s : State) (dt : Nat) (m : CanMsg) (rest : List (Nat × CanMsg))
    (hs : Skipped s m) (hlive : s.timerCf.timedOut (s.now + dt) = false) :
    SameRx s (readFrame s dt m rest) ∧ (readFrame s dt m rest).now = s.now + dt ∧
    LogExt SkipEv s (readFrame s dt m rest) ∧
    ((s.addr.rx.isForMe m = true ∧ ((s.rxArrive dt m rest).processRx m).2.1 = true) ↔
      (¬ Foreign s m ∧ IsFlowControl s m)) := by
  have ha := rxArrive_live s dt m rest hlive
  have hsame : SameRx s (s.rxArrive dt m rest) := by rw [ha]; exact ⟨rfl, rfl, rfl, rfl⟩
  have hlog : LogExt SkipEv s (s.rxArrive dt m rest) := by
    rw [ha]; exact LogExt.ext1 rfl (by simp [SkipEv])
  have hnow : (s.rxArrive dt m rest).now = s.now + dt := by rw [ha]
  have haddr : (s.rxArrive dt m rest).addr = s.addr := hsame.addr
  unfold readFrame
  simp only []
  by_cases hme : s.addr.rx.isForMe m = true
  · have hig : Ignored s m := by
      rcases hs with h | h
      · unfold Foreign at h; rw [hme] at h; cases h
      · exact h
    have h1 := processRx_ignored (hig.of_same hsame)
    rw [haddr]
    simp only [hme, if_true, true_and]
    refine ⟨hsame.trans h1.1, by rw [h1.2.1, hnow], hlog.trans h1.2.2.1, ?_⟩
    rw [h1.2.2.2.2]
    constructor
    · intro hf
      refine ⟨by unfold Foreign; simp [hme], ?_⟩
      obtain ⟨d, st, bs, stm, hd, hp⟩ := hf
      exact ⟨d, st, bs, stm, by rw [← haddr]; exact hd, hp⟩
    · rintro ⟨_, hf⟩; exact hf.of_same hsame
  · rw [haddr]
    simp only [hme, if_false, false_and, false_iff, Bool.false_eq_true]
    refine ⟨hsame, hnow, hlog, ?_⟩
    rintro ⟨hnf, _⟩
    exact hnf (by unfold Foreign; simpa using hme)

/-- a burst of skipped frames read before the deadline -/
theorem readAll_skipped : ∀ (l : List (Nat × CanMsg)) (s : State),
    (∀ x ∈ l, Skipped s x.2) → s.timerCf.timedOut (s.now + total l) = false →
    SameRx s (readAll s l) ∧ (readAll s l).now = s.now + total l ∧ LogExt SkipEv s (readAll s l) := by
  intro l
  induction l with
  | nil => intro s _ _; exact ⟨SameRx.refl s, rfl, LogExt.refl _ _⟩
  | cons x rest ih =>
    intro s hall hlive
    obtain ⟨dt, m⟩ := x
    rw [total_cons] at hlive
    have h1 := readFrame_skipped s dt m rest (hall _ (List.mem_cons_self ..))
      (timedOut_mono _ (by omega) hlive)
    have htim : (readFrame s dt m rest).timerCf = s.timerCf := (reception_inj h1.1.rx).2.2.2.2.2.2.1
    have h2 := ih (readFrame s dt m rest)
      (fun y hy => (hall y (List.mem_cons_of_mem _ hy)).of_same h1.1)
      (by rw [htim, h1.2.1, Nat.add_assoc]; exact hlive)
    rw [total_cons]
    refine ⟨h1.1.trans h2.1, ?_, h1.2.2.1.trans h2.2.2⟩
    show (readAll (readFrame s dt m rest) rest).now = _
    rw [h2.2.1, h1.2.1, Nat.add_assoc]

theorem txTimeDriven_of_same {s s' : State} (h : SameRx s s') : s'.txTimeDriven = s.txTimeDriven := by
  unfold txTimeDriven; rw [h.txState]

/-- the rx loop of `process` on an inbox of quietly skipped frames, all read before the deadline, with no
    time-driven transmit work: it reads them all, then gets `None` from `rxfn` and runs the last N_Cr check -/
theorem rxLoop_quietSkipped (doTx : Bool) : ∀ (l : List (Nat × CanMsg)) (s : State) (st : Stats),
    (∀ x ∈ l, QuietSkipped s x.2) → s.timerCf.timedOut (s.now + total l) = false →
    (doTx && s.txTimeDriven) = false →
    (rxLoop doTx s st l).1 =
      (({ readAll s l with inbox := [] } : State).emit (.rxNone (s.now + total l))).checkTimeoutsRx := by
  intro l
  induction l with
  | nil => intro s st _ _ _; rw [rxLoop]; rfl
  | cons x rest ih =>
    intro s st hall hlive htd
    obtain ⟨dt, m⟩ := x
    have hq : QuietSkipped s m := hall _ (List.mem_cons_self ..)
    rw [total_cons] at hlive
    have h1 := readFrame_skipped s dt m rest hq.skipped (timedOut_mono _ (by omega) hlive)
    have hnfc : ¬ (¬ Foreign s m ∧ IsFlowControl s m) := by
      rintro ⟨hnf, d, st', bs, stm, hd, hp⟩
      rcases hq with h | h | h
      · exact hnf h
      · obtain ⟨_, d', sn, data, hd', hp', _⟩ := h
        rw [hd] at hd'; cases hd'; rw [hp] at hp'; cases hp'
      · obtain ⟨d', len, data, hd', hp', _⟩ := h
        rw [hd] at hd'; cases hd'; rw [hp] at hp'; cases hp'
    have hc1 : ¬ (s.addr.rx.isForMe m = true ∧
        ((s.rxArrive dt m rest).processRx m).2.1 = true) := fun h => hnfc (h1.2.2.2.mp h)
    have htd' : ¬ ((doTx && (readFrame s dt m rest).txTimeDriven) = true) := by
      rw [txTimeDriven_of_same h1.1, htd]; simp
    have htim : (readFrame s dt m rest).timerCf = s.timerCf := (reception_inj h1.1.rx).2.2.2.2.2.2.1
    rw [rxLoop_cons, if_neg hc1, if_neg htd']
    rw [ih (readFrame s dt m rest) _
      (fun y hy => (hall y (List.mem_cons_of_mem _ hy)).of_same h1.1)
      (by rw [htim, h1.2.1, Nat.add_assoc]; exact hlive)
      (by rw [txTimeDriven_of_same h1.1]; exact htd)]
    rw [h1.2.1, total_cons, Nat.add_assoc]
    rfl

/-! ## the check that follows -/

/-- two states with the same N_Cr timer and clock get the same verdict from the N_Cr check -/
theorem checkTimeoutsRx_verdict (s : State) :
    (s.timerCf.timedOut s.now = true →
      s.checkTimeoutsRx.log = .err s.now .ConsecutiveFrameTimeout :: s.log ∧
      s.checkTimeoutsRx.rxState = .idle ∧ s.checkTimeoutsRx.rxBuf = [] ∧
      s.checkTimeoutsRx.timerCf = s.timerCf.stop ∧ s.checkTimeoutsRx.rxQueue = s.rxQueue) ∧
    (s.timerCf.timedOut s.now = false → s.checkTimeoutsRx = s) := by
  refine ⟨fun h => ?_, checkTimeoutsRx_of_live s⟩
  rw [checkTimeoutsRx_of_expired s h]
  exact ⟨rfl, rfl, rfl, rfl, rfl⟩

/-- the reception fields after the N_Cr check are a function of the reception fields and the clock before -/
theorem reception_checkTimeoutsRx {s s' : State} (hr : reception s' = reception s) (hn : s'.now = s.now) :
    reception s'.checkTimeoutsRx = reception s.checkTimeoutsRx := by
  obtain ⟨h1, h2, h3, h4, h5, h6, h7, h8, h9, h10⟩ := reception_inj hr
  unfold checkTimeoutsRx
  rw [h7, hn]
  split
  · simp [reception, stopReceiving, State.error, emit, h3, h4, h5, h7, h9, h10]
  · exact hr

/-- the check reports `ConsecutiveFrameTimeoutError` exactly when the timer it reads has expired -/
theorem timeout_reported_iff (s : State) :
    s.checkTimeoutsRx.log = .err s.now .ConsecutiveFrameTimeout :: s.log ↔ s.timerCf.timedOut s.now = true := by
  constructor
  · intro h
    cases ht : s.timerCf.timedOut s.now with
    | true => rfl
    | false =>
      rw [checkTimeoutsRx_of_live s ht] at h
      have := congrArg List.length h
      simp at this
  · intro h; exact ((checkTimeoutsRx_verdict s).1 h).1

/-- … so an inbox of quietly skipped frames read before the deadline is one rx pass without any timeout -/
theorem rxLoop_quietSkipped_live (doTx : Bool) (l : List (Nat × CanMsg)) (s : State) (st : Stats)
    (hall : ∀ x ∈ l, QuietSkipped s x.2) (hlive : s.timerCf.timedOut (s.now + total l) = false)
    (htd : (doTx && s.txTimeDriven) = false) :
    (rxLoop doTx s st l).1 =
      ({ readAll s l with inbox := [] } : State).emit (.rxNone (s.now + total l)) := by
  rw [rxLoop_quietSkipped doTx l s st hall hlive htd]
  have h := readAll_skipped l s (fun x hx => (hall x hx).skipped) hlive
  apply checkTimeoutsRx_of_live
  have htim : (readAll s l).timerCf = s.timerCf := (reception_inj h.1.rx).2.2.2.2.2.2.1
  simp only [emit]
  rw [htim, h.2.1]; exact hlive

end Isotp.C07Ign
