import Isotp.Proofs.C08Pass
/-
  C08 (pass level) — "with a zero separation time frames are not delayed at all".

  `Props/C08.lean` has the step-level reading (`zero_not_delayed`: one `processTx` call in
  TRANSMIT_CF with a zero STmin timeout hands the due Consecutive Frame out).  This file lifts it to a
  whole transmitting `process()` call:

      a transmitting pass never ENDS with Consecutive Frames still held back while the separation
      time in force is zero, unless the rate limiter is what holds them.

  Vocabulary (Proofs/Fc.lean, Proofs/C08Pass.lean):
  * `TxWf s`            transmit-side well-formedness (STmin timer running and block size known in
                        TRANSMIT_CF, a request active outside IDLE, …) — established by `State.init`
                        and kept by every operation (`C04`/`C08` use the same invariant);
  * `cfPayloadLen s r`  payload size of the next Consecutive Frame of request `r`
                        (`min (tx_data_length − 1 − prefix) remaining`);
  * `allowedNow s`      `s.rl.allowedBytes s.cfg.rlBitMax`, the credit `processTx` tests the frame
                        against (`payloadLen ≤ allowed` in the TRANSMIT_CF branch; `allowedNow_eq`);
  * "held by the limiter": `s.rl.enabled = true ∧ ∃ r, s.active = some r ∧ allowedNow s < cfPayloadLen s r`.

  The hypothesis on the configuration is the usual `s.cfg.valid = true` (what `Params.validate`
  guarantees); the `_any_cfg` variants only ask for what is really used
  (`prefix + 2 ≤ tx_data_length ≤ 0xFFFFFFFF`).  Without any hypothesis on the configuration the
  statement is false (`step_unguarded_false`).
-/
namespace Isotp.C08pass
open Isotp State Fc C08Pass

theorem allowedNow_eq (s : State) : allowedNow s = s.rl.allowedBytes s.cfg.rlBitMax := rfl

/-- a triple whose last component is `false` (`State` has no decidable equality: the concrete
    examples check the components) -/
theorem triple_eta {α β : Type} (x : α × β × Bool) (h : x.2.2 = false) : x = (x.1, x.2.1, false) := by
  obtain ⟨a, b, c⟩ := x
  simp only at h
  rw [h]

theorem step_eta (x : State × Option CanMsg × Bool) (h : x.2 = (none, false)) : x = (x.1, none, false) := by
  obtain ⟨a, b, c⟩ := x
  simp only [Prod.mk.injEq] at h
  rw [h.1, h.2]

/-! ### Concrete states used by the non-vacuity examples -/

def exHalf : Half :=
  { mode := .n11, txid := some 0x123, rxid := some 0x456, ta := none, sa := none, ae := none,
    physId := 0, funcId := 0, rxOnly := false, txOnly := false }
def exAddr : Addr := ⟨exHalf, exHalf⟩
/-- a 30-byte payload: First Frame (6 bytes) + 4 Consecutive Frames (7, 7, 7, 3 bytes) -/
def exArgs : SendArgs := { id := 7, size := 30, src := List.replicate 30 0x55 }
/-- ContinueToSend, BS = 0, STmin = 0 -/
def exCts : CanMsg := { id := 0x456, ext := false, data := [0x30, 0x00, 0x00], dlc := 3 }

/-- idle layer (default configuration, limiter off) with the request queued -/
def exA0 : State := ((State.init {} exAddr).send exArgs).1
/-- one pass: the First Frame has been sent, WAIT_FC -/
def exA1 : State := (exA0.process true true).1
/-- 1 ms later the ContinueToSend (BS = 0, STmin = 0) is on the bus -/
def exA2 : State := exA1.pushFrame 1000000 exCts
/-- ONE pass -/
def exA3 : State := (exA2.process true true).1

/-- the same with the rate limiter on: 200 bits per 200 ms window -/
def exCfgB : Cfg := { rlEnable := true, rlBitMax := 200 }
def exB0 : State := ((State.init exCfgB exAddr).send exArgs).1
def exB1 : State := (exB0.process true true).1
def exB2 : State := exB1.pushFrame 1000000 exCts
def exB3 : State := (exB2.process true true).1

/-- data fields of the frames handed to the CAN layer, oldest first -/
def txData (s : State) : List Bytes :=
  (s.log.filterMap (fun e => match e with | .tx _ m => some m.data | _ => none)).reverse

theorem exA0_wf : TxWf exA0 := TxWf_send _ _ (TxWf_init _ _)
theorem exA2_wf : TxWf exA2 := process_stable TxWf_loopStable exA0 true true exA0_wf
theorem exB0_wf : TxWf exB0 := TxWf_send _ _ (TxWf_init _ _)
theorem exB2_wf : TxWf exB2 := process_stable TxWf_loopStable exB0 true true exB0_wf
theorem exB3_wf : TxWf exB3 := process_stable TxWf_loopStable exB2 true true exB2_wf

/-! ### 1. One `processTx` call -/

/-- **Step.** A `processTx` call (on a well-formed state, valid configuration) that hands nothing
    out and leaves a clean TRANSMIT_CF state with a zero separation time has been stopped by the
    rate limiter: the limiter is enabled and the next Consecutive Frame does not fit its credit. -/
theorem step_zero_not_delayed (s s' : State) (imm : Bool) (hw : TxWf s) (hv : s.cfg.valid = true)
    (h : s.processTx = (s', none, imm)) (he : s'.exc = none) (hs : s'.txState = .transmitCf)
    (h0 : s'.timerStmin.timeout = 0) :
    s'.rl.enabled = true ∧
    ∃ r, s'.active = some r ∧ s'.rl.allowedBytes s'.cfg.rlBitMax < cfPayloadLen s' r := by
  have := step_endOk s hw (CfgOk_of_valid s hv) (by rw [h])
  rw [h] at this
  exact this he hs h0

/-- the same under the weakest hypothesis on the configuration the proof uses -/
theorem step_zero_not_delayed_any_cfg (s s' : State) (imm : Bool) (hw : TxWf s)
    (hdl : s.txPrefixLen + 2 ≤ s.cfg.txDl) (hmax : s.cfg.txDl ≤ noLimit)
    (h : s.processTx = (s', none, imm)) (he : s'.exc = none) (hs : s'.txState = .transmitCf)
    (h0 : s'.timerStmin.timeout = 0) :
    s'.rl.enabled = true ∧
    ∃ r, s'.active = some r ∧ s'.rl.allowedBytes s'.cfg.rlBitMax < cfPayloadLen s' r := by
  have := step_endOk s hw ⟨hdl, hmax⟩ (by rw [h])
  rw [h] at this
  exact this he hs h0

/-- non-vacuity: `exB3` (limiter on, held in TRANSMIT_CF with STmin = 0) satisfies every hypothesis;
    the call hands nothing out and the conclusion reads "credit 1 byte < 7 bytes" -/
example : exB3.cfg.valid = true ∧ exB3.processTx.2 = (none, false) ∧ exB3.processTx.1.exc = none ∧
    exB3.processTx.1.txState = .transmitCf ∧ exB3.processTx.1.timerStmin.timeout = 0 ∧
    exB3.processTx.1.rl.enabled = true ∧
    exB3.processTx.1.rl.allowedBytes exB3.processTx.1.cfg.rlBitMax = 1 ∧
    exB3.processTx.1.active.map (cfPayloadLen exB3.processTx.1) = some 7 := by decide +kernel

/-- the theorem applied to that call -/
example : exB3.processTx.1.rl.enabled = true ∧
    ∃ r, exB3.processTx.1.active = some r ∧
      exB3.processTx.1.rl.allowedBytes exB3.processTx.1.cfg.rlBitMax < cfPayloadLen exB3.processTx.1 r :=
  step_zero_not_delayed exB3 _ false exB3_wf (by decide +kernel)
    (step_eta _ (by decide +kernel)) (by decide +kernel) (by decide +kernel) (by decide +kernel)

/-- The statement WITHOUT a hypothesis on the configuration. -/
def step_unguarded_statement : Prop :=
  ∀ (s s' : State) (imm : Bool), TxWf s → s.processTx = (s', none, imm) → s'.exc = none →
    s'.txState = .transmitCf → s'.timerStmin.timeout = 0 →
    s'.rl.enabled = true ∧
    ∃ r, s'.active = some r ∧ s'.rl.allowedBytes s'.cfg.rlBitMax < cfPayloadLen s' r

/-- witness: `tx_data_length = 1` (rejected by `Params.validate`): a Consecutive Frame has no room
    for payload, `_process_tx` builds an empty payload, sends nothing and stays in TRANSMIT_CF for
    ever, limiter off -/
def exDegenerate : State :=
  { State.init { txDl := 1 } exAddr with
    txState := .transmitCf, active := some { id := 1, size := 20, src := List.replicate 20 0x55, consumed := 6 },
    remoteBs := some 0, timerStmin := { start := some 0, timeout := 0 }, txSeq := 1, txFrameLen := 20 }

/-- it is false of the model: the configuration hypothesis of `step_zero_not_delayed` is needed
    (`exDegenerate.cfg.valid = false`).  (The other half of the hypothesis, `tx_data_length ≤ noLimit`,
    is what makes `rl.enabled = true` follow from "does not fit the credit": a disabled limiter
    grants `noLimit = 0xFFFFFFFF` bytes, which a Consecutive Frame of a 2³²-byte-plus
    `tx_data_length` would not fit.) -/
theorem step_unguarded_false : ¬ step_unguarded_statement := by
  intro h
  have hw : TxWf exDegenerate := by
    unfold TxWf
    decide
  have := (h exDegenerate _ false hw (step_eta _ (by decide +kernel)) (by decide +kernel)
    (by decide +kernel) (by decide +kernel)).1
  exact absurd this (by decide +kernel)

example : exDegenerate.cfg.valid = false := by decide

/-! ### 2. The inner tx loop of `process()` -/

/-- **Inner loop.** When the tx loop of `process()` ends by itself (no re-run requested, fuel left,
    no exception) in TRANSMIT_CF with a zero separation time, the limiter holds the frame. -/
theorem txLoop_end_zero_not_delayed (fuel : Nat) (s s' : State) (n n' : Nat) (hw : TxWf s)
    (hv : s.cfg.valid = true) (h : txLoop fuel s n = (s', n', false, false)) (he : s'.exc = none)
    (hs : s'.txState = .transmitCf) (h0 : s'.timerStmin.timeout = 0) :
    s'.rl.enabled = true ∧
    ∃ r, s'.active = some r ∧ s'.rl.allowedBytes s'.cfg.rlBitMax < cfPayloadLen s' r := by
  have := txLoop_endOk fuel s n ⟨hw, CfgOk_of_valid s hv⟩ (by rw [h]) (by rw [h])
  rw [h] at this
  exact this he hs h0

theorem txLoop_end_zero_not_delayed_any_cfg (fuel : Nat) (s s' : State) (n n' : Nat) (hw : TxWf s)
    (hdl : s.txPrefixLen + 2 ≤ s.cfg.txDl) (hmax : s.cfg.txDl ≤ noLimit)
    (h : txLoop fuel s n = (s', n', false, false)) (he : s'.exc = none)
    (hs : s'.txState = .transmitCf) (h0 : s'.timerStmin.timeout = 0) :
    s'.rl.enabled = true ∧
    ∃ r, s'.active = some r ∧ s'.rl.allowedBytes s'.cfg.rlBitMax < cfPayloadLen s' r := by
  have := txLoop_endOk fuel s n ⟨hw, hdl, hmax⟩ (by rw [h]) (by rw [h])
  rw [h] at this
  exact this he hs h0

/-- non-vacuity: the tx loop of the limited sender, started on the state the ContinueToSend has
    just reached, sends two Consecutive Frames and stops on the third (credit exhausted) -/
def exB2rx : State := (exB2.rxLoop true {} exB2.inbox).1
example : exB2rx.lastFc = some ⟨0, 0, 0⟩ ∧ exB2rx.txState = .waitFc ∧ exB2rx.cfg.valid = true ∧
    (txLoop exB2rx.txFuel exB2rx 0).2 = (2, false, false) ∧
    (txLoop exB2rx.txFuel exB2rx 0).1.exc = none ∧
    (txLoop exB2rx.txFuel exB2rx 0).1.txState = .transmitCf ∧
    (txLoop exB2rx.txFuel exB2rx 0).1.timerStmin.timeout = 0 := by decide +kernel

/-! ### 3. A whole transmitting `process()` call -/

/-- **Pass.** A transmitting `process()` call (any `do_rx`) that ends within fuel and without
    exception never ends in TRANSMIT_CF with a zero separation time unless the rate limiter is
    enabled and the next Consecutive Frame does not fit its credit. -/
theorem pass_zero_not_delayed (s s' : State) (doRx : Bool) (st : Stats) (hw : TxWf s)
    (hv : s.cfg.valid = true) (h : s.process doRx true = (s', st, false)) (he : s'.exc = none)
    (hs : s'.txState = .transmitCf) (h0 : s'.timerStmin.timeout = 0) :
    s'.rl.enabled = true ∧
    ∃ r, s'.active = some r ∧ s'.rl.allowedBytes s'.cfg.rlBitMax < cfPayloadLen s' r := by
  have := processLoop_endOk s.processFuel doRx s {} ⟨hw, CfgOk_of_valid s hv⟩
    (by show (s.process doRx true).2.2 = false; rw [h])
  have e : processLoop s.processFuel doRx true s {} = (s', st, false) := h
  rw [e] at this
  exact this he hs h0

theorem pass_zero_not_delayed_any_cfg (s s' : State) (doRx : Bool) (st : Stats) (hw : TxWf s)
    (hdl : s.txPrefixLen + 2 ≤ s.cfg.txDl) (hmax : s.cfg.txDl ≤ noLimit)
    (h : s.process doRx true = (s', st, false)) (he : s'.exc = none)
    (hs : s'.txState = .transmitCf) (h0 : s'.timerStmin.timeout = 0) :
    s'.rl.enabled = true ∧
    ∃ r, s'.active = some r ∧ s'.rl.allowedBytes s'.cfg.rlBitMax < cfPayloadLen s' r := by
  have := processLoop_endOk s.processFuel doRx s {} ⟨hw, hdl, hmax⟩
    (by show (s.process doRx true).2.2 = false; rw [h])
  have e : processLoop s.processFuel doRx true s {} = (s', st, false) := h
  rw [e] at this
  exact this he hs h0

/-- non-vacuity, and the reason for the limiter clause: with the limiter on (200 bits per window:
    First Frame + two Consecutive Frames = 192 bits) the pass that honours the ContinueToSend
    (BS = 0, STmin = 0) sends two Consecutive Frames and ENDS in TRANSMIT_CF with a zero separation
    time, within fuel and without exception; the credit left is 1 byte, the next frame needs 7 -/
example : exB2.cfg.valid = true ∧ (exB2.process true true).2.2 = false ∧ exB3.exc = none ∧
    exB3.txState = .transmitCf ∧ exB3.timerStmin.timeout = 0 ∧ exB3.rl.enabled = true ∧
    exB3.rl.allowedBytes exB3.cfg.rlBitMax = 1 ∧ exB3.active.map (cfPayloadLen exB3) = some 7 ∧
    (exB2.process true true).2.1.sent = 2 := by decide +kernel

example : txData exB3 =
    [[0x10, 30, 0x55, 0x55, 0x55, 0x55, 0x55, 0x55],
     [0x21, 0x55, 0x55, 0x55, 0x55, 0x55, 0x55, 0x55],
     [0x22, 0x55, 0x55, 0x55, 0x55, 0x55, 0x55, 0x55]] := by decide +kernel

/-- the theorem applied to that run -/
example : exB3.rl.enabled = true ∧
    ∃ r, exB3.active = some r ∧ exB3.rl.allowedBytes exB3.cfg.rlBitMax < cfPayloadLen exB3 r :=
  pass_zero_not_delayed exB2 _ true _ exB2_wf (by decide +kernel)
    (triple_eta _ (by decide +kernel)) (by decide +kernel) (by decide +kernel) (by decide +kernel)

/-! ### 4. Limiter off: the pass drains the block -/

/-- `process()` never switches the rate limiter on or off -/
theorem process_keeps_limiter_switch (s : State) (doRx doTx : Bool) :
    (s.process doRx doTx).1.rl.enabled = s.rl.enabled :=
  process_rl_enabled s doRx doTx

/-- **Corollary.** With the rate limiter disabled, a transmitting pass that ends without exception
    and within fuel never ends in TRANSMIT_CF with a zero separation time: every Consecutive Frame
    the flow control allows has been handed out (the pass ends IDLE, in WAIT_FC at a block boundary,
    or in TRANSMIT_CF with a non-zero STmin running). -/
theorem pass_drains_block_when_unlimited (s s' : State) (doRx : Bool) (st : Stats) (hw : TxWf s)
    (hv : s.cfg.valid = true) (hoff : s.rl.enabled = false)
    (h : s.process doRx true = (s', st, false)) (he : s'.exc = none) :
    ¬ (s'.txState = .transmitCf ∧ s'.timerStmin.timeout = 0) := by
  intro ⟨hs, h0⟩
  have hen := (pass_zero_not_delayed s s' doRx st hw hv h he hs h0).1
  have hk := process_keeps_limiter_switch s doRx true
  rw [h] at hk
  simp only [] at hk
  rw [hk, hoff] at hen
  cases hen

/-- in other words: limiter off and the pass ends in TRANSMIT_CF ⇒ a non-zero separation time is
    in force -/
theorem pass_end_cf_unlimited_stmin_pos (s s' : State) (doRx : Bool) (st : Stats) (hw : TxWf s)
    (hv : s.cfg.valid = true) (hoff : s.rl.enabled = false)
    (h : s.process doRx true = (s', st, false)) (he : s'.exc = none) (hs : s'.txState = .transmitCf) :
    0 < s'.timerStmin.timeout := by
  have := pass_drains_block_when_unlimited s s' doRx st hw hv hoff h he
  exact Nat.pos_of_ne_zero (fun h0 => this ⟨hs, h0⟩)

/-! ### 5. Non-vacuity: the unlimited sender -/

/-- the sender has sent its First Frame and waits for the Flow Control -/
example : exA1.txState = .waitFc ∧ txData exA1 = [[0x10, 30, 0x55, 0x55, 0x55, 0x55, 0x55, 0x55]] ∧
    exA1.rl.enabled = false := by decide +kernel

/-- ContinueToSend (BS = 0, STmin = 0) for the 30-byte payload: ONE `process(true, true)` pass
    emits all four Consecutive Frames and ends IDLE, within fuel, without exception -/
example : exA2.cfg.valid = true ∧ exA2.rl.enabled = false ∧ (exA2.process true true).2.2 = false ∧
    exA3.exc = none ∧ exA3.txState = .idle ∧ exA3.active = none ∧
    (exA2.process true true).2.1.sent = 4 := by decide +kernel

example : txData exA3 =
    [[0x10, 30, 0x55, 0x55, 0x55, 0x55, 0x55, 0x55],
     [0x21, 0x55, 0x55, 0x55, 0x55, 0x55, 0x55, 0x55],
     [0x22, 0x55, 0x55, 0x55, 0x55, 0x55, 0x55, 0x55],
     [0x23, 0x55, 0x55, 0x55, 0x55, 0x55, 0x55, 0x55],
     [0x24, 0x55, 0x55, 0x55]] := by decide +kernel

/-- all four Consecutive Frames carry the same hand-over time (the pass's clock: 1 ms) -/
example : (exA3.log.filterMap (fun e => match e with | .tx t _ => some t | _ => none)).reverse =
    [0, 1000000, 1000000, 1000000, 1000000] := by decide +kernel

/-- the corollary applied to that run -/
example : ¬ (exA3.txState = .transmitCf ∧ exA3.timerStmin.timeout = 0) :=
  pass_drains_block_when_unlimited exA2 _ true _ exA2_wf (by decide +kernel) (by decide +kernel)
    (triple_eta _ (by decide +kernel)) (by decide +kernel)

/-- a non-zero STmin is the other way a pass may end in TRANSMIT_CF with the limiter off:
    ContinueToSend with STmin = 10 ms — the STmin timer is started, no Consecutive Frame is due yet, the
    pass ends in TRANSMIT_CF with a 10 ms timeout -/
def exCts10 : CanMsg := { id := 0x456, ext := false, data := [0x30, 0x00, 0x0A], dlc := 3 }
example : ((exA1.pushFrame 1000000 exCts10).process true true).2.2 = false ∧
    ((exA1.pushFrame 1000000 exCts10).process true true).1.txState = .transmitCf ∧
    ((exA1.pushFrame 1000000 exCts10).process true true).1.timerStmin.timeout = 10000000 ∧
    ((exA1.pushFrame 1000000 exCts10).process true true).2.1.sent = 0 := by decide +kernel

end Isotp.C08pass

#print axioms Isotp.C08pass.step_zero_not_delayed
#print axioms Isotp.C08pass.step_zero_not_delayed_any_cfg
#print axioms Isotp.C08pass.step_unguarded_false
#print axioms Isotp.C08pass.txLoop_end_zero_not_delayed
#print axioms Isotp.C08pass.txLoop_end_zero_not_delayed_any_cfg
#print axioms Isotp.C08pass.pass_zero_not_delayed
#print axioms Isotp.C08pass.pass_zero_not_delayed_any_cfg
#print axioms Isotp.C08pass.process_keeps_limiter_switch
#print axioms Isotp.C08pass.pass_drains_block_when_unlimited
#print axioms Isotp.C08pass.pass_end_cf_unlimited_stmin_pos
