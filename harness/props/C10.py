"""C10 - full duplex: concurrent send and receive never disturb each other."""
import trace
from props.base import PropBase
from props.C01 import net_scenario, judge_transfer, C01


class C10(C01):
    id = 'C10'
    lean_modules = ['Isotp.Props.C10']
    theorems = []
    rule = ('both peers send multi-frame messages at the same time; interleavings of {A.process, A.process(tx only), B.process, B.process(tx only), '
            'deliver one frame A->B, deliver one frame B->A, ticks}; small-scope schedules plus long random ones; followed by regular rounds: every '
            'payload must arrive exactly once in order with no error (no deadlock: nothing may remain incomplete); distinct = (modes, sizes, schedule shape)')
    quick_per_shard = 60
    thorough_per_shard = 2500

    def scenario(self, rng, tier):
        return net_scenario(rng, tier, duplex_bias=True, tx_only_passes=True)

    def judge(self, sc, lines_in, impl_out):
        out = judge_transfer(sc, lines_in, impl_out)
        # quiescence: at the end nothing is in progress
        recs = trace.records(lines_in, impl_out)
        last = {}
        for r in recs:
            if r.layer is not None and r.status:
                last[r.layer] = r.status
        for i, st in last.items():
            if st.get('tr') == '1' or st.get('rx') == '1':
                out.append(('no_deadlock', 'layer %d still busy after regular processing: %s' % (i, st)))
        return out


PROP = C10()
