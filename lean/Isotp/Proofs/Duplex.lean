import Isotp.Proofs.Fc
import Isotp.Proofs.Timers
/-
  Helper definitions and lemmas for C10 (full duplex): the interference between the two
  directions inside ONE layer, through the shared fields
    * `lastFc`   — depth-1 mailbox of a received Flow Control (written by `processRx`, consumed by
                   `processTx`, but also cleared by `stopReceiving`);
    * `pendingFc`— Flow Control to send, requested by the receive side, served first by `processTx`
                   (which then returns early, leaving the mailbox untouched).
  Contents: what `processRx` / `processTx` / `checkTimeoutsRx` do to the two fields; a stage form of
  `processLoop`; ghost-instrumented copies of the three loops of `process()` that also return the list
  of `processRx` / `processTx` call points (`rxLoopT`, `txLoopT`, `processLoopT`, erasure theorems
  `*_fst`); the trace predicate `TraceOk` and the proof that it holds under the alternation
  discipline (`doTx = true`) from a state with an empty mailbox and no pending Flow Control.
-/
namespace Isotp.Duplex
open Isotp State

/-! ### The two shared fields -/

/-- the Flow Control that `m` carries, as the layer in state `s` decodes it (`none`: not a Flow Control,
    or not decodable) -/
def fcOf (s : State) (m : CanMsg) : Option FcFrame :=
  match decode m.data s.addr.rx.rxPrefixSize with
  | some d =>
    (match d.pdu with
      | .fc st bs stm => some ⟨st, bs, stm⟩
      | _ => none)
  | none => none

/-- **MailboxInv**: the mailbox is empty and no Flow Control is waiting to be sent.
    This is what holds whenever `rxLoop` is entered inside `process(do_tx = true)`. -/
def MailboxInv (s : State) : Prop := s.lastFc = none ∧ s.pendingFc = false

/-- what holds whenever `processTx` is called inside `process(do_tx = true)`: never a received Flow
    Control in the mailbox AND a Flow Control to send at the same time (the early return of the
    pending-FC branch would leave the mailbox full across the next `rxLoop`). -/
def MailboxExcl (s : State) : Prop := s.pendingFc = true → s.lastFc = none

theorem MailboxInv.excl {s : State} (h : MailboxInv s) : MailboxExcl s := fun _ => h.1

/-- a Flow Control frame: stored in the mailbox, immediate tx pass requested, nothing else changes -/
theorem processRx_fc {s : State} {m : CanMsg} {fc : FcFrame} (h : fcOf s m = some fc) :
    s.processRx m = ({ s with lastFc := some fc }, true, false) := by
  unfold fcOf at h
  unfold processRx
  split at h
  · next d hd =>
    split at h
    · next st bs stm hp =>
      simp only [Option.some.injEq] at h
      subst h
      simp only [hd, hp]
    · cases h
  · cases h

/-- any other frame: the mailbox is left alone or cleared (`stopReceiving`), never filled -/
theorem processRx_nonfc_lastFc {s : State} {m : CanMsg} (h : fcOf s m = none) :
    (s.processRx m).1.lastFc = s.lastFc ∨ (s.processRx m).1.lastFc = none := by
  unfold fcOf at h
  unfold processRx startReception
  grind (splits := 40) [deliver, stopReceiving, State.error, emit, requestFc, startRxCfTimer]

/-- a Flow Control request raised by `processRx` always comes with `immediate_tx_required` -/
theorem processRx_pend_imm (s : State) (m : CanMsg) (hp : s.pendingFc = false)
    (h : (s.processRx m).1.pendingFc = true) : (s.processRx m).2.1 = true := by
  unfold processRx startReception at *
  grind (splits := 40) [deliver, stopReceiving, State.error, emit, requestFc, startRxCfTimer]

/-- `processRx` on a Flow Control does not touch `pendingFc` -/
theorem processRx_fc_pend {s : State} {m : CanMsg} {fc : FcFrame} (h : fcOf s m = some fc) :
    (s.processRx m).1.pendingFc = s.pendingFc := by
  rw [processRx_fc h]

theorem checkTimeoutsRx_mail {s : State} (h : MailboxInv s) : MailboxInv s.checkTimeoutsRx := by
  unfold MailboxInv checkTimeoutsRx at *
  split <;> simp_all [stopReceiving, State.error, emit]

theorem checkTimeoutsRx_lastFc (s : State) :
    s.checkTimeoutsRx.lastFc = s.lastFc ∨ s.checkTimeoutsRx.lastFc = none := by
  unfold checkTimeoutsRx
  split <;> simp [stopReceiving, State.error, emit]

theorem rxArrive_mail {s : State} (dt : Nat) (m : CanMsg) (rest : List (Nat × CanMsg))
    (h : MailboxInv s) : MailboxInv (s.rxArrive dt m rest) := by
  unfold rxArrive
  exact checkTimeoutsRx_mail h

theorem rxArrive_inbox (s : State) (dt : Nat) (m : CanMsg) (rest : List (Nat × CanMsg)) :
    (s.rxArrive dt m rest).inbox = rest := by
  unfold rxArrive checkTimeoutsRx
  split <;> simp [stopReceiving, State.error, emit]

theorem rxArrive_addr (s : State) (dt : Nat) (m : CanMsg) (rest : List (Nat × CanMsg)) :
    (s.rxArrive dt m rest).addr = s.addr := by
  unfold rxArrive checkTimeoutsRx
  split <;> simp [stopReceiving, State.error, emit]

/-! ### `processTx` and the two fields -/

/-- after any `processTx` call no Flow Control is pending to be sent -/
theorem txPend_pendingFc (s : State) : s.txPend.1.pendingFc = false := by
  unfold txPend
  grind [State.raise, startRxCfTimer]

theorem processTx_pendingFc (s : State) : s.processTx.1.pendingFc = false := by
  have h := congrArg RxView.pendingFc (rxView_processTx_of_txPend s)
  simp only [rxView] at h
  rw [h]; exact txPend_pendingFc s

/-- the pending-FC stage: it returns early only when a Flow Control was pending; the mailbox is untouched -/
theorem fcSendPhase_cases (s : State) :
    (Fc.fcSendPhase s).1.lastFc = s.lastFc ∧
    ((Fc.fcSendPhase s).2 = some none → s.pendingFc = true ∧ (Fc.fcSendPhase s).1.exc.isSome = true) ∧
    (∀ msg, (Fc.fcSendPhase s).2 = some (some msg) → s.pendingFc = true) := by
  unfold Fc.fcSendPhase
  grind [State.raise, startRxCfTimer]

/-- **The mailbox is consumed first — except behind a pending Flow Control.**
    `processTx` always leaves the mailbox empty, except when it returns early from the pending-FC
    branch: then the mailbox is unchanged, and either an exception was raised or
    `immediate_rx_required` is returned. -/
theorem processTx_lastFc (s : State) :
    s.processTx.1.lastFc = none ∨
    (s.pendingFc = true ∧ s.processTx.1.lastFc = s.lastFc ∧
      (s.processTx.2.2 = true ∨ s.processTx.1.exc.isSome = true)) := by
  rw [Fc.processTx_eq]
  have h0 := fcSendPhase_cases s
  generalize Fc.fcSendPhase s = r at h0
  obtain ⟨s1, o⟩ := r
  obtain ⟨h1, h2, h3⟩ := h0
  simp only [] at h1 h2 h3
  match o with
  | some none => exact Or.inr ⟨(h2 rfl).1, h1, Or.inr (h2 rfl).2⟩
  | some (some msg) => exact Or.inr ⟨h3 msg rfl, h1, Or.inl rfl⟩
  | none => exact Or.inl (Fc.txPhases_lastFc _ _)

theorem processTx_lastFc_of_excl {s : State} (h : MailboxExcl s) : s.processTx.1.lastFc = none := by
  rcases processTx_lastFc s with h1 | ⟨hp, h1, -⟩
  · exact h1
  · rw [h1]; exact h hp

theorem processTx_mail {s : State} (h : MailboxExcl s) : MailboxInv s.processTx.1 :=
  ⟨processTx_lastFc_of_excl h, processTx_pendingFc s⟩

/-- with no Flow Control to send, a Flow Control in the mailbox is consumed by this very pass:
    Overflow branch … -/
theorem processTx_consumes_overflow (s : State) (fc : FcFrame) (hp : s.pendingFc = false)
    (hfc : s.lastFc = some fc) (h2 : fc.status = 2) :
    s.processTx = ((({ s with lastFc := none } : State).stopSending false).error .Overflow, none, false) :=
  Fc.processTx_overflow s fc hp hfc h2

/-- … or `handleFc`, after which the pass goes on like a fresh pass (N_Bs check, state machine) -/
theorem processTx_consumes_handle (s : State) (fc : FcFrame) (hp : s.pendingFc = false)
    (hfc : s.lastFc = some fc) (h2 : fc.status ≠ 2) :
    s.processTx = (Fc.afterTimeout (({ s with lastFc := none } : State).handleFc fc)).processTx := by
  have ha : Fc.afterFc s = (({ s with lastFc := none } : State).handleFc fc, false) := by
    unfold Fc.afterFc
    simp [hfc, h2]
  have := Fc.processTx_continue s hp (by rw [ha])
  rw [ha] at this
  exact this

/-! ### `rxLoop` -/

/-- **`rxLoop` stops at a Flow Control.** The frame is stored in the mailbox, the loop returns at once
    (no re-run requested by `rxLoop` itself) and the rest of the inbox is untouched: no further frame is
    read before the tx loop has run. -/
theorem rxLoop_stops_at_fc (doTx : Bool) (s : State) (st : Stats) (dt : Nat) (m : CanMsg)
    (rest : List (Nat × CanMsg)) (fc : FcFrame) (hme : s.addr.rx.isForMe m = true)
    (hfc : fcOf (s.rxArrive dt m rest) m = some fc) :
    rxLoop doTx s st ((dt, m) :: rest) =
      ({ s.rxArrive dt m rest with lastFc := some fc },
       { st with received := st.received + 1, processed := st.processed + 1 }, false) := by
  rw [rxLoop_cons_forMe doTx s st dt m rest hme, processRx_fc hfc]
  simp

theorem fcOf_rxArrive (s : State) (dt : Nat) (m : CanMsg) (rest : List (Nat × CanMsg)) :
    fcOf (s.rxArrive dt m rest) m = fcOf s m := by
  unfold fcOf
  rw [rxArrive_addr]

/-! ### Stage form of `processLoop` -/

/-- "data to send and nothing in progress: start with the tx pass" -/
def startWithTx (doTx : Bool) (s : State) : Bool :=
  doTx && !s.txQueue.isEmpty && s.rxState = .idle && s.txState = .idle

/-- the rx part of one iteration of the `while run_process` loop -/
def rxStage (doRx doTx : Bool) (s : State) (st : Stats) : State × Stats × Bool :=
  if doRx && !(startWithTx doTx s) then s.rxLoop doTx st s.inbox else (s, st, false)

/-- `rate_limiter.update()` between the two parts -/
def rlStage (s : State) : State := { s with rl := s.rl.update s.cfg.rlWindowNs s.now }

/-- the tx part of one iteration: (state, frames sent so far, run_process requested, out of fuel) -/
def txStage (doTx : Bool) (s : State) (sent : Nat) : State × Nat × Bool × Bool :=
  if doTx then txLoop s.txFuel s sent else (s, sent, false, false)

theorem processLoop_succ (f : Nat) (doRx doTx : Bool) (s : State) (st : Stats) :
    processLoop (f + 1) doRx doTx s st =
      (let a := rxStage doRx doTx s st
       let b := txStage doTx (rlStage a.1) a.2.1.sent
       let st2 : Stats := { a.2.1 with sent := b.2.1 }
       if b.1.exc.isSome then (b.1, st2, false)
       else if b.2.2.2 then (b.1, st2, true)
       else if startWithTx doTx s || a.2.2 || b.2.2.1 then processLoop f doRx doTx b.1 st2
       else (b.1, st2, false)) := by
  cases doTx <;> rfl

/-! ### Ghost instrumentation: the call points of `processRx` and `processTx` -/

/-- one call of `processRx` or `processTx` inside `process()`, with the state it is applied to -/
inductive Call where
  | rx (s : State) (m : CanMsg)
  | tx (s : State)

/-- `rxLoop` that also returns its `processRx` call points, in order -/
def rxLoopT (doTx : Bool) (s : State) (st : Stats) :
    List (Nat × CanMsg) → (State × Stats × Bool) × List Call
  | [] => (((({ s with inbox := [] } : State).emit (.rxNone s.now)).checkTimeoutsRx, st, false), [])
  | (dt, m) :: rest =>
    let s := { s with inbox := rest, now := s.now + dt }
    let s := (s.emit (.rx s.now m)).checkTimeoutsRx
    let st := { st with received := st.received + 1 }
    if s.addr.rx.isForMe m then
      let st := { st with processed := st.processed + 1 }
      let r := s.processRx m
      let st := if r.2.2 then { st with frames := st.frames + 1 } else st
      if r.2.1 then ((r.1, st, false), [.rx s m])
      else if doTx && r.1.txTimeDriven then ((r.1, st, true), [.rx s m])
      else ((rxLoopT doTx r.1 st rest).1, .rx s m :: (rxLoopT doTx r.1 st rest).2)
    else if doTx && s.txTimeDriven then ((s, st, true), [])
    else rxLoopT doTx s st rest

theorem rxLoopT_fst (doTx : Bool) (l : List (Nat × CanMsg)) :
    ∀ (s : State) (st : Stats), (rxLoopT doTx s st l).1 = rxLoop doTx s st l := by
  induction l with
  | nil => intro s st; rfl
  | cons x rest ih =>
    intro s st
    obtain ⟨dt, m⟩ := x
    unfold rxLoopT rxLoop
    simp only []
    split
    · split
      · rfl
      · split
        · rfl
        · exact ih _ _
    · split
      · rfl
      · exact ih _ _

/-- `txLoop` that also returns its `processTx` call points -/
def txLoopT : Nat → State → Nat → (State × Nat × Bool × Bool) × List Call
  | 0, s, n => ((s, n, false, true), [])
  | f + 1, s, n =>
    let r := s.processTx
    if r.1.exc.isSome then ((r.1, n, false, false), [.tx s]) else
    let s' := match r.2.1 with
      | some m => r.1.emit (.tx r.1.now m)
      | none => r.1
    let n' := match r.2.1 with
      | some _ => n + 1
      | none => n
    if r.2.2 then ((s', n', true, false), [.tx s])
    else if r.2.1.isSome then ((txLoopT f s' n').1, .tx s :: (txLoopT f s' n').2)
    else ((s', n', false, false), [.tx s])

theorem txLoopT_fst (f : Nat) : ∀ (s : State) (n : Nat), (txLoopT f s n).1 = txLoop f s n := by
  induction f with
  | zero => intro s n; rfl
  | succ f ih =>
    intro s n
    unfold txLoopT txLoop
    generalize s.processTx = r
    obtain ⟨s1, out, imm⟩ := r
    simp only []
    split
    · rfl
    · cases out with
      | none => cases imm <;> simp
      | some m =>
        cases imm
        · simp [ih]
        · simp

def rxStageT (doRx doTx : Bool) (s : State) (st : Stats) : (State × Stats × Bool) × List Call :=
  if doRx && !(startWithTx doTx s) then rxLoopT doTx s st s.inbox else ((s, st, false), [])

def txStageT (doTx : Bool) (s : State) (sent : Nat) : (State × Nat × Bool × Bool) × List Call :=
  if doTx then txLoopT s.txFuel s sent else ((s, sent, false, false), [])

theorem rxStageT_fst (doRx doTx : Bool) (s : State) (st : Stats) :
    (rxStageT doRx doTx s st).1 = rxStage doRx doTx s st := by
  unfold rxStageT rxStage
  split
  · exact rxLoopT_fst _ _ _ _
  · rfl

theorem txStageT_fst (doTx : Bool) (s : State) (sent : Nat) :
    (txStageT doTx s sent).1 = txStage doTx s sent := by
  unfold txStageT txStage
  split
  · exact txLoopT_fst _ _ _
  · rfl

/-- `processLoop` that also returns all call points, in order -/
def processLoopT : Nat → Bool → Bool → State → Stats → (State × Stats × Bool) × List Call
  | 0, _, _, s, st => ((s, st, true), [])
  | f + 1, doRx, doTx, s, st =>
    let a := rxStageT doRx doTx s st
    let b := txStageT doTx (rlStage a.1.1) a.1.2.1.sent
    let st2 : Stats := { a.1.2.1 with sent := b.1.2.1 }
    if b.1.1.exc.isSome then ((b.1.1, st2, false), a.2 ++ b.2)
    else if b.1.2.2.2 then ((b.1.1, st2, true), a.2 ++ b.2)
    else if startWithTx doTx s || a.1.2.2 || b.1.2.2.1 then
      ((processLoopT f doRx doTx b.1.1 st2).1, a.2 ++ b.2 ++ (processLoopT f doRx doTx b.1.1 st2).2)
    else ((b.1.1, st2, false), a.2 ++ b.2)

theorem processLoopT_fst (f : Nat) (doRx doTx : Bool) :
    ∀ (s : State) (st : Stats), (processLoopT f doRx doTx s st).1 = processLoop f doRx doTx s st := by
  induction f with
  | zero => intro s st; rfl
  | succ f ih =>
    intro s st
    rw [processLoop_succ]
    unfold processLoopT
    simp only [rxStageT_fst, txStageT_fst]
    generalize rxStage doRx doTx s st = A
    generalize txStage doTx (rlStage A.1) A.2.1.sent = B
    by_cases h1 : B.1.exc.isSome = true
    · simp only [h1, ↓reduceIte]
    · simp only [h1, Bool.false_eq_true, ↓reduceIte]
      by_cases h2 : B.2.2.2 = true
      · simp only [h2, ↓reduceIte]
      · simp only [h2, Bool.false_eq_true, ↓reduceIte]
        by_cases h3 : (startWithTx doTx s || A.2.2 || B.2.2.1) = true
        · simp only [h3, ↓reduceIte]; exact ih _ _
        · simp only [h3, Bool.false_eq_true, ↓reduceIte]

/-- `process(do_rx, do_tx)` with its call points -/
def processT (s : State) (doRx doTx : Bool) : (State × Stats × Bool) × List Call :=
  processLoopT s.processFuel doRx doTx s {}

theorem processT_fst (s : State) (doRx doTx : Bool) : (processT s doRx doTx).1 = s.process doRx doTx :=
  processLoopT_fst _ _ _ _ _

/-! ### The trace predicate -/

/-- What the call points of one `process()` must satisfy:
    * every `processRx` call finds the mailbox empty and no Flow Control pending to be sent
      (so a `stopReceiving` inside it destroys nothing, and a Flow Control never overwrites another);
    * a `processRx` call that stores a Flow Control is IMMEDIATELY followed by a `processTx` call that
      still finds this Flow Control in the mailbox …
    * … and every `processTx` call satisfies `MailboxExcl`: if the mailbox is full, no Flow Control is
      pending to be sent, so this pass does not return early: it consumes the mailbox
      (`processTx_consumes_overflow` / `processTx_consumes_handle`). -/
def TraceOk : List Call → Prop
  | [] => True
  | .tx s :: rest => MailboxExcl s ∧ TraceOk rest
  | .rx s m :: rest =>
    MailboxInv s ∧
    (∀ fc, fcOf s m = some fc → ∃ s' rest', rest = .tx s' :: rest' ∧ s'.lastFc = some fc) ∧
    TraceOk rest

/-- the per-call condition contained in `TraceOk` -/
def CallOk : Call → Prop
  | .rx s _ => MailboxInv s
  | .tx s => MailboxExcl s

theorem TraceOk.tail {c : Call} {tr : List Call} (h : TraceOk (c :: tr)) : TraceOk tr := by
  cases c with
  | rx s m => exact h.2.2
  | tx s => exact h.2

theorem TraceOk.head {c : Call} {tr : List Call} (h : TraceOk (c :: tr)) : CallOk c := by
  cases c with
  | rx s m => exact h.1
  | tx s => exact h.1

theorem TraceOk.suffix {pre tr : List Call} (h : TraceOk (pre ++ tr)) : TraceOk tr := by
  induction pre with
  | nil => exact h
  | cons c pre ih => exact ih (TraceOk.tail h)

theorem TraceOk.mem {tr : List Call} (h : TraceOk tr) {c : Call} (hc : c ∈ tr) : CallOk c := by
  induction tr with
  | nil => cases hc
  | cons d tr ih =>
    rcases List.mem_cons.mp hc with rfl | hc
    · exact h.head
    · exact ih h.tail hc

/-- reading `TraceOk` at a Flow Control: the very next call is a `processTx` call that finds this Flow
    Control in the mailbox and has no Flow Control to send first -/
theorem TraceOk.fc_next {pre rest : List Call} {s : State} {m : CanMsg} {fc : FcFrame}
    (h : TraceOk (pre ++ .rx s m :: rest)) (hfc : fcOf s m = some fc) :
    ∃ s' rest', rest = .tx s' :: rest' ∧ s'.lastFc = some fc ∧ s'.pendingFc = false := by
  have h1 : TraceOk (.rx s m :: rest) := TraceOk.suffix h
  obtain ⟨s', rest', hr, hl⟩ := h1.2.1 fc hfc
  refine ⟨s', rest', hr, hl, ?_⟩
  have h2 : TraceOk (.tx s' :: rest') := by rw [← hr]; exact h1.2.2
  cases hp : s'.pendingFc with
  | false => rfl
  | true => have := h2.1 hp; rw [hl] at this; cases this

/-- the obligation a trace leaves to what follows it: if its final state has a full mailbox, the next
    call must be a `processTx` call that finds it -/
def Handover (s : State) (k : List Call) : Prop :=
  ∀ fc, s.lastFc = some fc → ∃ s' k', k = .tx s' :: k' ∧ s'.lastFc = some fc

theorem Handover.of_none {s : State} (h : s.lastFc = none) (k : List Call) : Handover s k := by
  intro fc hfc; rw [h] at hfc; cases hfc

def stAfter (st : Stats) (fr : Bool) : Stats :=
  if fr then { received := st.received + 1, processed := st.processed + 1, sent := st.sent,
               frames := st.frames + 1 }
  else { received := st.received + 1, processed := st.processed + 1, sent := st.sent, frames := st.frames }

theorem rxLoopT_cons (doTx : Bool) (s : State) (st : Stats) (dt : Nat) (m : CanMsg)
    (rest : List (Nat × CanMsg)) :
    rxLoopT doTx s st ((dt, m) :: rest) =
      (if (s.rxArrive dt m rest).addr.rx.isForMe m then
        (if ((s.rxArrive dt m rest).processRx m).2.1 then
          ((((s.rxArrive dt m rest).processRx m).1, stAfter st ((s.rxArrive dt m rest).processRx m).2.2, false),
            [.rx (s.rxArrive dt m rest) m])
        else if doTx && ((s.rxArrive dt m rest).processRx m).1.txTimeDriven then
          ((((s.rxArrive dt m rest).processRx m).1, stAfter st ((s.rxArrive dt m rest).processRx m).2.2, true),
            [.rx (s.rxArrive dt m rest) m])
        else
          ((rxLoopT doTx ((s.rxArrive dt m rest).processRx m).1
              (stAfter st ((s.rxArrive dt m rest).processRx m).2.2) rest).1,
           .rx (s.rxArrive dt m rest) m ::
            (rxLoopT doTx ((s.rxArrive dt m rest).processRx m).1
              (stAfter st ((s.rxArrive dt m rest).processRx m).2.2) rest).2))
      else if doTx && (s.rxArrive dt m rest).txTimeDriven then
        ((s.rxArrive dt m rest, { st with received := st.received + 1 }, true), [])
      else rxLoopT doTx (s.rxArrive dt m rest) { st with received := st.received + 1 } rest) := by
  rw [rxLoopT]
  unfold stAfter rxArrive
  simp only [emit]

theorem rxLoopT_ok (doTx : Bool) (l : List (Nat × CanMsg)) :
    ∀ (s : State) (st : Stats), MailboxInv s →
      MailboxExcl (rxLoopT doTx s st l).1.1 ∧
      ∀ k, TraceOk k → Handover (rxLoopT doTx s st l).1.1 k → TraceOk ((rxLoopT doTx s st l).2 ++ k) := by
  induction l with
  | nil =>
    intro s st h
    have h1 : MailboxInv ((({ s with inbox := [] } : State).emit (.rxNone s.now)).checkTimeoutsRx) :=
      checkTimeoutsRx_mail (s := ({ s with inbox := [] } : State).emit (.rxNone s.now)) h
    exact ⟨h1.excl, fun k hk _ => hk⟩
  | cons x rest ih =>
    intro s st h
    obtain ⟨dt, m⟩ := x
    rw [rxLoopT_cons]
    have ha := rxArrive_mail dt m rest h
    generalize s.rxArrive dt m rest = a at ha
    by_cases hme : a.addr.rx.isForMe m = true
    · simp only [hme, ↓reduceIte]
      cases hfc : fcOf a m with
      | some fc =>
        rw [processRx_fc hfc]
        simp only [↓reduceIte]
        refine ⟨fun hp => ?_, fun k hk hh => ?_⟩
        · simp only [ha.2] at hp; cases hp
        · refine ⟨ha, ?_, hk⟩
          intro fc' hfc'
          rw [hfc] at hfc'; cases hfc'; exact hh fc rfl
      | none =>
        have hl : (a.processRx m).1.lastFc = none := by
          rcases processRx_nonfc_lastFc hfc with h1 | h1
          · rw [h1]; exact ha.1
          · exact h1
        have hcall : ∀ k, TraceOk k → TraceOk (Call.rx a m :: k) := by
          intro k hk
          refine ⟨ha, ?_, hk⟩
          intro fc' hfc'
          rw [hfc] at hfc'; cases hfc'
        by_cases himm : (a.processRx m).2.1 = true
        · simp only [himm, ↓reduceIte]
          exact ⟨fun _ => hl, fun k hk _ => hcall k hk⟩
        · simp only [himm, Bool.false_eq_true, ↓reduceIte]
          by_cases htd : (doTx && (a.processRx m).1.txTimeDriven) = true
          · simp only [htd, ↓reduceIte]
            exact ⟨fun _ => hl, fun k hk _ => hcall k hk⟩
          · simp only [htd, Bool.false_eq_true, ↓reduceIte]
            have hp : (a.processRx m).1.pendingFc = false := by
              cases hpp : (a.processRx m).1.pendingFc with
              | false => rfl
              | true => exact absurd (processRx_pend_imm a m ha.2 hpp) himm
            obtain ⟨i1, i2⟩ := ih (a.processRx m).1 (stAfter st (a.processRx m).2.2) ⟨hl, hp⟩
            exact ⟨i1, fun k hk hh => hcall _ (i2 k hk hh)⟩
    · simp only [hme, Bool.false_eq_true, ↓reduceIte]
      by_cases htd : (doTx && a.txTimeDriven) = true
      · simp only [htd, ↓reduceIte]
        exact ⟨ha.excl, fun k hk _ => hk⟩
      · simp only [htd, Bool.false_eq_true, ↓reduceIte]
        exact ih a _ ha

/-! ### `txLoop` -/

/-- the state after the `txfn(msg)` step of the tx loop -/
def afterTxfn (r : State × Option CanMsg × Bool) : State :=
  match r.2.1 with
  | some m => r.1.emit (.tx r.1.now m)
  | none => r.1

theorem afterTxfn_mail {r : State × Option CanMsg × Bool} (h : MailboxInv r.1) : MailboxInv (afterTxfn r) := by
  unfold afterTxfn
  split
  · exact h
  · exact h

theorem txLoopT_ok (f : Nat) :
    ∀ (s : State) (n : Nat), MailboxExcl s →
      ((0 < f ∨ MailboxInv s) → MailboxInv (txLoopT f s n).1.1) ∧
      (∀ k, TraceOk k → TraceOk ((txLoopT f s n).2 ++ k)) ∧
      (0 < f → ∃ t, (txLoopT f s n).2 = .tx s :: t) := by
  induction f with
  | zero =>
    intro s n h
    refine ⟨fun h0 => ?_, fun k hk => hk, fun h0 => absurd h0 (Nat.lt_irrefl 0)⟩
    rcases h0 with h0 | h0
    · exact absurd h0 (Nat.lt_irrefl 0)
    · exact h0
  | succ f ih =>
    intro s n h
    have hm : MailboxInv (afterTxfn s.processTx) := afterTxfn_mail (processTx_mail h)
    have hm0 : MailboxInv s.processTx.1 := processTx_mail h
    have hcall : ∀ k, TraceOk k → TraceOk (Call.tx s :: k) := fun k hk => ⟨h, hk⟩
    unfold txLoopT
    simp only []
    change MailboxInv (afterTxfn s.processTx) at hm
    unfold afterTxfn at hm
    by_cases he : s.processTx.1.exc.isSome = true
    · simp only [he, ↓reduceIte]
      exact ⟨fun _ => hm0, fun k hk => hcall k hk, fun _ => ⟨[], rfl⟩⟩
    · simp only [he, Bool.false_eq_true, ↓reduceIte]
      by_cases himm : s.processTx.2.2 = true
      · simp only [himm, ↓reduceIte]
        exact ⟨fun _ => hm, fun k hk => hcall k hk, fun _ => ⟨[], rfl⟩⟩
      · simp only [himm, Bool.false_eq_true, ↓reduceIte]
        by_cases ho : s.processTx.2.1.isSome = true
        · simp only [ho, ↓reduceIte]
          obtain ⟨i1, i2, -⟩ := ih _ (match s.processTx.2.1 with | some _ => n + 1 | none => n) hm.excl
          exact ⟨fun _ => i1 (Or.inr hm), fun k hk => hcall _ (i2 k hk), fun _ => ⟨_, rfl⟩⟩
        · simp only [ho, Bool.false_eq_true, ↓reduceIte]
          exact ⟨fun _ => hm, fun k hk => hcall k hk, fun _ => ⟨[], rfl⟩⟩

/-! ### `processLoop` under the alternation discipline (`do_tx = true`) -/

theorem txFuel_pos (s : State) : 0 < s.txFuel := by
  unfold txFuel; omega

theorem rxStageT_ok (doRx doTx : Bool) (s : State) (st : Stats) (h : MailboxInv s) :
    MailboxExcl (rxStageT doRx doTx s st).1.1 ∧
    ∀ k, TraceOk k → Handover (rxStageT doRx doTx s st).1.1 k → TraceOk ((rxStageT doRx doTx s st).2 ++ k) := by
  unfold rxStageT
  split
  · exact rxLoopT_ok doTx s.inbox s st h
  · exact ⟨h.excl, fun k hk _ => hk⟩

/-- one `rxStage; rlStage; txStage` round: from `MailboxInv` to `MailboxInv`, with a good trace -/
theorem round_ok (doRx : Bool) (s : State) (st : Stats) (h : MailboxInv s) :
    MailboxInv (txStageT true (rlStage (rxStageT doRx true s st).1.1) (rxStageT doRx true s st).1.2.1.sent).1.1 ∧
    ∀ k, TraceOk k →
      TraceOk ((rxStageT doRx true s st).2 ++
        ((txStageT true (rlStage (rxStageT doRx true s st).1.1) (rxStageT doRx true s st).1.2.1.sent).2 ++ k)) := by
  obtain ⟨a1, a2⟩ := rxStageT_ok doRx true s st h
  generalize rxStageT doRx true s st = a at a1 a2
  have hx : MailboxExcl (rlStage a.1.1) := a1
  have hl : (rlStage a.1.1).lastFc = a.1.1.lastFc := rfl
  unfold txStageT
  simp only [↓reduceIte]
  obtain ⟨b1, b2, b3⟩ := txLoopT_ok (rlStage a.1.1).txFuel (rlStage a.1.1) a.1.2.1.sent hx
  obtain ⟨t, ht⟩ := b3 (txFuel_pos _)
  refine ⟨b1 (Or.inl (txFuel_pos _)), fun k hk => a2 _ (b2 k hk) ?_⟩
  intro fc hfc
  exact ⟨rlStage a.1.1, t ++ k, by rw [ht]; rfl, by rw [hl]; exact hfc⟩

/-- **Key invariant.** Under the alternation discipline (`do_tx = true`), from a state with an empty
    mailbox and no Flow Control pending, whatever the fuel, the inbox, `do_rx`: the state returned
    satisfies `MailboxInv` again and all the call points satisfy `TraceOk`. -/
theorem processLoopT_ok (f : Nat) (doRx : Bool) :
    ∀ (s : State) (st : Stats), MailboxInv s →
      MailboxInv (processLoopT f doRx true s st).1.1 ∧ TraceOk (processLoopT f doRx true s st).2 := by
  induction f with
  | zero => intro s st h; exact ⟨h, trivial⟩
  | succ f ih =>
    intro s st h
    obtain ⟨r1, r2⟩ := round_ok doRx s st h
    unfold processLoopT
    simp only []
    generalize rxStageT doRx true s st = a at r1 r2
    generalize txStageT true (rlStage a.1.1) a.1.2.1.sent = b at r1 r2
    have hfin : TraceOk (a.2 ++ b.2) := by
      have := r2 [] trivial
      simpa using this
    by_cases h1 : b.1.1.exc.isSome = true
    · simp only [h1, ↓reduceIte]; exact ⟨r1, hfin⟩
    · simp only [h1, Bool.false_eq_true, ↓reduceIte]
      by_cases h2 : b.1.2.2.2 = true
      · simp only [h2, ↓reduceIte]; exact ⟨r1, hfin⟩
      · simp only [h2, Bool.false_eq_true, ↓reduceIte]
        by_cases h3 : (startWithTx true s || a.1.2.2 || b.1.2.2.1) = true
        · simp only [h3, ↓reduceIte]
          obtain ⟨i1, i2⟩ := ih b.1.1 { a.1.2.1 with sent := b.1.2.1 } r1
          refine ⟨i1, ?_⟩
          rw [List.append_assoc]
          exact r2 _ i2
        · simp only [h3, Bool.false_eq_true, ↓reduceIte]; exact ⟨r1, hfin⟩

theorem processT_ok (s : State) (doRx : Bool) (h : MailboxInv s) :
    MailboxInv (processT s doRx true).1.1 ∧ TraceOk (processT s doRx true).2 :=
  processLoopT_ok _ _ _ _ h

theorem process_mail (s : State) (doRx : Bool) (h : MailboxInv s) : MailboxInv (s.process doRx true).1 := by
  rw [← processT_fst]; exact (processT_ok s doRx h).1

/-! ### What holds from ANY entry state (no `MailboxInv` assumed) -/

theorem afterTxfn_fields (r : State × Option CanMsg × Bool) :
    (afterTxfn r).lastFc = r.1.lastFc ∧ (afterTxfn r).pendingFc = r.1.pendingFc ∧
    (afterTxfn r).exc = r.1.exc := by
  unfold afterTxfn
  split <;> exact ⟨rfl, rfl, rfl⟩

theorem txLoopT_succ (f : Nat) (s : State) (n : Nat) :
    txLoopT (f + 1) s n =
      (if s.processTx.1.exc.isSome then ((s.processTx.1, n, false, false), [.tx s]) else
       if s.processTx.2.2 then
         ((afterTxfn s.processTx, (match s.processTx.2.1 with | some _ => n + 1 | none => n), true, false), [.tx s])
       else if s.processTx.2.1.isSome then
         ((txLoopT f (afterTxfn s.processTx) (match s.processTx.2.1 with | some _ => n + 1 | none => n)).1,
          .tx s :: (txLoopT f (afterTxfn s.processTx) (match s.processTx.2.1 with | some _ => n + 1 | none => n)).2)
       else
         ((afterTxfn s.processTx, (match s.processTx.2.1 with | some _ => n + 1 | none => n), false, false), [.tx s])) := by
  rfl

/-- an empty mailbox stays empty through the tx loop -/
theorem txLoopT_lastFc_none (f : Nat) :
    ∀ (s : State) (n : Nat), s.lastFc = none → (txLoopT f s n).1.1.lastFc = none := by
  induction f with
  | zero => intro s n h; exact h
  | succ f ih =>
    intro s n h
    have h1 : s.processTx.1.lastFc = none := by
      rcases processTx_lastFc s with h1 | ⟨-, h1, -⟩
      · exact h1
      · rw [h1]; exact h
    have h2 : (afterTxfn s.processTx).lastFc = none := by rw [(afterTxfn_fields _).1]; exact h1
    rw [txLoopT_succ]
    split
    · exact h1
    · split
      · exact h2
      · split
        · exact ih _ _ h2
        · exact h2

/-- **The tx loop and the mailbox.** After the tx loop (fuel > 0) the mailbox is empty — unless its first
    pass returned early behind a pending Flow Control: then the mailbox is unchanged and the loop has
    requested `run_process` (or an exception was raised). -/
theorem txLoopT_lastFc (f : Nat) (s : State) (n : Nat) :
    (txLoopT (f + 1) s n).1.1.lastFc = none ∨
    (s.pendingFc = true ∧ (txLoopT (f + 1) s n).1.1.lastFc = s.lastFc ∧
      ((txLoopT (f + 1) s n).1.2.2.1 = true ∨ (txLoopT (f + 1) s n).1.1.exc.isSome = true)) := by
  rcases processTx_lastFc s with h1 | ⟨hp, h1, h2⟩
  · left
    have h2 : (afterTxfn s.processTx).lastFc = none := by rw [(afterTxfn_fields _).1]; exact h1
    rw [txLoopT_succ]
    split
    · exact h1
    · split
      · exact h2
      · split
        · exact txLoopT_lastFc_none _ _ _ h2
        · exact h2
  · right
    refine ⟨hp, ?_⟩
    rw [txLoopT_succ]
    by_cases he : s.processTx.1.exc.isSome = true
    · rw [if_pos he]
      exact ⟨h1, Or.inr he⟩
    · have himm : s.processTx.2.2 = true := by
        rcases h2 with h2 | h2
        · exact h2
        · exact absurd h2 he
      rw [if_neg he, if_pos himm]
      exact ⟨by rw [(afterTxfn_fields _).1]; exact h1, Or.inl rfl⟩

theorem txLoopT_pendingFc (f : Nat) :
    ∀ (s : State) (n : Nat), (0 < f ∨ s.pendingFc = false) → (txLoopT f s n).1.1.pendingFc = false := by
  induction f with
  | zero =>
    intro s n h
    rcases h with h | h
    · exact absurd h (Nat.lt_irrefl 0)
    · exact h
  | succ f ih =>
    intro s n _
    have h1 := processTx_pendingFc s
    have h2 : (afterTxfn s.processTx).pendingFc = false := by rw [(afterTxfn_fields _).2.1]; exact h1
    rw [txLoopT_succ]
    split
    · exact h1
    · split
      · exact h2
      · split
        · exact ih _ _ (Or.inr h2)
        · exact h2

/-- with `do_tx = true`, no Flow Control is left pending at the end of `processLoop`, whatever the
    entry state (as soon as one round has run) -/
theorem processLoopT_pendingFc (f : Nat) (doRx : Bool) :
    ∀ (s : State) (st : Stats), (0 < f ∨ s.pendingFc = false) →
      (processLoopT f doRx true s st).1.1.pendingFc = false := by
  induction f with
  | zero =>
    intro s st h
    rcases h with h | h
    · exact absurd h (Nat.lt_irrefl 0)
    · exact h
  | succ f ih =>
    intro s st _
    unfold processLoopT
    simp only []
    generalize rxStageT doRx true s st = a
    have hb : (txStageT true (rlStage a.1.1) a.1.2.1.sent).1.1.pendingFc = false := by
      unfold txStageT
      simp only [↓reduceIte]
      exact txLoopT_pendingFc _ _ _ (Or.inl (txFuel_pos _))
    generalize txStageT true (rlStage a.1.1) a.1.2.1.sent = b at hb
    repeat' split
    all_goals first | exact hb | exact ih _ _ (Or.inr hb)

/-- with `do_tx = true`: if `processLoop` ends normally (fuel left, no exception), the mailbox is empty,
    whatever the entry state -/
theorem processLoopT_lastFc (f : Nat) (doRx : Bool) :
    ∀ (s : State) (st : Stats), (processLoopT f doRx true s st).1.2.2 = false →
      (processLoopT f doRx true s st).1.1.exc = none →
      (processLoopT f doRx true s st).1.1.lastFc = none := by
  induction f with
  | zero => intro s st h; cases h
  | succ f ih =>
    intro s st
    unfold processLoopT
    simp only []
    generalize rxStageT doRx true s st = a
    have hb := fun f' (hf : (rlStage a.1.1).txFuel = f' + 1) =>
      txLoopT_lastFc f' (rlStage a.1.1) a.1.2.1.sent
    have hbb : (txStageT true (rlStage a.1.1) a.1.2.1.sent) =
        txLoopT (rlStage a.1.1).txFuel (rlStage a.1.1) a.1.2.1.sent := by
      unfold txStageT; simp only [↓reduceIte]
    obtain ⟨f', hf'⟩ : ∃ f', (rlStage a.1.1).txFuel = f' + 1 :=
      ⟨(rlStage a.1.1).txFuel - 1, by have := txFuel_pos (rlStage a.1.1); omega⟩
    have hb' := hb f' hf'
    rw [← hf', ← hbb] at hb'
    generalize txStageT true (rlStage a.1.1) a.1.2.1.sent = b at hb'
    by_cases h1 : b.1.1.exc.isSome = true
    · simp only [h1, ↓reduceIte]
      intro _ he
      rw [he] at h1; cases h1
    · simp only [h1, Bool.false_eq_true, ↓reduceIte]
      by_cases h2 : b.1.2.2.2 = true
      · simp only [h2, ↓reduceIte]
        intro h; cases h
      · simp only [h2, Bool.false_eq_true, ↓reduceIte]
        by_cases h3 : (startWithTx true s || a.1.2.2 || b.1.2.2.1) = true
        · simp only [h3, ↓reduceIte]
          exact ih _ _
        · simp only [h3, Bool.false_eq_true, ↓reduceIte]
          intro _ _
          rcases hb' with hb' | ⟨-, -, hb' | hb'⟩
          · exact hb'
          · simp only [Bool.or_eq_true, not_or] at h3
            exact absurd hb' h3.2
          · exact absurd hb' h1

/-! ### `processTx` never touches the inbox; a tx-only pass never reads it -/

theorem stopSending_inbox (s : State) (b : Bool) : (s.stopSending b).inbox = s.inbox := by
  unfold stopSending
  cases s.active <;> simp [emit]

theorem handleFc_inbox (s : State) (fc : FcFrame) : (s.handleFc fc).inbox = s.inbox := by
  unfold handleFc
  grind [stopSending, State.error, emit, startRxFcTimer]

theorem startTx_inbox (s : State) (r : Req) (allowed : Nat) : (s.startTx r allowed).1.inbox = s.inbox := by
  unfold startTx
  grind (splits := 30) [Fc.consumeActive_fst, stopSending, State.error, emit, State.raise, startRxFcTimer,
    Timer.stop]

theorem readTxQueue_inbox (s : State) (allowed : Nat) (q : List Req) :
    (s.readTxQueue allowed q).1.inbox = s.inbox := by
  induction q generalizing s with
  | nil => rfl
  | cons r rest ih =>
    unfold readTxQueue
    simp only []
    split
    · rw [ih]; rfl
    · rw [startTx_inbox]

theorem transmitCf_inbox (s : State) (allowed : Nat) : (s.transmitCf allowed).1.inbox = s.inbox := by
  unfold transmitCf
  grind (splits := 30) [Fc.consumeActive_fst, stopSending, State.error, emit, State.raise, startRxFcTimer,
    Timer.startAt, Timer.stop]

theorem txPend_inbox (s : State) : s.txPend.1.inbox = s.inbox := by
  unfold txPend
  grind [State.raise, startRxCfTimer]

theorem txFc_inbox (s : State) : s.txFc.1.inbox = s.inbox := by
  unfold txFc
  grind [stopSending_inbox, handleFc_inbox, State.error, emit]

theorem txTimeout_inbox (s : State) : s.txTimeout.inbox = s.inbox := by
  unfold txTimeout
  grind [stopSending_inbox, State.error, emit]

theorem txFsm_inbox (s : State) (a : Nat) : (s.txFsm a).1.inbox = s.inbox := by
  unfold txFsm txFinish txCore txDeplete
  grind [stopSending_inbox, readTxQueue_inbox, transmitCf_inbox, State.error, emit, State.raise,
    startRxFcTimer]

theorem processTx_inbox (s : State) : s.processTx.1.inbox = s.inbox := by
  rw [State.processTx_eq]
  have h1 := txPend_inbox s
  generalize s.txPend = r at h1
  obtain ⟨s1, o⟩ := r
  simp only [] at h1
  match o with
  | some none => exact h1
  | some (some msg) => exact h1
  | none =>
    simp only []
    have h2 := txFc_inbox s1
    generalize s1.txFc = r2 at h2
    obtain ⟨s2, b⟩ := r2
    simp only [] at h2
    cases b
    · simp only []
      rw [txFsm_inbox, txTimeout_inbox, h2, h1]
    · simp only []
      rw [h2, h1]

theorem txLoopT_inbox (f : Nat) : ∀ (s : State) (n : Nat), (txLoopT f s n).1.1.inbox = s.inbox := by
  induction f with
  | zero => intro s n; rfl
  | succ f ih =>
    intro s n
    have h1 := processTx_inbox s
    have h2 : (afterTxfn s.processTx).inbox = s.inbox := by
      unfold afterTxfn
      split
      · exact h1
      · exact h1
    rw [txLoopT_succ]
    split
    · exact h1
    · split
      · exact h2
      · split
        · rw [ih]; exact h2
        · exact h2

/-- **A tx-only pass never reads the inbox**: `process(do_rx = false)` returns with the inbox as it was,
    and its call points are `processTx` calls only -/
theorem processLoopT_txOnly (f : Nat) (doTx : Bool) :
    ∀ (s : State) (st : Stats), (processLoopT f false doTx s st).1.1.inbox = s.inbox ∧
      ∀ c ∈ (processLoopT f false doTx s st).2, ∃ s', c = .tx s' := by
  induction f with
  | zero => intro s st; exact ⟨rfl, fun c hc => by cases hc⟩
  | succ f ih =>
    intro s st
    unfold processLoopT
    simp only []
    have ha : rxStageT false doTx s st = ((s, st, false), []) := by
      unfold rxStageT; simp
    rw [ha]
    simp only []
    have hb : (txStageT doTx (rlStage s) st.sent).1.1.inbox = s.inbox ∧
        ∀ c ∈ (txStageT doTx (rlStage s) st.sent).2, ∃ s', c = .tx s' := by
      unfold txStageT
      split
      · refine ⟨by rw [txLoopT_inbox]; rfl, ?_⟩
        generalize (rlStage s).txFuel = g
        generalize (rlStage s) = x
        generalize st.sent = n
        induction g generalizing x n with
        | zero => intro c hc; cases hc
        | succ g ihg =>
          rw [txLoopT_succ]
          intro c hc
          repeat' split at hc
          all_goals
            first
            | (simp only [List.mem_cons, List.not_mem_nil, or_false] at hc
               rcases hc with hc | hc
               · exact ⟨_, hc⟩
               · exact ihg _ _ c hc)
            | (simp only [List.mem_cons, List.not_mem_nil, or_false] at hc
               exact ⟨_, hc⟩)
      · exact ⟨rfl, fun c hc => by cases hc⟩
    generalize txStageT doTx (rlStage s) st.sent = b at hb
    obtain ⟨hb1, hb2⟩ := hb
    repeat' split
    all_goals
      first
      | exact ⟨hb1, fun c hc => by simpa using hb2 c (by simpa using hc)⟩
      | (obtain ⟨i1, i2⟩ := ih b.1.1 { st with sent := b.1.2.1 }
         refine ⟨by rw [i1]; exact hb1, fun c hc => ?_⟩
         simp only [List.nil_append, List.mem_append] at hc
         rcases hc with hc | hc
         · exact hb2 c hc
         · exact i2 c hc)

/-! ### Split processing: rx-only passes and tx-only passes must alternate -/

theorem rxLoopT_rxRun_false (l : List (Nat × CanMsg)) :
    ∀ (s : State) (st : Stats), (rxLoopT false s st l).1.2.2 = false := by
  induction l with
  | nil => intro s st; rfl
  | cons x rest ih =>
    intro s st
    obtain ⟨dt, m⟩ := x
    rw [rxLoopT_cons]
    simp only [Bool.false_and, Bool.false_eq_true, ↓reduceIte]
    split
    · split
      · rfl
      · exact ih _ _
    · exact ih _ _

/-- an rx-only pass `process(true, false)` from `MailboxInv` ends in `MailboxExcl`
    (a Flow Control may sit in the mailbox, or a Flow Control may be pending — never both) -/
theorem processLoopT_rxOnly_excl (f : Nat) (s : State) (st : Stats) (h : MailboxInv s) :
    MailboxExcl (processLoopT (f + 1) true false s st).1.1 := by
  unfold processLoopT
  simp only []
  have ha : rxStageT true false s st = rxLoopT false s st s.inbox := by
    unfold rxStageT startWithTx; simp
  have hx := (rxLoopT_ok false s.inbox s st h).1
  have hr := rxLoopT_rxRun_false s.inbox s st
  rw [ha]
  generalize rxLoopT false s st s.inbox = a at hx hr
  have hb : txStageT false (rlStage a.1.1) a.1.2.1.sent = ((rlStage a.1.1, a.1.2.1.sent, false, false), []) := by
    unfold txStageT; simp
  rw [hb]
  simp only [hr, startWithTx, Bool.false_and, Bool.or_self, Bool.false_eq_true, ↓reduceIte]
  split
  · exact hx
  · exact hx

/-- a tx-only pass `process(false, true)` from `MailboxExcl` ends in `MailboxInv` -/
theorem processLoopT_txOnly_mail (f : Nat) (s : State) (st : Stats) (h : MailboxExcl s) :
    MailboxInv (processLoopT (f + 1) false true s st).1.1 := by
  unfold processLoopT
  simp only []
  have ha : rxStageT false true s st = ((s, st, false), []) := by
    unfold rxStageT; simp
  rw [ha]
  simp only []
  have hb : MailboxInv (txStageT true (rlStage s) st.sent).1.1 := by
    unfold txStageT
    simp only [↓reduceIte]
    exact (txLoopT_ok _ (rlStage s) st.sent h).1 (Or.inl (txFuel_pos _))
  generalize txStageT true (rlStage s) st.sent = b at hb
  repeat' split
  all_goals first | exact hb | exact (processLoopT_ok f false _ _ hb).1

theorem processFuel_pos (s : State) : ∃ f, s.processFuel = f + 1 :=
  ⟨s.processFuel - 1, by unfold processFuel; omega⟩

theorem process_rxOnly_excl (s : State) (h : MailboxInv s) : MailboxExcl (s.process true false).1 := by
  obtain ⟨f, hf⟩ := processFuel_pos s
  unfold State.process
  rw [hf, ← processLoopT_fst]
  exact processLoopT_rxOnly_excl f s {} h

theorem process_txOnly_mail (s : State) (h : MailboxExcl s) : MailboxInv (s.process false true).1 := by
  obtain ⟨f, hf⟩ := processFuel_pos s
  unfold State.process
  rw [hf, ← processLoopT_fst]
  exact processLoopT_txOnly_mail f s {} h

/-! ### Reachable states -/

/-- states reachable from a freshly constructed layer by the public operations and the two harness
    operations (`advance` = time passes, `pushFrame` = the bus delivers a frame); any `process` flags -/
inductive Reach : State → Prop
  | init (c : Cfg) (a : Addr) : Reach (State.init c a)
  | send {s} (a : SendArgs) : Reach s → Reach (s.send a).1
  | recv {s} : Reach s → Reach s.recv.1
  | process {s} (doRx doTx : Bool) : Reach s → Reach (s.process doRx doTx).1
  | stopSending {s} (ok : Bool) : Reach s → Reach (s.stopSending ok)
  | stopReceiving {s} : Reach s → Reach s.stopReceiving
  | reset {s} : Reach s → Reach s.reset
  | advance {s} (dt : Nat) : Reach s → Reach (s.advance dt)
  | pushFrame {s} (dt : Nat) (m : CanMsg) : Reach s → Reach (s.pushFrame dt m)

/-- the same under `H-dotx`: every `process` call has `do_tx = true` (full passes `process(true, true)`
    and transmit-only passes `process(false, true)`) -/
inductive ReachTx : State → Prop
  | init (c : Cfg) (a : Addr) : ReachTx (State.init c a)
  | send {s} (a : SendArgs) : ReachTx s → ReachTx (s.send a).1
  | recv {s} : ReachTx s → ReachTx s.recv.1
  | process {s} (doRx : Bool) : ReachTx s → ReachTx (s.process doRx true).1
  | stopSending {s} (ok : Bool) : ReachTx s → ReachTx (s.stopSending ok)
  | stopReceiving {s} : ReachTx s → ReachTx s.stopReceiving
  | reset {s} : ReachTx s → ReachTx s.reset
  | advance {s} (dt : Nat) : ReachTx s → ReachTx (s.advance dt)
  | pushFrame {s} (dt : Nat) (m : CanMsg) : ReachTx s → ReachTx (s.pushFrame dt m)

theorem ReachTx.reach {s : State} (h : ReachTx s) : Reach s := by
  induction h with
  | init c a => exact .init c a
  | send a _ ih => exact .send a ih
  | recv _ ih => exact .recv ih
  | process doRx _ ih => exact .process doRx true ih
  | stopSending ok _ ih => exact .stopSending ok ih
  | stopReceiving _ ih => exact .stopReceiving ih
  | reset _ ih => exact .reset ih
  | advance dt _ ih => exact .advance dt ih
  | pushFrame dt m _ ih => exact .pushFrame dt m ih

theorem MailboxInv_send {s : State} (a : SendArgs) (h : MailboxInv s) : MailboxInv (s.send a).1 := by
  unfold send
  simp only []
  repeat' split
  all_goals exact h

theorem MailboxInv_recv {s : State} (h : MailboxInv s) : MailboxInv s.recv.1 := by
  unfold recv
  split
  · exact h
  · exact h

theorem MailboxInv_stopSending {s : State} (ok : Bool) (h : MailboxInv s) : MailboxInv (s.stopSending ok) := by
  have := Fc.stopSending_misc s ok
  exact ⟨by rw [this.1]; exact h.1, by rw [this.2.1]; exact h.2⟩

theorem MailboxInv_stopReceiving (s : State) : MailboxInv s.stopReceiving := ⟨rfl, rfl⟩

theorem MailboxInv_reset (s : State) : MailboxInv s.reset := ⟨rfl, rfl⟩

/-- **Under `H-dotx` the mailbox is empty and no Flow Control is pending between any two operations.** -/
theorem ReachTx.mailboxInv {s : State} (h : ReachTx s) : MailboxInv s := by
  induction h with
  | init c a => exact ⟨rfl, rfl⟩
  | send a _ ih => exact MailboxInv_send a ih
  | recv _ ih => exact MailboxInv_recv ih
  | process doRx _ ih => exact process_mail _ doRx ih
  | stopSending ok _ ih => exact MailboxInv_stopSending ok ih
  | stopReceiving _ _ => exact MailboxInv_stopReceiving _
  | reset _ _ => exact MailboxInv_reset _
  | advance dt _ ih => exact ih
  | pushFrame dt m _ ih => exact ih

theorem Reach.txWf {s : State} (h : Reach s) : Fc.TxWf s := by
  induction h with
  | init c a => exact Fc.TxWf_init c a
  | send a _ ih => exact Fc.TxWf_send _ a ih
  | recv _ ih =>
    unfold State.recv
    split
    · exact ih
    · exact ih
  | process doRx doTx _ ih => exact Fc.process_stable Fc.TxWf_loopStable _ doRx doTx ih
  | stopSending ok _ _ => exact Fc.TxWf_stopSending _ ok
  | stopReceiving _ ih => exact Fc.TxWf_stopReceiving _ ih
  | reset _ _ => exact Fc.TxWf_reset _
  | advance dt _ ih => exact Fc.TxWf_advance _ dt ih
  | pushFrame dt m _ ih => exact ih

theorem Reach.timerInv {s : State} (h : Reach s) : TimerInv s := by
  induction h with
  | init c a => exact TimerInv_init c a
  | send a _ ih => exact TimerInv_send _ a ih
  | recv _ ih => exact TimerInv_recv _ ih
  | process doRx doTx _ ih => exact TimerInv_loopInv.process doRx doTx _ ih
  | stopSending ok _ ih => exact TimerInv_stopSending _ ok ih
  | stopReceiving _ ih => exact TimerInv_stopReceiving _ ih
  | reset _ ih => exact TimerInv_reset _ ih
  | advance dt _ ih => exact TimerInv_advance _ dt ih
  | pushFrame dt m _ ih => exact TimerInv_pushFrame _ dt m ih

end Isotp.Duplex
