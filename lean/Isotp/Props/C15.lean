import Isotp.Proofs.Limiter
/-
  C15 — "Rate limiter bounds bursts and never stalls a transfer."

  Notation: W = `cfg.rlWindowNs` (rate_limit_window_size), S = `slotNs` (the limiter's 5 ms
  accounting slot), M = `cfg.rlBitMax` (rate_limit_max_bitrate × rate_limit_window_size).

  Helper lemmas, the abstract limiter run (`Step`, `Valid`, `emissions`, `bitsIn`), the
  decomposition of `processTx` and the ghost frame lists of `txLoop` / `processLoop`
  (`txLoopFrames`, `processLoopFrames`, `Session`) live in Isotp/Proofs/Limiter.lean.

  Findings (details next to the theorems):
  * the bound that holds is  M + 8·(P − 1)  bits for a largest CAN payload of P bytes (P = 64:
    M + 504), i.e. "M plus one CAN frame" is respected; the slack is really needed
    (`slack_needed`, `slack_needed_model`): the admission test compares the *unpadded* length
    while the *padded* length is accounted;
  * the window length W − S of the property is sharp (`window_sharp`): for an interval 1 ns longer
    the limiter lets through almost 2·M bits;
  * Flow Control frames are neither checked nor accounted (`admission`, first alternative);
  * `reset()` empties the limiter, so the bound is about reset-free sessions (`Session`).
-/
namespace Isotp.C15
open Isotp State

/-! ### concrete states used by the non-vacuity examples -/

def exHalf : Half :=
  { mode := .n11, txid := some 0x123, rxid := some 0x456, ta := none, sa := none, ae := none
    physId := 0, funcId := 0, rxOnly := false, txOnly := false }
def exAddr : Addr := { tx := exHalf, rx := exHalf }
/-- limiter enabled: 100 bits per 100 ms window, classic CAN -/
def exCfg : Cfg := { rlEnable := true, rlWindowNs := 100000000, rlBitMax := 100 }

def ex0 : State := State.init exCfg exAddr
def ex1 : State := (ex0.send { id := 1, size := 7, src := [1, 2, 3, 4, 5, 6, 7] }).1
def ex2 : State := (ex1.send { id := 2, size := 7, src := [8, 9, 10, 11, 12, 13, 14] }).1
def ex3 : State := (ex2.process true true).1
def ex4 : State := ((ex3.advance 100000001).process true true).1

/-- limiter disabled (the default configuration) -/
def exOff : State := (((State.init {} exAddr).send { id := 1, size := 7, src := [1, 2, 3, 4, 5, 6, 7] }).1.process
  true true).1
/-- the state between the two passes of `ex2.process`: first frame sent, second request queued -/
def exPark : State := ex2.processTx.1
/-- a state that is due to send a Consecutive Frame -/
def exCf : State :=
  { (State.init exCfg exAddr) with
    txState := .transmitCf, remoteBs := some 0,
    active := some { id := 1, size := 20, src := [7, 8, 9, 10, 11, 12, 13, 14], consumed := 6 },
    timerStmin := { start := some 0, timeout := 0 } }

instance (s : State) : Decidable (NoStandbySt s) := by unfold NoStandbySt; infer_instance

theorem standbyOk_of_none (s : State) (h : s.standby = none) : StandbyOk s := by
  intro m hm; rw [h] at hm; cases hm

/-! ## 1. Limiter bookkeeping invariants -/

/-- what `LimInv` says: `bitTotal` is the sum of the slot counters, the slots are sorted by start
    time, and consecutive slots start more than one accounting slot (5 ms) apart -/
theorem limInv_meaning (l : Limiter) (h : LimInv l) :
    l.bitTotal = (l.slots.map (·.2)).sum ∧
    l.slots.Pairwise (fun a b => a.1 ≤ b.1) ∧
    ∀ i (hi : i + 1 < l.slots.length), l.slots[i].1 + slotNs < l.slots[i + 1].1 :=
  ⟨h.total, h.sorted, h.consecutive⟩

/-- `LimInv` holds for the fresh limiter and is preserved by `update`, `inform`
    (`inform_byte_sent`) and `reset` -/
theorem limInv_preserved :
    (∀ en, LimInv { enabled := en }) ∧
    (∀ l w now, LimInv l → LimInv (l.update w now)) ∧
    (∀ l now n, LimInv l → LimInv (l.inform now n)) ∧
    (∀ l : Limiter, LimInv l.reset) :=
  ⟨limInv_init, limInv_update, limInv_inform, limInv_reset⟩

/-- hence the limiter of every reachable layer state satisfies it -/
theorem limInv_session {c : Cfg} {ad : Addr} {s : State} {F : List (Nat × CanMsg × Bool)}
    (h : Session c ad s F) : LimInv s.rl := by
  obtain ⟨steps, _, _, e, _⟩ := (session_loopSpec h).run
  rw [e]
  exact limInv_execAll _ _ _ (limInv_init _)

example : LimInv { enabled := true, slots := [(0, 64), (6000000, 128)], bitTotal := 192 } :=
  ⟨rfl, by simp [Gapped, slotNs]⟩

/-! ## 2. With the limiter disabled no frame is ever held back -/

/-- the disabled limiter: unlimited allowance, `inform` is the identity, `update` resets -/
theorem disabled_limiter (l : Limiter) (h : l.enabled = false) :
    (∀ m, l.allowedBytes m = 0xFFFFFFFF) ∧ (∀ now n, l.inform now n = l) ∧
    (∀ w now, l.update w now = l.reset) :=
  ⟨fun m => allowedBytes_disabled l m h, fun now n => inform_disabled l now n h,
   fun w now => update_disabled l w now h⟩

/-- `startTx` never parks a frame when at least 64 bytes are allowed (in particular with
    `allowed = noLimit`): the unpadded frame length is at most 64 because `makeTxMsg` succeeded -/
theorem disabled_startTx_never_parks (s : State) (r : Req) (a : Nat) (ha : 64 ≤ a)
    (hn : NoStandbySt s) : NoStandbySt (s.startTx r a).1 :=
  (startTx_spec s r a).2.2.2 ha hn

example : (64 : Nat) ≤ noLimit ∧ NoStandbySt ex2 := by decide +kernel

/-- … and a due Consecutive Frame is never withheld -/
theorem disabled_cf_never_held (s : State) (h : s.cfg.txDl ≤ noLimit) : ¬ cfHeld s noLimit :=
  not_cfHeld_of_le s noLimit h

/-- one `processTx` pass with the limiter disabled never enters `sfStandby` / `ffStandby` -/
theorem disabled_never_holds (s : State) (hsb : StandbyOk s) (hd : s.rl.enabled = false)
    (hn : NoStandbySt s) : NoStandbySt s.processTx.1 ∧ s.processTx.1.rl.enabled = false := by
  have hp := processTx_spec s hsb
  refine ⟨hp.noStandby (by rw [allowedBytes_disabled _ _ hd]; decide) hn, ?_⟩
  rcases hp.kind with ⟨_, h⟩ | ⟨_, _, _, _, _, _, _, h⟩ | ⟨_, _, _, _, h, _⟩ <;> rw [h]
  · exact hd
  · exact hd
  · simpa using hd

example : StandbyOk (State.init {} exAddr) ∧ (State.init {} exAddr).rl.enabled = false ∧
    NoStandbySt (State.init {} exAddr) :=
  ⟨standbyOk_of_none _ rfl, rfl, by decide⟩

/-- over whole sessions: with `rate_limit_enable = False`, `is_tx_throttled()` is never true -/
theorem disabled_never_throttled {c : Cfg} {ad : Addr} {s : State} {F : List (Nat × CanMsg × Bool)}
    (h : Session c ad s F) (hd : c.rlEnable = false) : s.isTxThrottled = false := by
  have := (session_loopSpec h).noStandby (by simpa [State.init] using hd)
    (by simp [NoStandbySt, State.init])
  unfold NoStandbySt at this
  simp [isTxThrottled, this.1, this.2]

example : (∃ F, Session {} exAddr exOff F) ∧ ({} : Cfg).rlEnable = false ∧
    (txEvents exOff.log).length = 1 :=
  ⟨⟨_, .process true true (.send _ .init)⟩, rfl, by decide +kernel⟩

/-! ## 3. Admission test and accounting -/

/-- Every frame that a `processTx` pass outputs is
    * either the Flow Control frame of the pending-FC branch — it is neither checked against the
      limiter nor accounted (`rl` unchanged);
    * or a data frame of the transmit state machine: a length `len ≥ 1` was compared with
      `allowed_bytes()` (so `bit_total + 8·len ≤ M` when enabled), the padded CAN payload has
      1 … 64 bytes and exactly that padded length is accounted by `inform_byte_sent`. -/
theorem admission (s : State) (hsb : StandbyOk s) (msg : CanMsg) (hout : s.processTx.2.1 = some msg) :
    (s.pendingFc = true ∧ s.cfg.listen = false ∧
      (∃ st, s.pendingFcStatus = some st ∧ makeFlowControl s.cfg s.addr st = some msg) ∧
      s.processTx.1.rl = s.rl) ∨
    ((s.pendingFc = false ∨ s.cfg.listen = true) ∧
      (∃ len, 1 ≤ len ∧ len ≤ s.rl.allowedBytes s.cfg.rlBitMax ∧
        (s.rl.enabled = true → s.rl.bitTotal + 8 * len ≤ s.cfg.rlBitMax)) ∧
      1 ≤ msg.data.length ∧ msg.data.length ≤ 64 ∧
      s.processTx.1.rl = s.rl.inform s.now msg.data.length ∧
      (s.rl.enabled = true → s.processTx.1.rl.bitTotal = s.rl.bitTotal + 8 * msg.data.length)) := by
  have hp := processTx_spec s hsb
  rcases hp.kind with ⟨h, _⟩ | ⟨st, m, h1, h2, h3, h4, h5, h6⟩ | ⟨m, h1, h2, ⟨len, a1, a2, a3, a4⟩, h4, _⟩
  · rw [h] at hout; simp at hout
  · have : m = msg := by rw [h5] at hout; simpa using hout
    subst this
    exact Or.inl ⟨h1, h2, ⟨st, h3, h4⟩, h6⟩
  · have : m = msg := by rw [h2] at hout; simpa using hout
    subst this
    refine Or.inr ⟨h1, ⟨len, a1, a2, fun hen => admitted_fits _ _ _ hen a1 a2⟩, a3, a4, h4, ?_⟩
    intro hen
    rw [h4, inform_bitTotal _ _ _ hen]

/-- a pass that outputs a data frame (second alternative) -/
example : StandbyOk ex2 ∧ ex2.processTx.2.1.isSome = true ∧ ex2.pendingFc = false :=
  ⟨standbyOk_of_none _ (by decide +kernel), by decide +kernel, by decide +kernel⟩

/-- the length compared for a new Single / First Frame is its unpadded length: `startTx` sends
    the frame built by `buildTx` iff that length is allowed -/
theorem admission_startTx (s : State) (r : Req) (a : Nat) (msg : CanMsg)
    (h : (s.startTx r a).2 = some msg) :
    ∃ s1 len, (buildTx s r = .sf s1 len msg ∨ buildTx s r = .ff s1 len msg) ∧ len ≤ a ∧
      1 ≤ len ∧ len ≤ msg.data.length ∧ msg.data.length ≤ 64 := by
  have hb := buildTx_spec s r
  rw [startTx_eq] at h
  rcases hbt : buildTx s r with s' | ⟨s1, len, m⟩ | ⟨s1, len, m⟩ <;> rw [hbt] at h hb <;>
    simp only [dispatch, BuiltOk] at h hb
  · simp at h
  · split at h
    · simp at h
    · simp at h; subst h
      exact ⟨s1, len, Or.inl rfl, by omega, hb.2.2.2⟩
  · split at h
    · simp at h; subst h
      exact ⟨s1, len, Or.inr rfl, by omega, hb.2.2.2⟩
    · simp at h

/-- for a Consecutive Frame the compared length is the payload length
    `min (tx_data_length − 1 − prefix) remaining`: a frame is output only if it is allowed -/
theorem admission_cf (s : State) (a : Nat) (msg : CanMsg) (h : (s.transmitCf a).2.1 = some msg) :
    ¬ cfHeld s a := by
  intro hh
  rw [transmitCf_held s a hh] at h
  simp at h

example : (ex1.startTx { id := 1, size := 7, src := [1, 2, 3, 4, 5, 6, 7] } 12).2.isSome = true ∧
    (exCf.transmitCf 7).2.1.isSome = true := by decide +kernel

/-! ## 4. The window bound -/

/-- **Window bound** (abstract limiter run). Start from the empty enabled limiter; perform any
    sequence of `update`s and admitted emissions with non-decreasing time stamps (`update` need
    not be called between emissions, exactly as `txLoop` calls `processTx` repeatedly). Then the
    bits accounted for the emissions made at times in any interval `[a, b]` with
    `b − a ≤ W − S` (written `b + S ≤ a + W`) are at most `M + 8·(P − 1)`, `P` = largest padded
    CAN payload. -/
theorem window_bound (w m p : Nat) (steps : List Step)
    (hv : Valid w m p { enabled := true } 0 steps) (a b : Nat) (hab : b + slotNs ≤ a + w) :
    bitsIn a b (emissions steps) ≤ m + 8 * (p - 1) := by
  simpa using window_core w m p a b hab { enabled := true } 0 steps 0 rfl hv (wInv_empty true)

/-- the same with the interval length written with (truncated) subtraction -/
theorem window_bound_sub (w m p : Nat) (steps : List Step)
    (hv : Valid w m p { enabled := true } 0 steps) (hw : slotNs ≤ w) (a b : Nat)
    (hab : b - a ≤ w - slotNs) : bitsIn a b (emissions steps) ≤ m + 8 * (p - 1) :=
  window_bound w m p steps hv a b (by omega)

/-- a run: two slots, the second burst is throttled to what is left of M = 1000 bits -/
def exRun : List Step :=
  [.update 0, .emit 0 8 8, .emit 0 8 8, .update 1000000, .emit 1000000 61 64, .update 7000000,
   .emit 7000000 7 8, .update 120000000, .emit 120000000 60 64]

example : Valid 100000000 1000 64 { enabled := true } 0 exRun := by decide +kernel
example : bitsIn 0 95000000 (emissions exRun) = 704 := by decide +kernel

/-- the "plus one CAN frame" slack is needed: two 2-byte frames padded to 64 bytes pass the
    admission test back to back and put 1024 > M = 1000 bits on the bus at the same instant -/
theorem slack_needed :
    Valid 100000000 1000 64 { enabled := true } 0 [.emit 0 2 64, .emit 0 2 64] ∧
    bitsIn 0 0 (emissions [.emit 0 2 64, .emit 0 2 64]) = 1024 := by decide +kernel

/-- the interval length `W − S` is sharp: W = 100 ms, M = 1000. A slot opened at t = 0 collects
    15 frames sent at t = 5 ms and expires at t = W + 1 ns, where 15 more frames are admitted:
    1920 bits > M + 8·(P − 1) = 1056 inside an interval of length W − S + 1 ns -/
def exSharp : List Step :=
  [.emit 0 1 1] ++ List.replicate 15 (.emit 5000000 8 8) ++ [.update 100000001] ++
    List.replicate 15 (.emit 100000001 8 8)

theorem window_sharp :
    Valid 100000000 1000 8 { enabled := true } 0 exSharp ∧
    100000001 + slotNs = 5000000 + 100000000 + 1 ∧
    bitsIn 5000000 100000001 (emissions exSharp) = 1920 := by decide +kernel

/-- **Window bound for the model.** In any reset-free session of a layer with the limiter
    enabled, the data-field bits of the data frames (Single / First / Consecutive Frames: the
    `true`-tagged entries of `F`) handed to `txfn` at times in an interval `[a, b]` no longer than
    W − S never exceed `M + 8·63` (< M plus one 64-byte CAN frame). -/
theorem window_bound_session {c : Cfg} {ad : Addr} {s : State} {F : List (Nat × CanMsg × Bool)}
    (h : Session c ad s F) (hen : c.rlEnable = true) (a b : Nat) (hab : b + slotNs ≤ a + c.rlWindowNs) :
    bitsIn a b (dataBits F) ≤ c.rlBitMax + 8 * 63 := by
  obtain ⟨steps, v, _, _, em⟩ := (session_loopSpec h).run
  have hrl : (State.init c ad).rl = { enabled := true } := by simp [State.init, hen]
  have hc : (State.init c ad).cfg = c := rfl
  have hn : (State.init c ad).now = 0 := rfl
  rw [hrl, hc, hn] at v
  rw [← em]
  exact window_bound _ _ 64 steps v a b hab

/-- `F` is exactly what the harness saw on `txfn`: the `Ev.tx` events of the log (newest first)
    are the frames of `F`; the frames tagged `false` are Flow Control frames built by
    `_make_flow_control`, all others come from the transmit state machine. -/
theorem session_frames {c : Cfg} {ad : Addr} {s : State} {F : List (Nat × CanMsg × Bool)}
    (h : Session c ad s F) :
    txEvents s.log = (allFrames F).reverse ∧
    ∀ x ∈ F, x.2.2 = false → ∃ st, makeFlowControl c ad st = some x.2.1 := by
  have hl := session_loopSpec h
  exact ⟨by simpa [State.init, txEvents] using hl.txlog, hl.fcs⟩

/-- every `process()` call is a limiter run: one `update` at the start of each tx phase, then only
    admitted emissions at that same time (`rl` changes in no other way) -/
theorem processLoop_is_run (f : Nat) (doRx doTx : Bool) (s : State) (st : Stats) (hsb : StandbyOk s) :
    ∃ steps, Valid s.cfg.rlWindowNs s.cfg.rlBitMax 64 s.rl s.now steps ∧
      (processLoop f doRx doTx s st).1.rl = execAll s.cfg.rlWindowNs s.rl steps ∧
      emissions steps = dataBits (processLoopFrames f doRx doTx s st) := by
  obtain ⟨steps, v, _, e, em⟩ := (processLoop_spec f doRx doTx s st hsb).run
  exact ⟨steps, v, e, em⟩

/-- `reset()` is the only other writer of the limiter: it empties it -/
theorem reset_limiter (s : State) : s.reset.rl.slots = [] ∧ s.reset.rl.bitTotal = 0 :=
  ⟨rfl, rfl⟩

/-! ### the concrete session `ex0 … ex4`: throttling, then release -/

example : exCfg.valid = true := by decide
/-- the second Single Frame is parked … -/
example : ex3.isTxThrottled = true ∧ (txEvents ex3.log).length = 1 ∧ ex3.rl.bitTotal = 64 := by
  decide +kernel
/-- … and released unchanged once the window has passed -/
example : ex4.isTxThrottled = false ∧
    (txEvents ex4.log).map (fun x => (x.1, x.2.data)) =
      [(100000001, [7, 8, 9, 10, 11, 12, 13, 14]), (0, [7, 1, 2, 3, 4, 5, 6, 7])] := by
  decide +kernel

example : ∃ F, Session exCfg exAddr ex4 F :=
  ⟨_, .process true true (.advance 100000001 (.process true true (.send _ (.send _ .init))))⟩

/-- the slack is needed in the model too: CAN FD, `tx_data_min_length = 64`, M = 1000; two
    1-byte messages are sent as two 64-byte frames at the same instant: 1024 bits > M -/
def exCfgFd : Cfg :=
  { rlEnable := true, rlWindowNs := 100000000, rlBitMax := 1000, txDl := 64, txMinLen := some 64,
    canFd := true }
def exFd : State :=
  ((((State.init exCfgFd exAddr).send { id := 1, size := 1, src := [1] }).1.send
    { id := 2, size := 1, src := [2] }).1.process true true).1

theorem slack_needed_model :
    exCfgFd.valid = true ∧
    (txEvents exFd.log).map (fun x => (x.1, x.2.data.length)) = [(0, 64), (0, 64)] ∧
    exFd.rl.bitTotal = 1024 := by decide +kernel

/-! ## 5. Progress: throttling never stalls -/

/-- `update` only removes: what remains is a suffix of the old slot list and the total does not
    grow -/
theorem update_only_removes (l : Limiter) (w now : Nat) :
    (l.update w now).slots <:+ l.slots ∧ (l.update w now).bitTotal ≤ l.bitTotal :=
  ⟨update_slots_suffix l w now, update_bitTotal_le l w now⟩

/-- once every slot is older than the window (it suffices that the newest one is), `update`
    empties the limiter and a full frame is allowed again: `allowed_bytes() ≥ tx_data_length` -/
theorem progress_allowed (l : Limiter) (c : Cfg) (now : Nat) (hen : l.enabled = true)
    (hinv : LimInv l) (hv : c.valid = true)
    (h : ∀ z, l.slots.getLast? = some z → z.1 + c.rlWindowNs < now) :
    (l.update c.rlWindowNs now).slots = [] ∧ (l.update c.rlWindowNs now).bitTotal = 0 ∧
    c.txDl ≤ (l.update c.rlWindowNs now).allowedBytes c.rlBitMax :=
  have hall := all_expired_of_last l c.rlWindowNs now hinv h
  ⟨(update_all_expired l _ now hen hinv hall).1, (update_all_expired l _ now hen hinv hall).2,
   allowed_after_expiry l c now hen hinv hv hall⟩

example : 8 ≤ (({ enabled := true, slots := [(0, 64), (6000000, 128)], bitTotal := 192 } : Limiter).update
    100000000 106000001).allowedBytes 100 :=
  (progress_allowed { enabled := true, slots := [(0, 64), (6000000, 128)], bitTotal := 192 } exCfg 106000001
    rfl ⟨rfl, by simp [Gapped, slotNs]⟩ (by decide)
    (by intro z hz; simp at hz; subst hz; decide)).2.2

/-- a frame is parked only if it fits `tx_data_length` (so it will be allowed after an idle window) -/
theorem progress_parked_fits (s : State) (r : Req) (a : Nat) (hv : s.cfg.valid = true)
    (hn : NoStandbySt s)
    (hst : (s.startTx r a).1.txState = .sfStandby ∨ (s.startTx r a).1.txState = .ffStandby) :
    ∃ msg, (s.startTx r a).1.standby = some msg ∧ msg.data.length ≤ s.cfg.txDl :=
  startTx_parked_le s r a hv hn hst

/-- `exPark`: the second request of the example session is parked by `startTx` -/
example : exPark.cfg.valid = true ∧ NoStandbySt exPark ∧
    (exPark.startTx { id := 2, size := 7, src := [8, 9, 10, 11, 12, 13, 14] } 4).1.txState = .sfStandby := by
  decide +kernel

/-- a parked frame is released by the next `processTx` pass in which it is allowed -/
theorem progress_standby_released (s : State) (msg : CanMsg)
    (hst : s.txState = .sfStandby ∨ s.txState = .ffStandby) (hsb : s.standby = some msg)
    (hfit : msg.data.length ≤ s.rl.allowedBytes s.cfg.rlBitMax)
    (hpf : s.pendingFc = false) (hfc : s.lastFc = none) (hto : s.timerFc.timedOut s.now = false)
    (hact : s.active.isSome = true) (hexc : s.exc = none) :
    s.processTx.2.1 = some msg ∧ s.processTx.1.standby = none ∧ NoStandbySt s.processTx.1 :=
  have h := standby_released s msg hst hsb hfit hpf hfc hto hact hexc
  ⟨h.1, h.2.1, h.2.2.1⟩

/-- the parked state `ex3` satisfies the hypotheses after the clock advance (the limiter is
    updated by `processLoop` before the pass) -/
example :
    let s := { ex3.advance 100000001 with rl := ex3.rl.update ex3.cfg.rlWindowNs (ex3.now + 100000001) }
    (s.txState = .sfStandby) ∧ s.standby.map (·.data.length) = some 8 ∧ s.pendingFc = false ∧
    s.lastFc = none ∧
    s.timerFc.timedOut s.now = false ∧ s.active.isSome = true ∧ s.exc = none ∧
    s.rl.allowedBytes s.cfg.rlBitMax = 12 := by decide +kernel

/-- with `allowed ≥ tx_data_length` a due Consecutive Frame is not withheld and a new
    transmission starts exactly as without limiter -/
theorem progress_full_frame_allowed (s : State) (a : Nat) (hv : s.cfg.valid = true)
    (ha : s.cfg.txDl ≤ a) :
    ¬ cfHeld s a ∧ s.transmitCf a = s.transmitCf noLimit ∧ ∀ r, s.startTx r a = s.startTx r noLimit := by
  have h64 := (valid_txDl s.cfg hv).2.1
  have hno : ¬ cfHeld s noLimit := not_cfHeld_of_le s noLimit (by unfold noLimit; omega)
  exact ⟨not_cfHeld_of_le s a ha, transmitCf_indep s a noLimit (not_cfHeld_of_le s a ha) hno,
    fun r => startTx_unthrottled s r a hv ha⟩

example : exCfg.valid = true ∧ exCfg.txDl ≤ 12 := by decide

/-! ## 6. Throttling only delays: frame contents never depend on the limiter -/

/-- `startTx`: the frame is built by `buildTx`, which does not see the limiter; the limiter only
    chooses between sending and parking it (`dispatch`) -/
theorem delay_only_startTx (s : State) (r : Req) (a : Nat) :
    s.startTx r a = dispatch a (buildTx s r) ∧
    (s.startTx r a = s.startTx r noLimit ∨
      ∃ msg, (s.startTx r noLimit).2 = some msg ∧ (s.startTx r a).2 = none ∧
        (s.startTx r a).1.standby = some msg ∧
        ((s.startTx r a).1.txState = .sfStandby ∨ (s.startTx r a).1.txState = .ffStandby)) :=
  ⟨startTx_eq s r a, startTx_delay_only s r a⟩

/-- the standby branch outputs exactly the parked message and accounts its length -/
theorem delay_only_release (s : State) (msg : CanMsg)
    (hst : s.txState = .sfStandby ∨ s.txState = .ffStandby) (hsb : s.standby = some msg)
    (hfit : msg.data.length ≤ s.rl.allowedBytes s.cfg.rlBitMax)
    (hpf : s.pendingFc = false) (hfc : s.lastFc = none) (hto : s.timerFc.timedOut s.now = false)
    (hact : s.active.isSome = true) (hexc : s.exc = none) :
    s.processTx.2.1 = some msg ∧ s.processTx.1.rl = s.rl.inform s.now msg.data.length :=
  have h := standby_released s msg hst hsb hfit hpf hfc hto hact hexc
  ⟨h.1, h.2.2.2⟩

/-- a withheld Consecutive Frame leaves the state untouched (nothing is pulled from the
    generator), and the limiter influences `transmitCf` only through that test -/
theorem delay_only_cf (s : State) (a : Nat) :
    (cfHeld s a → s.transmitCf a = (s, none, false)) ∧
    (∀ a', ¬ cfHeld s a → ¬ cfHeld s a' → s.transmitCf a = s.transmitCf a') :=
  ⟨transmitCf_held s a, fun a' h h' => transmitCf_indep s a a' h h'⟩

/-- `exCf` with only 3 bytes allowed: the 7-byte Consecutive Frame is withheld; with 7 it is not -/
example : cfHeld exCf 3 ∧ ¬ cfHeld exCf 7 :=
  ⟨⟨0, _, rfl, rfl, by decide, by decide⟩, fun ⟨_, _, _, h2, _, h4⟩ => by
    have : exCf.active = some { id := 1, size := 20, src := [7, 8, 9, 10, 11, 12, 13, 14], consumed := 6 } := rfl
    rw [this] at h2; injection h2 with h2; subst h2
    revert h4; decide⟩

end Isotp.C15

#print axioms Isotp.C15.limInv_meaning
#print axioms Isotp.C15.limInv_preserved
#print axioms Isotp.C15.limInv_session
#print axioms Isotp.C15.disabled_limiter
#print axioms Isotp.C15.disabled_startTx_never_parks
#print axioms Isotp.C15.disabled_cf_never_held
#print axioms Isotp.C15.disabled_never_holds
#print axioms Isotp.C15.disabled_never_throttled
#print axioms Isotp.C15.admission
#print axioms Isotp.C15.admission_startTx
#print axioms Isotp.C15.admission_cf
#print axioms Isotp.C15.window_bound
#print axioms Isotp.C15.window_bound_sub
#print axioms Isotp.C15.slack_needed
#print axioms Isotp.C15.window_sharp
#print axioms Isotp.C15.window_bound_session
#print axioms Isotp.C15.session_frames
#print axioms Isotp.C15.processLoop_is_run
#print axioms Isotp.C15.reset_limiter
#print axioms Isotp.C15.slack_needed_model
#print axioms Isotp.C15.update_only_removes
#print axioms Isotp.C15.progress_allowed
#print axioms Isotp.C15.progress_parked_fits
#print axioms Isotp.C15.progress_standby_released
#print axioms Isotp.C15.progress_full_frame_allowed
#print axioms Isotp.C15.delay_only_startTx
#print axioms Isotp.C15.delay_only_release
#print axioms Isotp.C15.delay_only_cf
