#!/bin/bash
# clean-tree soak: every claimed check, several seeds, quick (and optionally thorough); prints one line per run
# usage: harness/soak.sh "<seeds>" <tier>
cd "$(dirname "$0")/.."
SEEDS=${1:-"1 2 3"}
TIER=${2:-quick}
eval "$(python3 -c "import json;print('SETUP=' + repr(json.load(open('MANIFEST.json'))['setup_cmd']))")"
bash -c "$SETUP" > /tmp/soak_setup.log 2>&1 || { echo SETUP FAILED; tail -5 /tmp/soak_setup.log; exit 2; }
# PROPS="C08 C14" restricts the run to those properties
for p in ${PROPS:-$(python3 -c "import json;print(' '.join(c['property_id'] for c in json.load(open('MANIFEST.json'))['checks']))")}; do
  for s in $SEEDS; do
    out=$(VERIF_EVIDENCE_DIR=/tmp/soak_evidence VERIF_SEED=$s ./check $p --tier $TIER 2>&1)
    rc=$?
    echo "$p seed=$s tier=$TIER rc=$rc $(echo "$out" | tail -1)"
    if [ $rc -ne 0 ]; then echo "$out" | grep -E "VIOLATION|BROKEN|INFRA|Traceback" | head -5; fi
  done
done
