import Isotp.Props.C01net
import Isotp.Proofs.NetFc
/-
  C01 / C10, network level — "… and neither side reports an error": the point left open by Props/C01net.lean
  (`C01net_no_protocol_error_statement`).

  Setting as in Props/C01net.lean: the two-layer network `n0 ca cb aa ab` (`Isotp.Net`: two layers, one FIFO link per
  direction, a global clock), mirrored addresses (`Mirrored`), EVERY schedule `ops : List NOp` of `send` (admissible
  payloads, `Sched`), `process()`, `process(do_rx=False)`, `recv`, deliveries of any number of frames, clock ticks; both
  configured STmin values valid STmin bytes; neither layer reports a ConsecutiveFrameTimeout / FlowControlTimeout.

  * `no_unexpected_flow_control`: neither layer reports an `UnexpectedFlowControlError` — a Flow Control frame is
    handled (`handleFc`) only while the transmit FSM is in WAIT_FC, never in IDLE.
  * `no_protocol_error : C01net_no_protocol_error_statement`: NO error at all is reported by either layer
    (with `only_unexpected_fc` of Props/C01net.lean).
  * `fc_sync`: the two-layer invariant `FcSync` behind it (Proofs/NetFc*.lean): for each layer the SENDER LAW
    (FC points among the data frames emitted + Flow Control in the mailbox ≤ Flow Control frames read + [WAIT_FC];
    `txBlockCnt` / `remoteBs` follow the position in the current message and the peer's block size) and the RECEIVER
    LAW (Flow Control frames emitted + Flow Control requested ≤ FC points among the data frames processed). An FC point
    is a First Frame or a Consecutive Frame that completes a block of the receiver's `blocksize` without completing the
    message. Both laws are preserved by every micro-step of `process()` (`SndFc.micro`, `RcvFc.micro`) and every
    operation of the network (`fcInv_step`).
  * `cts_only_while_waiting`: the diagnosed invariant, as a corollary — the ContinueToSend frames from layer j that are
    requested (`pendingFc` of j), in flight (link of j, inbox of i) or in the mailbox of i (`lastFc`) are at most one,
    and there is one only while the transmit FSM of i is in WAIT_FC.
-/
namespace Isotp.C01net
open Isotp Isotp.State Isotp.NetP

/-! ## The invariant -/

/-- `FcInv` (= `NetInv`, admissible payloads, and `FcSync` when no timeout is reported) after every schedule -/
theorem fc_invariant (ca cb : Cfg) (aa ab : Addr) (h : Mirrored ca cb aa ab) (ops : List NOp) (hs : Sched ca cb ops) :
    FcInv (mkSetting ca cb aa ab h) (Net.run (n0 ca cb aa ab) ops).1 (Net.run (n0 ca cb aa ab) ops).2 := by
  rw [← net0_eq ca cb aa ab h]
  exact fcInv_run _ ops (sched_ok ca cb aa ab h ops hs)

theorem stminOk_of (ca cb : Cfg) (aa ab : Addr) (h : Mirrored ca cb aa ab)
    (hsa : validStmin ca.stmin = true) (hsb : validStmin cb.stmin = true) : StminOk (mkSetting ca cb aa ab h) := by
  intro b; cases b; exact hsa; exact hsb

/-- **The two-layer Flow Control invariant, every schedule.** Under the hypotheses of `safety_timeouts`, the network
    satisfies `FcSync`: sender law, block discipline and receiver law of both layers. -/
theorem fc_sync (ca cb : Cfg) (aa ab : Addr) (h : Mirrored ca cb aa ab)
    (hsa : validStmin ca.stmin = true) (hsb : validStmin cb.stmin = true) (ops : List NOp) (hs : Sched ca cb ops)
    (h0 : noTimeout (events 0 (Net.run (n0 ca cb aa ab) ops)) = true)
    (h1 : noTimeout (events 1 (Net.run (n0 ca cb aa ab) ops)) = true) :
    FcSync (mkSetting ca cb aa ab h) (Net.run (n0 ca cb aa ab) ops).1 (Net.run (n0 ca cb aa ab) ops).2 := by
  have hnT : ∀ b, noT (logOf (idx b) (Net.run (n0 ca cb aa ab) ops).2) = true := by
    intro b; cases b; exact h0; exact h1
  exact (fc_invariant ca cb aa ab h ops hs).2.2 (stminOk_of ca cb aa ab h hsa hsb) hnT

/-! ## The theorems -/

/-- **No `UnexpectedFlowControlError`, every schedule.** Two layers with validated configurations, valid STmin values
    and mirrored addresses, joined by the two FIFO links; any schedule of `send` (admissible payloads), `process()`,
    `process(do_rx=False)`, `recv`, frame deliveries and clock ticks. If neither layer reported a timeout error, then
    neither layer reported an `UnexpectedFlowControlError`: every Flow Control frame was consumed while the transmit
    FSM was waiting for it. -/
theorem no_unexpected_flow_control (ca cb : Cfg) (aa ab : Addr) (h : Mirrored ca cb aa ab)
    (hsa : validStmin ca.stmin = true) (hsb : validStmin cb.stmin = true) (ops : List NOp) (hs : Sched ca cb ops)
    (h0 : noTimeout (events 0 (Net.run (n0 ca cb aa ab) ops)) = true)
    (h1 : noTimeout (events 1 (Net.run (n0 ca cb aa ab) ops)) = true) :
    noUnexpectedFc (events 0 (Net.run (n0 ca cb aa ab) ops)) ∧
    noUnexpectedFc (events 1 (Net.run (n0 ca cb aa ab) ops)) := by
  have hnT : ∀ b, noT (logOf (idx b) (Net.run (n0 ca cb aa ab) ops).2) = true := by
    intro b; cases b; exact h0; exact h1
  have key := fun b => noUfc_run (mkSetting ca cb aa ab h) (stminOk_of ca cb aa ab h hsa hsb) ops
    (sched_ok ca cb aa ab h ops hs) (by rw [net0_eq]; exact hnT) b
  rw [net0_eq] at key
  exact ⟨key false, key true⟩

/-- **C01 / C10, "neither side reports an error", every schedule.** In every schedule in which no timeout is reported
    (valid STmin values, admissible payloads), NO error at all is reported by either layer. This closes
    `C01net_no_protocol_error_statement` of Props/C01net.lean. -/
theorem no_protocol_error : C01net_no_protocol_error_statement := by
  intro ca cb aa ab h hsa hsb ops hs h0 h1
  obtain ⟨hu0, hu1⟩ := no_unexpected_flow_control ca cb aa ab h hsa hsb ops hs h0 h1
  exact no_protocol_error_partial ca cb aa ab h hsa hsb ops hs h0 h1 hu0 hu1

/-- the same, together with the delivery theorem: under the hypotheses of `safety_timeouts` no error is reported AND
    what each side got is a prefix of what the other side sent -/
theorem clean_exchange (ca cb : Cfg) (aa ab : Addr) (h : Mirrored ca cb aa ab)
    (hsa : validStmin ca.stmin = true) (hsb : validStmin cb.stmin = true) (ops : List NOp) (hs : Sched ca cb ops)
    (h0 : noTimeout (events 0 (Net.run (n0 ca cb aa ab) ops)) = true)
    (h1 : noTimeout (events 1 (Net.run (n0 ca cb aa ab) ops)) = true) :
    noError (Net.run (n0 ca cb aa ab) ops) = true ∧
    got 1 (Net.run (n0 ca cb aa ab) ops) <+: sent 0 (Net.run (n0 ca cb aa ab) ops) ∧
    got 0 (Net.run (n0 ca cb aa ab) ops) <+: sent 1 (Net.run (n0 ca cb aa ab) ops) :=
  ⟨no_protocol_error ca cb aa ab h hsa hsb ops hs h0 h1, safety_timeouts ca cb aa ab h hsa hsb ops hs h0 h1⟩

/-- number of Flow Control frames (N_PCI type 3 after the `k` address-prefix bytes) in a list of frames -/
def fcFrames (k : Nat) (ms : List CanMsg) : Nat := fcCount k ms

/-- **A ContinueToSend exists only while the peer waits for it.** Under the hypotheses of `safety_timeouts`, in the
    final network state: the Flow Control frames in the inbox of layer 0 and on the link of layer 1, plus the Flow
    Control layer 1 has been asked to send (`pendingFc`), plus the one in the mailbox of layer 0 (`lastFc`), are at most
    one — and zero unless the transmit FSM of layer 0 is in WAIT_FC. Symmetrically for layer 1. -/
theorem cts_only_while_waiting (ca cb : Cfg) (aa ab : Addr) (h : Mirrored ca cb aa ab)
    (hsa : validStmin ca.stmin = true) (hsb : validStmin cb.stmin = true) (ops : List NOp) (hs : Sched ca cb ops)
    (h0 : noTimeout (events 0 (Net.run (n0 ca cb aa ab) ops)) = true)
    (h1 : noTimeout (events 1 (Net.run (n0 ca cb aa ab) ops)) = true) :
    ∃ l0 l1 o0 o1, (Net.run (n0 ca cb aa ab) ops).1.layers = #[l0, l1] ∧
      (Net.run (n0 ca cb aa ab) ops).1.outbox = #[o0, o1] ∧
      fcFrames aa.rx.rxPrefixSize (l0.inbox.map (·.2)) + fcFrames aa.rx.rxPrefixSize o1 +
          (if l1.pendingFc then 1 else 0) + (if l0.lastFc.isSome then 1 else 0) ≤
        (if l0.txState = .waitFc then 1 else 0) ∧
      fcFrames ab.rx.rxPrefixSize (l1.inbox.map (·.2)) + fcFrames ab.rx.rxPrefixSize o0 +
          (if l0.pendingFc then 1 else 0) + (if l1.lastFc.isSome then 1 else 0) ≤
        (if l1.txState = .waitFc then 1 else 0) := by
  have hnT : ∀ b, noT (logOf (idx b) (Net.run (n0 ca cb aa ab) ops).2) = true := by
    intro b; cases b; exact h0; exact h1
  have hst := stminOk_of ca cb aa ab h hsa hsb
  have hinv := invariant ca cb aa ab h ops hs
  have hsync := fc_sync ca cb aa ab h hsa hsb ops hs h0 h1
  obtain ⟨ly, ob, hrep, hc0⟩ := fcSync_credit _ hst _ _ hinv hnT hsync false
  obtain ⟨ly', ob', hrep', hc1⟩ := fcSync_credit _ hst _ _ hinv hnT hsync true
  obtain ⟨e1, e2⟩ := Rep.unique hrep hrep'
  subst e1 e2
  exact ⟨ly false, ly true, ob false, ob true, hrep.layers, hrep.outbox, hc0, hc1⟩

/-! ## Non-vacuity -/

/-- the concrete duplex schedule of Props/C01net.lean (default configuration: blocksize 8, STmin 0) satisfies the
    hypotheses: validated mirrored configurations, admissible schedule, valid STmin, no timeout — and indeed reports no
    error -/
example : Mirrored {} {} exA exB ∧ Sched {} {} exSched ∧ validStmin ({} : Cfg).stmin = true ∧
    noTimeout (events 0 (Net.run (n0 {} {} exA exB) exSched)) = true ∧
    noTimeout (events 1 (Net.run (n0 {} {} exA exB) exSched)) = true ∧
    noError (Net.run (n0 {} {} exA exB) exSched) = true :=
  ⟨⟨⟨by decide, by decide, rfl⟩, ⟨by decide, by decide, rfl⟩⟩, by decide +kernel, by decide +kernel, by decide +kernel,
    by decide +kernel, by decide +kernel⟩

/-- both layers announce blocks of 2 Consecutive Frames and STmin = 5 ms -/
def cfgBs2 : Cfg := { blocksize := 2, stmin := 5 }
/-- 25 bytes: First Frame, 2 Consecutive Frames, (Flow Control), last Consecutive Frame -/
def bsP1 : Bytes := (List.range 25).map UInt8.ofNat
/-- 30 bytes: First Frame, 2 Consecutive Frames, (Flow Control), 2 Consecutive Frames (the last one completes a block
    and the message: no Flow Control) -/
def bsQ1 : Bytes := (List.range 30).map (fun i => UInt8.ofNat (100 + i))
/-- one round: both layers run `process()`, everything on the links is delivered, 6 ms pass -/
def bsRound : List NOp := [.proc 0, .deliver 0 10, .proc 1, .deliver 1 10, .tick 6000000]
/-- full duplex: layer 0 sends 25 bytes then a Single Frame, layer 1 sends 30 bytes, nine rounds, three `recv` -/
def bsSched : List NOp :=
  [.send 0 (sendArgs 1 bsP1), .send 1 (sendArgs 2 bsQ1), .send 0 (sendArgs 3 exP2)] ++
  (List.replicate 9 bsRound).flatten ++ [.recv 0, .recv 1, .recv 1]

example : Mirrored cfgBs2 cfgBs2 exA exB := ⟨⟨by decide, by decide, rfl⟩, ⟨by decide, by decide, rfl⟩⟩
example : Sched cfgBs2 cfgBs2 bsSched := by decide +kernel
/-- the hypotheses hold … -/
example : validStmin cfgBs2.stmin = true ∧
    noTimeout (events 0 (Net.run (n0 cfgBs2 cfgBs2 exA exB) bsSched)) = true ∧
    noTimeout (events 1 (Net.run (n0 cfgBs2 cfgBs2 exA exB) bsSched)) = true := by decide +kernel
/-- … no error is reported, everything sent in both directions is delivered in order, and each layer has emitted
    two Flow Control frames (after the First Frame and after the first block of two Consecutive Frames of the peer's
    long message; none after the second block of the 30-byte message, which completes it) -/
example : noError (Net.run (n0 cfgBs2 cfgBs2 exA exB) bsSched) = true ∧
    got 1 (Net.run (n0 cfgBs2 cfgBs2 exA exB) bsSched) = [bsP1, exP2] ∧
    got 0 (Net.run (n0 cfgBs2 cfgBs2 exA exB) bsSched) = [bsQ1] ∧
    fcFrames 0 (emitted 0 (Net.run (n0 cfgBs2 cfgBs2 exA exB) bsSched)) = 2 ∧
    fcFrames 0 (emitted 1 (Net.run (n0 cfgBs2 cfgBs2 exA exB) bsSched)) = 2 := by decide +kernel
/-- the credit bound is tight: in the fourth round (after 22 operations) layer 0 is in WAIT_FC (it has emitted the First
    Frame of its 25-byte message, consumed the first ContinueToSend, emitted two Consecutive Frames — a full block) and
    exactly one ContinueToSend of layer 1 is on its way (here: in the inbox of layer 0) -/
example :
    let r := Net.run (n0 cfgBs2 cfgBs2 exA exB) (bsSched.take 22)
    (r.1.layers[0]?.map (·.txState)) = some .waitFc ∧
    (r.1.layers[0]?.map (fun l => fcFrames 0 (l.inbox.map (·.2)))) = some 1 := by decide +kernel
/-- a schedule that violates the hypothesis (the sender is starved of its Flow Control for more than N_Bs, then the
    late Flow Control arrives) DOES report `UnexpectedFlowControlError`: the hypothesis "no timeout" is not redundant -/
example :
    let r := Net.run (n0 {} {} exA exB)
      [.send 0 (sendArgs 1 exP1), .proc 0, .deliver 0 1, .proc 1, .tick 2000000000, .proc 0, .deliver 1 1, .proc 0]
    (events 0 r).filter Ev.isErr = [Ev.err 2000000000 .FlowControlTimeout, Ev.err 2000000000 .UnexpectedFlowControl] := by
  decide +kernel

end Isotp.C01net

#print axioms Isotp.C01net.fc_invariant
#print axioms Isotp.C01net.fc_sync
#print axioms Isotp.C01net.no_unexpected_flow_control
#print axioms Isotp.C01net.no_protocol_error
#print axioms Isotp.C01net.clean_exchange
#print axioms Isotp.C01net.cts_only_while_waiting
