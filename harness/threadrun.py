"""
Trace validation of the threaded TransportLayer (C13, C14): real threads run; every micro-step of the logic layer
(_check_timeouts_rx, _process_rx, rate_limiter.update, _process_tx, tx_queue.put) is recorded with a global
sequence number and a frozen clock value; the recorded linearised schedule is replayed through the Lean model.
"""
import sys
import time
import threading
import queue
import random
from fractions import Fraction

import core
from core import hexs, all_addr_tokens, make_address, cfg_tokens, _noop_wait
import isotp
import isotp.protocol

_tl = threading.local()


def _frozen_ns():
    f = getattr(_tl, 'frozen', None)
    if f is not None:
        return f
    return core.REAL_PERF_NS()


def _frozen_s():
    f = getattr(_tl, 'frozen', None)
    if f is not None:
        return Fraction(f, 10**9)
    return core.REAL_PERF()


def install_clock():
    time.perf_counter_ns = _frozen_ns
    time.perf_counter = _frozen_s


class Recorder:
    """global linearised log of micro-steps"""

    def __init__(self):
        self.lock = threading.Lock()
        self.log = []          # entries: dict(seq, layer, kind, ...)
        self.nputs = {}
        self.last_t = {}
        self.outside = []

    def add(self, e):
        with self.lock:
            e['seq'] = len(self.log)
            self.log.append(e)
            return e


def fmt_msg(m):
    return '%d:%d:%d:%d:%d:%s' % (m.arbitration_id, 1 if m.is_extended_id else 0, m.dlc, 1 if m.is_fd else 0,
                                  1 if m.bitrate_switch else 0, hexs(m.data))


def instrument(rec, i, L):
    """wrap the micro-steps of layer L (index i)"""
    rec.nputs[i] = 0

    def cur_events():
        st = getattr(_tl, 'step', None)
        if st is not None and st['layer'] == i:
            return st['events']
        return None

    def note(s):
        evs = cur_events()
        if evs is not None:
            evs.append(s)
        else:
            rec.add({'layer': i, 'kind': 'outside', 'event': s})

    base = isotp.TransportLayerLogic.SendRequest

    class TaggedReq(base):
        def __init__(self, data, target_address_type):
            base.__init__(self, data, target_address_type)
            self._vid = getattr(_tl, 'cur_id', 0)
            self._payload = bytes(data) if not isinstance(data, tuple) else b''

        def complete(self, success):
            note('done:%d:%d' % (self._vid, 1 if success else 0))
            base.complete(self, success)

    L.SendRequest = TaggedReq

    orig_put = L.tx_queue.put

    def put(req, *a, **k):
        with rec.lock:
            orig_put(req, *a, **k)
            rec.nputs[i] += 1
            e = {'layer': i, 'kind': 'put', 'id': req._vid, 'payload': req._payload, 'tat': req.target_address_type.value,
                 'seq': len(rec.log)}
            rec.log.append(e)
    L.tx_queue.put = put

    orig_empty = L.tx_queue.empty

    def empty():
        with rec.lock:
            r = orig_empty()
            st = getattr(_tl, 'step', None)
            if st is not None and st['layer'] == i:
                st['puts_seen'] = rec.nputs[i]
            return r
    L.tx_queue.empty = empty

    orig_rxput = L.rx_queue.put

    def rxput(item, *a, **k):
        note('deliver:%s' % hexs(item))
        return orig_rxput(item, *a, **k)
    L.rx_queue.put = rxput

    orig_err = L.error_handler

    def err(e):
        note('err:%s' % type(e).__name__)
        if orig_err is not None:
            orig_err(e)
    L.error_handler = err

    def micro(kind, fn, describe=None):
        def wrapper(*args, **kw):
            if getattr(_tl, 'step', None) is not None:
                return fn(*args, **kw)          # nested call inside a micro-step
            with rec.lock:
                t = max(core.REAL_PERF_NS(), rec.last_t.get(i, 0))
                rec.last_t[i] = t
            st = {'layer': i, 'kind': kind, 't': t, 'events': [], 'puts_seen': None}
            if describe is not None:
                st.update(describe(*args, **kw))
            _tl.step = st
            _tl.frozen = t
            try:
                r = fn(*args, **kw)
                st['ret'] = r
                return r
            finally:
                _tl.step = None
                _tl.frozen = None
                rec.add(st)
        return wrapper

    L._check_timeouts_rx = micro('check', L._check_timeouts_rx)
    L._process_rx = micro('prx', L._process_rx, lambda msg: {'msg': msg})
    L._process_tx = micro('ptx', L._process_tx)
    L.rate_limiter.update = micro('upd', L.rate_limiter.update)
    # top-level aborts issued by the worker thread / user thread
    L._stop_sending = micro('stop_sending', L._stop_sending, lambda success: {'success': success})
    L._stop_receiving = micro('stop_receiving', L._stop_receiving)


def build_lines(rec, layer_lines):
    """log -> (model input lines, expected output lines); puts are moved before the tx pass that saw them"""
    lines_in = list(layer_lines)
    lines_out = ['ok'] * len(layer_lines)
    puts = {}
    for e in rec.log:
        if e['kind'] == 'put':
            puts.setdefault(e['layer'], []).append(e)
    emitted = {i: 0 for i in rec.nputs}

    def emit_put(e):
        e['done'] = True
        lines_in.append('send %d %d %d %s %d 0' % (e['layer'], e['id'], len(e['payload']), hexs(e['payload']), e['tat']))
        lines_out.append('|ok|')
        emitted[e['layer']] += 1

    for e in rec.log:
        i = e['layer']
        k = e['kind']
        if k == 'put':
            continue        # emitted lazily: exactly the puts a tx pass saw are placed before it
        if k == 'outside':
            continue
        if e.get('puts_seen') is not None:
            while emitted[i] < e['puts_seen']:
                nxt = [p for p in puts.get(i, []) if not p.get('done')]
                if not nxt:
                    break
                emit_put(nxt[0])
        lines_in.append('mnow %d' % e['t'])
        lines_out.append('ok')
        evs = []
        for s in e['events']:
            if s.startswith('err:'):
                evs.append('err@%d:%s' % (e['t'], s[4:]))
            else:
                evs.append(s)
        evs = ';'.join(evs)
        if k == 'check':
            lines_in.append('mcheck %d' % i)
            lines_out.append('%s|ok|' % evs)
        elif k == 'prx':
            m = e['msg']
            r = e.get('ret')
            lines_in.append('mprx %d %d %d %s' % (i, m.arbitration_id, 1 if m.is_extended_id else 0, hexs(m.data)))
            lines_out.append('%s|imm=%d fr=%d|' % (evs, 1 if r.immediate_tx_required else 0, 1 if r.frame_received else 0) if r is not None else '%s|exc|' % evs)
        elif k == 'upd':
            lines_in.append('mupd %d' % i)
            lines_out.append('%s|ok|' % evs)
        elif k == 'ptx':
            r = e.get('ret')
            lines_in.append('mptx %d' % i)
            if r is None:
                lines_out.append('%s|exc|' % evs)
            else:
                lines_out.append('%s|msg=%s imm=%d|' % (evs, 'None' if r.msg is None else fmt_msg(r.msg), 1 if r.immediate_rx_required else 0))
        elif k == 'stop_sending':
            lines_in.append('stop_sending %d' % i)
            lines_out.append('%s|ok|' % evs)
        elif k == 'stop_receiving':
            lines_in.append('stop_receiving %d' % i)
            lines_out.append('%s|ok|' % evs)
    for i in sorted(puts):
        for p in puts[i]:
            if not p.get('done'):
                emit_put(p)
    return lines_in, lines_out


def strip_status(line):
    parts = line.split('|')
    if len(parts) == 3:
        return parts[0] + '|' + parts[1] + '|'
    return line
