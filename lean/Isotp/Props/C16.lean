import Isotp.Process
/-
  C16 — property theorems (see DESIGN.md §6). Helper lemmas live in Isotp/Proofs.
-/
namespace Isotp.C16
open Isotp State

end Isotp.C16
