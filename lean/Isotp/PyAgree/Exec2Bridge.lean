import Isotp.Py.Exec2
/-!
  The two semantics of the embedding (`execStmt` / `execBlock` / `runFn` of `Isotp/Py/Ast.lean` and the fuelled `exec2S` / `exec2B` / `run2` of
  `Isotp/Py/Exec2.lean`) coincide on the code the first one gives a meaning to.

  * `loopFreeS/B`    : no `while_`, `tryCatch`, `break_` anywhere (bodies of `ite` / `tryExcept` included);
  * `dumperShapeS/B` : the body of every `tryExcept` is ONE simple statement (what `harness/py2lean.py` emits: one assignment / expression
                       statement).  Needed: the first semantics runs the handler in the environment the `try` was ENTERED with, the second in
                       the environment at the RAISE point; they are the same when the body is one simple statement (`simple2`);
  * `depthS/B`       : the fuel a run needs: `depthB .nil = 1`, `depthB (s :: r) = 1 + max (depthS s) (depthB r)`, `depthS simple = 1`,
                       `depthS compound = 1 + max of the sub-blocks` (so: nesting depth + block length).  All theorems: `depthB b ≤ n`.

  What is proved (`M`, `env` arbitrary; `b` loop-free, dumper-shaped, `depthB b ≤ n`):

  (a) `exec2B_of_execBlock_ok`    : `execBlock M env b = .ok f     →  exec2B n M env b = .ok (ofFlow f)`                 (no other condition)
  (b) `exec2B_of_execBlock_error` : `execBlock M env b = .error e  →  ∃ env1, exec2B n M env b = ofPErr env1 e`
        PROVIDED `sameCatch e = true` (e is a builtin exception `.exc _`, or an interpreter error that is not one of the named exception
        classes of `namedExc`) OR `b` contains no `tryExcept` at all (`noTryB b`).
      The condition cannot be dropped (`tryExcept_zeroDivision_differs`, `tryExcept_named_differs`): `except Exception` of the FIRST semantics
      only catches `.exc _`; a `ZeroDivisionError` (`PErr.zeroDivision`) or a named package exception (`.unsupported "raise Empty"`, ...) raised
      by the body of a `tryExcept` goes THROUGH the handler in the first semantics and is CAUGHT in the second (which is what Python does).
      Because such an error is propagated unchanged to the end of the run in the first semantics, the condition is on the FINAL error only.
  and the same for statements (`exec2S_of_execStmt_ok/error`), for `runFn` / `run2` (`run2_eq_runFn`, `run2_of_runFn_error`), and the combined
  forms `exec2S_eq_execStmt` / `exec2B_eq_execBlock` (relation `AgreeR`).

  Fuel monotonicity, for ALL statements / blocks (loops included): `exec2S_mono`, `exec2B_mono`, `run2_mono` (one more unit of fuel) and
  `exec2S_mono_le`, `exec2B_mono_le`, `run2_mono_le` (any larger fuel): a run that ended (`.ok o`: normally, by `return`, by a raise, by `break`)
  ends the same way with more fuel.
-/
namespace Isotp.Py

/-! ## syntactic classes -/

/-- a non-compound statement other than `break`: the statements `exec2S` hands to `simple2` -/
def isSimple : PStmt → Bool
  | .ite _ _ _ => false
  | .tryExcept _ _ => false
  | .while_ _ _ => false
  | .tryCatch _ _ _ => false
  | .break_ => false
  | .tryFinally _ _ => false
  | _ => true

mutual
/-- no `while_`, `tryCatch`, `break_`, `tryFinally` anywhere -/
def loopFreeS : PStmt → Bool
  | .ite _ t e => loopFreeB t && loopFreeB e
  | .tryExcept b h => loopFreeB b && loopFreeB h
  | .while_ _ _ => false
  | .tryCatch _ _ _ => false
  | .break_ => false
  | .tryFinally _ _ => false
  | _ => true
def loopFreeB : PBlock → Bool
  | .nil => true
  | .cons s r => loopFreeS s && loopFreeB r
end

mutual
/-- the body of every `tryExcept` is one simple statement (what the dumper emits) -/
def dumperShapeS : PStmt → Bool
  | .ite _ t e => dumperShapeB t && dumperShapeB e
  | .tryExcept b h => (match b with | .cons s .nil => isSimple s | _ => false) && dumperShapeB h
  | .while_ _ b => dumperShapeB b
  | .tryCatch b _ h => dumperShapeB b && dumperShapeB h
  | _ => true
def dumperShapeB : PBlock → Bool
  | .nil => true
  | .cons s r => dumperShapeS s && dumperShapeB r
end

mutual
/-- no `tryExcept` anywhere -/
def noTryS : PStmt → Bool
  | .ite _ t e => noTryB t && noTryB e
  | .tryExcept _ _ => false
  | .while_ _ b => noTryB b
  | .tryCatch b _ h => noTryB b && noTryB h
  | _ => true
def noTryB : PBlock → Bool
  | .nil => true
  | .cons s r => noTryS s && noTryB r
end

mutual
/-- fuel needed by `exec2S` (on loop-free code): 1 for a simple statement, 1 + the deepest sub-block for a compound one -/
def depthS : PStmt → Nat
  | .ite _ t e => 1 + max (depthB t) (depthB e)
  | .tryExcept b h => 1 + max (depthB b) (depthB h)
  | .while_ _ b => 1 + depthB b
  | .tryCatch b _ h => 1 + max (depthB b) (depthB h)
  | _ => 1
/-- fuel needed by `exec2B` (on loop-free code): one unit per statement of the block, plus what the deepest statement needs -/
def depthB : PBlock → Nat
  | .nil => 1
  | .cons s r => 1 + max (depthS s) (depthB r)
end

/-- the errors of the first semantics that both semantics treat alike under `except Exception`: the builtin exceptions (caught by both) and
    the interpreter errors that are not a named exception class (caught by neither).  The others - `ZeroDivisionError` and the named
    package exceptions - are caught by `tryExcept` in the second semantics only. -/
def sameCatch : PErr → Bool
  | .exc _ => true
  | .zeroDivision => false
  | .unsupported w => (namedExc w).isNone

/-- how a result of the first semantics reads in the second -/
def AgreeR (noTry : Bool) (r1 : Except PErr Flow) (r2 : Except Err2 Out) : Prop :=
  match r1 with
  | .ok f => r2 = .ok (ofFlow f)
  | .error e => (sameCatch e || noTry) = true → ∃ env1, r2 = ofPErr env1 e

/-! ## small facts -/

private theorem okb {ε α β : Type} (a : α) (f : α → Except ε β) : (Except.ok a >>= f) = f a := rfl
private theorem erb {ε α β : Type} (e : ε) (f : α → Except ε β) : ((Except.error e : Except ε α) >>= f) = .error e := rfl

theorem exec2S_simple (n : Nat) (M : Meths) (env : Env) (s : PStmt) (h : isSimple s = true) :
    exec2S (n + 1) M env s = simple2 M env s := by
  cases s <;> first | rfl | exact absurd h (by simp [isSimple])

theorem exec2S_zero (M : Meths) (env : Env) (s : PStmt) : exec2S 0 M env s = .error .outOfFuel := by
  cases s <;> rfl
theorem exec2B_zero (M : Meths) (env : Env) (b : PBlock) : exec2B 0 M env b = .error .outOfFuel := by
  cases b <;> rfl

theorem exec2B_nil (n : Nat) (M : Meths) (env : Env) : exec2B (n + 1) M env .nil = .ok (.next env) := rfl

theorem exec2B_cons (n : Nat) (M : Meths) (env : Env) (s : PStmt) (rest : PBlock) :
    exec2B (n + 1) M env (.cons s rest) =
      (match exec2S n M env s with
       | .ok (.next env1) => exec2B n M env1 rest
       | r => r) := rfl

theorem exec2S_ite (n : Nat) (M : Meths) (env : Env) (c : PExpr) (t e : PBlock) :
    exec2S (n + 1) M env (.ite c t e) =
      (match eval M env c with
       | .error er => ofPErr env er
       | .ok v =>
         match truthy v with
         | .error er => ofPErr env er
         | .ok b => if b then exec2B n M env t else exec2B n M env e) := rfl

theorem exec2S_tryExcept (n : Nat) (M : Meths) (env : Env) (body handler : PBlock) :
    exec2S (n + 1) M env (.tryExcept body handler) =
      (match exec2B n M env body with
       | .ok (.raised _ env1) => exec2B n M env1 handler
       | r => r) := rfl

theorem exec2S_tryCatch (n : Nat) (M : Meths) (env : Env) (body : PBlock) (cls : String) (handler : PBlock) :
    exec2S (n + 1) M env (.tryCatch body cls handler) =
      (match exec2B n M env body with
       | .ok (.raised x env1) => if catches cls x then exec2B n M env1 handler else .ok (.raised x env1)
       | r => r) := rfl

theorem exec2S_while (n : Nat) (M : Meths) (env : Env) (c : PExpr) (body : PBlock) :
    exec2S (n + 1) M env (.while_ c body) =
      (match eval M env c with
       | .error er => ofPErr env er
       | .ok v =>
         match truthy v with
         | .error er => ofPErr env er
         | .ok false => .ok (.next env)
         | .ok true =>
           match exec2B n M env body with
           | .ok (.next env1) => exec2S n M env1 (.while_ c body)
           | .ok (.brk env1) => .ok (.next env1)
           | r => r) := rfl

theorem exec2S_break (n : Nat) (M : Meths) (env : Env) : exec2S (n + 1) M env .break_ = .ok (.brk env) := rfl

/-- an error of the first semantics never reads as "fell through" -/
theorem ofPErr_cases (env : Env) (e : PErr) :
    (∃ cls, ofPErr env e = .ok (.raised cls env)) ∨ (∃ er, ofPErr env e = .error er) := by
  cases e with
  | exc x => exact .inl ⟨_, rfl⟩
  | zeroDivision => exact .inl ⟨_, rfl⟩
  | unsupported w =>
    cases hn : namedExc w with
    | none => exact .inr ⟨.unsupported w, by simp only [ofPErr, hn]⟩
    | some cls => exact .inl ⟨cls, by simp only [ofPErr, hn]⟩

theorem depthS_pos (s : PStmt) : 1 ≤ depthS s := by
  cases s <;> simp only [depthS] <;> omega
theorem depthB_pos (b : PBlock) : 1 ≤ depthB b := by
  cases b <;> simp only [depthB] <;> omega

/-- a block of one simple statement is that statement, in both semantics -/
theorem execBlock_single (M : Meths) (env : Env) (s : PStmt) : execBlock M env (.cons s .nil) = execStmt M env s := by
  unfold execBlock
  cases h : execStmt M env s with
  | error e => rfl
  | ok f => cases f <;> simp only [okb] <;> rfl

theorem exec2B_single (k : Nat) (M : Meths) (env : Env) (s : PStmt) (h : isSimple s = true) :
    exec2B (k + 2) M env (.cons s .nil) = simple2 M env s := by
  rw [exec2B_cons, exec2S_simple k M env s h]
  cases hr : simple2 M env s with
  | error e => rfl
  | ok o => cases o <;> rfl

theorem agree_simple (n : Nat) (M : Meths) (env : Env) (s : PStmt) (h : isSimple s = true) (hn : 1 ≤ n) (nt : Bool) :
    AgreeR nt (execStmt M env s) (exec2S n M env s) := by
  obtain ⟨m, rfl⟩ : ∃ m, n = m + 1 := ⟨n - 1, by omega⟩
  rw [exec2S_simple m M env s h]
  unfold simple2 AgreeR
  cases execStmt M env s with
  | ok f => rfl
  | error e => exact fun _ => ⟨env, rfl⟩

/-- weakening: fewer `tryExcept`-freeness known -/
theorem AgreeR.weaken {nt nt' : Bool} {r1 : Except PErr Flow} {r2 : Except Err2 Out} (h : AgreeR nt r1 r2) (hnt : nt' = true → nt = true) :
    AgreeR nt' r1 r2 := by
  unfold AgreeR at *
  cases r1 with
  | ok f => exact h
  | error e =>
    intro hc
    apply h
    cases hs : sameCatch e
    · rw [hs] at hc; simpa using hnt (by simpa using hc)
    · rfl

/-! ## the two semantics coincide on loop-free, dumper-shaped code -/

mutual
/-- statement level, combined form (see `AgreeR`) -/
theorem exec2S_eq_execStmt (M : Meths) : ∀ (s : PStmt) (n : Nat) (env : Env),
    loopFreeS s = true → dumperShapeS s = true → depthS s ≤ n →
    AgreeR (noTryS s) (execStmt M env s) (exec2S n M env s)
  | .assign t e, n, env, _, _, hd => agree_simple n M env _ rfl (by simpa [depthS] using hd) _
  | .ret e, n, env, _, _, hd => agree_simple n M env _ rfl (by simpa [depthS] using hd) _
  | .retNone, n, env, _, _, hd => agree_simple n M env _ rfl (by simpa [depthS] using hd) _
  | .raise c, n, env, _, _, hd => agree_simple n M env _ rfl (by simpa [depthS] using hd) _
  | .assert_ e, n, env, _, _, hd => agree_simple n M env _ rfl (by simpa [depthS] using hd) _
  | .expr e, n, env, _, _, hd => agree_simple n M env _ rfl (by simpa [depthS] using hd) _
  | .pass, n, env, _, _, hd => agree_simple n M env _ rfl (by simpa [depthS] using hd) _
  | .unsupported w, n, env, _, _, hd => agree_simple n M env _ rfl (by simpa [depthS] using hd) _
  | .while_ _ _, _, _, hl, _, _ => by simp [loopFreeS] at hl
  | .tryCatch _ _ _, _, _, hl, _, _ => by simp [loopFreeS] at hl
  | .break_, _, _, hl, _, _ => by simp [loopFreeS] at hl
  | .tryFinally _ _, _, _, hl, _, _ => by simp [loopFreeS] at hl
  | .ite c t e, n, env, hl, hs, hd => by
    simp only [loopFreeS, Bool.and_eq_true] at hl
    simp only [dumperShapeS, Bool.and_eq_true] at hs
    simp only [depthS] at hd
    obtain ⟨m, rfl⟩ : ∃ m, n = m + 1 := ⟨n - 1, by omega⟩
    have iht := exec2B_eq_execBlock M t m env hl.1 hs.1 (by omega)
    have ihe := exec2B_eq_execBlock M e m env hl.2 hs.2 (by omega)
    rw [exec2S_ite]
    unfold execStmt
    cases hc : eval M env c with
    | error er => simp only [erb]; exact fun _ => ⟨env, rfl⟩
    | ok v =>
      simp only [okb]
      cases ht : truthy v with
      | error er => simp only [erb]; exact fun _ => ⟨env, rfl⟩
      | ok b =>
        simp only [okb]
        cases b with
        | true => exact iht.weaken (by simp only [noTryS, Bool.and_eq_true]; exact fun h => h.1)
        | false => exact ihe.weaken (by simp only [noTryS, Bool.and_eq_true]; exact fun h => h.2)
  | .tryExcept body handler, n, env, hl, hs, hd => by
    match body, hl, hs, hd with
    | .nil, _, hs, _ => simp [dumperShapeS] at hs
    | .cons _ (.cons _ _), _, hs, _ => simp [dumperShapeS] at hs
    | .cons s .nil, hl, hs, hd =>
      simp only [loopFreeS, Bool.and_eq_true] at hl
      simp only [dumperShapeS, Bool.and_eq_true] at hs
      simp only [depthS, depthB] at hd
      have hp := depthS_pos s
      obtain ⟨k, rfl⟩ : ∃ k, n = k + 3 := ⟨n - 3, by omega⟩
      have ihh := fun env' => exec2B_eq_execBlock M handler (k + 2) env' hl.2 hs.2 (by omega)
      rw [exec2S_tryExcept, exec2B_single k M env s hs.1]
      unfold execStmt
      rw [execBlock_single]
      unfold simple2
      cases hx : execStmt M env s with
      | ok f => cases f <;> rfl
      | error er =>
        cases er with
        | exc x => exact (ihh env).weaken (by simp [noTryS])
        | zeroDivision => intro hc; simp [sameCatch, noTryS] at hc
        | unsupported w =>
          intro hc
          simp only [sameCatch, noTryS, Bool.or_false, Option.isNone_iff_eq_none] at hc
          exact ⟨env, by simp only [ofPErr, hc]⟩
/-- block level, combined form (see `AgreeR`) -/
theorem exec2B_eq_execBlock (M : Meths) : ∀ (b : PBlock) (n : Nat) (env : Env),
    loopFreeB b = true → dumperShapeB b = true → depthB b ≤ n →
    AgreeR (noTryB b) (execBlock M env b) (exec2B n M env b)
  | .nil, n, env, _, _, hd => by
    simp only [depthB] at hd
    obtain ⟨m, rfl⟩ : ∃ m, n = m + 1 := ⟨n - 1, by omega⟩
    rfl
  | .cons s rest, n, env, hl, hs, hd => by
    simp only [loopFreeB, Bool.and_eq_true] at hl
    simp only [dumperShapeB, Bool.and_eq_true] at hs
    simp only [depthB] at hd
    obtain ⟨m, rfl⟩ : ∃ m, n = m + 1 := ⟨n - 1, by omega⟩
    have ihs := exec2S_eq_execStmt M s m env hl.1 hs.1 (by omega)
    have ihr := fun env' => exec2B_eq_execBlock M rest m env' hl.2 hs.2 (by omega)
    rw [exec2B_cons]
    unfold execBlock
    cases hx : execStmt M env s with
    | ok f =>
      rw [hx] at ihs
      have ihs' : exec2S m M env s = .ok (ofFlow f) := ihs
      rw [ihs']
      cases f with
      | next env' =>
        simp only [okb, ofFlow]
        exact (ihr env').weaken (by simp only [noTryB, Bool.and_eq_true]; exact fun h => h.2)
      | returned v env' => rfl
    | error er =>
      rw [hx] at ihs
      simp only [erb]
      intro hc
      have hc' : (sameCatch er || noTryS s) = true := by
        cases h1 : sameCatch er
        · rw [h1] at hc
          simp only [Bool.false_or, noTryB, Bool.and_eq_true] at hc
          simpa using hc.1
        · rfl
      obtain ⟨env1, h2⟩ := ihs hc'
      refine ⟨env1, ?_⟩
      rw [h2]
      rcases ofPErr_cases env1 er with ⟨cls, h3⟩ | ⟨e2, h3⟩ <;> rw [h3]
end

/-! ## the usable directions -/

/-- (a) a statement that ends normally / returns in the first semantics does the same in the second -/
theorem exec2S_of_execStmt_ok (M : Meths) (s : PStmt) (n : Nat) (env : Env) (f : Flow)
    (hl : loopFreeS s = true) (hs : dumperShapeS s = true) (hd : depthS s ≤ n) (h : execStmt M env s = .ok f) :
    exec2S n M env s = .ok (ofFlow f) := by
  have := exec2S_eq_execStmt M s n env hl hs hd
  rw [h] at this; exact this

/-- (b) a statement that fails in the first semantics: the same failure in the second (an exception is `raised`, in some environment),
    if the error is one both semantics catch alike, or the statement has no `tryExcept` -/
theorem exec2S_of_execStmt_error (M : Meths) (s : PStmt) (n : Nat) (env : Env) (e : PErr)
    (hl : loopFreeS s = true) (hs : dumperShapeS s = true) (hd : depthS s ≤ n) (h : execStmt M env s = .error e)
    (hc : sameCatch e = true ∨ noTryS s = true) :
    ∃ env1, exec2S n M env s = ofPErr env1 e := by
  have := exec2S_eq_execStmt M s n env hl hs hd
  rw [h] at this
  exact this (by rcases hc with hc | hc <;> simp [hc])

/-- (a) for blocks -/
theorem exec2B_of_execBlock_ok (M : Meths) (b : PBlock) (n : Nat) (env : Env) (f : Flow)
    (hl : loopFreeB b = true) (hs : dumperShapeB b = true) (hd : depthB b ≤ n) (h : execBlock M env b = .ok f) :
    exec2B n M env b = .ok (ofFlow f) := by
  have := exec2B_eq_execBlock M b n env hl hs hd
  rw [h] at this; exact this

/-- (b) for blocks -/
theorem exec2B_of_execBlock_error (M : Meths) (b : PBlock) (n : Nat) (env : Env) (e : PErr)
    (hl : loopFreeB b = true) (hs : dumperShapeB b = true) (hd : depthB b ≤ n) (h : execBlock M env b = .error e)
    (hc : sameCatch e = true ∨ noTryB b = true) :
    ∃ env1, exec2B n M env b = ofPErr env1 e := by
  have := exec2B_eq_execBlock M b n env hl hs hd
  rw [h] at this
  exact this (by rcases hc with hc | hc <;> simp [hc])

/-- a function body that returns in the first semantics returns the same value, in the same environment, in the second -/
theorem run2_eq_runFn (M : Meths) (body : PBlock) (n : Nat) (env env' : Env) (v : PV)
    (hl : loopFreeB body = true) (hs : dumperShapeB body = true) (hd : depthB body ≤ n)
    (h : runFn M env body = .ok (v, env')) :
    run2 n M env body = .ok (.ret v env') := by
  unfold runFn at h
  unfold run2
  cases hx : execBlock M env body with
  | error e => rw [hx] at h; cases h
  | ok f =>
    rw [exec2B_of_execBlock_ok M body n env f hl hs hd hx]
    rw [hx] at h
    cases f with
    | next e1 => cases h; rfl
    | returned v1 e1 => cases h; rfl

/-- a function body that fails in the first semantics fails the same way in the second (same side condition as (b)) -/
theorem run2_of_runFn_error (M : Meths) (body : PBlock) (n : Nat) (env : Env) (e : PErr)
    (hl : loopFreeB body = true) (hs : dumperShapeB body = true) (hd : depthB body ≤ n)
    (h : runFn M env body = .error e) (hc : sameCatch e = true ∨ noTryB body = true) :
    ∃ env1, run2 n M env body = ofPErr env1 e := by
  unfold runFn at h
  unfold run2
  cases hx : execBlock M env body with
  | ok f => rw [hx] at h; cases f <;> cases h
  | error e' =>
    rw [hx] at h
    cases h
    obtain ⟨env1, h2⟩ := exec2B_of_execBlock_error M body n env e hl hs hd hx hc
    refine ⟨env1, ?_⟩
    rw [h2]
    rcases ofPErr_cases env1 e with ⟨cls, h3⟩ | ⟨e2, h3⟩ <;> rw [h3]

/-! ## the side condition of (b) cannot be dropped -/

/-- `try: x = 1 / 0  except Exception: pass`: the first semantics lets `ZeroDivisionError` through the handler (`except Exception` only
    catches `.exc _` there), the second catches it (as Python does). -/
theorem tryExcept_zeroDivision_differs :
    let b : PBlock := .cons (.tryExcept (.cons (.assign "x" (.binop .truediv (.int 1) (.int 0))) .nil) (.cons .pass .nil)) .nil
    loopFreeB b = true ∧ dumperShapeB b = true ∧ depthB b ≤ 5 ∧
    execBlock noMeths (fun _ => none) b = .error .zeroDivision ∧
    (∃ env1, exec2B 5 noMeths (fun _ => none) b = .ok (.next env1)) :=
  ⟨rfl, rfl, by decide, rfl, ⟨_, rfl⟩⟩

/-- the same with a named package exception raised by a callee: `try: f()  except Exception: pass` with `f` raising `queue.Empty` -/
theorem tryExcept_named_differs :
    let M : Meths := { fn := fun _ _ _ => .error (.unsupported "raise Empty"), proc := fun _ _ _ => .error (.unsupported "raise Empty") }
    let b : PBlock := .cons (.tryExcept (.cons (.expr (.call "f" .nil)) .nil) (.cons .pass .nil)) .nil
    loopFreeB b = true ∧ dumperShapeB b = true ∧ depthB b ≤ 5 ∧
    execBlock M (fun _ => none) b = .error (.unsupported "raise Empty") ∧
    (∃ env1, exec2B 5 M (fun _ => none) b = .ok (.next env1)) :=
  ⟨rfl, rfl, by decide, rfl, ⟨_, rfl⟩⟩

/-- ... and the shape condition cannot be dropped either: `try: x = 1; raise ValueError  except Exception: return x` returns `1` in the
    second semantics (handler in the environment at the raise point) and fails with `AttributeError` in the first (handler in the
    environment at `try` entry) -/
theorem tryExcept_shape_needed :
    let b : PBlock := .cons (.tryExcept (.cons (.assign "x" (.int 1)) (.cons (.raise "ValueError") .nil)) (.cons (.ret (.var "x")) .nil)) .nil
    loopFreeB b = true ∧ dumperShapeB b = false ∧
    execBlock noMeths (fun _ => none) b = .error (.exc .AttributeError) ∧
    (∃ env1, exec2B 6 noMeths (fun _ => none) b = .ok (.ret (pint 1) env1)) :=
  ⟨rfl, rfl, rfl, ⟨_, rfl⟩⟩

/-! ## fuel monotonicity (all statements, loops included) -/

theorem exec2_mono (M : Meths) : ∀ n : Nat,
    (∀ (env : Env) (s : PStmt) (o : Out), exec2S n M env s = .ok o → exec2S (n + 1) M env s = .ok o) ∧
    (∀ (env : Env) (b : PBlock) (o : Out), exec2B n M env b = .ok o → exec2B (n + 1) M env b = .ok o)
  | 0 => ⟨fun env s o h => (by rw [exec2S_zero] at h; cases h), fun env b o h => (by rw [exec2B_zero] at h; cases h)⟩
  | n + 1 => by
    obtain ⟨ihS, ihB⟩ := exec2_mono M n
    constructor
    · intro env s o h
      cases s with
      | ite c t e =>
        rw [exec2S_ite] at h ⊢
        cases hc : eval M env c with
        | error er => rw [hc] at h; exact h
        | ok v =>
          rw [hc] at h
          simp only at h ⊢
          cases ht : truthy v with
          | error er => rw [ht] at h; exact h
          | ok b =>
            rw [ht] at h
            simp only at h ⊢
            cases b with
            | true => exact ihB _ _ _ h
            | false => exact ihB _ _ _ h
      | tryExcept body handler =>
        rw [exec2S_tryExcept] at h ⊢
        cases hb : exec2B n M env body with
        | error er => rw [hb] at h; cases h
        | ok o1 =>
          rw [hb] at h
          rw [ihB _ _ _ hb]
          cases o1 with
          | raised x env1 => exact ihB _ _ _ h
          | next env1 => exact h
          | ret v env1 => exact h
          | brk env1 => exact h
      | tryCatch body cls handler =>
        rw [exec2S_tryCatch] at h ⊢
        cases hb : exec2B n M env body with
        | error er => rw [hb] at h; cases h
        | ok o1 =>
          rw [hb] at h
          rw [ihB _ _ _ hb]
          cases o1 with
          | raised x env1 =>
            simp only at h ⊢
            cases hcatch : catches cls x with
            | true => rw [hcatch] at h; exact ihB _ _ _ h
            | false => rw [hcatch] at h; exact h
          | next env1 => exact h
          | ret v env1 => exact h
          | brk env1 => exact h
      | while_ c body =>
        rw [exec2S_while] at h ⊢
        cases hc : eval M env c with
        | error er => rw [hc] at h; exact h
        | ok v =>
          rw [hc] at h
          simp only at h ⊢
          cases ht : truthy v with
          | error er => rw [ht] at h; exact h
          | ok b =>
            rw [ht] at h
            cases b with
            | false => exact h
            | true =>
              simp only at h ⊢
              cases hb : exec2B n M env body with
              | error er => rw [hb] at h; cases h
              | ok o1 =>
                rw [hb] at h
                rw [ihB _ _ _ hb]
                cases o1 with
                | next env1 => exact ihS _ _ _ h
                | raised x env1 => exact h
                | ret v env1 => exact h
                | brk env1 => exact h
      | break_ => exact h
      | tryFinally body fin =>
        have e1 : ∀ k, exec2S (k + 1) M env (.tryFinally body fin) =
            (match exec2B k M env body with
             | .error e => .error e
             | .ok o =>
               match exec2B k M o.env fin with
               | .ok (.next env2) => .ok (o.setEnv env2)
               | r => r) := fun _ => rfl
        rw [e1] at h ⊢
        cases hb : exec2B n M env body with
        | error er => rw [hb] at h; cases h
        | ok o1 =>
          rw [hb] at h
          rw [ihB _ _ _ hb]
          simp only at h ⊢
          cases hf : exec2B n M o1.env fin with
          | error er => rw [hf] at h; cases h
          | ok o2 =>
            rw [hf] at h
            rw [ihB _ _ _ hf]
            exact h
      | assign t e => exact h
      | ret e => exact h
      | retNone => exact h
      | raise c => exact h
      | assert_ e => exact h
      | expr e => exact h
      | pass => exact h
      | unsupported w => exact h
    · intro env b o h
      cases b with
      | nil => exact h
      | cons s rest =>
        rw [exec2B_cons] at h ⊢
        cases hs : exec2S n M env s with
        | error er => rw [hs] at h; cases h
        | ok o1 =>
          rw [hs] at h
          rw [ihS _ _ _ hs]
          cases o1 with
          | next env1 => exact ihB _ _ _ h
          | raised x env1 => exact h
          | ret v env1 => exact h
          | brk env1 => exact h

/-- one more unit of fuel does not change a run that ended -/
theorem exec2S_mono (n : Nat) (M : Meths) (env : Env) (s : PStmt) (o : Out) (h : exec2S n M env s = .ok o) :
    exec2S (n + 1) M env s = .ok o := (exec2_mono M n).1 env s o h
theorem exec2B_mono (n : Nat) (M : Meths) (env : Env) (b : PBlock) (o : Out) (h : exec2B n M env b = .ok o) :
    exec2B (n + 1) M env b = .ok o := (exec2_mono M n).2 env b o h

theorem exec2S_mono_le {n m : Nat} (hnm : n ≤ m) (M : Meths) (env : Env) (s : PStmt) (o : Out) (h : exec2S n M env s = .ok o) :
    exec2S m M env s = .ok o := by
  induction hnm with
  | refl => exact h
  | step _ ih => exact exec2S_mono _ M env s o ih
theorem exec2B_mono_le {n m : Nat} (hnm : n ≤ m) (M : Meths) (env : Env) (b : PBlock) (o : Out) (h : exec2B n M env b = .ok o) :
    exec2B m M env b = .ok o := by
  induction hnm with
  | refl => exact h
  | step _ ih => exact exec2B_mono _ M env b o ih

theorem run2_mono (n : Nat) (M : Meths) (env : Env) (body : PBlock) (o : Out) (h : run2 n M env body = .ok o) :
    run2 (n + 1) M env body = .ok o := by
  unfold run2 at h ⊢
  cases hb : exec2B n M env body with
  | error er => rw [hb] at h; cases h
  | ok o1 => rw [hb] at h; rw [exec2B_mono n M env body o1 hb]; exact h
theorem run2_mono_le {n m : Nat} (hnm : n ≤ m) (M : Meths) (env : Env) (body : PBlock) (o : Out) (h : run2 n M env body = .ok o) :
    run2 m M env body = .ok o := by
  induction hnm with
  | refl => exact h
  | step _ ih => exact run2_mono _ M env body o ih

end Isotp.Py

#print axioms Isotp.Py.exec2S_eq_execStmt
#print axioms Isotp.Py.exec2B_eq_execBlock
#print axioms Isotp.Py.exec2S_of_execStmt_ok
#print axioms Isotp.Py.exec2S_of_execStmt_error
#print axioms Isotp.Py.exec2B_of_execBlock_ok
#print axioms Isotp.Py.exec2B_of_execBlock_error
#print axioms Isotp.Py.run2_eq_runFn
#print axioms Isotp.Py.run2_of_runFn_error
#print axioms Isotp.Py.tryExcept_zeroDivision_differs
#print axioms Isotp.Py.tryExcept_named_differs
#print axioms Isotp.Py.tryExcept_shape_needed
#print axioms Isotp.Py.exec2S_mono
#print axioms Isotp.Py.exec2B_mono
#print axioms Isotp.Py.exec2S_mono_le
#print axioms Isotp.Py.exec2B_mono_le
#print axioms Isotp.Py.run2_mono
#print axioms Isotp.Py.run2_mono_le
