"""C13 - threaded layer: concurrent senders get exactly-once, per-thread-ordered delivery (trace validation against real threads)."""
import sys
import time
import threading
import queue
import random
import gen
import ref
import trace
from props.base import PropBase

BIG_TIMEOUT_MS = 20000


def run_threaded(sc):
    import core
    import threadrun
    import isotp
    threadrun.install_clock()
    sys.setswitchinterval(1e-5)
    # (a scenario reloaded from a JSON replay / corpus file has string keys and lists)
    sc['senders'] = {int(k): [[(int(r), bytes(p)) for (r, p) in items] for items in v] for k, v in sc['senders'].items()}
    rng = random.Random(sc['seed'])
    rec = threadrun.Recorder()
    kind = sc['transport']
    lat = sc['latency']
    a, b = sc['addrs']
    params = [dict(sc['params'][0]), dict(sc['params'][1])]
    errors = {0: [], 1: []}
    layers = []
    cleanup = []
    bad_pycan = []

    def jitter():
        if lat and rng.random() < 0.3:
            time.sleep(rng.random() * lat)

    def mk_err(i):
        def h(e):
            jitter()
            errors[i].append(type(e).__name__)
        return h

    def wait_func(x):
        jitter()
        time.sleep(x)

    for p in params:
        p['wait_func'] = wait_func if lat else time.sleep
        p['rx_flowcontrol_timeout'] = sc.get('fc_timeout_ms', BIG_TIMEOUT_MS)
        p['rx_consecutive_frame_timeout'] = sc.get('cf_timeout_ms', BIG_TIMEOUT_MS)

    # schedule perturbation at the synchronisation points of the threaded layer: the `threading.Event` and `queue.Queue`
    # objects that isotp.protocol creates from now on (per-request completion events, ...) yield the CPU for a moment right
    # AFTER set() / clear() / put() with some probability, which exposes orderings such as "event signalled before the
    # outcome is stored" or "completion cleared after the request was published" that free-running threads almost never hit
    restore = []
    if sc.get('perturb'):
        import isotp.protocol as proto
        prng = random.Random(sc['seed'] ^ 0x5EED)
        plock = threading.Lock()

        def nap():
            with plock:
                go = prng.random() < sc['perturb']
            if go:
                time.sleep(0.003)

        class PEvent(threading.Event):
            quiet = False       # the layer's own lifecycle events are made quiet below: only per-request events perturb

            def set(self):
                threading.Event.set(self)
                if not self.quiet:
                    nap()

            def clear(self):
                threading.Event.clear(self)
                if not self.quiet:
                    nap()

        class PQueue(queue.Queue):
            def put(self, item, *a, **k):
                r = queue.Queue.put(self, item, *a, **k)
                if hasattr(item, 'complete_event'):      # a send request being published (not bus frames / payloads)
                    nap()
                return r

        class Shim:
            def __init__(self, mod, **over):
                self._mod = mod
                self.__dict__.update(over)

            def __getattr__(self, n):
                return getattr(self._mod, n)
        restore = [('threading', proto.threading), ('queue', proto.queue)]
        proto.threading = Shim(threading, Event=PEvent)
        proto.queue = Shim(queue, Queue=PQueue)

    if kind in ('queue_blocking', 'queue_legacy'):
        q = {0: queue.Queue(), 1: queue.Queue()}     # q[i]: frames travelling to layer i

        def mk_rx(i):
            if kind == 'queue_blocking':
                def rxfn(timeout):
                    jitter()
                    try:
                        return q[i].get(timeout=timeout) if timeout and timeout > 0 else q[i].get_nowait()
                    except queue.Empty:
                        return None
                return rxfn

            def rxfn0():
                jitter()
                try:
                    return q[i].get_nowait()
                except queue.Empty:
                    return None
            return rxfn0

        fault = sc.get('fault')         # {'side': i, 'kind': 'drop' | 'dup', 'n': k}: the k-th frame emitted by layer i is lost / doubled
        emitted_n = {0: 0, 1: 0}

        def mk_tx(i):
            def txfn(m):
                jitter()
                k = emitted_n[i]
                emitted_n[i] = k + 1
                if fault and fault['side'] == i and fault['n'] == k:
                    sc['_fault_frame'] = bytes(m.data)
                    if fault['kind'] == 'drop':
                        return
                    q[1 - i].put(m)
                q[1 - i].put(m)
            return txfn
        for i, ad in ((0, a), (1, b)):
            L = isotp.TransportLayer(mk_rx(i), mk_tx(i), core.make_address(ad), mk_err(i), params[i], read_timeout=sc['read_timeout'])
            layers.append(L)

        def noise(msg, special=None):
            if special is None:         # raw queues cannot carry error / remote frames
                q[0].put(msg)
                q[1].put(msg)
    else:
        import can
        chan = 'verif_%d_%d' % (sc['seed'], threading.get_ident())
        fd = bool(params[0].get('can_fd'))
        buses = [can.interface.Bus(chan, interface='virtual', receive_own_messages=False, is_fd=fd) for _ in range(2)]
        noise_bus = can.interface.Bus(chan, interface='virtual', receive_own_messages=False, is_fd=fd)
        cleanup.extend(buses + [noise_bus])

        def checked(bus):
            # the virtual bus accepts anything; a real driver does not: every message the adapters hand to bus.send() must be a valid
            # python-can message by python-can's own rule (can.Message(check=True): DLC = number of data bytes, FD flags consistent)
            orig = bus.send

            def send(msg, timeout=None):
                try:
                    can.Message(arbitration_id=msg.arbitration_id, data=msg.data, dlc=msg.dlc, is_extended_id=msg.is_extended_id,
                                is_fd=msg.is_fd, bitrate_switch=msg.bitrate_switch, is_remote_frame=msg.is_remote_frame, check=True)
                except ValueError as e:
                    bad_pycan.append('dlc=%s len=%d fd=%s: %s' % (msg.dlc, len(msg.data), msg.is_fd, e))
                return orig(msg, timeout)
            bus.send = send
        for bus in buses:
            checked(bus)
        for i, ad in ((0, a), (1, b)):
            if kind == 'canstack' and sc.get('set_bus'):
                # the bus is replaced with the documented set_bus() after construction: everything - reception AND transmission, data and
                # Flow Control - must follow the bus the stack holds NOW (the decoy, on a channel of its own, must stay silent)
                decoy = can.interface.Bus(chan + '_decoy', interface='virtual', receive_own_messages=False, is_fd=fd)
                cleanup.append(decoy)
                L = isotp.CanStack(decoy, address=core.make_address(ad), error_handler=mk_err(i), params=params[i], read_timeout=sc['read_timeout'])
                L.set_bus(buses[i])
            elif kind == 'canstack':
                L = isotp.CanStack(buses[i], address=core.make_address(ad), error_handler=mk_err(i), params=params[i], read_timeout=sc['read_timeout'])
            else:
                notifier = can.Notifier(buses[i], [], timeout=0.05)
                cleanup.append(notifier)
                L = isotp.NotifierBasedCanStack(buses[i], notifier, address=core.make_address(ad), error_handler=mk_err(i), params=params[i],
                                                read_timeout=sc['read_timeout'])
            layers.append(L)

        def noise(msg, special=None):
            kw = dict(arbitration_id=msg.arbitration_id, data=msg.data, is_extended_id=msg.is_extended_id, is_fd=fd and len(msg.data) > 8)
            kind_n = rng.random()
            if special == 'error':
                kind_n = 0.1
            elif special == 'remote':
                kind_n = 0.3
                kw['is_fd'] = False
            if kind_n < 0.2:
                kw['is_error_frame'] = True
            elif kind_n < 0.4 and not kw['is_fd']:
                kw['is_remote_frame'] = True
                kw['data'] = b''
            try:
                noise_bus.send(can.Message(**kw))
            except Exception:
                pass

    if sc.get('perturb'):
        for L in layers:
            for v in vars(L.events).values():
                if isinstance(v, threading.Event):
                    v.quiet = True

    layer_lines = []
    for i, (L, ad) in enumerate(zip(layers, (a, b))):
        threadrun.instrument(rec, i, L)
        toks = ['layer', str(i)] + core.all_addr_tokens(ad) + [t for t in core.cfg_tokens(L) if not t.startswith('blocking=')] + ['blocking=0']
        layer_lines.append(' '.join(toks))

    for L in layers:
        L.start()
    received = {0: [], 1: []}
    send_exc = []
    send_exc_by_id = {}
    stop_flag = threading.Event()

    def sender(i, items):
        d = (sc.get('send_delay') or {}).get(i, (sc.get('send_delay') or {}).get(str(i), 0))
        if d:
            time.sleep(d)       # this side's users start sending later: the peer is already in the middle of its own transmission
        for (rid, payload) in items:
            threadrun._tl.cur_id = rid
            try:
                if layers[i].params.blocking_send:
                    layers[i].send(bytearray(payload), send_timeout=20)
                else:
                    layers[i].send(bytearray(payload))
            except Exception as e:
                send_exc.append('%s' % type(e).__name__)
                send_exc_by_id[rid] = type(e).__name__
            if lat:
                time.sleep(rng.random() * lat)

    def noiser():
        while not stop_flag.is_set():
            fid = rng.randrange(0x800)
            ext = rng.random() < 0.3
            if ext:
                fid = rng.randrange(1 << 29)
            m = isotp.CanMessage(arbitration_id=fid, data=bytes(rng.randrange(256) for _ in range(rng.randrange(0, 9))), extended_id=ext)
            # never a DATA frame with an id of the conversation
            if not (ref.reception_condition(ref.half(a, 'rx'), fid, ext, m.data) or ref.reception_condition(ref.half(b, 'rx'), fid, ext, m.data)):
                noise(m)
            if rng.random() < 0.3:
                # ... but error and remote frames ON the conversation's identifiers are "unrelated" traffic too and must be ignored
                h = ref.half(rng.choice([a, b]), 'rx')
                cid = ref.emitted_id(ref.half(b if h is ref.half(a, 'rx') else a, 'tx'))
                m2 = isotp.CanMessage(arbitration_id=cid, data=b'', extended_id=h['mode'] in ref.MODE_29)
                noise(m2, special=rng.choice(['error', 'remote']))
            time.sleep(0.002)

    threads = []
    for i in (0, 1):
        for items in sc['senders'][i]:
            threads.append(threading.Thread(target=sender, args=(i, items), daemon=True))
    nt = None
    if sc['noise']:
        nt = threading.Thread(target=noiser, daemon=True)
        nt.start()
    for t in threads:
        t.start()
    expected = {1: sum(len(x) for x in sc['senders'][0]), 0: sum(len(x) for x in sc['senders'][1])}
    if sc.get('stop_midflight'):
        # the callers are blocked in send() (the peer never answers): stop() must fail their requests and wake them up
        time.sleep(0.25)
        t_stop = time.time()
        layers[0].stop()
        for t in threads:
            t.join(timeout=max(0.0, 3.0 - (time.time() - t_stop)))
    deadline = time.time() + 60
    while time.time() < deadline:
        for i in (0, 1):
            while True:
                r = layers[i].recv()
                if r is None:
                    break
                received[i].append(bytes(r))
        if all(len(received[i]) >= expected[i] for i in (0, 1)) and not any(t.is_alive() for t in threads):
            break
        if sc.get('abort_variant') and not any(t.is_alive() for t in threads):
            break
        if sc.get('fault') and not any(t.is_alive() for t in threads) and time.time() > deadline - 60 + 0.3:
            # a message may legitimately be missing: wait until both layers are idle again (timeouts are short in these scenarios)
            if not any(L.transmitting() or L.is_rx_active() for L in layers) and all(L.tx_queue.empty() for L in layers):
                time.sleep(0.05)
                if not any(L.transmitting() or L.is_rx_active() for L in layers):
                    break
            if time.time() > deadline - 60 + sc.get('fault_wait_s', 8):
                break
        time.sleep(0.002)
    time.sleep(0.02)
    for i in (0, 1):
        while True:
            r = layers[i].recv()
            if r is None:
                break
            received[i].append(bytes(r))
    stop_flag.set()
    sc['_idle_end'] = [not (L.transmitting() or L.is_rx_active()) for L in layers] if sc.get('fault') else None
    with rec.lock:
        cut = len(rec.log)
    t0 = time.time()
    for L in layers:
        L.stop()
    stop_s = time.time() - t0
    rec.log = rec.log[:cut]
    for c in cleanup:
        if hasattr(c, 'add_listener'):
            try:
                c.stop()
            except Exception:
                pass
    for c in cleanup:
        if not hasattr(c, 'add_listener'):
            try:
                c.shutdown()
            except Exception:
                pass
    alive = [t.name for t in threads if t.is_alive()]
    if restore:
        import isotp.protocol as proto
        for name, val in restore:
            setattr(proto, name, val)
    li, lo = threadrun.build_lines(rec, layer_lines)
    sc['_result'] = {'bad_pycan': bad_pycan[:3], 'received': received, 'errors': errors, 'send_exc': send_exc, 'send_exc_by_id': send_exc_by_id, 'stuck_senders': alive, 'stop_s': stop_s,
                     'steps': len(rec.log)}
    return li, lo


class C13(PropBase):
    id = 'C13'
    lean_modules = ['Isotp.Props.C13']
    theorems = []
    keep_ops = ()
    rule = ('real threads: two started peers (raw queues with blocking rxfn(timeout) or legacy rxfn(), CanStack and NotifierBasedCanStack over the '
            'python-can virtual bus, CAN FD on/off), 1-4 sender threads per side, switch interval 10 us, random latency in rxfn / txfn / wait_func / '
            'error handler, read_timeout varied, bus noise (foreign ids, error and remote frames), blocking and non-blocking send; every micro-step '
            'of both logic layers is recorded with a global sequence number and replayed through the Lean model; deliveries judged for exactly-once '
            'per-thread order; distinct = (transport, thread counts, payload sizes, latency, noise)')
    assumptions = ['OS scheduling, the GIL, queue.Queue, threading.Event and the python-can virtual bus are modelled by contract',
                   'protocol timeouts (20 s) far above any scheduling delay', 'real schedules are sampled, not enumerated']
    extra_trusted = ['instance-level wrappers of _process_rx/_process_tx/_check_timeouts_rx/rate_limiter.update/tx_queue.put record the schedule; '
                     'the clock is frozen during each micro-step']
    quick_per_shard = 2
    thorough_per_shard = 90

    def scenario(self, rng, tier):
        a, b = gen.rand_addr_pair(rng, asym_prob=0.1)
        transport = rng.choice(['queue_blocking', 'queue_blocking', 'queue_legacy', 'canstack', 'notifier'])
        fd = rng.random() < 0.3
        pa, pb = {}, {}
        for p in (pa, pb):
            p['blocksize'] = rng.choice([0, 2, 8, 8])
            p['stmin'] = rng.choice([0, 0, 0, 0xF1])
            if fd:
                p['can_fd'] = True
                p['tx_data_length'] = rng.choice([8, 16, 64])
            if rng.random() < 0.3:
                p['tx_padding'] = 0xAA
            if rng.random() < 0.3:
                p['blocking_send'] = True
        senders = {0: [], 1: []}
        rid = 0
        for side in (0, 1):
            for t in range(rng.choice([1, 2, 3, 4]) if side == 0 else rng.choice([0, 1, 2])):
                items = []
                for k in range(rng.choice([1, 2, 4])):
                    rid += 1
                    n = rng.choice([1, 3, 7, 8, 20, 50, 100, 150])
                    # payload carries (thread, index) so that per-thread order can be judged
                    body = bytes([side, t, k]) + gen.rand_payload(rng, max(0, n - 3))
                    items.append((rid, body))
                senders[side].append(items)
        return {'ops': [], 'seed': rng.randrange(1 << 30), 'transport': transport, 'addrs': (a, b), 'params': (pa, pb), 'senders': senders,
                'latency': rng.choice([0, 0, 0.0005, 0.002]), 'read_timeout': rng.choice([0.005, 0.05, 0.2]), 'noise': rng.random() < 0.5,
                'perturb': rng.choice([0, 0.3, 0.6]), 'set_bus': transport == 'canstack' and rng.random() < 0.5}

    def enumerate(self, tier):
        """full duplex, both transmissions paced by a non-zero STmin: each layer streams its Consecutive Frames for longer than N_Cr while it
        is itself in the middle of a reception - it has to keep reading the bus between its own frames (N_Cr 1500 ms against 40 ms
        between frames: far above any scheduling delay seen, also on a loaded machine)"""
        a = {'mode': 0, 'txid': 0x123, 'rxid': 0x456}
        b = {'mode': 0, 'txid': 0x456, 'rxid': 0x123}
        for k, transport in enumerate(['queue_blocking', 'queue_legacy', 'canstack'] if tier == 'quick' else
                                      ['queue_blocking', 'queue_legacy', 'canstack', 'notifier'] * 3):
            n = 330 + 7 * k
            senders = {0: [[(1, bytes([0, 0, 0]) + bytes([0x11] * n))]], 1: [[(2, bytes([1, 0, 0]) + bytes([0x22] * n))]]}
            yield {'ops': [], 'seed': 4242 + k, 'transport': transport, 'addrs': (a, b),
                   'params': ({'blocksize': 0, 'stmin': 40}, {'blocksize': 0, 'stmin': 40}), 'senders': senders, 'latency': 0,
                   'read_timeout': 0.05, 'noise': False, 'perturb': 0, 'cf_timeout_ms': 1500, 'fc_timeout_ms': 5000}

        # late joiner: layer 0 is already STREAMING its Consecutive Frames (paced by the peer's STmin, nothing being received) when the peer's
        # user sends a multi-frame message of its own.  The First Frame must be answered while the stream goes on - the default-sized N_Bs
        # (1 s) of the peer is far below the time the stream still lasts (about 2.4 s), and far above any scheduling delay.
        for k, transport in enumerate(['queue_blocking', 'canstack'] if tier == 'quick' else ['queue_blocking', 'queue_legacy', 'canstack', 'notifier'] * 2):
            senders = {0: [[(1, bytes([0, 0, 0]) + bytes([0x33] * 200))]], 1: [[(2, bytes([1, 0, 0]) + bytes([0x44] * 40))]]}
            yield {'ops': [], 'seed': 4300 + k, 'transport': transport, 'addrs': (a, b),
                   'params': ({'blocksize': 0, 'stmin': 0}, {'blocksize': 0, 'stmin': 80}), 'senders': senders, 'latency': 0,
                   'read_timeout': 0.05, 'noise': False, 'perturb': 0, 'cf_timeout_ms': 5000, 'fc_timeout_ms': 1000, 'send_delay': {1: 0.5}}

        # CAN FD frames longer than 8 bytes through the python-can adapters (DLC code vs byte count)
        for k, (transport, txdl) in enumerate([('canstack', 64), ('notifier', 12)] if tier == 'quick' else
                                              [('canstack', 64), ('notifier', 12), ('canstack', 16), ('notifier', 48), ('canstack', 24), ('notifier', 64)]):
            senders = {0: [[(1, bytes([0, 0, 0]) + bytes([0x55] * 150)), (2, bytes([0, 0, 1]) + bytes([0x56] * 9))]], 1: [[(3, bytes([1, 0, 0]) + bytes([0x66] * 70))]]}
            fdp = {'blocksize': 4, 'stmin': 0, 'can_fd': True, 'tx_data_length': txdl, 'tx_padding': 0xCC if k % 2 else None}
            fdp = {kk: v for kk, v in fdp.items() if v is not None}
            yield {'ops': [], 'seed': 4400 + k, 'transport': transport, 'addrs': (a, b), 'params': (dict(fdp), dict(fdp)), 'senders': senders,
                   'latency': 0, 'read_timeout': 0.05, 'noise': False, 'perturb': 0}

        # CanStack whose bus was replaced with set_bus() before start(): both directions, segmented and unsegmented
        for k in range(1 if tier == 'quick' else 4):
            senders = {0: [[(1, bytes([0, 0, 0]) + bytes([0x77] * (30 + 9 * k))), (2, bytes([0, 0, 1]) + bytes([0x78] * 2))]],
                       1: [[(3, bytes([1, 0, 0]) + bytes([0x79] * (20 + 5 * k)))]]}
            yield {'ops': [], 'seed': 4500 + k, 'transport': 'canstack', 'addrs': (a, b), 'params': ({'blocksize': 2, 'stmin': 0}, {'blocksize': 0, 'stmin': 0}),
                   'senders': senders, 'latency': 0, 'read_timeout': 0.05, 'noise': False, 'perturb': 0, 'set_bus': True}

    def run_impl(self, sc):
        return run_threaded(sc)

    def project(self, op_line, out_line):
        import threadrun
        return threadrun.strip_status(out_line)

    def judge(self, sc, lines_in, impl_out):
        res = sc.get('_result')
        out = []
        if res is None:
            return [('harness', 'no result')]
        for i in (0, 1):
            if res['errors'][i]:
                out.append(('no_error', 'layer %d reported %s' % (i, res['errors'][i][:3])))
        if res.get('bad_pycan'):
            out.append(('unmodified', 'the adapter handed python-can a message that python-can itself rejects (check=True): %s' % res['bad_pycan'][:2]))
        if res['send_exc']:
            out.append(('send', 'send() raised %s' % res['send_exc'][:3]))
        if res['stuck_senders']:
            out.append(('send', 'sender threads still blocked: %s' % res['stuck_senders']))
        for s, d in ((0, 1), (1, 0)):
            sent = [p for items in sc['senders'][s] for (_, p) in items]
            got = res['received'][d]
            if sorted(got) != sorted(sent):
                out.append(('exactly_once', 'layer %d sent %d payloads, layer %d received %d (missing %d, unexpected %d)' % (
                    s, len(sent), d, len(got), len([p for p in sent if p not in got]), len([p for p in got if p not in sent]))))
                continue
            for t, items in enumerate(sc['senders'][s]):
                order = [p for p in got if p[:2] == bytes([s, t])]
                if order != [p for (_, p) in items]:
                    out.append(('thread_order', 'payloads of sender thread %d of layer %d arrived out of order' % (t, s)))
        return out[:4]

    def nontrivial_key(self, sc, lines_in, impl_out):
        return (sc['transport'], tuple(len(x) for x in sc['senders'][0]), tuple(len(x) for x in sc['senders'][1]), sc['latency'], sc['noise'], sc['seed'])

    def tally(self, dist, sc, lines_in, impl_out):
        k = 'transport:' + sc['transport']
        dist[k] = dist.get(k, 0) + 1
        dist['microsteps'] = dist.get('microsteps', 0) + (sc.get('_result') or {}).get('steps', 0)


PROP = C13()
