import Isotp.Proofs.Lockstep
/-
  C01, liveness half — "when … both are processed regularly, every non-empty payload accepted by send() on one side
  is returned by recv() on the other side": on the canonical cooperative schedule a transfer actually COMPLETES.
  (The safety half — nothing wrong is ever delivered — is Isotp/Props/C01.lean.)

  Setting. Two freshly constructed layers A (layer 0, sender) and B (layer 1, receiver) of the network the driver
  runs (`Net`, Isotp/Net.lean): `net0 ca cb aa ab`. `A.send(p)` for a bytes payload `p`, then rounds
      round := A.process(); deliver all A emitted to B; B.process(); deliver all B emitted to A; tick dt
  (`canonRound`, `canonRounds`: literally these `Net.onLayer` / `Net.deliver` / `Net.tick` operations).
  Hypotheses (`Scenario`): both configurations valid, B not in listen mode, the two addresses well-formed and
  mirrored (`Compose.Link` in both directions), a valid (non-reserved) STmin byte at B, `|p| < 2^32`,
  `|p| ≤ max_frame_size` of B, and the timing of the schedule:
      eff < dt,   dt ≤ tFc(A),   gap ≤ tCf(B)   with gap = dt if eff = 0, 2·dt if eff > 0   (`gapOf`)
  where `eff = effOf ca cb` is the separation time A has to respect (`override_receiver_stmin` of A if set, else the
  STmin B announces). The two ticks are really needed when eff > 0: after a Flow Control A lets one whole round
  pass before the next Consecutive Frame (the STmin timer is started when the FC is handled), so B sees gaps of
  two ticks; with `dt < tCf < 2·dt` the transfer fails (last example of this file). These are the exact
  conditions under which no N_Bs / N_Cr timer fires on this schedule.
  Moreover: rate limiter off at A, `1 ≤ |p|`, and `send` accepted the payload (returned None).

  Results (all for ANY blocksize 0..255, ANY valid stmin, with or without override, any addressing mode, any
  tx_data_length / padding, Single Frame or segmented):
  * `transfer_completes`: after `N ≥ roundsFor ca cb aa p` rounds B's rx queue is exactly `[p]` (so `recv()` returns
    `p`), B is idle, A is idle with nothing queued, `complete(True)` was reported to A's request, no error event on
    either side, both links and both inboxes empty, clock = N·dt.
    `roundsFor` = 1 for a Single Frame; for a message of `n` frames (First Frame + `n-1` Consecutive Frames) and
    `blocks = ⌈(n-1)/blocksize⌉` (1 if blocksize = 0):  `1 + blocks` when eff = 0,  `n + blocks` when eff > 0.
  * `progress_each_round`: while the transfer is not finished every round strictly decreases the measure
    2·(frames not yet delivered) + (1 if the sender waits for a Flow Control)  — no deadlock on this schedule.
  * `not_before`: the bound is sharp — before `roundsFor` rounds nothing has been delivered.
  * `single_frame_completes`, `transfer_completes_default` (dt = STmin + 1 ns, no override): corollaries.
  The lockstep invariant and the abstract machine are in Isotp/Proofs/Lockstep*.lean.
-/
namespace Isotp.C01live
open Isotp Isotp.State Isotp.Spec Isotp.Proofs Isotp.Lockstep

/-! ## the statement -/

/-- "The transfer of `p` (request `id`) has completed": network `d`, events of A / of B over all rounds. -/
def Completed (id : Nat) (p : Bytes) (d : Net) (evA evB : List Ev) : Prop :=
  ∃ a b, d.layers = #[a, b] ∧ d.outbox = #[[], []] ∧
    -- B has delivered exactly `p` and is idle
    b.rxQueue = [p] ∧ b.recv.2 = some p ∧ b.rxState = .idle ∧ b.inbox = [] ∧
    -- A is idle again, the request was completed with success
    a.txState = .idle ∧ a.active = none ∧ a.txQueue = [] ∧ a.inbox = [] ∧ Ev.done id true ∈ evA ∧
    -- no error event on either side
    (∀ t e, Ev.err t e ∉ evA) ∧ (∀ t e, Ev.err t e ∉ evB)

/-- the hypotheses in the vocabulary of C01: `Compose.Link` in both directions -/
theorem scenario_of_links (ca cb : Cfg) (aa ab : Addr) (p : Bytes) (dt : Nat)
    (hAB : Compose.Link ca aa (State.init cb ab)) (hBA : Compose.Link cb ab (State.init ca aa))
    (hl : cb.listen = false) (hst : validStmin cb.stmin = true) (h32 : p.length < 4294967296)
    (hmax : p.length ≤ cb.maxFrameSize) (hsep : effOf ca cb < dt) (htFc : dt ≤ ca.tFc)
    (htCf : gapOf ca cb dt ≤ cb.tCf) :
    Scenario ca cb aa ab p dt :=
  ⟨hAB.cfgA, hBA.cfgA, hl, hAB.addrA, hBA.addrA, hAB.mirror, hBA.mirror, hst, h32, hmax, hsep, htFc, htCf⟩

/-- The general liveness statement. -/
def C01live_statement : Prop :=
  ∀ (ca cb : Cfg) (aa ab : Addr) (id : Nat) (p : Bytes) (dt : Nat),
    Scenario ca cb aa ab p dt → ca.rlEnable = false → 1 ≤ p.length →
    ((State.init ca aa).send { id := id, size := p.length, src := p }).2 = none →
    ∀ N, roundsFor ca cb aa p ≤ N →
      ∃ d0 d evA evB, startNet ca cb aa ab id p = some (d0, none) ∧ canonRounds dt N d0 = some (d, evA, evB) ∧
        Completed id p d evA evB ∧ d.now = N * dt

/-! ## the theorems -/

/-- **C01 (liveness).** On the canonical cooperative schedule the transfer of every accepted non-empty payload
    completes within `roundsFor` rounds (and stays completed): B returns exactly `p`, A's request completes with
    success, both sides idle, no error event. Any blocksize, any valid STmin (with or without override), Single
    Frame or segmented. -/
theorem transfer_completes : C01live_statement := by
  intro ca cb aa ab id p dt hS hrl h1 hacc N hN
  obtain ⟨fcm, hfc⟩ := fc_facts ca cb aa ab p dt hS
  obtain ⟨hl, hA, hB, hd, hn⟩ := rounds_complete ca cb aa ab id p dt hS h1 fcm hfc N hN
  obtain ⟨x, y, hqa, hqb, hab, hba, ⟨hst, hq, -, -, hact, hib⟩, ⟨hD, hyib⟩⟩ := hl
  refine ⟨_, _, _, _, startNet_eq ca cb aa ab id p hrl hacc, canonRounds_toNet dt N _, ?_, hn⟩
  refine ⟨_, _, rfl, ?_, ?_, ?_, ?_, ?_, ?_, ?_, ?_, ?_, hd, hA, hB⟩
  · show #[_, _] = #[[], []]
    rw [hab, hba]
  · rw [hqb]; exact hD.queue
  · rw [hqb]
    have : (mkB cb ab y).rxQueue = [p] := hD.queue
    simp [State.recv, this]
  · rw [hqb]; exact hD.st
  · rw [hqb]; exact hyib
  · rw [hqa]; exact hst
  · rw [hqa]; exact hact
  · rw [hqa]; exact hq
  · rw [hqa]; exact hib

/-- the schedule of the task statement: tick = (STmin announced by B) + 1 ns, no `override_receiver_stmin` at A,
    timeouts longer than the schedule needs -/
theorem transfer_completes_default (ca cb : Cfg) (aa ab : Addr) (id : Nat) (p : Bytes)
    (hAB : Compose.Link ca aa (State.init cb ab)) (hBA : Compose.Link cb ab (State.init ca aa))
    (hov : ca.overrideStminNs = none) (hrl : ca.rlEnable = false) (hl : cb.listen = false)
    (hst : validStmin cb.stmin = true) (h1 : 1 ≤ p.length) (h32 : p.length < 4294967296)
    (hmax : p.length ≤ cb.maxFrameSize)
    (htFc : stminNs cb.stmin + 1 ≤ ca.tFc)
    (htCf : (if stminNs cb.stmin = 0 then 1 else 2 * (stminNs cb.stmin + 1)) ≤ cb.tCf)
    (hacc : ((State.init ca aa).send { id := id, size := p.length, src := p }).2 = none) :
    ∃ d0 d evA evB, startNet ca cb aa ab id p = some (d0, none) ∧
      canonRounds (stminNs cb.stmin + 1) (roundsFor ca cb aa p) d0 = some (d, evA, evB) ∧
      Completed id p d evA evB := by
  have heff : effOf ca cb = stminNs cb.stmin := by simp [effOf, Fc.sepOf, hov]
  have hgap : gapOf ca cb (stminNs cb.stmin + 1) = if stminNs cb.stmin = 0 then 1 else 2 * (stminNs cb.stmin + 1) := by
    unfold gapOf; rw [heff]; split <;> simp_all
  have hS := scenario_of_links ca cb aa ab p (stminNs cb.stmin + 1) hAB hBA hl hst h32 hmax (by omega) htFc
    (by rw [hgap]; exact htCf)
  obtain ⟨d0, d, evA, evB, h0, hr, hc, -⟩ := transfer_completes ca cb aa ab id p _ hS hrl h1 hacc _ (Nat.le_refl _)
  exact ⟨d0, d, evA, evB, h0, hr, hc⟩

/-- a payload that fits a Single Frame is delivered in one round -/
theorem single_frame_completes (ca cb : Cfg) (aa ab : Addr) (id : Nat) (p : Bytes) (dt : Nat)
    (hS : Scenario ca cb aa ab p dt) (hrl : ca.rlEnable = false) (h1 : 1 ≤ p.length)
    (hsf : sfShort (TxCfg.of ca aa) p.length ∨ sfEscape (TxCfg.of ca aa) p.length)
    (hacc : ((State.init ca aa).send { id := id, size := p.length, src := p }).2 = none) :
    ∃ d0 d evA evB, startNet ca cb aa ab id p = some (d0, none) ∧ canonRounds dt 1 d0 = some (d, evA, evB) ∧
      Completed id p d evA evB := by
  have hnff : ¬ NeedsFF (TxCfg.of ca aa) p.length := by
    intro ⟨h1, h2⟩; rcases hsf with h | h
    · exact h1 h
    · exact h2 h
  have hr : roundsFor ca cb aa p = 1 := by
    unfold roundsFor roundsNeeded
    rw [nFrames_sf ca aa p hnff]; rfl
  obtain ⟨d0, d, evA, evB, h0, hrr, hc, -⟩ := transfer_completes ca cb aa ab id p dt hS hrl h1 hacc 1 (by rw [hr]; exact Nat.le_refl 1)
  exact ⟨d0, d, evA, evB, h0, hrr, hc⟩

/-- **No deadlock on this schedule.** After any number `i` of rounds: if the measure
    `2·(frames not yet delivered) + [sender waits for a Flow Control]` is 0 the payload has been delivered and the
    sender is idle; otherwise the next round strictly decreases it. -/
theorem progress_each_round (ca cb : Cfg) (aa ab : Addr) (id : Nat) (p : Bytes) (dt : Nat)
    (hS : Scenario ca cb aa ab p dt) (hrl : ca.rlEnable = false) (h1 : 1 ≤ p.length)
    (hacc : ((State.init ca aa).send { id := id, size := p.length, src := p }).2 = none) (i : Nat) :
    ∃ d0 d d' eA eB eA' eB' a b a' b', startNet ca cb aa ab id p = some (d0, none) ∧
      canonRounds dt i d0 = some (d, eA, eB) ∧ canonRound d dt = some (d', eA', eB') ∧
      d.layers = #[a, b] ∧ d'.layers = #[a', b'] ∧
      (progressMeasure (nFrames (TxCfg.of ca aa) p) a b = 0 → b.rxQueue = [p] ∧ a.txState = .idle) ∧
      (progressMeasure (nFrames (TxCfg.of ca aa) p) a b ≠ 0 →
        progressMeasure (nFrames (TxCfg.of ca aa) p) a' b' < progressMeasure (nFrames (TxCfg.of ca aa) p) a b) := by
  obtain ⟨fcm, hfc⟩ := fc_facts ca cb aa ab p dt hS
  obtain ⟨hl, ho⟩ := rounds_lock ca cb aa ab id p dt hS h1 fcm hfc i
  have hm := measure_of_lock ca cb aa ab id p dt fcm _ _ hl
  refine ⟨_, _, _, _, _, _, _, _, _, _, _, startNet_eq ca cb aa ab id p hrl hacc, canonRounds_toNet dt i _,
    canonRound_toNet _ dt, rfl, rfl, ?_, ?_⟩
  · intro h0
    rw [hm] at h0
    have hD := lock_measure_zero ca cb aa ab id p dt hS.va fcm _ _ ho hl h0
    rw [hD] at hl
    obtain ⟨x, y, hqa, hqb, -, -, ⟨hst, -⟩, ⟨hDb, -⟩⟩ := hl
    exact ⟨by rw [hqb]; exact hDb.queue, by rw [hqa]; exact hst⟩
  · intro hne
    refine round_progress ca cb aa ab id p dt hS h1 fcm hfc _ _ ho hl ?_
    intro hD
    apply hne
    rw [hm, hD]; rfl

/-- **The bound is sharp**: before `roundsFor` rounds have passed nothing has been delivered yet (B's rx queue is
    empty), so `roundsFor` is exactly the number of rounds the transfer takes on this schedule. -/
theorem not_before (ca cb : Cfg) (aa ab : Addr) (id : Nat) (p : Bytes) (dt : Nat)
    (hS : Scenario ca cb aa ab p dt) (hrl : ca.rlEnable = false) (h1 : 1 ≤ p.length)
    (hacc : ((State.init ca aa).send { id := id, size := p.length, src := p }).2 = none)
    (i : Nat) (hi : i < roundsFor ca cb aa p) :
    ∃ d0 d evA evB a b, startNet ca cb aa ab id p = some (d0, none) ∧ canonRounds dt i d0 = some (d, evA, evB) ∧
      d.layers = #[a, b] ∧ b.rxQueue = [] := by
  obtain ⟨fcm, hfc⟩ := fc_facts ca cb aa ab p dt hS
  obtain ⟨hl, -⟩ := rounds_lock ca cb aa ab id p dt hS h1 fcm hfc i
  have hne := absIter_not_done (decide (effOf ca cb = 0)) cb.blocksize (nFrames (TxCfg.of ca aa) p)
    (nFrames_pos ca aa p hS.va) i hi
  refine ⟨_, _, _, _, _, _, startNet_eq ca cb aa ab id p hrl hacc, canonRounds_toNet dt i _, rfl, ?_⟩
  obtain ⟨x, y, -, hqb, -, -, -, hB⟩ := hl
  rw [hqb]
  generalize absIter (decide (effOf ca cb = 0)) cb.blocksize (nFrames (TxCfg.of ca aa) p) i .I = a at hne hB
  cases a with
  | D => exact absurd rfl hne
  | I => exact hB.2.1
  | W k => obtain ⟨t, hs, -⟩ := hB; exact hs.queue
  | T k j => obtain ⟨t, hs, -⟩ := hB; exact hs.queue

/-! ## the objects of the statement, spelled out -/

/-- the round is literally the sequence of `Net` operations of the driver -/
theorem canonRound_def (d : Net) (dt : Nat) :
    canonRound d dt =
      (d.onLayer 0 procOp).bind fun r1 =>
      (r1.1.deliver 0 [1] (r1.1.outbox[0]?.getD []).length).bind fun r2 =>
      (r2.1.onLayer 1 procOp).bind fun r3 =>
      (r3.1.deliver 1 [0] (r3.1.outbox[1]?.getD []).length).bind fun r4 =>
      some (r4.1.tick dt, r1.2.2.1, r3.2.2.1) := by
  unfold canonRound
  cases h1 : d.onLayer 0 procOp with
  | none => rfl
  | some r1 =>
    obtain ⟨d1, s1, e1, x1⟩ := r1
    simp only [Option.bind_some]
    cases h2 : d1.deliver 0 [1] (d1.outbox[0]?.getD []).length with
    | none => rfl
    | some r2 =>
      obtain ⟨d2, n2⟩ := r2
      simp only [Option.bind_some]
      cases h3 : d2.onLayer 1 procOp with
      | none => rfl
      | some r3 =>
        obtain ⟨d3, s3, e3, x3⟩ := r3
        simp only [Option.bind_some]
        cases h4 : d3.deliver 1 [0] (d3.outbox[1]?.getD []).length with
        | none => rfl
        | some r4 => rfl

/-- the two-layer record used in the proofs is the network: same rounds, same events -/
theorem pair_round_is_net_round (q : Pair) (dt : Nat) :
    canonRound q.toNet dt = some ((q.round dt).1.toNet, (q.round dt).2.1, (q.round dt).2.2) :=
  canonRound_toNet q dt

/-- the number of rounds, spelled out -/
theorem roundsFor_eq (ca cb : Cfg) (aa : Addr) (p : Bytes) :
    roundsFor ca cb aa p =
      (let n := (segment (TxCfg.of ca aa) p).length
       let blocks := if cb.blocksize = 0 then 1 else (n - 1 + cb.blocksize - 1) / cb.blocksize
       if n ≤ 1 then 1 else if effOf ca cb = 0 then 1 + blocks else n + blocks) := by
  unfold roundsFor roundsNeeded blocks nFrames
  by_cases hz : effOf ca cb = 0 <;> simp [hz]

/-- the number of frames, in closed form -/
theorem nFrames_closed (ca : Cfg) (aa : Addr) (hva : ca.valid = true) (p : Bytes) :
    nFrames (TxCfg.of ca aa) p =
      if sfShort (TxCfg.of ca aa) p.length ∨ sfEscape (TxCfg.of ca aa) p.length then 1
      else 1 + (p.length - ffRoom (TxCfg.of ca aa) p.length + cfRoom (TxCfg.of ca aa) - 1) / cfRoom (TxCfg.of ca aa) :=
  Seg.segment_count _ (Compose.txCfg_valid ca aa hva) p


/-! ## concrete instances (non-vacuity): classic CAN, normal 11-bit addressing, 20-byte payload = 3 frames -/

def exHalfA : Half := { mode := .n11, txid := some 0x123, rxid := some 0x456, ta := none, sa := none, ae := none,
                        physId := 0, funcId := 0, rxOnly := false, txOnly := false }
def exHalfB : Half := { mode := .n11, txid := some 0x456, rxid := some 0x123, ta := none, sa := none, ae := none,
                        physId := 0, funcId := 0, rxOnly := false, txOnly := false }
def exAddrA : Addr := { tx := exHalfA, rx := exHalfA }
def exAddrB : Addr := { tx := exHalfB, rx := exHalfB }
def exP : Bytes := (List.range 20).map UInt8.ofNat
/-- the sender: all defaults (tx_data_length 8, timeouts 1 s, rate limiter off) -/
def exCa : Cfg := {}
/-- the receiver with the given blocksize and STmin byte -/
def exCb (bs st : Nat) : Cfg := { blocksize := bs, stmin := st }

example : segment (TxCfg.of exCa exAddrA) exP =
    [[0x10, 20, 0, 1, 2, 3, 4, 5], [0x21, 6, 7, 8, 9, 10, 11, 12], [0x22, 13, 14, 15, 16, 17, 18, 19]] := by decide

/-- the hypotheses are satisfiable: blocksize 2, STmin 1 ms, tick 1 ms + 1 ns -/
theorem exScenario_2_1 : Scenario exCa (exCb 2 1) exAddrA exAddrB exP 1000001 :=
  ⟨by decide, by decide, by decide, by decide, by decide, by decide, by decide, by decide, by decide, by decide,
   by decide, by decide, by decide⟩
/-- … blocksize 0, STmin 0, tick 1 ns -/
theorem exScenario_0_0 : Scenario exCa (exCb 0 0) exAddrA exAddrB exP 1 :=
  ⟨by decide, by decide, by decide, by decide, by decide, by decide, by decide, by decide, by decide, by decide,
   by decide, by decide, by decide⟩
/-- … a Single Frame payload -/
theorem exScenario_sf : Scenario exCa (exCb 8 0) exAddrA exAddrB [1, 2, 3] 1 :=
  ⟨by decide, by decide, by decide, by decide, by decide, by decide, by decide, by decide, by decide, by decide,
   by decide, by decide, by decide⟩

/-- … timeouts exactly as long as the schedule needs (STmin 0: one tick each) -/
theorem exScenario_tight : Scenario { tFc := 1 } { blocksize := 1, stmin := 0, tCf := 1 } exAddrA exAddrB exP 1 :=
  ⟨by decide, by decide, by decide, by decide, by decide, by decide, by decide, by decide, by decide, by decide,
   by decide, by decide, by decide⟩
/-- … `override_receiver_stmin` = 0.5 ms at A against STmin = 127 ms announced by B, tick 0.6 ms -/
theorem exScenario_override :
    Scenario { overrideStminNs := some 500000 } { blocksize := 0, stmin := 127 } exAddrA exAddrB exP 600000 :=
  ⟨by decide, by decide, by decide, by decide, by decide, by decide, by decide, by decide, by decide, by decide,
   by decide, by decide, by decide⟩

example : Compose.Link exCa exAddrA (State.init (exCb 2 1) exAddrB) := ⟨by decide, by decide, by decide⟩
example : Compose.Link (exCb 2 1) exAddrB (State.init exCa exAddrA) := ⟨by decide, by decide, by decide⟩

/-- number of rounds: 3 frames; blocksize 0 / 2 / 1; STmin 0 and 1 ms -/
example : roundsFor exCa (exCb 0 0) exAddrA exP = 2 := by decide
example : roundsFor exCa (exCb 2 0) exAddrA exP = 2 := by decide
example : roundsFor exCa (exCb 1 0) exAddrA exP = 3 := by decide
example : roundsFor exCa (exCb 0 1) exAddrA exP = 4 := by decide
example : roundsFor exCa (exCb 2 1) exAddrA exP = 4 := by decide
example : roundsFor exCa (exCb 1 1) exAddrA exP = 5 := by decide
example : roundsFor exCa (exCb 8 0) exAddrA [1, 2, 3] = 1 := by decide

/-- instances of the theorems -/
example : ∃ d0 d evA evB, startNet exCa (exCb 2 1) exAddrA exAddrB 7 exP = some (d0, none) ∧
    canonRounds 1000001 4 d0 = some (d, evA, evB) ∧ Completed 7 exP d evA evB ∧ d.now = 4 * 1000001 :=
  transfer_completes _ _ _ _ 7 _ _ exScenario_2_1 rfl (by decide) (by decide) 4 (by decide)
example : ∃ d0 d evA evB, startNet exCa (exCb 0 0) exAddrA exAddrB 7 exP = some (d0, none) ∧
    canonRounds 1 2 d0 = some (d, evA, evB) ∧ Completed 7 exP d evA evB ∧ d.now = 2 * 1 :=
  transfer_completes _ _ _ _ 7 _ _ exScenario_0_0 rfl (by decide) (by decide) 2 (by decide)
example : ∃ d0 d evA evB, startNet exCa (exCb 8 0) exAddrA exAddrB 7 [1, 2, 3] = some (d0, none) ∧
    canonRounds 1 1 d0 = some (d, evA, evB) ∧ Completed 7 [1, 2, 3] d evA evB :=
  single_frame_completes _ _ _ _ 7 _ _ exScenario_sf rfl (by decide) (Or.inl (by decide)) (by decide)
example : ∃ d0 d evA evB, startNet exCa (exCb 2 1) exAddrA exAddrB 7 exP = some (d0, none) ∧
    canonRounds (stminNs (exCb 2 1).stmin + 1) (roundsFor exCa (exCb 2 1) exAddrA exP) d0 = some (d, evA, evB) ∧
    Completed 7 exP d evA evB :=
  transfer_completes_default _ _ _ _ 7 _ ⟨by decide, by decide, by decide⟩ ⟨by decide, by decide, by decide⟩ rfl rfl rfl
    (by decide) (by decide) (by decide) (by decide) (by decide) (by decide) (by decide)

example : ∃ d0 d evA evB, startNet { tFc := 1 } { blocksize := 1, stmin := 0, tCf := 1 } exAddrA exAddrB 7 exP =
      some (d0, none) ∧ canonRounds 1 3 d0 = some (d, evA, evB) ∧ Completed 7 exP d evA evB ∧ d.now = 3 * 1 :=
  transfer_completes _ _ _ _ 7 _ _ exScenario_tight rfl (by decide) (by decide) 3 (by decide)
example : ∃ d0 d evA evB, startNet { overrideStminNs := some 500000 } { blocksize := 0, stmin := 127 }
      exAddrA exAddrB 7 exP = some (d0, none) ∧ canonRounds 600000 4 d0 = some (d, evA, evB) ∧
      Completed 7 exP d evA evB ∧ d.now = 4 * 600000 :=
  transfer_completes _ _ _ _ 7 _ _ exScenario_override rfl (by decide) (by decide) 4 (by decide)
example : ∃ d0 d evA evB a b, startNet exCa (exCb 2 1) exAddrA exAddrB 7 exP = some (d0, none) ∧
    canonRounds 1000001 3 d0 = some (d, evA, evB) ∧ d.layers = #[a, b] ∧ b.rxQueue = [] :=
  not_before _ _ _ _ 7 _ _ exScenario_2_1 rfl (by decide) (by decide) 3 (by decide)
example : ∃ d0 d d' eA eB eA' eB' a b a' b', startNet exCa (exCb 2 1) exAddrA exAddrB 7 exP = some (d0, none) ∧
    canonRounds 1000001 2 d0 = some (d, eA, eB) ∧ canonRound d 1000001 = some (d', eA', eB') ∧
    d.layers = #[a, b] ∧ d'.layers = #[a', b'] ∧
    (progressMeasure (nFrames (TxCfg.of exCa exAddrA) exP) a b = 0 → b.rxQueue = [exP] ∧ a.txState = .idle) ∧
    (progressMeasure (nFrames (TxCfg.of exCa exAddrA) exP) a b ≠ 0 →
      progressMeasure (nFrames (TxCfg.of exCa exAddrA) exP) a' b' <
        progressMeasure (nFrames (TxCfg.of exCa exAddrA) exP) a b) :=
  progress_each_round _ _ _ _ 7 _ _ exScenario_2_1 rfl (by decide) (by decide) 2

/-! ### the same scenarios, evaluated: what the network looks like after `N` rounds -/

def noErr (evs : List Ev) : Bool := evs.all fun e => match e with | .err _ _ => false | _ => true

/-- what is looked at after `send` and `N` rounds -/
structure Summary where
  rxQueues : List (List Bytes)     -- of A, of B
  txStates : List TxSt
  rxStates : List RxSt
  now      : Nat
  done     : Bool                  -- `complete(True)` seen by A
  noErrA   : Bool
  noErrB   : Bool
  measure  : Nat                   -- value of the progress measure
  deriving DecidableEq, Repr

def runEx (cb : Cfg) (p : Bytes) (dt N : Nat) : Option Summary :=
  (startNet exCa cb exAddrA exAddrB 7 p).bind fun d0 =>
    (canonRounds dt N d0.1).map fun r =>
      { rxQueues := r.1.layers.toList.map (·.rxQueue), txStates := r.1.layers.toList.map (·.txState),
        rxStates := r.1.layers.toList.map (·.rxState), now := r.1.now,
        done := decide (Ev.done 7 true ∈ r.2.1), noErrA := noErr r.2.1, noErrB := noErr r.2.2,
        measure := progressMeasure (nFrames (TxCfg.of exCa exAddrA) p)
          (r.1.layers.getD 0 default) (r.1.layers.getD 1 default) }

-- blocksize 0, STmin 0: the whole message goes out and is delivered in round 2; not before
example : runEx (exCb 0 0) exP 1 2 = some ⟨[[], [exP]], [.idle, .idle], [.idle, .idle], 2, true, true, true, 0⟩ := by
  decide +kernel
example : runEx (exCb 0 0) exP 1 1 = some ⟨[[], []], [.waitFc, .idle], [.idle, .waitCf], 1, false, true, true, 5⟩ := by
  decide +kernel
-- blocksize 2, STmin 0: one block, 2 rounds
example : runEx (exCb 2 0) exP 1 2 = some ⟨[[], [exP]], [.idle, .idle], [.idle, .idle], 2, true, true, true, 0⟩ := by
  decide +kernel
-- blocksize 1, STmin 0: two blocks, 3 rounds
example : runEx (exCb 1 0) exP 1 3 = some ⟨[[], [exP]], [.idle, .idle], [.idle, .idle], 3, true, true, true, 0⟩ := by
  decide +kernel
example : runEx (exCb 1 0) exP 1 2 = some ⟨[[], []], [.waitFc, .idle], [.idle, .waitCf], 2, false, true, true, 3⟩ := by
  decide +kernel
-- blocksize 0, STmin 1 ms: First Frame; Flow Control handled; one Consecutive Frame per round: 4 rounds
example : runEx (exCb 0 1) exP 1000001 4 =
    some ⟨[[], [exP]], [.idle, .idle], [.idle, .idle], 4000004, true, true, true, 0⟩ := by decide +kernel
example : runEx (exCb 0 1) exP 1000001 3 =
    some ⟨[[], []], [.transmitCf, .idle], [.idle, .waitCf], 3000003, false, true, true, 2⟩ := by decide +kernel
-- blocksize 2, STmin 1 ms: 4 rounds; the measure goes 6, 5, 4, 2, 0
example : runEx (exCb 2 1) exP 1000001 0 = some ⟨[[], []], [.idle, .idle], [.idle, .idle], 0, false, true, true, 6⟩ := by
  decide +kernel
example : runEx (exCb 2 1) exP 1000001 1 =
    some ⟨[[], []], [.waitFc, .idle], [.idle, .waitCf], 1000001, false, true, true, 5⟩ := by decide +kernel
example : runEx (exCb 2 1) exP 1000001 2 =
    some ⟨[[], []], [.transmitCf, .idle], [.idle, .waitCf], 2000002, false, true, true, 4⟩ := by decide +kernel
example : runEx (exCb 2 1) exP 1000001 3 =
    some ⟨[[], []], [.transmitCf, .idle], [.idle, .waitCf], 3000003, false, true, true, 2⟩ := by decide +kernel
example : runEx (exCb 2 1) exP 1000001 4 =
    some ⟨[[], [exP]], [.idle, .idle], [.idle, .idle], 4000004, true, true, true, 0⟩ := by decide +kernel
-- blocksize 1, STmin 1 ms: 5 rounds (one more Flow Control)
example : runEx (exCb 1 1) exP 1000001 5 =
    some ⟨[[], [exP]], [.idle, .idle], [.idle, .idle], 5000005, true, true, true, 0⟩ := by decide +kernel
example : runEx (exCb 1 1) exP 1000001 4 =
    some ⟨[[], []], [.transmitCf, .idle], [.idle, .waitCf], 4000004, false, true, true, 2⟩ := by decide +kernel
-- a Single Frame: 1 round
example : runEx (exCb 8 0) [1, 2, 3] 1 1 = some ⟨[[], [[1, 2, 3]]], [.idle, .idle], [.idle, .idle], 1, true, true, true, 0⟩ := by
  decide +kernel

/-- The two ticks in `gapOf` are needed when STmin > 0: with `dt < tCf < 2·dt` the receiver's N_Cr timer fires when
    the first Consecutive Frame arrives (two ticks after the Flow Control) and the transfer fails
    (ConsecutiveFrameTimeoutError at B, nothing delivered) although A completes its request. -/
example : runEx { blocksize := 0, stmin := 1, tCf := 1500000 } exP 1000001 4 =
    some ⟨[[], []], [.idle, .idle], [.idle, .idle], 4000004, true, true, false, 6⟩ := by decide +kernel

end Isotp.C01live

#print axioms Isotp.C01live.transfer_completes
#print axioms Isotp.C01live.transfer_completes_default
#print axioms Isotp.C01live.single_frame_completes
#print axioms Isotp.C01live.progress_each_round
#print axioms Isotp.C01live.not_before
#print axioms Isotp.C01live.scenario_of_links
#print axioms Isotp.C01live.canonRound_def
#print axioms Isotp.C01live.pair_round_is_net_round
#print axioms Isotp.C01live.roundsFor_eq
#print axioms Isotp.C01live.nFrames_closed
