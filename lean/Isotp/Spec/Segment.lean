import Isotp.Frame
/-
  Reference ISO-15765-2 segmentation and the notion of a well-formed incoming stream.
  Written from the property texts (C02, C03), ISO-15765-2:2016 §9.6 and the repository
  documentation (implementation.rst: tx_data_length, tx_data_min_length, tx_padding) —
  NOT from protocol.py. Shared by the C01/C02/C03/C04/C10/C11/C15/C17 theorems.
-/
namespace Isotp.Spec

/-- transmit-side configuration as the segmentation rule sees it -/
structure TxCfg where
  txDl    : Nat                 -- tx_data_length ∈ {8,12,16,20,24,32,48,64}
  minLen  : Option Nat          -- tx_data_min_length
  padding : Option Nat          -- tx_padding
  pre     : Bytes               -- address prefix byte (extended / mixed addressing), 0 or 1 byte
  deriving Repr, DecidableEq

def TxCfg.of (c : Cfg) (a : Addr) : TxCfg :=
  { txDl := c.txDl, minLen := c.txMinLen, padding := c.txPadding, pre := a.tx.txPrefix }

/-- the legal CAN / CAN FD data lengths -/
def legalLens : List Nat := [0, 1, 2, 3, 4, 5, 6, 7, 8, 12, 16, 20, 24, 32, 48, 64]

def legal (n : Nat) : Prop := n ∈ legalLens
instance : DecidablePred legal := fun n => inferInstanceAs (Decidable (n ∈ legalLens))

/-- smallest legal length ≥ n (n itself above 64: no such frame exists) -/
def leastLegal (n : Nat) : Nat := (legalLens.find? (fun l => n ≤ l)).getD n

/-- the documented padding floor: `tx_data_min_length` if set; else 8 for classic CAN with a
    padding byte configured; else nothing. -/
def floorLen (c : TxCfg) : Nat :=
  match c.minLen with
  | some m => m
  | none => if c.txDl = 8 ∧ c.padding.isSome then 8 else 0

/-- length of a frame carrying `n` meaningful bytes once padded: the smallest legal length that is
    at least `n` and at least the floor -/
def padTarget (c : TxCfg) (n : Nat) : Nat := leastLegal (max n (floorLen c))

def padByte (c : TxCfg) : UInt8 := UInt8.ofNat (c.padding.getD 0xCC)

def padFrame (c : TxCfg) (d : Bytes) : Bytes :=
  d ++ List.replicate (padTarget c d.length - d.length) (padByte c)

/-- cut `l` in pieces of `k` bytes, the last one possibly shorter (k ≥ 1) -/
def chunksAux (k : Nat) : Nat → Bytes → List Bytes
  | 0, _ => []
  | f + 1, l => if l.isEmpty then [] else l.take k :: chunksAux k f (l.drop k)

def chunks (k : Nat) (l : Bytes) : List Bytes := chunksAux k l.length l

/-- Consecutive Frames for the given pieces, numbered sn, sn+1, … modulo 16 -/
def cfFrames (c : TxCfg) : Nat → List Bytes → List Bytes
  | _, [] => []
  | sn, d :: ds => padFrame c (c.pre ++ [UInt8.ofNat (0x20 + sn % 16)] ++ d) :: cfFrames c (sn + 1) ds

def be32 (n : Nat) : Bytes :=
  [UInt8.ofNat (n / 16777216 % 256), UInt8.ofNat (n / 65536 % 256), UInt8.ofNat (n / 256 % 256), UInt8.ofNat (n % 256)]

/-- First Frame header for FF_DL = n: 12-bit form up to 4095, 32-bit escape form above -/
def ffHeader (n : Nat) : Bytes :=
  if n ≤ 4095 then [UInt8.ofNat (0x10 + n / 256), UInt8.ofNat (n % 256)]
  else [0x10, 0x00] ++ be32 n

/-- payload bytes carried by the First Frame -/
def ffRoom (c : TxCfg) (n : Nat) : Nat :=
  if n ≤ 4095 then c.txDl - 2 - c.pre.length else c.txDl - 6 - c.pre.length

/-- payload bytes carried by a full Consecutive Frame -/
def cfRoom (c : TxCfg) : Nat := c.txDl - 1 - c.pre.length

/-- a Single Frame with the length in the first PCI byte is used iff the whole (padded) frame is
    at most 8 bytes long -/
def sfShort (c : TxCfg) (n : Nat) : Prop := padTarget c (c.pre.length + 1 + n) ≤ 8
instance (c n) : Decidable (sfShort c n) := inferInstanceAs (Decidable (_ ≤ _))

/-- otherwise the escape form (CAN_DL > 8), if it fits the link-layer size -/
def sfEscape (c : TxCfg) (n : Nat) : Prop := ¬ sfShort c n ∧ c.pre.length + 2 + n ≤ c.txDl
instance (c n) : Decidable (sfEscape c n) := inferInstanceAs (Decidable (_ ∧ _))

/-- The reference segmentation of a non-empty payload `p` (|p| < 2^32): the data fields of the CAN
    frames, in order. -/
def segment (c : TxCfg) (p : Bytes) : List Bytes :=
  let n := p.length
  if sfShort c n then [padFrame c (c.pre ++ [UInt8.ofNat n] ++ p)]
  else if sfEscape c n then [padFrame c (c.pre ++ [0x00, UInt8.ofNat n] ++ p)]
  else
    padFrame c (c.pre ++ ffHeader n ++ p.take (ffRoom c n))
      :: cfFrames c 1 (chunks (cfRoom c) (p.drop (ffRoom c n)))

/-- number of payload bytes carried by the first `k` frames of the segmentation of a payload of
    length `n` that needs a First Frame -/
def carried (c : TxCfg) (n k : Nat) : Nat :=
  if k = 0 then 0 else min n (ffRoom c n + (k - 1) * cfRoom c)

/-! ### well-formed incoming streams (any conforming sender), C03 / DESIGN App. D.1 -/

def validTxDl (n : Nat) : Prop := n ∈ [8, 12, 16, 20, 24, 32, 48, 64]
instance : DecidablePred validTxDl := fun n => inferInstanceAs (Decidable (n ∈ _))

/-- the sender-side geometry for a stream with link-layer size `txDl` and prefix `pre` -/
def streamCfg (txDl : Nat) (pre : Bytes) : TxCfg := { txDl := txDl, minLen := none, padding := none, pre := pre }

/-- Single Frame, SF_DL in the low nibble, CAN_DL ≤ 8, any padding -/
def WfSfShort (pre p : Bytes) (frames : List Bytes) : Prop :=
  ∃ pad : Bytes, 1 ≤ p.length ∧ p.length ≤ 7 - pre.length ∧
    (pre ++ [UInt8.ofNat p.length] ++ p ++ pad).length ≤ 8 ∧
    frames = [pre ++ [UInt8.ofNat p.length] ++ p ++ pad]

/-- Single Frame in escape form, CAN_DL > 8 (a legal CAN FD length) -/
def WfSfEscape (pre p : Bytes) (frames : List Bytes) : Prop :=
  ∃ pad : Bytes, 1 ≤ p.length ∧
    (pre ++ [0x00, UInt8.ofNat p.length] ++ p ++ pad).length > 8 ∧
    legal (pre ++ [0x00, UInt8.ofNat p.length] ++ p ++ pad).length ∧
    frames = [pre ++ [0x00, UInt8.ofNat p.length] ++ p ++ pad]

/-- the i-th (0-based) Consecutive Frame of a stream carries sequence number (i+1) mod 16 -/
def cfOf (pre : Bytes) (i : Nat) (d : Bytes) : Bytes := pre ++ [UInt8.ofNat (0x20 + (i + 1) % 16)] ++ d

/-- First Frame at full TX_DL, then Consecutive Frames in sequence, all but the last full,
    the last one minimal or padded to any legal length ≤ TX_DL -/
def WfSegmented (pre p : Bytes) (frames : List Bytes) : Prop :=
  ∃ (txDl : Nat) (pad : Bytes) (ds : List Bytes) (dLast : Bytes),
    validTxDl txDl ∧ p.length < 4294967296 ∧
    p.length > ffRoom (streamCfg txDl pre) p.length ∧
    chunks (cfRoom (streamCfg txDl pre)) (p.drop (ffRoom (streamCfg txDl pre) p.length)) = ds ++ [dLast] ∧
    legal (pre.length + 1 + dLast.length + pad.length) ∧
    pre.length + 1 + dLast.length + pad.length ≤ txDl ∧
    frames =
      (pre ++ ffHeader p.length ++ p.take (ffRoom (streamCfg txDl pre) p.length))
        :: ((List.range ds.length).map (fun i => cfOf pre i (ds.getD i [])))
        ++ [cfOf pre ds.length (dLast ++ pad)]

/-- `frames` is a well-formed ISO-TP encoding of the non-empty payload `p` for a receiver that
    expects the address prefix `pre` (0 or 1 byte): produced by *any* conforming sender. -/
def WellFormed (pre p : Bytes) (frames : List Bytes) : Prop :=
  WfSfShort pre p frames ∨ WfSfEscape pre p frames ∨ WfSegmented pre p frames

end Isotp.Spec
