import Isotp.PyAgree.EvalLemmas
import Isotp.Frame
/-!
  Source agreement for the small helpers of `isotp/protocol.py` and `isotp/tools.py`:

  * `TransportLayerLogic._get_nearest_can_fd_size`  = `nearestFd`
  * `TransportLayerLogic._get_dlc`                  = `dlcOf` (`validate_tx=True`) / `dlcOfNoValidate` (`validate_tx=False`)
  * `PDU.craft_flow_control_data`                   = `fcData`
  * `Timer.is_stopped / elapsed_ns / is_timed_out / remaining_ns / stop / start` = the model `Timer`

  Everything is FOR ALL inputs.  The only qualified statements are the ones that read the clock: `Timer.elapsed_ns` and
  `Timer.remaining_ns` agree with the model (which uses truncated `Nat` subtraction `now - s`) only when the clock did not go
  backwards since the timer was started (`Mono t now`: `s ≤ now`); `time.perf_counter_ns` is monotonic, so this is a property of
  the real clock, but it is a hypothesis here, and `remaining_ns_needs_mono` shows it cannot be dropped.
  `Timer.is_timed_out` agrees with the model even without it (`timer_is_timed_out_linked`).
-/
namespace Isotp.PyAgree
open Isotp Isotp.Py

/-! ### value-level lemmas (order comparisons of integers, casts of literals, the builtins used here) -/

theorem evalCmp_le_pint (a b : Int) : evalCmp .le (pint a) (pint b) = .ok (pbool (decide (a ≤ b))) := by
  simp only [evalCmp, isNumber, numLt, PyVal.pyEq, PyVal.isInt, PyVal.intVal, bind, Except.bind]
  by_cases h1 : a < b <;> by_cases h2 : a = b <;> by_cases h3 : a ≤ b <;> simp [h1, h2, h3] <;> omega
theorem evalCmp_ge_pint (a b : Int) : evalCmp .ge (pint a) (pint b) = .ok (pbool (decide (b ≤ a))) := by
  simp only [evalCmp, isNumber, numLt, PyVal.pyEq, PyVal.isInt, PyVal.intVal, bind, Except.bind]
  by_cases h1 : b < a <;> by_cases h2 : a = b <;> by_cases h3 : b ≤ a <;> simp [h1, h2, h3] <;> omega
theorem evalCmp_lt_pint (a b : Int) : evalCmp .lt (pint a) (pint b) = .ok (pbool (decide (a < b))) := by
  simp [evalCmp, isNumber, numLt, PyVal.isInt, PyVal.intVal, Except.map]
  rfl
theorem evalCmp_gt_pint (a b : Int) : evalCmp .gt (pint a) (pint b) = .ok (pbool (decide (b < a))) := by
  simp [evalCmp, isNumber, numLt, PyVal.isInt, PyVal.intVal, Except.map]
  rfl

/-- the integer literals of the source are `Int` literals; the values they are compared with are casts of `Nat`s -/
theorem cast_le_lit (n k : Nat) : ((n : Int) ≤ (no_index (OfNat.ofNat k) : Int)) ↔ n ≤ (OfNat.ofNat k : Nat) := by
  show (n : Int) ≤ ((k : Nat) : Int) ↔ n ≤ k
  omega
theorem lit_le_cast (n k : Nat) : ((no_index (OfNat.ofNat k) : Int) ≤ (n : Int)) ↔ (OfNat.ofNat k : Nat) ≤ n := by
  show ((k : Nat) : Int) ≤ (n : Int) ↔ k ≤ n
  omega
theorem cast_lt_lit (n k : Nat) : ((n : Int) < (no_index (OfNat.ofNat k) : Int)) ↔ n < (OfNat.ofNat k : Nat) := by
  show (n : Int) < ((k : Nat) : Int) ↔ n < k
  omega
theorem lit_lt_cast (n k : Nat) : ((no_index (OfNat.ofNat k) : Int) < (n : Int)) ↔ (OfNat.ofNat k : Nat) < n := by
  show ((k : Nat) : Int) < (n : Int) ↔ k < n
  omega
theorem cast_eq_lit (n k : Nat) : ((n : Int) = (no_index (OfNat.ofNat k) : Int)) ↔ n = (OfNat.ofNat k : Nat) := by
  show (n : Int) = ((k : Nat) : Int) ↔ n = k
  omega

theorem cast_beq_zero (n : Nat) : ((n : Int) == 0) = (n == 0) := by
  rw [Bool.eq_iff_iff]; simp

theorem builtin_len_bytes (b : Bytes) : evalBuiltin "len" [.bytes b] = some (.ok (pint b.length)) := by simp [evalBuiltin]
theorem builtin_max_pint (x y : Int) : evalBuiltin "max" [pint x, pint y] = some (.ok (pint (if y > x then y else x))) := by
  simp [evalBuiltin, asInt, Sc.isInt, Sc.intVal, PyVal.isInt, PyVal.intVal]
  split <;> rfl
theorem builtin_bytes_list (xs : List Sc) : evalBuiltin "bytes" [.list xs] = some ((bytesOfScs xs).map .bytes) := by
  simp [evalBuiltin]
/-- the calls that are not builtins go to `Meths` -/
theorem builtin_nearest (v : PV) : evalBuiltin "self._get_nearest_can_fd_size" [v] = none := by simp [evalBuiltin]
theorem builtin_clock : evalBuiltin "time.perf_counter_ns" [] = none := by simp [evalBuiltin]
theorem builtin_is_stopped : evalBuiltin "self.is_stopped" [] = none := by simp [evalBuiltin]
theorem builtin_elapsed_ns : evalBuiltin "self.elapsed_ns" [] = none := by simp [evalBuiltin]
theorem builtin_set_timeout (v : PV) : evalBuiltin "self.set_timeout" [v] = none := by simp [evalBuiltin]

theorem pvEq_optPV_pnone (o : Option Nat) : pvEq (optPV o) pnone = o.isNone := by
  cases o <;> simp [optPV]

/-- value returned by a function body, the other methods it calls being given by `M` -/
def retM (M : Meths) (env : Env) (body : PBlock) : Except PErr PV := (runFn M env body).map (·.1)
/-- the environment (= the attributes of `self` and the locals) a function body ends with -/
def envM (M : Meths) (env : Env) (body : PBlock) : Except PErr Env := (runFn M env body).map (·.2)

/-- `some k` = the function returns `k`, `none` = it raises `ValueError` (the convention of the model) -/
def optRes : Option Nat → Except PErr PV
  | some k => .ok (pint k)
  | none => .error (.exc .ValueError)

/-! ### 1. `_get_nearest_can_fd_size` -/

def sizeEnv (n : Nat) : Env := fun k =>
  match k with
  | "size" => some (pint n)
  | _ => constEnv k

/-- `if x <= c: return e` followed by `rest` -/
theorem execBlock_if_le_ret (M : Meths) (env : Env) (x : String) (n c : Int) (e : PExpr) (rest : PBlock)
    (hs : env x = some (pint n)) :
    execBlock M env (.cons (.ite (.cmp .le (.var x) (.int c)) (.cons (.ret e) .nil) .nil) rest) =
      if n ≤ c then (do let v ← eval M env e; .ok (.returned v env)) else execBlock M env rest := by
  by_cases h : n ≤ c <;> simp [execBlock, execStmt, eval, hs, evalCmp_le_pint, h]

theorem get_nearest_can_fd_size_agrees (n : Nat) :
    retOf (sizeEnv n) Src.TransportLayerLogic_p_get_nearest_can_fd_size = optRes (nearestFd n) := by
  have hs : sizeEnv n "size" = some (pint n) := rfl
  simp only [retOf, runFn, Src.TransportLayerLogic_p_get_nearest_can_fd_size, execBlock_if_le_ret _ _ _ _ _ _ _ hs, nearestFd,
    cast_le_lit]
  simp only [eval, hs, ok_bind, execBlock, execStmt]
  by_cases h8 : n ≤ 8 <;> simp [h8, optRes]
  by_cases h12 : n ≤ 12 <;> simp [h12]
  by_cases h16 : n ≤ 16 <;> simp [h16]
  by_cases h20 : n ≤ 20 <;> simp [h20]
  by_cases h24 : n ≤ 24 <;> simp [h24]
  by_cases h32 : n ≤ 32 <;> simp [h32]
  by_cases h48 : n ≤ 48 <;> simp [h48]
  by_cases h64 : n ≤ 64 <;> simp [h64]

theorem get_nearest_can_fd_size_some (n k : Nat) (h : nearestFd n = some k) :
    retOf (sizeEnv n) Src.TransportLayerLogic_p_get_nearest_can_fd_size = .ok (pint k) := by
  rw [get_nearest_can_fd_size_agrees, h]; rfl

theorem get_nearest_can_fd_size_none (n : Nat) (h : nearestFd n = none) :
    retOf (sizeEnv n) Src.TransportLayerLogic_p_get_nearest_can_fd_size = .error (.exc .ValueError) := by
  rw [get_nearest_can_fd_size_agrees, h]; rfl

/-! ### 2. `_get_dlc` -/

def dlcEnv (d : Bytes) (validateTx : Bool) (txdl : Nat) : Env := fun k =>
  match k with
  | "data" => some (.bytes d)
  | "validate_tx" => some (pbool validateTx)
  | "self.params.tx_data_length" => some (pint txdl)
  | _ => constEnv k

/-- `self._get_nearest_can_fd_size(n)` is what `get_nearest_can_fd_size_agrees` proves about its source
    (called with `len(data)`, a natural number). -/
def dlcMeths : Meths where
  fn name args _ :=
    match name, args with
    | "self._get_nearest_can_fd_size", [.sc (.py (.int i))] =>
        if 0 ≤ i then optRes (nearestFd i.toNat) else .error (.unsupported "negative size")
    | _, _ => .error (.unsupported ("call " ++ name))
  proc name _ _ := .error (.unsupported ("call " ++ name))

theorem dlcMeths_nearest (n : Nat) (env : Env) :
    dlcMeths.fn "self._get_nearest_can_fd_size" [pint n] env = retOf (sizeEnv n) Src.TransportLayerLogic_p_get_nearest_can_fd_size := by
  rw [get_nearest_can_fd_size_agrees]
  simp [dlcMeths]

/-- `_get_dlc(data, validate_tx=False)`: `dlcOf` without the `tx_data_length == 8` check -/
def dlcOfNoValidate (n : Nat) : Option Nat :=
  match nearestFd n with
  | none => none
  | some f =>
    if 2 ≤ f && f ≤ 8 then some f
    else if f = 12 then some 9
    else if f = 16 then some 10
    else if f = 20 then some 11
    else if f = 24 then some 12
    else if f = 32 then some 13
    else if f = 48 then some 14
    else if f = 64 then some 15
    else none

theorem dlcOf_eq_noValidate (c : Cfg) (n : Nat) (h : c.txDl ≠ 8) : dlcOf c n = dlcOfNoValidate n := by
  unfold dlcOf dlcOfNoValidate
  cases nearestFd n <;> simp [h]

/-- the `if / elif` chain of `_get_dlc` (its last two statements), for ANY value of `fdlen` -/
def dlcChain (f : Nat) : Option Nat :=
  if 2 ≤ f && f ≤ 8 then some f
  else if f = 12 then some 9
  else if f = 16 then some 10
  else if f = 20 then some 11
  else if f = 24 then some 12
  else if f = 32 then some 13
  else if f = 48 then some 14
  else if f = 64 then some 15
  else none

theorem get_dlc_chain (M : Meths) (env : Env) (f : Nat) (hf : env "fdlen" = some (pint f)) :
    (match Src.TransportLayerLogic_p_get_dlc with
     | .cons _ (.cons _ rest) => retM M env rest
     | _ => .error (.unsupported "")) = optRes (dlcChain f) := by
  simp only [Src.TransportLayerLogic_p_get_dlc, retM, runFn, dlcChain]
  simp only [execBlock, execStmt, eval, hf, ok_bind, evalCmp_le_pint, evalCmp_ge_pint, evalCmp_eq, pvEq_pint, truthy_pbool,
    cast_le_lit, lit_le_cast, cast_eq_lit, beq_iff_eq, decide_eq_true_eq]
  by_cases h2 : 2 ≤ f <;> by_cases h8 : f ≤ 8 <;> simp [h2, h8, optRes]
  all_goals
    by_cases h12 : f = 12 <;> simp [h12]
    by_cases h16 : f = 16 <;> simp [h16]
    by_cases h20 : f = 20 <;> simp [h20]
    by_cases h24 : f = 24 <;> simp [h24]
    by_cases h32 : f = 32 <;> simp [h32]
    by_cases h48 : f = 48 <;> simp [h48]
    by_cases h64 : f = 64 <;> simp [h64]

/-- first statement: `fdlen = self._get_nearest_can_fd_size(len(data))` -/
theorem get_dlc_stmt1 (d : Bytes) (v : Bool) (txdl : Nat) :
    execStmt dlcMeths (dlcEnv d v txdl)
        (.assign "fdlen" (.call "self._get_nearest_can_fd_size" (.cons (.call "len" (.cons (.var "data") .nil)) .nil))) =
      match nearestFd d.length with
      | some f => .ok (.next ((dlcEnv d v txdl).set "fdlen" (pint f)))
      | none => .error (.exc .ValueError) := by
  cases h : nearestFd d.length <;>
    simp [execStmt, eval, evalArgs, dlcEnv, builtin_len_bytes, builtin_nearest, dlcMeths, h, optRes]

/-- second statement: the `validate_tx` check -/
theorem get_dlc_stmt2 (M : Meths) (env : Env) (v : Bool) (txdl f : Nat)
    (hv : env "validate_tx" = some (pbool v)) (ht : env "self.params.tx_data_length" = some (pint txdl))
    (hf : env "fdlen" = some (pint f)) :
    execStmt M env
        (.ite (.var "validate_tx") (.cons (.ite (.cmp .eq (.var "self.params.tx_data_length") (.int (8)))
          (.cons (.ite (.or_ (.cmp .lt (.var "fdlen") (.int (2))) (.cmp .gt (.var "fdlen") (.int (8)))) (.cons (.raise "ValueError") .nil) .nil)
          .nil) .nil) .nil) .nil) =
      if v && txdl = 8 && (f < 2 || f > 8) then .error (.exc .ValueError) else .ok (.next env) := by
  cases v <;> by_cases h8 : txdl = 8 <;> by_cases h2 : f < 2 <;> by_cases h9 : 8 < f <;>
    simp [execBlock, execStmt, eval, hv, ht, hf, h8, h2, h9, evalCmp_lt_pint, evalCmp_gt_pint, cast_lt_lit, lit_lt_cast, cast_eq_lit]

/-- `_get_dlc(data, validate_tx)` in one formula -/
def dlcGen (validateTx : Bool) (txdl n : Nat) : Option Nat :=
  match nearestFd n with
  | none => none
  | some f => if validateTx && txdl = 8 && (f < 2 || f > 8) then none else dlcChain f

theorem get_dlc_agrees_gen (d : Bytes) (v : Bool) (txdl : Nat) :
    retM dlcMeths (dlcEnv d v txdl) Src.TransportLayerLogic_p_get_dlc = optRes (dlcGen v txdl d.length) := by
  have hc := fun env f hf => get_dlc_chain dlcMeths env f hf
  simp only [Src.TransportLayerLogic_p_get_dlc, retM, runFn] at hc ⊢
  rw [execBlock, get_dlc_stmt1, dlcGen]
  cases nearestFd d.length with
  | none => rfl
  | some f =>
    have hv : ((dlcEnv d v txdl).set "fdlen" (pint f)) "validate_tx" = some (pbool v) := rfl
    have ht : ((dlcEnv d v txdl).set "fdlen" (pint f)) "self.params.tx_data_length" = some (pint txdl) := rfl
    have hf : ((dlcEnv d v txdl).set "fdlen" (pint f)) "fdlen" = some (pint f) := rfl
    simp only [ok_bind]
    rw [execBlock, get_dlc_stmt2 _ _ v txdl f hv ht hf]
    by_cases hcnd : (v && txdl = 8 && (f < 2 || f > 8)) = true
    · simp only [hcnd, if_true]; rfl
    · simp only [hcnd]
      exact hc _ f hf

theorem get_dlc_agrees (c : Cfg) (d : Bytes) :
    retM dlcMeths (dlcEnv d true c.txDl) Src.TransportLayerLogic_p_get_dlc = optRes (dlcOf c d.length) := by
  rw [get_dlc_agrees_gen]
  unfold dlcGen dlcOf dlcChain
  cases nearestFd d.length <;> simp

theorem get_dlc_agrees_noValidate (d : Bytes) (txdl : Nat) :
    retM dlcMeths (dlcEnv d false txdl) Src.TransportLayerLogic_p_get_dlc = optRes (dlcOfNoValidate d.length) := by
  rw [get_dlc_agrees_gen]
  unfold dlcGen dlcOfNoValidate dlcChain
  cases nearestFd d.length <;> simp

/-! ### 3. `PDU.craft_flow_control_data` -/

def fcEnv (s b st : Nat) : Env := fun k =>
  match k with
  | "flow_status" => some (pint s)
  | "blocksize" => some (pint b)
  | "stmin" => some (pint st)
  | _ => constEnv k

/-- `0x30 | (flow_status & 0xF)` (Python precedence: `&` binds tighter than `|`) is `0x30 + flow_status % 16` -/
theorem or_30_and_f (s : Nat) : 48 ||| (s &&& 15) = 48 + s % 16 := by
  rw [and_f]
  have h : ∀ k, k < 16 → 48 ||| k = 48 + k := by decide
  exact h _ (Nat.mod_lt _ (by decide))

theorem craft_flow_control_data_agrees (s b st : Nat) :
    retOf (fcEnv s b st) Src.PDU_craft_flow_control_data = .ok (.bytes (fcData s b st)) := by
  have h1 : 0 ≤ 48 + (s : Int) % 16 := by omega
  have h2 : 48 + (s : Int) % 16 ≤ 255 := by omega
  have h3 : 0 ≤ (b : Int) % 256 := by omega
  have h4 : (b : Int) % 256 ≤ 255 := by omega
  have h5 : 0 ≤ (st : Int) % 256 := by omega
  have h6 : (st : Int) % 256 ≤ 255 := by omega
  simp [retOf, runFn, Src.PDU_craft_flow_control_data, execBlock, execStmt, eval, evalArgs, fcEnv, Int.natCast_nonneg,
    builtin_bytes_list, bytesOfScs, or_30_and_f, and_ff, Sc.isInt, Sc.intVal, PyVal.isInt, PyVal.intVal, h1, h2, h3, h4, h5, h6]
  have e1 : (48 + (s : Int) % 16).toNat = 48 + s % 16 := by omega
  have e2 : ((b : Int) % 256).toNat = b % 256 := by omega
  have e3 : ((st : Int) % 256).toNat = st % 256 := by omega
  rw [e1, e2, e3]
  rfl

/-! ### 4. `Timer` (isotp/tools.py) -/

/-- attributes of a `Timer` object -/
def timerEnv (t : Timer) : Env := fun k =>
  match k with
  | "self.start_time" => some (optPV t.start)
  | "self.timeout" => some (pint t.timeout)
  | _ => constEnv k

/-- `M` reads the clock as `now` (`time.perf_counter_ns()`) -/
def ClockIs (M : Meths) (now : Nat) : Prop := ∀ env, M.fn "time.perf_counter_ns" [] env = .ok (pint now)

/-- only the clock -/
def clockMeths (now : Nat) : Meths where
  fn name args _ :=
    match name, args with
    | "time.perf_counter_ns", [] => .ok (pint now)
    | _, _ => .error (.unsupported ("call " ++ name))
  proc name _ _ := .error (.unsupported ("call " ++ name))

theorem clockMeths_clockIs (now : Nat) : ClockIs (clockMeths now) now := fun _ => rfl

/-- the clock did not go backwards since the timer was started (`time.perf_counter_ns` is monotonic) -/
def Mono (t : Timer) (now : Nat) : Prop := ∀ s, t.start = some s → s ≤ now

/-- `elapsed_ns()` in the model's arithmetic (`Nat`, truncated subtraction) -/
def elapsedOf (t : Timer) (now : Nat) : Nat :=
  match t.start with
  | some s => now - s
  | none => 0

/-- `elapsed_ns()` as Python computes it (`int` subtraction: negative if the clock went backwards) -/
def elapsedInt (t : Timer) (now : Nat) : Int :=
  match t.start with
  | some s => (now : Int) - s
  | none => 0

theorem elapsedInt_eq (t : Timer) (now : Nat) (h : Mono t now) : elapsedInt t now = elapsedOf t now := by
  unfold elapsedInt elapsedOf
  cases hs : t.start with
  | none => rfl
  | some s => have := h s hs; simp only; omega

/-- `Timer.is_stopped` (the source writes `== None`; on `Optional[int]` it is the same as `is None`) -/
theorem timer_is_stopped_agrees (M : Meths) (t : Timer) :
    retM M (timerEnv t) Src.Timer_is_stopped = .ok (pbool t.start.isNone) := by
  simp [retM, runFn, Src.Timer_is_stopped, execBlock, execStmt, eval, timerEnv, pvEq_optPV_pnone]

/-- `Timer.elapsed_ns`, exactly (no hypothesis on the clock) -/
theorem timer_elapsed_ns_int (M : Meths) (t : Timer) (now : Nat) (hM : ClockIs M now) :
    retM M (timerEnv t) Src.Timer_elapsed_ns = .ok (pint (elapsedInt t now)) := by
  cases hs : t.start <;>
    simp [retM, runFn, Src.Timer_elapsed_ns, execBlock, execStmt, eval, evalArgs, timerEnv, hs, optPV, builtin_clock, hM _,
      elapsedInt]

/-- `Timer.elapsed_ns` = the model's `now - s` when the clock is monotonic -/
theorem timer_elapsed_ns_agrees (M : Meths) (t : Timer) (now : Nat) (hM : ClockIs M now) (hmono : Mono t now) :
    retM M (timerEnv t) Src.Timer_elapsed_ns = .ok (pint (elapsedOf t now)) := by
  rw [timer_elapsed_ns_int M t now hM, elapsedInt_eq t now hmono]

/-- The methods `is_timed_out` / `remaining_ns` call, given by the MODEL values: `is_stopped()` is what
    `timer_is_stopped_agrees` proves about its source, `elapsed_ns()` what `timer_elapsed_ns_agrees` proves about its source
    (under `Mono t now`), `time.perf_counter_ns()` is `now`. -/
def timerMeths (t : Timer) (now : Nat) : Meths where
  fn name args _ :=
    match name, args with
    | "time.perf_counter_ns", [] => .ok (pint now)
    | "self.is_stopped", [] => .ok (pbool t.start.isNone)
    | "self.elapsed_ns", [] => .ok (pint (elapsedOf t now))
    | _, _ => .error (.unsupported ("call " ++ name))
  proc name _ _ := .error (.unsupported ("call " ++ name))

theorem timerMeths_clockIs (t : Timer) (now : Nat) : ClockIs (timerMeths t now) now := fun _ => rfl

/-- the entries of `timerMeths` ARE the interpreted sources of the callees -/
theorem timerMeths_is_stopped (t : Timer) (now : Nat) (env : Env) :
    (timerMeths t now).fn "self.is_stopped" [] env = retM (clockMeths now) (timerEnv t) Src.Timer_is_stopped := by
  rw [timer_is_stopped_agrees]; rfl
theorem timerMeths_elapsed_ns (t : Timer) (now : Nat) (env : Env) (hmono : Mono t now) :
    (timerMeths t now).fn "self.elapsed_ns" [] env = retM (clockMeths now) (timerEnv t) Src.Timer_elapsed_ns := by
  rw [timer_elapsed_ns_agrees _ t now (clockMeths_clockIs now) hmono]; rfl

/-- `Timer.is_timed_out` (Python's `or` returns an operand: here both operands are `bool`s) -/
theorem timer_is_timed_out_agrees (t : Timer) (now : Nat) :
    retM (timerMeths t now) (timerEnv t) Src.Timer_is_timed_out = .ok (pbool (t.timedOut now)) := by
  cases hs : t.start <;>
    simp [retM, runFn, Src.Timer_is_timed_out, execBlock, execStmt, eval, evalArgs, timerEnv, timerMeths, hs,
      builtin_is_stopped, builtin_elapsed_ns, evalCmp_gt_pint, Timer.timedOut, elapsedOf, cast_beq_zero]

/-- `Timer.remaining_ns`: `max(0, timeout - elapsed)` on `int`s is the model's truncated `timeout - elapsed` -/
theorem timer_remaining_ns_agrees (t : Timer) (now : Nat) :
    retM (timerMeths t now) (timerEnv t) Src.Timer_remaining_ns = .ok (pint (t.remaining now)) := by
  cases hs : t.start <;>
    simp [retM, runFn, Src.Timer_remaining_ns, execBlock, execStmt, eval, evalArgs, timerEnv, timerMeths, hs,
      builtin_is_stopped, builtin_elapsed_ns, builtin_max_pint, Timer.remaining, elapsedOf]
  split <;> omega

/-- The same two theorems with the calls `self.is_stopped()` / `self.elapsed_ns()` resolved by INTERPRETING the callee's source
    on the same object (no model value in `Meths`): the composition is then a theorem about the source alone. -/
def timerMethsSrc (now : Nat) : Meths where
  fn name args env :=
    match name, args with
    | "time.perf_counter_ns", [] => .ok (pint now)
    | "self.is_stopped", [] => retM (clockMeths now) env Src.Timer_is_stopped
    | "self.elapsed_ns", [] => retM (clockMeths now) env Src.Timer_elapsed_ns
    | _, _ => .error (.unsupported ("call " ++ name))
  proc name _ _ := .error (.unsupported ("call " ++ name))

theorem timerMethsSrc_is_stopped (t : Timer) (now : Nat) :
    (timerMethsSrc now).fn "self.is_stopped" [] (timerEnv t) = .ok (pbool t.start.isNone) :=
  timer_is_stopped_agrees (clockMeths now) t
theorem timerMethsSrc_elapsed_ns (t : Timer) (now : Nat) :
    (timerMethsSrc now).fn "self.elapsed_ns" [] (timerEnv t) = .ok (pint (elapsedInt t now)) :=
  timer_elapsed_ns_int (clockMeths now) t now (clockMeths_clockIs now)

/-- `is_timed_out` agrees with the model whatever the clock does: a negative `elapsed_ns()` and the model's truncated `0`
    are both `≤ timeout`. -/
theorem timer_is_timed_out_linked (t : Timer) (now : Nat) :
    retM (timerMethsSrc now) (timerEnv t) Src.Timer_is_timed_out = .ok (pbool (t.timedOut now)) := by
  have h1 := timerMethsSrc_is_stopped t now
  have h2 := timerMethsSrc_elapsed_ns t now
  cases hs : t.start with
  | none =>
    simp only [hs, elapsedInt] at h1 h2
    simp [retM, runFn, Src.Timer_is_timed_out, execBlock, execStmt, eval, evalArgs, h1, builtin_is_stopped, Timer.timedOut, hs]
  | some s =>
    simp only [hs, elapsedInt] at h1 h2
    have e : ((t.timeout : Int) < (now : Int) - (s : Int)) ↔ t.timeout < now - s := by omega
    simp [retM, runFn, Src.Timer_is_timed_out, execBlock, execStmt, eval, evalArgs, timerEnv, h1, h2,
      builtin_is_stopped, builtin_elapsed_ns, evalCmp_gt_pint, Timer.timedOut, cast_beq_zero, hs, e]

/-- `remaining_ns` agrees with the model when the clock is monotonic -/
theorem timer_remaining_ns_linked (t : Timer) (now : Nat) (hmono : Mono t now) :
    retM (timerMethsSrc now) (timerEnv t) Src.Timer_remaining_ns = .ok (pint (t.remaining now)) := by
  have h1 := timerMethsSrc_is_stopped t now
  have h2 := timerMethsSrc_elapsed_ns t now
  cases hs : t.start with
  | none =>
    simp only [hs, elapsedInt] at h1 h2
    simp [retM, runFn, Src.Timer_remaining_ns, execBlock, execStmt, eval, evalArgs, h1, builtin_is_stopped, Timer.remaining, hs]
  | some s =>
    have hle : s ≤ now := hmono s hs
    simp only [hs, elapsedInt] at h1 h2
    simp [retM, runFn, Src.Timer_remaining_ns, execBlock, execStmt, eval, evalArgs, timerEnv, h1, h2,
      builtin_is_stopped, builtin_elapsed_ns, builtin_max_pint, Timer.remaining, hs]
    split <;> omega

/-- ... and NOT otherwise: started at 5, read at 3 (clock went backwards), timeout 10: Python's `max(0, 10 - (3 - 5))` is 12,
    the model's `10 - (3 - 5)` (truncated) is 10.  So `Mono` is a real hypothesis of `timer_remaining_ns_linked` /
    `timer_elapsed_ns_agrees` (and of the use of `timerMeths` in `timer_remaining_ns_agrees`). -/
theorem remaining_ns_needs_mono :
    retM (timerMethsSrc 3) (timerEnv { start := some 5, timeout := 10 }) Src.Timer_remaining_ns = .ok (pint 12) ∧
    Timer.remaining { start := some 5, timeout := 10 } 3 = 10 := by
  constructor
  · have h1 := timerMethsSrc_is_stopped { start := some 5, timeout := 10 } 3
    have h2 := timerMethsSrc_elapsed_ns { start := some 5, timeout := 10 } 3
    simp only [elapsedInt] at h1 h2
    simp [retM, runFn, Src.Timer_remaining_ns, execBlock, execStmt, eval, evalArgs, timerEnv, h1, h2,
      builtin_is_stopped, builtin_elapsed_ns, builtin_max_pint]
  · rfl

/-- `Timer.stop`: the object afterwards is the model's `t.stop` -/
theorem timerEnv_stop (t : Timer) : (timerEnv t).set "self.start_time" pnone = timerEnv t.stop := by
  funext k
  by_cases h1 : k = "self.start_time"
  · subst h1; rfl
  · simp only [Env.set, timerEnv, h1, Timer.stop, if_false]
    split <;> simp_all

theorem timer_stop_agrees (M : Meths) (t : Timer) :
    runFn M (timerEnv t) Src.Timer_stop = .ok (pnone, timerEnv t.stop) := by
  rw [← timerEnv_stop]
  simp [runFn, Src.Timer_stop, execBlock, execStmt, eval]

theorem timer_stop_start_time (M : Meths) (t : Timer) :
    (envM M (timerEnv t) Src.Timer_stop).map (· "self.start_time") = .ok (some pnone) := by
  simp [envM, timer_stop_agrees, timerEnv, Timer.stop, optPV]

/-- `Timer.start(timeout)`: the object and the argument -/
def startEnv (t : Timer) (timeout : PV) : Env := fun k =>
  match k with
  | "timeout" => some timeout
  | _ => timerEnv t k

theorem startEnv_startAt (t : Timer) (now : Nat) (v : PV) :
    (startEnv t v).set "self.start_time" (pint now) = startEnv (t.startAt now) v := by
  funext k
  by_cases h1 : k = "self.start_time"
  · subst h1; rfl
  · simp only [Env.set, startEnv, timerEnv, h1, Timer.startAt, if_false]
    split
    · rfl
    · split <;> simp_all

/-- `start()` / `start(None)`: only `start_time` changes, to the clock value: the model's `t.startAt now` -/
theorem timer_start_none_agrees (M : Meths) (t : Timer) (now : Nat) (hM : ClockIs M now) :
    runFn M (startEnv t pnone) Src.Timer_start = .ok (pnone, startEnv (t.startAt now) pnone) := by
  rw [← startEnv_startAt]
  simp [runFn, Src.Timer_start, execBlock, execStmt, eval, evalArgs, startEnv, builtin_clock, hM _]

theorem timer_start_none_start_time (M : Meths) (t : Timer) (now : Nat) (hM : ClockIs M now) :
    (envM M (startEnv t pnone) Src.Timer_start).map (· "self.start_time") = .ok (some (pint now)) := by
  simp [envM, timer_start_none_agrees M t now hM, startEnv, timerEnv, Timer.startAt, optPV]

/-- `start(timeout)` with `timeout is not None`: `self.set_timeout(timeout)` (a `Meths.proc`: it converts a float, which is outside
    this subset) runs first, on the unchanged object, then `start_time` is set to the clock value in the object it returns;
    if it raises, `start` raises the same. -/
theorem timer_start_some_agrees (M : Meths) (t : Timer) (now : Nat) (v : PV) (hv : v ≠ pnone) (hM : ClockIs M now) :
    envM M (startEnv t v) Src.Timer_start =
      (M.proc "self.set_timeout" [v] (startEnv t v)).map (fun env' => env'.set "self.start_time" (pint now)) := by
  cases hp : M.proc "self.set_timeout" [v] (startEnv t v) <;>
    simp [envM, runFn, Src.Timer_start, execBlock, execStmt, eval, evalArgs, startEnv, builtin_clock, builtin_set_timeout, hM _, hv, hp]

/-! ### non-vacuity of the hypotheses -/

example : ClockIs (clockMeths 7) 7 ∧ ClockIs (timerMeths { start := some 5, timeout := 10 } 7) 7 :=
  ⟨clockMeths_clockIs 7, timerMeths_clockIs _ 7⟩
example : Mono { start := some 5, timeout := 10 } 7 := by
  intro s h; cases h; decide
example : Mono { start := none, timeout := 10 } 0 := by
  intro s h; cases h
example : pint 3 ≠ pnone := by decide
example : nearestFd 13 = some 16 ∧ nearestFd 65 = none := by decide

end Isotp.PyAgree

#print axioms Isotp.PyAgree.get_nearest_can_fd_size_agrees
#print axioms Isotp.PyAgree.get_nearest_can_fd_size_some
#print axioms Isotp.PyAgree.get_nearest_can_fd_size_none
#print axioms Isotp.PyAgree.dlcMeths_nearest
#print axioms Isotp.PyAgree.get_dlc_agrees_gen
#print axioms Isotp.PyAgree.get_dlc_agrees
#print axioms Isotp.PyAgree.get_dlc_agrees_noValidate
#print axioms Isotp.PyAgree.dlcOf_eq_noValidate
#print axioms Isotp.PyAgree.craft_flow_control_data_agrees
#print axioms Isotp.PyAgree.timer_is_stopped_agrees
#print axioms Isotp.PyAgree.timer_elapsed_ns_int
#print axioms Isotp.PyAgree.timer_elapsed_ns_agrees
#print axioms Isotp.PyAgree.timerMeths_is_stopped
#print axioms Isotp.PyAgree.timerMeths_elapsed_ns
#print axioms Isotp.PyAgree.timer_is_timed_out_agrees
#print axioms Isotp.PyAgree.timer_remaining_ns_agrees
#print axioms Isotp.PyAgree.timer_is_timed_out_linked
#print axioms Isotp.PyAgree.timer_remaining_ns_linked
#print axioms Isotp.PyAgree.remaining_ns_needs_mono
#print axioms Isotp.PyAgree.timer_stop_agrees
#print axioms Isotp.PyAgree.timer_stop_start_time
#print axioms Isotp.PyAgree.timer_start_none_agrees
#print axioms Isotp.PyAgree.timer_start_none_start_time
#print axioms Isotp.PyAgree.timer_start_some_agrees
