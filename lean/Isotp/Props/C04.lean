import Isotp.Proofs.Fc
/-
  C04 — Sender obeys flow control from any peer and always terminates.
  Property theorems only; helper lemmas live in Isotp/Proofs/Fc.lean.

  Vocabulary (all defined in Proofs/Fc.lean):
  * `cfBranch s`      this `processTx` call runs the TRANSMIT_CF branch of the state machine, the
                      only place where a Consecutive Frame is built;
  * `EmitsCf s msg`   `cfBranch s` and the call hands `msg` out;
  * `ctsHonoured s fc` the guard under which `handleFc` honours a ContinueToSend
                      (`status = 0`, N_Bs not expired, state WAIT_FC or TRANSMIT_CF);
  * `TxEv`, `monStep`, `monRun`, `txEvents`, `Coupled`  the block-size monitor of the property
                      text, the events of one `processTx` call, and the coupling invariant;
  * `Strict`, `SEv`, `strictStep`, `strictRun`, `txEventsS`, `rxEventsS`, `SInv`  the strict
                      monitor (count / granted / recent), its events and coupling (section 2b);
  * `TxWf`, `TxLive`  transmit-side well-formedness / "no wedged state";
  * `afterFc`, `afterTimeout`  phases 1 and 2 of `_process_tx` (mailbox, N_Bs check).
  The clause "everything emitted is a prefix of the reference segmentation" is handled elsewhere.
-/
namespace Isotp.C04
open Isotp State Fc

/-! ### Concrete states used by the non-vacuity examples -/

def exHalf : Half :=
  { mode := .n11, txid := some 0x123, rxid := some 0x456, ta := none, sa := none, ae := none,
    physId := 0, funcId := 0, rxOnly := false, txOnly := false }
def exAddr : Addr := ⟨exHalf, exHalf⟩
def exReq : Req := { id := 7, size := 30, src := List.replicate 30 0x55 }
def exReq2 : Req := { id := 8, size := 3, src := [1, 2, 3] }
/-- idle layer, a 30-byte and a 3-byte request queued, `wftmax = 1` -/
def ex0 : State := { State.init { wftmax := 1 } exAddr with txQueue := [exReq, exReq2] }
/-- after the First Frame (sent at t = 0): WAIT_FC -/
def ex1 : State := ex0.processTx.1
/-- ContinueToSend(BS = 2, STmin = 0) in the mailbox at 1 ms -/
def exCts : State := { ex1 with now := 1000000, lastFc := some ⟨0, 2, 0⟩ }
/-- first CF of the block sent: TRANSMIT_CF, `txBlockCnt = 1` -/
def ex2 : State := exCts.processTx.1
/-- second CF sent: block of 2 exhausted, WAIT_FC again -/
def ex3 : State := ex2.processTx.1
/-- Wait / Overflow / nothing in the mailbox while waiting -/
def exWait : State := { ex1 with now := 1000000, lastFc := some ⟨1, 0, 0⟩ }
def exOvfl : State := { ex1 with now := 1000000, lastFc := some ⟨2, 0, 0⟩ }
def exLate : State := { ex1 with now := 1000000001 }
def exLateCts : State := { ex1 with now := 1000000001, lastFc := some ⟨0, 2, 0⟩ }
/-- a second Wait after the first one was accepted (`wftmax = 1`) -/
def exWait2 : State := { exWait.processTx.1 with lastFc := some ⟨1, 0, 0⟩ }
/-- the same WAIT_FC situation under the default `wftmax = 0` -/
def exWait0 : State :=
  { ({ State.init {} exAddr with txQueue := [exReq] } : State).processTx.1 with
    now := 1000000, lastFc := some ⟨1, 0, 0⟩ }
/-- mid-block ContinueToSend with a smaller block size: BS 8 granted, 5 sent, then BS 3 -/
def exMid : State := { ex2 with remoteBs := some 8, txBlockCnt := 5, lastFc := some ⟨0, 3, 0⟩ }

/-! ### 1. `no_cf_before_cts` -/

/-- A Consecutive Frame can only be built by a call that starts in TRANSMIT_CF (so a
    ContinueToSend was honoured before), or that starts in WAIT_FC and finds an honoured
    ContinueToSend in its mailbox. -/
theorem cf_only_after_cts (s : State) (h : cfBranch s = true) :
    s.txState = .transmitCf ∨
    (s.txState = .waitFc ∧ ∃ fc, s.lastFc = some fc ∧ ctsHonoured s fc = true) :=
  cfBranch_cases s h

/-- In WAIT_FC (after the First Frame or at a block boundary) a Consecutive Frame is emitted
    only if the mailbox holds a ContinueToSend and the N_Bs timer has not expired. -/
theorem no_cf_before_cts (s : State) (msg : CanMsg) (hs : s.txState = .waitFc) (h : EmitsCf s msg) :
    ∃ fc, s.lastFc = some fc ∧ fc.status = 0 ∧ s.timerFc.timedOut s.now = false := by
  rcases cfBranch_cases s h.1 with h1 | ⟨_, fc, hfc, hh⟩
  · rw [hs] at h1; cases h1
  · refine ⟨fc, hfc, ?_⟩
    simp only [ctsHonoured, Bool.and_eq_true, decide_eq_true_eq, Bool.not_eq_true'] at hh
    exact ⟨hh.1.1, hh.1.2⟩

/-- with an empty mailbox no Consecutive Frame leaves WAIT_FC -/
theorem no_cf_without_fc (s : State) (hs : s.txState = .waitFc) (hfc : s.lastFc = none) :
    cfBranch s = false := by
  cases h : cfBranch s with
  | false => rfl
  | true =>
    rcases cfBranch_cases s h with h1 | ⟨_, fc, hfc', _⟩
    · rw [hs] at h1; cases h1
    · rw [hfc] at hfc'; cases hfc'

/-- nor with a Wait or Overflow frame (or any status other than ContinueToSend) -/
theorem no_cf_on_wait_or_overflow (s : State) (fc : FcFrame) (hs : s.txState = .waitFc)
    (hfc : s.lastFc = some fc) (hst : fc.status ≠ 0) : cfBranch s = false := by
  cases h : cfBranch s with
  | false => rfl
  | true =>
    rcases cfBranch_cases s h with h1 | ⟨_, fc', hfc', hh⟩
    · rw [hs] at h1; cases h1
    · rw [hfc] at hfc'; cases hfc'
      simp [ctsHonoured, hst] at hh

/-- nor once the N_Bs deadline has passed, even with a ContinueToSend in the mailbox -/
theorem no_cf_after_deadline (s : State) (hs : s.txState = .waitFc)
    (ht : s.timerFc.timedOut s.now = true) : cfBranch s = false := by
  cases h : cfBranch s with
  | false => rfl
  | true =>
    rcases cfBranch_cases s h with h1 | ⟨_, fc', _, hh⟩
    · rw [hs] at h1; cases h1
    · simp [ctsHonoured, ht] at hh

/-- idle, or First/Single Frame still held back by the rate limiter: no Consecutive Frame,
    whatever the mailbox holds -/
theorem no_cf_outside_transmission (s : State)
    (hs : s.txState = .idle ∨ s.txState = .sfStandby ∨ s.txState = .ffStandby) :
    cfBranch s = false := by
  cases h : cfBranch s with
  | false => rfl
  | true =>
    rcases cfBranch_cases s h with h1 | ⟨h1, _⟩ <;> rcases hs with hs | hs | hs <;>
      rw [hs] at h1 <;> cases h1

/-- D5 (fixed): while the First Frame is in standby a received ContinueToSend does not move the
    state machine to TRANSMIT_CF — `handleFc` leaves the state untouched. -/
theorem cts_in_standby_ignored (s : State) (fc : FcFrame) (h0 : fc.status = 0)
    (hs : s.txState = .sfStandby ∨ s.txState = .ffStandby) : s.handleFc fc = s :=
  handleFc_cts_standby s fc h0 hs

/-- WAIT_FC, nothing received, deadline not reached: the pass does nothing at all -/
theorem waitFc_quiet (s : State) (r : Req) (hs : s.txState = .waitFc) (hp : s.pendingFc = false)
    (hfc : s.lastFc = none) (ht : s.timerFc.timedOut s.now = false) (ha : s.active = some r)
    (hd : r.depleted = false) : s.processTx = (s, none, false) :=
  processTx_waitFc_quiet s r hs hp hfc ht ha hd

example : ex1.txState = .waitFc ∧ ex1.lastFc = none ∧ ex1.pendingFc = false := by decide
example : ex1.processTx.2.1 = none := by decide
example : EmitsCf exCts (exCts.processTx.2.1.get (by decide)) := ⟨by decide, by simp⟩
example : exCts.processTx.2.1.map (·.data) = some [0x21, 0x55, 0x55, 0x55, 0x55, 0x55, 0x55, 0x55] := by
  decide
example : exWait.txState = .waitFc ∧ exWait.processTx.2.1 = none := by decide
example : exLateCts.txState = .waitFc ∧ exLateCts.timerFc.timedOut exLateCts.now = true := by decide

/-! ### 2. `block_bound` -/

/-- **Monitor step theorem.** The monitor of the property text (FF/SF handed out → budget 0;
    ContinueToSend(BS) read → budget := max budget (BS, or ∞ for BS = 0); CF handed out →
    violation if the budget is 0, else budget − 1) is never violated by a `processTx` call, and
    the coupling between model state and budget is re-established: in TRANSMIT_CF the budget is at
    least 1, is ∞ when the granted BS is 0, and is at least `BS − txBlockCnt` while
    `txBlockCnt < BS`. -/
theorem block_bound_step (s : State) (b : Budget) (h : Coupled s b) :
    ∃ b', monRun b (txEvents s) = some b' ∧ Coupled s.processTx.1 b' :=
  monitor_step s b h

/-- the coupling holds trivially outside TRANSMIT_CF, in particular initially -/
theorem coupled_init (c : Cfg) (a : Addr) (b : Budget) : Coupled (State.init c a) b :=
  Coupled_of_not_cf b (by simp [State.init])

/-- and it only depends on what `processTx` itself writes: `processRx` keeps it -/
theorem coupled_processRx (s : State) (m : CanMsg) (b : Budget) (h : Coupled s b) :
    Coupled (s.processRx m).1 b := by
  have := processRx_txView s m
  simp only [txView, Prod.mk.injEq] at this
  exact Coupled_congr this.1 this.2.2.2.2.2.1 this.2.2.2.2.2.2.1 h

theorem coupled_advance (s : State) (dt : Nat) (b : Budget) (h : Coupled s b) :
    Coupled (s.advance dt) b := h

theorem coupled_send (s : State) (a : SendArgs) (b : Budget) (h : Coupled s b) :
    Coupled (s.send a).1 b := by
  unfold send
  simp only []
  repeat' split
  all_goals exact h

theorem coupled_checkTimeoutsRx (s : State) (b : Budget) (h : Coupled s b) :
    Coupled s.checkTimeoutsRx b := by
  unfold checkTimeoutsRx
  split <;> exact h

theorem coupled_reset (s : State) (b : Budget) : Coupled s.reset b := by
  unfold reset
  exact Coupled_congr (s := (({ s with rxQueue := [] } : State).clearTxQueue s.txQueue).stopSending false)
    rfl rfl rfl (Coupled_stopSending _ _ _)

/-- operations of a single-threaded run -/
inductive Op where
  | tx | rx (m : CanMsg) | tick (dt : Nat) | send (a : SendArgs) | checkRx | reset

def step (s : State) : Op → State
  | .tx => s.processTx.1
  | .rx m => (s.processRx m).1
  | .tick dt => s.advance dt
  | .send a => (s.send a).1
  | .checkRx => s.checkTimeoutsRx
  | .reset => s.reset

/-- monitor events of a run (only `processTx` calls produce any) -/
def runEvents (s : State) : List Op → List TxEv
  | [] => []
  | .tx :: ops => txEvents s ++ runEvents s.processTx.1 ops
  | o :: ops => runEvents (step s o) ops

def run (s : State) : List Op → State
  | [] => s
  | o :: ops => run (step s o) ops

theorem monRun_append (b : Budget) (l1 l2 : List TxEv) :
    monRun b (l1 ++ l2) = (monRun b l1).bind (fun b1 => monRun b1 l2) := by
  induction l1 generalizing b with
  | nil => rfl
  | cons e es ih =>
    simp only [List.cons_append, monRun]
    cases monStep b e with
    | none => rfl
    | some b' => exact ih b'

/-- **Block bound over a whole run.** Starting from any state coupled with the budget (e.g. a
    fresh layer with budget 0), whatever Flow Control frames arrive and whenever `process` is
    called, the sequence of First/Consecutive Frames handed out and ContinueToSend frames read
    never violates the monitor: never a Consecutive Frame before a ContinueToSend, never more
    Consecutive Frames than granted since the sender last waited. -/
theorem block_bound_run (ops : List Op) (s : State) (b : Budget) (h : Coupled s b) :
    ∃ b', monRun b (runEvents s ops) = some b' ∧ Coupled (run s ops) b' := by
  induction ops generalizing s b with
  | nil => exact ⟨b, rfl, h⟩
  | cons o ops ih =>
    cases o with
    | tx =>
      obtain ⟨b1, h1, c1⟩ := monitor_step s b h
      obtain ⟨b2, h2, c2⟩ := ih s.processTx.1 b1 c1
      refine ⟨b2, ?_, c2⟩
      simp only [runEvents, monRun_append, h1]
      exact h2
    | rx m => exact ih _ b (coupled_processRx s m b h)
    | tick dt => exact ih _ b (coupled_advance s dt b h)
    | send a => exact ih _ b (coupled_send s a b h)
    | checkRx => exact ih _ b (coupled_checkTimeoutsRx s b h)
    | reset => exact ih _ b (coupled_reset s b)

/-- the state-only invariant of the task description -/
def BlockInv (s : State) : Prop :=
  s.txState = .transmitCf → ∃ bs, s.remoteBs = some bs ∧ (bs = 0 ∨ s.txBlockCnt < bs)

/-- established by a ContinueToSend honoured in WAIT_FC (the block counter restarts at 0; a
    granted BS of 0 means "no limit") -/
theorem blockInv_established (s : State) (fc : FcFrame) (hs : s.txState = .waitFc)
    (h : ctsHonoured s fc = true) :
    BlockInv (s.handleFc fc) ∧ (s.handleFc fc).txBlockCnt = 0 ∧ (s.handleFc fc).remoteBs = some fc.bs := by
  rw [handleFc_cts s fc h]
  refine ⟨fun _ => ⟨fc.bs, rfl, ?_⟩, ?_, rfl⟩
  · simp only [hs, if_true]; omega
  · simp only [hs, if_true]

/-- preserved by the TRANSMIT_CF branch: after the frame that completes the block
    (`txBlockCnt + 1 ≥ BS ≠ 0`) the state machine is not in TRANSMIT_CF any more -/
theorem blockInv_transmitCf (s : State) (allowed : Nat) (h : BlockInv s) (hs : s.txState = .transmitCf) :
    BlockInv (s.transmitCf allowed).1 := by
  obtain ⟨bs, hb, hlt⟩ := h hs
  intro hs'
  obtain ⟨k1, k2, k3⟩ := (transmitCf_block s allowed bs hb).2 hs'
  refine ⟨bs, k1, ?_⟩
  cases ho : (s.transmitCf allowed).2.1 with
  | none => rw [k2 ho]; exact hlt
  | some m =>
    obtain ⟨k4, k5⟩ := k3 (by simp [ho])
    rw [k4]; exact k5

/-- at the end of a block the sender waits, with the N_Bs timer running: the frame that
    completes the block (`txBlockCnt + 1 ≥ BS ≠ 0`) is followed by WAIT_FC (or by idle when the
    message is finished) -/
theorem block_end_waits (s : State) (allowed bs : Nat) (hb : s.remoteBs = some bs) (h0 : bs ≠ 0)
    (hc : s.txBlockCnt + 1 ≥ bs) (ho : (s.transmitCf allowed).2.1.isSome) :
    (s.transmitCf allowed).1.txState = .idle ∨ (s.transmitCf allowed).1.txState = .waitFc :=
  transmitCf_block_end s allowed bs hb h0 hc ho

theorem block_end_starts_timer (s : State) (allowed : Nat) (hs : s.txState = .transmitCf)
    (h : (s.transmitCf allowed).1.txState = .waitFc) :
    (s.transmitCf allowed).1.timerFc = { start := some s.now, timeout := s.cfg.tFc } :=
  transmitCf_waitFc_timer s allowed hs h

/-- A ContinueToSend honoured *mid-block* (state TRANSMIT_CF) replaces the block size but keeps
    the count of frames already sent in the block. -/
theorem midblock_cts (s : State) (fc : FcFrame) (hs : s.txState = .transmitCf)
    (h : ctsHonoured s fc = true) :
    (s.handleFc fc).remoteBs = some fc.bs ∧ (s.handleFc fc).txBlockCnt = s.txBlockCnt ∧
    (s.handleFc fc).txState = .transmitCf := by
  rw [handleFc_cts s fc h]
  simp [hs]

/-- Consequently the state-only invariant `BlockInv` (`txBlockCnt < BS`) is **not** preserved by
    a mid-block ContinueToSend whose block size does not exceed the frames already sent:
    witness BS 8 granted, 5 sent, then ContinueToSend(BS = 3). -/
theorem blockInv_not_preserved_midblock :
    BlockInv exMid ∧ ctsHonoured exMid ⟨0, 3, 0⟩ = true ∧ ¬ BlockInv (exMid.handleFc ⟨0, 3, 0⟩) := by
  refine ⟨fun _ => ⟨8, by decide, by decide⟩, by decide, ?_⟩
  intro h
  obtain ⟨bs, hb, hlt⟩ := h (by decide)
  have : (exMid.handleFc ⟨0, 3, 0⟩).remoteBs = some 3 := by decide
  rw [this] at hb
  injection hb with hb
  subst hb
  have : (exMid.handleFc ⟨0, 3, 0⟩).txBlockCnt = 5 := by decide
  rw [this] at hlt
  omega

/-- What the model does then: exactly one more Consecutive Frame goes out, after which the
    sender waits (WAIT_FC) or is done.  This is within the monitor's budget, which still holds
    the remainder (8 − 5 = 3) of the earlier grant: `block_bound_step` covers this case. -/
theorem midblock_overrun_one_then_wait (s : State) (allowed bs : Nat) (hb : s.remoteBs = some bs)
    (h0 : bs ≠ 0) (hc : s.txBlockCnt ≥ bs) (ho : (s.transmitCf allowed).2.1.isSome) :
    (s.transmitCf allowed).1.txState = .idle ∨ (s.transmitCf allowed).1.txState = .waitFc :=
  transmitCf_overrun s allowed bs hb h0 hc ho

example : Coupled ex1 (some 0) := Coupled_of_not_cf _ (by decide)
example : txEvents exCts = [.fcRead 2, .cfSent] := by decide
example : txEvents ex2 = [.cfSent] := by decide
example : ex2.txState = .transmitCf ∧ ex2.txBlockCnt = 1 ∧ ex3.txState = .waitFc := by decide
example : monRun (some 0) (txEvents exCts ++ txEvents ex2) = some (some 0) := by decide
/-- a third Consecutive Frame would be a violation — and the model does not emit it -/
example : monRun (some 0) ([.fcRead 2, .cfSent, .cfSent, .cfSent]) = none := by decide
example : txEvents ex3 = [] := by decide
example : txEvents ex0 = [.startSent] := by decide
example : txEvents exMid = [.fcRead 3, .cfSent] ∧ exMid.processTx.1.txState = .waitFc := by decide

/-! ### 2b. `block_bound_strict`: the strict monitor (count / granted / recent)

  Ghost state `Strict` = (`count`: CFs handed out since the sender last waited; `granted`: largest
  block size granted by a ContinueToSend since it last waited, `none` = ∞ for BS = 0; `recent`:
  largest block size granted since the last data frame).  Events (`SEv`):
  * `ffSent`  → count := 0, granted := 0, recent := 0;
  * `ctsRead bs` (a ContinueToSend reaches the mailbox in `processRx`, even if it is overwritten
    before being consumed) → granted := max granted bs', recent := max recent bs';
  * `waitPass` (a `processTx` pass begins with `txState = .waitFc`) → count := 0, granted := recent;
  * `cfSent` → recent := 0, count := count + 1, **violation** if count > granted;
  * `sfSent` → recent := 0 when the flag `sfResets` is set, nothing otherwise (both readings hold).
  `txEventsS s` = [`waitPass` if the pass begins in WAIT_FC] ++ [`cfSent` | `ffSent` | `sfSent`
  according to the data frame handed out, if any]; `rxEventsS s m` = [`ctsRead bs`] when `m`
  decodes to a ContinueToSend. -/

/-- strict-monitor events of one operation -/
def stepEventsS (s : State) : Op → List SEv
  | .tx => txEventsS s
  | .rx m => rxEventsS s m
  | _ => []

/-- strict-monitor events of a run -/
def runEventsS (s : State) : List Op → List SEv
  | [] => []
  | o :: ops => stepEventsS s o ++ runEventsS (step s o) ops

/-- **Strict monitor, one transmit pass.** From a state coupled with the monitor (`SInv`: in
    TRANSMIT_CF `txBlockCnt = count`, `count + 1 ≤ granted`, `granted` covers the block size in
    force; a ContinueToSend waiting in the mailbox is covered by `recent` and `granted`), a
    `processTx` call never violates the strict monitor and re-establishes the coupling. -/
theorem block_bound_strict_step (sfResets : Bool) (s : State) (g : Strict) (h : SInv s g) :
    ∃ g', strictRun sfResets g (txEventsS s) = some g' ∧ SInv s.processTx.1 g' :=
  strict_step_tx sfResets s g h

/-- the same for `processRx` (a ContinueToSend reaching the mailbox only enlarges the grants) -/
theorem block_bound_strict_step_rx (sfResets : Bool) (s : State) (m : CanMsg) (g : Strict)
    (h : SInv s g) :
    ∃ g', strictRun sfResets g (rxEventsS s m) = some g' ∧ SInv (s.processRx m).1 g' :=
  strict_step_rx sfResets s m g h

/-- the coupling holds for a fresh layer, whatever the monitor state -/
theorem strict_coupled_init (c : Cfg) (a : Addr) (g : Strict) : SInv (State.init c a) g :=
  SInv_init c a g

/-- **Strict block bound over a whole run**, for arbitrary interleavings of transmit passes,
    received frames, clock ticks, `send`, rx-timeout checks and `reset`: the model never violates
    the strict monitor. -/
theorem block_bound_strict_run (sfResets : Bool) (ops : List Op) (s : State) (g : Strict)
    (h : SInv s g) :
    ∃ g', strictRun sfResets g (runEventsS s ops) = some g' ∧ SInv (run s ops) g' := by
  induction ops generalizing s g with
  | nil => exact ⟨g, rfl, h⟩
  | cons o ops ih =>
    have key : ∀ g1, strictRun sfResets g (stepEventsS s o) = some g1 → SInv (step s o) g1 →
        ∃ g', strictRun sfResets g (runEventsS s (o :: ops)) = some g' ∧ SInv (run s (o :: ops)) g' := by
      intro g1 h1 c1
      obtain ⟨g2, h2, c2⟩ := ih (step s o) g1 c1
      refine ⟨g2, ?_, c2⟩
      simp only [runEventsS, strictRun_append, h1]
      exact h2
    cases o with
    | tx =>
      obtain ⟨g1, h1, c1⟩ := strict_step_tx sfResets s g h
      exact key g1 h1 c1
    | rx m =>
      obtain ⟨g1, h1, c1⟩ := strict_step_rx sfResets s m g h
      exact key g1 h1 c1
    | tick dt => exact key g rfl (SInv_advance s dt g h)
    | send a => exact key g rfl (SInv_send s a g h)
    | checkRx => exact key g rfl (SInv_checkTimeoutsRx s g h)
    | reset => exact key g rfl (SInv_reset s g)

/-- **Corollary in plain terms.** Run a fresh layer through any sequence of operations. At the
    end (hence, the sequence being arbitrary, at every moment) the monitor has not been violated
    and `count ≤ granted`: the number of Consecutive Frames handed out since the last pass that
    began in WAIT_FC (or since the First Frame) is at most the largest block size granted by a
    ContinueToSend in that stretch — unless one of those grants was BS = 0 (`granted = none`). -/
theorem block_bound_strict_corollary (sfResets : Bool) (ops : List Op) (c : Cfg) (a : Addr) :
    ∃ g', strictRun sfResets {} (runEventsS (State.init c a) ops) = some g' ∧
      (g'.granted = none ∨ ∃ m, g'.granted = some m ∧ g'.count ≤ m) := by
  obtain ⟨g', h1, _⟩ := block_bound_strict_run sfResets ops (State.init c a) {} (SInv_init c a {})
  refine ⟨g', h1, ?_⟩
  have hok : g'.ok := strictRun_ok sfResets {} g' _ (by simp [Strict.ok, Budget.ge]) h1
  unfold Strict.ok at hok
  cases hg : g'.granted with
  | none => exact Or.inl rfl
  | some m => right; rw [hg] at hok; exact ⟨m, rfl, hok⟩

/-- a ContinueToSend (BS = 2, STmin = 0) as it arrives on the bus -/
def exCtsMsg : CanMsg := { id := 0x456, ext := false, data := [0x30, 2, 0] }

example : rxEventsS ex1 exCtsMsg = [.ctsRead 2] := by decide
example : txEventsS ex0 = [.ffSent] ∧ txEventsS ex1 = [.waitPass] := by decide
/-- FF, CTS(2) arrives, two CFs, then the sender waits: the event trace of the model -/
example : runEventsS ex0 [.tx, .tick 1000000, .rx exCtsMsg, .tx, .tx, .tx] =
    [.ffSent, .ctsRead 2, .waitPass, .cfSent, .cfSent, .waitPass] := by decide
example : strictRun true {} [.ffSent, .ctsRead 2, .waitPass, .cfSent, .cfSent, .waitPass] =
    some { count := 0, granted := some 0, recent := some 0 } := by decide
/-- a third Consecutive Frame in the stretch would be a violation -/
example : strictRun true {} [.ffSent, .ctsRead 2, .waitPass, .cfSent, .cfSent, .cfSent] = none := by decide
/-- a grant received *before* the last data frame does not carry over a wait -/
example : strictRun true {} [.ffSent, .ctsRead 1, .waitPass, .ctsRead 5, .cfSent, .waitPass, .cfSent] = none := by
  decide
/-- mid-block ContinueToSend with a smaller block size (8 granted, 5 sent, then BS = 3): the one
    extra frame is within `granted = 8`, and the sender then waits -/
example : strictRun true { count := 5, granted := some 8, recent := some 0 } [.ctsRead 3, .cfSent, .waitPass] =
    some { count := 0, granted := some 0, recent := some 0 } := by decide

/-! ### 3. `abort_*` -/

theorem stopSending_log (s : State) (r : Req) (ok : Bool) (ha : s.active = some r) :
    (s.stopSending ok).log = .done r.id ok :: s.log := by
  simp [stopSending, ha, emit]

/-- (a) **Overflow** while a request is active: `.done id false` then the Overflow error are
    logged, nothing is sent, the state machine is idle, the request is gone and not re-queued. -/
theorem abort_overflow (s : State) (fc : FcFrame) (r : Req) (hp : s.pendingFc = false)
    (hfc : s.lastFc = some fc) (h2 : fc.status = 2) (ha : s.active = some r) :
    s.processTx.2 = (none, false) ∧ s.processTx.1.txState = .idle ∧ s.processTx.1.active = none ∧
    s.processTx.1.txQueue = s.txQueue ∧ s.processTx.1.lastFc = none ∧
    s.processTx.1.log = .err s.now .Overflow :: .done r.id false :: s.log := by
  rw [processTx_overflow s fc hp hfc h2]
  have hi := stopSending_idle ({ s with lastFc := none } : State) false
  have hm := stopSending_misc ({ s with lastFc := none } : State) false
  have hl := stopSending_log ({ s with lastFc := none } : State) r false ha
  refine ⟨rfl, hi.1, hi.2.1, hi.2.2.2.1, hm.1, ?_⟩
  show State.log (State.error _ _) = _
  simp only [State.error, emit, hl, hi.2.2.1]

/-- (b) **Wait with `wftmax = 0`**: the frame is reported as unsupported and changes nothing
    else — the pass goes on exactly as a pass with an empty mailbox on the same state (plus the
    log entry). -/
theorem wait_unsupported (s : State) (fc : FcFrame) (hp : s.pendingFc = false)
    (hfc : s.lastFc = some fc) (hs : s.txState ≠ .idle) (h1 : fc.status = 1)
    (ht : s.timerFc.timedOut s.now = false) (hw : s.cfg.wftmax = 0) :
    afterFc s = (({ s with lastFc := none } : State).error .UnsupportedWaitFrame, false) ∧
    s.processTx = (({ s with lastFc := none } : State).error .UnsupportedWaitFrame).processTx := by
  have h := afterFc_wait_unsupported s fc hfc hs h1 ht hw
  refine ⟨h, ?_⟩
  rw [processTx_continue s hp (by rw [h]), h]
  congr 1
  exact afterTimeout_of_not_timedOut ht

/-- (c) **Too many Wait frames** (`wftCnt ≥ wftmax > 0`): MaximumWaitFrameReached is logged, the
    request fails, the state machine is idle; the pass then goes on as a fresh pass on that
    idle state. -/
theorem abort_wait_max (s : State) (fc : FcFrame) (r : Req) (hp : s.pendingFc = false)
    (hfc : s.lastFc = some fc) (hs : s.txState ≠ .idle) (h1 : fc.status = 1)
    (ht : s.timerFc.timedOut s.now = false) (hw : s.cfg.wftmax ≠ 0) (hc : s.wftCnt ≥ s.cfg.wftmax)
    (ha : s.active = some r) :
    let s' := (({ s with lastFc := none } : State).error .MaximumWaitFrameReached).stopSending false
    (afterFc s).1 = s' ∧ s.processTx = s'.processTx ∧
    s'.txState = .idle ∧ s'.active = none ∧ s'.txQueue = s.txQueue ∧ s'.timerFc.start = none ∧
    s'.log = .done r.id false :: .err s.now .MaximumWaitFrameReached :: s.log := by
  intro s'
  have h := afterFc_wait_max s fc hfc hs h1 ht hw hc
  have hi := stopSending_idle (({ s with lastFc := none } : State).error .MaximumWaitFrameReached) false
  refine ⟨by rw [h], ?_, hi.1, hi.2.1, hi.2.2.2.1, hi.2.2.2.2.1, ?_⟩
  · rw [processTx_continue s hp (by rw [h]), h]
    congr 1 <;> exact afterTimeout_of_not_timedOut (timedOut_of_stopped hi.2.2.2.2.1 _)
  · exact stopSending_log _ r false ha

/-- (c′) a Wait frame within the allowance is accepted: counter + 1, state WAIT_FC, N_Bs timer
    restarted at the current time -/
theorem wait_accepted (s : State) (fc : FcFrame) (hfc : s.lastFc = some fc)
    (hs : s.txState = .waitFc ∨ s.txState = .transmitCf) (h1 : fc.status = 1)
    (ht : s.timerFc.timedOut s.now = false) (hc : s.wftCnt < s.cfg.wftmax) :
    afterFc s =
      ({ s with lastFc := none, wftCnt := s.wftCnt + 1, txState := .waitFc,
                timerFc := { start := some s.now, timeout := s.cfg.tFc } }, false) :=
  afterFc_wait_ok s fc hfc hs h1 ht hc

/-- (d) **N_Bs expiry** in WAIT_FC (or any non-idle state with the timer expired): whatever
    non-Overflow frame the same pass reads from the mailbox — a ContinueToSend, a Wait (D11) — it
    is not honoured; FlowControlTimeout is logged, the request fails, the state machine is idle;
    the pass then goes on as a fresh pass on that idle state. -/
theorem abort_fc_timeout (s : State) (r : Req) (hp : s.pendingFc = false) (hs : s.txState ≠ .idle)
    (ht : s.timerFc.timedOut s.now = true) (h2 : ∀ fc, s.lastFc = some fc → fc.status ≠ 2)
    (ha : s.active = some r) :
    let s' := (({ s with lastFc := none } : State).error .FlowControlTimeout).stopSending false
    afterTimeout (afterFc s).1 = s' ∧ s.processTx = s'.processTx ∧
    s'.txState = .idle ∧ s'.active = none ∧ s'.txQueue = s.txQueue ∧ s'.timerFc.start = none ∧
    s'.log = .done r.id false :: .err s.now .FlowControlTimeout :: s.log := by
  intro s'
  have h := afterTimeout_late s hs ht h2
  have hf := afterFc_late s hs ht h2
  have hi := stopSending_idle (({ s with lastFc := none } : State).error .FlowControlTimeout) false
  refine ⟨h, ?_, hi.1, hi.2.1, hi.2.2.2.1, hi.2.2.2.2.1, ?_⟩
  · rw [processTx_continue s hp (by rw [hf]), h]
  · exact stopSending_log _ r false ha

/-- every way a message ends (success or any failure) goes through `_stop_sending`: idle, no
    active request, both timers stopped, nothing in standby — nothing refers to the request any
    more, and the queue is untouched -/
theorem after_end_idle (s : State) (ok : Bool) :
    (s.stopSending ok).txState = .idle ∧ (s.stopSending ok).active = none ∧
    (s.stopSending ok).now = s.now ∧ (s.stopSending ok).txQueue = s.txQueue ∧
    (s.stopSending ok).timerFc.start = none ∧ (s.stopSending ok).timerStmin.start = none ∧
    (s.stopSending ok).standby = none :=
  stopSending_idle s ok

example : exOvfl.processTx.1.log.take 2 = [.err 1000000 .Overflow, .done 7 false] := by decide
example : exWait0.processTx.1.log.head? = some (.err 1000000 .UnsupportedWaitFrame) ∧
    exWait0.processTx.1.txState = .waitFc ∧ exWait0.processTx.1.wftCnt = 0 := by decide
example : exWait.processTx.1.wftCnt = 1 ∧ exWait.processTx.1.txState = .waitFc ∧
    exWait.processTx.1.timerFc.start = some 1000000 := by decide
example : exWait2.wftCnt ≥ exWait2.cfg.wftmax ∧ exWait2.cfg.wftmax ≠ 0 := by decide
example : exWait2.processTx.1.log.take 3 =
    [.done 8 true, .done 7 false, .err 1000000 .MaximumWaitFrameReached] := by decide
example : exLateCts.processTx.1.log.take 3 =
    [.done 8 true, .done 7 false, .err 1000000001 .FlowControlTimeout] := by decide
example : exLate.timerFc.timedOut exLate.now = true ∧ exLate.txState ≠ .idle := by decide

/-! ### 4. `next_message` -/

/-- Once a message has ended the state machine is idle (see `after_end_idle`), and the next pass
    without pending work takes the head of the queue and starts it: the result of the pass is
    the Single/First Frame handling `startTx` of that request, plus limiter accounting. -/
theorem next_message (s : State) (r : Req) (rest : List Req) (hs : s.txState = .idle)
    (hp : s.pendingFc = false) (hfc : s.lastFc = none) (ht : s.timerFc.start = none)
    (hq : s.txQueue = r :: rest) (hd : r.depleted = false) :
    s.processTx =
      finish ((({ s with txQueue := rest, active := some r } : State).startTx r (allowedNow s)).1,
              (({ s with txQueue := rest, active := some r } : State).startTx r (allowedNow s)).2, false) :=
  processTx_next_message s r rest hs hp hfc ht hq hd

/-- the next message starts in the very pass in which the previous one was aborted -/
example : exLate.processTx.2.1.map (·.data) = some [0x03, 1, 2, 3] := by decide
example : exLate.processTx.1.txState = .idle ∧ exLate.processTx.1.txQueue = [] := by decide
/-- and normally after a successful end -/
example : ex0.processTx.2.1.map (·.data) = some [0x10, 30, 0x55, 0x55, 0x55, 0x55, 0x55, 0x55] := by decide

/-! ### 5. `terminates` -/

/-- "No wedged state": `TxWf` holds initially … -/
theorem txWf_init (c : Cfg) (a : Addr) : TxWf (State.init c a) := TxWf_init c a
/-- … and is kept by every operation: -/
theorem txWf_processTx (s : State) (h : TxWf s) : TxWf s.processTx.1 := TxWf_processTx s h
theorem txWf_processRx (s : State) (m : CanMsg) (h : TxWf s) : TxWf (s.processRx m).1 := TxWf_processRx s m h
theorem txWf_send (s : State) (a : SendArgs) (h : TxWf s) : TxWf (s.send a).1 := TxWf_send s a h
theorem txWf_stopSending (s : State) (ok : Bool) : TxWf (s.stopSending ok) := TxWf_stopSending s ok
theorem txWf_reset (s : State) : TxWf s.reset := TxWf_reset s
theorem txWf_checkTimeoutsRx (s : State) (h : TxWf s) : TxWf s.checkTimeoutsRx := TxWf_checkTimeoutsRx s h
theorem txWf_advance (s : State) (dt : Nat) (h : TxWf s) : TxWf (s.advance dt) := TxWf_advance s dt h
/-- including a whole `process()` call -/
theorem txWf_process (s : State) (doRx doTx : Bool) (h : TxWf s) : TxWf (s.process doRx doTx).1 :=
  process_stable TxWf_loopStable s doRx doTx h

/-- so in every reachable state a message in progress has a running timer or a frame waiting
    for the rate limiter: WAIT_FC ⇒ N_Bs timer running with timeout `rx_flowcontrol_timeout`;
    TRANSMIT_CF ⇒ STmin timer running and a block size known; standby ⇒ the frame is there;
    non-idle ⇒ a request is active; and never more than `wftmax` Wait frames honoured in a row. -/
theorem no_wedged_state (s : State) (h : TxWf s) :
    TxLive s ∧
    (s.txState = .waitFc → s.timerFc.start.isSome ∧ s.timerFc.timeout = s.cfg.tFc) ∧
    (s.txState = .transmitCf → s.timerStmin.start.isSome ∧ s.remoteBs.isSome) ∧
    (s.txState = .sfStandby ∨ s.txState = .ffStandby → s.standby.isSome) ∧
    (s.txState ≠ .idle → s.active.isSome) ∧ s.wftCnt ≤ s.cfg.wftmax :=
  ⟨TxLive_of_TxWf h, h.1, h.2.2.1, h.2.2.2.1, h.2.2.2.2.1, h.2.2.2.2.2⟩

/-- (i) WAIT_FC is left at the latest by the first pass after the N_Bs deadline: the timer that
    `TxWf` guarantees to be running has then expired, and `abort_fc_timeout` applies. -/
theorem waitFc_deadline (s : State) (t0 : Nat) (hw : TxWf s) (hs : s.txState = .waitFc)
    (hst : s.timerFc.start = some t0) (hdue : s.now - t0 > s.cfg.tFc ∨ s.cfg.tFc = 0) :
    s.timerFc.timedOut s.now = true := by
  rw [Timer_timedOut_iff]
  refine ⟨t0, hst, ?_⟩
  rw [(hw.1 hs).2]
  exact hdue

/-- (ii) TRANSMIT_CF makes progress at the latest by the first pass after the STmin deadline
    (mailbox empty, limiter letting the frame through, valid configuration, no exception raised
    before): the pass does not raise; it ends the message, or hands out a Consecutive Frame and
    strictly decreases the number of bytes left to send. -/
theorem transmitCf_deadline (s : State) (r : Req) (t0 : Nat) (hw : TxWf s) (hs : s.txState = .transmitCf)
    (hst : s.timerStmin.start = some t0)
    (hdue : s.now - t0 > s.timerStmin.timeout ∨ s.timerStmin.timeout = 0)
    (hp : s.pendingFc = false) (hfc : s.lastFc = none) (ha : s.active = some r)
    (hd : r.depleted = false) (hl : cfPayloadLen s r ≤ (allowedNow s))
    (hv : s.cfg.valid = true) (he : s.exc = none) :
    s.processTx.1.exc = none ∧
    (s.processTx.1.txState = .idle ∨
     (∃ msg r', s.processTx.2.1 = some msg ∧ s.processTx.1.active = some r' ∧
       r'.remaining < r.remaining ∧ r'.id = r.id ∧ r'.size = r.size)) :=
  processTx_cf_progress_valid s r hw hs hp hfc ha hd ((Timer_timedOut_iff _ _).2 ⟨t0, hst, hdue⟩) hl hv he

/-- (ii′) the same without assuming a valid configuration or a clean exception flag: the pass
    may then also end with the exception flag set -/
theorem transmitCf_deadline_any_cfg (s : State) (r : Req) (t0 : Nat) (hw : TxWf s)
    (hs : s.txState = .transmitCf) (hst : s.timerStmin.start = some t0)
    (hdue : s.now - t0 > s.timerStmin.timeout ∨ s.timerStmin.timeout = 0)
    (hp : s.pendingFc = false) (hfc : s.lastFc = none) (ha : s.active = some r)
    (hd : r.depleted = false) (hl : cfPayloadLen s r ≤ (allowedNow s))
    (hdl : s.txPrefixLen + 2 ≤ s.cfg.txDl) :
    s.processTx.1.exc.isSome ∨ s.processTx.1.txState = .idle ∨
    (∃ msg r', s.processTx.2.1 = some msg ∧ s.processTx.1.active = some r' ∧
      r'.remaining < r.remaining ∧ r'.id = r.id ∧ r'.size = r.size) :=
  processTx_cf_progress s r hw hs hp hfc ha hd ((Timer_timedOut_iff _ _).2 ⟨t0, hst, hdue⟩) hl hdl

/-- the frame-size side condition of (ii) holds for every valid configuration and address mode
    (`tx_data_length ≥ 8`, address prefix of at most one byte) -/
theorem prefix_fits (s : State) (hv : s.cfg.valid = true) : s.txPrefixLen + 2 ≤ s.cfg.txDl := by
  have h1 : s.txPrefixLen ≤ 1 := by
    unfold txPrefixLen Half.txPrefix
    cases s.addr.tx.mode <;> simp
  have h2 : 8 ≤ s.cfg.txDl := by
    simp only [Cfg.valid, validTxDl, Bool.and_eq_true, Bool.or_eq_true, decide_eq_true_eq] at hv
    omega
  omega

/-- (iii) Wait frames: an accepted Wait increments the counter, which never exceeds `wftmax`
    (`TxWf`), and a ContinueToSend resets it — so at most `wftmax` Waits in a row are honoured,
    each extending the wait by at most `rx_flowcontrol_timeout`. -/
theorem wait_frames_bounded (s : State) (fc : FcFrame) (hw : TxWf s)
    (hs : s.txState = .waitFc ∨ s.txState = .transmitCf) (h1 : fc.status = 1)
    (ht : s.timerFc.timedOut s.now = false) (hc : s.wftCnt < s.cfg.wftmax) :
    (s.handleFc fc).wftCnt = s.wftCnt + 1 ∧ (s.handleFc fc).wftCnt ≤ (s.handleFc fc).cfg.wftmax :=
  ⟨by rw [handleFc_wait_ok s fc hs h1 ht hc], (TxWf_handleFc s fc hw).2.2.2.2.2⟩

theorem cts_resets_wait_count (s : State) (fc : FcFrame) (h : ctsHonoured s fc = true) :
    (s.handleFc fc).wftCnt = 0 := by
  rw [handleFc_cts s fc h]

example : TxWf ex0 := by simp [TxWf, ex0, State.init]
example : TxWf ex3 :=
  txWf_processTx _ (txWf_processTx _ (txWf_processTx ex0 (by simp [TxWf, ex0, State.init])))
example : ex3.txState = .waitFc ∧ ex3.timerFc = { start := some 1000000, timeout := 1000000000 } := by decide
example : exLate.timerFc.start = some 0 ∧ exLate.now - 0 > exLate.cfg.tFc := by decide
example : ex2.timerStmin = { start := some 1000000, timeout := 0 } ∧ ex2.cfg.valid = true ∧ ex2.exc = none := by
  decide

end Isotp.C04

#print axioms Isotp.C04.cf_only_after_cts
#print axioms Isotp.C04.no_cf_before_cts
#print axioms Isotp.C04.no_cf_without_fc
#print axioms Isotp.C04.no_cf_on_wait_or_overflow
#print axioms Isotp.C04.no_cf_after_deadline
#print axioms Isotp.C04.no_cf_outside_transmission
#print axioms Isotp.C04.cts_in_standby_ignored
#print axioms Isotp.C04.waitFc_quiet
#print axioms Isotp.C04.block_bound_step
#print axioms Isotp.C04.block_bound_run
#print axioms Isotp.C04.coupled_init
#print axioms Isotp.C04.coupled_processRx
#print axioms Isotp.C04.coupled_advance
#print axioms Isotp.C04.coupled_send
#print axioms Isotp.C04.coupled_checkTimeoutsRx
#print axioms Isotp.C04.coupled_reset
#print axioms Isotp.C04.monRun_append
#print axioms Isotp.C04.stopSending_log
#print axioms Isotp.C04.block_bound_strict_step
#print axioms Isotp.C04.block_bound_strict_step_rx
#print axioms Isotp.C04.strict_coupled_init
#print axioms Isotp.C04.block_bound_strict_run
#print axioms Isotp.C04.block_bound_strict_corollary
#print axioms Isotp.C04.blockInv_established
#print axioms Isotp.C04.blockInv_transmitCf
#print axioms Isotp.C04.block_end_waits
#print axioms Isotp.C04.block_end_starts_timer
#print axioms Isotp.C04.midblock_cts
#print axioms Isotp.C04.blockInv_not_preserved_midblock
#print axioms Isotp.C04.midblock_overrun_one_then_wait
#print axioms Isotp.C04.abort_overflow
#print axioms Isotp.C04.wait_unsupported
#print axioms Isotp.C04.abort_wait_max
#print axioms Isotp.C04.wait_accepted
#print axioms Isotp.C04.abort_fc_timeout
#print axioms Isotp.C04.after_end_idle
#print axioms Isotp.C04.next_message
#print axioms Isotp.C04.txWf_init
#print axioms Isotp.C04.txWf_processTx
#print axioms Isotp.C04.txWf_processRx
#print axioms Isotp.C04.txWf_send
#print axioms Isotp.C04.txWf_stopSending
#print axioms Isotp.C04.txWf_reset
#print axioms Isotp.C04.txWf_checkTimeoutsRx
#print axioms Isotp.C04.txWf_advance
#print axioms Isotp.C04.txWf_process
#print axioms Isotp.C04.no_wedged_state
#print axioms Isotp.C04.waitFc_deadline
#print axioms Isotp.C04.transmitCf_deadline
#print axioms Isotp.C04.transmitCf_deadline_any_cfg
#print axioms Isotp.C04.prefix_fits
#print axioms Isotp.C04.wait_frames_bounded
#print axioms Isotp.C04.cts_resets_wait_count
