import Isotp.Proofs.LockstepRx
/-
  C01, liveness half, part 4: the lockstep invariant of the canonical cooperative schedule and the abstract machine
  it simulates.

  Round := A.process(); deliver A→B; B.process(); deliver B→A; tick dt     (`canonRound` on `Net`, `Pair.round`).

  * `Abs` / `absStep`: the abstract state of a transfer at the beginning of a round and its evolution
    (`I` request queued, `W k` sender waits for the Flow Control that sits in its inbox, `k` frames delivered,
    `T k j` sender in TRANSMIT_CF with `j` frames of the block out, `D` done); `absRun` is one transmit pass in
    TRANSMIT_CF (one frame when STmin > 0, the rest of the block when STmin = 0).
  * `runA_abs`, `absRun_shape`: the sender's transmit loop (`runA`, LockstepTx) follows `absRun`; the frames it
    emits are "plain" for the receiver except the last one (end of message / end of block), thanks to
    `SyncT` / `SyncW` (sender and receiver count blocks in step).
  * `Scenario`: the hypotheses; `Lock a q`: the concrete two-layer network `q` is in abstract state `a`.
  * `round_sim` / `round_sim'`: one concrete round is one abstract step; no error event, `complete(True)` when the
    step ends in `D`. `rounds_sim`: iterated.
  * `roundsNeeded`, `absIter_done`, `absIter_not_done`: the abstract machine reaches `D` after exactly
    `roundsNeeded` rounds. `progressMeasure`, `round_progress`: the measure decreases in every round.
  * `net0`, `startNet`, `pair0`, `startNet_eq`, `lock0`: the network after `A.send(p)` satisfies `Lock .I`.
-/
namespace Isotp.Lockstep
open Isotp Isotp.State Isotp.Spec Isotp.Proofs

/-! ## number of frames -/

/-- number of frames of the reference segmentation -/
def nFrames (tc : TxCfg) (p : Bytes) : Nat := (segment tc p).length

theorem lt_nFrames_iff (tc : TxCfg) (hv : ValidTx tc) (p : Bytes) (h : NeedsFF tc p.length) (k : Nat) (hk : 1 ≤ k) :
    k < nFrames tc p ↔ carried tc p.length k < p.length := by
  have h1 := segment_getElem? tc hv p h k
  have hk0 : ¬ k = 0 := by omega
  simp only [hk0, false_or] at h1
  unfold nFrames
  constructor
  · intro hlt
    by_cases hc : carried tc p.length k < p.length
    · exact hc
    · rw [if_neg hc] at h1
      have := List.getElem?_eq_none_iff.mp h1
      omega
  · intro hc
    rw [if_pos hc] at h1
    exact (List.getElem?_eq_some_iff.mp h1).1

theorem two_le_nFrames (tc : TxCfg) (hv : ValidTx tc) (p : Bytes) (h : NeedsFF tc p.length) : 2 ≤ nFrames tc p :=
  (lt_nFrames_iff tc hv p h 1 (Nat.le_refl 1)).mpr (carried_one_lt tc p.length hv h)

/-- frame `k` is the last one iff everything is carried after it -/
theorem last_iff (tc : TxCfg) (hv : ValidTx tc) (p : Bytes) (h : NeedsFF tc p.length) (k : Nat) (hk : 1 ≤ k)
    (hc : carried tc p.length k < p.length) :
    carried tc p.length (k + 1) = p.length ↔ k + 1 = nFrames tc p := by
  have h1 := (lt_nFrames_iff tc hv p h k hk).mpr hc
  have h2 := lt_nFrames_iff tc hv p h (k + 1) (by omega)
  have h3 := carried_le tc p.length (k + 1)
  constructor
  · intro he
    have : ¬ k + 1 < nFrames tc p := fun hlt => by have := h2.mp hlt; omega
    omega
  · intro he
    have : ¬ carried tc p.length (k + 1) < p.length := fun hlt => by have := h2.mpr hlt; omega
    omega

/-! ## the abstract machine -/

inductive Abs where
  | I                 -- the request is queued, nothing sent yet
  | W (k : Nat)       -- `k` frames delivered; the sender waits for the Flow Control that is in its inbox
  | T (k j : Nat)     -- `k` frames delivered; the sender is in TRANSMIT_CF, `j` frames of the block sent
  | D                 -- payload delivered, both sides idle
  deriving DecidableEq, Repr

/-- One transmit pass in TRANSMIT_CF with the separation time elapsed, `k` frames out, `j` of the current block
    (`z`: STmin = 0, the pass goes on until the block or the message is complete; `bs`: block size, `n`: number of
    frames). Result: abstract state after the pass and number of frames emitted. First argument: fuel. -/
def absRun (z : Bool) (bs n : Nat) : Nat → Nat → Nat → Abs × Nat
  | 0, k, j => (.T k j, 0)
  | f + 1, k, j =>
    if k + 1 = n then (.D, 1)
    else if bs ≠ 0 ∧ j + 1 ≥ bs then (.W (k + 1), 1)
    else if z then ((absRun z bs n f (k + 1) (j + 1)).1, (absRun z bs n f (k + 1) (j + 1)).2 + 1)
    else (.T (k + 1) (j + 1), 1)

/-- one round of the canonical schedule, abstractly -/
def absStep (z : Bool) (bs n : Nat) : Abs → Abs
  | .I => if n ≤ 1 then .D else .W 1
  | .W k => if z then (absRun z bs n n k 0).1 else .T k 0
  | .T k j => (absRun z bs n n k j).1
  | .D => .D

/-- the progress measure: 2 · (frames not yet delivered) + (1 if a Flow Control is pending) -/
def Abs.measure (n : Nat) : Abs → Nat
  | .I => 2 * n
  | .W k => 2 * (n - k) + 1
  | .T k _ => 2 * (n - k)
  | .D => 0


/-! ## the sender's transmit loop follows the abstract run -/

section runA
variable (ca : Cfg) (aa : Addr) (id : Nat) (p : Bytes) (bs eff : Nat)

/-- what is known about the sender parameters right after a pass that ended in abstract state `a` -/
def APost : Abs → AP → Prop
  | .I, _ => False
  | .W k, x => 1 ≤ k ∧ x.txState = .waitFc ∧ x.timerFc = some x.now ∧
      x.active = some (reqAt ca id p (carried (TxCfg.of ca aa) p.length k)) ∧
      carried (TxCfg.of ca aa) p.length k < p.length ∧ x.txSeq = k % 16 ∧ x.txQueue = [] ∧ x.lastFc = none
  | .T k j, x => TCond ca aa id p bs x k ∧ x.txBlockCnt = j ∧ x.timerStmin = { start := some x.now, timeout := eff }
  | .D, x => x.txState = .idle ∧ x.txQueue = [] ∧ x.lastFc = none ∧ x.timerFc = none ∧ x.active = none

theorem timedOut_started (t e : Nat) : ({ start := some t, timeout := e } : Timer).timedOut t = decide (e = 0) := by
  cases e <;> simp [Timer.timedOut]

/-- frames `k, k+1, …, k+c-1` of the sender -/
def framesA (k c : Nat) : List CanMsg := (List.range c).map (fun t => wireA ca aa p (k + t))

theorem framesA_succ (k c : Nat) : framesA ca aa p k (c + 1) = wireA ca aa p k :: framesA ca aa p (k + 1) c := by
  unfold framesA
  rw [List.range_succ_eq_map, List.map_cons, List.map_map]
  congr 1
  apply List.map_congr_left
  intro t _
  simp only [Function.comp]
  congr 1
  omega

theorem runA_abs (hva : ca.valid = true) (hff : NeedsFF (TxCfg.of ca aa) p.length) (z : Bool)
    (hz : z = decide (eff = 0)) : ∀ (f g : Nat) (x : AP) (k : Nat),
    TCond ca aa id p bs x k → x.timerStmin.timeout = eff → x.timerStmin.timedOut x.now = true →
    p.length - carried (TxCfg.of ca aa) p.length k < f → nFrames (TxCfg.of ca aa) p - k ≤ g →
    APost ca aa id p bs eff (absRun z bs (nFrames (TxCfg.of ca aa) p) g k x.txBlockCnt).1 (runA ca aa id p bs f x k).1 ∧
    (runA ca aa id p bs f x k).2.1 = (absRun z bs (nFrames (TxCfg.of ca aa) p) g k x.txBlockCnt).2 ∧
    (runA ca aa id p bs f x k).1.now = x.now ∧ (runA ca aa id p bs f x k).1.inbox = x.inbox ∧
    txsOf (runA ca aa id p bs f x k).1.log =
      txsOf x.log ++ framesA ca aa p k (absRun z bs (nFrames (TxCfg.of ca aa) p) g k x.txBlockCnt).2 ∧
    (NoErr x.log → NoErr (runA ca aa id p bs f x k).1.log) ∧
    ((absRun z bs (nFrames (TxCfg.of ca aa) p) g k x.txBlockCnt).1 = .D →
      Ev.done id true ∈ (runA ca aa id p bs f x k).1.log) := by
  have hvt := valid_of ca aa hva
  intro f
  induction f with
  | zero => intro g x k _ _ _ h; omega
  | succ f ih =>
    intro g x k hc hto0 hto hf hg
    have hkn := (lt_nFrames_iff _ hvt p hff k hc.k1).mpr hc.more
    obtain ⟨g, rfl⟩ : ∃ g', g = g' + 1 := ⟨g - 1, by omega⟩
    have hlast := last_iff _ hvt p hff k hc.k1 hc.more
    have hstep := carried_step (TxCfg.of ca aa) p.length k hc.k1 hc.more
    have hroom := cfRoom_pos _ hvt
    have hle := carried_le (TxCfg.of ca aa) p.length (k + 1)
    unfold runA absRun
    simp only [hto, if_true]
    by_cases h1 : carried (TxCfg.of ca aa) p.length (k + 1) = p.length
    · have h1' := hlast.mp h1
      rw [if_pos h1, if_pos h1']
      refine ⟨⟨rfl, hc.txq, hc.lf, rfl, rfl⟩, rfl, rfl, rfl, ?_, ?_, ?_⟩
      · simp [apD, framesA]
      · intro hne
        exact NoErr_cons (NoErr_cons hne (by intro t e h; cases h)) (by intro t e h; cases h)
      · intro _; simp [apD]
    · have h1' : ¬ k + 1 = nFrames (TxCfg.of ca aa) p := fun h => h1 (hlast.mpr h)
      rw [if_neg h1, if_neg h1']
      by_cases h2 : bs ≠ 0 ∧ x.txBlockCnt + 1 ≥ bs
      · rw [if_pos h2, if_pos h2]
        refine ⟨⟨by omega, rfl, rfl, rfl, by omega, rfl, hc.txq, hc.lf⟩, rfl, rfl, rfl, ?_, ?_, ?_⟩
        · simp [apW, framesA]
        · intro hne
          exact NoErr_cons hne (by intro t e h; cases h)
        · intro h; cases h
      · rw [if_neg h2, if_neg h2]
        have hc' : TCond ca aa id p bs (apT ca aa id p x k) (k + 1) :=
          ⟨by omega, hc.st, hc.lf, hc.tf, rfl, by omega, rfl, hc.rbs, hc.txq⟩
        have hto' : (apT ca aa id p x k).timerStmin.timedOut (apT ca aa id p x k).now = decide (eff = 0) := by
          show ({ start := some x.now, timeout := x.timerStmin.timeout } : Timer).timedOut x.now = _
          rw [hto0]; exact timedOut_started _ _
        cases z with
        | true =>
          have he0 : eff = 0 := by simpa using hz.symm
          simp only [if_true]
          obtain ⟨i1, i2, i3, i4, i5, i6, i7⟩ := ih g (apT ca aa id p x k) (k + 1) hc' hto0
            (by rw [hto']; simp [he0]) (by omega) (by omega)
          refine ⟨i1, by rw [i2]; rfl, i3, i4, ?_, ?_, i7⟩
          · rw [i5, framesA_succ]; simp [apT]
          · intro hne
            exact i6 (NoErr_cons hne (by intro t e h; cases h))
        | false =>
          have he0 : ¬ eff = 0 := by simpa using hz.symm
          simp only [Bool.false_eq_true, if_false]
          obtain ⟨f', rfl⟩ : ∃ f', f = f' + 1 := ⟨f - 1, by omega⟩
          have hnt : (apT ca aa id p x k).timerStmin.timedOut (apT ca aa id p x k).now = false := by
            rw [hto']; simp [he0]
          have hr : runA ca aa id p bs (f' + 1) (apT ca aa id p x k) (k + 1) = (apT ca aa id p x k, 0, false) := by
            unfold runA
            simp only [hnt, Bool.false_eq_true, if_false]
          rw [hr]
          refine ⟨⟨hc', rfl, ?_⟩, rfl, rfl, rfl, ?_, ?_, ?_⟩
          · show ({ start := some x.now, timeout := x.timerStmin.timeout } : Timer) = _
            rw [hto0]; rfl
          · simp [apT, framesA]
          · intro hne
            exact NoErr_cons hne (by intro t e h; cases h)
          · intro h; cases h

end runA


/-! ## sender and receiver count blocks in step -/

/-- sender in TRANSMIT_CF with `k` frames out, `j` of them in the current block: the receiver has counted
    `k - 1` Consecutive Frames, `j` more than a multiple of the block size -/
def SyncT (bs k j : Nat) : Prop := bs ≠ 0 → j < bs ∧ ∃ q, k = q * bs + (j + 1)

/-- sender waiting for a Flow Control with `k` frames out: the receiver has counted a multiple of the block size -/
def SyncW (bs k : Nat) : Prop := bs ≠ 0 → ∃ q, k = q * bs + 1

theorem SyncW.toT {bs k : Nat} (h : SyncW bs k) : SyncT bs k 0 :=
  fun hb => ⟨by omega, h hb⟩

theorem SyncT.next {bs k j : Nat} (h : SyncT bs k j) (hn : ¬ (bs ≠ 0 ∧ j + 1 ≥ bs)) : SyncT bs (k + 1) (j + 1) := by
  intro hb
  obtain ⟨h1, q, hq⟩ := h hb
  exact ⟨by omega, q, by omega⟩

theorem SyncT.plain {bs k j : Nat} (h : SyncT bs k j) (hn : ¬ (bs ≠ 0 ∧ j + 1 ≥ bs)) :
    ¬ (0 < bs ∧ k % bs = 0) := by
  intro ⟨hb, hm⟩
  obtain ⟨h1, q, hq⟩ := h (by omega)
  have : j + 1 < bs := by omega
  rw [hq, Nat.mul_add_mod_of_lt this] at hm
  omega

theorem SyncT.boundary {bs k j : Nat} (h : SyncT bs k j) (hn : bs ≠ 0 ∧ j + 1 ≥ bs) :
    (0 < bs ∧ k % bs = 0) ∧ SyncW bs (k + 1) := by
  obtain ⟨h1, q, hq⟩ := h hn.1
  have hj : j + 1 = bs := by omega
  have hk : k = (q + 1) * bs := by rw [Nat.add_mul, Nat.one_mul]; omega
  refine ⟨⟨by omega, by rw [hk]; exact Nat.mul_mod_left _ _⟩, fun _ => ⟨q + 1, by omega⟩⟩

/-- shape of an abstract run of `c` frames from frame `k`: the outcome -/
def Shape (bs n k c : Nat) : Abs → Prop
  | .I => False
  | .D => k + c = n
  | .W k' => k' = k + c ∧ k' < n ∧ (0 < bs ∧ (k' - 1) % bs = 0) ∧ SyncW bs k'
  | .T k' j' => k' = k + c ∧ k' < n ∧ ¬ (0 < bs ∧ (k' - 1) % bs = 0) ∧ SyncT bs k' j'

theorem absRun_shape (z : Bool) (bs n : Nat) : ∀ (g k j : Nat), 1 ≤ k → k < n → n - k ≤ g → SyncT bs k j →
    1 ≤ (absRun z bs n g k j).2 ∧
    (∀ t, t + 1 < (absRun z bs n g k j).2 → k + t + 1 < n ∧ ¬ (0 < bs ∧ (k + t) % bs = 0)) ∧
    Shape bs n k (absRun z bs n g k j).2 (absRun z bs n g k j).1 ∧
    (z = false → (absRun z bs n g k j).2 = 1) := by
  intro g
  induction g with
  | zero => intro k j _ h1 h2 _; omega
  | succ g ih =>
    intro k j hk hkn hg hs
    unfold absRun
    by_cases h1 : k + 1 = n
    · rw [if_pos h1]
      exact ⟨Nat.le_refl _, fun t ht => by omega, h1, fun _ => rfl⟩
    · rw [if_neg h1]
      by_cases h2 : bs ≠ 0 ∧ j + 1 ≥ bs
      · rw [if_pos h2]
        obtain ⟨hb, hw⟩ := hs.boundary h2
        exact ⟨Nat.le_refl _, fun t ht => by omega, ⟨rfl, by omega, by simpa using hb, hw⟩, fun _ => rfl⟩
      · rw [if_neg h2]
        have hpl := hs.plain h2
        cases z with
        | true =>
          simp only [if_true]
          obtain ⟨i1, i2, i3, _⟩ := ih (k + 1) (j + 1) (by omega) (by omega) (by omega) (hs.next h2)
          refine ⟨by omega, ?_, ?_, fun h => by cases h⟩
          · intro t ht
            cases t with
            | zero => exact ⟨by omega, by simpa using hpl⟩
            | succ t =>
              have := i2 t (by omega)
              have e : k + (t + 1) = k + 1 + t := by omega
              rw [e]; exact this
          · generalize absRun true bs n g (k + 1) (j + 1) = r at *
            obtain ⟨a, c⟩ := r
            cases a with
            | I => exact i3
            | D => simp only [Shape] at i3 ⊢; omega
            | W k' => simp only [Shape] at i3 ⊢; exact ⟨by omega, i3.2⟩
            | T k' j' => simp only [Shape] at i3 ⊢; exact ⟨by omega, i3.2⟩
        | false =>
          simp only [Bool.false_eq_true, if_false]
          exact ⟨Nat.le_refl _, fun t ht => by omega, ⟨rfl, by omega, by simpa using hpl, hs.next h2⟩, fun _ => trivial⟩


/-! ## the canonical round -/

/-- `process(do_rx = True, do_tx = True)` as an operation for `Net.onLayer` -/
def procOp (s : State) : State × (Stats × Bool) := s.process true true

/-- One round of the canonical cooperative schedule on the network of the driver (layers 0 = A, 1 = B):
    A.process(); everything A emitted reaches B; B.process(); everything B emitted reaches A; the clock advances
    by `dt`. Returns the network and the events of A and of B (oldest first). -/
def canonRound (d : Net) (dt : Nat) : Option (Net × List Ev × List Ev) :=
  match d.onLayer 0 procOp with
  | none => none
  | some (d1, _, evA, _) =>
    match d1.deliver 0 [1] (d1.outbox[0]?.getD []).length with
    | none => none
    | some (d2, _) =>
      match d2.onLayer 1 procOp with
      | none => none
      | some (d3, _, evB, _) =>
        match d3.deliver 1 [0] (d3.outbox[1]?.getD []).length with
        | none => none
        | some (d4, _) => some (d4.tick dt, evA, evB)

/-- `n` rounds; the events of all rounds, concatenated -/
def canonRounds (dt : Nat) : Nat → Net → Option (Net × List Ev × List Ev)
  | 0, d => some (d, [], [])
  | n + 1, d =>
    match canonRound d dt with
    | none => none
    | some (d1, evA, evB) =>
      match canonRounds dt n d1 with
      | none => none
      | some (d2, evA', evB') => some (d2, evA ++ evA', evB ++ evB')

/-- the same round on the two-layer record -/
def Pair.round (q : Pair) (dt : Nat) : Pair × List Ev × List Ev :=
  let sa := ((enter q.now q.a).process true true).1
  let q1 : Pair := { q with a := leave sa, ab := q.ab ++ txsOf sa.log, now := sa.now, ea := q.ea + (txsOf sa.log).length }
  let q2 : Pair := { q1 with b := pushAll q1.b q1.ab, ab := [] }
  let sb := ((enter q2.now q2.b).process true true).1
  let q3 : Pair := { q2 with b := leave sb, ba := q2.ba ++ txsOf sb.log, now := sb.now, eb := q2.eb + (txsOf sb.log).length }
  let q4 : Pair := { q3 with a := pushAll q3.a q3.ba, ba := [] }
  ({ q4 with now := q4.now + dt }, sa.log.reverse, sb.log.reverse)

theorem canonRound_toNet (q : Pair) (dt : Nat) :
    canonRound q.toNet dt = some ((q.round dt).1.toNet, (q.round dt).2.1, (q.round dt).2.2) := by
  unfold canonRound
  rw [onLayer0]
  simp only []
  rw [deliver01]
  simp only []
  rw [onLayer1]
  simp only []
  rw [deliver10]
  simp only []
  rw [tick_eq]
  rfl

def Pair.rounds (dt : Nat) : Nat → Pair → Pair × List Ev × List Ev
  | 0, q => (q, [], [])
  | n + 1, q =>
    ((Pair.rounds dt n (q.round dt).1).1, (q.round dt).2.1 ++ (Pair.rounds dt n (q.round dt).1).2.1,
      (q.round dt).2.2 ++ (Pair.rounds dt n (q.round dt).1).2.2)

theorem canonRounds_toNet (dt : Nat) : ∀ (n : Nat) (q : Pair),
    canonRounds dt n q.toNet = some ((Pair.rounds dt n q).1.toNet, (Pair.rounds dt n q).2.1, (Pair.rounds dt n q).2.2) := by
  intro n
  induction n with
  | zero => intro q; rfl
  | succ n ih =>
    intro q
    unfold canonRounds
    rw [canonRound_toNet]
    simp only []
    rw [ih]
    rfl


/-! ## one round on sender / receiver parameters -/

section sim
variable (ca cb : Cfg) (aa ab : Addr) (id : Nat) (p : Bytes) (dt : Nat)

def toInbox (ms : List CanMsg) : List (Nat × CanMsg) := ms.map (fun m => (0, m))

/-- a round computed from the two passes -/
theorem round_eq (q : Pair) (x x' : AP) (y y' : BP) (hqa : q.a = mkA ca aa x) (hqb : q.b = mkB cb ab y)
    (hab : q.ab = []) (hba : q.ba = [])
    (hA : ((mkA ca aa { x with now := q.now, log := [] }).process true true).1 = mkA ca aa x')
    (hnA : x'.now = q.now)
    (hB : ((mkB cb ab { y with now := q.now, log := [], inbox := y.inbox ++ toInbox (txsOf x'.log) }).process true true).1
      = mkB cb ab y')
    (hnB : y'.now = q.now) :
    (q.round dt).1 =
      { a := mkA ca aa { x' with log := [], inbox := x'.inbox ++ toInbox (txsOf y'.log) },
        b := mkB cb ab { y' with log := [] }, ab := [], ba := [], now := q.now + dt,
        ea := q.ea + (txsOf x'.log).length, eb := q.eb + (txsOf y'.log).length } ∧
    (q.round dt).2.1 = x'.log.reverse ∧ (q.round dt).2.2 = y'.log.reverse := by
  have hA' : ((enter q.now q.a).process true true).1 = mkA ca aa x' := by rw [hqa, enter_mkA]; exact hA
  have hnow1 : (mkA ca aa x').now = q.now := hnA
  have hB' : ((enter q.now (pushAll q.b (txsOf (mkA ca aa x').log))).process true true).1 = mkB cb ab y' := by
    rw [hqb, pushAll_mkB, enter_mkB]; exact hB
  have hnow2 : (mkB cb ab y').now = q.now := hnB
  unfold Pair.round
  simp only [hA', hab, hba, hnow1, List.nil_append, hB', hnow2]
  exact ⟨rfl, rfl, rfl⟩


/-! ## the setting -/

/-- separation time the sender puts in force when it gets B's ContinueToSend (`override_receiver_stmin` wins) -/
def effOf (ca cb : Cfg) : Nat := Fc.sepOf ca ⟨0, cb.blocksize, cb.stmin⟩

/-- the longest time the receiver waits for a Consecutive Frame on this schedule: one tick when the sender answers
    a Flow Control in the same pass (separation time 0), two ticks otherwise (the sender's STmin timer is started
    when the Flow Control is handled, so the next Consecutive Frame leaves one round later) -/
def gapOf (ca cb : Cfg) (dt : Nat) : Nat := if effOf ca cb = 0 then dt else 2 * dt

theorem gapOf_ge (ca cb : Cfg) (dt : Nat) : dt ≤ gapOf ca cb dt := by unfold gapOf; split <;> omega

/-- The hypotheses of the liveness theorems: valid configurations, B not in listen mode, well-formed mirrored
    addresses, a valid STmin byte, a payload B can take, and the timing of the schedule: the tick `dt` is longer
    than the separation time A has to respect, not longer than A's N_Bs timeout, and the gap B sees between a Flow
    Control and the next Consecutive Frame (`gapOf`: one tick, or two when STmin > 0) is within B's N_Cr timeout. -/
structure Scenario : Prop where
  va      : ca.valid = true
  vb      : cb.valid = true
  listenB : cb.listen = false
  wfA     : aa.tx.txWf = true
  wfB     : ab.tx.txWf = true
  mirAB   : ab.rx = Spec.mirror aa.tx
  mirBA   : aa.rx = Spec.mirror ab.tx
  stmin   : validStmin cb.stmin = true
  h32     : p.length < 4294967296
  hmax    : p.length ≤ cb.maxFrameSize
  sep     : effOf ca cb < dt
  tFc     : dt ≤ ca.tFc
  tCf     : gapOf ca cb dt ≤ cb.tCf

theorem valid_bounds (c : Cfg) (h : c.valid = true) : c.stmin ≤ 255 ∧ c.blocksize ≤ 255 := by
  simp only [Cfg.valid, Bool.and_eq_true, decide_eq_true_eq] at h
  exact ⟨h.1.1.1.1.2, h.1.1.1.2⟩

/-- what the sender needs to know about the Flow Control frame `fcm` of the receiver -/
structure FcFacts (fcm : CanMsg) : Prop where
  made : makeFlowControl cb ab 0 = some fcm
  me  : aa.rx.isForMe fcm = true
  dec : ∃ cdl rdl, decode fcm.data aa.rx.rxPrefixSize = some ⟨.fc 0 cb.blocksize cb.stmin, cdl, rdl⟩

theorem fc_facts (hS : Scenario ca cb aa ab p dt) : ∃ fcm, FcFacts cb aa ab fcm := by
  obtain ⟨dlc, h⟩ := Rx.makeFlowControl_eq cb ab 0 hS.vb
  obtain ⟨hst, hbs⟩ := valid_bounds cb hS.vb
  refine ⟨_, h, ?_, ?_⟩
  · rw [hS.mirBA]
    refine C09.mirror_accepts ab.tx .physical _
      (fcData 0 cb.blocksize cb.stmin ++ List.replicate
        (padTarget (TxCfg.of cb ab) (ab.tx.txPrefix ++ fcData 0 cb.blocksize cb.stmin).length -
          (ab.tx.txPrefix ++ fcData 0 cb.blocksize cb.stmin).length) (Spec.padByte (TxCfg.of cb ab))) hS.wfB rfl rfl ?_
    show padFrame _ _ = _
    rw [Seg.padFrame_eq, List.append_assoc]
  · have hpre : aa.rx.rxPrefixSize = ab.tx.txPrefix.length := by rw [hS.mirBA, Compose.mirror_rxPrefixSize]
    have hv : validStmin (cb.stmin % 256) = true := by rw [Nat.mod_eq_of_lt (by omega)]; exact hS.stmin
    have hd := Rx.decode_fc ab.tx.txPrefix (List.replicate
      (padTarget (TxCfg.of cb ab) (ab.tx.txPrefix ++ fcData 0 cb.blocksize cb.stmin).length -
        (ab.tx.txPrefix ++ fcData 0 cb.blocksize cb.stmin).length) (Spec.padByte (TxCfg.of cb ab)))
      0 cb.blocksize cb.stmin (by omega) hv
    rw [Nat.mod_eq_of_lt (by omega : cb.blocksize < 256), Nat.mod_eq_of_lt (by omega : cb.stmin < 256)] at hd
    rw [hpre]
    exact ⟨_, _, hd⟩


/-! ## the lockstep invariant -/

/-- the sender at the beginning of a round (`now`: the clock of the network) -/
def LockA (fcm : CanMsg) (now : Nat) : Abs → AP → Prop
  | .I, x => x.txState = .idle ∧ x.txQueue = [reqFor ca id p] ∧ x.lastFc = none ∧ x.timerFc = none ∧ x.inbox = []
  | .W k, x => 1 ≤ k ∧ x.txState = .waitFc ∧ (∃ tF, x.timerFc = some tF ∧ now ≤ tF + dt) ∧
      x.active = some (reqAt ca id p (carried (TxCfg.of ca aa) p.length k)) ∧
      carried (TxCfg.of ca aa) p.length k < p.length ∧ x.txSeq = k % 16 ∧ x.txQueue = [] ∧
      x.inbox = [(0, fcm)] ∧ SyncW cb.blocksize k
  | .T k j, x => TCond ca aa id p cb.blocksize x k ∧ x.txBlockCnt = j ∧
      (∃ tS, x.timerStmin = { start := some tS, timeout := effOf ca cb } ∧ tS + effOf ca cb < now) ∧
      x.inbox = [] ∧ SyncT cb.blocksize k j
  | .D, x => x.txState = .idle ∧ x.txQueue = [] ∧ x.lastFc = none ∧ x.timerFc = none ∧ x.active = none ∧ x.inbox = []

/-- the receiver at the beginning of a round -/
def LockB (now : Nat) : Abs → BP → Prop
  | .I, y => y.rxState = .idle ∧ y.rxQueue = [] ∧ y.timerCf = none ∧ y.pendingFc = false ∧ y.inbox = []
  | .W k, y => ∃ t, SessAt ca aa p y (k - 1) t ∧ now ≤ t + dt ∧ y.inbox = []
  | .T k _, y => ∃ t, SessAt ca aa p y (k - 1) t ∧ now ≤ t + gapOf ca cb dt ∧ y.inbox = []
  | .D, y => DoneB p y ∧ y.inbox = []

/-- the network `q` is in abstract state `a`: both links empty, sender and receiver as `LockA` / `LockB` say -/
def Lock (fcm : CanMsg) (a : Abs) (q : Pair) : Prop :=
  ∃ x y, q.a = mkA ca aa x ∧ q.b = mkB cb ab y ∧ q.ab = [] ∧ q.ba = [] ∧
    LockA ca cb aa id p dt fcm q.now a x ∧ LockB ca cb aa p dt q.now a y

theorem SessAt.relog {y : BP} {i t : Nat} (h : SessAt ca aa p y i t) (l : List Ev) :
    SessAt ca aa p { y with log := l } i t :=
  ⟨h.sess.congr ca aa p rfl rfl rfl rfl rfl rfl, h.pend, h.queue, h.timer⟩

theorem toInbox_framesA (k c : Nat) : toInbox (framesA ca aa p k c) = cfMsgs ca aa p k c :=
  cfMsgs_map ca aa p k c _ rfl

theorem finA_fields (r : AP × Nat × Bool) :
    (finA r).now = r.1.now ∧ (finA r).txState = r.1.txState ∧ (finA r).txQueue = r.1.txQueue ∧
    (finA r).active = r.1.active ∧ (finA r).txSeq = r.1.txSeq ∧ (finA r).txBlockCnt = r.1.txBlockCnt ∧
    (finA r).remoteBs = r.1.remoteBs ∧ (finA r).timerFc = r.1.timerFc ∧ (finA r).timerStmin = r.1.timerStmin ∧
    (finA r).lastFc = r.1.lastFc ∧ (finA r).inbox = r.1.inbox ∧ txsOf (finA r).log = txsOf r.1.log ∧
    (NoErr r.1.log → NoErr (finA r).log) ∧ (∀ e, e ∈ r.1.log → e ∈ (finA r).log) := by
  unfold finA
  split
  · refine ⟨rfl, rfl, rfl, rfl, rfl, rfl, rfl, rfl, rfl, rfl, rfl, by simp, ?_, ?_⟩
    · intro h; exact NoErr_cons h (by intro t e h; cases h)
    · intro e he; exact List.mem_cons_of_mem _ he
  · exact ⟨rfl, rfl, rfl, rfl, rfl, rfl, rfl, rfl, rfl, rfl, rfl, rfl, id, fun _ h => h⟩


theorem Scenario.rx (hS : Scenario ca cb aa ab p dt) (hff : NeedsFF (TxCfg.of ca aa) p.length) :
    RxSetting ca cb aa ab p := ⟨hS.va, hS.wfA, hS.mirAB, hff, hS.h32, hS.hmax⟩

theorem Scenario.dt_pos (hS : Scenario ca cb aa ab p dt) : 1 ≤ dt := by have := hS.sep; omega
theorem Scenario.tFc0 (hS : Scenario ca cb aa ab p dt) : ca.tFc ≠ 0 := by have := hS.tFc; have := hS.dt_pos; omega
theorem Scenario.tCf0 (hS : Scenario ca cb aa ab p dt) : cb.tCf ≠ 0 := by
  have := hS.tCf; have := hS.dt_pos; have := gapOf_ge ca cb dt; omega

/-- what a round reports, besides the new state -/
def RoundOk (a a' : Abs) (q : Pair) : Prop :=
  NoErr (q.round dt).2.1 ∧ NoErr (q.round dt).2.2 ∧ (a' = .D → a ≠ .D → Ev.done id true ∈ (q.round dt).2.1) ∧
  (q.round dt).1.now = q.now + dt

/-- A round in which the sender's pass is a run of Consecutive Frames from TRANSMIT_CF (entered in this pass or
    before): the frames reach the receiver, which delivers the payload, answers the end of the block with the next
    ContinueToSend, or just goes on. -/
theorem sim_run (hS : Scenario ca cb aa ab p dt) (hff : NeedsFF (TxCfg.of ca aa) p.length) (fcm : CanMsg)
    (hfc : FcFacts cb aa ab fcm) (q : Pair) (x x0 : AP) (y : BP) (k j f tB : Nat)
    (hqa : q.a = mkA ca aa x) (hqb : q.b = mkB cb ab y) (hab : q.ab = []) (hba : q.ba = [])
    (hA : ((mkA ca aa { x with now := q.now, log := [] }).process true true).1 =
      mkA ca aa (finA (runA ca aa id p cb.blocksize f x0 k)))
    (hc : TCond ca aa id p cb.blocksize x0 k) (hj : x0.txBlockCnt = j) (hto0 : x0.timerStmin.timeout = effOf ca cb)
    (hto : x0.timerStmin.timedOut x0.now = true) (hib0 : x0.inbox = []) (hnow0 : x0.now = q.now)
    (hlog0 : txsOf x0.log = []) (hne0 : NoErr x0.log) (hf : p.length - carried (TxCfg.of ca aa) p.length k < f)
    (hsync : SyncT cb.blocksize k j)
    (hyB : SessAt ca aa p y (k - 1) tB) (hyt : q.now ≤ tB + gapOf ca cb dt) (hyib : y.inbox = []) (a : Abs) :
    Lock ca cb aa ab id p dt fcm
      (absRun (decide (effOf ca cb = 0)) cb.blocksize (nFrames (TxCfg.of ca aa) p) (nFrames (TxCfg.of ca aa) p) k j).1
      (q.round dt).1 ∧
    RoundOk id dt a
      (absRun (decide (effOf ca cb = 0)) cb.blocksize (nFrames (TxCfg.of ca aa) p) (nFrames (TxCfg.of ca aa) p) k j).1 q := by
  have hvt := valid_of ca aa hS.va
  have hrs := hS.rx ca cb aa ab p dt hff
  have htCf := hS.tCf
  have hk1 := hc.k1
  have hkn := (lt_nFrames_iff _ hvt p hff k hk1).mpr hc.more
  obtain ⟨r1, r2, r3, r4, r5, r6, r7⟩ := runA_abs ca aa id p cb.blocksize (effOf ca cb) hS.va hff
    (decide (effOf ca cb = 0)) rfl f (nFrames (TxCfg.of ca aa) p) x0 k hc hto0 hto hf (by omega)
  rw [hj] at r1 r2 r5 r7
  obtain ⟨s1, s2, s3, _⟩ := absRun_shape (decide (effOf ca cb = 0)) cb.blocksize (nFrames (TxCfg.of ca aa) p)
    (nFrames (TxCfg.of ca aa) p) k j hk1 hkn (by omega) hsync
  obtain ⟨f1, f2, f3, f4, f5, f6, f7, f8, f9, f10, f11, f12, f13, f14⟩ := finA_fields (runA ca aa id p cb.blocksize f x0 k)
  generalize hr : runA ca aa id p cb.blocksize f x0 k = r at *
  generalize hab' : absRun (decide (effOf ca cb = 0)) cb.blocksize (nFrames (TxCfg.of ca aa) p)
    (nFrames (TxCfg.of ca aa) p) k j = ar at *
  obtain ⟨a', c⟩ := ar
  simp only [] at r1 r2 r5 r7 s1 s2 s3 ⊢
  obtain ⟨c, rfl⟩ : ∃ c', c = c' + 1 := ⟨c - 1, by omega⟩
  obtain ⟨i, rfl⟩ : ∃ i, k = i + 1 := ⟨k - 1, by omega⟩
  simp only [Nat.add_sub_cancel] at hyB
  -- the frames of the run, as the receiver's inbox
  have htx : txsOf (finA r).log = framesA ca aa p (i + 1) (c + 1) := by rw [f12, r5, hlog0]; rfl
  have hnA : (finA r).now = q.now := by rw [f1, r3, hnow0]
  have hplain : PlainRun ca cb aa p i c := by
    intro t ht
    obtain ⟨h1, h2⟩ := s2 t (by omega)
    have e1 : i + t + 2 = i + 1 + t + 1 := by omega
    have e2 : i + t + 1 = i + 1 + t := by omega
    rw [e1, e2]
    exact ⟨(lt_nFrames_iff _ hvt p hff _ (by omega)).mp h1, h2⟩
  have hyin : SessAt ca aa p { y with now := q.now, log := [], inbox := y.inbox ++ toInbox (txsOf (finA r).log) } i tB :=
    ⟨hyB.sess.congr ca aa p rfl rfl rfl rfl rfl rfl, hyB.pend, hyB.queue, hyB.timer⟩
  have hyinb : ({ y with now := q.now, log := [], inbox := y.inbox ++ toInbox (txsOf (finA r).log) } : BP).inbox =
      cfMsgs ca aa p (i + 1) (c + 1) := by
    show y.inbox ++ toInbox (txsOf (finA r).log) = _
    rw [hyib, htx, toInbox_framesA]; rfl
  have hytm : ({ y with now := q.now, log := [], inbox := y.inbox ++ toInbox (txsOf (finA r).log) } : BP).now ≤
      tB + cb.tCf := by show q.now ≤ _; omega
  cases a' with
  | I => exact absurd s3 (by simp [Shape])
  | D =>
    simp only [Shape] at s3
    have hlast : carried (TxCfg.of ca aa) p.length (i + c + 2) = p.length := by
      have hn1 : 1 ≤ i + c + 1 := by omega
      have hlt : carried (TxCfg.of ca aa) p.length (i + c + 1) < p.length :=
        (lt_nFrames_iff _ hvt p hff _ hn1).mp (by omega)
      exact (last_iff _ hvt p hff (i + c + 1) hn1 hlt).mpr (by omega)
    obtain ⟨y', hB, hD, hnB, hib', htxB, hneB⟩ := passB_final ca cb aa ab p hrs hS.tCf0 _ i c tB hyin hytm rfl hyinb hplain hlast
    obtain ⟨e1, e2, e3⟩ := round_eq ca cb aa ab dt q x (finA r) y y' hqa hqb hab hba hA hnA hB hnB
    refine ⟨⟨_, _, by rw [e1], by rw [e1], by rw [e1], by rw [e1], ?_, ?_⟩, ?_, ?_, ?_, ?_⟩
    · rw [e1]
      obtain ⟨d1, d2, d3, d4, d5⟩ := r1
      refine ⟨by rw [← d1]; exact f2, by rw [← d2]; exact f3, by rw [← d3]; exact f10, by rw [← d4]; exact f8,
        by rw [← d5]; exact f4, ?_⟩
      show (finA r).inbox ++ toInbox (txsOf y'.log) = []
      rw [f11, r4, hib0, htxB]; rfl
    · rw [e1]
      exact ⟨⟨hD.st, hD.pend, hD.queue, hD.timer⟩, hib'⟩
    · rw [e2]; exact NoErr_reverse (f13 (r6 hne0))
    · rw [e3]; exact NoErr_reverse hneB
    · intro _ _; rw [e2]; exact List.mem_reverse.mpr (f14 _ (r7 rfl))
    · rw [e1]
  | W k' =>
    simp only [Shape] at s3
    obtain ⟨hk', hk'n, hbnd, hsw⟩ := s3
    have hmore : carried (TxCfg.of ca aa) p.length (i + c + 2) < p.length :=
      (lt_nFrames_iff _ hvt p hff _ (by omega)).mp (by omega)
    have hbnd' : 0 < cb.blocksize ∧ (i + c + 1) % cb.blocksize = 0 := by
      have : k' - 1 = i + c + 1 := by omega
      rw [this] at hbnd; exact hbnd
    obtain ⟨y', hB, hSs, hnB, hib', htxB, hneB⟩ := passB_boundary ca cb aa ab p hrs hS.listenB hS.tCf0 fcm hfc.made _ i c tB
      hyin hytm rfl hyinb hplain hmore hbnd'
    obtain ⟨e1, e2, e3⟩ := round_eq ca cb aa ab dt q x (finA r) y y' hqa hqb hab hba hA hnA hB hnB
    refine ⟨⟨_, _, by rw [e1], by rw [e1], by rw [e1], by rw [e1], ?_, ?_⟩, ?_, ?_, ?_, ?_⟩
    · rw [e1]
      obtain ⟨d1, d2, d3, d4, d5, d6, d7, d8⟩ := r1
      refine ⟨d1, by rw [← d2]; exact f2, ⟨q.now, ?_, Nat.le_refl _⟩, by rw [← d4]; exact f4, d5, by rw [← d6]; exact f5,
        by rw [← d7]; exact f3, ?_, hsw⟩
      · show (finA r).timerFc = _
        rw [f8, d3, r3, hnow0]
      · show (finA r).inbox ++ toInbox (txsOf y'.log) = _
        rw [f11, r4, hib0, htxB]; rfl
    · rw [e1]
      refine ⟨q.now, ?_, Nat.le_refl _, hib'⟩
      have : k' - 1 = i + c + 1 := by omega
      rw [this]
      exact (SessAt.relog ca aa p hSs [])
    · rw [e2]; exact NoErr_reverse (f13 (r6 hne0))
    · rw [e3]; exact NoErr_reverse hneB
    · intro h; cases h
    · rw [e1]
  | T k' j' =>
    simp only [Shape] at s3
    obtain ⟨hk', hk'n, hbnd, hst⟩ := s3
    have hmore : carried (TxCfg.of ca aa) p.length (i + c + 2) < p.length :=
      (lt_nFrames_iff _ hvt p hff _ (by omega)).mp (by omega)
    have hbnd' : ¬ (0 < cb.blocksize ∧ (i + c + 1) % cb.blocksize = 0) := by
      have : k' - 1 = i + c + 1 := by omega
      rw [this] at hbnd; exact hbnd
    obtain ⟨y', hB, hSs, hnB, hib', htxB, hneB⟩ := passB_plain ca cb aa ab p hrs hS.tCf0 _ i c tB
      hyin hytm rfl hyinb hplain hmore hbnd'
    obtain ⟨e1, e2, e3⟩ := round_eq ca cb aa ab dt q x (finA r) y y' hqa hqb hab hba hA hnA hB hnB
    refine ⟨⟨_, _, by rw [e1], by rw [e1], by rw [e1], by rw [e1], ?_, ?_⟩, ?_, ?_, ?_, ?_⟩
    · rw [e1]
      obtain ⟨d1, d2, d3⟩ := r1
      refine ⟨⟨d1.k1, by rw [← d1.st]; exact f2, by rw [← d1.lf]; exact f10, by rw [← d1.tf]; exact f8,
        by rw [← d1.act]; exact f4, d1.more, by rw [← d1.seq]; exact f5, by rw [← d1.rbs]; exact f7,
        by rw [← d1.txq]; exact f3⟩, by rw [← d2]; exact f6, ⟨q.now, ?_, ?_⟩, ?_, hst⟩
      · show (finA r).timerStmin = _
        rw [f9, d3, r3, hnow0]
      · have := hS.sep
        show q.now + effOf ca cb < q.now + dt
        omega
      · show (finA r).inbox ++ toInbox (txsOf y'.log) = _
        rw [f11, r4, hib0, htxB]; rfl
    · rw [e1]
      refine ⟨q.now, ?_, (by show q.now + dt ≤ q.now + gapOf ca cb dt; have := gapOf_ge ca cb dt; omega), hib'⟩
      have : k' - 1 = i + c + 1 := by omega
      rw [this]
      exact (SessAt.relog ca aa p hSs [])
    · rw [e2]; exact NoErr_reverse (f13 (r6 hne0))
    · rw [e3]; exact NoErr_reverse hneB
    · intro h; cases h
    · rw [e1]


theorem timedOut_after (tS e now : Nat) (h : tS + e < now) :
    ({ start := some tS, timeout := e } : Timer).timedOut now = true := by
  simp [Timer.timedOut]; omega

/-- a round that starts with the sender in TRANSMIT_CF -/
theorem sim_T (hS : Scenario ca cb aa ab p dt) (hff : NeedsFF (TxCfg.of ca aa) p.length) (fcm : CanMsg)
    (hfc : FcFacts cb aa ab fcm) (q : Pair) (k j : Nat) (h : Lock ca cb aa ab id p dt fcm (.T k j) q) :
    Lock ca cb aa ab id p dt fcm
      (absRun (decide (effOf ca cb = 0)) cb.blocksize (nFrames (TxCfg.of ca aa) p) (nFrames (TxCfg.of ca aa) p) k j).1
      (q.round dt).1 ∧
    RoundOk id dt (.T k j)
      (absRun (decide (effOf ca cb = 0)) cb.blocksize (nFrames (TxCfg.of ca aa) p) (nFrames (TxCfg.of ca aa) p) k j).1 q := by
  obtain ⟨x, y, hqa, hqb, hab, hba, ⟨hc, hj, ⟨tS, htS, htSn⟩, hib, hsync⟩, ⟨tB, hyB, hyt, hyib⟩⟩ := h
  have hc1 : TCond ca aa id p cb.blocksize { x with now := q.now, log := [] } k :=
    ⟨hc.k1, hc.st, hc.lf, hc.tf, hc.act, hc.more, hc.seq, hc.rbs, hc.txq⟩
  have hA := passA_T ca aa id p cb.blocksize hS.va hS.tFc0 { x with now := q.now, log := [] } k hc1 hib
  have hc0 : TCond ca aa id p cb.blocksize { x with now := q.now, log := [.rxNone q.now] } k :=
    ⟨hc.k1, hc.st, hc.lf, hc.tf, hc.act, hc.more, hc.seq, hc.rbs, hc.txq⟩
  exact sim_run ca cb aa ab id p dt hS hff fcm hfc q x _ y k j _ tB hqa hqb hab hba hA hc0 hj
    (by show x.timerStmin.timeout = _; rw [htS])
    (by show x.timerStmin.timedOut q.now = true; rw [htS]; exact timedOut_after _ _ _ htSn)
    hib rfl (by simp [txsOf_nil]) (NoErr_cons NoErr_nil (by intro t e h; cases h)) (by omega) hsync hyB hyt hyib _

/-- the sender right after it has honoured the ContinueToSend `fcm` at time `now` -/
def apAfterFc (x : AP) (now : Nat) (fcm : CanMsg) (bs eff : Nat) : AP :=
  { x with now := now, inbox := [], log := [.rx now fcm], lastFc := none, txState := .transmitCf,
           timerFc := none, remoteBs := some bs, txBlockCnt := 0,
           timerStmin := { start := some now, timeout := eff } }

/-- a round that starts with the sender waiting for the Flow Control that is in its inbox -/
theorem sim_W (hS : Scenario ca cb aa ab p dt) (hff : NeedsFF (TxCfg.of ca aa) p.length) (fcm : CanMsg)
    (hfc : FcFacts cb aa ab fcm) (q : Pair) (k : Nat) (h : Lock ca cb aa ab id p dt fcm (.W k) q) :
    Lock ca cb aa ab id p dt fcm
      (absStep (decide (effOf ca cb = 0)) cb.blocksize (nFrames (TxCfg.of ca aa) p) (.W k)) (q.round dt).1 ∧
    RoundOk id dt (.W k)
      (absStep (decide (effOf ca cb = 0)) cb.blocksize (nFrames (TxCfg.of ca aa) p) (.W k)) q := by
  obtain ⟨x, y, hqa, hqb, hab, hba, ⟨hk, hst, ⟨tF, htF, htFn⟩, hact, hmore, hseq, hq, hib, hsync⟩,
    ⟨tB, hyB, hyt, hyib⟩⟩ := h
  obtain ⟨cdl, rdl, hdec⟩ := hfc.dec
  have htFc := hS.tFc
  have hA : ((mkA ca aa { x with now := q.now, log := [] }).process true true).1 =
      mkA ca aa (finA (runA ca aa id p cb.blocksize (p.length - carried (TxCfg.of ca aa) p.length k + 1)
        (apAfterFc x q.now fcm cb.blocksize (effOf ca cb)) k)) :=
    passA_W ca aa id p cb.blocksize hS.va hS.tFc0 { x with now := q.now, log := [] } k tF cb.stmin cdl rdl fcm
      hk hst htF (by show q.now ≤ _; omega) hact hmore hseq hq hib hfc.me hdec
  have hc0 : TCond ca aa id p cb.blocksize (apAfterFc x q.now fcm cb.blocksize (effOf ca cb)) k :=
    ⟨hk, rfl, rfl, rfl, hact, hmore, hseq, rfl, hq⟩
  unfold absStep
  by_cases hz : effOf ca cb = 0
  · simp only [hz, decide_true, if_true]
    have := sim_run ca cb aa ab id p dt hS hff fcm hfc q x _ y k 0 _ tB hqa hqb hab hba hA hc0 rfl rfl
      (by show ({ start := some q.now, timeout := effOf ca cb } : Timer).timedOut q.now = true
          rw [timedOut_started]; simp [hz])
      rfl rfl (by simp [apAfterFc, txsOf_nil]) (NoErr_cons NoErr_nil (by intro t e h; cases h)) (by omega)
      hsync.toT hyB (by have := gapOf_ge ca cb dt; omega) hyib (.W k)
    simpa only [hz, decide_true] using this
  · simp only [hz, decide_false, Bool.false_eq_true, if_false]
    -- the separation time has just started: nothing is sent in this round
    have hrun : runA ca aa id p cb.blocksize (p.length - carried (TxCfg.of ca aa) p.length k + 1)
        (apAfterFc x q.now fcm cb.blocksize (effOf ca cb)) k =
        (apAfterFc x q.now fcm cb.blocksize (effOf ca cb), 0, false) := by
      unfold runA
      have : (apAfterFc x q.now fcm cb.blocksize (effOf ca cb)).timerStmin.timedOut
          (apAfterFc x q.now fcm cb.blocksize (effOf ca cb)).now = false := by
        show ({ start := some q.now, timeout := effOf ca cb } : Timer).timedOut q.now = false
        rw [timedOut_started]; simp [hz]
      simp only [this, Bool.false_eq_true, if_false]
    have hA' : ((mkA ca aa { x with now := q.now, log := [] }).process true true).1 =
        mkA ca aa (apAfterFc x q.now fcm cb.blocksize (effOf ca cb)) := by
      rw [hA, hrun]; rfl
    have htCf := hS.tCf
    have hge := gapOf_ge ca cb dt
    have hgap : gapOf ca cb dt = 2 * dt := by simp [gapOf, hz]
    have hB := passB_quiet cb ab
      { y with now := q.now, log := [],
               inbox := y.inbox ++ toInbox (txsOf (apAfterFc x q.now fcm cb.blocksize (effOf ca cb)).log) }
      (by show y.inbox ++ toInbox (txsOf [Ev.rx q.now fcm]) = []; rw [hyib]; rfl)
      (Or.inr ⟨tB, hyB.timer, by show q.now ≤ _; omega, hS.tCf0⟩) hyB.pend
    obtain ⟨e1, e2, e3⟩ := round_eq ca cb aa ab dt q x _ y _ hqa hqb hab hba hA' rfl hB rfl
    have hsep := hS.sep
    refine ⟨⟨_, _, by rw [e1], by rw [e1], by rw [e1], by rw [e1], ?_, ?_⟩, ?_, ?_, ?_, ?_⟩
    · rw [e1]
      exact ⟨⟨hc0.k1, hc0.st, hc0.lf, hc0.tf, hc0.act, hc0.more, hc0.seq, hc0.rbs, hc0.txq⟩, rfl,
        ⟨q.now, rfl, by show q.now + effOf ca cb < q.now + dt; omega⟩, rfl, hsync.toT⟩
    · rw [e1]
      exact ⟨tB, ⟨hyB.sess.congr ca aa p rfl rfl rfl rfl rfl rfl, hyB.pend, hyB.queue, hyB.timer⟩,
        by show q.now + dt ≤ _; omega, by show y.inbox ++ _ = []; rw [hyib]; rfl⟩
    · rw [e2]; exact NoErr_reverse (NoErr_cons NoErr_nil (by intro t e h; cases h))
    · rw [e3]; exact NoErr_reverse (NoErr_cons NoErr_nil (by intro t e h; cases h))
    · intro h; cases h
    · rw [e1]


/-- the first round: First Frame out, session opened, ContinueToSend back -/
theorem sim_I (hS : Scenario ca cb aa ab p dt) (hff : NeedsFF (TxCfg.of ca aa) p.length) (fcm : CanMsg)
    (hfc : FcFacts cb aa ab fcm) (q : Pair) (h : Lock ca cb aa ab id p dt fcm .I q) :
    Lock ca cb aa ab id p dt fcm (.W 1) (q.round dt).1 ∧ RoundOk id dt .I (.W 1) q := by
  obtain ⟨x, y, hqa, hqb, hab, hba, ⟨hst, hq, hlf, htf, hib⟩, ⟨hyst, hyq, hyt, hyp, hyib⟩⟩ := h
  have hvt := valid_of ca aa hS.va
  have hA := passA_I ca aa id p hS.va hS.h32 hff hS.tFc0 { x with now := q.now, log := [] } hst hq hlf htf hib
  obtain ⟨y', hB, hSs, hnB, hib', htxB, hneB⟩ := passB_FF ca cb aa ab p (hS.rx ca cb aa ab p dt hff) hS.listenB hS.tCf0
    fcm hfc.made
    { y with now := q.now, log := [],
             inbox := y.inbox ++ toInbox (txsOf [Ev.rxNone q.now, Ev.tx q.now (wireA ca aa p 0)]) }
    hyst hyq hyt (by show y.inbox ++ _ = _; rw [hyib]; simp [toInbox, txsOf_nil]) rfl
  obtain ⟨e1, e2, e3⟩ := round_eq ca cb aa ab dt q x _ y y' hqa hqb hab hba hA rfl hB hnB
  refine ⟨⟨_, _, by rw [e1], by rw [e1], by rw [e1], by rw [e1], ?_, ?_⟩, ?_, ?_, ?_, ?_⟩
  · rw [e1]
    refine ⟨Nat.le_refl _, rfl, ⟨q.now, rfl, Nat.le_refl _⟩, rfl, carried_one_lt _ _ hvt hff, rfl, rfl, ?_,
      fun _ => ⟨0, by omega⟩⟩
    show x.inbox ++ toInbox (txsOf y'.log) = _
    rw [hib, htxB]; rfl
  · rw [e1]
    exact ⟨q.now, SessAt.relog ca aa p hSs [], Nat.le_refl _, hib'⟩
  · rw [e2]
    exact NoErr_reverse (NoErr_cons (NoErr_cons NoErr_nil (by intro t e h; cases h)) (by intro t e h; cases h))
  · rw [e3]; exact NoErr_reverse hneB
  · intro h; cases h
  · rw [e1]

/-- a round after the end of the transfer: nothing happens -/
theorem sim_D (fcm : CanMsg) (q : Pair)
    (h : Lock ca cb aa ab id p dt fcm .D q) :
    Lock ca cb aa ab id p dt fcm .D (q.round dt).1 ∧ RoundOk id dt .D .D q := by
  obtain ⟨x, y, hqa, hqb, hab, hba, ⟨hst, hq, hlf, htf, hact, hib⟩, ⟨hD, hyib⟩⟩ := h
  have hA := passA_D ca aa { x with now := q.now, log := [] } hst hq hlf htf hib
  have hB := passB_quiet cb ab
    { y with now := q.now, log := [], inbox := y.inbox ++ toInbox (txsOf [Ev.rxNone q.now]) }
    (by show y.inbox ++ _ = []; rw [hyib]; rfl) (Or.inl hD.timer) hD.pend
  obtain ⟨e1, e2, e3⟩ := round_eq ca cb aa ab dt q x _ y _ hqa hqb hab hba hA rfl hB rfl
  refine ⟨⟨_, _, by rw [e1], by rw [e1], by rw [e1], by rw [e1], ?_, ?_⟩, ?_, ?_, ?_, ?_⟩
  · rw [e1]
    exact ⟨hst, hq, hlf, htf, hact, by show x.inbox ++ _ = []; rw [hib]; rfl⟩
  · rw [e1]
    exact ⟨⟨hD.st, hD.pend, hD.queue, hD.timer⟩, by show y.inbox ++ _ = []; rw [hyib]; rfl⟩
  · rw [e2]; exact NoErr_reverse (NoErr_cons NoErr_nil (by intro t e h; cases h))
  · rw [e3]; exact NoErr_reverse (NoErr_cons NoErr_nil (by intro t e h; cases h))
  · intro _ h; exact absurd rfl h
  · rw [e1]

/-- **One concrete round is one abstract step** (segmented message). -/
theorem round_sim (hS : Scenario ca cb aa ab p dt) (hff : NeedsFF (TxCfg.of ca aa) p.length) (fcm : CanMsg)
    (hfc : FcFacts cb aa ab fcm) (a : Abs) (q : Pair) (h : Lock ca cb aa ab id p dt fcm a q) :
    Lock ca cb aa ab id p dt fcm
      (absStep (decide (effOf ca cb = 0)) cb.blocksize (nFrames (TxCfg.of ca aa) p) a) (q.round dt).1 ∧
    RoundOk id dt a (absStep (decide (effOf ca cb = 0)) cb.blocksize (nFrames (TxCfg.of ca aa) p) a) q := by
  cases a with
  | I =>
    have h2 := two_le_nFrames _ (valid_of ca aa hS.va) p hff
    have : absStep (decide (effOf ca cb = 0)) cb.blocksize (nFrames (TxCfg.of ca aa) p) .I = .W 1 := by
      unfold absStep; rw [if_neg (by omega)]
    rw [this]
    exact sim_I ca cb aa ab id p dt hS hff fcm hfc q h
  | W k => exact sim_W ca cb aa ab id p dt hS hff fcm hfc q k h
  | T k j => exact sim_T ca cb aa ab id p dt hS hff fcm hfc q k j h
  | D => exact sim_D ca cb aa ab id p dt fcm q h


/-- the only round of a Single Frame transfer -/
theorem sim_SF (hS : Scenario ca cb aa ab p dt) (h1 : 1 ≤ p.length) (hsf : ¬ NeedsFF (TxCfg.of ca aa) p.length)
    (fcm : CanMsg) (q : Pair) (h : Lock ca cb aa ab id p dt fcm .I q) :
    Lock ca cb aa ab id p dt fcm .D (q.round dt).1 ∧ RoundOk id dt .I .D q := by
  obtain ⟨x, y, hqa, hqb, hab, hba, ⟨hst, hq, hlf, htf, hib⟩, ⟨hyst, hyq, hyt, hyp, hyib⟩⟩ := h
  obtain ⟨d0, hseg, hA⟩ := passA_SF ca aa id p hS.va h1 hsf { x with now := q.now, log := [] } hst hq hlf htf hib
  obtain ⟨y', hB, hD, hnB, hib', htxB, hneB⟩ := passB_SF ca cb aa ab p hS.va hS.wfA hS.mirAB h1 hsf d0 hseg
    { y with now := q.now, log := [],
             inbox := y.inbox ++ toInbox (txsOf [Ev.rxNone q.now, Ev.tx q.now (wireSf ca aa d0), Ev.done id true]) }
    hyst hyp hyq hyt (by show y.inbox ++ _ = _; rw [hyib]; simp [toInbox, txsOf_nil]) rfl
  obtain ⟨e1, e2, e3⟩ := round_eq ca cb aa ab dt q x _ y y' hqa hqb hab hba hA rfl hB hnB
  refine ⟨⟨_, _, by rw [e1], by rw [e1], by rw [e1], by rw [e1], ?_, ?_⟩, ?_, ?_, ?_, ?_⟩
  · rw [e1]
    refine ⟨rfl, rfl, hlf, rfl, rfl, ?_⟩
    show x.inbox ++ toInbox (txsOf y'.log) = _
    rw [hib, htxB]; rfl
  · rw [e1]
    exact ⟨⟨hD.st, hD.pend, hD.queue, hD.timer⟩, hib'⟩
  · rw [e2]
    exact NoErr_reverse (NoErr_cons (NoErr_cons (NoErr_cons NoErr_nil (by intro t e h; cases h))
      (by intro t e h; cases h)) (by intro t e h; cases h))
  · rw [e3]; exact NoErr_reverse hneB
  · intro _ _; rw [e2]; simp
  · rw [e1]

end sim


/-! ## how many rounds: the abstract machine, iterated -/

def absIter (z : Bool) (bs n : Nat) : Nat → Abs → Abs
  | 0, a => a
  | N + 1, a => absIter z bs n N (absStep z bs n a)

theorem absIter_add (z : Bool) (bs n : Nat) : ∀ (M N : Nat) (a : Abs),
    absIter z bs n (M + N) a = absIter z bs n N (absIter z bs n M a) := by
  intro M
  induction M with
  | zero => intro N a; simp [absIter]
  | succ M ih =>
    intro N a
    have : M + 1 + N = (M + N) + 1 := by omega
    rw [this]
    simp only [absIter]
    exact ih N _

theorem absIter_D (z : Bool) (bs n : Nat) : ∀ N, absIter z bs n N .D = .D := by
  intro N; induction N with
  | zero => rfl
  | succ N ih => simp only [absIter, absStep]; exact ih

/-- number of blocks (= Flow Control frames) for `m` Consecutive Frames -/
def blocks (bs m : Nat) : Nat := if bs = 0 then 1 else (m + bs - 1) / bs

/-- **Number of rounds** of the canonical schedule needed for a message of `n` frames: one round for a Single
    Frame; with STmin = 0 (`z`) one round for the First Frame and one per block; with STmin > 0 one round per frame
    and one more per Flow Control. -/
def roundsNeeded (z : Bool) (bs n : Nat) : Nat :=
  if n ≤ 1 then 1 else if z then 1 + blocks bs (n - 1) else n + blocks bs (n - 1)

theorem blocks_le (bs r : Nat) (hb : 0 < bs) (h1 : 1 ≤ r) (h : r ≤ bs) : blocks bs r = 1 := by
  unfold blocks
  rw [if_neg (by omega)]
  apply Nat.div_eq_of_lt_le <;> omega

theorem blocks_gt (bs r : Nat) (hb : 0 < bs) (h : bs < r) : blocks bs r = blocks bs (r - bs) + 1 := by
  unfold blocks
  rw [if_neg (by omega), if_neg (by omega)]
  have : r + bs - 1 = (r - bs + bs - 1) + bs := by omega
  rw [this, Nat.add_div_right _ hb]

/-- the run with STmin = 0: the whole block, or what is left of the message -/
theorem absRun_true (bs n : Nat) : ∀ (g k j : Nat), k < n → n - k ≤ g → (bs ≠ 0 → j < bs) →
    (absRun true bs n g k j).1 = if bs = 0 ∨ n - k ≤ bs - j then .D else .W (k + (bs - j)) := by
  intro g
  induction g with
  | zero => intro k j h1 h2; omega
  | succ g ih =>
    intro k j hk hg hj
    unfold absRun
    by_cases h1 : k + 1 = n
    · have hD : bs = 0 ∨ n - k ≤ bs - j := by
        by_cases hb : bs = 0
        · exact Or.inl hb
        · exact Or.inr (by have := hj hb; omega)
      rw [if_pos h1, if_pos hD]
    · rw [if_neg h1]
      by_cases h2 : bs ≠ 0 ∧ j + 1 ≥ bs
      · rw [if_pos h2, if_neg (by have := hj h2.1; omega)]
        have := hj h2.1
        have e : k + (bs - j) = k + 1 := by omega
        rw [e]
      · rw [if_neg h2]
        simp only [if_true]
        rw [ih (k + 1) (j + 1) (by omega) (by omega) (by intro hb; have := hj hb; omega)]
        by_cases hb : bs = 0
        · simp [hb]
        · have := hj hb
          have e : k + 1 + (bs - (j + 1)) = k + (bs - j) := by omega
          have c : (n - (k + 1) ≤ bs - (j + 1)) ↔ (n - k ≤ bs - j) := by omega
          simp only [hb, false_or, c, e]

/-- the pass with STmin > 0: one frame -/
theorem absRun_false (bs n g k j : Nat) :
    (absRun false bs n (g + 1) k j).1 =
      if k + 1 = n then .D else if bs ≠ 0 ∧ j + 1 ≥ bs then .W (k + 1) else .T (k + 1) (j + 1) := by
  unfold absRun
  split
  · rfl
  · split <;> simp

/-- STmin = 0: from `W k` with `r` frames left, one round per block -/
theorem iter_W_true (bs n : Nat) : ∀ (r k : Nat), 1 ≤ r → k + r = n →
    absIter true bs n (blocks bs r) (.W k) = .D := by
  intro r
  induction r using Nat.strongRecOn with
  | _ r ih =>
    intro k hr hk
    have hstep : absStep true bs n (.W k) = if bs = 0 ∨ n - k ≤ bs - 0 then .D else .W (k + (bs - 0)) := by
      show (absRun true bs n n k 0).1 = _
      exact absRun_true bs n n k 0 (by omega) (by omega) (by omega)
    by_cases hb : bs = 0
    · have : blocks bs r = 1 := by simp [blocks, hb]
      rw [this]
      show absIter true bs n 0 (absStep true bs n (.W k)) = .D
      rw [hstep, if_pos (Or.inl hb)]
      rfl
    · by_cases hle : r ≤ bs
      · rw [blocks_le bs r (by omega) hr hle]
        show absIter true bs n 0 (absStep true bs n (.W k)) = .D
        rw [hstep, if_pos (Or.inr (by omega))]
        rfl
      · rw [blocks_gt bs r (by omega) (by omega), Nat.add_comm, absIter_add]
        have : absIter true bs n 1 (.W k) = .W (k + bs) := by
          show absIter true bs n 0 (absStep true bs n (.W k)) = _
          rw [hstep, if_neg (by omega)]
          rfl
        rw [this]
        exact ih (r - bs) (by omega) (k + bs) (by omega) (by omega)

/-- STmin > 0: `t` rounds in TRANSMIT_CF that neither end the block nor the message -/
theorem iter_T_false (bs n : Nat) : ∀ (t k j : Nat), k + t < n → (bs ≠ 0 → j + t < bs) →
    absIter false bs n t (.T k j) = .T (k + t) (j + t) := by
  intro t
  induction t with
  | zero => intro k j _ _; rfl
  | succ t ih =>
    intro k j hk hj
    have hstep : absStep false bs n (.T k j) = .T (k + 1) (j + 1) := by
      show (absRun false bs n n k j).1 = _
      obtain ⟨g, hg⟩ : ∃ g, n = g + 1 := ⟨n - 1, by omega⟩
      rw [show absRun false bs n n k j = absRun false bs n (g + 1) k j by rw [← hg], absRun_false]
      rw [if_neg (by omega), if_neg (by intro ⟨hb, h⟩; have := hj hb; omega)]
    simp only [absIter, hstep]
    rw [ih (k + 1) (j + 1) (by omega) (by intro hb; have := hj hb; omega)]
    congr 1 <;> omega

theorem step_T_false (bs n k j : Nat) (hn : 1 ≤ n) :
    absStep false bs n (.T k j) =
      if k + 1 = n then .D else if bs ≠ 0 ∧ j + 1 ≥ bs then .W (k + 1) else .T (k + 1) (j + 1) := by
  show (absRun false bs n n k j).1 = _
  obtain ⟨g, hg⟩ : ∃ g, n = g + 1 := ⟨n - 1, by omega⟩
  rw [show absRun false bs n n k j = absRun false bs n (g + 1) k j by rw [← hg], absRun_false]

/-- STmin > 0: from `W k` with `r` frames left, one round per frame and one per Flow Control -/
theorem iter_W_false (bs n : Nat) : ∀ (r k : Nat), 1 ≤ r → k + r = n →
    absIter false bs n (r + blocks bs r) (.W k) = .D := by
  intro r
  induction r using Nat.strongRecOn with
  | _ r ih =>
    intro k hr hk
    have hW : absStep false bs n (.W k) = .T k 0 := rfl
    by_cases hsmall : bs = 0 ∨ r ≤ bs
    · -- the rest of the message fits the block
      have hbl : blocks bs r = 1 := by
        rcases hsmall with hb | hle
        · simp [blocks, hb]
        · by_cases hb : bs = 0
          · simp [blocks, hb]
          · exact blocks_le bs r (by omega) hr hle
      rw [hbl, show r + 1 = 1 + ((r - 1) + 1) by omega, absIter_add, absIter_add]
      have h1 : absIter false bs n 1 (.W k) = .T k 0 := by simp only [absIter, hW]
      rw [h1, iter_T_false bs n (r - 1) k 0 (by omega) (by intro hb; rcases hsmall with h | h <;> omega)]
      simp only [absIter, step_T_false bs n _ _ (by omega)]
      rw [if_pos (by omega)]
    · have hb : bs ≠ 0 := fun h => hsmall (Or.inl h)
      have hgt : bs < r := by omega
      rw [blocks_gt bs r (by omega) hgt]
      rw [show r + (blocks bs (r - bs) + 1) = 1 + ((bs - 1) + (1 + ((r - bs) + blocks bs (r - bs)))) by omega,
        absIter_add, absIter_add, absIter_add]
      have h1 : absIter false bs n 1 (.W k) = .T k 0 := by simp only [absIter, hW]
      rw [h1, iter_T_false bs n (bs - 1) k 0 (by omega) (by intro _; omega)]
      have h2 : absIter false bs n 1 (.T (k + (bs - 1)) (0 + (bs - 1))) = .W (k + bs) := by
        simp only [absIter, step_T_false bs n _ _ (by omega)]
        rw [if_neg (by omega), if_pos ⟨hb, by omega⟩]
        congr 1; omega
      rw [h2]
      exact ih (r - bs) (by omega) (k + bs) (by omega) (by omega)

/-- **The abstract machine reaches `D` in `roundsNeeded` rounds.** -/
theorem absIter_done (z : Bool) (bs n : Nat) : absIter z bs n (roundsNeeded z bs n) .I = .D := by
  unfold roundsNeeded
  by_cases h1 : n ≤ 1
  · rw [if_pos h1]
    simp only [absIter, absStep, h1, if_true]
  · rw [if_neg h1]
    have hI : absStep z bs n .I = .W 1 := by simp only [absStep, h1, if_false]
    cases z with
    | true =>
      simp only [if_true]
      rw [absIter_add]
      simp only [absIter, hI]
      exact iter_W_true bs n (n - 1) 1 (by omega) (by omega)
    | false =>
      simp only [Bool.false_eq_true, if_false]
      rw [show n + blocks bs (n - 1) = 1 + ((n - 1) + blocks bs (n - 1)) by omega, absIter_add]
      simp only [absIter, hI]
      exact iter_W_false bs n (n - 1) 1 (by omega) (by omega)


/-! ## rounds, iterated -/

section iter
variable (ca cb : Cfg) (aa ab : Addr) (id : Nat) (p : Bytes) (dt : Nat)

/-- abstract states that can occur: all of them for a segmented message, `I` and `D` for a Single Frame -/
def Occurs (a : Abs) : Prop := NeedsFF (TxCfg.of ca aa) p.length ∨ a = .I ∨ a = .D

theorem nFrames_sf (hsf : ¬ NeedsFF (TxCfg.of ca aa) p.length) :
    nFrames (TxCfg.of ca aa) p = 1 := by
  unfold nFrames
  rcases not_ff_cases _ _ hsf with h | h
  · rw [segment_sfShort _ p h]; rfl
  · rw [segment_sfEscape _ p h]; rfl

theorem Occurs.step (z : Bool) (bs : Nat) {a : Abs} (h : Occurs ca aa p a) :
    Occurs ca aa p (absStep z bs (nFrames (TxCfg.of ca aa) p) a) := by
  rcases h with h | h | h
  · exact Or.inl h
  · subst h
    by_cases hff : NeedsFF (TxCfg.of ca aa) p.length
    · exact Or.inl hff
    · right; right
      simp only [absStep, nFrames_sf ca aa p hff, Nat.le_refl, if_true]
  · subst h; exact Or.inr (Or.inr rfl)

/-- **One concrete round is one abstract step** (any payload). -/
theorem round_sim' (hS : Scenario ca cb aa ab p dt) (h1 : 1 ≤ p.length) (fcm : CanMsg)
    (hfc : FcFacts cb aa ab fcm) (a : Abs) (q : Pair) (ho : Occurs ca aa p a)
    (h : Lock ca cb aa ab id p dt fcm a q) :
    Lock ca cb aa ab id p dt fcm
      (absStep (decide (effOf ca cb = 0)) cb.blocksize (nFrames (TxCfg.of ca aa) p) a) (q.round dt).1 ∧
    RoundOk id dt a (absStep (decide (effOf ca cb = 0)) cb.blocksize (nFrames (TxCfg.of ca aa) p) a) q := by
  by_cases hff : NeedsFF (TxCfg.of ca aa) p.length
  · exact round_sim ca cb aa ab id p dt hS hff fcm hfc a q h
  · rcases ho with ho | ho | ho
    · exact absurd ho hff
    · subst ho
      have : absStep (decide (effOf ca cb = 0)) cb.blocksize (nFrames (TxCfg.of ca aa) p) .I = .D := by
        simp only [absStep, nFrames_sf ca aa p hff, Nat.le_refl, if_true]
      rw [this]
      exact sim_SF ca cb aa ab id p dt hS h1 hff fcm q h
    · subst ho
      exact sim_D ca cb aa ab id p dt fcm q h

/-- `N` rounds are `N` abstract steps; no error event in any of them; `complete(True)` is among the sender's
    events once the abstract machine has reached `D`; the clock has advanced by `N · dt`. -/
theorem rounds_sim (hS : Scenario ca cb aa ab p dt) (h1 : 1 ≤ p.length) (fcm : CanMsg)
    (hfc : FcFacts cb aa ab fcm) : ∀ (N : Nat) (a : Abs) (q : Pair), Occurs ca aa p a →
    Lock ca cb aa ab id p dt fcm a q →
    Lock ca cb aa ab id p dt fcm
      (absIter (decide (effOf ca cb = 0)) cb.blocksize (nFrames (TxCfg.of ca aa) p) N a) (Pair.rounds dt N q).1 ∧
    NoErr (Pair.rounds dt N q).2.1 ∧ NoErr (Pair.rounds dt N q).2.2 ∧
    (a ≠ .D → absIter (decide (effOf ca cb = 0)) cb.blocksize (nFrames (TxCfg.of ca aa) p) N a = .D →
      Ev.done id true ∈ (Pair.rounds dt N q).2.1) ∧
    (Pair.rounds dt N q).1.now = q.now + N * dt := by
  intro N
  induction N with
  | zero =>
    intro a q _ h
    exact ⟨h, NoErr_nil, NoErr_nil, fun h1 h2 => absurd h2 h1, by simp [Pair.rounds]⟩
  | succ N ih =>
    intro a q ho h
    obtain ⟨hl, hA, hB, hd, hn⟩ := round_sim' ca cb aa ab id p dt hS h1 fcm hfc a q ho h
    obtain ⟨il, iA, iB, idn, inw⟩ := ih _ (q.round dt).1 (ho.step ca aa p _ _) hl
    refine ⟨il, NoErr_append hA iA, NoErr_append hB iB, ?_, ?_⟩
    · intro hne hD
      by_cases h1D : absStep (decide (effOf ca cb = 0)) cb.blocksize (nFrames (TxCfg.of ca aa) p) a = .D
      · exact List.mem_append_left _ (hd h1D hne)
      · exact List.mem_append_right _ (idn h1D hD)
    · show (Pair.rounds dt N (q.round dt).1).1.now = _
      rw [inw, hn, Nat.succ_mul]; omega

end iter


/-! ## progress in every round -/

/-- frames of the message the receiver has consumed so far (`n`: number of frames of the message) -/
def framesDelivered (n : Nat) (b : State) : Nat :=
  if b.rxQueue ≠ [] then n else if b.rxState = .waitCf then b.rxBlockCnt + 1 else 0

/-- The progress measure of the schedule, on the concrete layer states: twice the number of frames not yet
    delivered, plus one while the sender waits for a Flow Control. -/
def progressMeasure (n : Nat) (a b : State) : Nat :=
  2 * (n - framesDelivered n b) + (if a.txState = .waitFc then 1 else 0)

section progress
variable (ca cb : Cfg) (aa ab : Addr) (id : Nat) (p : Bytes) (dt : Nat)

theorem nFrames_pos (hva : ca.valid = true) : 1 ≤ nFrames (TxCfg.of ca aa) p := by
  by_cases hff : NeedsFF (TxCfg.of ca aa) p.length
  · have := two_le_nFrames _ (valid_of ca aa hva) p hff; omega
  · rw [nFrames_sf ca aa p hff]; exact Nat.le_refl 1

/-- under the lockstep invariant the concrete measure is the abstract one -/
theorem measure_of_lock (fcm : CanMsg) (a : Abs) (q : Pair) (h : Lock ca cb aa ab id p dt fcm a q) :
    progressMeasure (nFrames (TxCfg.of ca aa) p) q.a q.b = a.measure (nFrames (TxCfg.of ca aa) p) := by
  obtain ⟨x, y, hqa, hqb, -, -, hA, hB⟩ := h
  rw [hqa, hqb]
  unfold progressMeasure framesDelivered Abs.measure
  cases a with
  | I =>
    obtain ⟨hst, -⟩ := hA
    obtain ⟨hyst, hyq, -⟩ := hB
    simp [mkA, mkB, hst, hyst, hyq]
  | W k =>
    obtain ⟨hk, hst, -⟩ := hA
    obtain ⟨t, hs, -⟩ := hB
    have h1 := hs.sess.st
    have h2 := hs.sess.blk
    have h3 := hs.queue
    simp only [mkA, mkB, hst, h1, h2, h3, ne_eq, not_true_eq_false, if_false, if_true]
    omega
  | T k j =>
    obtain ⟨hc, -⟩ := hA
    obtain ⟨t, hs, -⟩ := hB
    have h0 := hc.k1
    have h1 := hs.sess.st
    have h2 := hs.sess.blk
    have h3 := hs.queue
    have h4 := hc.st
    simp only [mkA, mkB, h4, h1, h2, h3, ne_eq, not_true_eq_false, if_false, if_true]
    simp
    omega
  | D =>
    obtain ⟨hst, -⟩ := hA
    obtain ⟨hD, -⟩ := hB
    have h3 := hD.queue
    simp [mkA, mkB, hst, h3]

/-- the abstract measure decreases with every step from a state the invariant describes -/
theorem absStep_measure (hva : ca.valid = true) (fcm : CanMsg) (a : Abs) (q : Pair) (ho : Occurs ca aa p a)
    (h : Lock ca cb aa ab id p dt fcm a q) (hne : a ≠ .D) :
    (absStep (decide (effOf ca cb = 0)) cb.blocksize (nFrames (TxCfg.of ca aa) p) a).measure (nFrames (TxCfg.of ca aa) p) <
      a.measure (nFrames (TxCfg.of ca aa) p) := by
  have hn := nFrames_pos ca aa p hva
  have hvt := valid_of ca aa hva
  obtain ⟨x, y, -, -, -, -, hA, -⟩ := h
  cases a with
  | D => exact absurd rfl hne
  | I =>
    have e : absStep (decide (effOf ca cb = 0)) cb.blocksize (nFrames (TxCfg.of ca aa) p) .I =
        if nFrames (TxCfg.of ca aa) p ≤ 1 then .D else .W 1 := rfl
    rw [e]
    by_cases h1 : nFrames (TxCfg.of ca aa) p ≤ 1
    · rw [if_pos h1]; simp only [Abs.measure]; omega
    · rw [if_neg h1]; simp only [Abs.measure]; omega
  | W k =>
    have hff : NeedsFF (TxCfg.of ca aa) p.length := by
      rcases ho with h | h | h
      · exact h
      · cases h
      · cases h
    obtain ⟨hk, -, -, -, hmore, -, -, -, hsync⟩ := hA
    have hkn := (lt_nFrames_iff _ hvt p hff k hk).mpr hmore
    have e : absStep (decide (effOf ca cb = 0)) cb.blocksize (nFrames (TxCfg.of ca aa) p) (.W k) =
        if decide (effOf ca cb = 0) = true then
          (absRun (decide (effOf ca cb = 0)) cb.blocksize (nFrames (TxCfg.of ca aa) p) (nFrames (TxCfg.of ca aa) p) k 0).1
        else .T k 0 := rfl
    rw [e]
    by_cases hz : decide (effOf ca cb = 0) = true
    · rw [if_pos hz]
      obtain ⟨s1, -, s3, -⟩ := absRun_shape (decide (effOf ca cb = 0)) cb.blocksize (nFrames (TxCfg.of ca aa) p)
        (nFrames (TxCfg.of ca aa) p) k 0 hk hkn (by omega) hsync.toT
      generalize absRun (decide (effOf ca cb = 0)) cb.blocksize (nFrames (TxCfg.of ca aa) p)
        (nFrames (TxCfg.of ca aa) p) k 0 = r at *
      obtain ⟨a', c⟩ := r
      cases a' with
      | I => exact absurd s3 (by simp [Shape])
      | D => simp only [Abs.measure]; omega
      | W k' => simp only [Shape] at s3; simp only [Abs.measure]; omega
      | T k' j' => simp only [Shape] at s3; simp only [Abs.measure]; omega
    · rw [if_neg hz]; simp only [Abs.measure]; omega
  | T k j =>
    have hff : NeedsFF (TxCfg.of ca aa) p.length := by
      rcases ho with h | h | h
      · exact h
      · cases h
      · cases h
    obtain ⟨hc, -, -, -, hsync⟩ := hA
    have hkn := (lt_nFrames_iff _ hvt p hff k hc.k1).mpr hc.more
    show (absRun (decide (effOf ca cb = 0)) cb.blocksize (nFrames (TxCfg.of ca aa) p)
      (nFrames (TxCfg.of ca aa) p) k j).1.measure _ < _
    have hk1 := hc.k1
    obtain ⟨s1, -, s3, -⟩ := absRun_shape (decide (effOf ca cb = 0)) cb.blocksize (nFrames (TxCfg.of ca aa) p)
      (nFrames (TxCfg.of ca aa) p) k j hc.k1 hkn (by omega) hsync
    generalize absRun (decide (effOf ca cb = 0)) cb.blocksize (nFrames (TxCfg.of ca aa) p)
      (nFrames (TxCfg.of ca aa) p) k j = r at *
    obtain ⟨a', c⟩ := r
    cases a' with
    | I => exact absurd s3 (by simp [Shape])
    | D => simp only [Abs.measure]; omega
    | W k' => simp only [Shape] at s3; simp only [Abs.measure]; omega
    | T k' j' => simp only [Shape] at s3; simp only [Abs.measure]; omega

/-- **No deadlock**: while the transfer is not finished, every round strictly decreases the measure. -/
theorem round_progress (hS : Scenario ca cb aa ab p dt) (h1 : 1 ≤ p.length) (fcm : CanMsg)
    (hfc : FcFacts cb aa ab fcm) (a : Abs) (q : Pair) (ho : Occurs ca aa p a)
    (h : Lock ca cb aa ab id p dt fcm a q) (hne : a ≠ .D) :
    progressMeasure (nFrames (TxCfg.of ca aa) p) (q.round dt).1.a (q.round dt).1.b <
      progressMeasure (nFrames (TxCfg.of ca aa) p) q.a q.b := by
  obtain ⟨hl, -⟩ := round_sim' ca cb aa ab id p dt hS h1 fcm hfc a q ho h
  rw [measure_of_lock ca cb aa ab id p dt fcm _ _ hl, measure_of_lock ca cb aa ab id p dt fcm _ _ h]
  exact absStep_measure ca cb aa ab id p dt hS.va fcm a q ho h hne

end progress


/-! ## the scenario on the network of the driver -/

section scenario
variable (ca cb : Cfg) (aa ab : Addr) (id : Nat) (p : Bytes) (dt : Nat)

/-- the two freshly constructed layers: 0 = A (sender), 1 = B (receiver) -/
def net0 : Net := (({} : Net).setLayer 0 (State.init ca aa)).setLayer 1 (State.init cb ab)

/-- `A.send(p)` for a bytes payload -/
def sendOp (s : State) : State × Option PyExc := s.send { id := id, size := p.length, src := p }

/-- the network after `A.send(p)`, and what `send` returned -/
def startNet : Option (Net × Option PyExc) :=
  match (net0 ca cb aa ab).onLayer 0 (sendOp id p) with
  | none => none
  | some (d, _, _, r) => some (d, r)

/-- the two-layer record of the network after an accepted `send` -/
def pair0 : Pair := { a := mkA ca aa { txQueue := [reqFor ca id p] }, b := mkB cb ab {} }

theorem send_accepted (s : State) (a : SendArgs) (h : (s.send a).2 = none) :
    (s.send a).1 = { s with txQueue := s.txQueue ++ [reqOf s a] } := by
  by_cases h0 : a.size < 0
  · rw [send_negative s a h0] at h; cases h
  · by_cases h1 : a.size > 0xFFFFFFFF
    · rw [send_too_big s a h1] at h; cases h
    · by_cases hf : (a.tat.getD s.cfg.defaultTat = .functional ∧
          a.size.toNat + (if s.cfg.txDl = 8 then 1 else 2) + s.txPrefixLen > s.cfg.txDl)
      · exfalso
        unfold State.send at h
        simp only [] at h
        rw [if_neg h0, if_neg h1] at h
        have : (decide (a.tat.getD s.cfg.defaultTat = .functional) &&
            decide (a.size.toNat + (if s.cfg.txDl = 8 then 1 else 2) + s.txPrefixLen > s.cfg.txDl)) = true := by
          simpa using hf
        rw [if_pos this] at h
        cases h
      · exact (send_accepts s a (by omega) (by omega) hf).1

theorem startNet_eq (hrl : ca.rlEnable = false)
    (hacc : ((State.init ca aa).send { id := id, size := p.length, src := p }).2 = none) :
    startNet ca cb aa ab id p = some ((pair0 ca cb aa ab id p).toNet, none) := by
  have h1 := send_accepted (State.init ca aa) { id := id, size := p.length, src := p } hacc
  unfold startNet net0
  rw [toNet_init, onLayer0]
  simp only []
  have he : enter 0 (State.init ca aa) = State.init ca aa := rfl
  have hq : (sendOp id p (State.init ca aa)).1 = mkA ca aa { txQueue := [reqFor ca id p] } := by
    show ((State.init ca aa).send _).1 = _
    rw [h1, init_eq_mkA ca aa hrl]
    simp [mkA, reqOf, reqFor]
  have hr : (sendOp id p (State.init ca aa)).2 = none := hacc
  simp only [he, hq, hr]
  rfl

theorem lock0 (fcm : CanMsg) : Lock ca cb aa ab id p dt fcm .I (pair0 ca cb aa ab id p) :=
  ⟨{ txQueue := [reqFor ca id p] }, {}, rfl, rfl, rfl, rfl, ⟨rfl, rfl, rfl, rfl, rfl⟩, ⟨rfl, rfl, rfl, rfl, rfl⟩⟩

end scenario


/-! ## the main results, on the two-layer record -/

section main
variable (ca cb : Cfg) (aa ab : Addr) (id : Nat) (p : Bytes) (dt : Nat)

/-- the number of rounds the transfer of `p` takes -/
def roundsFor : Nat :=
  roundsNeeded (decide (effOf ca cb = 0)) cb.blocksize (nFrames (TxCfg.of ca aa) p)

theorem absIter_ge (z : Bool) (bs n N : Nat) (h : roundsNeeded z bs n ≤ N) : absIter z bs n N .I = .D := by
  obtain ⟨M, rfl⟩ : ∃ M, N = roundsNeeded z bs n + M := ⟨N - roundsNeeded z bs n, by omega⟩
  rw [absIter_add, absIter_done, absIter_D]

/-- after `N ≥ roundsFor` rounds from the state right after `send`: the network is in abstract state `D`, no error
    was reported, `complete(True)` was -/
theorem rounds_complete (hS : Scenario ca cb aa ab p dt) (h1 : 1 ≤ p.length) (fcm : CanMsg)
    (hfc : FcFacts cb aa ab fcm) (N : Nat) (hN : roundsFor ca cb aa p ≤ N) :
    Lock ca cb aa ab id p dt fcm .D (Pair.rounds dt N (pair0 ca cb aa ab id p)).1 ∧
    NoErr (Pair.rounds dt N (pair0 ca cb aa ab id p)).2.1 ∧ NoErr (Pair.rounds dt N (pair0 ca cb aa ab id p)).2.2 ∧
    Ev.done id true ∈ (Pair.rounds dt N (pair0 ca cb aa ab id p)).2.1 ∧
    (Pair.rounds dt N (pair0 ca cb aa ab id p)).1.now = N * dt := by
  obtain ⟨hl, hA, hB, hd, hn⟩ := rounds_sim ca cb aa ab id p dt hS h1 fcm hfc N .I (pair0 ca cb aa ab id p)
    (Or.inr (Or.inl rfl)) (lock0 ca cb aa ab id p dt fcm)
  have hD := absIter_ge (decide (effOf ca cb = 0)) cb.blocksize (nFrames (TxCfg.of ca aa) p) N hN
  rw [hD] at hl
  refine ⟨hl, hA, hB, hd (by intro h; cases h) hD, ?_⟩
  rw [hn]; simp [pair0]

/-- the invariant holds after any number of rounds -/
theorem rounds_lock (hS : Scenario ca cb aa ab p dt) (h1 : 1 ≤ p.length) (fcm : CanMsg)
    (hfc : FcFacts cb aa ab fcm) (i : Nat) :
    Lock ca cb aa ab id p dt fcm
      (absIter (decide (effOf ca cb = 0)) cb.blocksize (nFrames (TxCfg.of ca aa) p) i .I)
      (Pair.rounds dt i (pair0 ca cb aa ab id p)).1 ∧
    Occurs ca aa p (absIter (decide (effOf ca cb = 0)) cb.blocksize (nFrames (TxCfg.of ca aa) p) i .I) := by
  refine ⟨(rounds_sim ca cb aa ab id p dt hS h1 fcm hfc i .I (pair0 ca cb aa ab id p)
    (Or.inr (Or.inl rfl)) (lock0 ca cb aa ab id p dt fcm)).1, ?_⟩
  have : ∀ (i : Nat) (a : Abs), Occurs ca aa p a →
      Occurs ca aa p (absIter (decide (effOf ca cb = 0)) cb.blocksize (nFrames (TxCfg.of ca aa) p) i a) := by
    intro i
    induction i with
    | zero => intro a h; exact h
    | succ i ih => intro a h; exact ih _ (h.step ca aa p _ _)
  exact this i .I (Or.inr (Or.inl rfl))

/-- a state the invariant describes has measure 0 only when the transfer is over -/
theorem lock_measure_zero (hva : ca.valid = true) (fcm : CanMsg) (a : Abs) (q : Pair) (ho : Occurs ca aa p a)
    (h : Lock ca cb aa ab id p dt fcm a q) (h0 : a.measure (nFrames (TxCfg.of ca aa) p) = 0) : a = .D := by
  have hn := nFrames_pos ca aa p hva
  have hvt := valid_of ca aa hva
  obtain ⟨x, y, -, -, -, -, hA, -⟩ := h
  cases a with
  | D => rfl
  | I => simp only [Abs.measure] at h0; omega
  | W k => simp only [Abs.measure] at h0; omega
  | T k j =>
    have hff : NeedsFF (TxCfg.of ca aa) p.length := by
      rcases ho with h | h | h
      · exact h
      · cases h
      · cases h
    obtain ⟨hc, -⟩ := hA
    have hkn := (lt_nFrames_iff _ hvt p hff k hc.k1).mpr hc.more
    simp only [Abs.measure] at h0; omega

end main


/-! ## the bound is sharp: rounds still needed, as a potential -/

/-- well-formed abstract states (what the lockstep invariant guarantees about the counters) -/
def Abs.Valid (bs n : Nat) : Abs → Prop
  | .I => 1 ≤ n
  | .W k => 1 ≤ k ∧ k < n ∧ SyncW bs k
  | .T k j => 1 ≤ k ∧ k < n ∧ SyncT bs k j
  | .D => True

/-- rounds still needed from an abstract state -/
def Abs.toGo (z : Bool) (bs n : Nat) : Abs → Nat
  | .I => roundsNeeded z bs n
  | .W k => if z then blocks bs (n - k) else (n - k) + blocks bs (n - k)
  | .T k j => if z then 1 else
      (n - k) + (if bs = 0 ∨ n - k ≤ bs - j then 0 else blocks bs (n - k - (bs - j)))
  | .D => 0

theorem absStep_valid (z : Bool) (bs n : Nat) (a : Abs) (h : a.Valid bs n) : (absStep z bs n a).Valid bs n := by
  cases a with
  | D => trivial
  | I =>
    show Abs.Valid bs n (if n ≤ 1 then .D else .W 1)
    split
    · trivial
    · exact ⟨Nat.le_refl 1, by omega, fun _ => ⟨0, by omega⟩⟩
  | W k =>
    obtain ⟨hk, hkn, hs⟩ := h
    show Abs.Valid bs n (if z = true then (absRun z bs n n k 0).1 else .T k 0)
    split
    · obtain ⟨-, -, s3, -⟩ := absRun_shape z bs n n k 0 hk hkn (by omega) hs.toT
      generalize absRun z bs n n k 0 = r at *
      obtain ⟨a', c⟩ := r
      cases a' with
      | I => exact absurd s3 (by simp [Shape])
      | D => trivial
      | W k' => simp only [Shape] at s3; exact ⟨by omega, s3.2.1, s3.2.2.2⟩
      | T k' j' => simp only [Shape] at s3; exact ⟨by omega, s3.2.1, s3.2.2.2⟩
    · exact ⟨hk, hkn, hs.toT⟩
  | T k j =>
    obtain ⟨hk, hkn, hs⟩ := h
    show Abs.Valid bs n (absRun z bs n n k j).1
    obtain ⟨-, -, s3, -⟩ := absRun_shape z bs n n k j hk hkn (by omega) hs
    generalize absRun z bs n n k j = r at *
    obtain ⟨a', c⟩ := r
    cases a' with
    | I => exact absurd s3 (by simp [Shape])
    | D => trivial
    | W k' => simp only [Shape] at s3; exact ⟨by omega, s3.2.1, s3.2.2.2⟩
    | T k' j' => simp only [Shape] at s3; exact ⟨by omega, s3.2.1, s3.2.2.2⟩

/-- a round cannot save more than one round -/
theorem toGo_step (z : Bool) (bs n : Nat) (a : Abs) (h : a.Valid bs n) :
    a.toGo z bs n ≤ (absStep z bs n a).toGo z bs n + 1 := by
  cases a with
  | D => simp [Abs.toGo]
  | I =>
    show roundsNeeded z bs n ≤ Abs.toGo z bs n (if n ≤ 1 then .D else .W 1) + 1
    unfold roundsNeeded
    by_cases h1 : n ≤ 1
    · rw [if_pos h1, if_pos h1]; simp [Abs.toGo]
    · rw [if_neg h1, if_neg h1]
      cases z <;> simp [Abs.toGo] <;> omega
  | W k =>
    obtain ⟨hk, hkn, hs⟩ := h
    cases z with
    | true =>
      show blocks bs (n - k) ≤ Abs.toGo true bs n (absRun true bs n n k 0).1 + 1
      rw [absRun_true bs n n k 0 hkn (by omega) (by omega)]
      by_cases hb : bs = 0
      · simp [hb, blocks, Abs.toGo]
      · by_cases hle : n - k ≤ bs
        · rw [if_pos (Or.inr (by omega)), blocks_le bs (n - k) (by omega) (by omega) hle]; simp [Abs.toGo]
        · rw [if_neg (by omega), blocks_gt bs (n - k) (by omega) (by omega)]
          simp only [Abs.toGo, if_true]
          have : n - (k + (bs - 0)) = n - k - bs := by omega
          rw [this]
          exact Nat.le_refl _
    | false =>
      show (n - k) + blocks bs (n - k) ≤ Abs.toGo false bs n (.T k 0) + 1
      simp only [Abs.toGo, Bool.false_eq_true, if_false, Nat.sub_zero]
      by_cases hb : bs = 0
      · simp [hb, blocks]
      · by_cases hle : n - k ≤ bs
        · rw [if_pos (Or.inr hle), blocks_le bs (n - k) (by omega) (by omega) hle]; omega
        · rw [if_neg (by omega), blocks_gt bs (n - k) (by omega) (by omega)]; omega
  | T k j =>
    obtain ⟨hk, hkn, hs⟩ := h
    cases z with
    | true => simp [Abs.toGo]
    | false =>
      rw [step_T_false bs n k j (by omega)]
      simp only [Abs.toGo, Bool.false_eq_true, if_false]
      by_cases h1 : k + 1 = n
      · rw [if_pos h1]
        have : bs = 0 ∨ n - k ≤ bs - j := by
          by_cases hb : bs = 0
          · exact Or.inl hb
          · exact Or.inr (by have := (hs hb).1; omega)
        rw [if_pos this]; omega
      · rw [if_neg h1]
        by_cases h2 : bs ≠ 0 ∧ j + 1 ≥ bs
        · rw [if_pos h2]
          have hj := (hs h2.1).1
          have : ¬ (bs = 0 ∨ n - k ≤ bs - j) := by omega
          rw [if_neg this]
          dsimp only
          have e : n - k - (bs - j) = n - (k + 1) := by omega
          rw [e]; omega
        · rw [if_neg h2]
          dsimp only
          by_cases hb : bs = 0
          · simp [hb]; omega
          · have hj := (hs hb).1
            have hj1 : j + 1 < bs := by omega
            by_cases hc : n - k ≤ bs - j
            · rw [if_pos (Or.inr hc), if_pos (Or.inr (by omega))]; omega
            · rw [if_neg (by omega), if_neg (by omega)]
              have e : n - (k + 1) - (bs - (j + 1)) = n - k - (bs - j) := by omega
              rw [e]; omega

/-- before `roundsNeeded` rounds have passed the abstract machine is not in `D` -/
theorem absIter_not_done (z : Bool) (bs n : Nat) (hn : 1 ≤ n) (i : Nat) (hi : i < roundsNeeded z bs n) :
    absIter z bs n i .I ≠ .D := by
  have key : ∀ (i : Nat) (a : Abs), a.Valid bs n →
      (absIter z bs n i a).Valid bs n ∧ a.toGo z bs n ≤ (absIter z bs n i a).toGo z bs n + i := by
    intro i
    induction i with
    | zero => intro a h; exact ⟨h, Nat.le_refl _⟩
    | succ i ih =>
      intro a h
      obtain ⟨h1, h2⟩ := ih _ (absStep_valid z bs n a h)
      have := toGo_step z bs n a h
      exact ⟨h1, by simp only [absIter]; omega⟩
  obtain ⟨-, h2⟩ := key i .I hn
  intro hD
  rw [hD] at h2
  simp only [Abs.toGo] at h2
  omega

end Isotp.Lockstep
