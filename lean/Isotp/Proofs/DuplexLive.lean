import Isotp.Proofs.Lockstep
/-
  C10, liveness half ("both directions at once"), part 1: the abstract duplex machine and what one call of
  `_process_rx` / `_process_tx` does to a layer that is sending its own message AND receiving the peer's.

  * `Fr`, `TxA`, `RxA`, `AL`, `Par`: the abstract state of ONE layer in a duplex exchange — the phase of its own
    transmission (`I` queued, `W k r` waiting for a Flow Control since round `r` with `k` frames out, `T k j r`
    in TRANSMIT_CF with `j` frames of the block out and the STmin timer started in round `r`, `D` done), the mailbox
    bit, the phase of its reception of the peer's message (`I`, `S i t` session with `i` Consecutive Frames received
    and the N_Cr timer started in round `t` / stopped, `D` delivered), the pending Flow Control bit, the inbox as a
    list of abstract frames (`fc` = the peer's ContinueToSend, `dat k` = frame `k` of the peer's message) and the
    frames emitted in the current pass. Time is counted in rounds.
  * `absRx`, `absTx`, `absRxLoop`, `absTxLoop`, `absProcLoop`, `absPass`: `_process_rx`, `_process_tx` and the
    three loops of `process()` on the abstract state (same control flow: the rx loop stops after a Flow Control,
    after a frame that requests one, and after every frame while the transmit FSM is time driven; the transmit pass
    serves a pending Flow Control first and asks for an immediate rx pass; …). `none` = something the liveness
    theorem excludes happened (a timer could have expired, a frame nobody expects, out of fuel).
  * `Side`, `SideOk`: the static data of one layer and its peer, and the hypotheses.
  * `Rep`: the concrete layer state `s` is in abstract state `al` in round `R` (clock = `R * dt`).
  * `rx_sim`, `tx_sim`: one concrete `_process_rx` (after the arrival bookkeeping of the rx loop) / `_process_tx` is
    one abstract step.
  The loops, the rounds and the network are in DuplexLive2.lean; the abstract liveness results in DuplexLive3.lean.
-/
namespace Isotp.DuplexLive
open Isotp Isotp.State Isotp.Spec Isotp.Proofs Isotp.Lockstep

/-! ## the abstract machine -/

/-- a frame, abstractly -/
inductive Fr where
  | fc                 -- the ContinueToSend of the emitting layer
  | dat (k : Nat)      -- frame `k` of the emitting layer's message (0: First Frame or Single Frame)
  deriving DecidableEq, Repr

/-- phase of the layer's own transmission -/
inductive TxA where
  | I                    -- request queued
  | W (k r : Nat)        -- WAIT_FC since round `r`, `k` frames out
  | T (k j r : Nat)      -- TRANSMIT_CF, `k` frames out, `j` of the current block, STmin timer started in round `r`
  | D                    -- request completed
  deriving DecidableEq, Repr

/-- phase of the reception of the peer's message -/
inductive RxA where
  | I                              -- nothing received
  | S (i : Nat) (t : Option Nat)   -- `i` Consecutive Frames received; N_Cr timer started in round `t` / stopped
  | D                              -- payload delivered
  deriving DecidableEq, Repr

/-- the parameters of one layer in a duplex exchange -/
structure Par where
  n   : Nat          -- number of frames of the own message
  n'  : Nat          -- number of frames of the peer's message
  bs  : Nat          -- own blocksize (announced to the peer; governs when the reception side asks for a Flow Control)
  bs' : Nat          -- the peer's blocksize (governs the blocks of the own transmission)
  z   : Bool         -- the separation time the own transmission has to respect is 0
  kCf : Nat := 3     -- the N_Cr timeout is at least `kCf` ticks
  kFc : Nat := 2     -- the N_Bs timeout is at least `kFc` ticks
  deriving Repr, DecidableEq

structure AL where
  tx    : TxA := .I
  fc    : Bool := false        -- a ContinueToSend sits in the mailbox
  rx    : RxA := .I
  pend  : Bool := false        -- a Flow Control is to be sent
  inbox : List Fr := []
  out   : List Fr := []        -- frames emitted so far in this pass, oldest first
  done  : Bool := false        -- `complete(True)` reported in this pass
  deriving DecidableEq, Repr

/-- the N_Cr timer has not (provably) expired in round `R` -/
def cfOk (P : Par) (R : Nat) : RxA → Bool
  | .S _ (some t) => R - t ≤ P.kCf
  | _ => true

def rxIdle : RxA → Bool
  | .S _ _ => false
  | _ => true

def timeDriven : TxA → Bool
  | .T _ _ _ => true
  | _ => false

/-- `_process_rx` (with the `_check_timeouts_rx` of the rx loop before it): new state, `immediate_tx_required` -/
def absRx (P : Par) (R : Nat) (al : AL) (it : Fr) : Option (AL × Bool) :=
  if !cfOk P R al.rx then none else
  if al.pend then none else
  if al.fc then none else
  match it with
  | .fc => some ({ al with fc := true }, true)
  | .dat k =>
    match al.rx with
    | .I =>
      if k ≠ 0 then none
      else if P.n' = 1 then some ({ al with rx := .D }, false)
      else some ({ al with rx := .S 0 (some R), pend := true }, true)
    | .S i _ =>
      if k ≠ i + 1 then none
      else if i + 2 = P.n' then some ({ al with rx := .D }, false)
      else if 0 < P.bs ∧ (i + 1) % P.bs = 0 then some ({ al with rx := .S (i + 1) none, pend := true }, true)
      else some ({ al with rx := .S (i + 1) (some R) }, false)
    | .D => none

/-- the inner rx loop of `process` (with `do_tx`): new state, `run_process` requested -/
def absRxLoop (P : Par) (R : Nat) : AL → List Fr → Option (AL × Bool)
  | al, [] => if cfOk P R al.rx then some ({ al with inbox := [] }, false) else none
  | al, it :: rest =>
    match absRx P R { al with inbox := rest } it with
    | none => none
    | some (al', imm) =>
      if imm then some (al', false)
      else if timeDriven al'.tx then some (al', true)
      else absRxLoop P R al' rest

/-- the state machine part of `_process_tx` (mailbox empty, N_Bs checked) -/
def absFsm (P : Par) (R : Nat) (al : AL) : Option (AL × Option Fr × Bool) :=
  match al.tx with
  | .I =>
    if P.n = 1 then some ({ al with tx := .D, done := true }, some (.dat 0), false)
    else some ({ al with tx := .W 1 R }, some (.dat 0), false)
  | .W _ _ => some (al, none, false)
  | .T k j r =>
    if P.z || decide (r < R) then
      if k + 1 = P.n then some ({ al with tx := .D, done := true }, some (.dat k), false)
      else if P.bs' ≠ 0 ∧ j + 1 ≥ P.bs' then some ({ al with tx := .W (k + 1) R }, some (.dat k), true)
      else some ({ al with tx := .T (k + 1) (j + 1) R }, some (.dat k), false)
    else some (al, none, false)
  | .D => some (al, none, false)

/-- the mailbox / N_Bs part of `_process_tx`: the transmit phase the state machine runs on -/
def absMail (P : Par) (R : Nat) (al : AL) : Option TxA :=
  match al.tx with
  | .W k r => if R - r ≤ P.kFc then (if al.fc then some (.T k 0 R) else some (.W k r)) else none
  | t => if al.fc then none else some t

/-- `_process_tx`: new state, frame handed out, `immediate_rx_required` -/
def absTx (P : Par) (R : Nat) (al : AL) : Option (AL × Option Fr × Bool) :=
  if al.pend then
    match al.rx with
    | .S i _ => some ({ al with pend := false, rx := .S i (some R) }, some .fc, true)
    | _ => none
  else
    match absMail P R al with
    | none => none
    | some tx => absFsm P R { al with fc := false, tx := tx }

/-- what `txfn` does with the frame handed out -/
def pushOut (al : AL) : Option Fr → AL
  | some f => { al with out := al.out ++ [f] }
  | none => al

/-- the inner tx loop of `process`: new state, `run_process` requested (`none`: out of fuel, or a step failed) -/
def absTxLoop (P : Par) (R : Nat) : Nat → AL → Option (AL × Bool)
  | 0, _ => none
  | g + 1, al =>
    match absTx P R al with
    | none => none
    | some (al', out, imm) =>
      if imm then some (pushOut al' out, true)
      else if out.isSome then absTxLoop P R g (pushOut al' out)
      else some (pushOut al' out, false)

/-- iterations the inner tx loop needs at most -/
def txNeed (P : Par) : TxA → Nat
  | .I => 2
  | .W k _ => P.n - k + 1
  | .T k _ _ => P.n - k + 1
  | .D => 1

/-- the outer loop of `process()` -/
def absProcLoop (P : Par) (R : Nat) : Nat → AL → Option AL
  | 0, _ => none
  | f + 1, al =>
    let sw := decide (al.tx = .I) && rxIdle al.rx
    match (if !sw then absRxLoop P R al al.inbox else some (al, false)) with
    | none => none
    | some (al1, rxRun) =>
      match absTxLoop P R (txNeed P al1.tx) al1 with
      | none => none
      | some (al2, run) =>
        if sw || rxRun || run then absProcLoop P R f al2 else some al2

def absFuel (al : AL) : Nat := 2 * (al.inbox.length + (if al.tx = .I then 1 else 0)) + 8

/-- one `process()` call in round `R` -/
def absPass (P : Par) (R : Nat) (al : AL) : Option AL :=
  absProcLoop P R (absFuel al) { al with out := [], done := false }

/-! ## the static data of a layer and its peer -/

structure Side where
  c   : Cfg       -- own configuration and address
  a   : Addr
  c'  : Cfg       -- the peer's
  a'  : Addr
  id  : Nat       -- own request: identifier and payload
  p   : Bytes
  p'  : Bytes     -- the peer's payload
  dt  : Nat       -- the tick of the schedule
  kCf : Nat       -- own N_Cr timeout ≥ kCf ticks, own N_Bs timeout ≥ kFc ticks
  kFc : Nat

/-- the same exchange seen from the peer (`id'`: the peer's request identifier) -/
def Side.swap (S : Side) (id' kCf' kFc' : Nat) : Side :=
  { c := S.c', a := S.a', c' := S.c, a' := S.a, id := id', p := S.p', p' := S.p, dt := S.dt, kCf := kCf', kFc := kFc' }

def Side.par (S : Side) : Par :=
  { n := nFrames (TxCfg.of S.c S.a) S.p, n' := nFrames (TxCfg.of S.c' S.a') S.p', bs := S.c.blocksize,
    bs' := S.c'.blocksize, z := decide (effOf S.c S.c' = 0), kCf := S.kCf, kFc := S.kFc }

/-- the hypotheses about one layer (and what it needs from its peer) -/
structure SideOk (S : Side) : Prop where
  va     : S.c.valid = true
  va'    : S.c'.valid = true
  listen : S.c.listen = false
  rl     : S.c.rlEnable = false
  wf     : S.a.tx.txWf = true
  wf'    : S.a'.tx.txWf = true
  mir    : S.a.rx = Spec.mirror S.a'.tx
  stmin' : validStmin S.c'.stmin = true
  p1     : 1 ≤ S.p.length
  p32    : S.p.length < 4294967296
  p1'    : 1 ≤ S.p'.length
  p32'   : S.p'.length < 4294967296
  pmax'  : S.p'.length ≤ S.c.maxFrameSize
  sep    : effOf S.c S.c' < S.dt
  kFc1   : 1 ≤ S.kFc
  kCf1   : 1 ≤ S.kCf
  tFc    : S.kFc * S.dt ≤ S.c.tFc
  tCf    : S.kCf * S.dt ≤ S.c.tCf

/-- the Flow Control (ContinueToSend) frame of a layer -/
def fcMsg (c : Cfg) (a : Addr) : CanMsg := (makeFlowControl c a 0).getD default

/-- data field of the Single Frame of `p` -/
def sfData (c : Cfg) (a : Addr) (p : Bytes) : Bytes := (segment (TxCfg.of c a) p).headD []

/-- frame `k` of the message `p` of layer (`c`, `a`) on the wire -/
def dataMsg (c : Cfg) (a : Addr) (p : Bytes) (k : Nat) : CanMsg :=
  if NeedsFF (TxCfg.of c a) p.length then wireA c a p k else wireSf c a (sfData c a p)

/-- the abstract frames of layer (`c`, `a`) with message `p` on the wire -/
def wire (c : Cfg) (a : Addr) (p : Bytes) : Fr → CanMsg
  | .fc => fcMsg c a
  | .dat k => dataMsg c a p k

/-- what the layer emits / finds in its inbox -/
def Side.outMsg (S : Side) (f : Fr) : CanMsg := wire S.c S.a S.p f
def Side.inMsg (S : Side) (f : Fr) : CanMsg := wire S.c' S.a' S.p' f
def Side.inEntry (S : Side) (f : Fr) : Nat × CanMsg := (0, S.inMsg f)

theorem Side.swap_inMsg (S : Side) (i k1 k2 : Nat) : (S.swap i k1 k2).inMsg = S.outMsg := rfl
theorem Side.swap_outMsg (S : Side) (i k1 k2 : Nat) : (S.swap i k1 k2).outMsg = S.inMsg := rfl

/-! ## the representation relation -/

/-- the transmit-side fields of a layer state -/
structure TxV where
  txState    : TxSt
  txQueue    : List Req
  active     : Option Req
  txSeq      : Nat
  txBlockCnt : Nat
  remoteBs   : Option Nat
  timerFc    : Timer
  timerStmin : Timer

def txV (s : State) : TxV :=
  ⟨s.txState, s.txQueue, s.active, s.txSeq, s.txBlockCnt, s.remoteBs, s.timerFc, s.timerStmin⟩

/-- the reception-side fields -/
structure RxV where
  rxState    : RxSt
  rxBuf      : Bytes
  rxFrameLen : Nat
  lastSeq    : Nat
  rxBlockCnt : Nat
  actualRxdl : Option Nat
  timerCf    : Timer
  rxQueue    : List Bytes

def rxV (s : State) : RxV :=
  ⟨s.rxState, s.rxBuf, s.rxFrameLen, s.lastSeq, s.rxBlockCnt, s.actualRxdl, s.timerCf, s.rxQueue⟩

/-- what never changes -/
structure Base (S : Side) (s : State) : Prop where
  cfg     : s.cfg = S.c
  addr    : s.addr = S.a
  standby : s.standby = none
  exc     : s.exc = none
  rl      : s.rl = { enabled := false }

section rep
variable (S : Side)

/-- bytes of the own message carried by the first `k` frames -/
def Side.car (k : Nat) : Nat := carried (TxCfg.of S.c S.a) S.p.length k
/-- … of the peer's message -/
def Side.car' (k : Nat) : Nat := carried (TxCfg.of S.c' S.a') S.p'.length k

def TxRep : TxA → TxV → Prop
  | .I, v => v.txState = .idle ∧ v.txQueue = [reqFor S.c S.id S.p] ∧ v.timerFc = { start := none, timeout := S.c.tFc }
  | .W k r, v => 1 ≤ k ∧ v.txState = .waitFc ∧ v.timerFc = { start := some (r * S.dt), timeout := S.c.tFc } ∧
      v.active = some (reqAt S.c S.id S.p (S.car k)) ∧ S.car k < S.p.length ∧ v.txSeq = k % 16 ∧ v.txQueue = [] ∧
      NeedsFF (TxCfg.of S.c S.a) S.p.length
  | .T k j r, v => 1 ≤ k ∧ v.txState = .transmitCf ∧ v.timerFc = { start := none, timeout := S.c.tFc } ∧
      v.active = some (reqAt S.c S.id S.p (S.car k)) ∧ S.car k < S.p.length ∧ v.txSeq = k % 16 ∧ v.txQueue = [] ∧
      v.remoteBs = some S.c'.blocksize ∧ v.txBlockCnt = j ∧
      v.timerStmin = { start := some (r * S.dt), timeout := effOf S.c S.c' } ∧
      NeedsFF (TxCfg.of S.c S.a) S.p.length
  | .D, v => v.txState = .idle ∧ v.txQueue = [] ∧ v.timerFc = { start := none, timeout := S.c.tFc } ∧ v.active = none

def RxRep : RxA → RxV → Prop
  | .I, v => v.rxState = .idle ∧ v.rxQueue = [] ∧ v.timerCf = { start := none, timeout := S.c.tCf }
  | .S i t, v => v.rxState = .waitCf ∧ v.rxFrameLen = S.p'.length ∧ v.rxBuf = S.p'.take (S.car' (i + 1)) ∧
      S.car' (i + 1) < S.p'.length ∧ v.lastSeq = i % 16 ∧ v.rxBlockCnt = i ∧ v.actualRxdl = some S.c'.txDl ∧
      v.rxQueue = [] ∧ v.timerCf = { start := t.map (· * S.dt), timeout := S.c.tCf } ∧
      NeedsFF (TxCfg.of S.c' S.a') S.p'.length
  | .D, v => v.rxState = .idle ∧ v.rxQueue = [S.p'] ∧ v.timerCf = { start := none, timeout := S.c.tCf }

/-- the concrete layer state `s` is in abstract state `al` in round `R` -/
structure Rep (R : Nat) (al : AL) (s : State) : Prop where
  base  : Base S s
  tx    : TxRep S al.tx (txV s)
  rx    : RxRep S al.rx (rxV s)
  fc    : s.lastFc = if al.fc then some ⟨0, S.c'.blocksize, S.c'.stmin⟩ else none
  pend  : s.pendingFc = al.pend
  pstat : al.pend = true → s.pendingFcStatus = some 0
  inbox : s.inbox = al.inbox.map S.inEntry
  now   : s.now = R * S.dt
  out   : txsOf s.log = al.out.map S.outMsg
  noerr : NoErr s.log
  done  : al.done = true → Ev.done S.id true ∈ s.log

end rep

/-! ## facts about the frames on the wire -/

section frames
variable (S : Side)

theorem SideOk.dt_pos {S : Side} (hS : SideOk S) : 1 ≤ S.dt := by have := hS.sep; omega

theorem SideOk.tFc0 {S : Side} (hS : SideOk S) : S.c.tFc ≠ 0 := by
  have h1 := hS.tFc; have h2 := hS.dt_pos; have h3 := hS.kFc1
  have : 1 * 1 ≤ S.kFc * S.dt := Nat.mul_le_mul h3 h2
  omega

theorem SideOk.tCf0 {S : Side} (hS : SideOk S) : S.c.tCf ≠ 0 := by
  have h1 := hS.tCf; have h2 := hS.dt_pos; have h3 := hS.kCf1
  have : 1 * 1 ≤ S.kCf * S.dt := Nat.mul_le_mul h3 h2
  omega

/-- the peer's ContinueToSend: it can be built, passes my address filter and decodes to (0, blocksize, stmin) of the
    peer -/
theorem fc_facts' (hS : SideOk S) : FcFacts S.c' S.a S.a' (fcMsg S.c' S.a') := by
  obtain ⟨dlc, h⟩ := Rx.makeFlowControl_eq S.c' S.a' 0 hS.va'
  obtain ⟨hst, hbs⟩ := valid_bounds S.c' hS.va'
  have hfm : fcMsg S.c' S.a' =
      { id := S.a'.tx.txId Tat.physical, ext := S.a'.tx.mode.is29,
        data := padFrame (TxCfg.of S.c' S.a') (S.a'.tx.txPrefix ++ fcData 0 S.c'.blocksize S.c'.stmin), dlc := dlc,
        fd := S.c'.canFd, brs := S.c'.brs } := by unfold fcMsg; rw [h]; rfl
  rw [hfm]
  refine ⟨h, ?_, ?_⟩
  · rw [hS.mir]
    refine C09.mirror_accepts S.a'.tx .physical _
      (fcData 0 S.c'.blocksize S.c'.stmin ++ List.replicate
        (padTarget (TxCfg.of S.c' S.a') (S.a'.tx.txPrefix ++ fcData 0 S.c'.blocksize S.c'.stmin).length -
          (S.a'.tx.txPrefix ++ fcData 0 S.c'.blocksize S.c'.stmin).length) (Spec.padByte (TxCfg.of S.c' S.a'))) hS.wf' rfl rfl ?_
    show padFrame _ _ = _
    rw [Seg.padFrame_eq, List.append_assoc]
  · have hpre : S.a.rx.rxPrefixSize = S.a'.tx.txPrefix.length := by rw [hS.mir, Compose.mirror_rxPrefixSize]
    have hv : validStmin (S.c'.stmin % 256) = true := by rw [Nat.mod_eq_of_lt (by omega)]; exact hS.stmin'
    have hd := Rx.decode_fc S.a'.tx.txPrefix (List.replicate
      (padTarget (TxCfg.of S.c' S.a') (S.a'.tx.txPrefix ++ fcData 0 S.c'.blocksize S.c'.stmin).length -
        (S.a'.tx.txPrefix ++ fcData 0 S.c'.blocksize S.c'.stmin).length) (Spec.padByte (TxCfg.of S.c' S.a')))
      0 S.c'.blocksize S.c'.stmin (by omega) hv
    rw [Nat.mod_eq_of_lt (by omega : S.c'.blocksize < 256), Nat.mod_eq_of_lt (by omega : S.c'.stmin < 256)] at hd
    rw [hpre]
    exact ⟨_, _, hd⟩

/-- my own ContinueToSend can be built -/
theorem own_fc_made (hS : SideOk S) : makeFlowControl S.c S.a 0 = some (fcMsg S.c S.a) := by
  obtain ⟨dlc, h⟩ := Rx.makeFlowControl_eq S.c S.a 0 hS.va
  unfold fcMsg; rw [h]; rfl

theorem needsFF_iff (c : Cfg) (a : Addr) (p : Bytes) (hv : c.valid = true) :
    NeedsFF (TxCfg.of c a) p.length ↔ nFrames (TxCfg.of c a) p ≠ 1 := by
  constructor
  · intro h; have := two_le_nFrames _ (valid_of c a hv) p h; omega
  · intro h
    by_cases hff : NeedsFF (TxCfg.of c a) p.length
    · exact hff
    · exact absurd (nFrames_sf c a p hff) h

theorem sf_segment (c : Cfg) (a : Addr) (p : Bytes) (hsf : ¬ NeedsFF (TxCfg.of c a) p.length) :
    segment (TxCfg.of c a) p = [sfData c a p] := by
  unfold sfData
  rcases not_ff_cases _ _ hsf with h | h
  · rw [segment_sfShort _ p h]; rfl
  · rw [segment_sfEscape _ p h]; rfl

/-- every frame of the peer's message passes my address filter -/
theorem inMsg_forMe (hS : SideOk S) (f : Fr) : S.a.rx.isForMe (S.inMsg f) = true := by
  cases f with
  | fc => exact (fc_facts' S hS).me
  | dat k =>
    show S.a.rx.isForMe (dataMsg S.c' S.a' S.p' k) = true
    unfold dataMsg
    rw [hS.mir]
    split
    · exact wireA_accepted S.c' S.a' S.p' k hS.wf'
    · next hsf => exact wireSf_accepted S.c' S.a' S.p' _ (sf_segment S.c' S.a' S.p' hsf) hS.wf'

end frames

/-! ## timers -/

theorem round_le (R t k dt T : Nat) (h1 : R - t ≤ k) (h2 : k * dt ≤ T) : R * dt ≤ t * dt + T := by
  have h3 : (R - t) * dt ≤ k * dt := Nat.mul_le_mul_right dt h1
  have h4 : R * dt ≤ (t + (R - t)) * dt := Nat.mul_le_mul_right dt (by omega)
  rw [Nat.add_mul] at h4
  omega

section micro
variable {S : Side} {R : Nat} {al : AL} {s : State}

/-- the N_Cr timer does not fire in a round in which the abstract machine says so -/
theorem timerCf_ok (hS : SideOk S) (h : Rep S R al s) (hc : cfOk S.par R al.rx = true) :
    s.timerCf.timedOut s.now = false := by
  have hrx := h.rx
  cases hr : al.rx with
  | I => rw [hr] at hrx; have : s.timerCf = _ := hrx.2.2; rw [this]; rfl
  | D => rw [hr] at hrx; have : s.timerCf = _ := hrx.2.2; rw [this]; rfl
  | S i t =>
    rw [hr] at hrx hc
    have ht : s.timerCf = _ := hrx.2.2.2.2.2.2.2.2.1
    rw [ht, h.now]
    cases t with
    | none => rfl
    | some t =>
      exact timedOut_running _ _ _ (round_le R t S.kCf S.dt _ (by simpa [cfOk, Side.par] using hc) hS.tCf) hS.tCf0

/-- what the rx loop does before `_process_rx`: the frame is taken from the inbox and logged -/
theorem arrived_eq (hS : SideOk S) (h : Rep S R al s) (hc : cfOk S.par R al.rx = true) (m : CanMsg)
    (rest : List (Nat × CanMsg)) :
    arrived s 0 m rest = { s with inbox := rest, log := .rx s.now m :: s.log } := by
  unfold arrived
  have h1 : s.timerCf.timedOut s.now = false := timerCf_ok hS h hc
  exact checkTimeoutsRx_noop _ h1

theorem Rep.arrive (h : Rep S R al s) (m : CanMsg) (rest : List Fr) :
    Rep S R { al with inbox := rest } { s with inbox := rest.map S.inEntry, log := .rx s.now m :: s.log } :=
  ⟨⟨h.base.cfg, h.base.addr, h.base.standby, h.base.exc, h.base.rl⟩, h.tx, h.rx, h.fc, h.pend, h.pstat, rfl, h.now,
    by show txsOf (.rx s.now m :: s.log) = _; rw [txsOf_rx]; exact h.out,
    NoErr_cons h.noerr (by intro t e h; cases h), fun hd => List.mem_cons_of_mem _ (h.done hd)⟩

theorem Rep.td (h : Rep S R al s) : s.txTimeDriven = timeDriven al.tx := by
  have htx := h.tx
  unfold txTimeDriven
  cases ht : al.tx with
  | I => rw [ht] at htx; have : s.txState = .idle := htx.1; simp [this, timeDriven]
  | D => rw [ht] at htx; have : s.txState = .idle := htx.1; simp [this, timeDriven]
  | W k r => rw [ht] at htx; have : s.txState = .waitFc := htx.2.1; simp [this, timeDriven]
  | T k j r => rw [ht] at htx; have : s.txState = .transmitCf := htx.2.1; simp [this, timeDriven]

end micro

/-! ## `_process_rx`, case by case -/

section rx
variable {S : Side} {R : Nat} {al : AL} {s : State}

theorem Rep.base' (h : Rep S R al s) (s' : State) (h1 : s'.cfg = s.cfg) (h2 : s'.addr = s.addr)
    (h3 : s'.standby = s.standby) (h4 : s'.exc = s.exc) (h5 : s'.rl = s.rl) : Base S s' :=
  ⟨h1.trans h.base.cfg, h2.trans h.base.addr, h3.trans h.base.standby, h4.trans h.base.exc, h5.trans h.base.rl⟩

theorem prefix_eq (hS : SideOk S) (h : Rep S R al s) : S.a'.tx.txPrefix.length = s.addr.rx.rxPrefixSize := by
  rw [h.base.addr, hS.mir, Compose.mirror_rxPrefixSize]

/-- the peer's ContinueToSend lands in the mailbox -/
theorem rx_fc (hS : SideOk S) (h : Rep S R al s) :
    ∃ s', s.processRx (S.inMsg .fc) = (s', true, false) ∧ Rep S R { al with fc := true } s' := by
  obtain ⟨cdl, rdl, hdec⟩ := (fc_facts' S hS).dec
  have hd : decode (S.inMsg .fc).data s.addr.rx.rxPrefixSize = some ⟨.fc 0 S.c'.blocksize S.c'.stmin, cdl, rdl⟩ := by
    rw [h.base.addr]; exact hdec
  refine ⟨_, Rx.processRx_fc_eq s _ 0 _ _ cdl rdl hd, ?_⟩
  exact ⟨h.base' _ rfl rfl rfl rfl rfl, h.tx, h.rx, rfl, h.pend, h.pstat, h.inbox, h.now, h.out, h.noerr, h.done⟩

/-- the peer's Single Frame: the payload is delivered -/
theorem rx_sf (hS : SideOk S) (h : Rep S R al s) (hrx : al.rx = .I) (hp : al.pend = false)
    (hn : S.par.n' = 1) :
    ∃ s', s.processRx (S.inMsg (.dat 0)) = (s', false, true) ∧ Rep S R { al with rx := .D } s' := by
  have hsf : ¬ NeedsFF (TxCfg.of S.c' S.a') S.p'.length := fun hff =>
    (needsFF_iff S.c' S.a' S.p' hS.va').mp hff hn
  have hseg := sf_segment S.c' S.a' S.p' hsf
  obtain ⟨esc, cdl, rdl, hdec, h8⟩ := sf_decodes S.c' S.a' S.p' hS.va' hS.p1' hsf _ hseg
  have hm : S.inMsg (.dat 0) = wireSf S.c' S.a' (sfData S.c' S.a' S.p') := by
    show dataMsg S.c' S.a' S.p' 0 = _
    unfold dataMsg; rw [if_neg hsf]
  have hd : decode (S.inMsg (.dat 0)).data s.addr.rx.rxPrefixSize = some ⟨.sf S.p'.length S.p' esc, cdl, rdl⟩ := by
    rw [hm, ← prefix_eq hS h]; exact hdec
  have hr := h.rx
  rw [hrx] at hr
  obtain ⟨hst, hq, htm⟩ := hr
  have hst' : s.rxState = .idle := hst
  have hq' : s.rxQueue = [] := hq
  have htm' : s.timerCf = { start := none, timeout := S.c.tCf } := htm
  have hpf : s.pendingFc = false := h.pend.trans hp
  refine ⟨_, by rw [Rx.processRx_sf_idle_eq s _ _ _ esc cdl rdl hd h8 hst', hpf], ?_⟩
  refine ⟨h.base' _ rfl rfl rfl rfl rfl, h.tx, ?_, h.fc, hp.symm, h.pstat, h.inbox, h.now, ?_, ?_, ?_⟩
  · show RxRep S .D _
    refine ⟨hst, ?_, ?_⟩
    · show s.rxQueue ++ [S.p'] = [S.p']; rw [hq']; rfl
    · show s.timerCf.stop = _; rw [htm']; rfl
  · show txsOf (.deliver S.p' :: s.log) = _; rw [txsOf_deliver]; exact h.out
  · exact NoErr_cons h.noerr (by intro t e h; cases h)
  · intro hd; exact List.mem_cons_of_mem _ (h.done hd)

/-- the peer's First Frame: the session is opened, a ContinueToSend is requested -/
theorem rx_ff (hS : SideOk S) (h : Rep S R al s) (hrx : al.rx = .I) (hn : S.par.n' ≠ 1) :
    ∃ s', s.processRx (S.inMsg (.dat 0)) = (s', true, false) ∧
      Rep S R { al with rx := .S 0 (some R), pend := true } s' := by
  have hff : NeedsFF (TxCfg.of S.c' S.a') S.p'.length := (needsFF_iff S.c' S.a' S.p' hS.va').mpr hn
  have hvt := valid_of S.c' S.a' hS.va'
  have hm : S.inMsg (.dat 0) = wireA S.c' S.a' S.p' 0 := by
    show dataMsg S.c' S.a' S.p' 0 = _
    unfold dataMsg; rw [if_pos hff]
  have hr := h.rx
  rw [hrx] at hr
  obtain ⟨hst, hq, htm⟩ := hr
  have hst' : s.rxState = .idle := hst
  have hstep := Rx.ff_step_eq s (S.inMsg (.dat 0)) S.c'.txDl S.a'.tx.txPrefix S.p' (prefix_eq hS h) hvt.txDl hS.p32'
    (show ffRoom (Spec.streamCfg S.c'.txDl S.a'.tx.txPrefix) S.p'.length < S.p'.length from
      ffRoom_lt (TxCfg.of S.c' S.a') _ hff hvt)
    (by rw [h.base.cfg]; exact hS.pmax') (by rw [hm]; exact ffData_eq S.c' S.a' S.p' hS.va' hff)
  rw [if_pos hst'] at hstep
  refine ⟨_, hstep, ?_⟩
  refine ⟨h.base' _ rfl rfl rfl rfl rfl, h.tx, ?_, h.fc, rfl, fun _ => rfl, h.inbox, h.now, h.out, h.noerr, h.done⟩
  show RxRep S (.S 0 (some R)) _
  refine ⟨rfl, rfl, ?_, carried_one_lt _ _ hvt hff, rfl, rfl, rfl, hq, ?_, hff⟩
  · show S.p'.take _ = S.p'.take (S.car' 1)
    unfold Side.car'; rw [carried_one _ _ hvt hff]; rfl
  · show ({ start := some s.now, timeout := s.cfg.tCf } : Timer) = _
    rw [h.now, h.base.cfg]; rfl

/-- the reception session of the representation, in the vocabulary of Proofs/Rx.lean -/
theorem Rep.session (hS : SideOk S) (h : Rep S R al s) {i : Nat} {t : Option Nat} (hrx : al.rx = .S i t) :
    Rx.RxSession (TxCfg.of S.c' S.a') s S.p' i ∧ NeedsFF (TxCfg.of S.c' S.a') S.p'.length ∧
      S.car' (i + 1) < S.p'.length ∧ s.rxQueue = [] ∧ (i + 1 < S.par.n') := by
  have hr := h.rx
  rw [hrx] at hr
  obtain ⟨h1, h2, h3, h4, h5, h6, h7, h8, -, hff⟩ := hr
  have hvt := valid_of S.c' S.a' hS.va'
  have hc := carried_eq (TxCfg.of S.c' S.a') S.p'.length (i + 1) (by omega) h4
  simp only [Nat.add_sub_cancel] at hc
  refine ⟨⟨h1, h2, ?_, ?_, h5, h6, h7⟩, hff, h4, h8, ?_⟩
  · rw [← hc]; exact h3
  · rw [← hc]; exact h4
  · exact (lt_nFrames_iff _ hvt S.p' hff (i + 1) (by omega)).mpr h4

theorem inMsg_cf (hff : NeedsFF (TxCfg.of S.c' S.a') S.p'.length) (i : Nat) :
    (S.inMsg (.dat (i + 1))).data = cfData (TxCfg.of S.c' S.a') S.p' (i + 1) := by
  show (dataMsg S.c' S.a' S.p' (i + 1)).data = _
  unfold dataMsg; rw [if_pos hff]
  show frameData (TxCfg.of S.c' S.a') S.p' (i + 1) = _
  simp only [frameData, Nat.add_one_ne_zero, if_false]

/-- the peer's last Consecutive Frame: the payload is delivered -/
theorem rx_last (hS : SideOk S) (h : Rep S R al s) {i : Nat} {t : Option Nat} (hrx : al.rx = .S i t)
    (hp : al.pend = false) (hf : al.fc = false) (hn : i + 2 = S.par.n') :
    ∃ s', s.processRx (S.inMsg (.dat (i + 1))) = (s', false, true) ∧ Rep S R { al with rx := .D } s' := by
  obtain ⟨hs, hff, hmore, hq, -⟩ := h.session hS hrx
  have hvt := valid_of S.c' S.a' hS.va'
  have hlast : carried (TxCfg.of S.c' S.a') S.p'.length (i + 1 + 1) = S.p'.length :=
    (last_iff _ hvt S.p' hff (i + 1) (by omega) hmore).mpr hn
  obtain ⟨pad, hm⟩ := cfData_last S.c' S.a' S.p' (i + 1) (by omega) hmore hlast
  simp only [Nat.add_sub_cancel] at hm
  have hpre : (TxCfg.of S.c' S.a').pre.length = s.addr.rx.rxPrefixSize := prefix_eq hS h
  refine ⟨_, Rx.last_cf_step_eq (TxCfg.of S.c' S.a') s _ S.p' pad i hs hpre ((inMsg_cf hff i).trans hm), ?_⟩
  refine ⟨h.base' _ rfl rfl rfl rfl rfl, h.tx, ?_, ?_, hp.symm, h.pstat, h.inbox, h.now, ?_, ?_, ?_⟩
  · show RxRep S .D _
    refine ⟨rfl, ?_, ?_⟩
    · show s.rxQueue ++ [S.p'] = [S.p']; rw [hq]; rfl
    · show ({ start := none, timeout := s.cfg.tCf } : Timer) = _; rw [h.base.cfg]
  · show (none : Option FcFrame) = _; rw [hf]; rfl
  · show txsOf (.deliver S.p' :: s.log) = _; rw [txsOf_deliver]; exact h.out
  · exact NoErr_cons h.noerr (by intro t e h; cases h)
  · intro hd; exact List.mem_cons_of_mem _ (h.done hd)

/-- a Consecutive Frame of the peer that does not end the message: the session advances; at the end of a block a
    ContinueToSend is requested and the N_Cr timer stopped -/
theorem rx_cf (hS : SideOk S) (h : Rep S R al s) {i : Nat} {t : Option Nat} (hrx : al.rx = .S i t)
    (hp : al.pend = false) (hn : i + 2 ≠ S.par.n') :
    ∃ s', s.processRx (S.inMsg (.dat (i + 1))) =
        (s', decide (0 < S.par.bs ∧ (i + 1) % S.par.bs = 0), false) ∧
      Rep S R (if 0 < S.par.bs ∧ (i + 1) % S.par.bs = 0 then { al with rx := .S (i + 1) none, pend := true }
               else { al with rx := .S (i + 1) (some R) }) s' := by
  obtain ⟨hs, hff, hmore, hq, hlt⟩ := h.session hS hrx
  have hvt := valid_of S.c' S.a' hS.va'
  have hdl := txDl_fix _ hvt
  have hmore2 : carried (TxCfg.of S.c' S.a') S.p'.length (i + 2) < S.p'.length :=
    (lt_nFrames_iff _ hvt S.p' hff (i + 2) (by omega)).mp (by show i + 2 < S.par.n'; omega)
  have hc := carried_eq (TxCfg.of S.c' S.a') S.p'.length (i + 2) (by omega) hmore2
  simp only [show i + 2 - 1 = i + 1 from rfl] at hc
  have hm := cfData_full S.c' S.a' S.p' hS.va' (i + 1) (by omega) hmore2
  simp only [Nat.add_sub_cancel] at hm
  have hpre : (TxCfg.of S.c' S.a').pre.length = s.addr.rx.rxPrefixSize := prefix_eq hS h
  have hstep := Rx.cf_step_eq (TxCfg.of S.c' S.a') s (S.inMsg (.dat (i + 1))) S.p' i hs hpre
    (by have := hvt.pre; omega) hdl.2.1 (by rw [← hc]; exact hmore2) ((inMsg_cf hff i).trans hm)
  rw [← hc, h.base.cfg] at hstep
  have hpf : s.pendingFc = false := h.pend.trans hp
  by_cases hb : 0 < S.c.blocksize ∧ (i + 1) % S.c.blocksize = 0
  · have hb' : 0 < S.par.bs ∧ (i + 1) % S.par.bs = 0 := hb
    rw [if_pos hb] at hstep
    rw [if_pos hb']
    refine ⟨_, (by rw [decide_eq_true hb']; exact hstep), ?_⟩
    refine ⟨h.base' _ h.base.cfg.symm rfl rfl rfl rfl, h.tx, ?_, h.fc, rfl, fun _ => rfl, h.inbox, h.now, h.out, h.noerr, h.done⟩
    show RxRep S (.S (i + 1) none) _
    exact ⟨hs.state, hs.frameLen, rfl, hmore2, rfl, rfl, hs.rxdl, hq, rfl, hff⟩
  · have hb' : ¬ (0 < S.par.bs ∧ (i + 1) % S.par.bs = 0) := hb
    rw [if_neg hb, hpf] at hstep
    rw [if_neg hb']
    refine ⟨_, (by rw [decide_eq_false hb']; exact hstep), ?_⟩
    refine ⟨h.base' _ h.base.cfg.symm rfl rfl rfl rfl, h.tx, ?_, h.fc, hp.symm, h.pstat, h.inbox, h.now, h.out, h.noerr, h.done⟩
    show RxRep S (.S (i + 1) (some R)) _
    refine ⟨hs.state, hs.frameLen, rfl, hmore2, rfl, rfl, hs.rxdl, hq, ?_, hff⟩
    show ({ start := some s.now, timeout := S.c.tCf } : Timer) = _
    rw [h.now]; rfl

/-- `_process_rx` on a state the abstract machine describes, without the arrival bookkeeping -/
theorem rx_core (hS : SideOk S) (h : Rep S R al s) (it : Fr) (al' : AL) (imm : Bool)
    (ha : absRx S.par R al it = some (al', imm)) :
    ∃ s' fr, s.processRx (S.inMsg it) = (s', imm, fr) ∧ Rep S R al' s' := by
  unfold absRx at ha
  split at ha
  · cases ha
  split at ha
  · cases ha
  next hp =>
  have hp : al.pend = false := by simpa using hp
  split at ha
  · cases ha
  next hf =>
  have hf : al.fc = false := by simpa using hf
  cases it with
  | fc =>
    simp only [Option.some.injEq, Prod.mk.injEq] at ha
    obtain ⟨rfl, rfl⟩ := ha
    obtain ⟨s', h1, h2⟩ := rx_fc hS h
    exact ⟨s', false, h1, h2⟩
  | dat k =>
    simp only [] at ha
    split at ha
    · next hrx =>
      split at ha
      · cases ha
      next hk =>
      have hk : k = 0 := by simpa using hk
      subst hk
      split at ha
      · next hn =>
        simp only [Option.some.injEq, Prod.mk.injEq] at ha
        obtain ⟨rfl, rfl⟩ := ha
        obtain ⟨s', h1, h2⟩ := rx_sf hS h hrx hp hn
        exact ⟨s', true, h1, h2⟩
      · next hn =>
        simp only [Option.some.injEq, Prod.mk.injEq] at ha
        obtain ⟨rfl, rfl⟩ := ha
        obtain ⟨s', h1, h2⟩ := rx_ff hS h hrx hn
        exact ⟨s', false, h1, h2⟩
    · next i t hrx =>
      split at ha
      · cases ha
      next hk =>
      have hk : k = i + 1 := by simpa using hk
      subst hk
      split at ha
      · next hn =>
        simp only [Option.some.injEq, Prod.mk.injEq] at ha
        obtain ⟨rfl, rfl⟩ := ha
        obtain ⟨s', h1, h2⟩ := rx_last hS h hrx hp hf hn
        exact ⟨s', true, h1, h2⟩
      · next hn =>
        obtain ⟨s', h1, h2⟩ := rx_cf hS h hrx hp hn
        split at ha
        · next hb =>
          simp only [Option.some.injEq, Prod.mk.injEq] at ha
          obtain ⟨rfl, rfl⟩ := ha
          rw [if_pos hb] at h2
          rw [decide_eq_true hb] at h1
          exact ⟨s', false, h1, h2⟩
        · next hb =>
          simp only [Option.some.injEq, Prod.mk.injEq] at ha
          obtain ⟨rfl, rfl⟩ := ha
          rw [if_neg hb] at h2
          rw [decide_eq_false hb] at h1
          exact ⟨s', false, h1, h2⟩
    · cases ha

/-- **one `_process_rx` call of the rx loop is one abstract step** -/
theorem rx_sim (hS : SideOk S) (h : Rep S R al s) (it : Fr) (rest : List Fr) (al' : AL) (imm : Bool)
    (ha : absRx S.par R { al with inbox := rest } it = some (al', imm)) :
    ∃ s' fr, (arrived s 0 (S.inMsg it) (rest.map S.inEntry)).processRx (S.inMsg it) = (s', imm, fr) ∧
      Rep S R al' s' := by
  have hc : cfOk S.par R al.rx = true := by
    cases hc' : cfOk S.par R al.rx with
    | true => rfl
    | false =>
      unfold absRx at ha
      simp [hc'] at ha
  rw [arrived_eq hS h hc]
  exact rx_core hS (h.arrive (S.inMsg it) rest) it al' imm ha

end rx

/-! ## `_process_tx`, case by case -/

section tx
variable {S : Side} {R : Nat} {al : AL} {s : State}

theorem allowed_eq (h : Rep S R al s) : Fc.allowedNow s = noLimit := by
  unfold Fc.allowedNow; rw [h.base.rl]; rfl

theorem finish_eq (s : State) (out : Option CanMsg) (imm : Bool) (hexc : s.exc = none)
    (hrl : s.rl = { enabled := false }) : Fc.finish (s, out, imm) = (s, out, imm) := by
  unfold Fc.finish
  have hi : ∀ n d, s.rl.inform n d = s.rl := by intro n d; rw [hrl]; rfl
  have h0 : s.exc.isSome = false := by rw [hexc]; rfl
  cases out with
  | none => simp only [h0, Bool.false_eq_true, if_false]
  | some m => simp only [h0, Bool.false_eq_true, if_false, hi]

theorem Rep.exc0 (h : Rep S R al s) : s.exc.isSome = false := by rw [h.base.exc]; rfl
theorem Rep.inform (h : Rep S R al s) (n d : Nat) : s.rl.inform n d = s.rl := by rw [h.base.rl]; rfl

/-- what the tx loop does with a frame handed out: it is passed to `txfn` (logged) -/
theorem Rep.emitTx (h : Rep S R al s) (f : Fr) :
    Rep S R { al with out := al.out ++ [f] } (s.emit (.tx s.now (S.outMsg f))) :=
  ⟨⟨h.base.cfg, h.base.addr, h.base.standby, h.base.exc, h.base.rl⟩, h.tx, h.rx, h.fc, h.pend, h.pstat, h.inbox, h.now,
    by show txsOf (.tx s.now (S.outMsg f) :: s.log) = _; rw [txsOf_tx, h.out, List.map_append]; rfl,
    NoErr_cons h.noerr (by intro t e h; cases h), fun hd => List.mem_cons_of_mem _ (h.done hd)⟩

/-- a Flow Control requested by the reception side goes out first; the N_Cr timer is restarted -/
theorem tx_pend (hS : SideOk S) (h : Rep S R al s) (hp : al.pend = true) {i : Nat} {t : Option Nat}
    (hrx : al.rx = .S i t) :
    ∃ s', s.processTx = (s', some (S.outMsg .fc), true) ∧ s'.exc = none ∧
      Rep S R { al with pend := false, rx := .S i (some R) } s' := by
  have hm : makeFlowControl s.cfg s.addr 0 = some (fcMsg S.c S.a) := by
    rw [h.base.cfg, h.base.addr]; exact own_fc_made S hS
  have hstep := Rx.processTx_sends_fc s 0 (fcMsg S.c S.a) (h.pend.trans hp) (h.pstat hp)
    (by rw [h.base.cfg]; exact hS.listen) hm
  simp only [if_true] at hstep
  refine ⟨_, hstep, h.base.exc, ?_⟩
  have hr := h.rx
  rw [hrx] at hr
  obtain ⟨h1, h2, h3, h4, h5, h6, h7, h8, -, hff⟩ := hr
  refine ⟨h.base' _ rfl rfl rfl rfl rfl, h.tx, ?_, h.fc, rfl, (fun h => by cases h), h.inbox, h.now, h.out, h.noerr, h.done⟩
  show RxRep S (.S i (some R)) _
  refine ⟨h1, h2, h3, h4, h5, h6, h7, h8, ?_, hff⟩
  show ({ start := some s.now, timeout := s.cfg.tCf } : Timer) = _
  rw [h.now, h.base.cfg]; rfl

/-- IDLE, empty queue: nothing happens -/
theorem tx_D (h : Rep S R al s) (htx : al.tx = .D) (hp : al.pend = false) (hf : al.fc = false) :
    s.processTx = (s, none, false) := by
  have ht := h.tx
  rw [htx] at ht
  obtain ⟨h1, h2, h3, -⟩ := ht
  have h3' : s.timerFc = _ := h3
  exact processTx_idle_gen s h1 h2 (by rw [h.fc, hf]; rfl) (h.pend.trans hp) (by rw [h3']) h.base.exc

theorem fc_not_timedOut (hS : SideOk S) (h : Rep S R al s) {r : Nat} (hr : R - r ≤ S.kFc)
    (ht : s.timerFc = { start := some (r * S.dt), timeout := S.c.tFc }) : s.timerFc.timedOut s.now = false := by
  rw [ht, h.now]
  exact timedOut_running _ _ _ (round_le R r S.kFc S.dt _ hr hS.tFc) hS.tFc0

/-- WAIT_FC, nothing in the mailbox, N_Bs not expired: nothing happens -/
theorem tx_W (hS : SideOk S) (h : Rep S R al s) {k r : Nat} (htx : al.tx = .W k r) (hp : al.pend = false)
    (hf : al.fc = false) (hr : R - r ≤ S.kFc) : s.processTx = (s, none, false) := by
  have ht := h.tx
  rw [htx] at ht
  obtain ⟨h1, h2, h3, h4, h5, -⟩ := ht
  exact Fc.processTx_waitFc_quiet s _ h2 (h.pend.trans hp) (by rw [h.fc, hf]; rfl)
    (fc_not_timedOut hS h hr h3) h4 (reqAt_depleted S.c S.id S.p _ h5)

theorem outMsg_ff (hff : NeedsFF (TxCfg.of S.c S.a) S.p.length) (k : Nat) : S.outMsg (.dat k) = wireA S.c S.a S.p k := by
  show dataMsg S.c S.a S.p k = _
  unfold dataMsg; rw [if_pos hff]

/-- IDLE with the request at the head of the queue (segmented message): the First Frame goes out -/
theorem tx_first (hS : SideOk S) (h : Rep S R al s) (htx : al.tx = .I) (hp : al.pend = false) (hf : al.fc = false)
    (hn : S.par.n ≠ 1) :
    ∃ s', s.processTx = (s', some (S.outMsg (.dat 0)), false) ∧ s'.exc = none ∧
      Rep S R { al with tx := .W 1 R } s' := by
  have hff : NeedsFF (TxCfg.of S.c S.a) S.p.length := (needsFF_iff S.c S.a S.p hS.va).mpr hn
  have hvt := valid_of S.c S.a hS.va
  have hfr := reqFor_fresh S.c S.id S.p
  have hlt := ffRoom_lt _ _ hff hvt
  have ht := h.tx
  rw [htx] at ht
  obtain ⟨h1, h2, h3⟩ := ht
  have h3' : s.timerFc = _ := h3
  have hcfg := h.base.cfg
  have haddr := h.base.addr
  have e1 := Fc.processTx_next_message s (reqFor S.c S.id S.p) [] h1 (h.pend.trans hp) (by rw [h.fc, hf]; rfl)
    (by rw [h3']) h2 (hfr.not_depleted (by have := hS.p1; omega))
  rw [allowed_eq h] at e1
  have e2 := startTx_ff_exact ({ s with txQueue := [], active := some (reqFor S.c S.id S.p) } : State)
    (reqFor S.c S.id S.p) noLimit S.p (by show s.cfg.valid = true; rw [hcfg]; exact hS.va) hfr.1 hfr.2 hS.p32
    (by show NeedsFF (TxCfg.of s.cfg s.addr) _; rw [hcfg, haddr]; exact hff)
    (by show ffRoom (TxCfg.of s.cfg s.addr) _ ≤ _; rw [hcfg, haddr]; simp [reqFor]; exact Nat.le_of_lt hlt)
    (by show s.cfg.txDl ≤ noLimit; rw [hcfg]; exact (txDl_le_noLimit S.c S.a hS.va).1)
  have hpl : ∀ n, pullLog (reqFor S.c S.id S.p) n = [] := by intro n; simp [pullLog, reqFor]
  rw [e2] at e1
  simp only [hpl, List.nil_append] at e1
  unfold Fc.finish at e1
  simp only [h.exc0, h.inform, Bool.false_eq_true, if_false] at e1
  simp only [hcfg, haddr] at e1
  rw [outMsg_ff hff 0]
  refine ⟨_, e1, h.base.exc, ?_⟩
  refine ⟨⟨rfl, rfl, h.base.standby, h.base.exc, h.base.rl⟩, ?_, h.rx, h.fc, h.pend, h.pstat, h.inbox, h.now,
    h.out, h.noerr, h.done⟩
  show TxRep S (.W 1 R) _
  refine ⟨Nat.le_refl 1, rfl, ?_, ?_, carried_one_lt _ _ hvt hff, rfl, rfl, hff⟩
  · show ({ start := some s.now, timeout := S.c.tFc } : Timer) = _
    rw [h.now]
  · show some (Req.adv (reqFor S.c S.id S.p) _) = some (reqAt S.c S.id S.p (S.car 1))
    unfold Side.car; rw [carried_one _ _ hvt hff]; rfl

theorem outMsg_sf (hsf : ¬ NeedsFF (TxCfg.of S.c S.a) S.p.length) :
    S.outMsg (.dat 0) = wireSf S.c S.a (sfData S.c S.a S.p) := by
  show dataMsg S.c S.a S.p 0 = _
  unfold dataMsg; rw [if_neg hsf]

/-- IDLE with a Single Frame request at the head of the queue: the frame goes out, the request completes -/
theorem tx_sf (hS : SideOk S) (h : Rep S R al s) (htx : al.tx = .I) (hp : al.pend = false) (hf : al.fc = false)
    (hn : S.par.n = 1) :
    ∃ s', s.processTx = (s', some (S.outMsg (.dat 0)), false) ∧ s'.exc = none ∧
      Rep S R { al with tx := .D, done := true } s' := by
  have hsf : ¬ NeedsFF (TxCfg.of S.c S.a) S.p.length := fun hff => (needsFF_iff S.c S.a S.p hS.va).mp hff hn
  have hfr := reqFor_fresh S.c S.id S.p
  have ht := h.tx
  rw [htx] at ht
  obtain ⟨h1, h2, h3⟩ := ht
  have h3' : s.timerFc = _ := h3
  have hcfg := h.base.cfg
  have haddr := h.base.addr
  have e1 := Fc.processTx_next_message s (reqFor S.c S.id S.p) [] h1 (h.pend.trans hp) (by rw [h.fc, hf]; rfl)
    (by rw [h3']) h2 (hfr.not_depleted (by have := hS.p1; omega))
  rw [allowed_eq h] at e1
  obtain ⟨d0, hseg, e2⟩ := startTx_sf_exact ({ s with txQueue := [], active := some (reqFor S.c S.id S.p) } : State)
    (reqFor S.c S.id S.p) noLimit S.p (by show s.cfg.valid = true; rw [hcfg]; exact hS.va) hfr.1 hfr.2 hS.p1
    (by simp [reqFor])
    (by show sfShort (TxCfg.of s.cfg s.addr) _ ∨ sfEscape (TxCfg.of s.cfg s.addr) _
        rw [hcfg, haddr]; exact not_ff_cases _ _ hsf)
    (by show s.cfg.txDl ≤ noLimit; rw [hcfg]; exact (txDl_le_noLimit S.c S.a hS.va).1)
  have hd0 : d0 = sfData S.c S.a S.p := by
    have : segment (TxCfg.of s.cfg s.addr) S.p = [d0] := hseg
    rw [hcfg, haddr, sf_segment S.c S.a S.p hsf] at this
    simpa using this.symm
  have hpl : ∀ n, pullLog (reqFor S.c S.id S.p) n = [] := by intro n; simp [pullLog, reqFor]
  rw [e2] at e1
  simp only [hpl, List.nil_append, stopSending, emit, Timer.stop] at e1
  unfold Fc.finish at e1
  simp only [h.exc0, h.inform, Bool.false_eq_true, if_false] at e1
  simp only [hcfg, haddr, hd0] at e1
  rw [outMsg_sf hsf]
  refine ⟨_, e1, h.base.exc, ?_⟩
  refine ⟨⟨rfl, rfl, rfl, h.base.exc, h.base.rl⟩, ?_, h.rx, h.fc, h.pend, h.pstat, h.inbox, h.now, ?_, ?_, ?_⟩
  · show TxRep S .D _
    refine ⟨rfl, rfl, ?_, rfl⟩
    show ({ start := none, timeout := s.timerFc.timeout } : Timer) = _
    rw [h3']
  · show txsOf (.done _ true :: s.log) = _; rw [txsOf_done]; exact h.out
  · exact NoErr_cons h.noerr (by intro t e h; cases h)
  · intro _; exact List.mem_cons_self

/-- WAIT_FC with the peer's ContinueToSend in the mailbox (N_Bs not expired): the pass goes on as a TRANSMIT_CF pass
    with the announced block size and separation time in force, the STmin timer started now -/
theorem tx_fc (hS : SideOk S) (h : Rep S R al s) {k r : Nat} (htx : al.tx = .W k r) (hp : al.pend = false)
    (hf : al.fc = true) (hr : R - r ≤ S.kFc) :
    ∃ s2, s.processTx = s2.processTx ∧ Rep S R { al with fc := false, tx := .T k 0 R } s2 := by
  have ht := h.tx
  rw [htx] at ht
  obtain ⟨h1, h2, h3, h4, h5, h6, h7, hff⟩ := ht
  have hst : s.txState = .waitFc := h2
  have hlf : s.lastFc = some ⟨0, S.c'.blocksize, S.c'.stmin⟩ := by rw [h.fc, hf]; rfl
  have hto : s.timerFc.timedOut s.now = false := fc_not_timedOut hS h hr h3
  have hcts : Fc.ctsHonoured ({ s with lastFc := none } : State) ⟨0, S.c'.blocksize, S.c'.stmin⟩ = true := by
    have : ({ s with lastFc := none } : State).timerFc.timedOut ({ s with lastFc := none } : State).now = false := hto
    simp only [Fc.ctsHonoured, this]
    simp [hst]
  have e1 : Fc.afterFc s = (({ s with lastFc := none } : State).handleFc ⟨0, S.c'.blocksize, S.c'.stmin⟩, false) := by
    unfold Fc.afterFc
    simp only [hlf]
    rfl
  have e2 : ({ s with lastFc := none } : State).handleFc ⟨0, S.c'.blocksize, S.c'.stmin⟩ =
      { s with lastFc := none, wftCnt := 0, timerFc := s.timerFc.stop, remoteBs := some S.c'.blocksize,
               txState := .transmitCf, txBlockCnt := 0,
               timerStmin := { start := some s.now,
                               timeout := Fc.sepOf s.cfg ⟨0, S.c'.blocksize, S.c'.stmin⟩ } } := by
    rw [Fc.handleFc_cts _ _ hcts]
    simp [hst]
  have e3 : (Fc.afterFc s).2 = false := by rw [e1]
  have e4 := Fc.processTx_continue s (h.pend.trans hp) e3
  rw [e1] at e4
  simp only [] at e4
  rw [e2, Fc.afterTimeout_of_not_timedOut (by rfl)] at e4
  refine ⟨_, e4, ?_⟩
  refine ⟨h.base' _ rfl rfl rfl rfl rfl, ?_, h.rx, rfl, h.pend, h.pstat, h.inbox, h.now, h.out, h.noerr, h.done⟩
  show TxRep S (.T k 0 R) _
  have h3' : s.timerFc = _ := h3
  refine ⟨h1, rfl, ?_, h4, h5, h6, h7, rfl, rfl, ?_, hff⟩
  · show s.timerFc.stop = _; rw [h3']; rfl
  · show ({ start := some s.now, timeout := Fc.sepOf s.cfg ⟨0, S.c'.blocksize, S.c'.stmin⟩ } : Timer) = _
    rw [h.now, h.base.cfg]; rfl

theorem stmin_timedOut (hS : SideOk S) (h : Rep S R al s) {r : Nat}
    (hts : s.timerStmin = { start := some (r * S.dt), timeout := effOf S.c S.c' }) :
    s.timerStmin.timedOut s.now = (S.par.z || decide (r < R)) := by
  rw [hts, h.now]
  have hsep := hS.sep
  show (decide (R * S.dt - r * S.dt > effOf S.c S.c') || (effOf S.c S.c' == 0)) = (decide (effOf S.c S.c' = 0) || decide (r < R))
  by_cases hlt : r < R
  · have h1 : 1 * S.dt ≤ (R - r) * S.dt := Nat.mul_le_mul_right _ (by omega)
    rw [Nat.sub_mul] at h1
    have : R * S.dt - r * S.dt > effOf S.c S.c' := by omega
    simp [this, hlt]
  · have h1 : R * S.dt ≤ r * S.dt := Nat.mul_le_mul_right _ (by omega)
    have : ¬ (R * S.dt - r * S.dt > effOf S.c S.c') := by omega
    simp only [this, hlt, decide_false, Bool.false_or, Bool.or_false]
    by_cases h0 : effOf S.c S.c' = 0 <;> simp [h0]

/-- TRANSMIT_CF while the separation time has not elapsed: nothing happens -/
theorem tx_T_wait (hS : SideOk S) (h : Rep S R al s) {k j r : Nat} (htx : al.tx = .T k j r) (hp : al.pend = false)
    (hf : al.fc = false) (hel : (S.par.z || decide (r < R)) = false) : s.processTx = (s, none, false) := by
  have ht := h.tx
  rw [htx] at ht
  obtain ⟨h1, h2, h3, h4, h5, h6, h7, h8, h9, h10, hff⟩ := ht
  have h3' : s.timerFc = _ := h3
  have e1 : s.processTx = Fc.finish (s.transmitCf (Fc.allowedNow s)) :=
    Fc.processTx_cf_pass s _ h2 (h.pend.trans hp) (by rw [h.fc, hf]; rfl) (by rw [h3']) h4
      (reqAt_depleted S.c S.id S.p _ h5)
  have hto : s.timerStmin.timedOut s.now = false := by rw [stmin_timedOut hS h h10]; exact hel
  have e2 : s.transmitCf (Fc.allowedNow s) = (s, none, false) := by
    have ha : s.active = _ := h4
    have hb : s.remoteBs = _ := h8
    unfold transmitCf
    rw [hb, ha]
    simp only [hto, Bool.false_eq_true, if_false]
  rw [e1, e2, finish_eq _ _ _ h.base.exc h.base.rl]

/-- what `transmitCf` does once the separation time has elapsed: frame `k` goes out -/
theorem tx_T_core (hS : SideOk S) (h : Rep S R al s) {k j r : Nat} (htx : al.tx = .T k j r) (hp : al.pend = false)
    (hf : al.fc = false) (hel : (S.par.z || decide (r < R)) = true) :
    1 ≤ k ∧ S.car k < S.p.length ∧ NeedsFF (TxCfg.of S.c S.a) S.p.length ∧
    s.processTx = Fc.finish (
      if S.car (k + 1) = S.p.length then
        (({ s with active := some (reqAt S.c S.id S.p (S.car (k + 1))), txSeq := (k + 1) % 16, txBlockCnt := j + 1,
                   timerStmin := { start := some s.now, timeout := effOf S.c S.c' } } : State).stopSending true,
          some (S.outMsg (.dat k)), false)
      else if S.c'.blocksize ≠ 0 ∧ j + 1 ≥ S.c'.blocksize then
        ({ s with active := some (reqAt S.c S.id S.p (S.car (k + 1))), txSeq := (k + 1) % 16, txBlockCnt := j + 1,
                  timerStmin := { start := some s.now, timeout := effOf S.c S.c' },
                  txState := .waitFc, timerFc := { start := some s.now, timeout := S.c.tFc } },
          some (S.outMsg (.dat k)), true)
      else
        ({ s with active := some (reqAt S.c S.id S.p (S.car (k + 1))), txSeq := (k + 1) % 16, txBlockCnt := j + 1,
                  timerStmin := { start := some s.now, timeout := effOf S.c S.c' } },
          some (S.outMsg (.dat k)), false)) := by
  have ht := h.tx
  rw [htx] at ht
  obtain ⟨h1, h2, h3, h4, h5, h6, h7, h8, h9, h10, hff⟩ := ht
  refine ⟨h1, h5, hff, ?_⟩
  have h3' : s.timerFc = _ := h3
  have hcfg := h.base.cfg
  have haddr := h.base.addr
  have hvt := valid_of S.c S.a hS.va
  have hstep := carried_step (TxCfg.of S.c S.a) S.p.length k h1 h5
  have hroom := cfRoom_pos _ hvt
  have e1 : s.processTx = Fc.finish (s.transmitCf (Fc.allowedNow s)) :=
    Fc.processTx_cf_pass s _ h2 (h.pend.trans hp) (by rw [h.fc, hf]; rfl) (by rw [h3']) h4
      (reqAt_depleted S.c S.id S.p _ h5)
  rw [allowed_eq h] at e1
  have hto : s.timerStmin.timedOut s.now = true := by rw [stmin_timedOut hS h h10]; exact hel
  have hcons := reqAt_consumed S.c S.id S.p (S.car k)
  have e2 := transmitCf_exact s noLimit S.p k (reqAt S.c S.id S.p (S.car k)) S.c'.blocksize
    (by rw [hcfg]; exact hS.va) h4 h8 (reqAt_feeds S.c S.id S.p _ (Nat.le_of_lt h5)) h1
    (by rw [hcons, hcfg, haddr]; rfl) (by rw [hcons]; exact h5) h6
    (by rw [hcons, reqAt_src_length]; exact Nat.min_le_right _ _) hto
    (by rw [hcfg, haddr]; exact (txDl_le_noLimit S.c S.a hS.va).2)
  have hm : S.car k + min (cfRoom (TxCfg.of S.c S.a)) (S.p.length - S.car k) = S.car (k + 1) := by
    unfold Side.car at *; omega
  have hseq' : (k % 16 + 1) % 16 = (k + 1) % 16 := by omega
  have hw : S.outMsg (.dat k) = frameMsg S.c S.a (S.a.tx.txId .physical) (cfData (TxCfg.of S.c S.a) S.p k) := by
    rw [outMsg_ff hff k]
    have : k ≠ 0 := by omega
    simp [wireA, frameData, this]
  have hseq : s.txSeq = k % 16 := h6
  have hj : s.txBlockCnt = j := h9
  have hts : s.timerStmin = _ := h10
  have hcs : cfSent s (reqAt S.c S.id S.p (S.car k))
      (min (cfRoom (TxCfg.of S.c S.a)) (S.p.length - S.car k)) =
      { s with active := some (reqAt S.c S.id S.p (S.car (k + 1))), txSeq := (k + 1) % 16, txBlockCnt := j + 1,
               timerStmin := { start := some s.now, timeout := effOf S.c S.c' } } := by
    unfold cfSent
    rw [reqAt_adv, pullLog_reqAt, hm]
    simp [hseq, hseq', hj, hts, Timer.startAt]
  rw [hcons, hcfg, haddr] at e2
  rw [e1, e2]
  have hc1 : carried (TxCfg.of S.c S.a) S.p.length (k + 1) = S.car (k + 1) := rfl
  simp only [hc1, hcs, hj, hw]

/-- TRANSMIT_CF once the separation time has elapsed: frame `k` goes out; then the message is complete, or the block
    is complete (back to WAIT_FC, immediate receive pass requested), or the FSM stays in TRANSMIT_CF with the STmin
    timer restarted -/
theorem tx_T_emit (hS : SideOk S) (h : Rep S R al s) {k j r : Nat} (htx : al.tx = .T k j r) (hp : al.pend = false)
    (hf : al.fc = false) (hel : (S.par.z || decide (r < R)) = true) :
    ∃ s', s'.exc = none ∧
      if k + 1 = S.par.n then
        s.processTx = (s', some (S.outMsg (.dat k)), false) ∧ Rep S R { al with tx := .D, done := true } s'
      else if S.par.bs' ≠ 0 ∧ j + 1 ≥ S.par.bs' then
        s.processTx = (s', some (S.outMsg (.dat k)), true) ∧ Rep S R { al with tx := .W (k + 1) R } s'
      else
        s.processTx = (s', some (S.outMsg (.dat k)), false) ∧ Rep S R { al with tx := .T (k + 1) (j + 1) R } s' := by
  obtain ⟨hk, hmore, hff, e⟩ := tx_T_core hS h htx hp hf hel
  have hvt := valid_of S.c S.a hS.va
  have hlast := last_iff _ hvt S.p hff k hk hmore
  have ht := h.tx
  rw [htx] at ht
  obtain ⟨h1, h2, h3, h4, h5, h6, h7, h8, h9, h10, -⟩ := ht
  have h3' : s.timerFc = _ := h3
  have hle := carried_le (TxCfg.of S.c S.a) S.p.length (k + 1)
  by_cases hl : k + 1 = S.par.n
  · have hl' : S.car (k + 1) = S.p.length := hlast.mpr hl
    rw [if_pos hl'] at e
    simp only [stopSending, emit, Timer.stop, reqAt_id] at e
    unfold Fc.finish at e
    simp only [h.exc0, h.inform, Bool.false_eq_true, if_false] at e
    refine ⟨s.processTx.1, by rw [e]; exact h.base.exc, ?_⟩
    rw [if_pos hl, e]
    refine ⟨rfl, ?_⟩
    refine ⟨⟨h.base.cfg, h.base.addr, rfl, h.base.exc, h.base.rl⟩, ?_, h.rx, h.fc, h.pend, h.pstat, h.inbox, h.now,
      ?_, ?_, ?_⟩
    · show TxRep S .D _
      refine ⟨rfl, h7, ?_, rfl⟩
      show ({ start := none, timeout := s.timerFc.timeout } : Timer) = _
      rw [h3']
    · show txsOf (.done _ true :: s.log) = _; rw [txsOf_done]; exact h.out
    · exact NoErr_cons h.noerr (by intro t e h; cases h)
    · intro _; exact List.mem_cons_self
  · have hl' : ¬ S.car (k + 1) = S.p.length := fun hh => hl (hlast.mp hh)
    have hmore' : S.car (k + 1) < S.p.length := by unfold Side.car at *; omega
    rw [if_neg hl'] at e
    by_cases hb : S.par.bs' ≠ 0 ∧ j + 1 ≥ S.par.bs'
    · have hb' : S.c'.blocksize ≠ 0 ∧ j + 1 ≥ S.c'.blocksize := hb
      rw [if_pos hb'] at e
      unfold Fc.finish at e
      simp only [h.exc0, h.inform, Bool.false_eq_true, if_false] at e
      refine ⟨s.processTx.1, by rw [e]; exact h.base.exc, ?_⟩
      rw [if_neg hl, if_pos hb, e]
      refine ⟨rfl, ?_⟩
      refine ⟨h.base' _ rfl rfl rfl rfl rfl, ?_, h.rx, h.fc, h.pend, h.pstat, h.inbox, h.now, h.out, h.noerr, h.done⟩
      show TxRep S (.W (k + 1) R) _
      refine ⟨by omega, rfl, ?_, rfl, hmore', rfl, h7, hff⟩
      show ({ start := some s.now, timeout := S.c.tFc } : Timer) = _
      rw [h.now]
    · have hb' : ¬ (S.c'.blocksize ≠ 0 ∧ j + 1 ≥ S.c'.blocksize) := hb
      rw [if_neg hb'] at e
      unfold Fc.finish at e
      simp only [h.exc0, h.inform, Bool.false_eq_true, if_false] at e
      refine ⟨s.processTx.1, by rw [e]; exact h.base.exc, ?_⟩
      rw [if_neg hl, if_neg hb, e]
      refine ⟨rfl, ?_⟩
      refine ⟨h.base' _ rfl rfl rfl rfl rfl, ?_, h.rx, h.fc, h.pend, h.pstat, h.inbox, h.now, h.out, h.noerr, h.done⟩
      show TxRep S (.T (k + 1) (j + 1) R) _
      refine ⟨by omega, h2, h3, rfl, hmore', rfl, h7, h8, rfl, ?_, hff⟩
      show ({ start := some s.now, timeout := effOf S.c S.c' } : Timer) = _
      rw [h.now]

/-- the state machine part of `_process_tx` is the abstract one -/
theorem fsm_sim (hS : SideOk S) (h : Rep S R al s) (hp : al.pend = false) (hf : al.fc = false)
    (hW : ∀ k r, al.tx = .W k r → R - r ≤ S.kFc) (al' : AL) (out : Option Fr) (imm : Bool)
    (ha : absFsm S.par R al = some (al', out, imm)) :
    ∃ s', s.processTx = (s', out.map S.outMsg, imm) ∧ s'.exc = none ∧ Rep S R al' s' := by
  unfold absFsm at ha
  split at ha
  · next htx =>
    split at ha
    · next hn =>
      simp only [Option.some.injEq, Prod.mk.injEq] at ha
      obtain ⟨rfl, rfl, rfl⟩ := ha
      exact tx_sf hS h htx hp hf hn
    · next hn =>
      simp only [Option.some.injEq, Prod.mk.injEq] at ha
      obtain ⟨rfl, rfl, rfl⟩ := ha
      exact tx_first hS h htx hp hf hn
  · next k r htx =>
    simp only [Option.some.injEq, Prod.mk.injEq] at ha
    obtain ⟨rfl, rfl, rfl⟩ := ha
    exact ⟨s, tx_W hS h htx hp hf (hW k r htx), h.base.exc, h⟩
  · next k j r htx =>
    split at ha
    · next hel =>
      obtain ⟨s', hexc, hs'⟩ := tx_T_emit hS h htx hp hf hel
      split at ha
      · next hl =>
        simp only [Option.some.injEq, Prod.mk.injEq] at ha
        obtain ⟨rfl, rfl, rfl⟩ := ha
        rw [if_pos hl] at hs'
        exact ⟨s', hs'.1, hexc, hs'.2⟩
      · next hl =>
        rw [if_neg hl] at hs'
        split at ha
        · next hb =>
          simp only [Option.some.injEq, Prod.mk.injEq] at ha
          obtain ⟨rfl, rfl, rfl⟩ := ha
          rw [if_pos hb] at hs'
          exact ⟨s', hs'.1, hexc, hs'.2⟩
        · next hb =>
          simp only [Option.some.injEq, Prod.mk.injEq] at ha
          obtain ⟨rfl, rfl, rfl⟩ := ha
          rw [if_neg hb] at hs'
          exact ⟨s', hs'.1, hexc, hs'.2⟩
    · next hel =>
      simp only [Option.some.injEq, Prod.mk.injEq] at ha
      obtain ⟨rfl, rfl, rfl⟩ := ha
      have hel' : (S.par.z || decide (r < R)) = false := by simpa using hel
      exact ⟨s, tx_T_wait hS h htx hp hf hel', h.base.exc, h⟩
  · next htx =>
    simp only [Option.some.injEq, Prod.mk.injEq] at ha
    obtain ⟨rfl, rfl, rfl⟩ := ha
    exact ⟨s, tx_D h htx hp hf, h.base.exc, h⟩

/-- **one `_process_tx` call is one abstract step** -/
theorem tx_sim (hS : SideOk S) (h : Rep S R al s) (al' : AL) (out : Option Fr) (imm : Bool)
    (ha : absTx S.par R al = some (al', out, imm)) :
    ∃ s', s.processTx = (s', out.map S.outMsg, imm) ∧ s'.exc = none ∧ Rep S R al' s' := by
  unfold absTx at ha
  split at ha
  · next hp =>
    split at ha
    · next i t hrx =>
      simp only [Option.some.injEq, Prod.mk.injEq] at ha
      obtain ⟨rfl, rfl, rfl⟩ := ha
      exact tx_pend hS h hp hrx
    · cases ha
  · next hp =>
    have hp : al.pend = false := by simpa using hp
    split at ha
    · cases ha
    next tx hm =>
    unfold absMail at hm
    split at hm
    · next k r htx =>
      split at hm
      · next hr =>
        have hr' : R - r ≤ S.kFc := hr
        split at hm
        · next hf =>
          simp only [Option.some.injEq] at hm
          subst hm
          obtain ⟨s2, e, h2⟩ := tx_fc hS h htx hp hf hr'
          rw [e]
          exact fsm_sim hS h2 hp rfl (by intro k' r' hh; cases hh) al' out imm ha
        · next hf =>
          have hf : al.fc = false := by simpa using hf
          simp only [Option.some.injEq] at hm
          subst hm
          have e : ({ al with fc := false, tx := .W k r } : AL) = al := by
            cases al; simp_all
          rw [e] at ha
          exact fsm_sim hS h hp hf (by intro k' r' hh; rw [htx] at hh; cases hh; exact hr') al' out imm ha
      · cases hm
    · next t hnw =>
      split at hm
      · cases hm
      next hf =>
      have hf : al.fc = false := by simpa using hf
      simp only [Option.some.injEq] at hm
      subst hm
      have e : ({ al with fc := false, tx := al.tx } : AL) = al := by
        cases al; simp_all
      rw [e] at ha
      exact fsm_sim hS h hp hf (by intro k' r' hh; exact absurd hh (hnw k' r')) al' out imm ha

end tx

end Isotp.DuplexLive
