"""Writes seeded/MATRIX.md from seeded/*/meta.json + detection.json (which checks report each seeded change)."""
import os, json, glob
HERE = os.path.dirname(os.path.abspath(__file__))
VERIF = os.path.dirname(HERE)
rows = []
metas = {}
for d in sorted(glob.glob(os.path.join(VERIF, 'seeded', '*', 'meta.json'))):
    name = os.path.basename(os.path.dirname(d))
    meta = json.load(open(d))
    metas[name] = meta
    det = {}
    p = os.path.join(os.path.dirname(d), 'detection.json')
    if os.path.exists(p):
        det = json.load(open(p))
    target = meta.get('checked_by') or name[:3]
    by = det.get('detected_by')
    wi = det.get('with_failing_input', [])
    rows.append((name, target, meta.get('summary', '')[:150].replace('|', '/').replace('\n', ' '), by, wi))
lines = ['# Mutation self-test: which checks report which seeded change', '',
         'Each change was written by an independent sub-agent that saw only the property text and a scratch worktree; it passes the',
         "repository's 130 tests and breaks the property only under specific conditions (see each `meta.json` and `demo.py`).",
         'Quick tier, seed 0, patch applied to a scratch worktree of /repo HEAD (`harness/seedmatrix.py`). "input" = the check produced a',
         'concrete failing scenario (replay); otherwise it reported the broken correspondence (`no-failing-input-found`).', '',
         '| seeded change | target | reported by target? | with failing input | other checks that report it | what it is |', '|---|---|---|---|---|---|']
hit = miss = notrun = 0
for name, target, summ, by, wi in rows:
    if by is None:
        notrun += 1
        lines.append('| %s | %s | (not run) | | | %s |' % (name, target, summ))
        continue
    ok = target in by
    hit += ok
    miss += (not ok)
    note = metas[name].get('outside_quantifier')
    if note and not ok:
        summ = '**outside the property\'s schedule space: %s** ' % note + summ
    lines.append('| %s | %s | %s | %s | %s | %s |' % (name, target, 'yes' if ok else '**NO**', 'yes' if target in wi else ('-' if ok else ''),
                                                  ' '.join(b for b in by if b != target), summ))
lines += ['', 'Summary: %d seeded changes, %d reported by the check of the property they target, %d not, %d not run.' % (len(rows), hit, miss, notrun), '']
open(os.path.join(VERIF, 'seeded', 'MATRIX.md'), 'w').write('\n'.join(lines))
print('hit', hit, 'miss', miss, 'notrun', notrun)
