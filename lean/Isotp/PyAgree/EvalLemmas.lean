import Isotp.PyAgree.AddressEnv
/-! Evaluation lemmas at the level of Python values (so that `simp` never has to unfold `evalCmp` / `evalBinop` on symbolic values). -/
namespace Isotp.PyAgree
open Isotp Isotp.Py

@[simp] theorem ok_bind {ε α β : Type} (a : α) (f : α → Except ε β) : (Except.ok a >>= f) = f a := rfl
@[simp] theorem error_bind {ε α β : Type} (e : ε) (f : α → Except ε β) : ((Except.error e : Except ε α) >>= f) = .error e := rfl
@[simp] theorem map_ok {ε α β : Type} (a : α) (f : α → β) : Except.map f (Except.ok a : Except ε α) = .ok (f a) := rfl
@[simp] theorem map_error {ε α β : Type} (e : ε) (f : α → β) : Except.map f (Except.error e : Except ε α) = .error e := rfl

@[simp] theorem ite_ok {ε α : Type} (c : Prop) [Decidable c] (a b : α) :
    (if c then (Except.ok a : Except ε α) else Except.ok b) = .ok (if c then a else b) := by split <;> rfl
@[simp] theorem ite_pbool (c : Prop) [Decidable c] (a b : Bool) :
    (if c then pbool a else pbool b) = pbool (if c then a else b) := by split <;> rfl

@[simp] theorem truthy_pbool (b : Bool) : truthy (pbool b) = .ok b := rfl
@[simp] theorem truthy_pnone : truthy pnone = .ok false := rfl
@[simp] theorem truthy_pint (i : Int) : truthy (pint i) = .ok (i != 0) := rfl

@[simp] theorem evalCmp_eq (a b : PV) : evalCmp .eq a b = .ok (pbool (pvEq a b)) := rfl
@[simp] theorem evalCmp_ne (a b : PV) : evalCmp .ne a b = .ok (pbool (!pvEq a b)) := rfl
@[simp] theorem evalCmp_isIn (a : PV) (xs : List Sc) :
    evalCmp .isIn a (.list xs) = .ok (pbool (xs.any fun x => pvEq a (.sc x))) := rfl
@[simp] theorem evalCmp_notIn (a : PV) (xs : List Sc) :
    evalCmp .notIn a (.list xs) = .ok (pbool (!(xs.any fun x => pvEq a (.sc x)))) := rfl

@[simp] theorem pvEq_pbool (a b : Bool) : pvEq (pbool a) (pbool b) = (a == b) := by
  cases a <;> cases b <;> rfl
@[simp] theorem pvEq_pint (a b : Int) : pvEq (pint a) (pint b) = (a == b) := by
  simp [pvEq, Sc.eq, PyVal.pyEq, PyVal.isInt, PyVal.intVal]
@[simp] theorem pvEq_pint_pnone (a : Int) : pvEq (pint a) pnone = false := rfl
@[simp] theorem pvEq_pnone_pint (a : Int) : pvEq pnone (pint a) = false := rfl
@[simp] theorem pvEq_pnone_pnone : pvEq pnone pnone = true := rfl
@[simp] theorem pvEq_pint_sc (a b : Int) : pvEq (pint a) (.sc (.py (.int b))) = (a == b) := pvEq_pint a b
@[simp] theorem pvEq_enum (c m c' m' : String) :
    pvEq (.sc (.enum c m)) (.sc (.enum c' m')) = (c == c' && m == m') := rfl
@[simp] theorem pvEq_enum_sc_py (c m : String) (v : PyVal) : pvEq (.sc (.enum c m)) (.sc (.py v)) = false := rfl
@[simp] theorem pvEq_py_enum (c m : String) (v : PyVal) : pvEq (.sc (.py v)) (.sc (.enum c m)) = false := rfl

/-- `int == Optional[int]` -/
@[simp] theorem pvEq_pint_optPV (a : Nat) (o : Option Nat) : pvEq (pint a) (optPV o) = (o == some a) := by
  cases o with
  | none => simp [optPV]
  | some n =>
    simp only [optPV, pvEq_pint]
    rw [Bool.eq_iff_iff]; simp; omega

theorem isNone_optPV (o : Option Nat) : (optPV o == pnone) = o.isNone := by
  cases o <;> simp [optPV, pnone, pint]

theorem evalBinop_nonneg (op : BinOp) (x y : Int) (hx : 0 ≤ x) (hy : 0 ≤ y) :
    evalBinop op (pint x) (pint y) =
      match op with
      | .add => .ok (pint (x + y))
      | .sub => .ok (pint (x - y))
      | .mul => .ok (pint (x * y))
      | .truediv => if y = 0 then .error .zeroDivision else .ok (.sc (.py (.float x y.natAbs)))
      | .band => .ok (pint (x.toNat &&& y.toNat : Nat))
      | .bor => .ok (pint (x.toNat ||| y.toNat : Nat))
      | .bxor => .ok (pint (x.toNat ^^^ y.toNat : Nat))
      | .shl => .ok (pint (x.toNat <<< y.toNat : Nat))
      | .shr => .ok (pint (x.toNat >>> y.toNat : Nat))
      | .floordiv => if y.toNat = 0 then .error .zeroDivision else .ok (pint (x.toNat / y.toNat : Nat))
      | .mod => if y.toNat = 0 then .error .zeroDivision else .ok (pint (x.toNat % y.toNat : Nat)) := by
  have hx' : ¬ x < 0 := by omega
  have hy' : ¬ y < 0 := by omega
  cases op <;> simp [evalBinop, asInt, Sc.isInt, Sc.intVal, PyVal.isInt, PyVal.intVal, pint, hx', hy']

@[simp] theorem evalBinop_band (x y : Int) (hx : 0 ≤ x) (hy : 0 ≤ y) :
    evalBinop .band (pint x) (pint y) = .ok (pint (x.toNat &&& y.toNat : Nat)) := evalBinop_nonneg _ x y hx hy
@[simp] theorem evalBinop_bor (x y : Int) (hx : 0 ≤ x) (hy : 0 ≤ y) :
    evalBinop .bor (pint x) (pint y) = .ok (pint (x.toNat ||| y.toNat : Nat)) := evalBinop_nonneg _ x y hx hy
@[simp] theorem evalBinop_shr (x y : Int) (hx : 0 ≤ x) (hy : 0 ≤ y) :
    evalBinop .shr (pint x) (pint y) = .ok (pint (x.toNat >>> y.toNat : Nat)) := evalBinop_nonneg _ x y hx hy
@[simp] theorem evalBinop_shl (x y : Int) (hx : 0 ≤ x) (hy : 0 ≤ y) :
    evalBinop .shl (pint x) (pint y) = .ok (pint (x.toNat <<< y.toNat : Nat)) := evalBinop_nonneg _ x y hx hy
@[simp] theorem evalBinop_add (x y : Int) : evalBinop .add (pint x) (pint y) = .ok (pint (x + y)) := rfl
@[simp] theorem evalBinop_sub (x y : Int) : evalBinop .sub (pint x) (pint y) = .ok (pint (x - y)) := rfl
@[simp] theorem evalBinop_mul (x y : Int) : evalBinop .mul (pint x) (pint y) = .ok (pint (x * y)) := rfl

/-- integer literals of the source are `Int` literals; the values they meet are casts of `Nat`s -/
theorem pint_lit (n : Nat) : pint (OfNat.ofNat n) = pint ((n : Nat) : Int) := rfl

end Isotp.PyAgree
